/-
C14 driver: one JSON request per line on stdin, one JSON answer per line on stdout.

  {"op":"fields"}                                   -> {"fields":[..]}   (generated dataclass field list)
  {"op":"layout","backend":B,"file":F}              -> {"head":s,"rest":[{"xs","pre","post","static"}],"lenient":bool} | {"none":true}
  {"op":"docs_ok","backend":B}                      -> {"ok":bool,"detail":[..]}
  {"op":"render","backend":B,"lists":{k:[s]},"scalars":{k:s}}
                                                    -> {"files":{F:s},"recognised":{F:bool}}
  {"op":"spec_info","backend":B,"lists":{k:[s]},"files":{F:s}} -> {"holds":bool,"why":s}
  {"op":"process","mds":[MD]}                       -> {"ok":[BLOCK]} | {"err":"badItem"|"conflict"}
  {"op":"spec_process","mds":[MD],"outcome":{"ok":[BLOCK]}|{"refused":true}} -> {"holds":bool,"why":s}
  {"op":"package","backend":B,"mds":[MD],"base":BASE} -> {"files":{F:s}} | {"err":..}
  {"op":"spec","backend":B,"mds":[MD],"base":BASE,"outcome":{"files":{F:s}}|{"refused":true}}
                                                    -> {"holds":bool,"why":s}
  MD    = {"inject":{"name":s|null,"fields":[[key,[s]]]}} | {"other":s}
  BLOCK = {"name":s,"vals":[[key,[s]]]}
  BASE  = {"query_code":[s],"class_decl":[s],"book_code":[s],"includes":[s],"link_libs":[s],"job_options":[s]}
  B     = "atlas" | "cms_aod" | "cms_miniaod"

Run: lake env lean --run FaxVerif/C14/Driver.lean
-/
import Lean.Data.Json
import FaxVerif.C14.Spec
import FaxVerif.Generated.C14Templates
open Lean FaxVerif.Tmpl FaxVerif.C14 FaxVerif.Generated.C14

def toS (s : Str) : String := String.ofList s
def jstr (s : Str) : Json := Json.str (toS s)
def jstrs (l : List Str) : Json := Json.arr (l.map jstr).toArray

def strList (j : Json) : Except String (List Str) := do
  let a ← j.getArr?
  a.toList.mapM fun x => do pure (← x.getStr?).toList

def kvList (j : Json) : Except String (List (String × List Str)) := do
  let a ← j.getArr?
  a.toList.mapM fun kv => do
    let p ← kv.getArr?
    if p.size != 2 then throw "key/value pair expected"
    pure (← p[0]!.getStr?, ← strList p[1]!)

def parseMd (j : Json) : Except String Md := do
  match j.getObjVal? "other" with
  | .ok o => pure (.other (← o.getStr?).toList)
  | .error _ =>
    let i ← j.getObjVal? "inject"
    let name ← match i.getObjVal? "name" with
      | .ok (.str s) => pure (some s.toList)
      | _ => pure none
    let fields ← kvList (← i.getObjVal? "fields")
    pure (.inject ⟨name, fields⟩)

def parseMds (j : Json) : Except String (List Md) := do
  let a ← (← j.getObjVal? "mds").getArr?
  a.toList.mapM parseMd

def optList (j : Json) (k : String) : Except String (List Str) :=
  match j.getObjVal? k with
  | .ok v => strList v
  | .error _ => pure []

def parseBase (j : Json) : Except String Base := do
  let b ← j.getObjVal? "base"
  pure { queryCode := ← optList b "query_code", classDecl := ← optList b "class_decl",
         bookCode := ← optList b "book_code", includes := ← optList b "includes",
         linkLibs := ← optList b "link_libs", jobOptions := ← optList b "job_options" }

def parseBlock (j : Json) : Except String Block := do
  pure ⟨(← (← j.getObjVal? "name").getStr?).toList, ← kvList (← j.getObjVal? "vals")⟩

def blockJson (b : Block) : Json :=
  Json.mkObj [("name", jstr b.name),
    ("vals", Json.arr (b.vals.map fun kv => Json.arr #[Json.str kv.1, jstrs kv.2]).toArray)]

def objPairs (j : Json) : Except String (List (String × Json)) := do
  let o ← j.getObj?
  pure (o.toList)

def parseFiles (j : Json) : Except String (List (String × Str)) := do
  let ps ← objPairs j
  ps.mapM fun (k, v) => do pure (k, (← v.getStr?).toList)

def filesOf (backend : String) : Except String (List (String × Template) × List (String × Template) × List FileDoc) :=
  if backend == "atlas" then pure (atlasFiles, atlasLenient, atlasDocs)
  else if backend == "cms_aod" then pure (cms_aodFiles, cms_aodLenient, cmsDocs)
  else if backend == "cms_miniaod" then pure (cms_miniaodFiles, cms_miniaodLenient, cmsDocs)
  else throw s!"unknown backend {backend}"

def placedOf (backend : String) : Option (List String) := if backend == "atlas" then atlasPlaced else none

def lostWhy (fields : List String) (placed : Option (List String)) (bs : List Block) : String :=
  match placed with
  | none => ""
  | some ps =>
    let lost := bs.flatMap fun b => (fields.filter fun f => !(b.get f).isEmpty && !ps.contains f).map fun f => s!"{f} of block {toS b.name}"
    s!"lines in a field that has no documented place in the package: {lost}"

/-- strict layouts first, lenient ones as fall-back witnesses -/
def witnessFor (strict lenient : List (String × Template)) : List (String × Layout) :=
  witOf strict ++ witOf lenient

def errKind : Err → String
  | .badItem => "badItem"
  | .conflict _ => "conflict"

def answer (holds : Bool) (why : String) : Json := Json.mkObj [("holds", holds), ("why", why)]

def snippet (s : Str) (at_ : Nat) : String :=
  toS ((s.drop (at_ - 30)).take 80)

def firstDiff : Str → Str → Nat → Option Nat
  | [], [], _ => none
  | a :: as, b :: bs, n => if a = b then firstDiff as bs (n + 1) else some n
  | _, _, n => some n

def badWhy (fields : List String) (mds : List Md) : String :=
  if decide (Malformed fields mds) then "a dictionary has an unknown key or no name"
  else if decide (Conflict fields mds) then "two blocks share a name with different content"
  else ""

/-- explain which part of `SpecFile` fails -/
def specFileWhy (d : FileDoc) (info : Info) (wit : List (String × Layout)) (out : List (String × Str)) : String :=
  match lookup d.file wit, lookup d.file out with
  | none, _ => s!"{d.file}: its template has no layout (directive outside the modelled subset)"
  | _, none => s!"{d.file}: file not produced"
  | some L, some f =>
    let want := renderLayout L info
    match firstDiff f want 0 with
    | some n =>
      s!"{d.file}: differs from layout filled with the expected lines at offset {n}: got ⟪{snippet f n}⟫ expected ⟪{snippet want n}⟫"
    | none =>
      let ds := d.slots.filter fun sd => present info sd.xs
      let cs := (annot L).filter fun c => present info c.slot.xs
      let dn := ds.map (·.xs)
      let cn := cs.map (·.slot.xs)
      if dn != cn then s!"{d.file}: slots holding lines are {cn}, documented {dn}"
      else
        let bad := (ds.zip cs).filter fun (sd, c) => !slotOk sd c
        let descr := bad.map fun (sd, c) =>
          let why :=
            if !(trimL c.slot.pre == sd.preCore && trimR c.slot.post == sd.postCore) then "decoration"
            else if !sepOk sd.sep c then "separation"
            else if !regionOk sd.region c.before c.after then "region"
            else "?"
          s!"{sd.xs}:{why}"
        s!"{d.file}: slot not at its documented place: {descr}"

def handle (line : String) : String :=
  match Json.parse line with
  | .error e => (Json.mkObj [("bad", e)]).compress
  | .ok j =>
    let r : Except String Json := do
      let op ← (← j.getObjVal? "op").getStr?
      if op == "fields" then
        pure (Json.mkObj [("fields", Json.arr (injectFields.map Json.str).toArray)])
      else if op == "process" then
        match processMd injectFields (← parseMds j) [] with
        | .ok bs => pure (Json.mkObj [("ok", Json.arr (bs.map blockJson).toArray)])
        | .error e => pure (Json.mkObj [("err", errKind e)])
      else if op == "spec_process" then
        let mds ← parseMds j
        let o ← j.getObjVal? "outcome"
        match o.getObjVal? "ok" with
        | .ok bsj =>
          let bs ← (← bsj.getArr?).toList.mapM parseBlock
          if decide (SpecProcess injectFields mds (some bs)) then pure (answer true "")
          else if decide (Bad injectFields mds) then pure (answer false ("accepted although " ++ badWhy injectFields mds))
          else pure (answer false "returned blocks are not the first occurrences, in order, of the blocks sent")
        | .error _ =>
          if decide (SpecProcess injectFields mds none) then pure (answer true "")
          else pure (answer false "refused although every dictionary is well formed and no two blocks conflict")
      else
        let backend ← (← j.getObjVal? "backend").getStr?
        let (strict, lenient, docs) ← filesOf backend
        if op == "layout" then
          let f ← (← j.getObjVal? "file").getStr?
          let mk (L : Layout) (len : Bool) : Json :=
            Json.mkObj [("head", jstr L.head), ("lenient", len),
              ("rest", Json.arr (L.rest.map fun (s, st) =>
                Json.mkObj [("xs", s.xs), ("pre", jstr s.pre), ("post", jstr s.post), ("static", jstr st)]).toArray)]
          match lookup f (witOf strict) with
          | some L => pure (mk L false)
          | none =>
            match lookup f (witOf lenient) with
            | some L => pure (mk L true)
            | none => pure (Json.mkObj [("none", true)])
        else if op == "docs_ok" then
          let detail := docs.map fun d =>
            match lookup d.file strict with
            | none => Json.str s!"{d.file}: no template"
            | some t =>
              match flatten t with
              | none => Json.str s!"{d.file}: no layout"
              | some L =>
                if matchDocs d.slots (annot L) then Json.str s!"{d.file}: ok"
                else
                  let cn := (annot L).map (·.slot.xs)
                  let dn := d.slots.map (·.xs)
                  if cn != dn then Json.str s!"{d.file}: template slots {cn}, documented {dn}"
                  else Json.str (s!"{d.file}: slots not at their documented place: " ++ toString ((d.slots.zip (annot L)).filterMap fun (sd, c) =>
                    if slotOk sd c then none else some sd.xs))
          pure (Json.mkObj [("ok", docsOk strict docs), ("detail", Json.arr detail.toArray)])
        else if op == "render" then
          let lists ← (← objPairs (← j.getObjVal? "lists")).mapM fun (k, v) => do pure (k, ← strList v)
          let scalars ← match j.getObjVal? "scalars" with
            | .ok sc => (← objPairs sc).mapM fun (k, v) => do pure (k, (← v.getStr?).toList)
            | .error _ => pure []
          let info : Info := { scalars, lists }
          pure (Json.mkObj [
            ("files", Json.mkObj (strict.map fun (n, t) => (n, jstr (render t info)))),
            ("recognised", Json.mkObj (strict.map fun (n, t) => (n, Json.bool (recognisedAll t))))])
        else if op == "spec_info" then
          -- the file-level property for an arbitrary context (jinja2 stream)
          let lists ← (← objPairs (← j.getObjVal? "lists")).mapM fun (k, v) => do pure (k, ← strList v)
          let info : Info := { scalars := [], lists }
          let out ← parseFiles (← j.getObjVal? "files")
          let wit := witnessFor strict lenient
          let whys := docs.filterMap fun d =>
            if decide (SpecFileAt d info wit out) then none else some (specFileWhy d info wit out)
          pure (answer whys.isEmpty (String.intercalate "; " whys))
        else if op == "package" then
          let mds ← parseMds j
          let base ← parseBase j
          match runPackage injectFields strict mds base with
          | .ok out =>
            let lists := match processMd injectFields mds [] with
              | .ok bs => (mkInfo base bs).lists
              | .error _ => []
            pure (Json.mkObj [("files", Json.mkObj (out.map fun (n, s) => (n, jstr s))),
              ("lists", Json.mkObj (lists.map fun (k, v) => (k, jstrs v)))])
          | .error e => pure (Json.mkObj [("err", errKind e)])
        else if op == "spec" then
          let mds ← parseMds j
          let base ← parseBase j
          let wit := witnessFor strict lenient
          let placed := placedOf backend
          let o ← j.getObjVal? "outcome"
          match o.getObjVal? "files" with
          | .error _ =>
            if decide (SpecOutcome injectFields docs placed wit mds base .refused) then pure (answer true "")
            else pure (answer false "refused although every dictionary is well formed and no two blocks conflict")
          | .ok fj =>
            let out ← parseFiles fj
            if decide (SpecOutcome injectFields docs placed wit mds base (.files out)) then pure (answer true "")
            else if decide (Bad injectFields mds) then pure (answer false ("package generated although " ++ badWhy injectFields mds))
            else if !decide (NoLostLines injectFields placed (effective injectFields mds)) then
              pure (answer false (lostWhy injectFields placed (effective injectFields mds)))
            else
              let info := expectedInfo base (effective injectFields mds)
              let whys := docs.filterMap fun d =>
                if decide (SpecFileAt d info wit out) then none else some (specFileWhy d info wit out)
              pure (answer false (String.intercalate "; " whys))
        else throw s!"unknown op {op}"
    match r with
    | .ok j => j.compress
    | .error e => (Json.mkObj [("bad", e)]).compress

partial def loopIO (h : IO.FS.Stream) (out : IO.FS.Stream) : IO Unit := do
  let line ← h.getLine
  if line.isEmpty then return ()
  let t := line.trimAscii.toString
  if !t.isEmpty then out.putStrLn (handle t)
  loopIO h out

def main : IO Unit := do
  let out ← IO.getStdout
  loopIO (← IO.getStdin) out
  out.flush
