/-
C14 — executable model.

Part 1 (`FaxVerif.Tmpl`, reusable by other properties): the subset of jinja2 that the files under
`func_adl_xAOD/template/**` use, with jinja2's defaults (`trim_blocks=False`,
`lstrip_blocks=False`, `keep_trailing_newline=False`, autoescape off).  Whitespace control
(`{%- … -%}`), comment removal, newline normalisation and the removal of the single trailing
newline are *lexer* matters: they are applied by the translator (tools/props/c14.py) when it
turns a template file into a `Template` constant, exactly as jinja2's lexer does, so the AST below
only has the nodes that survive lexing.  Text is `List Char` (`Str`), not `String`: the kernel can
evaluate functions on `List Char` literals of several thousand characters, and every list lemma
applies.  The driver converts with `String.toList` / `String.ofList`.

Part 2 (`FaxVerif.C14`): `process_metadata`'s handling of `inject_code` dictionaries
(`InjectCodeBlock(**info)`, `ok_to_add_code_block`), the executor's `_ib_fetch` and the
replacement dictionary built by `write_cpp_files`.

No Mathlib / Batteries import; everything is total, computable and structurally recursive.
-/
namespace FaxVerif.Tmpl

/-- Text: a list of Unicode scalar values (what a Python `str` without lone surrogates is). -/
abbrev Str := List Char

/-- Template AST *after* lexing. `x`, `xs`, `v` are jinja identifiers. -/
inductive Node where
  /-- template data, copied to the output -/
  | text (s : Str)
  /-- `{{ v }}` where `v` is a plain name (a loop variable or a string in the context) -/
  | var (v : String)
  /-- `{% for x in xs %} body {% endfor %}`, `xs` a plain name of a list of strings -/
  | forIn (x xs : String) (body : List Node)
  /-- anything the translator does not recognise (filters, `if`, `set`, `raw`, `loop.index`, …) -/
  | unrecognised (src : String)
deriving Repr, Inhabited

abbrev Template := List Node

/-- The rendering context: string variables and list-of-strings variables. -/
structure Info where
  scalars : List (String × Str) := []
  lists : List (String × List Str) := []
deriving Repr, Inhabited

/-- first binding of `k` (Python dict / jinja scope lookup) -/
def lookup {β : Type} (k : String) : List (String × β) → Option β
  | [] => none
  | (k', v) :: r => if k' = k then some v else lookup k r

/-- jinja's default `Undefined` iterates as the empty sequence -/
def Info.getList (i : Info) (k : String) : List Str := (lookup k i.lists).getD []

/-- jinja's default `Undefined` prints as the empty string -/
def Info.getScalar (i : Info) (k : String) : Str := (lookup k i.scalars).getD []

mutual
/-- `env`: loop variables, innermost first. Substituted values are appended as they are: they are
never re-scanned for template syntax and (autoescape off, no `finalize`) never transformed. -/
def renderNode (info : Info) (env : List (String × Str)) : Node → Str
  | .text s => s
  | .var v => match lookup v env with
    | some s => s
    | none => info.getScalar v
  | .forIn x xs body => (info.getList xs).flatMap fun item => renderNodes info ((x, item) :: env) body
  | .unrecognised _ => []
def renderNodes (info : Info) (env : List (String × Str)) : List Node → Str
  | [] => []
  | n :: ns => renderNode info env n ++ renderNodes info env ns
end

def render (t : Template) (info : Info) : Str := renderNodes info [] t

mutual
/-- no `unrecognised` node anywhere -/
def Node.recognised : Node → Bool
  | .forIn _ _ body => recognisedAll body
  | .unrecognised _ => false
  | _ => true
def recognisedAll : List Node → Bool
  | [] => true
  | n :: ns => n.recognised && recognisedAll ns
end

/-! ### Layouts: templates of the shape `static₀ {for} static₁ {for} … staticₖ`

Every template of the repository is of this shape: between static texts there are `for` loops
whose body is `pre {{x}} post`.  A `Layout` is that shape made explicit. -/

/-- one `{% for x in xs %}pre{{x}}post{% endfor %}` -/
structure Slot where
  xs : String
  pre : Str
  post : Str
deriving Repr, DecidableEq, Inhabited

structure Layout where
  head : Str
  /-- each slot with the static text that follows it -/
  rest : List (Slot × Str)
deriving Repr, DecidableEq, Inhabited

/-- what one slot contributes: every line once, in list order, between `pre` and `post` -/
def itemsText (pre post : Str) (lines : List Str) : Str :=
  lines.flatMap fun l => pre ++ (l ++ post)

def renderRest (info : Info) : List (Slot × Str) → Str
  | [] => []
  | (s, st) :: r => itemsText s.pre s.post (info.getList s.xs) ++ (st ++ renderRest info r)

/-- `static₀ ++ slot₁ ++ static₁ ++ … ++ slotₖ ++ staticₖ` -/
def renderLayout (L : Layout) (info : Info) : Str := L.head ++ renderRest info L.rest

/-- `pre {{x}} post` with `pre`, `post` optional; anything else is not a simple slot -/
def simpleBody (x : String) : List Node → Option (Str × Str)
  | [.var y] => if y = x then some ([], []) else none
  | [.text p, .var y] => if y = x then some (p, []) else none
  | [.var y, .text q] => if y = x then some ([], q) else none
  | [.text p, .var y, .text q] => if y = x then some (p, q) else none
  | _ => none

/-- The layout of a template, if it has one. -/
def flatten : Template → Option Layout
  | [] => some ⟨[], []⟩
  | n :: ns =>
    match flatten ns with
    | none => none
    | some L =>
      match n with
      | .text s => some ⟨s ++ L.head, L.rest⟩
      | .forIn x xs body =>
        match simpleBody x body with
        | some (p, q) => some ⟨[], (⟨xs, p, q⟩, L.head) :: L.rest⟩
        | none => none
      | .var _ => none
      | .unrecognised _ => none

def Layout.skeletonRest : List (Slot × Str) → Str
  | [] => []
  | (_, st) :: r => st ++ Layout.skeletonRest r

/-- the file with every slot emptied: only the template's own text -/
def Layout.skeleton (L : Layout) : Str := L.head ++ Layout.skeletonRest L.rest

end FaxVerif.Tmpl

namespace FaxVerif.C14
open FaxVerif.Tmpl

/-- An `inject_code` metadata dictionary without its `metadata_type` key. Python dictionaries
have unique keys: `fields` is meant to have pairwise different keys, none of them `"name"`. -/
structure MdInject where
  name : Option Str
  fields : List (String × List Str)
deriving Repr, DecidableEq, Inhabited

/-- One metadata item as `process_metadata` sees it; everything that is not `inject_code`
(job scripts, C++ functions, collections: objects that also carry a `.name`) is `other`. -/
inductive Md where
  | inject (m : MdInject)
  | other (name : Str)
deriving Repr, DecidableEq, Inhabited

/-- An `InjectCodeBlock` instance: `vals` has one entry per dataclass field (in dataclass order),
absent keys filled with the default `[]`; dataclass `==` is structural equality of this. -/
structure Block where
  name : Str
  vals : List (String × List Str)
deriving Repr, DecidableEq, Inhabited

inductive Err where
  /-- `InjectCodeBlock(**info)` raised `TypeError` (unknown key / no `name`) → `ValueError` -/
  | badItem
  /-- `ok_to_add_code_block` raised `ValueError` -/
  | conflict (name : Str)
deriving Repr, DecidableEq, Inhabited

/-- `InjectCodeBlock(**info)`; `fs` = the dataclass fields other than `name`. -/
def mkBlock (fs : List String) (m : MdInject) : Except Err Block :=
  match m.name with
  | none => .error .badItem
  | some n =>
    if m.fields.all (fun kv => fs.contains kv.1) then
      .ok ⟨n, fs.map fun f => (f, (lookup f m.fields).getD [])⟩
    else .error .badItem

/-- `ok_to_add_code_block(spec, cpp_funcs)` restricted to the `InjectCodeBlock`s of `cpp_funcs`
(the `isinstance` test skips everything else). -/
def okToAdd (spec : Block) : List Block → Except Err Bool
  | [] => .ok true
  | b :: bs =>
    if b.name = spec.name then
      if b = spec then .ok false else .error (.conflict spec.name)
    else okToAdd spec bs

/-- The `for md in md_list` loop of `process_metadata`, `acc` = the `InjectCodeBlock`s of
`cpp_funcs` so far. A dictionary with no key besides `metadata_type` is skipped (`len(info) > 0`). -/
def processMd (fs : List String) : List Md → List Block → Except Err (List Block)
  | [], acc => .ok acc
  | .other _ :: r, acc => processMd fs r acc
  | .inject m :: r, acc =>
    if m.name.isNone && m.fields.isEmpty then processMd fs r acc
    else
      match mkBlock fs m with
      | .error e => .error e
      | .ok spec =>
        match okToAdd spec acc with
        | .error e => .error e
        | .ok true => processMd fs r (acc ++ [spec])
        | .ok false => processMd fs r acc

def Block.get (b : Block) (f : String) : List Str := (lookup f b.vals).getD []

/-- `executor._ib_fetch(name)` = `list(itertools.chain(*[getattr(md, name) for md in blocks]))` -/
def fetch (bs : List Block) (f : String) : List Str := bs.flatMap (·.get f)

/-- What the query itself (not the metadata) contributes to the replacement dictionary. -/
structure Base where
  queryCode : List Str := []
  classDecl : List Str := []
  bookCode : List Str := []
  includes : List Str := []
  linkLibs : List Str := []
  jobOptions : List Str := []
deriving Repr, Inhabited

/-- The replacement dictionary `info` of `executor.write_cpp_files` (all backends). -/
def mkInfo (base : Base) (bs : List Block) : Info :=
  { scalars := []
    lists :=
      [ ("query_code", base.queryCode),
        ("class_decl", base.classDecl),
        ("book_code", base.bookCode),
        ("body_include_files", base.includes ++ fetch bs "body_includes"),
        ("header_include_files", fetch bs "header_includes"),
        ("private_members", fetch bs "private_members"),
        ("instance_initialization", fetch bs "instance_initialization"),
        ("initialize_lines", fetch bs "initialize_lines"),
        ("ctor_lines", fetch bs "ctor_lines"),
        ("link_libraries", base.linkLibs ++ fetch bs "link_libraries"),
        ("job_option_additions", base.jobOptions) ] }

/-- `for file_name in self._file_names: …get_template(file_name).stream(info).dump(…)` -/
def renderFiles (files : List (String × Template)) (info : Info) : List (String × Str) :=
  files.map fun (n, t) => (n, render t info)

/-- `apply_ast_transformations` (metadata part) followed by `write_cpp_files` (template part). -/
def runPackage (fs : List String) (files : List (String × Template)) (mds : List Md) (base : Base) :
    Except Err (List (String × Str)) :=
  match processMd fs mds [] with
  | .error e => .error e
  | .ok bs => .ok (renderFiles files (mkInfo base bs))

end FaxVerif.C14
