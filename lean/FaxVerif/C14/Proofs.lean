/-
C14 — helper lemmas. Property theorems are in `Theorems.lean`.
-/
import FaxVerif.C14.Spec
namespace FaxVerif.Tmpl

/-! ## templates and layouts -/

theorem lookup_cons_self {β : Type} (k : String) (v : β) (r : List (String × β)) :
    lookup k ((k, v) :: r) = some v := by
  simp [lookup]

theorem flatMap_congr' {α β : Type} (l : List α) (f g : α → List β) (h : ∀ a ∈ l, f a = g a) :
    l.flatMap f = l.flatMap g := by
  induction l with
  | nil => rfl
  | cons a l ih =>
    simp only [List.flatMap_cons]
    rw [h a (by simp), ih (fun b hb => h b (by simp [hb]))]

theorem renderNodes_nil (info : Info) (env : List (String × Str)) : renderNodes info env [] = [] := by
  simp [renderNodes]

theorem renderNodes_cons (info : Info) (env : List (String × Str)) (n : Node) (ns : List Node) :
    renderNodes info env (n :: ns) = renderNode info env n ++ renderNodes info env ns := by
  simp [renderNodes]

/-- a `pre {{x}} post` body renders as `pre ++ item ++ post`, whatever the item is -/
theorem render_simpleBody (info : Info) (env : List (String × Str)) (x : String) (body : List Node)
    (p q : Str) (h : simpleBody x body = some (p, q)) (item : Str) :
    renderNodes info ((x, item) :: env) body = p ++ (item ++ q) := by
  unfold simpleBody at h
  split at h
  all_goals (try (simp at h; done))
  all_goals
    split at h
    · simp only [Option.some.injEq, Prod.mk.injEq] at h
      obtain ⟨rfl, rfl⟩ := h
      subst_vars
      simp [renderNodes, renderNode, lookup]
    · simp at h

theorem renderNode_forIn (info : Info) (env : List (String × Str)) (x xs : String) (body : List Node) :
    renderNode info env (.forIn x xs body) =
      (info.getList xs).flatMap fun item => renderNodes info ((x, item) :: env) body := by
  simp [renderNode]

/-- **A template that has a layout renders as that layout** — for every context. -/
theorem renderNodes_flatten (info : Info) :
    ∀ (t : Template) (L : Layout), flatten t = some L →
      ∀ env, renderNodes info env t = renderLayout L info := by
  intro t
  induction t with
  | nil =>
    intro L h env
    simp only [flatten, Option.some.injEq] at h
    subst h
    simp [renderNodes, renderLayout, renderRest]
  | cons n ns ih =>
    intro L h env
    unfold flatten at h
    cases hns : flatten ns with
    | none => simp [hns] at h
    | some L' =>
      simp only [hns] at h
      have ih' := ih L' hns env
      cases n with
      | text s =>
        simp only [Option.some.injEq] at h
        subst h
        simp [renderNodes_cons, renderNode, ih', renderLayout, List.append_assoc]
      | var v => simp at h
      | unrecognised src => simp at h
      | forIn x xs body =>
        cases hb : simpleBody x body with
        | none => simp [hb] at h
        | some pq =>
          obtain ⟨p, q⟩ := pq
          simp only [hb, Option.some.injEq] at h
          subst h
          rw [renderNodes_cons, renderNode_forIn, ih']
          simp only [renderLayout, renderRest, List.nil_append, itemsText]
          congr 1
          apply flatMap_congr'
          intro item _
          exact render_simpleBody info env x body p q hb item

theorem render_flatten (t : Template) (L : Layout) (h : flatten t = some L) (info : Info) :
    render t info = renderLayout L info :=
  renderNodes_flatten info t L h []

/-! ## what a layout puts where -/

theorem itemsText_nil (pre post : Str) : itemsText pre post [] = [] := rfl

theorem itemsText_cons (pre post l : Str) (ls : List Str) :
    itemsText pre post (l :: ls) = pre ++ (l ++ post) ++ itemsText pre post ls := by
  simp [itemsText]

theorem itemsText_append (pre post : Str) (a b : List Str) :
    itemsText pre post (a ++ b) = itemsText pre post a ++ itemsText pre post b := by
  simp [itemsText]

/-- a line inside a list: its decorated text sits between the texts of the lines before and after -/
theorem itemsText_split (pre post : Str) (a : List Str) (l : Str) (b : List Str) :
    itemsText pre post (a ++ l :: b) =
      itemsText pre post a ++ (pre ++ (l ++ post)) ++ itemsText pre post b := by
  simp [itemsText_append, itemsText_cons, List.append_assoc]

theorem renderRest_append (info : Info) (A B : List (Slot × Str)) :
    renderRest info (A ++ B) = renderRest info A ++ renderRest info B := by
  induction A with
  | nil => simp [renderRest]
  | cons a A ih =>
    obtain ⟨s, st⟩ := a
    simp [renderRest, ih, List.append_assoc]

/-- the text of one slot sits between what precedes and what follows it in the layout -/
theorem renderLayout_split (L : Layout) (A B : List (Slot × Str)) (s : Slot) (st : Str)
    (h : L.rest = A ++ (s, st) :: B) (info : Info) :
    renderLayout L info =
      (L.head ++ renderRest info A) ++ itemsText s.pre s.post (info.getList s.xs) ++ (st ++ renderRest info B) := by
  simp [renderLayout, h, renderRest_append, renderRest, List.append_assoc]

/-- `renderLayout` looks at the context only through the lists of its slots -/
theorem renderRest_congr (i₁ i₂ : Info) (R : List (Slot × Str))
    (h : ∀ p ∈ R, i₁.getList p.1.xs = i₂.getList p.1.xs) : renderRest i₁ R = renderRest i₂ R := by
  induction R with
  | nil => rfl
  | cons a R ih =>
    obtain ⟨s, st⟩ := a
    simp only [renderRest]
    rw [h (s, st) (by simp), ih (fun p hp => h p (by simp [hp]))]

theorem renderLayout_congr (i₁ i₂ : Info) (L : Layout) (h : ∀ k, i₁.getList k = i₂.getList k) :
    renderLayout L i₁ = renderLayout L i₂ := by
  simp only [renderLayout]
  rw [renderRest_congr i₁ i₂ L.rest (fun p _ => h p.1.xs)]

/-! ### conservation: every character of every line is there exactly once -/

theorem count_itemsText (c : Char) (pre post : Str) (lines : List Str) :
    (itemsText pre post lines).count c =
      lines.length * (pre.count c + post.count c) + (lines.map (List.count c)).sum := by
  induction lines with
  | nil => simp [itemsText]
  | cons l ls ih =>
    rw [itemsText_cons]
    simp only [List.count_append, ih, List.length_cons, List.map_cons, List.sum_cons]
    rw [Nat.add_mul]
    omega

/-- characters contributed by the slots of a layout -/
def slotsCount (c : Char) (info : Info) : List (Slot × Str) → Nat
  | [] => 0
  | (s, _) :: r => (itemsText s.pre s.post (info.getList s.xs)).count c + slotsCount c info r

theorem count_renderRest (c : Char) (info : Info) (R : List (Slot × Str)) :
    (renderRest info R).count c = (Layout.skeletonRest R).count c + slotsCount c info R := by
  induction R with
  | nil => simp [renderRest, Layout.skeletonRest, slotsCount]
  | cons a R ih =>
    obtain ⟨s, st⟩ := a
    simp only [renderRest, Layout.skeletonRest, slotsCount, List.count_append, ih]
    omega

theorem count_renderLayout (c : Char) (info : Info) (L : Layout) :
    (renderLayout L info).count c = L.skeleton.count c + slotsCount c info L.rest := by
  simp only [renderLayout, Layout.skeleton, List.count_append, count_renderRest]
  omega

end FaxVerif.Tmpl

namespace FaxVerif.C14
open FaxVerif.Tmpl

/-! ## documented places survive dropping the empty slots -/

theorem slotOk_xs (d : SlotDoc) (c : Ctx) (h : slotOk d c = true) : c.slot.xs = d.xs := by
  unfold slotOk at h
  simp only [Bool.and_eq_true, beq_iff_eq] at h
  exact h.1.1.1.1

/-- If the full layout matches the documentation, so do the parts of both that hold something. -/
theorem matchDocs_filter (p : String → Bool) :
    ∀ (ds : List SlotDoc) (cs : List Ctx), matchDocs ds cs = true →
      matchDocs (ds.filter fun d => p d.xs) (cs.filter fun c => p c.slot.xs) = true := by
  intro ds
  induction ds with
  | nil =>
    intro cs h
    cases cs with
    | nil => simp [matchDocs]
    | cons c cs => simp [matchDocs] at h
  | cons d ds ih =>
    intro cs h
    cases cs with
    | nil => simp [matchDocs] at h
    | cons c cs =>
      simp only [matchDocs, Bool.and_eq_true] at h
      have hx := slotOk_xs d c h.1
      simp only [List.filter_cons, hx]
      cases hp : p d.xs with
      | true => simp only [if_true, matchDocs, Bool.and_eq_true]; exact ⟨h.1, ih cs h.2⟩
      | false => simpa using ih cs h.2

/-! ## lookups -/

theorem lookup_map_key {β : Type} (f : String → β) (k : String) (keys : List String) :
    lookup k (keys.map fun k' => (k', f k')) = if k ∈ keys then some (f k) else none := by
  induction keys with
  | nil => simp [lookup]
  | cons a keys ih =>
    simp only [List.map_cons, lookup, ih, List.mem_cons]
    by_cases h : a = k
    · subst h; simp
    · have : ¬ k = a := fun e => h e.symm
      simp [h, this]

theorem lookup_renderFiles (files : List (String × Template)) (info : Info) (f : String) :
    lookup f (renderFiles files info) = (lookup f files).map fun t => render t info := by
  induction files with
  | nil => simp [renderFiles, lookup]
  | cons a files ih =>
    obtain ⟨n, t⟩ := a
    simp only [renderFiles, List.map_cons, lookup] at ih ⊢
    by_cases h : n = f
    · simp [h]
    · simp [h, ih]

theorem lookup_witOf (files : List (String × Template)) (f : String) (t : Template) (L : Layout)
    (h : lookup f files = some t) (hL : flatten t = some L) : lookup f (witOf files) = some L := by
  induction files with
  | nil => simp [lookup] at h
  | cons a files ih =>
    obtain ⟨n, t'⟩ := a
    simp only [lookup] at h
    by_cases hn : n = f
    · simp only [hn, if_true, Option.some.injEq] at h
      subst h
      simp [witOf, hL, lookup, hn]
    · simp only [hn, if_false] at h
      have := ih h
      simp only [witOf, List.filterMap_cons] at this ⊢
      cases hf : flatten t' with
      | none => simpa [hf] using this
      | some L' => simp [lookup, hn, this]

/-! ## the replacement dictionary -/

theorem expectedInfo_getList (base : Base) (bs : List Block) (k : String) :
    (expectedInfo base bs).getList k = if k ∈ infoKeys then expectedList base bs k else [] := by
  simp only [Info.getList, expectedInfo, lookup_map_key]
  split <;> simp

theorem fetch_eq (bs : List Block) (f : String) : fetch bs f = bs.flatMap fun b => b.get f := rfl

/-- The model's replacement dictionary holds, under every template variable, exactly the lines the
specification asks for. -/
theorem mkInfo_getList (base : Base) (bs : List Block) (k : String) :
    (mkInfo base bs).getList k = (expectedInfo base bs).getList k := by
  rw [expectedInfo_getList]
  by_cases hk : k ∈ infoKeys
  · simp only [hk, if_true]
    simp only [infoKeys, List.mem_cons, List.not_mem_nil, or_false] at hk
    rcases hk with rfl | rfl | rfl | rfl | rfl | rfl | rfl | rfl | rfl | rfl | rfl <;>
      simp [Info.getList, mkInfo, lookup, expectedList, baseLists, fieldKey, fetch_eq]
  · simp only [hk, if_false]
    simp only [infoKeys, List.mem_cons, List.not_mem_nil, or_false, not_or] at hk
    obtain ⟨h1, h2, h3, h4, h5, h6, h7, h8, h9, h10, h11⟩ := hk
    have e : ∀ a : String, k ≠ a → ¬ a = k := fun a h e => h e.symm
    simp [Info.getList, mkInfo, lookup, e _ h1, e _ h2, e _ h3, e _ h4, e _ h5, e _ h6, e _ h7, e _ h8,
      e _ h9, e _ h10, e _ h11]

/-! ## `process_metadata` -/

/-- two blocks of a list share a name but differ -/
def ConflictB (bs : List Block) : Prop := ∃ b₁ ∈ bs, ∃ b₂ ∈ bs, b₁.name = b₂.name ∧ b₁ ≠ b₂

theorem conflict_iff (fields : List String) (mds : List Md) :
    Conflict fields mds ↔ ConflictB (blocksOf fields mds) := Iff.rfl

theorem mem_firstOccAux (b : Block) : ∀ (l seen : List Block), b ∈ firstOccAux seen l ↔ b ∈ l ∧ b ∉ seen := by
  intro l
  induction l with
  | nil => intro seen; simp [firstOccAux]
  | cons a l ih =>
    intro seen
    unfold firstOccAux
    by_cases ha : a ∈ seen
    · simp only [ha, if_true, ih, List.mem_cons]
      constructor
      · rintro ⟨h1, h2⟩; exact ⟨Or.inr h1, h2⟩
      · rintro ⟨h1 | h1, h2⟩
        · subst h1; exact absurd ha h2
        · exact ⟨h1, h2⟩
    · simp only [ha, if_false, List.mem_cons, ih]
      constructor
      · rintro (h | ⟨h1, h2⟩)
        · subst h; exact ⟨Or.inl rfl, ha⟩
        · exact ⟨Or.inr h1, fun h => h2 (Or.inr h)⟩
      · rintro ⟨h1 | h1, h2⟩
        · exact Or.inl h1
        · by_cases hba : b = a
          · exact Or.inl hba
          · exact Or.inr ⟨h1, fun h => by rcases h with h | h; exact hba h; exact h2 h⟩

theorem mem_firstOcc (b : Block) (l : List Block) : b ∈ firstOcc l ↔ b ∈ l := by
  simp [firstOcc, mem_firstOccAux]

theorem firstOccAux_snoc (b : Block) : ∀ (l seen : List Block),
    firstOccAux seen (l ++ [b]) = firstOccAux seen l ++ (if b ∈ seen ∨ b ∈ l then [] else [b]) := by
  intro l
  induction l with
  | nil =>
    intro seen
    by_cases h : b ∈ seen <;> simp [firstOccAux, h]
  | cons a l ih =>
    intro seen
    simp only [List.cons_append]
    unfold firstOccAux
    by_cases ha : a ∈ seen
    · simp only [ha, if_true, ih, List.mem_cons]
      by_cases hb : b ∈ seen
      · simp [hb]
      · by_cases hba : b = a
        · subst hba; exact absurd ha hb
        · simp [hb, hba]
    · simp only [ha, if_false, ih, List.mem_cons, List.cons_append]
      by_cases hba : b = a
      · simp [hba]
      · simp [hba]

theorem firstOcc_snoc (b : Block) (l : List Block) :
    firstOcc (l ++ [b]) = firstOcc l ++ (if b ∈ l then [] else [b]) := by
  simp [firstOcc, firstOccAux_snoc]

theorem firstOccAux_cons (seen : List Block) (b : Block) (bs : List Block) :
    firstOccAux seen (b :: bs) = if b ∈ seen then firstOccAux seen bs else b :: firstOccAux (b :: seen) bs := by
  simp [firstOccAux]

/-- only membership in `seen` matters -/
theorem firstOccAux_congr : ∀ (l s₁ s₂ : List Block), (∀ b, b ∈ s₁ ↔ b ∈ s₂) →
    firstOccAux s₁ l = firstOccAux s₂ l := by
  intro l
  induction l with
  | nil => intro _ _ _; rfl
  | cons a l ih =>
    intro s₁ s₂ h
    unfold firstOccAux
    by_cases ha : a ∈ s₁
    · have ha' : a ∈ s₂ := (h a).1 ha
      simp only [ha, ha', if_true]
      exact ih s₁ s₂ h
    · have ha' : a ∉ s₂ := fun x => ha ((h a).2 x)
      simp only [ha, ha', if_false]
      congr 1
      exact ih _ _ (fun b => by simp [h b])

theorem firstOccAux_append : ∀ (l m seen : List Block),
    firstOccAux seen (l ++ m) = firstOccAux seen l ++ firstOccAux (l ++ seen) m := by
  intro l
  induction l with
  | nil => intro m seen; simp [firstOccAux]
  | cons a l ih =>
    intro m seen
    simp only [List.cons_append, firstOccAux_cons]
    by_cases ha : a ∈ seen
    · simp only [ha, if_true, ih]
      congr 1
      apply firstOccAux_congr
      intro b
      simp only [List.mem_append, List.mem_cons]
      constructor
      · intro h; rcases h with h | h; exact Or.inr (Or.inl h); exact Or.inr (Or.inr h)
      · intro h; rcases h with rfl | h | h; exact Or.inr ha; exact Or.inl h; exact Or.inr h
    · simp only [ha, if_false, ih, List.cons_append]
      congr 2
      apply firstOccAux_congr
      intro b
      simp only [List.mem_append, List.mem_cons]
      constructor
      · intro h; rcases h with h | rfl | h; exact Or.inr (Or.inl h); exact Or.inl rfl; exact Or.inr (Or.inr h)
      · intro h; rcases h with rfl | h | h; exact Or.inr (Or.inl rfl); exact Or.inl h; exact Or.inr (Or.inr h)

theorem firstOccAux_all_seen : ∀ (m seen : List Block), (∀ b ∈ m, b ∈ seen) → firstOccAux seen m = [] := by
  intro m
  induction m with
  | nil => intro _ _; rfl
  | cons a m ih =>
    intro seen h
    unfold firstOccAux
    simp only [h a (by simp), if_true]
    exact ih seen (fun b hb => h b (by simp [hb]))

/-- sending everything twice changes nothing -/
theorem firstOcc_append_self (l : List Block) : firstOcc (l ++ l) = firstOcc l := by
  simp only [firstOcc, firstOccAux_append]
  rw [firstOccAux_all_seen l (l ++ []) (fun b hb => by simp [hb])]
  simp

theorem firstOccAux_nodup : ∀ (l seen : List Block), (firstOccAux seen l).Nodup := by
  intro l
  induction l with
  | nil => intro seen; simp [firstOccAux]
  | cons a l ih =>
    intro seen
    unfold firstOccAux
    by_cases ha : a ∈ seen
    · simp [ha, ih]
    · simp only [ha, if_false, List.nodup_cons, ih, and_true, mem_firstOccAux]
      simp

theorem firstOccAux_sublist : ∀ (l seen : List Block), (firstOccAux seen l).Sublist l := by
  intro l
  induction l with
  | nil => intro seen; simp [firstOccAux]
  | cons a l ih =>
    intro seen
    unfold firstOccAux
    by_cases ha : a ∈ seen
    · simp only [ha, if_true]; exact (ih seen).cons a
    · simp only [ha, if_false]; exact (ih _).cons_cons a

theorem nodup_map_of_injOn {α β : Type} (f : α → β) : ∀ l : List α, l.Nodup →
    (∀ a ∈ l, ∀ b ∈ l, f a = f b → a = b) → (l.map f).Nodup := by
  intro l
  induction l with
  | nil => intro _ _; simp
  | cons a l ih =>
    intro hnd hinj
    rw [List.nodup_cons] at hnd
    simp only [List.map_cons, List.nodup_cons, List.mem_map, not_exists, not_and]
    refine ⟨?_, ih hnd.2 (fun x hx y hy => hinj x (by simp [hx]) y (by simp [hy]))⟩
    intro b hb hfb
    have := hinj b (by simp [hb]) a (by simp) hfb
    subst this
    exact hnd.1 hb

/-- `ok_to_add_code_block`: the three answers -/
theorem okToAdd_cases (spec : Block) : ∀ acc : List Block,
    (okToAdd spec acc = .ok true ∧ ∀ b ∈ acc, b.name ≠ spec.name) ∨
    (okToAdd spec acc = .ok false ∧ spec ∈ acc) ∨
    (okToAdd spec acc = .error (.conflict spec.name) ∧ ∃ b ∈ acc, b.name = spec.name ∧ b ≠ spec) := by
  intro acc
  induction acc with
  | nil => left; simp [okToAdd]
  | cons a acc ih =>
    unfold okToAdd
    by_cases hn : a.name = spec.name
    · simp only [hn, if_true]
      by_cases he : a = spec
      · right; left; simp [he]
      · right; right; simp only [he, if_false, true_and]; exact ⟨a, by simp, hn, he⟩
    · simp only [hn, if_false]
      rcases ih with ⟨h1, h2⟩ | ⟨h1, h2⟩ | ⟨h1, b, hb, h3⟩
      · left; refine ⟨h1, ?_⟩; intro b hb; rcases List.mem_cons.1 hb with rfl | hb; exact hn; exact h2 b hb
      · right; left; exact ⟨h1, by simp [h2]⟩
      · right; right; exact ⟨h1, b, by simp [hb], h3⟩

theorem mkBlock_wellFormed (fields : List String) (m : MdInject) (h : wellFormed fields m = true) :
    mkBlock fields m = .ok (toBlock fields m) := by
  unfold wellFormed at h
  simp only [Bool.and_eq_true] at h
  obtain ⟨hn, hf⟩ := h
  cases hm : m.name with
  | none => simp [hm] at hn
  | some n =>
    unfold mkBlock toBlock
    simp only [hm, Option.getD_some]
    rw [if_pos hf]

theorem mkBlock_malformed (fields : List String) (m : MdInject) (h : wellFormed fields m = false) :
    mkBlock fields m = .error .badItem := by
  unfold mkBlock
  cases hm : m.name with
  | none => rfl
  | some n =>
    simp only
    unfold wellFormed at h
    simp only [hm, Option.isSome_some, Bool.true_and] at h
    rw [if_neg (by rw [h]; simp)]

theorem injects_append (a b : List Md) : injects (a ++ b) = injects a ++ injects b := by
  induction a with
  | nil => rfl
  | cons x a ih =>
    cases x with
    | other n => simpa [injects] using ih
    | inject m =>
      simp only [List.cons_append, injects]
      split <;> simp [ih]

theorem conflictB_mono (a b : List Block) (h : ConflictB a) : ConflictB (a ++ b) := by
  obtain ⟨b₁, h₁, b₂, h₂, hn, hne⟩ := h
  exact ⟨b₁, by simp [h₁], b₂, by simp [h₂], hn, hne⟩

/-- The loop of `process_metadata`, started after blocks `l` (conflict free) have been seen. -/
theorem processMd_spec (fields : List String) : ∀ (rest : List Md) (l : List Block), ¬ ConflictB l →
    (∀ out, processMd fields rest (firstOcc l) = .ok out →
        out = firstOcc (l ++ blocksOf fields rest) ∧ ¬ ConflictB (l ++ blocksOf fields rest) ∧ ¬ Malformed fields rest) ∧
    (∀ e, processMd fields rest (firstOcc l) = .error e →
        Malformed fields rest ∨ ConflictB (l ++ blocksOf fields rest)) := by
  intro rest
  induction rest with
  | nil =>
    intro l hl
    simp [processMd, blocksOf, injects, Malformed, hl]
  | cons x rest ih =>
    intro l hl
    cases x with
    | other n =>
      have := ih l hl
      simpa [processMd, blocksOf, injects, Malformed] using this
    | inject m =>
      by_cases hemp : m.isEmpty = true
      · have hemp' : (m.name.isNone && m.fields.isEmpty) = true := hemp
        have := ih l hl
        simpa [processMd, hemp', blocksOf, injects, hemp, Malformed] using this
      · have hemp' : (m.name.isNone && m.fields.isEmpty) = false := by
          simpa [MdInject.isEmpty] using hemp
        have hinj : injects (.inject m :: rest) = m :: injects rest := by simp [injects, hemp]
        have hblocks : blocksOf fields (.inject m :: rest) = toBlock fields m :: blocksOf fields rest := by
          simp [blocksOf, hinj]
        have hmal : Malformed fields (.inject m :: rest) ↔ (wellFormed fields m = false ∨ Malformed fields rest) := by
          simp [Malformed, hinj]
        cases hwf : wellFormed fields m with
        | false =>
          have hmk := mkBlock_malformed fields m hwf
          constructor
          · intro out h; simp [processMd, hemp', hmk] at h
          · intro e _; left; rw [hmal]; left; exact hwf
        | true =>
          have hmk := mkBlock_wellFormed fields m hwf
          have hl' : l ++ blocksOf fields (.inject m :: rest) = (l ++ [toBlock fields m]) ++ blocksOf fields rest := by
            simp [hblocks]
          have hmal' : Malformed fields (.inject m :: rest) ↔ Malformed fields rest := by
            rw [hmal]; simp [hwf]
          rcases okToAdd_cases (toBlock fields m) (firstOcc l) with ⟨h1, h2⟩ | ⟨h1, h2⟩ | ⟨h1, b, hb, h3, h4⟩
          · -- a new name
            have hnot : toBlock fields m ∉ l := fun hmem => h2 _ ((mem_firstOcc _ _).2 hmem) rfl
            have hfo : firstOcc (l ++ [toBlock fields m]) = firstOcc l ++ [toBlock fields m] := by
              rw [firstOcc_snoc]; simp [hnot]
            have hnc : ¬ ConflictB (l ++ [toBlock fields m]) := by
              rintro ⟨b₁, h₁, b₂, h₂, hn, hne⟩
              simp only [List.mem_append, List.mem_singleton] at h₁ h₂
              rcases h₁ with h₁ | rfl <;> rcases h₂ with h₂ | rfl
              · exact hl ⟨b₁, h₁, b₂, h₂, hn, hne⟩
              · exact h2 b₁ ((mem_firstOcc _ _).2 h₁) hn
              · exact h2 b₂ ((mem_firstOcc _ _).2 h₂) hn.symm
              · exact hne rfl
            have := ih (l ++ [toBlock fields m]) hnc
            rw [hfo] at this
            simpa [processMd, hemp', hmk, h1, hl', hmal'] using this
          · -- an identical repeat
            have hmem : toBlock fields m ∈ l := (mem_firstOcc _ _).1 h2
            have hfo : firstOcc (l ++ [toBlock fields m]) = firstOcc l := by
              rw [firstOcc_snoc]; simp [hmem]
            have hnc : ¬ ConflictB (l ++ [toBlock fields m]) := by
              rintro ⟨b₁, h₁, b₂, h₂, hn, hne⟩
              have e₁ : b₁ ∈ l := by
                simp only [List.mem_append, List.mem_singleton] at h₁
                rcases h₁ with h₁ | rfl; exact h₁; exact hmem
              have e₂ : b₂ ∈ l := by
                simp only [List.mem_append, List.mem_singleton] at h₂
                rcases h₂ with h₂ | rfl; exact h₂; exact hmem
              exact hl ⟨b₁, e₁, b₂, e₂, hn, hne⟩
            have := ih (l ++ [toBlock fields m]) hnc
            rw [hfo] at this
            simpa [processMd, hemp', hmk, h1, hl', hmal'] using this
          · -- same name, different content
            constructor
            · intro out h; simp [processMd, hemp', hmk, h1] at h
            · intro e _
              right
              rw [hl']
              apply conflictB_mono
              exact ⟨b, by simp [(mem_firstOcc _ _).1 hb], toBlock fields m, by simp, h3, h4⟩

end FaxVerif.C14
