/-
C18 — helper lemmas for `Theorems.lean`.
-/
import FaxVerif.C18.Spec
namespace FaxVerif.C18

/-! ## A. string literals: the lexer undoes the per-character table -/

theorem lookup_all {tbl : List (Char × Str)} {p : Char × Str → Bool} (h : tbl.all p = true)
    {c : Char} {e : Str} (hl : tbl.lookup c = some e) : p (c, e) = true := by
  induction tbl with
  | nil => simp [List.lookup] at hl
  | cons kv rest ih =>
    obtain ⟨k, v⟩ := kv
    simp only [List.all_cons, Bool.and_eq_true] at h
    simp only [List.lookup] at hl
    by_cases hck : c = k
    · subst hck
      simp at hl
      subst hl
      exact h.1
    · have : (c == k) = false := by simpa using hck
      simp only [this] at hl
      exact ih h.2 hl

theorem lex_norm_cons (c : Char) (r : Str) :
    lex .norm (c :: r) = onNorm c r (lex .norm r) (lex .esc r) := by
  simp only [lex]

theorem lex_esc_cons_simple (e v : Char) (r : Str) (h : simpleEsc e = some v) :
    lex .esc (e :: r) = pushC v (lex .norm r) := by
  simp only [lex, h]

theorem lex_norm_plain (c : Char) (r : Str) (h : isSpecial c = false) :
    lex .norm (c :: r) = pushC c (lex .norm r) := by
  simp only [isSpecial, Bool.or_eq_false_iff, decide_eq_false_iff_not] at h
  obtain ⟨⟨h1, h2⟩, h3⟩ := h
  rw [lex_norm_cons]
  simp [onNorm, h1, h2, h3]

theorem lex_norm_escape (x c : Char) (r : Str) (h : simpleEsc x = some c) :
    lex .norm ('\\' :: x :: r) = pushC c (lex .norm r) := by
  rw [lex_norm_cons]
  have : onNorm '\\' (x :: r) (lex .norm (x :: r)) (lex .esc (x :: r)) = lex .esc (x :: r) := by
    simp [onNorm, isNewline]
  rw [this, lex_esc_cons_simple x c r h]

theorem special_lookup {tbl : List (Char × Str)} (ht : TableOk tbl) {c : Char}
    (hs : isSpecial c = true) : (tbl.lookup c).isSome = true := by
  obtain ⟨_, h1, h2, h3, h4⟩ := ht
  simp only [isSpecial, isNewline, Bool.or_eq_true, decide_eq_true_eq] at hs
  rcases hs with (hs | hs) | hs | hs <;> subst hs <;> assumption

theorem lex_escOf {tbl : List (Char × Str)} (ht : TableOk tbl) (c : Char) (r : Str) :
    lex .norm (escOf tbl c ++ r) = pushC c (lex .norm r) := by
  unfold escOf
  cases hl : tbl.lookup c with
  | none =>
    have hns : isSpecial c = false := by
      cases hsp : isSpecial c with
      | false => rfl
      | true => have := special_lookup ht hsp; simp [hl] at this
    simpa using lex_norm_plain c r hns
  | some e =>
    have hrow := lookup_all ht.1 hl
    simp only [rowOk, Bool.or_eq_true, Bool.and_eq_true] at hrow
    rcases hrow with ⟨he, hns⟩ | hrow
    · have he' : e = [c] := by simpa using he
      subst he'
      have hns' : isSpecial c = false := by simpa using hns
      simpa using lex_norm_plain c r hns'
    · match e, hrow with
      | [b, x], hrow =>
        simp only [Bool.and_eq_true, decide_eq_true_eq, beq_iff_eq] at hrow
        obtain ⟨hb, hx⟩ := hrow
        subst hb
        simpa using lex_norm_escape x c r hx

theorem lex_renderBody {tbl : List (Char × Str)} (ht : TableOk tbl) (s tail : Str) :
    lex .norm (renderBody tbl s ++ '"' :: tail) = some (s, tail) := by
  induction s with
  | nil => simp [renderBody, lex_norm_cons, onNorm]
  | cons c cs ih =>
    simp only [renderBody, List.append_assoc]
    rw [lex_escOf ht, ih]
    rfl

theorem cppStringLit_render {tbl : List (Char × Str)} (ht : TableOk tbl) (s tail : Str) :
    cppStringLit (renderStrL tbl s ++ tail) = some (s, tail) := by
  simp only [renderStrL, List.cons_append, List.append_assoc, cppStringLit, if_true]
  exact lex_renderBody ht s tail

theorem cppStringL_render {tbl : List (Char × Str)} (ht : TableOk tbl) (s : Str) :
    cppStringL (renderStrL tbl s) = some s := by
  have := cppStringLit_render ht s []
  simp only [List.append_nil] at this
  simp only [cppStringL, this]

end FaxVerif.C18
