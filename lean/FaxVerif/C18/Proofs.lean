/-
C18 — helper lemmas for `Theorems.lean`.
-/
import FaxVerif.C18.Spec
namespace FaxVerif.C18

/-! ## A. string literals: the lexer undoes the per-character table -/

theorem lookup_all {tbl : List (Char × Str)} {p : Char × Str → Bool} (h : tbl.all p = true)
    {c : Char} {e : Str} (hl : tbl.lookup c = some e) : p (c, e) = true := by
  induction tbl with
  | nil => simp [List.lookup] at hl
  | cons kv rest ih =>
    obtain ⟨k, v⟩ := kv
    simp only [List.all_cons, Bool.and_eq_true] at h
    simp only [List.lookup] at hl
    by_cases hck : c = k
    · subst hck
      simp at hl
      subst hl
      exact h.1
    · have : (c == k) = false := by simpa using hck
      simp only [this] at hl
      exact ih h.2 hl

theorem lex_norm_cons (c : Char) (r : Str) :
    lex .norm (c :: r) = onNorm c r (lex .norm r) (lex .esc r) := by
  simp only [lex, onNorm]

theorem lex_esc_cons_simple (e v : Char) (r : Str) (h : simpleEsc e = some v) :
    lex .esc (e :: r) = pushC v (lex .norm r) := by
  simp only [lex, h]

theorem lex_norm_plain (c : Char) (r : Str) (h : isSpecial c = false) :
    lex .norm (c :: r) = pushC c (lex .norm r) := by
  simp only [isSpecial, Bool.or_eq_false_iff, decide_eq_false_iff_not] at h
  obtain ⟨⟨h1, h2⟩, h3⟩ := h
  rw [lex_norm_cons]
  simp [onNorm, h1, h2, h3]

theorem lex_norm_escape (x c : Char) (r : Str) (h : simpleEsc x = some c) :
    lex .norm ('\\' :: x :: r) = pushC c (lex .norm r) := by
  rw [lex_norm_cons]
  have : onNorm '\\' (x :: r) (lex .norm (x :: r)) (lex .esc (x :: r)) = lex .esc (x :: r) := by
    simp [onNorm, isNewline]
  rw [this, lex_esc_cons_simple x c r h]

theorem special_lookup {tbl : List (Char × Str)} (ht : TableOk tbl) {c : Char}
    (hs : isSpecial c = true) : (tbl.lookup c).isSome = true := by
  obtain ⟨_, h1, h2, h3, h4⟩ := ht
  simp only [isSpecial, isNewline, Bool.or_eq_true, decide_eq_true_eq] at hs
  rcases hs with (hs | hs) | hs | hs <;> subst hs <;> assumption

theorem lex_escOf {tbl : List (Char × Str)} (ht : TableOk tbl) (c : Char) (r : Str) :
    lex .norm (escOf tbl c ++ r) = pushC c (lex .norm r) := by
  unfold escOf
  cases hl : tbl.lookup c with
  | none =>
    have hns : isSpecial c = false := by
      cases hsp : isSpecial c with
      | false => rfl
      | true => have := special_lookup ht hsp; simp [hl] at this
    simpa using lex_norm_plain c r hns
  | some e =>
    have hrow := lookup_all ht.1 hl
    simp only [rowOk, Bool.or_eq_true, Bool.and_eq_true] at hrow
    rcases hrow with ⟨he, hns⟩ | hrow
    · have he' : e = [c] := by simpa using he
      subst he'
      have hns' : isSpecial c = false := by simpa using hns
      simpa using lex_norm_plain c r hns'
    · match e, hrow with
      | [b, x], hrow =>
        simp only [Bool.and_eq_true, decide_eq_true_eq, beq_iff_eq] at hrow
        obtain ⟨hb, hx⟩ := hrow
        subst hb
        simpa using lex_norm_escape x c r hx

theorem lex_renderBody {tbl : List (Char × Str)} (ht : TableOk tbl) (s tail : Str) :
    lex .norm (renderBody tbl s ++ '"' :: tail) = some (s, tail) := by
  induction s with
  | nil => simp [renderBody, lex_norm_cons, onNorm]
  | cons c cs ih =>
    simp only [renderBody, List.append_assoc]
    rw [lex_escOf ht, ih]
    rfl

theorem cppStringLit_render {tbl : List (Char × Str)} (ht : TableOk tbl) (s tail : Str) :
    cppStringLit (renderStrL tbl s ++ tail) = some (s, tail) := by
  simp only [renderStrL, List.cons_append, List.append_assoc, cppStringLit, if_true]
  exact lex_renderBody ht s tail

theorem cppStringL_render {tbl : List (Char × Str)} (ht : TableOk tbl) (s : Str) :
    cppStringL (renderStrL tbl s) = some s := by
  have := cppStringLit_render ht s []
  simp only [List.append_nil] at this
  simp only [cppStringL, this]

/-! ## B. trigraphs -/

theorem triScan_cons (q : Nat) (c : Char) (rest : Str) :
    triScan q (c :: rest) =
      if c = '?' then triScan (q + 1) rest
      else (decide (2 ≤ q) && (triChar c).isSome) || triScan 0 rest := by
  simp only [triScan]

theorem triScan_mono : ∀ (l : Str) (q q' : Nat), q' ≤ q → triScan q l = false → triScan q' l = false := by
  intro l
  induction l with
  | nil => intro q q' _ _; simp [triScan]
  | cons c rest ih =>
    intro q q' hle h
    rw [triScan_cons] at h ⊢
    by_cases hc : c = '?'
    · simp only [hc, if_true] at h ⊢
      exact ih (q + 1) (q' + 1) (by omega) h
    · simp only [hc, if_false, Bool.or_eq_false_iff, Bool.and_eq_false_iff, decide_eq_false_iff_not] at h ⊢
      refine ⟨?_, h.2⟩
      rcases h.1 with h1 | h1
      · left; omega
      · right; exact h1

theorem detri_id : ∀ (l : Str), triScan 0 l = false → detri l = l := by
  intro l
  induction l using detri.induct with
  | case1 => intro _; simp [detri]
  | case2 c c₂ x rest' hq t ht ih =>
    intro h
    obtain ⟨h1, h2⟩ := hq
    subst h1; subst h2
    have hx : x ≠ '?' := by
      intro hx; subst hx; simp [triChar] at ht
    simp [triScan, hx, ht] at h
  | case3 c c₂ x rest' hq ht ih =>
    intro h
    obtain ⟨h1, h2⟩ := hq
    subst h1; subst h2
    have : triScan 0 ('?' :: x :: rest') = false := by
      rw [triScan_cons] at h
      simp only [if_true] at h
      exact triScan_mono _ _ _ (by omega) h
    simp only [detri, ht, and_self, if_true]
    rw [ih this]
  | case4 c c₂ x rest' hq ih =>
    intro h
    have : triScan 0 (c₂ :: x :: rest') = false := by
      rw [triScan_cons] at h
      by_cases hc : c = '?'
      · simp only [hc, if_true] at h
        exact triScan_mono _ _ _ (by omega) h
      · simp only [hc, if_false, Bool.or_eq_false_iff] at h
        exact h.2
    simp only [detri, hq, if_false]
    rw [ih this]
  | case5 c rest hne ih =>
    intro h
    have : triScan 0 rest = false := by
      rw [triScan_cons] at h
      by_cases hc : c = '?'
      · simp only [hc, if_true] at h
        exact triScan_mono _ _ _ (by omega) h
      · simp only [hc, if_false, Bool.or_eq_false_iff] at h
        exact h.2
    rw [detri]
    · rw [ih this]
    · exact hne

theorem triChar_quote : triChar '"' = none := by decide
theorem triChar_bslash : triChar '\\' = none := by decide

theorem simpleEsc_q {x c : Char} (h : simpleEsc x = some c) (hx : x = '?') : c = '?' := by
  subst hx
  have : simpleEsc '?' = some '?' := by decide
  rw [this] at h
  exact (Option.some.inj h).symm

theorem triScan_false_tail {q : Nat} {c : Char} {rest : Str} (h : triScan q (c :: rest) = false) :
    triScan 0 rest = false := by
  rw [triScan_cons] at h
  by_cases hc : c = '?'
  · simp only [hc, if_true] at h
    exact triScan_mono _ _ _ (by omega) h
  · simp only [hc, if_false, Bool.or_eq_false_iff] at h
    exact h.2

/-- the rendered body (followed by the closing quote) contains a trigraph only if the string does -/
theorem triScan_render {tbl : List (Char × Str)} (ht : TableOk tbl) :
    ∀ (s : Str) (qo qs : Nat), qo ≤ qs → triScan qs s = false →
      triScan qo (renderBody tbl s ++ ['"']) = false := by
  intro s
  induction s with
  | nil =>
    intro qo qs _ _
    simp [renderBody, triScan, triChar_quote]
  | cons c cs ih =>
    intro qo qs hle h
    -- the verbatim case, shared
    have verbatim : triScan qo (c :: (renderBody tbl cs ++ ['"'])) = false := by
      rw [triScan_cons] at h ⊢
      by_cases hc : c = '?'
      · simp only [hc, if_true] at h ⊢
        exact ih (qo + 1) (qs + 1) (by omega) h
      · simp only [hc, if_false, Bool.or_eq_false_iff, Bool.and_eq_false_iff, decide_eq_false_iff_not] at h ⊢
        refine ⟨?_, ih 0 0 (by omega) h.2⟩
        rcases h.1 with h1 | h1
        · left; omega
        · right; exact h1
    simp only [renderBody, List.append_assoc]
    unfold escOf
    cases hl : tbl.lookup c with
    | none => simpa using verbatim
    | some e =>
      have hrow := lookup_all ht.1 hl
      simp only [rowOk, Bool.or_eq_true, Bool.and_eq_true] at hrow
      rcases hrow with ⟨he, _⟩ | hrow
      · have he' : e = [c] := by simpa using he
        subst he'
        simpa using verbatim
      · match e, hrow with
        | [b, x], hrow =>
          simp only [Bool.and_eq_true, decide_eq_true_eq, beq_iff_eq] at hrow
          obtain ⟨hb, hx⟩ := hrow
          subst hb
          simp only [List.cons_append, List.nil_append]
          rw [triScan_cons]
          have hb : ('\\' : Char) ≠ '?' := by decide
          simp only [hb, if_false, triChar_bslash, Option.isSome_none, Bool.and_false, Bool.false_or]
          rw [triScan_cons]
          by_cases hxq : x = '?'
          · have hcq := simpleEsc_q hx hxq
            subst hcq
            rw [triScan_cons] at h
            simp only [if_true] at h
            simp only [hxq, if_true]
            exact ih 1 (qs + 1) (by omega) h
          · simp only [hxq, if_false]
            have : ¬ (2 ≤ 0) := by omega
            simp only [this, decide_false, Bool.false_and, Bool.false_or]
            exact ih 0 0 (by omega) (triScan_false_tail h)

theorem hasTrigraph_render {tbl : List (Char × Str)} (ht : TableOk tbl) (s : Str)
    (h : hasTrigraph s = false) : hasTrigraph (renderStrL tbl s) = false := by
  unfold hasTrigraph renderStrL at *
  rw [triScan_cons]
  have hq : ('"' : Char) ≠ '?' := by decide
  simp only [hq, if_false, triChar_quote, Option.isSome_none, Bool.and_false, Bool.false_or]
  exact triScan_render ht s 0 0 (by omega) h

theorem cppStringTriL_render {tbl : List (Char × Str)} (ht : TableOk tbl) (s : Str)
    (h : hasTrigraph s = false) : cppStringTriL (renderStrL tbl s) = some s := by
  unfold cppStringTriL
  rw [detri_id _ (hasTrigraph_render ht s h)]
  exact cppStringL_render ht s

/-! ## B'. `?` escaped: no two question marks are ever adjacent in a rendered literal -/

/-- When the table writes `?` as `\?`, the rendered body (followed by the closing quote) contains
no trigraph, whatever the string. -/
theorem triScan_render_escaped {tbl : List (Char × Str)} (ht : TableOk tbl)
    (hq : tbl.lookup '?' = some ['\\', '?']) :
    ∀ (s : Str) (qo : Nat), qo ≤ 1 → triScan qo (renderBody tbl s ++ ['"']) = false := by
  intro s
  induction s with
  | nil =>
    intro qo _
    simp [renderBody, triScan, triChar_quote]
  | cons c cs ih =>
    intro qo hle
    have verbatim : c ≠ '?' → triScan qo (c :: (renderBody tbl cs ++ ['"'])) = false := by
      intro hc
      rw [triScan_cons]
      simp only [hc, if_false, Bool.or_eq_false_iff, Bool.and_eq_false_iff, decide_eq_false_iff_not]
      exact ⟨Or.inl (by omega), ih 0 (by omega)⟩
    simp only [renderBody, List.append_assoc]
    unfold escOf
    cases hl : tbl.lookup c with
    | none =>
      have hc : c ≠ '?' := by intro h; subst h; rw [hq] at hl; cases hl
      simpa using verbatim hc
    | some e =>
      have hrow := lookup_all ht.1 hl
      simp only [rowOk, Bool.or_eq_true, Bool.and_eq_true] at hrow
      rcases hrow with ⟨he, _⟩ | hrow
      · have he' : e = [c] := by simpa using he
        subst he'
        have hc : c ≠ '?' := by
          intro h; subst h; rw [hq] at hl
          simp at hl
        simpa using verbatim hc
      · match e, hrow with
        | [b, x], hrow =>
          simp only [Bool.and_eq_true, decide_eq_true_eq, beq_iff_eq] at hrow
          obtain ⟨hb, _⟩ := hrow
          subst hb
          simp only [List.cons_append, List.nil_append]
          rw [triScan_cons]
          have hb : ('\\' : Char) ≠ '?' := by decide
          simp only [hb, if_false, triChar_bslash, Option.isSome_none, Bool.and_false, Bool.false_or]
          rw [triScan_cons]
          by_cases hxq : x = '?'
          · simp only [hxq, if_true]
            exact ih 1 (by omega)
          · simp only [hxq, if_false]
            have : ¬ (2 ≤ 0) := by omega
            simp only [this, decide_false, Bool.false_and, Bool.false_or]
            exact ih 0 (by omega)

theorem hasTrigraph_render_escaped {tbl : List (Char × Str)} (ht : TableOk tbl)
    (hq : tbl.lookup '?' = some ['\\', '?']) (s : Str) : hasTrigraph (renderStrL tbl s) = false := by
  unfold hasTrigraph renderStrL
  rw [triScan_cons]
  have hqq : ('"' : Char) ≠ '?' := by decide
  simp only [hqq, if_false, triChar_quote, Option.isSome_none, Bool.and_false, Bool.false_or]
  exact triScan_render_escaped ht hq s 0 (by omega)

theorem cppStringTriL_render_escaped {tbl : List (Char × Str)} (ht : TableOk tbl)
    (hq : tbl.lookup '?' = some ['\\', '?']) (s : Str) : cppStringTriL (renderStrL tbl s) = some s := by
  unfold cppStringTriL
  rw [detri_id _ (hasTrigraph_render_escaped ht hq s)]
  exact cppStringL_render ht s

/-! ## C. integers -/

theorem digitChar_toNat_fin : ∀ d : Fin 10, (digitChar d.val).toNat = 48 + d.val := by decide

theorem digitChar_toNat {d : Nat} (h : d < 10) : (digitChar d).toNat = 48 + d :=
  digitChar_toNat_fin ⟨d, h⟩

theorem digitVal_digitChar {d : Nat} (h : d < 10) : digitVal (digitChar d) = d := by
  simp [digitVal, digitChar_toNat h]

theorem isDigit_digitChar {d : Nat} (h : d < 10) : isDigit (digitChar d) = true := by
  simp [isDigit, digitChar_toNat h]; omega

theorem decVal_snoc (xs : Str) (c : Char) : decVal (xs ++ [c]) = decVal xs * 10 + digitVal c := by
  simp [decVal, List.foldl_append]

theorem decVal_single (c : Char) : decVal [c] = digitVal c := by
  simp [decVal]

theorem natDigits_succ (f n : Nat) :
    natDigits (f + 1) n = if n < 10 then [digitChar n] else natDigits f (n / 10) ++ [digitChar (n % 10)] := by
  simp only [natDigits]

theorem decVal_natDigits : ∀ (f n : Nat), n ≤ f → decVal (natDigits f n) = n := by
  intro f
  induction f with
  | zero =>
    intro n h
    have : n = 0 := by omega
    subst this
    simp [natDigits, decVal_single, digitVal_digitChar]
  | succ f ih =>
    intro n h
    rw [natDigits_succ]
    by_cases hn : n < 10
    · simp only [hn, if_true, decVal_single, digitVal_digitChar hn]
    · simp only [hn, if_false, decVal_snoc]
      rw [ih (n / 10) (by omega), digitVal_digitChar (by omega)]
      omega

theorem natDigits_all_digits : ∀ (f n : Nat), ∀ c ∈ natDigits f n, isDigit c = true := by
  intro f
  induction f with
  | zero =>
    intro n c hc
    simp only [natDigits, List.mem_singleton] at hc
    subst hc
    exact isDigit_digitChar (by omega)
  | succ f ih =>
    intro n c hc
    rw [natDigits_succ] at hc
    by_cases hn : n < 10
    · simp only [hn, if_true, List.mem_singleton] at hc
      subst hc
      exact isDigit_digitChar hn
    · simp only [hn, if_false, List.mem_append, List.mem_singleton] at hc
      rcases hc with hc | hc
      · exact ih _ c hc
      · subst hc
        exact isDigit_digitChar (by omega)

/-- a positive number is printed with a non-zero first digit -/
theorem natDigits_head : ∀ (f n : Nat), 1 ≤ n → n ≤ f →
    ∃ k ds, 1 ≤ k ∧ k < 10 ∧ natDigits f n = digitChar k :: ds := by
  intro f
  induction f with
  | zero => intro n h1 h2; omega
  | succ f ih =>
    intro n h1 h2
    rw [natDigits_succ]
    by_cases hn : n < 10
    · exact ⟨n, [], h1, hn, by simp [hn]⟩
    · obtain ⟨k, ds, hk1, hk2, he⟩ := ih (n / 10) (by omega) (by omega)
      exact ⟨k, ds ++ [digitChar (n % 10)], hk1, hk2, by simp [hn, he]⟩

theorem spanDigits_all : ∀ (ds : Str), (∀ c ∈ ds, isDigit c = true) → spanDigits ds = (ds, []) := by
  intro ds
  induction ds with
  | nil => intro _; rfl
  | cons c r ih =>
    intro h
    have hc := h c (by simp)
    have hr := ih (fun x hx => h x (by simp [hx]))
    simp [spanDigits, hc, hr]

/-- digits followed by a text that does not start with a digit -/
theorem spanDigits_append : ∀ (ds rest : Str), (∀ c ∈ ds, isDigit c = true) →
    (∀ c r, rest = c :: r → isDigit c = false) → spanDigits (ds ++ rest) = (ds, rest) := by
  intro ds
  induction ds with
  | nil =>
    intro rest _ hr
    cases rest with
    | nil => rfl
    | cons c r => simp [spanDigits, hr c r rfl]
  | cons c r ih =>
    intro rest h hr
    have hc := h c (by simp)
    have hrr := ih rest (fun x hx => h x (by simp [hx])) hr
    simp [spanDigits, hc, hrr]

theorem digitChar_ne_zero {k : Nat} (h1 : 1 ≤ k) (h2 : k < 10) : digitChar k ≠ '0' := by
  intro h
  have := congrArg Char.toNat h
  rw [digitChar_toNat h2] at this
  have h0 : ('0' : Char).toNat = 48 := by decide
  omega

theorem digitChar_ne_minus {k : Nat} (h2 : k < 10) : digitChar k ≠ '-' := by
  intro h
  have := congrArg Char.toNat h
  rw [digitChar_toNat h2] at this
  have h0 : ('-' : Char).toNat = 45 := by decide
  omega

theorem decLit_natDigits (f n : Nat) (h : n ≤ f) :
    decLit (natDigits f n) = (intLitType true (false, 0) n).map fun t => (n, t) := by
  unfold decLit
  rw [spanDigits_all _ (natDigits_all_digits f n)]
  have hne : natDigits f n ≠ [] := by
    cases f with
    | zero => simp [natDigits]
    | succ f =>
      rw [natDigits_succ]
      by_cases hn : n < 10 <;> simp [hn]
  simp only [hne, if_false, decVal_natDigits f n h]
  have : intSuffix [] = some (false, 0) := by decide
  simp only [this]

theorem cppIntLit_renderNat (n : Nat) :
    cppIntLit (renderNat n) = (intLitType true (false, 0) n).map fun t => (n, t) := by
  by_cases h0 : n = 0
  · subst h0; decide
  · obtain ⟨k, ds, hk1, hk2, he⟩ := natDigits_head n n (by omega) (by omega)
    have hd := decLit_natDigits n n (by omega)
    unfold renderNat
    rw [he] at hd ⊢
    simp only [cppIntLit, digitChar_ne_zero hk1 hk2, if_false]
    exact hd

theorem renderNat_head (n : Nat) : ∃ k ds, k < 10 ∧ renderNat n = digitChar k :: ds := by
  by_cases h0 : n = 0
  · subst h0; exact ⟨0, [], by omega, by decide⟩
  · obtain ⟨k, ds, _, hk2, he⟩ := natDigits_head n n (by omega) (by omega)
    exact ⟨k, ds, hk2, he⟩

theorem cppIntL_renderInt_ofNat (n : Nat) :
    cppIntL (renderInt (Int.ofNat n)) = (intLitType true (false, 0) n).map fun t => ((n : Int), t) := by
  obtain ⟨k, ds, hk, he⟩ := renderNat_head n
  have hl := cppIntLit_renderNat n
  simp only [renderInt]
  rw [he] at hl ⊢
  have hm := digitChar_ne_minus hk
  unfold cppIntL
  split
  · next r heq => simp at heq; exact absurd heq.1 hm
  · rw [hl]; cases intLitType true (false, 0) n <;> rfl

theorem cppIntL_renderInt_negSucc (n : Nat) :
    cppIntL (renderInt (Int.negSucc n)) =
      (intLitType true (false, 0) (n + 1)).map fun t => (Int.negSucc n, t) := by
  simp only [renderInt, cppIntL, cppIntLit_renderNat]
  cases intLitType true (false, 0) (n + 1) with
  | none => rfl
  | some t =>
    simp only [Option.map_some]
    congr 2

/-! ## D. floating literals -/

theorem digs_all_digits (ds : List (Fin 10)) : ∀ c ∈ digs ds, isDigit c = true := by
  intro c hc
  simp only [digs, List.mem_map] at hc
  obtain ⟨d, _, rfl⟩ := hc
  exact isDigit_digitChar d.isLt

theorem foldl_digs (ds : List (Fin 10)) : ∀ a : Nat,
    (digs ds).foldl (fun a c => a * 10 + digitVal c) a = ds.foldl (fun a d => a * 10 + d.val) a := by
  induction ds with
  | nil => intro a; rfl
  | cons d r ih =>
    intro a
    simp only [digs, List.map_cons, List.foldl_cons] at ih ⊢
    rw [digitVal_digitChar d.isLt]
    exact ih _

theorem decVal_digs (ds : List (Fin 10)) : decVal (digs ds) = valDigits ds := foldl_digs ds 0

theorem digs_append (a b : List (Fin 10)) : digs a ++ digs b = digs (a ++ b) := by
  simp [digs]

theorem digs_length (ds : List (Fin 10)) : (digs ds).length = ds.length := by simp [digs]

theorem digs_eq_nil {ds : List (Fin 10)} : digs ds = [] ↔ ds = [] := by simp [digs]

theorem isDigit_e : isDigit 'e' = false := by decide
theorem isDigit_dot : isDigit '.' = false := by decide
theorem isDigit_minus : isDigit '-' = false := by decide
theorem isDigit_plus : isDigit '+' = false := by decide

theorem lexExponent_some (eneg : Bool) (ed : List (Fin 10)) (h : ed ≠ []) :
    lexExponent ('e' :: (if eneg then '-' else '+') :: digs ed) =
      some (some (if eneg then -(valDigits ed : Int) else (valDigits ed : Int)), []) := by
  have hsp := spanDigits_all (digs ed) (digs_all_digits ed)
  have hne : digs ed ≠ [] := fun hh => h (digs_eq_nil.1 hh)
  cases eneg <;> simp [lexExponent, hsp, hne, decVal_digs]

/-- the mantissa part `ddd` or `ddd.ddd` followed by `rest` that starts with neither digit nor `.` -/
theorem cppFloatLit_some_frac (ip f : List (Fin 10)) (hip : ip ≠ []) (rest : Str)
    (hr : ∀ c r, rest = c :: r → isDigit c = false) :
    cppFloatLit (digs ip ++ ('.' :: (digs f ++ rest))) =
      match lexExponent rest with
      | none => none
      | some (ex, r) => (floatSuffix r).map fun t =>
          ({ neg := false, mant := valDigits (ip ++ f), exp := ex.getD 0 - (f.length : Int) }, t) := by
  have h1 : spanDigits (digs ip ++ ('.' :: (digs f ++ rest))) = (digs ip, '.' :: (digs f ++ rest)) :=
    spanDigits_append _ _ (digs_all_digits ip) (by intro c r h; simp at h; rw [← h.1]; exact isDigit_dot)
  have h2 : spanDigits (digs f ++ rest) = (digs f, rest) :=
    spanDigits_append _ _ (digs_all_digits f) hr
  have hne : digs ip ≠ [] := fun hh => hip (digs_eq_nil.1 hh)
  unfold cppFloatLit
  simp only [h1, List.tail_cons, decide_true, if_true, h2, hne, false_and, if_false]
  cases lexExponent rest with
  | none => rfl
  | some p =>
    obtain ⟨ex, r⟩ := p
    simp only [Bool.not_true, Bool.false_and, Bool.false_eq_true, if_false, digs_append, decVal_digs, digs_length]

theorem cppFloatLit_no_frac (ip : List (Fin 10)) (hip : ip ≠ []) (eneg : Bool) (ed : List (Fin 10))
    (hed : ed ≠ []) :
    cppFloatLit (digs ip ++ ('e' :: (if eneg then '-' else '+') :: digs ed)) =
      some ({ neg := false, mant := valDigits ip,
              exp := (if eneg then -(valDigits ed : Int) else (valDigits ed : Int)) }, .double) := by
  have h1 : spanDigits (digs ip ++ ('e' :: (if eneg then '-' else '+') :: digs ed)) =
      (digs ip, 'e' :: (if eneg then '-' else '+') :: digs ed) :=
    spanDigits_append _ _ (digs_all_digits ip) (by intro c r h; simp at h; rw [← h.1]; exact isDigit_e)
  have hne : digs ip ≠ [] := fun hh => hip (digs_eq_nil.1 hh)
  have hdot : (('e' : Char) = '.') = False := by decide
  unfold cppFloatLit
  simp only [h1, hdot, decide_false, Bool.false_eq_true, if_false, hne, false_and,
    lexExponent_some eneg ed hed]
  simp [floatSuffix, decVal_digs]

theorem renderFloat_pos (ip : List (Fin 10)) (fp : Option (List (Fin 10)))
    (ex : Option (Bool × List (Fin 10))) :
    renderFloat false ip fp ex = digs ip ++
      ((match fp with | some f => '.' :: digs f | none => []) ++
       (match ex with | some (eneg, ed) => 'e' :: (if eneg then '-' else '+') :: digs ed | none => [])) := by
  cases fp <;> cases ex <;> simp [renderFloat]

theorem renderFloat_neg (ip : List (Fin 10)) (fp : Option (List (Fin 10)))
    (ex : Option (Bool × List (Fin 10))) :
    renderFloat true ip fp ex = '-' :: renderFloat false ip fp ex := by
  simp [renderFloat]

theorem cppFloatLit_render (ip : List (Fin 10)) (fp : Option (List (Fin 10)))
    (ex : Option (Bool × List (Fin 10))) (wf : WFRepr (.finite false ip fp ex)) :
    cppFloatLit (renderFloat false ip fp ex) = some (floatValue false ip fp ex, .double) := by
  obtain ⟨hip, hfp, hex, hsome⟩ := wf
  rw [renderFloat_pos]
  cases fp with
  | none =>
    cases ex with
    | none => simp at hsome
    | some e =>
      obtain ⟨eneg, ed⟩ := e
      have hed : ed ≠ [] := fun h => hex (by simp [h])
      simp only [List.nil_append]
      rw [cppFloatLit_no_frac ip hip eneg ed hed]
      simp [floatValue]
  | some f =>
    cases ex with
    | none =>
      have := cppFloatLit_some_frac ip f hip [] (by intro c r h; simp at h)
      simp only [List.append_nil] at this ⊢
      rw [this]
      simp [lexExponent, floatSuffix, floatValue]
    | some e =>
      obtain ⟨eneg, ed⟩ := e
      have hed : ed ≠ [] := fun h => hex (by simp [h])
      have := cppFloatLit_some_frac ip f hip ('e' :: (if eneg then '-' else '+') :: digs ed)
        (by intro c r h; simp at h; rw [← h.1]; exact isDigit_e)
      simp only [List.cons_append] at this ⊢
      rw [this, lexExponent_some eneg ed hed]
      simp [floatSuffix, floatValue]

theorem digs_head {ip : List (Fin 10)} (h : ip ≠ []) : ∃ k r, k < 10 ∧ digs ip = digitChar k :: r := by
  cases ip with
  | nil => exact absurd rfl h
  | cons d r => exact ⟨d.val, digs r, d.isLt, rfl⟩

theorem cppFloatL_render (neg : Bool) (ip : List (Fin 10)) (fp : Option (List (Fin 10)))
    (ex : Option (Bool × List (Fin 10))) (wf : WFRepr (.finite neg ip fp ex)) :
    cppFloatL (renderFloat neg ip fp ex) = some (floatValue neg ip fp ex, .double) := by
  have wf' : WFRepr (.finite false ip fp ex) := wf
  have hl := cppFloatLit_render ip fp ex wf'
  cases neg with
  | true =>
    rw [renderFloat_neg]
    simp only [cppFloatL, hl, Option.map_some]
    simp [floatValue]
  | false =>
    obtain ⟨k, r, hk, he⟩ := digs_head wf.1
    have hm := digitChar_ne_minus hk
    have hshape : ∃ t, renderFloat false ip fp ex = digitChar k :: t := by
      rw [renderFloat_pos, he]; exact ⟨_, rfl⟩
    obtain ⟨t, ht⟩ := hshape
    rw [ht] at hl ⊢
    unfold cppFloatL
    split
    · next r' heq => simp at heq; exact absurd heq.1 hm
    · exact hl

/-! ## E. names between quotes; lines -/

theorem lex_plain : ∀ (s tail : Str), PlainName s → lex .norm (s ++ '"' :: tail) = some (s, tail) := by
  intro s
  induction s with
  | nil => intro tail _; simp [lex_norm_cons, onNorm]
  | cons c cs ih =>
    intro tail h
    simp only [PlainName, List.all_cons, Bool.and_eq_true, Bool.not_eq_true'] at h
    simp only [List.cons_append]
    rw [lex_norm_plain c _ h.1, ih tail (by simpa [PlainName] using h.2)]
    rfl

theorem cppStringLit_verbatim (s tail : Str) (h : PlainName s) :
    cppStringLit ('"' :: (s ++ '"' :: tail)) = some (s, tail) := by
  simp only [cppStringLit, if_true]
  exact lex_plain s tail h

theorem drop_length_append (a b : Str) : (a ++ b).drop a.length = b := by
  induction a with
  | nil => rfl
  | cons x xs ih => simp only [List.cons_append, List.length_cons, List.drop_succ_cons]; exact ih

theorem bankLine_lit {tbl : List (Char × Str)} (ht : TableOk tbl) (pre suf bank : Str) :
    cppStringLit ((bankLine tbl pre suf bank).drop pre.length) = some (bank, suf) := by
  unfold bankLine
  rw [List.append_assoc, drop_length_append]
  exact cppStringLit_render ht bank suf

theorem renderSegs_litPrefix (tbl : List (Char × Str)) (tree col var : Str) :
    ∀ segs : List Seg, renderSegs tbl tree col var segs =
      (litPrefix segs).1 ++ renderSegs tbl tree col var (litPrefix segs).2 := by
  intro segs
  induction segs with
  | nil => simp [litPrefix, renderSegs]
  | cons s ss ih =>
    cases s with
    | lit t => simp only [litPrefix, renderSegs, renderSeg, List.append_assoc]; rw [ih]
    | _ => simp [litPrefix]

theorem getLast?_quote {l : Str} (h : l.getLast? = some '"') : ∃ l', l = l' ++ ['"'] ∧ l.length - 1 = l'.length := by
  induction l with
  | nil => simp at h
  | cons x xs ih =>
    cases xs with
    | nil =>
      simp at h
      exact ⟨[], by simp [h], by simp⟩
    | cons y ys =>
      have h' : (y :: ys).getLast? = some '"' := by simpa [List.getLast?_cons_cons] using h
      obtain ⟨l', he, hl⟩ := ih h'
      exact ⟨x :: l', by simp [he], by simp at hl ⊢; omega⟩

theorem head?_quote {t : Str} (h : t.head? = some '"') : ∃ t', t = '"' :: t' := by
  cases t with
  | nil => simp at h
  | cons x xs => simp at h; exact ⟨xs, by rw [h]⟩

/-- the verbatim case: `pre' " name " t' …` lexed from the position of the opening quote -/
theorem nameAt_verbatim (pre t rest name : Str) (hp : pre.getLast? = some '"')
    (ht : t.head? = some '"') (hn : PlainName name) :
    nameAt (pre.length - 1) (pre ++ (name ++ (t ++ rest))) = some name := by
  obtain ⟨pre', hpe, hlen⟩ := getLast?_quote hp
  obtain ⟨t', hte⟩ := head?_quote ht
  rw [hlen]
  subst hpe; subst hte
  unfold nameAt
  rw [List.append_assoc, drop_length_append]
  simp only [List.cons_append, List.nil_append]
  rw [cppStringLit_verbatim name _ hn]
  rfl

theorem nameAt_escaped {tbl : List (Char × Str)} (htb : TableOk tbl) (pre rest name : Str) :
    nameAt pre.length (pre ++ (renderStrL tbl name ++ rest)) = some name := by
  unfold nameAt
  rw [drop_length_append, cppStringLit_render htb]
  rfl

theorem nameAt_bookLine {tbl : List (Char × Str)} (htb : TableOk tbl) (segs : List Seg)
    (hok : BookLineOk segs = true) (tree col var : Str) (off : Nat) (k : NameKind) (esc : Bool)
    (hs : nameSlot segs = some (off, k, esc))
    (hn : esc = false → PlainName (pickName k tree col)) :
    nameAt off (renderSegs tbl tree col var segs) = some (pickName k tree col) := by
  rw [renderSegs_litPrefix]
  unfold nameSlot at hs
  unfold BookLineOk at hok
  simp only [Bool.and_eq_true] at hok
  obtain ⟨_, hok⟩ := hok
  generalize (litPrefix segs).1 = pre at *
  generalize (litPrefix segs).2 = post at *
  match post, hs, hok with
  | .tree :: .lit t :: post', hs, hok =>
    simp only [Option.some.injEq, Prod.mk.injEq] at hs
    obtain ⟨rfl, rfl, rfl⟩ := hs
    simp only [Bool.and_eq_true, beq_iff_eq] at hok
    simp only [renderSegs, renderSeg, pickName]
    exact nameAt_verbatim pre t _ tree hok.1 hok.2 (hn rfl)
  | .col :: .lit t :: post', hs, hok =>
    simp only [Option.some.injEq, Prod.mk.injEq] at hs
    obtain ⟨rfl, rfl, rfl⟩ := hs
    simp only [Bool.and_eq_true, beq_iff_eq] at hok
    simp only [renderSegs, renderSeg, pickName]
    exact nameAt_verbatim pre t _ col hok.1 hok.2 (hn rfl)
  | .treeEsc :: post', hs, hok =>
    simp only [Option.some.injEq, Prod.mk.injEq] at hs
    obtain ⟨rfl, rfl, rfl⟩ := hs
    simp only [renderSegs, renderSeg, pickName]
    exact nameAt_escaped htb pre _ tree
  | .colEsc :: post', hs, hok =>
    simp only [Option.some.injEq, Prod.mk.injEq] at hs
    obtain ⟨rfl, rfl, rfl⟩ := hs
    simp only [renderSegs, renderSeg, pickName]
    exact nameAt_escaped htb pre _ col

/-! ## B''. trigraph replacement leaves a clean prefix alone -/

theorem detri_cons_ne (c : Char) (l : Str) (hc : c ≠ '?') : detri (c :: l) = c :: detri l := by
  match l with
  | [] => simp [detri]
  | [_] => simp [detri]
  | c₂ :: x :: r => simp [detri, hc]

theorem detri_q_ne (c₂ : Char) (l : Str) (hc : c₂ ≠ '?') : detri ('?' :: c₂ :: l) = '?' :: detri (c₂ :: l) := by
  match l with
  | [] => simp [detri]
  | x :: r => simp [detri, hc]

/-- a text without trigraph that does not end in `?` is not changed by phase 1, whatever follows -/
theorem detri_append_clean (b : Str) : ∀ a : Str, triScan 0 a = false → a.getLast? ≠ some '?' →
    detri (a ++ b) = a ++ detri b := by
  intro a
  induction a with
  | nil => intro _ _; rfl
  | cons c a' ih =>
    intro h hl
    have htail : triScan 0 a' = false := triScan_false_tail h
    by_cases hc : c = '?'
    · subst hc
      match a', h, hl, htail, ih with
      | [], _, hl, _, _ => simp at hl
      | c₂ :: a'', h, hl, htail, ih =>
        have hl' : (c₂ :: a'').getLast? ≠ some '?' := by
          simpa [List.getLast?_cons_cons] using hl
        by_cases hc₂ : c₂ = '?'
        · subst hc₂
          match a'', h, hl, hl', htail, ih with
          | [], _, hl, _, _, _ => simp at hl
          | x :: a''', h, _, hl', htail, ih =>
            have hx : triChar x = none := by
              cases hx : triChar x with
              | none => rfl
              | some t =>
                have hxq : x ≠ '?' := by intro e; subst e; simp [triChar] at hx
                simp [triScan, hxq, hx] at h
            have := ih htail hl'
            simp only [List.cons_append] at this ⊢
            simp only [detri, hx, and_self, if_true]
            rw [this]
        · have := ih htail hl'
          simp only [List.cons_append] at this ⊢
          rw [detri_q_ne _ _ hc₂, this]
    · have hl' : a' = [] ∨ a'.getLast? ≠ some '?' := by
        cases a' with
        | nil => exact Or.inl rfl
        | cons y ys => right; simpa [List.getLast?_cons_cons] using hl
      simp only [List.cons_append]
      rw [detri_cons_ne _ _ hc]
      rcases hl' with rfl | hl'
      · rfl
      · rw [ih htail hl']

theorem renderStrL_getLast (tbl : List (Char × Str)) (s : Str) :
    (renderStrL tbl s).getLast? ≠ some '?' := by
  unfold renderStrL
  have : ('"' :: (renderBody tbl s ++ ['"'])) = ('"' :: renderBody tbl s) ++ ['"'] := by simp
  rw [this, List.getLast?_append]
  simp

/-- the escaped literal is read back under trigraph replacement in any context -/
theorem cppStringLit_detri_render {tbl : List (Char × Str)} (ht : TableOk tbl)
    (hq : tbl.lookup '?' = some ['\\', '?']) (s tail : Str) :
    cppStringLit (detri (renderStrL tbl s ++ tail)) = some (s, detri tail) := by
  rw [detri_append_clean tail _ (hasTrigraph_render_escaped ht hq s) (renderStrL_getLast tbl s)]
  exact cppStringLit_render ht s (detri tail)

theorem nameAtTri_escaped {tbl : List (Char × Str)} (htb : TableOk tbl)
    (hq : tbl.lookup '?' = some ['\\', '?']) (pre rest name : Str) :
    nameAtTri pre.length (pre ++ (renderStrL tbl name ++ rest)) = some name := by
  unfold nameAtTri
  rw [drop_length_append, cppStringLit_detri_render htb hq]
  rfl

/-- an escaped name place carries its name also under trigraph replacement -/
theorem nameAtTri_bookLine {tbl : List (Char × Str)} (htb : TableOk tbl)
    (hq : tbl.lookup '?' = some ['\\', '?']) (segs : List Seg) (tree col var : Str) (off : Nat)
    (k : NameKind) (hs : nameSlot segs = some (off, k, true)) :
    nameAtTri off (renderSegs tbl tree col var segs) = some (pickName k tree col) := by
  rw [renderSegs_litPrefix]
  unfold nameSlot at hs
  generalize (litPrefix segs).1 = pre at *
  generalize (litPrefix segs).2 = post at *
  match post, hs with
  | .treeEsc :: post', hs =>
    simp only [Option.some.injEq, Prod.mk.injEq] at hs
    obtain ⟨rfl, rfl, _⟩ := hs
    simp only [renderSegs, renderSeg, pickName]
    exact nameAtTri_escaped htb hq pre _ tree
  | .colEsc :: post', hs =>
    simp only [Option.some.injEq, Prod.mk.injEq] at hs
    obtain ⟨rfl, rfl, _⟩ := hs
    simp only [renderSegs, renderSeg, pickName]
    exact nameAtTri_escaped htb hq pre _ col

/-! ## F. small facts used by the theorems -/

theorem intLitType_dec (v : Nat) :
    intLitType true (false, 0) v =
      if v < 2 ^ 31 then some .int else if v < 2 ^ 63 then some .long else none := by
  simp [intLitType]

theorem Dec.same_refl (d : Dec) : Dec.same d d := ⟨rfl, rfl⟩

/-! ## F'. negative numbers in parentheses -/

theorem unparen_signedLit (t : Str) (h : t.head? ≠ some '(') : unparen (signedLit t) = t := by
  unfold signedLit
  by_cases hm : t.head? = some '-'
  · have hl : ('(' :: (t ++ [')'])).getLast? = some ')' := by
      rw [← List.cons_append, List.getLast?_append]; simp
    simp [hm, unparen, hl]
  · simp [hm, unparen, h]

theorem digitChar_ne_lparen {k : Nat} (h2 : k < 10) : digitChar k ≠ '(' := by
  intro h
  have := congrArg Char.toNat h
  rw [digitChar_toNat h2] at this
  have h0 : ('(' : Char).toNat = 40 := by decide
  omega

theorem renderInt_head (n : Int) : (renderInt n).head? ≠ some '(' := by
  cases n with
  | ofNat m =>
    obtain ⟨k, ds, hk, he⟩ := renderNat_head m
    have := digitChar_ne_lparen hk
    simp [renderInt, he, this]
  | negSucc m => simp [renderInt]

theorem renderFloat_head (neg : Bool) (ip : List (Fin 10)) (fp : Option (List (Fin 10)))
    (ex : Option (Bool × List (Fin 10))) (hip : ip ≠ []) : (renderFloat neg ip fp ex).head? ≠ some '(' := by
  cases neg with
  | true => rw [renderFloat_neg]; simp
  | false =>
    obtain ⟨k, r, hk, he⟩ := digs_head hip
    have := digitChar_ne_lparen hk
    rw [renderFloat_pos, he]
    simp [this]

theorem cppIntE_signed (n : Int) : cppIntE (signedLit (renderInt n)) = cppIntL (renderInt n) := by
  unfold cppIntE; rw [unparen_signedLit _ (renderInt_head n)]

theorem cppFloatE_signed (neg : Bool) (ip : List (Fin 10)) (fp : Option (List (Fin 10)))
    (ex : Option (Bool × List (Fin 10))) (hip : ip ≠ []) :
    cppFloatE (signedLit (renderFloat neg ip fp ex)) = cppFloatL (renderFloat neg ip fp ex) := by
  unfold cppFloatE; rw [unparen_signedLit _ (renderFloat_head neg ip fp ex hip)]

/-- a text in the output of `signedLit` never starts with a sign -/
theorem signedLit_head (t : Str) : (signedLit t).head? ≠ some '-' ∧
    ((signedLit t).head? = some '+' → t.head? = some '+') := by
  unfold signedLit
  by_cases hm : t.head? = some '-'
  · simp [hm]
  · simp [hm]

/-! ## G. stored constants: conversions along a chain of types -/

theorem intToDbl_isSome (n : Int) (h : InInt32 n) : ∃ b, intToDbl n = some b := by
  obtain ⟨h1, h2⟩ := h
  unfold intToDbl
  by_cases h0 : n.natAbs = 0
  · exact ⟨0, by simp [h0]⟩
  · have hlt : n.natAbs < 2 ^ 53 := by omega
    simp only [h0, hlt, if_true, if_false]
    exact ⟨_, rfl⟩

theorem convChain_doubles (b : Nat) : ∀ chain : List CTy, (∀ t ∈ chain, t = .double) →
    convChain chain (.dbl b) = some (.dbl b) := by
  intro chain
  induction chain with
  | nil => intro _; rfl
  | cons t ts ih =>
    intro h
    have ht : t = .double := h t (by simp)
    subst ht
    have := ih (fun t' ht' => h t' (by simp [ht']))
    simp [convChain, convTo, this]

/-- a storable constant converted to `double`: some double `x`, which is numerically the constant -/
theorem conv_double_storable (c : PyConst) (h : StorableConst c) :
    ∃ v x, valOf c = some v ∧ convTo .double v = some (.dbl x) ∧ sameNum v (.dbl x) = true := by
  cases c with
  | str s => exact absurd h (by simp [StorableConst])
  | other t => exact absurd h (by simp [StorableConst])
  | int n =>
    obtain ⟨b, hb⟩ := intToDbl_isSome n h
    exact ⟨.int n, b, rfl, by simp [convTo, hb], by simp [sameNum, convTo, hb]⟩
  | bool b =>
    exact ⟨.bool b, (if b then 4607182418800017408 else 0), rfl, by simp [convTo], by simp [sameNum, convTo]⟩
  | float r bits =>
    cases r with
    | finite neg ip fp ex => exact ⟨.dbl bits, bits, rfl, by simp [convTo], by simp [sameNum, convTo]⟩
    | inf b => exact absurd h (by simp [StorableConst])
    | nan => exact absurd h (by simp [StorableConst])

theorem keptThrough_of_val (c : PyConst) (h : StorableConst c) (v : NVal) (hv : valOf c = some v)
    (chain : List CTy) :
    keptThrough c chain = keptVal v chain := by
  cases c with
  | str s => exact absurd h (by simp [StorableConst])
  | other t => simp only [keptThrough, hv]
  | int n => simp only [keptThrough, hv]
  | bool b => simp only [keptThrough, hv]
  | float r bits => simp only [keptThrough, hv]

/-- through any non-empty chain of `double`s a storable constant keeps its value -/
theorem kept_doubles (c : PyConst) (h : StorableConst c) (chain : List CTy) (hne : chain ≠ [])
    (hd : ∀ t ∈ chain, t = .double) : keptThrough c chain = true := by
  obtain ⟨v, x, hv, hc, hs⟩ := conv_double_storable c h
  cases chain with
  | nil => exact absurd rfl hne
  | cons t ts =>
    have ht : t = .double := hd t (by simp)
    subst ht
    have hts := convChain_doubles x ts (fun t' ht' => hd t' (by simp [ht']))
    rw [keptThrough_of_val c h v hv]
    simp [keptVal, convChain, hc, hts, hs]

/-- … and into a variable of the type recorded for its own kind -/
theorem kept_own (c : PyConst) (h : StorableConst c) : keptThrough c [litTy c] = true := by
  cases c with
  | str s => exact absurd h (by simp [StorableConst])
  | other t => exact absurd h (by simp [StorableConst])
  | int n =>
    have hf : fitsTy .int n = true := by
      obtain ⟨h1, h2⟩ := h
      simp [fitsTy, InInt32, h1, h2]
    simp [keptThrough, keptVal, valOf, litTy, convChain, convTo, isIntTy, hf, sameNum]
  | bool b => simp [keptThrough, keptVal, valOf, litTy, convChain, convTo, sameNum]
  | float r bits =>
    cases r with
    | finite neg ip fp ex => simp [keptThrough, keptVal, valOf, litTy, convChain, convTo, sameNum]
    | inf b => exact absurd h (by simp [StorableConst])
    | nan => exact absurd h (by simp [StorableConst])

theorem setVarSteps_doubles (src : CTy) : setVarSteps .double src ≠ [] ∧ ∀ t ∈ setVarSteps .double src, t = .double := by
  unfold setVarSteps
  by_cases h : src = .double <;> simp [h]

/-- shape of the paths: the constants are the carrier's; inside a conditional every step is a
`double` and there is at least one; a bare constant has no step before the column -/
theorem paths_shape : ∀ k : Carrier, ∀ p ∈ k.paths,
    p.1 ∈ k.consts ∧ (∀ t ∈ p.2, t = .double) ∧
    (match k with | .const _ => p.2 = [] | .ite _ _ => p.2 ≠ []) := by
  intro k
  induction k with
  | const c =>
    intro p hp
    simp [Carrier.paths] at hp
    subst hp
    simp [Carrier.consts]
  | ite a b iha ihb =>
    intro p hp
    simp only [Carrier.paths, List.mem_append, List.mem_map] at hp
    rcases hp with ⟨q, hq, rfl⟩ | ⟨q, hq, rfl⟩
    · obtain ⟨h1, h2, _⟩ := iha q hq
      obtain ⟨hne, hall⟩ := setVarSteps_doubles a.ty
      refine ⟨by simp [Carrier.consts, h1], ?_, ?_⟩
      · intro t ht
        rcases List.mem_append.mp ht with h | h
        · exact h2 t h
        · exact hall t h
      · simp [hne]
    · obtain ⟨h1, h2, _⟩ := ihb q hq
      obtain ⟨hne, hall⟩ := setVarSteps_doubles b.ty
      refine ⟨by simp [Carrier.consts, h1], ?_, ?_⟩
      · intro t ht
        rcases List.mem_append.mp ht with h | h
        · exact h2 t h
        · exact hall t h
      · simp [hne]

/-- under an accepted conditional no constant is a string (a bare string constant is fine) -/
theorem accepted_nostr : ∀ k : Carrier, k.accepted = true → (∀ s, k ≠ .const (.str s)) →
    ∀ c ∈ k.consts, ∀ s, c ≠ .str s := by
  intro k
  induction k with
  | const c =>
    intro _ hk c' hc' s hs
    simp [Carrier.consts] at hc'
    subst hc'; subst hs
    exact hk s rfl
  | ite a b iha ihb =>
    intro hacc _ c hc s
    simp only [Carrier.accepted, Bool.and_eq_true, bne_iff_ne, ne_eq] at hacc
    obtain ⟨⟨⟨hta, htb⟩, haa⟩, hab⟩ := hacc
    simp only [Carrier.consts, List.mem_append] at hc
    rcases hc with hc | hc
    · exact iha haa (fun s' h' => hta (by simp [h', Carrier.ty, litTy])) c hc s
    · exact ihb hab (fun s' h' => htb (by simp [h', Carrier.ty, litTy])) c hc s

end FaxVerif.C18
