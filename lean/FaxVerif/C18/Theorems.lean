/-
C18 — property theorems: constants in a query denote the same value in the generated code.

THE PROPERTY (full strength), for every constant `c` a query may contain:

    ∀ c, OutcomeOk c (renderConst c).toOption                                  -- (★)

i.e. what `visit_Constant` emits is a C++ literal of the same value and kind whose recorded type
can hold it, and it refuses exactly the constants that have no such literal; and every string that
is a NAME (bank, tree, branch) is found again, character for character, by the C++ lexer at the
place where it was put.

(★) is FALSE of the code as it stands (`const_ok_counterexample`: the int 3000000000 is accepted
and typed `int`), so it is proved with the explicit decidable hypothesis `InInt32` for ints
(`const_ok_partial`); per kind the results are as strong as the code allows:

* strings — `str_roundtrip`: ALL strings, no hypothesis (C++17 and later, GNU dialects);
  `str_roundtrip_trigraphs`: ALL strings also under ISO C++ before 17, where translation phase 1
  replaces trigraphs (`?` is escaped since 31a449a; `render_trigraph_free`);
  what a `const char*` parameter receives: `cstr_roundtrip_partial` (no NUL), counterexample;
* ints — `int_roundtrip_partial`, `int_value_partial`, `int_const_ok_partial`, `int_counterexample`,
  `int_huge_counterexample`;
* floats — `float_roundtrip`: every text of the grammar of `repr(float)` is a C++ `double` literal
  of exactly the text's decimal value; `float_const_ok`: hence the literal rounds to the very
  bits of the float, given `ReprFaithful` (the text `repr` printed rounds to the float — the one
  fact trusted about CPython, an explicit decidable hypothesis); `nonfinite_rejected`;
* bools, unsupported kinds — `bool_roundtrip`, `unsupported_rejected`;
* a constant as an operand — `int_not_glued`, `float_not_glued`, `str_not_glued`: no constant fuses
  with the operator before it (negative numbers are emitted in parentheses since 212716c);
  `negative_after_minus` (`x - Constant(-5)` is emitted `(x-(-5))`);
* a numeric constant that is stored — `carrier_stored_ok`: through conditional expressions of any
  depth (the `double` result variables, the casts `set_var` writes, the column) every int of the
  32-bit range, finite float and bool keeps its value (`StoredOk`: exact C++ conversions along the
  declared types), a bare string goes into a `string` column; `stored_counterexamples` (what the
  clause forbids), `ifexp_str_rejected` (a string arm is refused since 6a224ae);
* names — `bank_roundtrip` (all strings, any surrounding text), `names_roundtrip`: ALL tree and
  branch names in the booking/fill lines regenerated from the three backends (escaped since
  c38e414); `book_lines_ok`, `name_slots_present`, `all_names_escaped`, `escape_table_ok`,
  `escape_table_question`, `escape_shape_ok` are the obligations over the regenerated tables.

Trusted, not proved here: CPython's `repr(float)` (hypothesis `ReprFaithful`, evaluated by exact
integer arithmetic on every sampled float by the harness), the C++ lexing rules as transcribed in
`Model.lean` (validated against g++ by the harness on the emitted literals and on hand-written
ones), that the C++ compiler rounds a decimal literal to the nearest double (g++ echo, bit for
bit), UTF-8 as both Python's output and g++'s input encoding.

The remaining counterexample theorems (`int_…`, `cstr_nul_…`) describe the hand
model and have to be retired together with the model when the code is repaired.
-/
import FaxVerif.C18.Proofs
namespace FaxVerif.C18

/-! ## the tables regenerated from the source -/

/-- The per-character table of `as_cpp_string_literal`, as it is in the source now, is sound for
the C++ lexer: each image is the character itself (never for `"`, `\`, LF, CR) or a backslash and
the letter of the simple escape sequence that denotes it. Re-checked on every run. -/
theorem escape_table_ok : TableOk pyTable := by decide

/-- Every single-character image of `as_cpp_string_literal` is `"` + text + `"`, and on the
multi-character probe strings (all pairs and triples over the special characters, runs of `?`
before every trigraph character, …) the function equals the concatenation of the per-character
images: the table above is all there is to its behaviour — it is not context dependent.
Re-checked on every run. -/
theorem escape_shape_ok : Gen.escapeShape = "ok" ∧ Gen.escapeHomomorphic = "ok" := by decide

/-- `?` is written `\\?` (since the repair 31a449a): two question marks are never adjacent in an
emitted literal, so no trigraph can form. Re-checked on every run. -/
theorem escape_table_question : pyTable.lookup '?' = some ['\\', '?'] := by decide

/-- No booking or fill line copies a name verbatim any more (since the repair c38e414): every
name place holds the escaped literal. Re-checked on every run. -/
theorem all_names_escaped :
    ∀ b ∈ bookTable ++ fillTable, ∀ segs ∈ b.2, verbatimSlot segs = false := by decide

/-- In every booking and fill line of the three backends, as emitted now, the tree / branch name
stands directly between a quote ending the preceding text and a quote starting the following
text (or is escaped), and nothing was unrecognised by the translator. Re-checked on every run. -/
theorem book_lines_ok :
    ∀ b ∈ bookTable ++ fillTable, ∀ segs ∈ b.2, BookLineOk segs = true := by decide

/-- The names are where the jobs need them: every backend's booking lines have a place for the
tree name and one for the branch name, and the ATLAS fill line (which finds its tree by name)
has one for the tree name. Re-checked on every run. -/
theorem name_slots_present :
    (∀ b ∈ bookTable, (b.2.any fun l => (nameSlot l).any (·.2.1 == .tree)) = true ∧
                      (b.2.any fun l => (nameSlot l).any (·.2.1 == .col)) = true) ∧
    bookTable.map (·.1) = ["atlas", "cms_aod", "cms_miniaod"] ∧
    (((fillTable.lookup "atlas").getD []).any fun l => (nameSlot l).any (·.2.1 == .tree)) = true := by
  decide

/-! ## strings -/

/-- **Strings pass through character for character.** For EVERY string `s` (quotes, backslashes,
newlines, control characters, non-ASCII, `?` … no hypothesis), the text `as_cpp_string_literal`
produces is one C++ string literal (C++17 lexing: no trigraphs) and it denotes exactly `s`. -/
theorem str_roundtrip (s : String) : cppString (renderStr s) = some s := by
  simp [cppString, renderStr, String.toList_ofList, cppStringL_render escape_table_ok]

/-- the same, as the Spec predicate on the model's output: both lexing dialects, type `string` -/
theorem str_const_ok (s : Str) : ConstOk (.str s) (renderStrL pyTable s) .string :=
  ⟨cppStringL_render escape_table_ok s,
   cppStringTriL_render_escaped escape_table_ok escape_table_question s, rfl⟩

/-- The string literal is found again in any context: whatever text follows the rendered
literal, the lexer stops exactly at its closing quote and returns `s`. -/
theorem str_in_context (s tail : Str) :
    cppStringLit (renderStrL pyTable s ++ tail) = some (s, tail) :=
  cppStringLit_render escape_table_ok s tail

/-- No emitted string literal contains a trigraph, whatever the string (a `?` is written `\\?`). -/
theorem render_trigraph_free (s : Str) : hasTrigraph (renderStrL pyTable s) = false :=
  hasTrigraph_render_escaped escape_table_ok escape_table_question s

/-- **Also under ISO C++ before C++17** (`-std=c++98/11/14`, `-trigraphs`: translation phase 1
replaces `??=` `??/` `??'` `??(` `??)` `??!` `??<` `??>` `??-`) the emitted literal denotes exactly
`s`, for EVERY string `s` — `a??/`, `x??=y` included. (Before the repair 31a449a this held only for
strings without a trigraph: `a??/` became the unterminated `"a\"`; that input is replayed on every
run as a repaired defect.) -/
theorem str_roundtrip_trigraphs (s : String) : cppStringTri (renderStr s) = some s := by
  simp [cppStringTri, renderStr, String.toList_ofList,
    cppStringTriL_render_escaped escape_table_ok escape_table_question]

/-- … and in any context: under trigraph replacement too the lexer stops exactly at the closing
quote of the rendered literal and returns `s` (the text after it is whatever phase 1 makes of it). -/
theorem str_in_context_trigraphs (s tail : Str) :
    cppStringLit (detri (renderStrL pyTable s ++ tail)) = some (s, detri tail) :=
  cppStringLit_detri_render escape_table_ok escape_table_question s tail

/-- PARTIAL (what a `const char*` / `std::string` parameter receives, e.g. the bank name in
`retrieve(result, "…")`): the string itself, provided it contains no NUL. -/
theorem cstr_roundtrip_partial (s : Str) (h : NoNul s) :
    (cppStringL (renderStrL pyTable s)).map cstrOf = some s := by
  rw [cppStringL_render escape_table_ok]
  simp only [Option.map_some, cstrOf, Option.some.injEq]
  have key : ∀ l : Str, (l.all fun c => decide (c ≠ Char.ofNat 0)) = true →
      l.takeWhile (fun c => decide (c ≠ Char.ofNat 0)) = l := by
    intro l
    induction l with
    | nil => intro _; rfl
    | cons c cs ih =>
      intro h
      simp only [List.all_cons, Bool.and_eq_true] at h
      rw [List.takeWhile_cons, if_pos h.1, ih h.2]
  exact key s h

/-- `a\0b` is accepted; the literal denotes all three characters but the callee sees `a`. -/
theorem cstr_nul_counterexample :
    (cppStringL (renderStrL pyTable ['a', Char.ofNat 0, 'b'])).map cstrOf = some ['a'] := by decide

/-! ## booleans, unsupported kinds -/

/-- `True` / `False` are emitted as the C++ literals `true` / `false`, typed `bool`. -/
theorem bool_roundtrip (b : Bool) :
    ∃ text, renderConst (.bool b) = .ok (text, .bool) ∧ ConstOk (.bool b) text .bool := by
  cases b
  · exact ⟨"false".toList, rfl, by decide⟩
  · exact ⟨"true".toList, rfl, by decide⟩

/-- `None`, bytes, complex, Ellipsis, tuples …: refused, nothing is emitted. -/
theorem unsupported_rejected (t : String) :
    renderConst (.other t) = .error (.unsupported t) ∧ OutcomeOk (.other t) (renderConst (.other t)).toOption := by
  refine ⟨rfl, ?_⟩
  simp [renderConst, Except.toOption, OutcomeOk, Representable]

/-! ## integers -/

/-- Full statement `∀ n, cppInt (str n) = some (n, int)` is false (`int_counterexample`).
PARTIAL: for `-2^31 < n < 2^31` Python's `str(n)` is a C++ integer expression of value `n` whose
own type is `int` — the type the translator records. (For `n = -2^31` the value is right and the
expression's type is `long`, see `int_const_ok_partial`.) -/
theorem int_roundtrip_partial (n : Int) (h1 : -2147483648 < n) (h2 : n < 2147483648) :
    cppInt (pyIntStr n) = some (n, .int) := by
  simp only [cppInt, pyIntStr, String.toList_ofList]
  cases n with
  | ofNat m =>
    have hm : m < 2 ^ 31 := by
      have : (m : Int) < 2147483648 := h2
      omega
    rw [cppIntL_renderInt_ofNat, intLitType_dec]
    simp [hm]
  | negSucc m =>
    have hm : m + 1 < 2 ^ 31 := by
      have : -2147483648 < Int.negSucc m := h1
      omega
    rw [cppIntL_renderInt_negSucc, intLitType_dec]
    simp [hm]

/-- PARTIAL, value level: every `n` with `-2^63 < n < 2^63` is emitted as a C++ integer expression
of exactly that value (typed `int` or `long` by the language). Outside, `str(n)` is not an integer
literal any C++ type can hold. -/
theorem int_value_partial (n : Int) (h1 : -9223372036854775808 < n) (h2 : n < 9223372036854775808) :
    (cppInt (pyIntStr n)).map (·.1) = some n := by
  simp only [cppInt, pyIntStr, String.toList_ofList]
  cases n with
  | ofNat m =>
    have hm : m < 2 ^ 63 := by
      have : (m : Int) < 9223372036854775808 := h2
      omega
    rw [cppIntL_renderInt_ofNat, intLitType_dec]
    by_cases h31 : m < 2 ^ 31 <;> simp [h31, hm]
  | negSucc m =>
    have hm : m + 1 < 2 ^ 63 := by
      have : -9223372036854775808 < Int.negSucc m := h1
      omega
    rw [cppIntL_renderInt_negSucc, intLitType_dec]
    by_cases h31 : m + 1 < 2 ^ 31 <;> simp [h31, hm]

/-- PARTIAL, as the Spec predicate: for every `n` of the 32-bit range (bounds included) the
emitted text — `str(n)`, in parentheses when negative (212716c) — denotes `n` and the recorded type
`int` can hold it. -/
theorem int_const_ok_partial (n : Int) (h : InInt32 n) :
    ConstOk (.int n) (signedLit (renderInt n)) .int := by
  obtain ⟨h1, h2⟩ := h
  have hfit : fitsTy .int n = true := by simp [fitsTy, InInt32, h1, h2]
  have hfit64 : fitsTy .long n = true := by
    simp only [fitsTy, InInt64]
    exact decide_eq_true ⟨by omega, by omega⟩
  cases n with
  | ofNat m =>
    have hm : m < 2 ^ 31 := by
      have : (m : Int) < 2147483648 := h2
      omega
    have hl : cppIntL (renderInt (Int.ofNat m)) = some (Int.ofNat m, .int) := by
      rw [cppIntL_renderInt_ofNat, intLitType_dec, if_pos hm]; rfl
    unfold ConstOk
    simp only [cppIntE_signed, hl]
    exact ⟨by first | trivial | rfl, hfit, hfit⟩
  | negSucc m =>
    have hm : m + 1 ≤ 2 ^ 31 := by
      have : -2147483648 ≤ Int.negSucc m := h1
      omega
    by_cases h31 : m + 1 < 2 ^ 31
    · have hl : cppIntL (renderInt (Int.negSucc m)) = some (Int.negSucc m, .int) := by
        rw [cppIntL_renderInt_negSucc, intLitType_dec, if_pos h31]; rfl
      unfold ConstOk
      simp only [cppIntE_signed, hl]
      exact ⟨by first | trivial | rfl, hfit, hfit⟩
    · have h63 : m + 1 < 2 ^ 63 := by omega
      have hl : cppIntL (renderInt (Int.negSucc m)) = some (Int.negSucc m, .long) := by
        rw [cppIntL_renderInt_negSucc, intLitType_dec, if_neg h31, if_pos h63]; rfl
      unfold ConstOk
      simp only [cppIntE_signed, hl]
      exact ⟨by first | trivial | rfl, hfit64, hfit⟩

/-- 3000000000 is accepted and emitted as `3000000000`: a literal of type `long` in C++, but the
translator records `int` for it — the column is declared `int` and the value is truncated.
The property is false of the code here. -/
theorem int_counterexample :
    (renderConst (.int 3000000000)).toOption = some ("3000000000".toList, .int) ∧
    cppInt "3000000000" = some (3000000000, .long) ∧
    ¬ OutcomeOk (.int 3000000000) (renderConst (.int 3000000000)).toOption := by decide

/-- 2^64 is accepted and emitted as `18446744073709551616`, which no C++ integer type can hold
(it is not refused although it has no literal). -/
theorem int_huge_counterexample :
    (renderConst (.int 18446744073709551616)).toOption = some ("18446744073709551616".toList, .int) ∧
    cppInt "18446744073709551616" = none ∧ ¬ Representable (.int 18446744073709551616) ∧
    ¬ OutcomeOk (.int 18446744073709551616) (renderConst (.int 18446744073709551616)).toOption := by
  decide

/-! ## floats -/

/-- **Every text of the grammar of `repr(float)`** — optional `-`, digits, optional `.digits`,
optional `e±digits`, at least one of the last two — **lexes as one C++ floating literal of type
`double`** (never as an integer, never `float`/`long double`) **whose exact decimal value is the
value of the text**: mantissa digits and decimal exponent agree. Magnitude is unbounded: 1e+308,
5e-324, 17 significant digits, `-0.0` (the sign of zero is kept). CPython's `repr` itself —
that this text rounds back to the float the query held — is trusted. -/
theorem float_roundtrip (neg : Bool) (ip : List (Fin 10)) (fp : Option (List (Fin 10)))
    (ex : Option (Bool × List (Fin 10))) (wf : WFRepr (.finite neg ip fp ex)) :
    cppFloat (String.ofList (renderFloat neg ip fp ex)) = some (floatValue neg ip fp ex, .double) := by
  simp only [cppFloat, String.toList_ofList]
  exact cppFloatL_render neg ip fp ex wf

/-- As the Spec predicate on the model's output: the emitted literal (in parentheses when
negative) is a `double` literal whose
exact decimal value rounds (IEEE-754 round-to-nearest-even) to exactly the 64 bits of the float —
given the one fact trusted about CPython, that the text `repr` printed rounds to the float
(`ReprFaithful`, an explicit hypothesis, checked by exact arithmetic on every sampled float). -/
theorem float_const_ok (neg : Bool) (ip : List (Fin 10)) (fp : Option (List (Fin 10)))
    (ex : Option (Bool × List (Fin 10))) (bits : Nat) (wf : WFRepr (.finite neg ip fp ex))
    (hr : ReprFaithful (.finite neg ip fp ex) bits) :
    ConstOk (.float (.finite neg ip fp ex) bits) (signedLit (renderFloat neg ip fp ex)) .double := by
  unfold ConstOk
  simp only [cppFloatE_signed neg ip fp ex wf.1, cppFloatL_render neg ip fp ex wf]
  exact ⟨hr, trivial, trivial⟩

/-- `inf`, `-inf` and `nan` have no C++ literal: they are refused (since the fix; before it the
bare words `inf` / `nan` were emitted). -/
theorem nonfinite_rejected (r : FloatRepr) (bits : Nat) (h : r = .nan ∨ ∃ b, r = .inf b) :
    renderConst (.float r bits) = .error .nonFinite ∧
    OutcomeOk (.float r bits) (renderConst (.float r bits)).toOption := by
  rcases h with rfl | ⟨b, rfl⟩ <;>
    exact ⟨rfl, by simp [renderConst, Except.toOption, OutcomeOk, Representable]⟩

/-! ## a numeric constant as an operand -/

/-- **No integer constant fuses with the operator before it** (since 212716c): a non-negative one
starts with a digit, a negative one with `(`. Before the repair `x - Constant(-5)` was `(x--5)`. -/
theorem int_not_glued (n : Int) (prev : Char) : glued prev (signedLit (renderInt n)) = false := by
  cases n with
  | ofNat m =>
    obtain ⟨k, ds, hk, he⟩ := renderNat_head m
    have h1 := digitChar_ne_minus hk
    have h2 : digitChar k ≠ '+' := by
      intro h
      have := congrArg Char.toNat h
      rw [digitChar_toNat hk] at this
      have h0 : ('+' : Char).toNat = 43 := by decide
      omega
    simp [renderInt, he, signedLit, glued, h1, h2]
  | negSucc m => simp [renderInt, signedLit, glued]

/-- **Nor does a float constant**: digits first, or `(` when negative (`-0.0` included). -/
theorem float_not_glued (neg : Bool) (ip : List (Fin 10)) (fp : Option (List (Fin 10)))
    (ex : Option (Bool × List (Fin 10))) (hip : ip ≠ []) (prev : Char) :
    glued prev (signedLit (renderFloat neg ip fp ex)) = false := by
  cases neg with
  | true => rw [renderFloat_neg]; simp [signedLit, glued]
  | false =>
    obtain ⟨k, r, hk, he⟩ := digs_head hip
    have h1 := digitChar_ne_minus hk
    have h2 : digitChar k ≠ '+' := by
      intro h
      have := congrArg Char.toNat h
      rw [digitChar_toNat hk] at this
      have h0 : ('+' : Char).toNat = 43 := by decide
      omega
    rw [renderFloat_pos, he]
    simp [signedLit, glued, h1, h2]

/-- A string constant never fuses with the operator before it. -/
theorem str_not_glued (s : Str) (prev : Char) : glued prev (renderStrL pyTable s) = false := by
  simp [renderStrL, glued]

/-- `x - (-5)` with the constant -5 as ONE node of the query (the repaired input): the operand is
emitted `(-5)`, and directly after the operator `-` the lexer finds a primary expression denoting
-5 followed by the untouched rest; likewise `-2.5` and `-0.0`. -/
theorem negative_after_minus :
    (renderConst (.int (-5))).toOption = some ("(-5)".toList, .int) ∧
    constAfter '-' (.int (-5)) "(-5))".toList = some [')'] ∧
    (renderConst (.float (.finite true [2] (some [5]) none) 13836183955189006336)).toOption = some ("(-2.5)".toList, .double) ∧
    constAfter '-' (.float (.finite true [2] (some [5]) none) 13836183955189006336) "(-2.5))".toList = some [')'] ∧
    constAfter '-' (.float (.finite true [0] (some [0]) none) 9223372036854775808) "(-0.0))".toList = some [')'] ∧
    constAfter '-' (.int (-5)) "-5)".toList = none := by
  decide +kernel

/-! ## every kind together -/

/-- Full statement (★) `∀ c, OutcomeOk c (renderConst c).toOption` is false
(`const_ok_counterexample`). PARTIAL: it holds for every constant that is not an int outside the
32-bit range (defect exclusion, listed finding) — floats being given by a well-formed `repr` text
that rounds to the float (assumptions about CPython's `repr`, not exclusions). -/
theorem const_ok_partial (c : PyConst) (hint : ∀ n, c = .int n → InInt32 n)
    (hfl : ∀ r bits, c = .float r bits → WFRepr r ∧ ReprFaithful r bits) :
    OutcomeOk c (renderConst c).toOption := by
  cases c with
  | str s => exact str_const_ok s
  | int n => exact int_const_ok_partial n (hint n rfl)
  | float r bits =>
    cases r with
    | finite neg ip fp ex => exact float_const_ok neg ip fp ex bits (hfl _ _ rfl).1 (hfl _ _ rfl).2
    | inf b => exact (nonfinite_rejected (.inf b) bits (Or.inr ⟨b, rfl⟩)).2
    | nan => exact (nonfinite_rejected .nan bits (Or.inl rfl)).2
  | bool b =>
    obtain ⟨text, h1, h2⟩ := bool_roundtrip b
    rw [h1]; exact h2
  | other t => exact (unsupported_rejected t).2

theorem const_ok_counterexample : ∃ c, ¬ OutcomeOk c (renderConst c).toOption :=
  ⟨.int 3000000000, int_counterexample.2.2⟩

/-! ## a numeric constant that is stored: conditional expressions, columns -/

/-- A storable constant (int of the 32-bit range, finite float, bool) is emitted as a literal of
its kind, with the type recorded for the kind. -/
theorem storable_literal (c : PyConst) (h : StorableConst c) :
    ∃ text, renderConst c = .ok (text, litTy c) ∧ ConstOk c text (litTy c) := by
  cases c with
  | str s => exact absurd h (by simp [StorableConst])
  | other t => exact absurd h (by simp [StorableConst])
  | int n => exact ⟨signedLit (renderInt n), rfl, int_const_ok_partial n h⟩
  | bool b => exact bool_roundtrip b
  | float r bits =>
    cases r with
    | finite neg ip fp ex => exact ⟨signedLit (renderFloat neg ip fp ex), rfl, float_const_ok neg ip fp ex bits h.1 h.2⟩
    | inf b => exact absurd h (by simp [StorableConst])
    | nan => exact absurd h (by simp [StorableConst])

/-- **A constant that reaches the output through conditional expressions keeps its value.**
For every carrier — a constant, or `a if … else b` nested to any depth — that the translator
accepts, every constant is emitted as a literal denoting it, and the conversions it undergoes on
its way into the column (the `double` result variable of each enclosing conditional, the
`static_cast<double>` that `set_var` writes for an `int`/`bool` arm, the column declared with the
expression's type) leave its value unchanged: `1 if c else 0.5` delivers 1 and 0.5, never 0; a bare
string goes into a `string` column. Strings are allowed among the constants: an accepted carrier
has none inside a conditional (`ifexp_str_rejected`, since 6a224ae).
PARTIAL only in the ints (32-bit range: larger ones are the listed finding of `visit_Constant`). -/
theorem carrier_stored_ok (k : Carrier) (hacc : k.accepted = true)
    (h : ∀ c ∈ k.consts, StorableConst c ∨ ∃ s, c = .str s) :
    ∀ p ∈ k.columnPaths, ∃ text, renderConst p.1 = .ok (text, litTy p.1) ∧ StoredOk p.1 text p.2 := by
  intro p hp
  simp only [Carrier.columnPaths, List.mem_map] at hp
  obtain ⟨q, hq, rfl⟩ := hp
  obtain ⟨hmem, hdbl, hshape⟩ := paths_shape k q hq
  cases k with
  | const c =>
    simp only [Carrier.paths, List.mem_singleton] at hq
    subst hq
    rcases h c hmem with hs | ⟨s, rfl⟩
    · obtain ⟨text, hr, hc⟩ := storable_literal c hs
      exact ⟨text, hr, hc, kept_own c hs⟩
    · exact ⟨renderStrL pyTable s, rfl, str_const_ok s, by simp [Carrier.ty, litTy, keptThrough]⟩
  | ite a b =>
    have hns := accepted_nostr (.ite a b) hacc (by intro s hh; cases hh) q.1 hmem
    have hs : StorableConst q.1 := by
      rcases h q.1 hmem with hs | ⟨s, hs⟩
      · exact hs
      · exact absurd hs (hns s)
    obtain ⟨text, hr, hc⟩ := storable_literal q.1 hs
    refine ⟨text, hr, hc, kept_doubles q.1 hs _ (by simp) ?_⟩
    intro t ht
    rcases List.mem_append.mp ht with h' | h'
    · exact hdbl t h'
    · simpa [Carrier.ty] using h'

/-- **A string as the value of a conditional expression is refused** (since 6a224ae; before it
`'a' if c else 'b'` was emitted as `static_cast<double>("a")`, which C++ rejects): whatever the
other arm is. The refusal is what the property asks for — the result variable is a `double`, and
no literal handed to a `double` denotes the string. -/
theorem ifexp_str_rejected (s : Str) (k : Carrier) :
    (Carrier.ite (.const (.str s)) k).accepted = false ∧
    (Carrier.ite k (.const (.str s))).accepted = false ∧
    ∀ text chain, .double ∈ chain → ¬ StoredOk (.str s) text chain := by
  refine ⟨by simp [Carrier.accepted, Carrier.ty, litTy], by simp [Carrier.accepted, Carrier.ty, litTy], ?_⟩
  intro text chain hmem hst
  have hk := hst.2
  simp only [keptThrough, List.all_eq_true] at hk
  have := hk _ hmem
  simp at this

/-- What the clause forbids (the Spec is not vacuous): were the result variable of the
conditional typed after its first arm, `1 if c else 0.5` would push 0.5 through `int`s and
deliver 0; 0.1 through a `float` variable is no longer 0.1; -5 into a `bool` column is lost;
300 through `double`s stays 300. -/
theorem stored_counterexamples :
    keptThrough (.float (.finite false [0] (some [5]) none) 4602678819172646912) [.int, .int, .int] = false ∧
    ¬ StoredOk (.float (.finite false [0] (some [5]) none) 4602678819172646912) "0.5".toList [.int, .int, .int] ∧
    keptThrough (.float (.finite false [0] (some [1]) none) 4591870180066957722) [.float, .double] = false ∧
    keptThrough (.int (-5)) [.bool] = false ∧
    keptThrough (.float (.finite false [2] (some [5]) none) 4612811918334230528) [.double, .int] = false ∧
    StoredOk (.int 300) "300".toList [.double, .double, .double] ∧
    StoredOk (.float (.finite false [2] (some [0]) none) 4611686018427387904) "2.0".toList [.int, .double] := by
  decide +kernel

/-! ## names: where strings land -/

/-- **Bank names.** The collection-retrieval line is the backend's text with the whole word
`collection_name` replaced by the rendered literal; whatever stands before and after it, lexing
from the place of the substitution returns exactly the bank name and the untouched rest —
for ALL bank names. -/
theorem bank_roundtrip (pre suf bank : Str) :
    cppStringLit ((bankLine pyTable pre suf bank).drop pre.length) = some (bank, suf) :=
  bankLine_lit escape_table_ok pre suf bank

/-- Bank names under trigraph replacement (ISO C++ before C++17): the same, for ALL bank names. -/
theorem bank_roundtrip_trigraphs (pre suf bank : Str) :
    cppStringLit (detri ((bankLine pyTable pre suf bank).drop pre.length)) = some (bank, detri suf) := by
  unfold bankLine
  rw [List.append_assoc, drop_length_append]
  exact cppStringLit_detri_render escape_table_ok escape_table_question bank suf

/-- **Tree and branch names, all of them.** In every booking / fill line of the three backends,
as regenerated from the source, for EVERY tree name, branch name and leaf variable (quotes,
backslashes, newlines … no hypothesis), the string literal at the name's place denotes exactly
the name. (Before the repair c38e414 the names were copied verbatim and this held only for names
without `"`, `\`, LF, CR; the inputs `t"r` / `c"1` are replayed on every run as repaired defects.) -/
theorem names_roundtrip (b : String × List (List Seg)) (hb : b ∈ bookTable ++ fillTable)
    (segs : List Seg) (hs : segs ∈ b.2) (tree col var : Str) (off : Nat) (k : NameKind) (esc : Bool)
    (hslot : nameSlot segs = some (off, k, esc)) :
    nameAt off (renderSegs pyTable tree col var segs) = some (pickName k tree col) := by
  have hv := all_names_escaped b hb segs hs
  have hesc : esc = true := by
    unfold verbatimSlot at hv
    rw [hslot] at hv
    simpa using hv
  exact nameAt_bookLine escape_table_ok segs (book_lines_ok b hb segs hs) tree col var off k esc hslot
    (fun h => by rw [hesc] at h; cases h)

/-- … and under trigraph replacement (ISO C++ before C++17): for EVERY tree name, branch name and
leaf variable the literal at the name's place still denotes exactly the name (`???/`, `??=` …). -/
theorem names_roundtrip_trigraphs (b : String × List (List Seg)) (hb : b ∈ bookTable ++ fillTable)
    (segs : List Seg) (hs : segs ∈ b.2) (tree col var : Str) (off : Nat) (k : NameKind) (esc : Bool)
    (hslot : nameSlot segs = some (off, k, esc)) :
    nameAtTri off (renderSegs pyTable tree col var segs) = some (pickName k tree col) := by
  have hv := all_names_escaped b hb segs hs
  have hesc : esc = true := by
    unfold verbatimSlot at hv
    rw [hslot] at hv
    simpa using hv
  subst hesc
  exact nameAtTri_bookLine escape_table_ok escape_table_question segs tree col var off k hslot

/-- the same as one decidable fact per line, e.g. for the names that used to break it -/
theorem names_roundtrip_on_repaired_inputs :
    ∀ b ∈ bookTable ++ fillTable, ∀ segs ∈ b.2,
      slotCarries pyTable "t\"r".toList "c\"1\\".toList "_v".toList segs = true := by decide

/-! ## non-vacuity -/

example : TableOk pyTable ∧ pyTable.length ≥ 4 := by decide
example : cppString (renderStr "a\"b\\c\nd\re\tf?'ü") = some "a\"b\\c\nd\re\tf?'ü" := str_roundtrip _
example : renderStr "a\"b" = "\"a\\\"b\"" := by decide
example : hasTrigraph "what?? no!".toList = false ∧ hasTrigraph "a??/".toList = true := by decide
example : renderStr "a??/" = "\"a\\?\\?/\"" ∧ cppStringTri (renderStr "a??/") = some "a??/" := by decide
-- what a pairwise `replace("??", "?\\?")` would emit for `???/` is NOT read back under trigraph replacement
example : cppStringTri "\"?\\??/\"" ≠ some "???/" ∧ cppString "\"?\\??/\"" = some "???/" ∧
    cppStringTri (renderStr "???/") = some "???/" := by decide
example : InInt32 (-2147483648) ∧ InInt32 2147483647 ∧ ¬ InInt32 2147483648 := by decide
example : cppInt (pyIntStr (-2147483648)) = some (-2147483648, .long) := by decide
example : pyIntStr (-1234567890) = "-1234567890" := by decide
-- 1.7976931348623157e+308, 5e-324, -0.0, 100.0 are well-formed repr texts
example : WFRepr (.finite false [1] (some [7,9,7,6,9,3,1,3,4,8,6,2,3,1,5,7]) (some (false, [3,0,8]))) := by decide
example : WFRepr (.finite false [5] none (some (true, [3,2,4]))) ∧ WFRepr (.finite true [0] (some [0]) none) := by decide
example : String.ofList (renderFloat true [1] (some [5]) (some (true, [0,7]))) = "-1.5e-07" := by decide
-- repr(0.1) = "0.1" rounds to the bits of 0.1 and not to those of its neighbour; 5e-324 and the largest double
example : ReprFaithful (.finite false [0] (some [1]) none) 4591870180066957722 ∧
    ¬ ReprFaithful (.finite false [0] (some [1]) none) 4591870180066957723 := by decide
example : ReprFaithful (.finite false [5] none (some (true, [3,2,4]))) 1 := by decide +kernel
example : cppFloat "-1.5e-07" = some ({ neg := true, mant := 15, exp := -8 }, .double) := by decide
example : cppFloat "100" = none ∧ cppInt "1e5" = none := by decide
example : (bookTable ++ fillTable).length = 6 := by decide
-- on plain names every name place of every backend carries its name
example : ∀ b ∈ bookTable ++ fillTable, ∀ segs ∈ b.2,
    slotCarries pyTable "atlas_xaod_tree".toList "jet pt".toList "_jetpt3".toList segs = true := by decide

-- the model's paths on `1 if … else (0.5 if … else True)` and on a bare constant; the hypothesis is satisfiable
example : (Carrier.ite (.const (.int 1)) (.ite (.const (.float (.finite false [0] (some [5]) none) 4602678819172646912))
      (.const (.bool true)))).columnPaths.map (·.2) =
    [[.double, .double, .double], [.double, .double, .double], [.double, .double, .double, .double]] := by decide
example : (Carrier.const (.int 7)).columnPaths.map (·.2) = [[.int]] := by decide
example : StorableConst (.int (-2147483648)) ∧ StorableConst (.bool false) ∧ ¬ StorableConst (.int 2147483648) ∧
    StorableConst (.float (.finite false [0] (some [5]) none) 4602678819172646912) := by decide +kernel
example : intToDbl 1 = some 4607182418800017408 ∧ intToDbl (-3) = some 13837309855095848960 ∧
    intToDbl 2147483647 = some 4746794007244308480 ∧ dblToInt 4612811918334230528 = some 2 ∧
    dblToInt 13837309855095848960 = some (-3) := by decide +kernel

end FaxVerif.C18
