/-
C18 — lemmas about the C++ tokenizer of `Expr.lean` (maximal munch) on the texts the translator's
expression renderer writes. Helper lemmas only; the property theorems are in `TheoremsContext.lean`.
-/
import FaxVerif.C18.Expr
import FaxVerif.C18.Proofs
namespace FaxVerif.C18

/-! ## A. punctuators -/

theorem punct2_snd_ext {a b : Char} (h : punct2.contains (a, b) = true) : isPunctExt b = true := by
  have key : ∀ q ∈ punct2, isPunctExt q.2 = true := by decide
  exact key (a, b) (List.contains_iff_mem.mp h)

theorem punct3_mid_ext {a b c : Char} (h : punct3.contains (a, b, c) = true) : isPunctExt b = true := by
  have key : ∀ q ∈ punct3, isPunctExt q.2.1 = true := by decide
  exact key (a, b, c) (List.contains_iff_mem.mp h)

theorem punct3_last_ext {a b c : Char} (h : punct3.contains (a, b, c) = true) : isPunctExt c = true := by
  have key : ∀ q ∈ punct3, isPunctExt q.2.2 = true := by decide
  exact key (a, b, c) (List.contains_iff_mem.mp h)

theorem punct2_false_of_ext {a b : Char} (h : isPunctExt b = false) : punct2.contains (a, b) = false := by
  cases hc : punct2.contains (a, b) with
  | false => rfl
  | true => rw [punct2_snd_ext hc] at h; cases h

theorem punct3_false_of_mid {a b c : Char} (h : isPunctExt b = false) : punct3.contains (a, b, c) = false := by
  cases hc : punct3.contains (a, b, c) with
  | false => rfl
  | true => rw [punct3_mid_ext hc] at h; cases h

theorem punct3_false_of_last {a b c : Char} (h : isPunctExt c = false) : punct3.contains (a, b, c) = false := by
  cases hc : punct3.contains (a, b, c) with
  | false => rfl
  | true => rw [punct3_last_ext hc] at h; cases h

/-- a one-character punctuator followed by a character that continues no punctuator stands alone -/
theorem lexPunct_one (p c : Char) (r : Str) (hp : punct1.contains p = true) (hc : isPunctExt c = false) :
    lexPunct (p :: c :: r) = some ([p], c :: r) := by
  cases r with
  | nil => simp only [lexPunct, punct2_false_of_ext hc, hp, Bool.false_eq_true, if_false, if_true]
  | cons d r' =>
    simp only [lexPunct, punct2_false_of_ext hc, punct3_false_of_mid hc, hp, Bool.false_eq_true, if_false, if_true]

/-- a two-character punctuator followed by a character that continues no punctuator -/
theorem lexPunct_two (a b c : Char) (r : Str) (hab : punct2.contains (a, b) = true)
    (hc : isPunctExt c = false) : lexPunct (a :: b :: c :: r) = some ([a, b], c :: r) := by
  simp only [lexPunct, punct3_false_of_last hc, hab, Bool.false_eq_true, if_false, if_true]

/-- characters that begin no longer punctuator: `(`, `)`, `,` … -/
def soloPunct (p : Char) : Bool :=
  punct1.contains p && !(punct2.map (·.1)).contains p && !(punct3.map (·.1)).contains p

theorem lexPunct_solo (p : Char) (r : Str) (h : soloPunct p = true) : lexPunct (p :: r) = some ([p], r) := by
  simp only [soloPunct, Bool.and_eq_true, Bool.not_eq_true'] at h
  obtain ⟨⟨h1, h2⟩, h3⟩ := h
  have n2 : ∀ b, punct2.contains (p, b) = false := by
    intro b
    cases hc : punct2.contains (p, b) with
    | false => rfl
    | true =>
      have : p ∈ punct2.map (·.1) := List.mem_map_of_mem (f := (·.1)) (List.contains_iff_mem.mp hc)
      rw [List.contains_iff_mem.mpr this] at h2; cases h2
  have n3 : ∀ b c, punct3.contains (p, b, c) = false := by
    intro b c
    cases hc : punct3.contains (p, b, c) with
    | false => rfl
    | true =>
      have : p ∈ punct3.map (·.1) := List.mem_map_of_mem (f := (·.1)) (List.contains_iff_mem.mp hc)
      rw [List.contains_iff_mem.mpr this] at h3; cases h3
  cases r with
  | nil => simp only [lexPunct, h1, if_true]
  | cons b r2 =>
    cases r2 with
    | nil => simp only [lexPunct, n2, h1, Bool.false_eq_true, if_false, if_true]
    | cons c r3 => simp only [lexPunct, n2, n3, h1, Bool.false_eq_true, if_false, if_true]

/-- what the characters of the punctuator table are not -/
theorem punct1_props {p : Char} (h : punct1.contains p = true) :
    isDigit p = false ∧ isIdentStart p = false ∧ p ≠ '"' ∧ p ≠ ' ' := by
  have key : ∀ q ∈ punct1, isDigit q = false ∧ isIdentStart q = false ∧ q ≠ '"' ∧ q ≠ ' ' := by decide
  exact key p (List.contains_iff_mem.mp h)

theorem punct2_fst_punct1 {a b : Char} (h : punct2.contains (a, b) = true) : punct1.contains a = true := by
  have key : ∀ q ∈ punct2, punct1.contains q.1 = true := by decide
  exact key (a, b) (List.contains_iff_mem.mp h)

/-- a text starting with a punctuator character other than `.` is lexed by `lexPunct` -/
theorem lexTok_punct (p : Char) (r : Str) (hp : punct1.contains p = true) (hdot : p ≠ '.') :
    lexTok (p :: r) = (lexPunct (p :: r)).map fun q => (.punct q.1, q.2) := by
  obtain ⟨h1, h2, h3, _⟩ := punct1_props hp
  unfold lexTok
  simp only [h1, h2, h3, hdot, Bool.false_eq_true, if_false, decide_false, Bool.false_and]
  cases lexPunct (p :: r) with
  | none => rfl
  | some q => rfl

/-! ## B. what starts an operand, what follows one -/

/-- first character of an operand the renderer writes -/
def isOpStart (c : Char) : Bool := c = '(' || isDigit c || c = '"' || isIdentStart c

/-- first character of what the renderer writes after an operand -/
def isTailStart (c : Char) : Bool :=
  [')', ',', ';', ' ', '+', '-', '*', '/', '%', '<', '>', '=', '!'].contains c

theorem ext_props {c : Char} (h : isPunctExt c = true) :
    c ≠ '(' ∧ isDigit c = false ∧ c ≠ '"' ∧ isIdentStart c = false := by
  have key : ∀ q ∈ ['+', '-', '=', '>', '<', '&', '|', ':', '*', '.'],
      q ≠ '(' ∧ isDigit q = false ∧ q ≠ '"' ∧ isIdentStart q = false := by decide
  exact key c (List.contains_iff_mem.mp h)

theorem opStart_not_ext {c : Char} (h : isOpStart c = true) : isPunctExt c = false := by
  cases he : isPunctExt c with
  | false => rfl
  | true =>
    obtain ⟨h1, h2, h3, h4⟩ := ext_props he
    simp [isOpStart, h1, h2, h3, h4] at h

theorem tailStart_props {c : Char} (h : isTailStart c = true) : isIdentChar c = false ∧ c ≠ '.' := by
  have key : ∀ q ∈ [')', ',', ';', ' ', '+', '-', '*', '/', '%', '<', '>', '=', '!'],
      isIdentChar q = false ∧ q ≠ '.' := by decide
  exact key c (List.contains_iff_mem.mp h)

/-- the text after an operand: nothing, or something that starts like it -/
def TailOK (tl : Str) : Prop := ∀ c r, tl = c :: r → isTailStart c = true

theorem tailOK_cons {c : Char} (r : Str) (h : isTailStart c = true) : TailOK (c :: r) := by
  intro c' r' he
  cases he
  exact h

theorem tailOK_nil : TailOK [] := by
  intro c r he; cases he

/-! ## C. identifiers -/

theorem identStart_not_digit {c : Char} (h : isIdentStart c = true) : isDigit c = false := by
  cases hd : isDigit c with
  | false => rfl
  | true =>
    simp only [isDigit, Bool.and_eq_true, decide_eq_true_eq] at hd
    simp only [isIdentStart, Bool.or_eq_true, Bool.and_eq_true, decide_eq_true_eq] at h
    rcases h with (h | h) | h
    · omega
    · omega
    · subst h
      have : ('_' : Char).toNat = 95 := by decide
      omega

theorem identStart_identChar {c : Char} (h : isIdentStart c = true) : isIdentChar c = true := by
  simp only [isIdentStart, Bool.or_eq_true, Bool.and_eq_true, decide_eq_true_eq] at h
  simp only [isIdentChar, Bool.or_eq_true, Bool.and_eq_true, decide_eq_true_eq]
  rcases h with (h | h) | h
  · exact Or.inl (Or.inl (Or.inr h))
  · exact Or.inl (Or.inr h)
  · exact Or.inr h

theorem identStart_not_quote {c : Char} (h : isIdentStart c = true) : c ≠ '"' := by
  intro he; subst he; revert h; decide

theorem identStart_not_space {c : Char} (h : isIdentStart c = true) : c ≠ ' ' := by
  intro he; subst he; revert h; decide

theorem identStart_not_ext {c : Char} (h : isIdentStart c = true) : isPunctExt c = false :=
  opStart_not_ext (by simp [isOpStart, h])

theorem spanIdent_append : ∀ (s tl : Str), s.all isIdentChar = true →
    (∀ c r, tl = c :: r → isIdentChar c = false) → spanIdent (s ++ tl) = (s, tl) := by
  intro s
  induction s with
  | nil =>
    intro tl _ ht
    cases tl with
    | nil => rfl
    | cons c r => simp [spanIdent, ht c r rfl]
  | cons c r ih =>
    intro tl h ht
    simp only [List.all_cons, Bool.and_eq_true] at h
    simp [spanIdent, h.1, ih tl h.2 ht]

theorem lexTok_ident (s tl : Str) (hs : IsIdent s) (ht : ∀ c r, tl = c :: r → isIdentChar c = false) :
    lexTok (s ++ tl) = some (.id s, tl) := by
  cases s with
  | nil => exact absurd hs (by simp [IsIdent])
  | cons c r =>
    obtain ⟨h1, h2⟩ := hs
    simp only [List.cons_append, lexTok, identStart_not_digit h1, h1, Bool.false_eq_true, if_false, if_true]
    rw [spanIdent_append r tl h2 ht]

/-! ## D. pp-numbers -/

/-- does `c` continue a pp-number after `prev`? (the condition of `ppRest`) -/
def ppCont (prev c : Char) : Bool :=
  isIdentChar c || c = '.' ||
    ((c = '+' || c = '-') && (prev = 'e' || prev = 'E' || prev = 'p' || prev = 'P'))

def ppChain : Char → Str → Prop
  | _, [] => True
  | prev, c :: r => ppCont prev c = true ∧ ppChain c r

def lastOr : Char → Str → Char
  | p, [] => p
  | _, c :: r => lastOr c r

theorem ppRest_cons (prev c : Char) (r : Str) :
    ppRest prev (c :: r) =
      if ppCont prev c = true then (c :: (ppRest c r).1, (ppRest c r).2) else ([], c :: r) := by
  simp only [ppRest, ppCont]
  rfl

theorem ppRest_chain : ∀ (s : Str) (prev : Char) (tl : Str), ppChain prev s →
    (∀ c r, tl = c :: r → ppCont (lastOr prev s) c = false) → ppRest prev (s ++ tl) = (s, tl) := by
  intro s
  induction s with
  | nil =>
    intro prev tl _ ht
    cases tl with
    | nil => rfl
    | cons c r =>
      have := ht c r rfl
      simp only [lastOr] at this
      rw [List.nil_append, ppRest_cons, if_neg (by rw [this]; exact Bool.false_ne_true)]
  | cons c r ih =>
    intro prev tl h ht
    obtain ⟨h1, h2⟩ := h
    have hrec := ih c tl h2 (by simpa [lastOr] using ht)
    rw [List.cons_append, ppRest_cons, if_pos h1, hrec]

theorem ppChain_append : ∀ (a : Str) (prev : Char) (b : Str), ppChain prev a → ppChain (lastOr prev a) b →
    ppChain prev (a ++ b) := by
  intro a
  induction a with
  | nil => intro prev b _ hb; simpa [lastOr] using hb
  | cons c r ih =>
    intro prev b ha hb
    exact ⟨ha.1, ih c b ha.2 (by simpa [lastOr] using hb)⟩

theorem lastOr_append : ∀ (a : Str) (prev : Char) (b : Str), lastOr prev (a ++ b) = lastOr (lastOr prev a) b := by
  intro a
  induction a with
  | nil => intro prev b; rfl
  | cons c r ih => intro prev b; simpa [lastOr] using ih c b

theorem isDigit_identChar {c : Char} (h : isDigit c = true) : isIdentChar c = true := by
  simp [isIdentChar, h]

theorem ppChain_digits : ∀ (ds : Str) (prev : Char), (∀ c ∈ ds, isDigit c = true) → ppChain prev ds := by
  intro ds
  induction ds with
  | nil => intro _ _; trivial
  | cons c r ih =>
    intro prev h
    refine ⟨?_, ih c (fun x hx => h x (by simp [hx]))⟩
    simp [ppCont, isDigit_identChar (h c (by simp))]

theorem lastOr_digits : ∀ (ds : Str) (prev : Char), (∀ c ∈ ds, isDigit c = true) → isDigit prev = true →
    isDigit (lastOr prev ds) = true := by
  intro ds
  induction ds with
  | nil => intro prev _ hp; exact hp
  | cons c r ih =>
    intro prev h _
    exact ih c (fun x hx => h x (by simp [hx])) (h c (by simp))

theorem lastOr_digits_ne : ∀ (ds : Str) (prev : Char), (∀ c ∈ ds, isDigit c = true) → ds ≠ [] →
    isDigit (lastOr prev ds) = true := by
  intro ds prev h hne
  cases ds with
  | nil => exact absurd rfl hne
  | cons c r => exact lastOr_digits r c (fun x hx => h x (by simp [hx])) (h c (by simp))

/-- after a digit, a character that starts the text after an operand does not continue the number -/
theorem ppCont_digit_tail {p c : Char} (hp : isDigit p = true) (hc : isTailStart c = true) :
    ppCont p c = false := by
  obtain ⟨h1, h2⟩ := tailStart_props hc
  have he : ∀ x : Char, isDigit x = false → p ≠ x := by
    intro x hx hpx; rw [hpx] at hp; rw [hp] at hx; cases hx
  have e1 := he 'e' (by decide)
  have e2 := he 'E' (by decide)
  have e3 := he 'p' (by decide)
  have e4 := he 'P' (by decide)
  simp [ppCont, h1, h2, e1, e2, e3, e4]

/-- a number text: a digit, then a pp-number chain that ends with a digit -/
def NumText (s : Str) : Prop :=
  match s with
  | [] => False
  | d :: r => isDigit d = true ∧ ppChain d r ∧ isDigit (lastOr d r) = true

theorem lexTok_num (s tl : Str) (hs : NumText s) (ht : TailOK tl) : lexTok (s ++ tl) = some (.num s, tl) := by
  cases s with
  | nil => exact absurd hs (by simp [NumText])
  | cons d r =>
    obtain ⟨h1, h2, h3⟩ := hs
    simp only [List.cons_append, lexTok, h1, if_true]
    rw [ppRest_chain r d tl h2 (fun c r' he => ppCont_digit_tail h3 (ht c r' he))]

theorem numText_digits (ds : Str) (hne : ds ≠ []) (h : ∀ c ∈ ds, isDigit c = true) : NumText ds := by
  cases ds with
  | nil => exact absurd rfl hne
  | cons d r =>
    have hd := h d (by simp)
    have hr : ∀ c ∈ r, isDigit c = true := fun x hx => h x (by simp [hx])
    exact ⟨hd, ppChain_digits r d hr, lastOr_digits r d hr hd⟩

theorem renderNat_ne_nil (n : Nat) : renderNat n ≠ [] := by
  obtain ⟨k, ds, _, he⟩ := renderNat_head n
  rw [he]; simp

theorem numText_renderNat (n : Nat) : NumText (renderNat n) :=
  numText_digits _ (renderNat_ne_nil n) (natDigits_all_digits n n)

theorem digs_ne_nil {ds : List (Fin 10)} (h : ds ≠ []) : digs ds ≠ [] := by
  intro he; exact h (digs_eq_nil.mp he)

/-- the unsigned text of a finite float (`repr` grammar) is a number text -/
theorem numText_float (ip : List (Fin 10)) (fp : Option (List (Fin 10)))
    (ex : Option (Bool × List (Fin 10))) (wf : WFRepr (.finite false ip fp ex)) :
    NumText (renderFloat false ip fp ex) := by
  obtain ⟨hip, hfp, hex, _⟩ := wf
  rw [renderFloat_pos]
  obtain ⟨k, r0, hk, he⟩ := digs_head hip
  have hall : ∀ c ∈ digs ip, isDigit c = true := digs_all_digits ip
  have hd : isDigit (digitChar k) = true := isDigit_digitChar hk
  have hr0 : ∀ c ∈ r0, isDigit c = true := fun x hx => hall x (by rw [he]; simp [hx])
  rw [he]
  simp only [List.cons_append]
  refine ⟨hd, ?_, ?_⟩
  · -- the chain
    apply ppChain_append r0 _ _ (ppChain_digits r0 _ hr0)
    have hl := lastOr_digits r0 _ hr0 hd
    cases fp with
    | none =>
      cases ex with
      | none => trivial
      | some e =>
        obtain ⟨eneg, ed⟩ := e
        refine ⟨by simp [ppCont, isIdentChar], ?_, ppChain_digits _ _ (digs_all_digits ed)⟩
        cases eneg <;> simp [ppCont]
    | some f =>
      simp only [List.cons_append]
      refine ⟨by simp [ppCont], ?_⟩
      apply ppChain_append (digs f) _ _ (ppChain_digits _ _ (digs_all_digits f))
      cases ex with
      | none => trivial
      | some e =>
        obtain ⟨eneg, ed⟩ := e
        refine ⟨by simp [ppCont, isIdentChar], ?_, ppChain_digits _ _ (digs_all_digits ed)⟩
        cases eneg <;> simp [ppCont]
  · -- the last character is a digit
    rw [lastOr_append]
    have hl := lastOr_digits r0 _ hr0 hd
    cases fp with
    | none =>
      cases ex with
      | none => simpa [lastOr] using hl
      | some e =>
        obtain ⟨eneg, ed⟩ := e
        have hed : ed ≠ [] := by
          intro h0; apply hex; simp [h0]
        simp only [List.nil_append, lastOr]
        exact lastOr_digits_ne _ _ (digs_all_digits ed) (digs_ne_nil hed)
    | some f =>
      have hf : f ≠ [] := by
        intro h0; apply hfp; simp [h0]
      simp only [List.cons_append, lastOr]
      rw [lastOr_append]
      have hlf := lastOr_digits_ne (digs f) '.' (digs_all_digits f) (digs_ne_nil hf)
      cases ex with
      | none => simpa [lastOr] using hlf
      | some e =>
        obtain ⟨eneg, ed⟩ := e
        have hed : ed ≠ [] := by
          intro h0; apply hex; simp [h0]
        simp only [lastOr]
        exact lastOr_digits_ne _ _ (digs_all_digits ed) (digs_ne_nil hed)

/-! ## E. building a token sequence step by step -/

theorem soloPunct_punct1 {p : Char} (h : soloPunct p = true) : punct1.contains p = true := by
  simp only [soloPunct, Bool.and_eq_true] at h
  exact h.1.1

theorem lexes_solo (p : Char) (h : soloPunct p = true) (hdot : p ≠ '.') (r : Str) (ts : List Tok)
    (hr : Lexes r ts) : Lexes (p :: r) (.punct [p] :: ts) := by
  have hp := soloPunct_punct1 h
  refine Lexes.tok p r r (.punct [p]) ts (punct1_props hp).2.2.2 ?_ (by simp) hr
  rw [lexTok_punct p r hp hdot, lexPunct_solo p r h]
  rfl

theorem lexes_ws (r : Str) (ts : List Tok) (hr : Lexes r ts) : Lexes (' ' :: r) ts := Lexes.ws r ts hr

/-- an operator of one or two characters directly before a character that continues no punctuator -/
theorem lexes_op (op : Str) (hop : OpOk op = true) (c : Char) (r : Str) (hc : isPunctExt c = false)
    (ts : List Tok) (hr : Lexes (c :: r) ts) : Lexes (op ++ c :: r) (.punct op :: ts) := by
  match op, hop with
  | [a], hop =>
    simp only [OpOk, Bool.and_eq_true, bne_iff_ne, ne_eq] at hop
    obtain ⟨ha, hdot⟩ := hop
    refine Lexes.tok a (c :: r) (c :: r) (.punct [a]) ts (punct1_props ha).2.2.2 ?_ (by simp) hr
    rw [lexTok_punct a _ ha hdot, lexPunct_one a c r ha hc]
    rfl
  | [a, b], hop =>
    simp only [OpOk, Bool.and_eq_true, bne_iff_ne, ne_eq] at hop
    obtain ⟨hab, hdot⟩ := hop
    have ha := punct2_fst_punct1 hab
    refine Lexes.tok a (b :: c :: r) (c :: r) (.punct [a, b]) ts (punct1_props ha).2.2.2 ?_ (by simp) hr
    rw [lexTok_punct a _ ha hdot, lexPunct_two a b c r hab hc]
    rfl

theorem lexes_ident (s : Str) (hs : IsIdent s) (tl : Str) (ts : List Tok)
    (ht : ∀ c r, tl = c :: r → isIdentChar c = false) (hr : Lexes tl ts) :
    Lexes (s ++ tl) (.id s :: ts) := by
  have hl := lexTok_ident s tl hs ht
  cases s with
  | nil => exact absurd hs (by simp [IsIdent])
  | cons c r =>
    exact Lexes.tok c (r ++ tl) tl (.id (c :: r)) ts (identStart_not_space hs.1) hl (by simp; omega) hr

theorem isDigit_not_space {c : Char} (h : isDigit c = true) : c ≠ ' ' := by
  intro he; subst he; revert h; decide

theorem lexes_num (s : Str) (hs : NumText s) (tl : Str) (ts : List Tok) (ht : TailOK tl)
    (hr : Lexes tl ts) : Lexes (s ++ tl) (.num s :: ts) := by
  have hl := lexTok_num s tl hs ht
  cases s with
  | nil => exact absurd hs (by simp [NumText])
  | cons c r =>
    exact Lexes.tok c (r ++ tl) tl (.num (c :: r)) ts (isDigit_not_space hs.1) hl (by simp; omega) hr

theorem lexes_str (s tl : Str) (ts : List Tok) (hr : Lexes tl ts) :
    Lexes (renderStrL pyTable s ++ tl) (.str s :: ts) := by
  have hk : TableOk pyTable := by decide
  have hl := cppStringLit_render hk s tl
  simp only [renderStrL, List.cons_append, List.append_assoc] at hl ⊢
  refine Lexes.tok '"' _ tl (.str s) ts (by decide) ?_ (by simp; omega) hr
  simp only [cppStringLit, if_true] at hl
  have hd : isDigit '"' = false := by decide
  have hi : isIdentStart '"' = false := by decide
  simp only [lexTok, hd, hi, Bool.false_eq_true, if_false, if_true, hl]

theorem tail_not_ident {tl : Str} (ht : TailOK tl) : ∀ c r, tl = c :: r → isIdentChar c = false :=
  fun c r he => (tailStart_props (ht c r he)).1

/-! ## F. constants -/

theorem signedLit_digit {k : Nat} (hk : k < 10) (ds : Str) :
    signedLit (digitChar k :: ds) = digitChar k :: ds := by
  simp [signedLit, digitChar_ne_minus hk]

theorem constText_nat (n : Nat) : constText (.int (.ofNat n)) = renderNat n := by
  obtain ⟨k, ds, hk, he⟩ := renderNat_head n
  simp only [constText, renderConst, renderInt, he, signedLit_digit hk]

theorem constText_neg (n : Nat) :
    constText (.int (.negSucc n)) = '(' :: '-' :: (renderNat (n + 1) ++ [')']) := by
  simp [constText, renderConst, renderInt, signedLit]

theorem constText_float_pos (ip : List (Fin 10)) (fp : Option (List (Fin 10)))
    (ex : Option (Bool × List (Fin 10))) (bits : Nat) (hip : ip ≠ []) :
    constText (.float (.finite false ip fp ex) bits) = renderFloat false ip fp ex := by
  obtain ⟨k, r, hk, he⟩ := digs_head hip
  have : renderFloat false ip fp ex = digitChar k :: (r ++
      ((match fp with | some f => '.' :: digs f | none => []) ++
       (match ex with | some (eneg, ed) => 'e' :: (if eneg then '-' else '+') :: digs ed | none => []))) := by
    rw [renderFloat_pos, he]; rfl
  simp only [constText, renderConst]
  rw [this, signedLit_digit hk]

theorem constText_float_neg (ip : List (Fin 10)) (fp : Option (List (Fin 10)))
    (ex : Option (Bool × List (Fin 10))) (bits : Nat) :
    constText (.float (.finite true ip fp ex) bits) = '(' :: '-' :: (renderFloat false ip fp ex ++ [')']) := by
  simp [constText, renderConst, renderFloat_neg, signedLit]

theorem solo_lparen : soloPunct '(' = true := by decide
theorem solo_rparen : soloPunct ')' = true := by decide
theorem solo_comma : soloPunct ',' = true := by decide
theorem tailStart_rparen : isTailStart ')' = true := by decide

/-- `(` `-` number `)` -/
theorem lexes_neg_num (s : Str) (hs : NumText s) (tl : Str) (ts : List Tok) (hr : Lexes tl ts) :
    Lexes ('(' :: '-' :: (s ++ ')' :: tl)) (tLP :: tMinus :: .num s :: tRP :: ts) := by
  have h3 := lexes_num s hs (')' :: tl) (tRP :: ts) (tailOK_cons tl tailStart_rparen)
    (lexes_solo ')' solo_rparen (by decide) tl ts hr)
  cases s with
  | nil => exact absurd hs (by simp [NumText])
  | cons d r =>
    have hd : isPunctExt d = false := opStart_not_ext (by simp [isOpStart, hs.1])
    have h2 := lexes_op ['-'] (by decide) d (r ++ ')' :: tl) hd _ h3
    exact lexes_solo '(' solo_lparen (by decide) _ _ h2

theorem lexes_const (c : PyConst) (hc : ConstWF c) (tl : Str) (ts : List Tok) (ht : TailOK tl)
    (hr : Lexes tl ts) : Lexes (constText c ++ tl) (toksConst c ++ ts) := by
  cases c with
  | str s => exact lexes_str s tl ts hr
  | int n =>
    cases n with
    | ofNat m =>
      rw [constText_nat]
      exact lexes_num _ (numText_renderNat m) tl ts ht hr
    | negSucc m =>
      rw [constText_neg]
      simp only [List.cons_append, List.append_assoc, List.singleton_append, toksConst]
      exact lexes_neg_num _ (numText_renderNat (m + 1)) tl ts hr
  | float r bits =>
    cases r with
    | finite neg ip fp ex =>
      have wf : WFRepr (.finite false ip fp ex) := hc.2
      cases neg with
      | false =>
        rw [constText_float_pos ip fp ex bits wf.1]
        exact lexes_num _ (numText_float ip fp ex wf) tl ts ht hr
      | true =>
        rw [constText_float_neg]
        simp only [List.cons_append, List.append_assoc, List.singleton_append, toksConst, floatAbsText]
        exact lexes_neg_num _ (numText_float ip fp ex wf) tl ts hr
    | inf b => exact absurd hc.1 (by simp)
    | nan => exact absurd hc.1 (by simp)
  | bool b =>
    cases b with
    | true => exact lexes_ident "true".toList (by decide) tl ts (tail_not_ident ht) hr
    | false => exact lexes_ident "false".toList (by decide) tl ts (tail_not_ident ht) hr
  | other t => exact absurd hc (by simp [ConstWF])

/-- a rendered constant starts like an operand -/
theorem constText_head (c : PyConst) (hc : ConstWF c) : ∃ a r, constText c = a :: r ∧ isOpStart a = true := by
  cases c with
  | str s => exact ⟨'"', _, rfl, by decide⟩
  | int n =>
    cases n with
    | ofNat m =>
      obtain ⟨k, ds, hk, he⟩ := renderNat_head m
      exact ⟨digitChar k, ds, by rw [constText_nat, he], by simp [isOpStart, isDigit_digitChar hk]⟩
    | negSucc m => exact ⟨'(', _, constText_neg m, by decide⟩
  | float r bits =>
    cases r with
    | finite neg ip fp ex =>
      have wf : WFRepr (.finite false ip fp ex) := hc.2
      cases neg with
      | false =>
        have hd := numText_float ip fp ex wf
        rw [constText_float_pos ip fp ex bits wf.1]
        cases hrf : renderFloat false ip fp ex with
        | nil => rw [hrf] at hd; exact absurd hd (by simp [NumText])
        | cons d r => rw [hrf] at hd; exact ⟨d, r, rfl, by simp [isOpStart, hd.1]⟩
      | true => exact ⟨'(', _, constText_float_neg ip fp ex bits, by decide⟩
    | inf b => exact absurd hc.1 (by simp)
    | nan => exact absurd hc.1 (by simp)
  | bool b =>
    cases b with
    | true => exact ⟨'t', _, rfl, by decide⟩
    | false => exact ⟨'f', _, rfl, by decide⟩
  | other t => exact absurd hc (by simp [ConstWF])

/-! ## G. the relation is what `tokenize` computes -/

theorem tokF_of_lexes {s : Str} {ts : List Tok} (h : Lexes s ts) : ∀ f, s.length < f → tokF f s = some ts := by
  induction h with
  | nil =>
    intro f hf
    cases f with
    | zero => simp at hf
    | succ f => rfl
  | ws r ts _ ih =>
    intro f hf
    cases f with
    | zero => simp at hf
    | succ f =>
      simp only [tokF, if_true]
      exact ih f (by simp only [List.length_cons] at hf; omega)
  | tok c r rest t ts hc hl hlen _ ih =>
    intro f hf
    cases f with
    | zero => simp at hf
    | succ f =>
      simp only [tokF, hc, if_false, hl]
      rw [ih f (by simp only [List.length_cons] at hf hlen; omega)]
      rfl

theorem tokenize_of_lexes {s : Str} {ts : List Tok} (h : Lexes s ts) : tokenize s = some ts :=
  tokF_of_lexes h _ (by omega)

/-! ## H. the rendered expression -/


theorem lexes_dot (c : Char) (r : Str) (hc : isIdentStart c = true) (ts : List Tok)
    (hr : Lexes (c :: r) ts) : Lexes ('.' :: c :: r) (.punct ['.'] :: ts) := by
  refine Lexes.tok '.' (c :: r) (c :: r) (.punct ['.']) ts (by decide) ?_ (by simp) hr
  have hd : isDigit '.' = false := by decide
  have hi : isIdentStart '.' = false := by decide
  have hq : ('.' : Char) ≠ '"' := by decide
  simp only [lexTok, hd, hi, hq, identStart_not_digit hc, Bool.false_eq_true, if_false, Bool.and_false,
    decide_true, Bool.true_and]
  rw [lexPunct_one '.' c r (by decide) (identStart_not_ext hc)]

theorem renderE_head : ∀ e : OExpr, e.WF → ∃ a r, renderE e = a :: r ∧ isOpStart a = true := by
  intro e
  cases e with
  | leaf v arrow m =>
    intro h
    cases v with
    | nil => exact absurd h.1 (by simp [IsIdent])
    | cons c r => exact ⟨c, _, rfl, by simp [isOpStart, h.1.1]⟩
  | const c => intro h; exact constText_head c h
  | un op e => intro _; exact ⟨'(', _, rfl, by decide⟩
  | bin op a b => intro _; exact ⟨'(', _, rfl, by decide⟩
  | pow a b =>
    intro _
    exact ⟨'s', _, rfl, by decide⟩
  | cmp op a b => intro _; exact ⟨'(', _, rfl, by decide⟩

theorem uop_ok (op : UOp) : OpOk op.text = true := by cases op <;> decide
theorem bop_ok (op : BOp) : OpOk op.text = true := by cases op <;> decide
theorem cop_ok (op : COp) : OpOk op.text = true := by cases op <;> decide

theorem bop_tail (op : BOp) (r : Str) : TailOK (op.text ++ r) := by
  cases op <;> exact tailOK_cons _ (by decide)
theorem cop_tail (op : COp) (r : Str) : TailOK (op.text ++ r) := by
  cases op <;> exact tailOK_cons _ (by decide)

/-- an operator followed by a rendered operand followed by … -/
theorem lexes_op_operand (op : Str) (hop : OpOk op = true) (e : OExpr) (he : e.WF) (rest : Str)
    (ts : List Tok) (hr : Lexes (renderE e ++ rest) ts) :
    Lexes (op ++ (renderE e ++ rest)) (.punct op :: ts) := by
  obtain ⟨a, r, hh, ha⟩ := renderE_head e he
  rw [hh] at hr ⊢
  exact lexes_op op hop a (r ++ rest) (opStart_not_ext ha) ts hr

/-- **Tokenization is a homomorphism on what the renderer writes**: followed by any text that
starts like the text after an operand, the rendered expression is lexed into exactly the tokens
it was built from, then the tokens of the rest. -/
theorem lexes_renderE : ∀ (e : OExpr), e.WF → ∀ (tl : Str) (ts : List Tok), TailOK tl → Lexes tl ts →
    Lexes (renderE e ++ tl) (toksE e ++ ts) := by
  intro e
  induction e with
  | leaf v arrow m =>
    intro h tl ts _ hr
    obtain ⟨hv, hm⟩ := h
    have h1 := lexes_solo ')' solo_rparen (by decide) tl ts hr
    have h2 := lexes_solo '(' solo_lparen (by decide) _ _ h1
    have h3 := lexes_ident m hm ('(' :: ')' :: tl) _ (by intro c r he; cases he; decide) h2
    cases m with
    | nil => exact absurd hm (by simp [IsIdent])
    | cons mc mr =>
      cases arrow with
      | true =>
        have h4 := lexes_op ['-', '>'] (by decide) mc (mr ++ '(' :: ')' :: tl) (identStart_not_ext hm.1) _ h3
        have h5 := lexes_ident v hv _ _ (by intro c r he; cases he; decide) h4
        simp only [renderE, toksE, if_true, List.cons_append, List.append_assoc, List.nil_append,
          List.singleton_append]
        exact h5
      | false =>
        have h4 := lexes_dot mc (mr ++ '(' :: ')' :: tl) hm.1 _ h3
        have h5 := lexes_ident v hv _ _ (by intro c r he; cases he; decide) h4
        simp only [renderE, toksE, Bool.false_eq_true, if_false, List.cons_append, List.append_assoc,
          List.nil_append, List.singleton_append]
        exact h5
  | const c =>
    intro h tl ts ht hr
    exact lexes_const c h tl ts ht hr
  | un op e ih =>
    intro h tl ts _ hr
    have h1 := lexes_solo ')' solo_rparen (by decide) tl ts hr
    have h2 := lexes_solo ')' solo_rparen (by decide) _ _ h1
    have h3 := ih h (')' :: ')' :: tl) _ (tailOK_cons _ tailStart_rparen) h2
    have h4 := lexes_solo '(' solo_lparen (by decide) _ _ h3
    have h5 := lexes_op op.text (uop_ok op) '(' _ (by decide) _ h4
    have h6 := lexes_solo '(' solo_lparen (by decide) _ _ h5
    simp only [renderE, toksE, List.cons_append, List.append_assoc, List.nil_append, List.singleton_append]
    exact h6
  | bin op a b iha ihb =>
    intro h tl ts _ hr
    obtain ⟨ha, hb⟩ := h
    have h1 := lexes_solo ')' solo_rparen (by decide) tl ts hr
    have h2 := ihb hb (')' :: tl) _ (tailOK_cons _ tailStart_rparen) h1
    have h3 := lexes_op_operand op.text (bop_ok op) b hb _ _ h2
    by_cases hcast : needsCast op a b = true
    · have h4 := lexes_solo ')' solo_rparen (by decide) _ _ h3
      have h5 := iha ha (')' :: (op.text ++ (renderE b ++ ')' :: tl))) _ (tailOK_cons _ tailStart_rparen) h4
      have h6 := lexes_solo '(' solo_lparen (by decide) _ _ h5
      have h7 := lexes_op ['>'] (by decide) '(' _ (by decide) _ h6
      have h8 := lexes_ident sDouble (by decide) _ _ (by intro c r he; cases he; decide) h7
      have h9 := lexes_op ['<'] (by decide) 'd' _ (by decide) _ h8
      have h10 := lexes_ident sStaticCast (by decide) _ _ (by intro c r he; cases he; decide) h9
      have h11 := lexes_solo '(' solo_lparen (by decide) _ _ h10
      simp only [renderE, toksE, hcast, if_true, castOpen, castToks, List.cons_append, List.append_assoc,
        List.nil_append, List.singleton_append]
      exact h11
    · have h4 := iha ha (op.text ++ (renderE b ++ ')' :: tl)) _ (bop_tail op _) h3
      have h5 := lexes_solo '(' solo_lparen (by decide) _ _ h4
      simp only [renderE, toksE, hcast, Bool.false_eq_true, if_false, List.cons_append, List.append_assoc,
        List.nil_append, List.singleton_append]
      exact h5
  | pow a b iha ihb =>
    intro h tl ts _ hr
    obtain ⟨ha, hb⟩ := h
    have h1 := lexes_solo ')' solo_rparen (by decide) tl ts hr
    have h2 := ihb hb (')' :: tl) _ (tailOK_cons _ tailStart_rparen) h1
    have h3 := lexes_ws _ _ h2
    have h4 := lexes_solo ',' solo_comma (by decide) _ _ h3
    have h5 := iha ha (',' :: ' ' :: (renderE b ++ ')' :: tl)) _ (tailOK_cons _ (by decide)) h4
    have h6 := lexes_solo '(' solo_lparen (by decide) _ _ h5
    have h7 := lexes_ident sPow (by decide) _ _ (by intro c r he; cases he; decide) h6
    have h8 := lexes_op [':', ':'] (by decide) 'p' _ (by decide) _ h7
    have h9 := lexes_ident sStd (by decide) _ _ (by intro c r he; cases he; decide) h8
    simp only [renderE, toksE, powOpen, powToks, List.cons_append, List.append_assoc, List.nil_append,
      List.singleton_append]
    exact h9
  | cmp op a b iha ihb =>
    intro h tl ts _ hr
    obtain ⟨ha, hb⟩ := h
    have h1 := lexes_solo ')' solo_rparen (by decide) tl ts hr
    have h2 := ihb hb (')' :: tl) _ (tailOK_cons _ tailStart_rparen) h1
    have h3 := lexes_op_operand op.text (cop_ok op) b hb _ _ h2
    have h4 := iha ha (op.text ++ (renderE b ++ ')' :: tl)) _ (cop_tail op _) h3
    have h5 := lexes_solo '(' solo_lparen (by decide) _ _ h4
    simp only [renderE, toksE, List.cons_append, List.append_assoc, List.nil_append, List.singleton_append]
    exact h5

end FaxVerif.C18
