/-
C18 driver: one JSON request per line on stdin, one JSON answer per line on stdout.
Strings travel as arrays of Unicode code points, integers as decimal strings.

  constant C :=  {"k":"str","cp":[..]} | {"k":"int","v":"-12"} | {"k":"bool","v":true} | {"k":"other","t":"NoneType"}
               | {"k":"float","bits":"n","fin":{"neg":b,"ip":[d..],"fp":[d..]|null,"ex":{"neg":b,"d":[d..]}|null}}
               | {"k":"float","bits":"n","special":"inf"|"-inf"|"nan"}

  {"op":"const","c":C}                         -> {"ok":{"text":[..],"ty":"int"}} | {"err":"nonFinite"|"unsupported"}
  {"op":"spec","c":C,"out":{"ok":{"text":[..],"ty":"int"}} | {"err":"ValueError"}}
                                               -> {"holds":b,"why":s}          (OutcomeOk on the implementation's outcome)
  {"op":"rounds","text":[..],"bits":"n"}       -> {"holds":b}                  (literal is a double literal rounding to these bits)
  {"op":"reprok","c":C}                        -> {"holds":b}                  (WFRepr and ReprFaithful: the trusted facts about repr, on this float)
  {"op":"at","c":C,"text":[..],"prev":n?}      -> {"rest":[..]|null}           (constAt / constAfter the character `prev`)
  {"op":"lexstr","text":[..],"tri":b}          -> {"v":[..]|null,"rest":[..]}  (string literal at the head of the text)
  {"op":"lexnum","text":[..]}                  -> {"int":{"v":s,"ty":s}} | {"float":{..}} | {"bool":b} | {"none":true}
  {"op":"hyp","s":[..]}                        -> {"plain":b,"tri":b,"nonul":b}
  {"op":"book","backend":s,"which":"book"|"fill","tree":[..],"col":[..],"var":[..]}
                                               -> {"lines":[[..]..],"slots":[null|{"off":n,"kind":s,"esc":b}..],"ok":[b..]}
  {"op":"nameat","off":n,"line":[..]}          -> {"v":[..]|null,"vtri":[..]|null,"rest":[..]|null}  (nameAt, nameAtTri, text after the literal)
  {"op":"linestrs","lines":[[..]..]}           -> {"lits":[[..]..]|null}       (all string literals of the lines; null if one does not lex)
  {"op":"bank","pre":[..],"suf":[..],"bank":[..]} -> {"line":[..]}
  carrier K :=  {"c":C} | {"ite":[K,K]}
  {"op":"carrier","k":K}                       -> {"paths":[[ty..]..],"accepted":b,"storable":[b..]}   (Carrier.columnPaths, constants in source order)
  {"op":"stored","c":C,"text":[..],"chain":[ty..]} -> {"holds":b,"why":s}      (StoredOk: literal of the constant, value kept through the types)
  expression E :=  {"leaf":[var,meth]} | {"leafdot":[var,meth]} | {"c":C} | {"un":["neg"|"pos",E]} | {"bin":["+",E,E]} | {"pow":[E,E]} | {"cmp":["<",E,E]}
  {"op":"expr","e":E}                          -> {"text":[..],"wf":b}         (renderE: the model's text of the expression)
  {"op":"exprok","e":E,"text":[..]}            -> {"holds":b,"why":s,"tokens":[s..]|null}   (ExprOk: tokenize, parse, compare)
  {"op":"ctxsafe","text":[..]}                 -> {"holds":b,"why":s}          (ContextSafe of an emitted constant text)
  {"op":"tokens","text":[..]}                  -> {"tokens":[s..]|null}
  {"op":"exprsame","a":[..],"b":[..]}          -> {"same":b}                   (both texts are expressions and parse to the same tree)
Run: lake env lean --run FaxVerif/C18/Driver.lean
-/
import Lean.Data.Json
import FaxVerif.C18.Expr
open Lean FaxVerif.C18

def cps (j : Json) : Except String Str := do
  let a ← j.getArr?
  a.toList.mapM fun x => do
    let n ← x.getNat?
    if n < 0xD800 ∨ (0xE000 ≤ n ∧ n < 0x110000) then pure (Char.ofNat n)
    else throw s!"not a Unicode scalar value: {n}"

def jcps (s : Str) : Json := Json.arr (s.map fun c => Json.num (JsonNumber.fromNat c.toNat)).toArray

def fins (j : Json) : Except String (List (Fin 10)) := do
  let a ← j.getArr?
  a.toList.mapM fun x => do
    let n ← x.getNat?
    if h : n < 10 then pure ⟨n, h⟩ else throw s!"not a digit: {n}"

def optField (j : Json) (k : String) : Option Json :=
  match j.getObjVal? k with
  | .ok .null => none
  | .ok v => some v
  | .error _ => none

def parseConst (j : Json) : Except String PyConst := do
  let k ← (← j.getObjVal? "k").getStr?
  if k == "str" then return .str (← cps (← j.getObjVal? "cp"))
  else if k == "int" then
    let s ← (← j.getObjVal? "v").getStr?
    match s.toInt? with
    | some n => return .int n
    | none => throw s!"bad int {s}"
  else if k == "bool" then return .bool (← (← j.getObjVal? "v").getBool?)
  else if k == "other" then return .other (← (← j.getObjVal? "t").getStr?)
  else if k == "float" then
    let bits : Nat := match optField j "bits" with
      | some b => (b.getStr?.toOption.bind String.toNat?).getD 0
      | none => 0
    match optField j "special" with
    | some sp =>
      let s ← sp.getStr?
      if s == "inf" then return .float (.inf false) bits
      else if s == "-inf" then return .float (.inf true) bits
      else if s == "nan" then return .float .nan bits
      else throw s!"bad special {s}"
    | none =>
      let f ← j.getObjVal? "fin"
      let neg ← (← f.getObjVal? "neg").getBool?
      let ip ← fins (← f.getObjVal? "ip")
      let fp ← match optField f "fp" with
        | some x => do pure (some (← fins x))
        | none => pure none
      let ex ← match optField f "ex" with
        | some x => do pure (some ((← (← x.getObjVal? "neg").getBool?), (← fins (← x.getObjVal? "d"))))
        | none => pure none
      return .float (.finite neg ip fp ex) bits
  else throw s!"unknown kind {k}"

def tyOfName (s : String) : Option CTy :=
  [CTy.int, .uint, .long, .ulong, .llong, .ullong, .float, .double, .ldouble, .bool, .string].find? (·.name == s)

def holds (b : Bool) (why : String) : Json := Json.mkObj [("holds", b), ("why", why)]

def kindName : PyConst → String
  | .str _ => "str" | .int _ => "int" | .float _ _ => "float" | .bool _ => "bool" | .other t => t

/-- explanation of a failed `ConstOk` (the verdict itself is `decide (ConstOk ..)`) -/
def whyNot (c : PyConst) (text : Str) (ty : CTy) : String :=
  let t := String.ofList text
  match c with
  | .str _ =>
    match cppStringLit text with
    | none => s!"the emitted text {t} is not a C++ string literal (unterminated or bad escape)"
    | some (v, rest) =>
      if rest ≠ [] then s!"the string literal ends early: it denotes {String.ofList v}, followed by {String.ofList rest}"
      else if ty ≠ .string then s!"recorded type {ty.name}, expected string"
      else if v ≠ (match c with | .str s => s | _ => []) then s!"the literal {t} denotes a different string: {String.ofList v}"
      else match cppStringTriL text with
        | none => s!"under trigraph replacement (ISO C++ before C++17) the literal {t} is read as {String.ofList (detri text)}, which is not one string literal"
        | some vt => s!"under trigraph replacement (ISO C++ before C++17) the literal {t} is read as {String.ofList (detri text)} and denotes a different string: {String.ofList vt}"
  | .int n =>
    match cppIntE text with
    | none => s!"the emitted text {t} is not an integer literal any C++ type can hold"
    | some (v, lt) =>
      if v ≠ n then s!"the literal {t} has value {v}, the constant is {n}"
      else if !fitsTy ty n then s!"the value {n} is recorded with C++ type {ty.name}, which cannot hold it (the bare literal has type {lt.name})"
      else s!"literal type {lt.name} cannot hold {n}"
  | .float _ bits =>
    match cppFloatE text with
    | none => s!"the emitted text {t} is not a C++ floating literal"
    | some (d, lt) =>
      if lt ≠ .double then s!"the literal {t} has type {lt.name}, not double"
      else if ty ≠ .double then s!"recorded type {ty.name}, expected double"
      else s!"the literal {t} (exact value {if d.neg then "-" else ""}{d.mant}e{d.exp}) does not round to the double with bits {bits} that the query held"
  | .bool _ => s!"the emitted text {t} / type {ty.name} is not the bool literal of the constant"
  | .other k => s!"a constant of type {k} was rendered as {t}"

def specOn (c : PyConst) (out : Json) : Except String Json := do
  match out.getObjVal? "ok" with
  | .ok o =>
    let text ← cps (← o.getObjVal? "text")
    let tyName ← (← o.getObjVal? "ty").getStr?
    match tyOfName tyName with
    | none => return holds false s!"recorded type {tyName} is not a C++ type of a {kindName c} constant"
    | some ty =>
      if decide (OutcomeOk c (some (text, ty))) then return holds true ""
      else if !decide (Representable c) then
        return holds false s!"a {kindName c} constant that has no C++ literal was accepted and rendered as {String.ofList text}"
      else return holds false (whyNot c text ty)
  | .error _ =>
    let e ← (← out.getObjVal? "err").getStr?
    if decide (OutcomeOk c none) then
      if e == "ValueError" then return holds true ""
      else return holds false s!"refused with {e}; a constant without C++ literal is refused with ValueError"
    else return holds false s!"a representable {kindName c} constant was refused ({e})"

partial def parseCarrier (j : Json) : Except String Carrier := do
  match j.getObjVal? "ite" with
  | .ok a =>
    match (← a.getArr?).toList with
    | [x, y] => return .ite (← parseCarrier x) (← parseCarrier y)
    | _ => throw "ite needs two carriers"
  | .error _ => return .const (← parseConst (← j.getObjVal? "c"))

def showVal : NVal → String
  | .int n => s!"the integer {n}"
  | .dbl b => s!"the double with bits {b}"
  | .bool b => s!"{b}"

/-- explanation of a failed `StoredOk`: the first conversion that loses the value -/
def whyStored (c : PyConst) (text : Str) (chain : List CTy) : String :=
  if !decide (ConstOk c text (litTy c)) then whyNot c text (litTy c)
  else match valOf c with
    | none => s!"a {kindName c} constant is converted to {chain.map (·.name)}: there is no conversion between a {kindName c} and an arithmetic type (C++ rejects the cast), the constant does not arrive"
    | some v =>
      let rec go (pre : List CTy) (cur : NVal) : List CTy → String
        | [] => "the value is kept"
        | t :: ts =>
          match convTo t cur with
          | none => s!"converting {showVal cur} to {t.name} (step {pre.length + 1} of {(pre.length + 1 + ts.length)}) is undefined or inexact: the constant does not arrive"
          | some w =>
            if !sameNum v w then s!"after conversion to {t.name} (step {pre.length + 1} of {pre.length + 1 + ts.length}) the value is {showVal w}, the constant is {showVal v}"
            else go (pre ++ [t]) w ts
      go [] v chain

partial def parseExpr (j : Json) : Except String OExpr := do
  let two (a : Json) : Except String (Json × Json) := do
    match (← a.getArr?).toList with
    | [x, y] => pure (x, y)
    | _ => throw "two elements expected"
  let three (a : Json) : Except String (String × Json × Json) := do
    match (← a.getArr?).toList with
    | [o, x, y] => pure ((← o.getStr?), x, y)
    | _ => throw "three elements expected"
  match j.getObjVal? "leaf", j.getObjVal? "leafdot", j.getObjVal? "c", j.getObjVal? "un" with
  | .ok a, _, _, _ => let (v, m) ← two a; return .leaf (← cps v) true (← cps m)
  | _, .ok a, _, _ => let (v, m) ← two a; return .leaf (← cps v) false (← cps m)
  | _, _, .ok c, _ => return .const (← parseConst c)
  | _, _, _, .ok a =>
    let (o, e) ← two a
    let o ← o.getStr?
    if o == "neg" then return .un .neg (← parseExpr e)
    else if o == "pos" then return .un .pos (← parseExpr e)
    else throw s!"unknown unary operator {o}"
  | _, _, _, _ =>
    match j.getObjVal? "bin", j.getObjVal? "pow", j.getObjVal? "cmp" with
    | .ok a, _, _ =>
      let (o, x, y) ← three a
      match [("+", BOp.add), ("-", .sub), ("*", .mul), ("/", .div), ("%", .mod)].lookup o with
      | some op => return .bin op (← parseExpr x) (← parseExpr y)
      | none => throw s!"unknown binary operator {o}"
    | _, .ok a, _ => let (x, y) ← two a; return .pow (← parseExpr x) (← parseExpr y)
    | _, _, .ok a =>
      let (o, x, y) ← three a
      match [("<", COp.lt), ("<=", .le), (">", .gt), (">=", .ge), ("==", .eq), ("!=", .ne)].lookup o with
      | some op => return .cmp op (← parseExpr x) (← parseExpr y)
      | none => throw s!"unknown comparison {o}"
    | _, _, _ => throw "not an expression"

def showTok : Tok → String
  | .num t => String.ofList t
  | .id t => String.ofList t
  | .str v => "\"" ++ String.ofList v ++ "\""
  | .punct t => String.ofList t

def jtoks (o : Option (List Tok)) : Json :=
  match o with
  | some ts => Json.arr (ts.map fun t => Json.str (showTok t)).toArray
  | none => Json.null

def wfE : OExpr → Bool
  | .leaf v _ m => decide (IsIdent v) && decide (IsIdent m)
  | .const c => decide (ConstWF c)
  | .un _ e => wfE e
  | .bin _ a b => wfE a && wfE b
  | .pow a b => wfE a && wfE b
  | .cmp _ a b => wfE a && wfE b

/-- explanation of a failed `ExprOk` (the verdict itself is `decide (ExprOk ..)`) -/
def whyExpr (text : Str) : String :=
  match tokenize text with
  | none => "the emitted text is not a sequence of C++ tokens of the emitted subset"
  | some ts =>
    let glue := ts.filterMap fun t => match t with
      | .punct p => if p = ['-', '-'] ∨ p = ['+', '+'] ∨ p = ['-', '='] ∨ p = ['+', '='] ∨ p = ['-', '>', '*'] then some (String.ofList p) else none
      | _ => none
    match parseE ts with
    | none =>
      if glue ≠ [] then s!"maximal munch: the C++ lexer reads the token(s) {glue} in it (a sign written directly after an operator fuses with it) — token sequence {ts.map showTok}; this is not an expression of the query's shape (g++: lvalue required / expected primary-expression)"
      else s!"the token sequence {ts.map showTok} does not parse as one C++ expression of the emitted subset"
    | some _ => s!"the token sequence {ts.map showTok} parses as a C++ expression that is not the query's expression (a different operator, operand or constant value, or an integer division)"

def jopt (o : Option Str) : Json := match o with | some v => jcps v | none => Json.null

def handle (line : String) : String :=
  match Json.parse line with
  | .error e => (Json.mkObj [("bad", e)]).compress
  | .ok j =>
    let r : Except String Json := do
      let op ← (← j.getObjVal? "op").getStr?
      if op == "const" then
        let c ← parseConst (← j.getObjVal? "c")
        match renderConst c with
        | .ok (text, ty) => pure (Json.mkObj [("ok", Json.mkObj [("text", jcps text), ("ty", ty.name)])])
        | .error .nonFinite => pure (Json.mkObj [("err", "nonFinite")])
        | .error (.unsupported _) => pure (Json.mkObj [("err", "unsupported")])
      else if op == "spec" then
        specOn (← parseConst (← j.getObjVal? "c")) (← j.getObjVal? "out")
      else if op == "rounds" then
        let text ← cps (← j.getObjVal? "text")
        let bits ← (← j.getObjVal? "bits").getStr?
        match cppFloatL text, bits.toNat? with
        | some (d, .double), some b => pure (Json.mkObj [("holds", roundsTo d b)])
        | _, _ => pure (Json.mkObj [("holds", false)])
      else if op == "reprok" then
        match (← parseConst (← j.getObjVal? "c")) with
        | .float r bits => pure (Json.mkObj [("holds", decide (WFRepr r) && decide (ReprFaithful r bits))])
        | _ => pure (Json.mkObj [("holds", true)])
      else if op == "at" then
        let c ← parseConst (← j.getObjVal? "c")
        let text ← cps (← j.getObjVal? "text")
        match optField j "prev" with
        | some p =>
          let n ← p.getNat?
          pure (Json.mkObj [("rest", jopt (constAfter (Char.ofNat n) c text))])
        | none => pure (Json.mkObj [("rest", jopt (constAt c text))])
      else if op == "lexstr" then
        let text ← cps (← j.getObjVal? "text")
        let tri ← (← j.getObjVal? "tri").getBool?
        match cppStringLit (if tri then detri text else text) with
        | some (v, rest) => pure (Json.mkObj [("v", jcps v), ("rest", jcps rest)])
        | none => pure (Json.mkObj [("v", Json.null), ("rest", jcps [])])
      else if op == "lexnum" then
        let text ← cps (← j.getObjVal? "text")
        match cppIntL text, cppFloatL text, cppBoolL text with
        | some (v, t), _, _ => pure (Json.mkObj [("int", Json.mkObj [("v", toString v), ("ty", t.name)])])
        | _, some (d, t), _ => pure (Json.mkObj [("float", Json.mkObj [("neg", d.neg), ("mant", toString d.mant), ("exp", toString d.exp), ("ty", t.name)])])
        | _, _, some b => pure (Json.mkObj [("bool", b)])
        | _, _, _ => pure (Json.mkObj [("none", true)])
      else if op == "hyp" then
        let s ← cps (← j.getObjVal? "s")
        pure (Json.mkObj [("plain", decide (PlainName s)), ("tri", hasTrigraph s), ("nonul", decide (NoNul s))])
      else if op == "book" then
        let b ← (← j.getObjVal? "backend").getStr?
        let which ← (← j.getObjVal? "which").getStr?
        let tree ← cps (← j.getObjVal? "tree")
        let col ← cps (← j.getObjVal? "col")
        let var ← cps (← j.getObjVal? "var")
        let tbl := if which == "fill" then fillTable else bookTable
        match tbl.lookup b with
        | none => throw s!"unknown backend {b}"
        | some lines =>
          let slot (segs : List Seg) : Json := match nameSlot segs with
            | some (off, k, esc) => Json.mkObj [("off", off), ("kind", (match k with | .tree => "tree" | .col => "col")), ("esc", esc)]
            | none => Json.null
          pure (Json.mkObj [
            ("lines", Json.arr (lines.map fun l => jcps (renderSegs pyTable tree col var l)).toArray),
            ("slots", Json.arr (lines.map slot).toArray),
            ("ok", Json.arr (lines.map fun l => Json.bool (BookLineOk l)).toArray)])
      else if op == "nameat" then
        let off ← (← j.getObjVal? "off").getNat?
        let line ← cps (← j.getObjVal? "line")
        let rest : Option Str := (cppStringLit (line.drop off)).map (·.2)
        pure (Json.mkObj [("v", jopt (nameAt off line)), ("vtri", jopt (nameAtTri off line)), ("rest", jopt rest)])
      else if op == "linestrs" then
        let ls ← (← j.getObjVal? "lines").getArr?
        let lines ← ls.toList.mapM cps
        let res := lines.map fun l => lineStrings (l.length + 1) l
        if res.all Option.isSome then
          pure (Json.mkObj [("lits", Json.arr ((res.filterMap id).flatten.map jcps).toArray)])
        else pure (Json.mkObj [("lits", Json.null)])
      else if op == "carrier" then
        let k ← parseCarrier (← j.getObjVal? "k")
        pure (Json.mkObj [
          ("paths", Json.arr (k.columnPaths.map fun p => Json.arr (p.2.map fun t => Json.str t.name).toArray).toArray),
          ("accepted", Json.bool k.accepted),
          ("storable", Json.arr (k.consts.map fun c => Json.bool (decide (StorableConst c))).toArray)])
      else if op == "stored" then
        let c ← parseConst (← j.getObjVal? "c")
        let text ← cps (← j.getObjVal? "text")
        let names ← (← (← j.getObjVal? "chain").getArr?).toList.mapM fun x => x.getStr?
        match names.mapM tyOfName with
        | none => pure (holds false s!"a type among {names} is not an arithmetic C++ type this model knows")
        | some chain =>
          if decide (StoredOk c text chain) then pure (holds true "")
          else pure (holds false (whyStored c text chain))
      else if op == "expr" then
        let e ← parseExpr (← j.getObjVal? "e")
        pure (Json.mkObj [("text", jcps (renderE e)), ("wf", Json.bool (wfE e))])
      else if op == "exprok" then
        let e ← parseExpr (← j.getObjVal? "e")
        let text ← cps (← j.getObjVal? "text")
        if decide (ExprOk e text) then pure (Json.mkObj [("holds", true), ("why", ""), ("tokens", jtoks (tokenize text))])
        else pure (Json.mkObj [("holds", false), ("why", whyExpr text), ("tokens", jtoks (tokenize text))])
      else if op == "ctxsafe" then
        let text ← cps (← j.getObjVal? "text")
        if decide (ContextSafe text) then pure (holds true "")
        else
          let bad := emittedOps.filter fun o => tokenize (o ++ text ++ [')']) != (tokenize text).map fun ts => .punct o :: ts ++ [tRP]
          pure (holds false (match tokenize text with
            | none => s!"the text {String.ofList text} is not a sequence of C++ tokens"
            | some _ => s!"directly after the operator(s) {bad.map String.ofList} the text {String.ofList text} is lexed differently: e.g. {(bad.head?.map fun o => ((tokenize (o ++ text ++ [')'])).getD []).map showTok)}"))
      else if op == "exprsame" then
        let a ← cps (← j.getObjVal? "a")
        let b ← cps (← j.getObjVal? "b")
        pure (Json.mkObj [("same", Json.bool ((exprTree a).isSome && decide (exprTree a = exprTree b)))])
      else if op == "tokens" then
        pure (Json.mkObj [("tokens", jtoks (tokenize (← cps (← j.getObjVal? "text"))))])
      else if op == "bank" then
        pure (Json.mkObj [("line", jcps (bankLine pyTable (← cps (← j.getObjVal? "pre")) (← cps (← j.getObjVal? "suf")) (← cps (← j.getObjVal? "bank"))))])
      else throw s!"unknown op {op}"
    match r with
    | .ok j => j.compress
    | .error e => (Json.mkObj [("bad", e)]).compress

partial def loopIO (h : IO.FS.Stream) (out : IO.FS.Stream) : IO Unit := do
  let line ← h.getLine
  if line.isEmpty then return ()
  let t := line.trimAscii.toString
  if !t.isEmpty then out.putStrLn (handle t)
  loopIO h out

def main : IO Unit := do
  let out ← IO.getStdout
  loopIO (← IO.getStdin) out
  out.flush
