/-
C18 — a constant as an OPERAND: the C++ tokenizer, the translator's expression renderer, and the
decidable Spec `ExprOk` / `ContextSafe`.

`Spec.lean` judges a constant where it stands alone (`ConstOk`) and, with `glued`, one special
juxtaposition. This file has the general instrument:

* `lexTok` / `tokenize`: translation phase 3 for the emitted subset — MAXIMAL MUNCH: pp-numbers
  (`ppRest` of Model.lean), identifiers, string literals (`lex`), and the punctuators of the language
  longest first (`->*`, `<<=`, `--`, `++`, `->`, `::` …). `Lexes` is the same as a relation.
* `OExpr` / `renderE`: mirror of `visit_BinOp` (`(L op R)`, `static_cast<double>(L)` for int/int
  division), `visit_UnaryOp` (`(op(X))`), `visit_special_BinOp` (`std::pow(L, R)`), `visit_Compare`,
  `visit_Constant` and of a method call on the loop variable; `toksE` = the tokens the renderer MEANS.
* `parseE` / `sameE` / `ExprOk`: the emitted text, tokenized and parsed with C++ precedence, is the
  query's expression (parentheses, `static_cast<double>` and the way a sign is attached to a literal
  do not matter; the value and kind of every constant, the operators and their operands do).
* `ContextSafe`: the text of a constant can be put directly after every operator the translator
  emits (and before `)`) without forming a different token.

No Mathlib/Batteries import.
-/
import FaxVerif.C18.Spec
namespace FaxVerif.C18

/-! ## tokens -/

inductive Tok where
  | num (t : Str)      -- a pp-number, by its text
  | id (t : Str)       -- identifier / keyword
  | str (v : Str)      -- string literal, by the characters it denotes
  | punct (t : Str)    -- operator or punctuator
  deriving DecidableEq, Repr

def isIdentStart (c : Char) : Bool :=
  (decide (97 ≤ c.toNat) && decide (c.toNat ≤ 122)) ||
  (decide (65 ≤ c.toNat) && decide (c.toNat ≤ 90)) || c = '_'

def spanIdent : Str → Str × Str
  | [] => ([], [])
  | c :: r =>
    if isIdentChar c then
      match spanIdent r with
      | (a, b) => (c :: a, b)
    else ([], c :: r)

/-- operators and punctuators of three / two / one characters ([lex.operators], without digraphs,
`<=>` (C++20) and the preprocessor's `#`) -/
def punct3 : List (Char × Char × Char) :=
  [('<', '<', '='), ('>', '>', '='), ('-', '>', '*'), ('.', '.', '.')]

def punct2 : List (Char × Char) :=
  [('-', '>'), ('+', '+'), ('-', '-'), ('<', '<'), ('>', '>'), ('<', '='), ('>', '='), ('=', '='),
   ('!', '='), ('&', '&'), ('|', '|'), ('+', '='), ('-', '='), ('*', '='), ('/', '='), ('%', '='),
   ('&', '='), ('|', '='), ('^', '='), (':', ':'), ('.', '*')]

def punct1 : List Char :=
  ['+', '-', '*', '/', '%', '=', '<', '>', '!', '&', '|', '^', '~', '?', ':', '.', ',', ';',
   '(', ')', '[', ']', '{', '}']

/-- characters that can continue a punctuator (second or third character of one) -/
def isPunctExt (c : Char) : Bool := ['+', '-', '=', '>', '<', '&', '|', ':', '*', '.'].contains c

/-- the longest punctuator at the head of the text -/
def lexPunct : Str → Option (Str × Str)
  | [] => none
  | a :: r =>
    match r with
    | b :: r2 =>
      match r2 with
      | c :: r3 =>
        if punct3.contains (a, b, c) then some ([a, b, c], r3)
        else if punct2.contains (a, b) then some ([a, b], r2)
        else if punct1.contains a then some ([a], r) else none
      | [] =>
        if punct2.contains (a, b) then some ([a, b], [])
        else if punct1.contains a then some ([a], r) else none
    | [] => if punct1.contains a then some ([a], []) else none

/-- one token at the head of a text that does not start with white space -/
def lexTok : Str → Option (Tok × Str)
  | [] => none
  | c :: r =>
    if isDigit c then
      match ppRest c r with
      | (a, b) => some (.num (c :: a), b)
    else if isIdentStart c then
      match spanIdent r with
      | (a, b) => some (.id (c :: a), b)
    else if c = '"' then
      match lex .norm r with
      | some (v, rest) => some (.str v, rest)
      | none => none
    else if c = '.' && (match r with | d :: _ => isDigit d | [] => false) then
      match ppRest c r with
      | (a, b) => some (.num (c :: a), b)
    else
      match lexPunct (c :: r) with
      | some (p, rest) => some (.punct p, rest)
      | none => none

/-- the token sequence of a text (blanks separate tokens and are dropped); fuel = one per token -/
def tokF : Nat → Str → Option (List Tok)
  | 0, _ => none
  | _ + 1, [] => some []
  | f + 1, c :: r =>
    if c = ' ' then tokF f r
    else
      match lexTok (c :: r) with
      | some (t, rest) => (tokF f rest).map (t :: ·)
      | none => none

def tokenize (s : Str) : Option (List Tok) := tokF (s.length + 1) s

/-- the same as a relation (each step consumes at least one character) -/
inductive Lexes : Str → List Tok → Prop where
  | nil : Lexes [] []
  | ws (r : Str) (ts : List Tok) : Lexes r ts → Lexes (' ' :: r) ts
  | tok (c : Char) (r rest : Str) (t : Tok) (ts : List Tok) :
      c ≠ ' ' → lexTok (c :: r) = some (t, rest) → rest.length < (c :: r).length →
      Lexes rest ts → Lexes (c :: r) (t :: ts)

/-! ## the query's operand expressions and the translator's renderer -/

inductive UOp where | neg | pos
  deriving DecidableEq, Repr
inductive BOp where | add | sub | mul | div | mod
  deriving DecidableEq, Repr
inductive COp where | lt | le | gt | ge | eq | ne
  deriving DecidableEq, Repr

/-- the texts of `_known_unary_operators`, `_known_binary_operators`, `compare_operations` -/
def UOp.text : UOp → Str
  | .neg => ['-'] | .pos => ['+']
def BOp.text : BOp → Str
  | .add => ['+'] | .sub => ['-'] | .mul => ['*'] | .div => ['/'] | .mod => ['%']
def COp.text : COp → Str
  | .lt => ['<'] | .le => ['<', '='] | .gt => ['>'] | .ge => ['>', '='] | .eq => ['=', '=']
  | .ne => ['!', '=']

inductive OExpr where
  /-- a method of the loop variable: `var->meth()` (`var.meth()` when `arrow = false`), a double -/
  | leaf (var : Str) (arrow : Bool) (meth : Str)
  | const (c : PyConst)
  | un (op : UOp) (e : OExpr)
  | bin (op : BOp) (a b : OExpr)
  | pow (a b : OExpr)
  | cmp (op : COp) (a b : OExpr)
  deriving Repr

/-- the C++ type recorded for the representation (`most_accurate_type`: double over int) -/
def OExpr.ty : OExpr → CTy
  | .leaf .. => .double
  | .const c => litTy c
  | .un _ e => e.ty
  | .bin op a b =>
    if op = .div then .double
    else if a.ty = .double ∨ b.ty = .double then .double else .int
  | .pow .. => .double
  | .cmp .. => .bool

/-- text `visit_Constant` emits (empty for a constant it refuses) -/
def constText (c : PyConst) : Str :=
  match renderConst c with
  | .ok (t, _) => t
  | .error _ => []

def sStd : Str := ['s', 't', 'd']
def sPow : Str := ['p', 'o', 'w']
def sStaticCast : Str := ['s', 't', 'a', 't', 'i', 'c', '_', 'c', 'a', 's', 't']
def sDouble : Str := ['d', 'o', 'u', 'b', 'l', 'e']

/-- `static_cast<double>(` and `std::pow(` -/
def castOpen : Str := sStaticCast ++ '<' :: (sDouble ++ ['>', '('])
def powOpen : Str := sStd ++ ':' :: ':' :: (sPow ++ ['('])

/-- does `visit_BinOp` write the cast? (`/` between two operands whose best type is `int`) -/
def needsCast (op : BOp) (a b : OExpr) : Bool :=
  op = .div && !(a.ty = .double || b.ty = .double)

def renderE : OExpr → Str
  | .leaf v arrow m => v ++ (if arrow then ['-', '>'] else ['.']) ++ m ++ ['(', ')']
  | .const c => constText c
  | .un op e => '(' :: (op.text ++ '(' :: (renderE e ++ [')', ')']))
  | .bin op a b =>
    '(' :: ((if needsCast op a b then castOpen ++ renderE a ++ [')'] else renderE a) ++
      (op.text ++ (renderE b ++ [')'])))
  | .pow a b => powOpen ++ (renderE a ++ (',' :: ' ' :: (renderE b ++ [')'])))
  | .cmp op a b => '(' :: (renderE a ++ (op.text ++ (renderE b ++ [')'])))

/-- the unsigned text of a finite float -/
def floatAbsText (ip : List (Fin 10)) (fp : Option (List (Fin 10)))
    (ex : Option (Bool × List (Fin 10))) : Str := renderFloat false ip fp ex

abbrev tLP : Tok := .punct ['(']
abbrev tRP : Tok := .punct [')']
abbrev tMinus : Tok := .punct ['-']
abbrev tComma : Tok := .punct [',']
abbrev tLt : Tok := .punct ['<']
abbrev tGt : Tok := .punct ['>']
abbrev tScope : Tok := .punct [':', ':']

/-- the tokens a rendered constant consists of -/
def toksConst : PyConst → List Tok
  | .str s => [.str s]
  | .int (.ofNat n) => [.num (renderNat n)]
  | .int (.negSucc n) => [tLP, tMinus, .num (renderNat (n + 1)), tRP]
  | .float (.finite false ip fp ex) _ => [.num (floatAbsText ip fp ex)]
  | .float (.finite true ip fp ex) _ => [tLP, tMinus, .num (floatAbsText ip fp ex), tRP]
  | .float _ _ => []
  | .bool b => [.id (if b then "true".toList else "false".toList)]
  | .other _ => []

def castToks : List Tok := [.id sStaticCast, tLt, .id sDouble, tGt, tLP]
def powToks : List Tok := [.id sStd, tScope, .id sPow, tLP]

/-- the tokens the renderer means -/
def toksE : OExpr → List Tok
  | .leaf v arrow m => [.id v, .punct (if arrow then ['-', '>'] else ['.']), .id m, tLP, tRP]
  | .const c => toksConst c
  | .un op e => tLP :: .punct op.text :: tLP :: (toksE e ++ [tRP, tRP])
  | .bin op a b =>
    tLP :: ((if needsCast op a b then castToks ++ toksE a ++ [tRP] else toksE a) ++
      (.punct op.text :: (toksE b ++ [tRP])))
  | .pow a b => powToks ++ (toksE a ++ (tComma :: (toksE b ++ [tRP])))
  | .cmp op a b => tLP :: (toksE a ++ (.punct op.text :: (toksE b ++ [tRP])))

/-- an identifier: a letter or `_`, then letters, digits, `_` -/
def IsIdent (s : Str) : Prop :=
  match s with
  | [] => False
  | c :: r => isIdentStart c = true ∧ r.all isIdentChar = true

instance (s : Str) : Decidable (IsIdent s) := by
  unfold IsIdent; split <;> exact inferInstance

/-- constants `visit_Constant` accepts, floats given by a well-formed `repr` text -/
def ConstWF : PyConst → Prop
  | .str _ => True
  | .int _ => True
  | .float r _ => (match r with | .finite .. => True | _ => False) ∧ WFRepr r
  | .bool _ => True
  | .other _ => False

instance (c : PyConst) : Decidable (ConstWF c) := by
  unfold ConstWF; split <;> try exact inferInstance
  · rename_i r _; cases r <;> exact inferInstance

def OExpr.WF : OExpr → Prop
  | .leaf v _ m => IsIdent v ∧ IsIdent m
  | .const c => ConstWF c
  | .un _ e => e.WF
  | .bin _ a b => a.WF ∧ b.WF
  | .pow a b => a.WF ∧ b.WF
  | .cmp _ a b => a.WF ∧ b.WF

def OExpr.decWF : (e : OExpr) → Decidable e.WF
  | .leaf v _ m => by unfold OExpr.WF; exact inferInstance
  | .const c => by unfold OExpr.WF; exact inferInstance
  | .un _ e => by unfold OExpr.WF; exact decWF e
  | .bin _ a b => by unfold OExpr.WF; exact @instDecidableAnd _ _ (decWF a) (decWF b)
  | .pow a b => by unfold OExpr.WF; exact @instDecidableAnd _ _ (decWF a) (decWF b)
  | .cmp _ a b => by unfold OExpr.WF; exact @instDecidableAnd _ _ (decWF a) (decWF b)

instance (e : OExpr) : Decidable e.WF := e.decWF

/-! ## parsing the emitted expression (C++ precedence) -/

inductive CExpr where
  | num (t : Str)
  | str (v : Str)
  /-- a name with its qualifications / member accesses, e.g. `i_obj1`, `->`, `pt` -/
  | name (parts : List Str)
  | call0 (f : CExpr)
  | call1 (f a : CExpr)
  | call2 (f a b : CExpr)
  | cast (ty : Str) (e : CExpr)
  | un (op : Str) (e : CExpr)
  | bin (op : Str) (a b : CExpr)
  deriving Repr, DecidableEq

/-- binding strength of a binary operator of the emitted subset -/
def binPrec (op : Str) : Option Nat :=
  if op = ['*'] ∨ op = ['/'] ∨ op = ['%'] then some 4
  else if op = ['+'] ∨ op = ['-'] then some 3
  else if op = ['<'] ∨ op = ['<', '='] ∨ op = ['>'] ∨ op = ['>', '='] then some 2
  else if op = ['=', '='] ∨ op = ['!', '='] then some 1
  else none

/-- `::id`, `->id`, `.id` continuations of a name -/
def nameTail : Nat → List Tok → List Str × List Tok
  | 0, ts => ([], ts)
  | f + 1, .punct p :: .id x :: ts =>
    if p = [':', ':'] ∨ p = ['-', '>'] ∨ p = ['.'] then
      match nameTail f ts with
      | (a, b) => (p :: x :: a, b)
    else ([], .punct p :: .id x :: ts)
  | _ + 1, ts => ([], ts)

mutual
  /-- unary-expression (prefix sign, primary with its call) -/
  def parseU : Nat → List Tok → Option (CExpr × List Tok)
    | 0, _ => none
    | _ + 1, [] => none
    | _ + 1, .num t :: ts => some (.num t, ts)
    | _ + 1, .str v :: ts => some (.str v, ts)
    | f + 1, .punct p :: ts =>
      if p = ['('] then
        match parseB f 0 ts with
        | some (e, .punct q :: ts') => if q = [')'] then some (e, ts') else none
        | _ => none
      else if p = ['-'] ∨ p = ['+'] ∨ p = ['!'] then
        match parseU f ts with
        | some (e, ts') => some (.un p e, ts')
        | none => none
      else none   -- in particular `--` and `++`: no operand of the emitted subset is an lvalue
    | f + 1, .id x :: ts =>
      if x = sStaticCast then
        match ts with
        | .punct lt :: .id ty :: .punct gt :: .punct lp :: ts' =>
          if lt = ['<'] ∧ gt = ['>'] ∧ lp = ['('] then
            match parseB f 0 ts' with
            | some (e, .punct q :: ts'') => if q = [')'] then some (.cast ty e, ts'') else none
            | _ => none
          else none
        | _ => none
      else
        match nameTail f ts with
        | (more, ts') =>
          let nm := CExpr.name (x :: more)
          match ts' with
          | .punct lp :: ts₁ =>
            if lp = ['('] then
              match ts₁ with
              | .punct rp :: ts₂ =>
                if rp = [')'] then some (.call0 nm, ts₂)
                else parseArgs f nm ts₁
              | _ => parseArgs f nm ts₁
            else some (nm, ts')
          | _ => some (nm, ts')

  /-- one or two arguments and the closing parenthesis -/
  def parseArgs : Nat → CExpr → List Tok → Option (CExpr × List Tok)
    | 0, _, _ => none
    | f + 1, nm, ts =>
      match parseB f 0 ts with
      | some (a, .punct q :: ts') =>
        if q = [')'] then some (.call1 nm a, ts')
        else if q = [','] then
          match parseB f 0 ts' with
          | some (b, .punct q' :: ts'') => if q' = [')'] then some (.call2 nm a b, ts'') else none
          | _ => none
        else none
      | _ => none

  /-- binary expression whose operators bind at least as strongly as `minp` (left associative) -/
  def parseB : Nat → Nat → List Tok → Option (CExpr × List Tok)
    | 0, _, _ => none
    | f + 1, minp, ts =>
      match parseU f ts with
      | some (lhs, ts') => climb f minp lhs ts'
      | none => none

  def climb : Nat → Nat → CExpr → List Tok → Option (CExpr × List Tok)
    | 0, _, lhs, ts => some (lhs, ts)
    | f + 1, minp, lhs, .punct op :: ts =>
      match binPrec op with
      | some p =>
        if minp ≤ p then
          match parseB f (p + 1) ts with
          | some (rhs, ts') => climb f minp (.bin op lhs rhs) ts'
          | none => none
        else some (lhs, .punct op :: ts)
      | none => some (lhs, .punct op :: ts)
    | _ + 1, _, lhs, ts => some (lhs, ts)
end

/-- the whole token sequence is one expression -/
def parseE (ts : List Tok) : Option CExpr :=
  match parseB (8 * ts.length + 16) 0 ts with
  | some (e, []) => some e
  | _ => none

/-! ## the emitted expression is the query's expression -/

/-- a (signed) numeric literal: (negated?, text of the literal) -/
def litOf : CExpr → Option (Bool × Str)
  | .num t => some (false, t)
  | .un op x =>
    if op = ['-'] then (litOf x).map fun p => (!p.1, p.2)
    else if op = ['+'] then litOf x
    else none
  | .cast _ _ => none
  | _ => none

/-- is the C++ expression of a floating type? (the loop variable's methods return `double`) -/
def cIsDouble : CExpr → Bool
  | .num t => (cppFloatLit t).isSome
  | .str _ => false
  | .name _ => false
  | .call0 _ => true
  | .call1 _ _ => true
  | .call2 _ _ _ => true
  | .cast ty _ => ty = sDouble
  | .un _ e => cIsDouble e
  | .bin op a b => (binPrec op).any (fun p => decide (3 ≤ p)) && (cIsDouble a || cIsDouble b)

def constMatches (c : PyConst) (x : CExpr) : Bool :=
  match c with
  | .str s => (match x with | .str v => v == s | _ => false)
  | .bool b => (match x with | .name [n] => n == (if b then "true".toList else "false".toList) | _ => false)
  | .other _ => false
  | c =>
    match litOf x with
    | some (neg, t) => decide (ConstOk c ((if neg then ['-'] else []) ++ t) (litTy c))
    | none => false

/-- `sameE fuel e x`: the parsed C++ expression `x` is the query's expression `e` — same operators
on the same operands, every constant denoted by a literal of its value and kind; parentheses are
gone after parsing, a `static_cast<double>` is transparent, a unary plus is the identity, and a
division must be a floating one (Python's `/`). -/
def sameE : Nat → OExpr → CExpr → Bool
  | 0, _, _ => false
  | f + 1, e, .cast ty x => ty = sDouble && sameE f e x
  | _ + 1, .leaf v _ m, x =>
    (match x with
     | .call0 (.name [v', sep, m']) => v' == v && m' == m && (sep == ['-', '>'] || sep == ['.'])
     | _ => false)
  | _ + 1, .const c, x => constMatches c x
  | f + 1, .un .pos e, x =>
    (match x with
     | .un op y => if op = ['+'] then sameE f e y else sameE f e x
     | _ => sameE f e x)
  | f + 1, .un .neg e, x =>
    (match x with
     | .un op y => op = ['-'] && sameE f e y
     | _ => false)
  | f + 1, .bin op a b, x =>
    (match x with
     | .bin o y z =>
       o == op.text && sameE f a y && sameE f b z && (op != .div || cIsDouble y || cIsDouble z)
     | _ => false)
  | f + 1, .pow a b, x =>
    (match x with
     | .call2 (.name nm) y z =>
       (nm == [sStd, [':', ':'], sPow] || nm == [sPow]) &&
       sameE f a y && sameE f b z
     | _ => false)
  | f + 1, .cmp op a b, x =>
    (match x with
     | .bin o y z => o == op.text && sameE f a y && sameE f b z
     | _ => false)

def OExpr.size : OExpr → Nat
  | .leaf .. => 1
  | .const _ => 1
  | .un _ e => e.size + 1
  | .bin _ a b => a.size + b.size + 1
  | .pow a b => a.size + b.size + 1
  | .cmp _ a b => a.size + b.size + 1

/-- THE PROPERTY for an operand expression: the emitted text is a sequence of C++ tokens (maximal
munch), these parse as one expression, and that expression is the query's. -/
def ExprOk (e : OExpr) (text : Str) : Prop :=
  match tokenize text with
  | some ts =>
    match parseE ts with
    | some x => sameE (2 * (e.size + ts.length) + 2) e x = true
    | none => False
  | none => False

instance (e : OExpr) (text : Str) : Decidable (ExprOk e text) := by
  unfold ExprOk
  split
  · split <;> exact inferInstance
  · exact inferInstance

/-! ## a constant's text in context -/

/-- the operators the translator writes directly before an operand: the three operator tables
regenerated from the source, the opening parenthesis, the comma -/
def emittedOps : List Str :=
  (Gen.binaryOps ++ Gen.unaryOps ++ Gen.compareOps).map String.toList ++ [['('], [',']]

/-- `ContextSafe text`: the text is a token sequence of its own, and directly after every operator
the translator emits (and before a closing parenthesis) it is still the same token sequence — no
juxtaposition forms a different token (`--`, `++`, `->`, `-=`, `.5` …). -/
def ContextSafe (text : Str) : Prop :=
  match tokenize text with
  | some ts =>
    ts ≠ [] ∧ ∀ op ∈ emittedOps, tokenize (op ++ text ++ [')']) = some (.punct op :: ts ++ [tRP])
  | none => False

instance (text : Str) : Decidable (ContextSafe text) := by
  unfold ContextSafe; split <;> exact inferInstance

/-- the expression a text is, when it is one (parentheses are gone in the tree): used by the tie to
compare the model's text with the implementation's up to redundant parentheses and blanks -/
def exprTree (text : Str) : Option CExpr := (tokenize text).bind parseE

/-- an operator after which an operand can be put: a punctuator of one or two characters other
than `.` -/
def OpOk (op : Str) : Bool :=
  match op with
  | [a] => punct1.contains a && a != '.'
  | [a, b] => punct2.contains (a, b) && a != '.'
  | _ => false

end FaxVerif.C18
