/-
C18 — constants in a query denote the same value in the generated code.

Two halves, both executable:

* the PYTHON side as it is now: `renderConst` mirrors `query_ast_visitor.visit_Constant`
  (common/ast_to_cpp_translator.py): `str` → `as_cpp_string_literal` (per-character table
  `Gen.escapeTable`, regenerated from the source on every run), `int` → `str(n)` typed `int`,
  `float` → `str(x)` (both in parentheses when negative; `str(x)` = CPython's `repr`, given here by its *text*: sign, digits, optional
  fraction, optional exponent; `inf`/`nan` are refused), `bool` → `true`/`false`, anything else
  refused; plus the lines in which names land (`renderSegs`: the booking / fill lines of the three
  backends, `Gen.bookLines`, where tree and branch names are copied between quotes verbatim).

* the C++ side: a lexer for the literals of the emitted subset — `lex` (string literal bodies with
  every escape sequence of the language), `detri` (translation phase 1 of ISO C++ before C++17:
  trigraphs), `cppIntLit` (decimal/octal/hex/binary, suffixes, the type a bare literal has under
  LP64), `cppFloatLit` (the exact decimal value `mant · 10^exp` and the type).

Also the way of a constant through a conditional expression (`Carrier`, `columnPaths`: mirror of
`visit_IfExp` + `statement.set_var` + the column declaration).

Strings are lists of Unicode scalar values (`Str`); the `String` wrappers are at the end.
No Mathlib/Batteries import.
-/
import FaxVerif.Generated.C18Tables
namespace FaxVerif.C18

abbrev Str := List Char

/-! ## shared vocabulary -/

/-- C++ types that occur (LP64 data model: `int` 32 bit, `long` = `long long` 64 bit). -/
inductive CTy where
  | int | uint | long | ulong | llong | ullong
  | float | double | ldouble
  | bool | string
  deriving DecidableEq, Repr

def CTy.name : CTy → String
  | .int => "int" | .uint => "unsigned int" | .long => "long" | .ulong => "unsigned long"
  | .llong => "long long" | .ullong => "unsigned long long"
  | .float => "float" | .double => "double" | .ldouble => "long double"
  | .bool => "bool" | .string => "string"

/-- an exact decimal number `(-1)^neg · mant · 10^exp` (the sign is kept for zero: `-0.0`) -/
structure Dec where
  neg : Bool
  mant : Nat
  exp : Int
  deriving DecidableEq, Repr

/-! ## digits -/

def digitChar (d : Nat) : Char := Char.ofNat (48 + d)
def isDigit (c : Char) : Bool := decide (48 ≤ c.toNat) && decide (c.toNat ≤ 57)
def digitVal (c : Char) : Nat := c.toNat - 48

/-- value of a run of decimal digits -/
def decVal (cs : Str) : Nat := cs.foldl (fun a c => a * 10 + digitVal c) 0

/-- `str(n)` for a natural number: decimal digits, most significant first, no leading zero.
The first argument is fuel (`n` itself is always enough). -/
def natDigits : Nat → Nat → Str
  | 0, n => [digitChar (n % 10)]
  | f + 1, n => if n < 10 then [digitChar n] else natDigits f (n / 10) ++ [digitChar (n % 10)]

def renderNat (n : Nat) : Str := natDigits n n

/-- Python's `str(n)` for an `int` -/
def renderInt : Int → Str
  | .ofNat n => renderNat n
  | .negSucc n => '-' :: renderNat (n + 1)

/-! ## Python side -/

/-- The text CPython's `repr` prints for a float, as structure (digits are `Fin 10`):
`[-]ddd[.ddd][e(+|-)dd]`, or `inf`, `-inf`, `nan`. -/
inductive FloatRepr where
  | finite (neg : Bool) (ip : List (Fin 10)) (fp : Option (List (Fin 10)))
      (ex : Option (Bool × List (Fin 10)))
  | inf (neg : Bool)
  | nan
  deriving DecidableEq, Repr

/-- a constant of a query -/
inductive PyConst where
  | str (s : Str)
  | int (n : Int)
  /-- a float: the text `repr` prints for it and its 64 bits (IEEE-754 binary64) -/
  | float (r : FloatRepr) (bits : Nat)
  | bool (b : Bool)
  /-- `None`, bytes, complex, Ellipsis, tuples … (by the name of the Python type) -/
  | other (tyName : String)
  deriving DecidableEq, Repr

inductive RErr where
  | nonFinite
  | unsupported (tyName : String)
  deriving DecidableEq, Repr

def digs (ds : List (Fin 10)) : Str := ds.map fun d => digitChar d.val
def valDigits (ds : List (Fin 10)) : Nat := ds.foldl (fun a d => a * 10 + d.val) 0

def renderFloat (neg : Bool) (ip : List (Fin 10)) (fp : Option (List (Fin 10)))
    (ex : Option (Bool × List (Fin 10))) : Str :=
  (if neg then ['-'] else []) ++ digs ip ++
  (match fp with | some f => '.' :: digs f | none => []) ++
  (match ex with | some (eneg, ed) => 'e' :: (if eneg then '-' else '+') :: digs ed | none => [])

/-- the decimal number the text of a finite `repr` denotes -/
def floatValue (neg : Bool) (ip : List (Fin 10)) (fp : Option (List (Fin 10)))
    (ex : Option (Bool × List (Fin 10))) : Dec :=
  let f := fp.getD []
  let e : Int := match ex with
    | some (eneg, ed) => if eneg then -(valDigits ed : Int) else (valDigits ed : Int)
    | none => 0
  { neg := neg, mant := valDigits (ip ++ f), exp := e - (f.length : Int) }

/-- the per-character table of `as_cpp_string_literal`, regenerated from the source -/
def pyTable : List (Char × Str) :=
  Gen.escapeTable.map fun p => (Char.ofNat p.1, p.2.map Char.ofNat)

/-- image of one character: `_cpp_string_escapes.get(c, c)` -/
def escOf (tbl : List (Char × Str)) (c : Char) : Str :=
  match tbl.lookup c with
  | some e => e
  | none => [c]

def renderBody (tbl : List (Char × Str)) : Str → Str
  | [] => []
  | c :: cs => escOf tbl c ++ renderBody tbl cs

/-- `as_cpp_string_literal(s)` = `'"' + "".join(table.get(c, c) for c in s) + '"'` -/
def renderStrL (tbl : List (Char × Str)) (s : Str) : Str := '"' :: (renderBody tbl s ++ ['"'])

/-- `_signed_literal` (since 212716c): a text that starts with `-` is put in parentheses, so that a
negative constant directly after a binary minus is not lexed as a decrement (`a--5`). -/
def signedLit (t : Str) : Str := if t.head? = some '-' then '(' :: (t ++ [')']) else t

/-- `visit_Constant`: text of the C++ expression and the type recorded for it, or the refusal. -/
def renderConst : PyConst → Except RErr (Str × CTy)
  | .str s => .ok (renderStrL pyTable s, .string)
  | .int n => .ok (signedLit (renderInt n), .int)
  | .float (.finite neg ip fp ex) _ => .ok (signedLit (renderFloat neg ip fp ex), .double)
  | .float _ _ => .error .nonFinite
  | .bool b => .ok (if b then "true".toList else "false".toList, .bool)
  | .other t => .error (.unsupported t)

/-! ### a constant that reaches the output through a temporary (conditional expressions)

`visit_IfExp` declares `double if_else_resultN;` and assigns each arm to it with `set_var`, which
writes `static_cast<double>(arm)` when the arm's recorded type is not `double`; the column that is
filled from an expression is declared with the type recorded for the expression and assigned from
it; an arm whose recorded type is `string` is refused (`Carrier.accepted`). A *carrier* is an expression whose value is one of its constants: a constant, or a
conditional expression between two carriers (the tests do not matter here). `columnPaths` lists,
for every constant of the carrier in source order, the C++ types it is converted to on its way
into the column (one entry per written cast and per variable assigned). -/

/-- the type `visit_Constant` records for a constant that has one -/
def litTy : PyConst → CTy
  | .str _ => .string
  | .int _ => .int
  | .float _ _ => .double
  | .bool _ => .bool
  | .other _ => .string

inductive Carrier where
  | const (c : PyConst)
  | ite (body orelse : Carrier)
  deriving Repr

/-- the type recorded for the carrier's representation: the constant's, `double` for a conditional -/
def Carrier.ty : Carrier → CTy
  | .const c => litTy c
  | .ite _ _ => .double

/-- `set_var(target : t, value : src)`: a written cast when the types differ, then the variable -/
def setVarSteps (t src : CTy) : List CTy := if src = t then [t] else [t, t]

def Carrier.paths : Carrier → List (PyConst × List CTy)
  | .const c => [(c, [])]
  | .ite a b =>
    (a.paths.map fun p => (p.1, p.2 ++ setVarSteps .double a.ty)) ++
    (b.paths.map fun p => (p.1, p.2 ++ setVarSteps .double b.ty))

/-- `visit_IfExp` (since 6a224ae) refuses an arm whose recorded type is `string` (ValueError): the
`double` result variable cannot hold it. A constant is accepted when `visit_Constant` accepts it. -/
def Carrier.accepted : Carrier → Bool
  | .const c => (renderConst c).toOption.isSome
  | .ite a b => a.ty != .string && b.ty != .string && a.accepted && b.accepted

/-- … and finally the column, declared with the carrier's type -/
def Carrier.columnPaths (k : Carrier) : List (PyConst × List CTy) :=
  k.paths.map fun p => (p.1, p.2 ++ [k.ty])

def Carrier.consts : Carrier → List PyConst
  | .const c => [c]
  | .ite a b => a.consts ++ b.consts

/-! ### lines in which names land -/

inductive Seg where
  | lit (t : Str)
  | tree | col          -- the name, copied verbatim
  | treeEsc | colEsc    -- the name as an escaped literal (with its quotes)
  | var
  | unrecognised (t : String)
  deriving DecidableEq, Repr

def Seg.ofPair (p : String × String) : Seg :=
  if p.1 = "lit" then .lit p.2.toList
  else if p.1 = "tree" then .tree else if p.1 = "col" then .col
  else if p.1 = "treeEsc" then .treeEsc else if p.1 = "colEsc" then .colEsc
  else if p.1 = "var" then .var
  else .unrecognised (p.1 ++ ":" ++ p.2)

def segTable (t : List (String × List (List (String × String)))) : List (String × List (List Seg)) :=
  t.map fun b => (b.1, b.2.map fun l => l.map Seg.ofPair)

def bookTable : List (String × List (List Seg)) := segTable Gen.bookLines
def fillTable : List (String × List (List Seg)) := segTable Gen.fillLines

def renderSeg (tbl : List (Char × Str)) (tree col var : Str) : Seg → Str
  | .lit t => t
  | .tree => tree
  | .col => col
  | .treeEsc => renderStrL tbl tree
  | .colEsc => renderStrL tbl col
  | .var => var
  | .unrecognised _ => []

def renderSegs (tbl : List (Char × Str)) (tree col var : Str) : List Seg → Str
  | [] => []
  | s :: ss => renderSeg tbl tree col var s ++ renderSegs tbl tree col var ss

/-- the collection-retrieval line after the whole-word substitution of `collection_name`
(cpp_ast.py `_replace_whole_words`): the text before, the rendered literal, the text after -/
def bankLine (tbl : List (Char × Str)) (pre suf : Str) (bank : Str) : Str :=
  pre ++ renderStrL tbl bank ++ suf

/-! ## C++ side: string literals -/

/-- simple escape sequences (the character after the backslash ↦ the character denoted) -/
def simpleEsc (e : Char) : Option Char :=
  if e = 'n' then some '\n' else if e = 't' then some '\t' else if e = 'r' then some '\r'
  else if e = '\\' then some '\\' else if e = '"' then some '"' else if e = '\'' then some '\''
  else if e = '?' then some '?' else if e = 'a' then some (Char.ofNat 7)
  else if e = 'b' then some (Char.ofNat 8) else if e = 'f' then some (Char.ofNat 12)
  else if e = 'v' then some (Char.ofNat 11) else none

def isOct (c : Char) : Bool := decide (48 ≤ c.toNat) && decide (c.toNat ≤ 55)

def hexVal (c : Char) : Option Nat :=
  let n := c.toNat
  if 48 ≤ n ∧ n ≤ 57 then some (n - 48)
  else if 97 ≤ n ∧ n ≤ 102 then some (n - 87)
  else if 65 ≤ n ∧ n ≤ 70 then some (n - 55)
  else none

/-- a physical end of line (GCC accepts LF, CR LF and a lone CR) -/
def isNewline (c : Char) : Bool := c = '\n' || c = '\r'

/-- lexer states inside a string literal -/
inductive St where
  | norm
  | esc                       -- just after a backslash
  | oct (k acc : Nat)         -- k octal digits read
  | hex (k acc : Nat)         -- after \x, k hex digits read
  | ucn (k acc : Nat)         -- \u / \U: k hex digits still to read
  deriving DecidableEq, Repr

abbrev LexRes := Option (Str × Str)

def pushC (c : Char) : LexRes → LexRes
  | some (v, r) => some (c :: v, r)
  | none => none

/-- a numeric escape denotes one code unit; this lexer only speaks about values below 128
(above, a code unit is a byte, not a character) -/
def pushUnit (n : Nat) (k : LexRes) : LexRes := if n < 128 then pushC (Char.ofNat n) k else none

/-- a universal-character-name denotes a Unicode scalar value -/
def pushUcn (n : Nat) (k : LexRes) : LexRes :=
  if n < 0xD800 ∨ (0xE000 ≤ n ∧ n < 0x110000) then pushC (Char.ofNat n) k else none

/-- what state `norm` does with the character `c` (followed by `r`), given the results of
lexing `r` in state `norm` and in state `esc` (used to STATE the unfolding lemma only: `lex` itself
branches first, so that only one of the two continuations is ever computed) -/
def onNorm (c : Char) (r : Str) (recNorm recEsc : LexRes) : LexRes :=
  if c = '"' then some ([], r)
  else if isNewline c then none
  else if c = '\\' then recEsc
  else pushC c recNorm

/-- Body of a string literal (the text after the opening quote): the characters it denotes and the
text after the closing quote; `none` when the literal is not terminated on the line or contains
an escape sequence that is not one of the language. -/
def lex : St → Str → LexRes
  | _, [] => none
  | .norm, c :: r =>
    if c = '"' then some ([], r)
    else if isNewline c then none
    else if c = '\\' then lex .esc r
    else pushC c (lex .norm r)
  | .esc, e :: r =>
    match simpleEsc e with
    | some v => pushC v (lex .norm r)
    | none =>
      if isOct e then lex (.oct 1 (digitVal e)) r
      else if e = 'x' then lex (.hex 0 0) r
      else if e = 'u' then lex (.ucn 4 0) r
      else if e = 'U' then lex (.ucn 8 0) r
      else none
  | .oct k acc, c :: r =>
    if k < 3 ∧ isOct c then lex (.oct (k + 1) (acc * 8 + digitVal c)) r
    else pushUnit acc
      (if c = '"' then some ([], r) else if isNewline c then none
       else if c = '\\' then lex .esc r else pushC c (lex .norm r))
  | .hex k acc, c :: r =>
    match hexVal c with
    | some h => lex (.hex (k + 1) (acc * 16 + h)) r
    | none =>
      if k = 0 then none
      else pushUnit acc
        (if c = '"' then some ([], r) else if isNewline c then none
         else if c = '\\' then lex .esc r else pushC c (lex .norm r))
  | .ucn k acc, c :: r =>
    match hexVal c with
    | some h =>
      if k = 1 then pushUcn (acc * 16 + h) (lex .norm r) else lex (.ucn (k - 1) (acc * 16 + h)) r
    | none => none

/-- a string literal at the head of the text: its value and the rest of the text -/
def cppStringLit : Str → LexRes
  | c :: r => if c = '"' then lex .norm r else none
  | [] => none

/-- the whole text is one string literal -/
def cppStringL (t : Str) : Option Str :=
  match cppStringLit t with
  | some (v, []) => some v
  | _ => none

/-- what a `const char*` / `std::string(const char*)` parameter receives: up to the first NUL -/
def cstrOf (v : Str) : Str := v.takeWhile fun c => c ≠ Char.ofNat 0

/-! ### translation phase 1 of ISO C++98/11/14 (`-std=c++NN` before 17, `-trigraphs`) -/

def triChar (c : Char) : Option Char :=
  if c = '=' then some '#' else if c = '/' then some '\\' else if c = '\'' then some '^'
  else if c = '(' then some '[' else if c = ')' then some ']' else if c = '!' then some '|'
  else if c = '<' then some '{' else if c = '>' then some '}' else if c = '-' then some '~'
  else none

/-- replace every trigraph, left to right -/
def detri : Str → Str
  | [] => []
  | c :: c₂ :: x :: rest' =>
    if c = '?' ∧ c₂ = '?' then
      match triChar x with
      | some t => t :: detri rest'
      | none => c :: detri (c₂ :: x :: rest')
    else c :: detri (c₂ :: x :: rest')
  | c :: rest => c :: detri rest

/-- does the text contain a trigraph? (`q` = number of `?` immediately before) -/
def triScan : Nat → Str → Bool
  | _, [] => false
  | q, c :: rest =>
    if c = '?' then triScan (q + 1) rest
    else (decide (2 ≤ q) && (triChar c).isSome) || triScan 0 rest

def hasTrigraph (s : Str) : Bool := triScan 0 s

def cppStringTriL (t : Str) : Option Str := cppStringL (detri t)

/-! ## C++ side: numbers -/

def spanDigits : Str → Str × Str
  | [] => ([], [])
  | c :: r =>
    if isDigit c then
      match spanDigits r with
      | (a, b) => (c :: a, b)
    else ([], c :: r)

/-- value of a run of digits in base `b` (`none` if a character is not a digit of that base) -/
def baseVal (b : Nat) : Str → Nat → Option Nat
  | [], a => some a
  | c :: r, a =>
    match hexVal c with
    | some h => if h < b then baseVal b r (a * b + h) else none
    | none => none

def lower (c : Char) : Char := if 65 ≤ c.toNat ∧ c.toNat ≤ 90 then Char.ofNat (c.toNat + 32) else c

/-- integer suffix: (unsigned?, 0 = none / 1 = l / 2 = ll) -/
def intSuffix (s : Str) : Option (Bool × Nat) :=
  let t := s.map lower
  if t = [] then some (false, 0)
  else if t = ['u'] then some (true, 0)
  else if t = ['l'] then some (false, 1)
  else if t = ['u', 'l'] ∨ t = ['l', 'u'] then some (true, 1)
  else if (s = ['l', 'l'] ∨ s = ['L', 'L']) then some (false, 2)
  else if t = ['u', 'l', 'l'] ∨ t = ['l', 'l', 'u'] then some (true, 2)
  else none

/-- the type of an integer literal ([lex.icon] table, LP64) -/
def intLitType (decimal : Bool) (suf : Bool × Nat) (v : Nat) : Option CTy :=
  let i := v < 2 ^ 31; let u := v < 2 ^ 32; let l := v < 2 ^ 63; let ul := v < 2 ^ 64
  match suf with
  | (false, 0) =>
    if decimal then (if i then some .int else if l then some .long else none)
    else (if i then some .int else if u then some .uint else if l then some .long
          else if ul then some .ulong else none)
  | (true, 0) => if u then some .uint else if ul then some .ulong else none
  | (false, 1) =>
    if decimal then (if l then some .long else none)
    else (if l then some .long else if ul then some .ulong else none)
  | (true, 1) => if ul then some .ulong else none
  | (false, _) =>
    if decimal then (if l then some .llong else none)
    else (if l then some .llong else if ul then some .ullong else none)
  | (true, _) => if ul then some .ullong else none

def isSuffixChar (c : Char) : Bool := lower c = 'u' || lower c = 'l'

def spanHex : Str → Str × Str
  | [] => ([], [])
  | c :: r =>
    if (hexVal c).isSome then
      match spanHex r with
      | (a, b) => (c :: a, b)
    else ([], c :: r)

/-- decimal literal: digits then suffix -/
def decLit (cs : Str) : Option (Nat × CTy) :=
  let p := spanDigits cs
  if p.1 = [] then none
  else match intSuffix p.2 with
    | some suf => (intLitType true suf (decVal p.1)).map fun t => (decVal p.1, t)
    | none => none

def baseLit (b : Nat) (cs : Str) : Option (Nat × CTy) :=
  let p := spanHex cs
  if p.1 = [] then none
  else match baseVal b p.1 0, intSuffix p.2 with
    | some v, some suf => (intLitType false suf v).map fun t => (v, t)
    | _, _ => none

/-- an integer literal: value and type; `none` when the text is not one or no type can hold it -/
def cppIntLit : Str → Option (Nat × CTy)
  | [] => none
  | c :: rest =>
    if c = '0' then
      match rest with
      | [] => some (0, .int)
      | x :: r =>
        if x = 'x' ∨ x = 'X' then baseLit 16 r
        else if x = 'b' ∨ x = 'B' then baseLit 2 r
        else if isSuffixChar x then decLit (c :: rest)   -- `0u`, `0L`: octal zero with suffix
        else baseLit 8 rest
    else decLit (c :: rest)

/-- an integer constant expression of the emitted form: an optional unary minus applied to a
literal (the type is the literal's: `-2147483648` is a `long`) -/
def cppIntL : Str → Option (Int × CTy)
  | '-' :: r => (cppIntLit r).map fun p => (-(p.1 : Int), p.2)
  | t => (cppIntLit t).map fun p => ((p.1 : Int), p.2)

def floatSuffix (s : Str) : Option CTy :=
  if s = [] then some .double
  else if s = ['f'] ∨ s = ['F'] then some .float
  else if s = ['l'] ∨ s = ['L'] then some .ldouble
  else none

/-- exponent part: `e`/`E`, optional sign, digits. Result: (exponent if present, rest);
`none` when an `e` is not followed by digits. -/
def lexExponent : Str → Option (Option Int × Str)
  | [] => some (none, [])
  | e :: r =>
    if e = 'e' ∨ e = 'E' then
      let sr : Bool × Str := match r with
        | s :: r' => if s = '-' then (true, r') else if s = '+' then (false, r') else (false, r)
        | [] => (false, r)
      let p := spanDigits sr.2
      if p.1 = [] then none
      else some (some (if sr.1 then -(decVal p.1 : Int) else (decVal p.1 : Int)), p.2)
    else some (none, e :: r)

/-- A decimal floating literal: its exact decimal value and its type. `none` when the text is not
a floating literal (in particular when it has neither `.` nor exponent: that is an integer). -/
def cppFloatLit (cs : Str) : Option (Dec × CTy) :=
  let p := spanDigits cs
  let dot : Bool := match p.2 with | c :: _ => c = '.' | [] => false
  let q := if dot then spanDigits p.2.tail else ([], p.2)
  if p.1 = [] ∧ q.1 = [] then none
  else match lexExponent q.2 with
    | none => none
    | some (ex, r) =>
      if !dot && ex.isNone then none
      else (floatSuffix r).map fun t =>
        ({ neg := false, mant := decVal (p.1 ++ q.1), exp := ex.getD 0 - (q.1.length : Int) }, t)

/-- optional unary minus applied to a floating literal -/
def cppFloatL : Str → Option (Dec × CTy)
  | '-' :: r => (cppFloatLit r).map fun p => ({ p.1 with neg := true }, p.2)
  | t => cppFloatLit t

/-- a parenthesised expression denotes what stands between the parentheses: one enclosing pair removed -/
def unparen (t : Str) : Str :=
  if t.head? = some '(' ∧ t.getLast? = some ')' then (t.drop 1).dropLast else t

/-- an integer literal, `-literal`, or either of them in parentheses -/
def cppIntE (t : Str) : Option (Int × CTy) := cppIntL (unparen t)

/-- a floating literal, `-literal`, or either of them in parentheses -/
def cppFloatE (t : Str) : Option (Dec × CTy) := cppFloatL (unparen t)

/-- `true` / `false` -/
def cppBoolL (t : Str) : Option Bool :=
  if t = "true".toList then some true else if t = "false".toList then some false else none

/-! ### one preprocessing number at the head of a text (to find where a numeric literal ends) -/

def isIdentChar (c : Char) : Bool :=
  isDigit c || (decide (97 ≤ c.toNat) && decide (c.toNat ≤ 122)) ||
  (decide (65 ≤ c.toNat) && decide (c.toNat ≤ 90)) || c = '_'

/-- pp-number continuation: identifier characters, `.`, and a sign directly after e/E/p/P -/
def ppRest : Char → Str → Str × Str
  | _, [] => ([], [])
  | prev, c :: r =>
    if isIdentChar c || c = '.' ||
       ((c = '+' || c = '-') && (prev = 'e' || prev = 'E' || prev = 'p' || prev = 'P')) then
      match ppRest c r with
      | (a, b) => (c :: a, b)
    else ([], c :: r)

/-- an optional `-`, then one pp-number or identifier-like token; (token text, rest) -/
def numToken : Str → Str × Str
  | '-' :: r =>
    match ppRest '-' r with
    | (a, b) => ('-' :: a, b)
  | t => ppRest ' ' t

/-- the same, or `(` token `)`: (text of the primary expression, rest) -/
def numTokenP (t : Str) : Str × Str :=
  if t.head? = some '(' then
    match numToken (t.drop 1) with
    | (tok, c :: rest) => if c = ')' then ('(' :: (tok ++ [')']), rest) else ([], t)
    | _ => ([], t)
  else numToken t

/-! ## `String` wrappers -/

def renderStr (s : String) : String := String.ofList (renderStrL pyTable s.toList)
def cppString (t : String) : Option String := (cppStringL t.toList).map String.ofList
def cppStringTri (t : String) : Option String := (cppStringTriL t.toList).map String.ofList
def cppInt (t : String) : Option (Int × CTy) := cppIntL t.toList
def cppFloat (t : String) : Option (Dec × CTy) := cppFloatL t.toList
def pyIntStr (n : Int) : String := String.ofList (renderInt n)

end FaxVerif.C18
