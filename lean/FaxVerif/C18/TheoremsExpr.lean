/-
C18 — property theorems: the rendered operand expression IS the query's expression (extension
round, after `TheoremsContext.lean`).

`TheoremsContext.lean` proved (T): the text is lexed into the intended tokens. Here the rest of (E):

    ∀ e, e.WF → ExprOk e (renderE e)                                                    -- (E)

`ExprOk` = tokenize (maximal munch) ∘ parse (C++ precedence) ∘ compare with the query (`sameE`: same
operators on the same operands, every constant denoted by a literal of its value and kind, a `/` is
a floating division). The technique for the parser is the one of C13/TextParse.lean (builder D1): a
key lemma by induction over the expression with an explicit fuel bound.

(E) is FALSE of the code as it stands for the same reason (★) of `Theorems.lean` is: an int constant
outside the 32-bit range is typed `int` (`exprok_int_counterexample`, the listed finding). It is
proved with that one defect exclusion (`exprok_model_partial`): ints of the 32-bit range; floats
given by a well-formed `repr` text that rounds to the float (the assumptions about CPython of
`const_ok_partial`); and the loop variable not spelled `static_cast` (a keyword: it is no Python
identifier a generated name can be — the translator's loop variables are `i_objN`).
-/
import FaxVerif.C18.ProofsExpr
import FaxVerif.C18.TheoremsContext
namespace FaxVerif.C18

/-- **The parser finds the intended structure**: for EVERY operand expression (any depth) the text
the translator writes, tokenized by maximal munch and parsed with C++ precedence and associativity,
is exactly the tree the renderer meant — the parentheses it writes are enough, no operator captures
an operand of its neighbour, `std::pow(a, b)` is a call with these two arguments, a sign in front
of `(…)` applies to the whole parenthesis. -/
theorem operand_parse (e : OExpr) (h : e.WF) (hk : e.NoKw) : exprTree (renderE e) = some (treeE e) := by
  unfold exprTree
  rw [operand_tokens e h]
  exact parseE_toksE e h hk

/-- Full statement (E) `∀ e, e.WF → ExprOk e (renderE e)` is false (`exprok_int_counterexample`).
PARTIAL — **the rendered expression is the query's expression**: for every operand expression (method
calls of the loop variable, constants, unary `+`/`-`, `+ - * / %`, `**`, comparisons; any depth)
whose int constants are in the 32-bit range (defect exclusion: the listed finding) and whose float
constants are given by a well-formed `repr` text that rounds to the float (assumptions about
CPython), what the translator writes is lexed, parsed and compared successfully: same operators on
the same operands, every constant denoted by a C++ literal of its value and kind (`ConstOk`), every
`/` a floating division (the `static_cast<double>` is there when both operands are `int`). -/
theorem exprok_model_partial (e : OExpr) (h : e.WF) (hk : e.NoKw) (hg : ∀ c ∈ e.consts, ConstGood c) :
    ExprOk e (renderE e) := by
  unfold ExprOk
  rw [operand_tokens e h]
  simp only
  rw [parseE_toksE e h hk]
  simp only
  exact sameE_tree e h hg _ (by have := need2_le e; omega)

/-- the excluded defect: `x - 3000000000` — the literal is a `long`, the translator records `int`
(`ConstOk` fails inside `ExprOk`); with 3 in its place the same expression is fine -/
theorem exprok_int_counterexample :
    ¬ ExprOk (.bin .sub (.leaf ['x'] true ['p', 't']) (.const (.int 3000000000)))
        (renderE (.bin .sub (.leaf ['x'] true ['p', 't']) (.const (.int 3000000000)))) ∧
    ExprOk (.bin .sub (.leaf ['x'] true ['p', 't']) (.const (.int 3)))
        (renderE (.bin .sub (.leaf ['x'] true ['p', 't']) (.const (.int 3)))) := by
  decide +kernel

/-- the hypothesis on the loop variable cannot be dropped for THIS parser (it reads `static_cast` as
the keyword it is in C++) -/
theorem exprok_keyword_counterexample :
    ¬ ExprOk (.leaf sStaticCast true ['p', 't']) (renderE (.leaf sStaticCast true ['p', 't'])) := by
  decide +kernel

/-! ## a string constant, at every place it can land -/

/-- **One string, every landing place.** For EVERY string `s` of a query, the literal the translator
writes for it (a) denotes `s` under both lexing dialects with the recorded type `string` (`ConstOk`);
(b) is `ContextSafe`: one string-literal token after every operator of the regenerated operator
tables, `(`, `,` and before `)` (argument and comparison positions); (c) as a bank name, in any
retrieval line, is found again with the untouched rest, both dialects; (d) inside the First()
message line likewise; (e) as a TREE name and (f) as a BRANCH name, in every booking / fill line of
the three backends as regenerated from the source on this run, the literal at the name's place
denotes exactly `s`, both dialects — whatever the other name and the leaf variable are. -/
theorem string_at_every_landing_place (s : Str) :
    ConstOk (.str s) (renderStrL pyTable s) .string ∧
    ContextSafe (renderStrL pyTable s) ∧
    (∀ pre suf : Str, cppStringLit ((bankLine pyTable pre suf s).drop pre.length) = some (s, suf) ∧
      cppStringLit (detri ((bankLine pyTable pre suf s).drop pre.length)) = some (s, detri suf)) ∧
    (∀ b ∈ bookTable ++ fillTable, ∀ segs ∈ b.2, ∀ (other var : Str) (off : Nat) (esc : Bool),
      (nameSlot segs = some (off, .tree, esc) →
        nameAt off (renderSegs pyTable s other var segs) = some s ∧
        nameAtTri off (renderSegs pyTable s other var segs) = some s) ∧
      (nameSlot segs = some (off, .col, esc) →
        nameAt off (renderSegs pyTable other s var segs) = some s ∧
        nameAtTri off (renderSegs pyTable other s var segs) = some s)) := by
  refine ⟨str_const_ok s, const_context_safe (.str s) trivial, ?_, ?_⟩
  · intro pre suf
    exact ⟨bank_roundtrip pre suf s, bank_roundtrip_trigraphs pre suf s⟩
  · intro b hb segs hs other var off esc
    constructor
    · intro hslot
      exact ⟨names_roundtrip b hb segs hs s other var off .tree esc hslot,
        names_roundtrip_trigraphs b hb segs hs s other var off .tree esc hslot⟩
    · intro hslot
      exact ⟨names_roundtrip b hb segs hs other s var off .col esc hslot,
        names_roundtrip_trigraphs b hb segs hs other s var off .col esc hslot⟩

/-! ## non-vacuity -/

example : subNegExample.WF ∧ subNegExample.NoKw :=
  ⟨by decide, ⟨by simp [OExpr.NoKw, sStaticCast], trivial⟩⟩
example : ∀ c ∈ subNegExample.consts, ConstGood c := by
  intro c hc
  simp only [subNegExample, OExpr.consts, List.nil_append, List.mem_singleton] at hc
  subst hc
  constructor
  · intro n h; cases h
  · intro r bits h
    cases h
    decide +kernel
example : treeE subNegExample =
    .bin ['-'] (.call0 (.name [['x'], ['-', '>'], ['p', 't']])) (.un ['-'] (.num "2.5e-07".toList)) := by decide

end FaxVerif.C18
