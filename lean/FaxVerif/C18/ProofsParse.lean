/-
C18 — the precedence parser of `Expr.lean` on the INTENDED token list of a rendered operand
expression, and the comparison `sameE` on the intended tree (technique of C13/TextParse.lean: a key
lemma by induction over the expression with an explicit fuel bound). Helper lemmas only.
-/
import FaxVerif.C18.ProofsContext
namespace FaxVerif.C18

/-! ## the tree the rendering is meant to have -/

def treeConst : PyConst → CExpr
  | .str s => .str s
  | .int (.ofNat n) => .num (renderNat n)
  | .int (.negSucc n) => .un ['-'] (.num (renderNat (n + 1)))
  | .float (.finite false ip fp ex) _ => .num (floatAbsText ip fp ex)
  | .float (.finite true ip fp ex) _ => .un ['-'] (.num (floatAbsText ip fp ex))
  | .float _ _ => .num []
  | .bool b => .name [if b then "true".toList else "false".toList]
  | .other _ => .num []

def treeE : OExpr → CExpr
  | .leaf v arrow m => .call0 (.name [v, if arrow then ['-', '>'] else ['.'], m])
  | .const c => treeConst c
  | .un op e => .un op.text (treeE e)
  | .bin op a b =>
    .bin op.text (if needsCast op a b then .cast sDouble (treeE a) else treeE a) (treeE b)
  | .pow a b => .call2 (.name [sStd, [':', ':'], sPow]) (treeE a) (treeE b)
  | .cmp op a b => .bin op.text (treeE a) (treeE b)

/-- what may follow an operand: nothing, or a punctuator that continues no name and opens no call -/
def stopHead : List Tok → Bool
  | [] => true
  | .punct s :: _ => s ≠ ['-', '>'] && s ≠ ['.'] && s ≠ [':', ':'] && s ≠ ['(']
  | _ => false

/-- no binary operator of the subset follows -/
def noBinHead : List Tok → Bool
  | .punct op :: _ => (binPrec op).isNone
  | _ => true

/-- first token of an operand -/
def startOk : List Tok → Bool
  | .punct s :: _ => s = ['(']
  | .id _ :: _ => true
  | .num _ :: _ => true
  | .str _ :: _ => true
  | [] => false

/-! ## one step of the parser -/

theorem parseU_num (f : Nat) (t : Str) (ts : List Tok) : parseU (f + 1) (.num t :: ts) = some (.num t, ts) := by
  simp [parseU]

theorem parseU_str (f : Nat) (v : Str) (ts : List Tok) : parseU (f + 1) (.str v :: ts) = some (.str v, ts) := by
  simp [parseU]

theorem parseU_paren (f : Nat) (ts : List Tok) (e : CExpr) (ts' : List Tok)
    (h : parseB f 0 ts = some (e, tRP :: ts')) : parseU (f + 1) (tLP :: ts) = some (e, ts') := by
  simp [parseU, h]

theorem parseU_sign (f : Nat) (p : Str) (ts : List Tok) (e : CExpr) (ts' : List Tok)
    (hp : p = ['-'] ∨ p = ['+']) (h : parseU f ts = some (e, ts')) :
    parseU (f + 1) (.punct p :: ts) = some (.un p e, ts') := by
  rcases hp with rfl | rfl <;> simp [parseU, h]

theorem parseU_cast (f : Nat) (ts : List Tok) (e : CExpr) (ts' : List Tok)
    (h : parseB f 0 ts = some (e, tRP :: ts')) :
    parseU (f + 1) (.id sStaticCast :: tLt :: .id sDouble :: tGt :: tLP :: ts) = some (.cast sDouble e, ts') := by
  simp [parseU, h]

theorem nameTail_stop (f : Nat) (ts : List Tok) (h : stopHead ts = true) : nameTail f ts = ([], ts) := by
  cases f with
  | zero => simp [nameTail]
  | succ f =>
    match ts, h with
    | [], _ => simp [nameTail]
    | [.punct s], _ => simp [nameTail]
    | .punct s :: .punct _ :: _, _ => simp [nameTail]
    | .punct s :: .num _ :: _, _ => simp [nameTail]
    | .punct s :: .str _ :: _, _ => simp [nameTail]
    | .punct s :: .id x :: r, h =>
      simp only [stopHead, Bool.and_eq_true, decide_eq_true_eq, ne_eq] at h
      simp [nameTail, h.1.1.1, h.1.1.2, h.1.2]

theorem parseU_name (f : Nat) (x : Str) (ts : List Tok) (hx : x ≠ sStaticCast) (hs : stopHead ts = true) :
    parseU (f + 1) (.id x :: ts) = some (.name [x], ts) := by
  simp only [parseU, hx, if_false, nameTail_stop f ts hs]
  match ts, hs with
  | [], _ => rfl
  | .punct s :: r, h =>
    simp only [stopHead, Bool.and_eq_true, decide_eq_true_eq, ne_eq] at h
    simp [h.2]

theorem parseU_leaf (f : Nat) (v sep m : Str) (rest : List Tok) (hv : v ≠ sStaticCast)
    (hsep : sep = ['-', '>'] ∨ sep = ['.']) :
    parseU (f + 2) (.id v :: .punct sep :: .id m :: tLP :: tRP :: rest) =
      some (.call0 (.name [v, sep, m]), rest) := by
  have ht : nameTail (f + 1) (.punct sep :: .id m :: tLP :: tRP :: rest) = ([sep, m], tLP :: tRP :: rest) := by
    have h0 : nameTail f (tLP :: tRP :: rest) = ([], tLP :: tRP :: rest) := by
      cases f <;> simp [nameTail]
    rcases hsep with rfl | rfl <;> simp [nameTail, h0]
  simp only [parseU, hv, if_false, ht]
  simp

theorem parseArgs_two (f : Nat) (nm a b : CExpr) (ts tsB rest : List Tok)
    (ha : parseB f 0 ts = some (a, tComma :: tsB)) (hb : parseB f 0 tsB = some (b, tRP :: rest)) :
    parseArgs (f + 1) nm ts = some (.call2 nm a b, rest) := by
  simp [parseArgs, ha, hb]

theorem parseU_pow (f : Nat) (A : List Tok) (a b : CExpr) (tsB rest : List Tok) (hA : startOk A = true)
    (ha : parseB f 0 A = some (a, tComma :: tsB)) (hb : parseB f 0 tsB = some (b, tRP :: rest)) :
    parseU (f + 2) (.id sStd :: tScope :: .id sPow :: tLP :: A) =
      some (.call2 (.name [sStd, [':', ':'], sPow]) a b, rest) := by
  have hstd : sStd ≠ sStaticCast := by decide
  have ht : nameTail (f + 1) (tScope :: .id sPow :: tLP :: A) = ([[':', ':'], sPow], tLP :: A) := by
    have h0 : nameTail f (tLP :: A) = ([], tLP :: A) := by
      cases f with
      | zero => simp [nameTail]
      | succ f =>
        match A, hA with
        | .punct s :: _, _ => simp [nameTail]
        | .id _ :: _, _ => simp [nameTail]
        | .num _ :: _, _ => simp [nameTail]
        | .str _ :: _, _ => simp [nameTail]
    simp [nameTail, h0]
  have hargs := parseArgs_two f (.name [sStd, [':', ':'], sPow]) a b A tsB rest ha hb
  simp only [parseU, hstd, if_false, ht]
  match A, hA with
  | .punct s :: r, h =>
    simp only [startOk, decide_eq_true_eq] at h
    subst h
    simpa using hargs
  | .id _ :: _, _ => simpa using hargs
  | .num _ :: _, _ => simpa using hargs
  | .str _ :: _, _ => simpa using hargs

theorem climb_stop (f minp : Nat) (x : CExpr) (rest : List Tok) (h : noBinHead rest = true) :
    climb f minp x rest = some (x, rest) := by
  cases f with
  | zero => simp [climb]
  | succ f =>
    match rest, h with
    | [], _ => simp [climb]
    | .punct op :: r, h =>
      simp only [noBinHead, Option.isNone_iff_eq_none] at h
      simp [climb, h]
    | .id _ :: _, _ => simp [climb]
    | .num _ :: _, _ => simp [climb]
    | .str _ :: _, _ => simp [climb]

theorem noBin_rparen (rest : List Tok) : noBinHead (tRP :: rest) = true := by
  simp only [noBinHead]; decide

theorem parseB_of_U (f minp : Nat) (ts : List Tok) (x : CExpr) (rest : List Tok)
    (h : parseU f ts = some (x, rest)) (hr : noBinHead rest = true) :
    parseB (f + 1) minp ts = some (x, rest) := by
  simp only [parseB, h]
  exact climb_stop f minp x rest hr

/-- `A op B )`: one binary operator between two operands, closed by a parenthesis -/
theorem parseB_bin (f p : Nat) (op : Str) (A B : List Tok) (x y : CExpr) (rest : List Tok)
    (hA : parseU (f + 2) A = some (x, .punct op :: B)) (hp : binPrec op = some p)
    (hB : parseU f B = some (y, tRP :: rest)) :
    parseB (f + 3) 0 A = some (.bin op x y, tRP :: rest) := by
  have hb := parseB_of_U f (p + 1) B y (tRP :: rest) hB (noBin_rparen rest)
  simp only [parseB, hA]
  show climb (f + 1 + 1) 0 x (.punct op :: B) = _
  simp only [climb, hp, Nat.zero_le, if_true, hb]
  have hrp : binPrec [')'] = none := by decide
  simp [hrp]

theorem paren_wrap (f : Nat) (A : List Tok) (x : CExpr) (rest : List Tok)
    (h : parseB f 0 A = some (x, tRP :: rest)) : parseU (f + 1) (tLP :: A) = some (x, rest) :=
  parseU_paren f A x rest h

/-! ## the key lemma: the parser returns the intended tree on the intended tokens -/

/-- the loop variable is not the keyword the parser treats specially -/
def OExpr.NoKw : OExpr → Prop
  | .leaf v _ _ => v ≠ sStaticCast
  | .const _ => True
  | .un _ e => e.NoKw
  | .bin _ a b => a.NoKw ∧ b.NoKw
  | .pow a b => a.NoKw ∧ b.NoKw
  | .cmp _ a b => a.NoKw ∧ b.NoKw

def OExpr.need : OExpr → Nat
  | .leaf .. => 8
  | .const _ => 8
  | .un _ e => e.need + 8
  | .bin _ a b => max a.need b.need + 8
  | .pow a b => max a.need b.need + 8
  | .cmp _ a b => max a.need b.need + 8

theorem noBin_comma (rest : List Tok) : noBinHead (tComma :: rest) = true := by
  simp only [noBinHead]; decide

theorem startOk_toksConst (c : PyConst) (hc : ConstWF c) (rest : List Tok) :
    startOk (toksConst c ++ rest) = true := by
  cases c with
  | str s => rfl
  | int n => cases n <;> rfl
  | float r bits =>
    cases r with
    | finite neg ip fp ex => cases neg <;> rfl
    | inf b => exact absurd hc.1 (by simp)
    | nan => exact absurd hc.1 (by simp)
  | bool b => rfl
  | other t => exact absurd hc (by simp [ConstWF])

theorem startOk_toksE (e : OExpr) (h : e.WF) (rest : List Tok) : startOk (toksE e ++ rest) = true := by
  cases e with
  | leaf v arrow m => rfl
  | const c => exact startOk_toksConst c h rest
  | un op e => rfl
  | bin op a b => rfl
  | pow a b => rfl
  | cmp op a b => rfl

/-- `(` `-` number `)` -/
theorem parse_neg_num (g : Nat) (d : Str) (rest : List Tok) :
    parseU (g + 4) (tLP :: tMinus :: .num d :: tRP :: rest) = some (.un ['-'] (.num d), rest) := by
  have h1 := parseU_num g d (tRP :: rest)
  have h2 := parseU_sign (g + 1) ['-'] _ _ _ (Or.inl rfl) h1
  have h3 := parseB_of_U (g + 2) 0 _ _ _ h2 (noBin_rparen rest)
  exact paren_wrap (g + 3) _ _ _ h3

theorem key_const (c : PyConst) (hc : ConstWF c) (g : Nat) (rest : List Tok) (hs : stopHead rest = true) :
    parseU (g + 8) (toksConst c ++ rest) = some (treeConst c, rest) := by
  cases c with
  | str s => exact parseU_str _ s rest
  | int n =>
    cases n with
    | ofNat m => exact parseU_num _ _ rest
    | negSucc m => exact parse_neg_num (g + 4) _ rest
  | float r bits =>
    cases r with
    | finite neg ip fp ex =>
      cases neg with
      | false => exact parseU_num _ _ rest
      | true => exact parse_neg_num (g + 4) _ rest
    | inf b => exact absurd hc.1 (by simp)
    | nan => exact absurd hc.1 (by simp)
  | bool b =>
    cases b with
    | true => exact parseU_name _ _ rest (by decide) hs
    | false => exact parseU_name _ _ rest (by decide) hs
  | other t => exact absurd hc (by simp [ConstWF])

theorem bop_prec (op : BOp) : ∃ p, binPrec op.text = some p := by cases op <;> exact ⟨_, rfl⟩
theorem cop_prec (op : COp) : ∃ p, binPrec op.text = some p := by cases op <;> exact ⟨_, rfl⟩
theorem bop_stop (op : BOp) (r : List Tok) : stopHead (.punct op.text :: r) = true := by cases op <;> rfl
theorem cop_stop (op : COp) (r : List Tok) : stopHead (.punct op.text :: r) = true := by cases op <;> rfl

theorem key (e : OExpr) : e.WF → e.NoKw → ∀ f, e.need ≤ f → ∀ rest, stopHead rest = true →
    parseU f (toksE e ++ rest) = some (treeE e, rest) := by
  induction e with
  | leaf v arrow m =>
    intro _ hk f hf rest _
    obtain ⟨g, rfl⟩ : ∃ g, f = g + 2 := ⟨f - 2, by simp only [OExpr.need] at hf; omega⟩
    simp only [toksE, treeE, List.cons_append, List.nil_append]
    exact parseU_leaf g v _ m rest hk (by cases arrow <;> simp)
  | const c =>
    intro h _ f hf rest hs
    obtain ⟨g, rfl⟩ : ∃ g, f = g + 8 := ⟨f - 8, by simp only [OExpr.need] at hf; omega⟩
    exact key_const c h g rest hs
  | un op e ih =>
    intro h hk f hf rest _
    simp only [OExpr.need] at hf
    obtain ⟨g, rfl⟩ : ∃ g, f = g + 8 := ⟨f - 8, by omega⟩
    simp only [toksE, treeE, List.cons_append, List.append_assoc, List.nil_append]
    have h1 := ih h hk (g + 3) (by omega) (tRP :: tRP :: rest) rfl
    have h2 := parseB_of_U _ 0 _ _ _ h1 (noBin_rparen _)
    have h3 := paren_wrap _ _ _ _ h2
    have h4 := parseU_sign _ op.text _ _ _ (by cases op <;> simp [UOp.text]) h3
    have h5 := parseB_of_U _ 0 _ _ _ h4 (noBin_rparen rest)
    exact paren_wrap _ _ _ _ h5
  | bin op a b iha ihb =>
    intro h hk f hf rest _
    obtain ⟨ha, hb⟩ := h
    obtain ⟨ka, kb⟩ := hk
    simp only [OExpr.need] at hf
    obtain ⟨g, rfl⟩ : ∃ g, f = g + 8 := ⟨f - 8, by omega⟩
    obtain ⟨p, hp⟩ := bop_prec op
    have h2 := ihb hb kb (g + 4) (by omega) (tRP :: rest) rfl
    by_cases hc : needsCast op a b = true
    · simp only [toksE, treeE, hc, if_true, castToks, List.cons_append, List.append_assoc, List.nil_append]
      have h0 := iha ha ka (g + 4) (by omega) (tRP :: .punct op.text :: (toksE b ++ tRP :: rest)) rfl
      have h0' := parseB_of_U _ 0 _ _ _ h0 (noBin_rparen _)
      have h1 := parseU_cast _ _ _ _ h0'
      have h3 := parseB_bin (g + 4) p op.text _ _ _ _ rest h1 hp h2
      exact paren_wrap _ _ _ _ h3
    · simp only [toksE, treeE, hc, Bool.false_eq_true, if_false, List.cons_append, List.append_assoc,
        List.nil_append]
      have h1 := iha ha ka (g + 6) (by omega) (.punct op.text :: (toksE b ++ tRP :: rest)) (bop_stop op _)
      have h3 := parseB_bin (g + 4) p op.text _ _ _ _ rest h1 hp h2
      exact paren_wrap _ _ _ _ h3
  | pow a b iha ihb =>
    intro h hk f hf rest _
    obtain ⟨ha, hb⟩ := h
    obtain ⟨ka, kb⟩ := hk
    simp only [OExpr.need] at hf
    obtain ⟨g, rfl⟩ : ∃ g, f = g + 8 := ⟨f - 8, by omega⟩
    simp only [toksE, treeE, powToks, List.cons_append, List.append_assoc, List.nil_append]
    have h1 := iha ha ka (g + 5) (by omega) (tComma :: (toksE b ++ tRP :: rest)) rfl
    have h1' := parseB_of_U _ 0 _ _ _ h1 (noBin_comma _)
    have h2 := ihb hb kb (g + 5) (by omega) (tRP :: rest) rfl
    have h2' := parseB_of_U _ 0 _ _ _ h2 (noBin_rparen rest)
    exact parseU_pow (g + 6) _ _ _ _ rest (startOk_toksE a ha _) h1' h2'
  | cmp op a b iha ihb =>
    intro h hk f hf rest _
    obtain ⟨ha, hb⟩ := h
    obtain ⟨ka, kb⟩ := hk
    simp only [OExpr.need] at hf
    obtain ⟨g, rfl⟩ : ∃ g, f = g + 8 := ⟨f - 8, by omega⟩
    obtain ⟨p, hp⟩ := cop_prec op
    have h2 := ihb hb kb (g + 4) (by omega) (tRP :: rest) rfl
    simp only [toksE, treeE, List.cons_append, List.append_assoc, List.nil_append]
    have h1 := iha ha ka (g + 6) (by omega) (.punct op.text :: (toksE b ++ tRP :: rest)) (cop_stop op _)
    have h3 := parseB_bin (g + 4) p op.text _ _ _ _ rest h1 hp h2
    exact paren_wrap _ _ _ _ h3

theorem toksE_length_pos (e : OExpr) (h : e.WF) : 1 ≤ (toksE e).length := by
  have := startOk_toksE e h []
  rw [List.append_nil] at this
  cases ht : toksE e with
  | nil => rw [ht] at this; cases this
  | cons t r => simp

theorem need_le (e : OExpr) (h : e.WF) : e.need ≤ 8 * (toksE e).length := by
  induction e with
  | leaf v arrow m => simp [OExpr.need, toksE]
  | const c => have := toksE_length_pos (.const c) h; simp only [OExpr.need]; omega
  | un op e ih =>
    have := ih h
    simp only [OExpr.need, toksE, List.length_cons, List.length_append, List.length_nil]; omega
  | bin op a b iha ihb =>
    have := iha h.1; have := ihb h.2
    simp only [OExpr.need, toksE]
    split <;> simp only [castToks, List.length_cons, List.length_append, List.length_nil] <;> omega
  | pow a b iha ihb =>
    have := iha h.1; have := ihb h.2
    simp only [OExpr.need, toksE, powToks, List.length_cons, List.length_append, List.length_nil]; omega
  | cmp op a b iha ihb =>
    have := iha h.1; have := ihb h.2
    simp only [OExpr.need, toksE, List.length_cons, List.length_append, List.length_nil]; omega

/-- the parser returns the intended tree on the intended tokens -/
theorem parseE_toksE (e : OExpr) (h : e.WF) (hk : e.NoKw) : parseE (toksE e) = some (treeE e) := by
  have hn := need_le e h
  have hkey := key e h hk (8 * (toksE e).length + 15) (by omega) [] rfl
  rw [List.append_nil] at hkey
  have hb := parseB_of_U _ 0 _ _ _ hkey rfl
  unfold parseE
  rw [hb]

end FaxVerif.C18
