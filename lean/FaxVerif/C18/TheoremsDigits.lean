/-
C18 — how many decimal digits a `double` literal needs (extension round).

`visit_Constant` writes a float as `str(value)` = CPython's shortest round-trip `repr`. The
alternative a maintainer might choose is a FIXED precision (`f"{value:.15g}"`, "a double holds
DBL_DIG = 15 digits" — the seeded changes C12-e2 / C18-e2). What precision is enough?

* ABSTRACT GRID MODEL (all of binary64, subnormals included; pure integer arithmetic, every quantity
  scaled by one common positive factor so that it is a natural number): a positive double is
  `X = m·U` with `U` its unit in the last place and `m < 2^53`; its neighbours are `X ± U` (below a
  power of two the lower neighbour is at `U/2`). A decimal with 17 significant digits is `A = D·T`
  with `D ≥ 10^16` and `T` its unit in the last decimal place; it is a correctly rounded 17-digit
  decimal of `X` (or closer) when `2·|A − X| ≤ T`.
  `seventeen_digits_round_trip`: then `A` lies strictly inside the rounding interval of `X` — a
  correctly rounding compiler reads it back as `X`. For ALL `X`, `U`, `T`, `D`. The reason is
  `2^53 < 10^16`. `seventeen_digits_round_trip_at_binade_boundary`: also where the lower
  neighbour is at half the distance.
  `fifteen_digits_do_not` : with `D ≥ 10^14` only, the conclusion is false (a counterexample on the
  grid), the reason being `10^14 < 2^53`.
* ON THE REAL ORACLE (`roundsTo` of Spec.lean, the exact-arithmetic rounding test the harness
  evaluates on the implementation's literals) — WITNESSES ONLY, kernel-decided, labelled as such:
  `seventeen_digit_witnesses` (the 17-digit texts of DBL_MAX, 0.1+0.2, 1/3, π, the smallest
  subnormal, the smallest normal, 1234567.1234567892 round to the very bits),
  `fifteen_digits_counterexample` / `sixteen_digits_counterexample` (the `.15g` / `.16g` texts of
  DBL_MAX and 0.1+0.2 round to a DIFFERENT double: `1.79769313486232e+308`, `0.3`) — replayed on the
  real code by the unit stream whenever a translator prints with fixed precision.
* THE GENERAL LINK (added): `roundsTo_of_grid` — the two strict comparisons of `roundsTo` ARE the grid
  inequalities `(2m−1)·H < A < (2m+1)·H` in the scaling `S = 2^(-min k (e-1))·5^(-min k 0)`;
  `seventeen_digits_roundsTo` — hence for every finite non-zero double that is not a binade boundary
  and every decimal with ≥ 17 significant digits within half a unit of its last place of it,
  `roundsTo` holds. NOT linked: the binade-boundary doubles (`m = 2^52`, `e > -1074`), where
  `roundsTo` makes its lower comparison in another scaling (`e-2`); for them only the grid theorem
  `seventeen_digits_round_trip_at_binade_boundary` and the witness 2.2250738585072014e-308 stand.
  Also not proved: that CPython's `repr` (or `%.17g`) produces a decimal within half a unit of its
  last place — that is `ReprFaithful`, checked per sampled float.
-/
import FaxVerif.C18.Spec
namespace FaxVerif.C18

/-! ## the grid model -/

/-- **17 significant digits always round-trip.** `X = m·U` a positive double (`m < 2^53`: normal or
subnormal), `A = D·T` a decimal with at least 17 significant digits (`D ≥ 10^16`) within half a unit
of its last place of `X`. Then `A` is strictly nearer to `X` than to the midpoints `X ± U/2`: a
correctly rounding conversion of `A` yields `X`. -/
theorem seventeen_digits_round_trip (X U T A D : Nat)
    (hX : X < 9007199254740992 * U)                    -- m < 2^53
    (hA : A = D * T) (hD : 10000000000000000 ≤ D)       -- 17 significant digits
    (hup : 2 * (A - X) ≤ T) (hdn : 2 * (X - A) ≤ T) :   -- |A − X| ≤ T/2
    2 * A < 2 * X + U ∧ 2 * X < 2 * A + U := by
  have hT : 10000000000000000 * T ≤ A := by
    rw [hA]; exact Nat.mul_le_mul_right T hD
  omega

/-- … and at a binade boundary (`X = 2^52·U`, a power of two: the double below it is at distance
`U/2`, the rounding interval reaches only `U/4` down): `A` is still strictly inside. -/
theorem seventeen_digits_round_trip_at_binade_boundary (X U T A D : Nat)
    (hU : 0 < U) (hX : X = 4503599627370496 * U)
    (hA : A = D * T) (hD : 10000000000000000 ≤ D)
    (hup : 2 * (A - X) ≤ T) (hdn : 2 * (X - A) ≤ T) :
    2 * A < 2 * X + U ∧ 4 * X < 4 * A + U := by
  have hT : 10000000000000000 * T ≤ A := by
    rw [hA]; exact Nat.mul_le_mul_right T hD
  omega

/-- the arithmetic fact behind it, and why 15 (or 16) digits are not enough -/
theorem digits_vs_bits : 2 ^ 53 < 10 ^ 16 ∧ 10 ^ 15 < 2 ^ 53 ∧ 10 ^ 14 < 2 ^ 53 := by decide

/-- **15 significant digits do not**: on the same grid, with `D ≥ 10^14` only, there are `X`, `A`
satisfying every hypothesis for which `A` is beyond the midpoint (it rounds to a different double):
the double `X = 9007199254740985` (`U = 1`, `m < 2^53`) and its nearest 15-digit decimal
`A = 900719925474099·10`. The full statement with 15 digits is FALSE. -/
theorem fifteen_digits_do_not :
    ∃ X U T A D : Nat, X < 9007199254740992 * U ∧ A = D * T ∧ 100000000000000 ≤ D ∧
      2 * (A - X) ≤ T ∧ 2 * (X - A) ≤ T ∧ ¬ (2 * A < 2 * X + U) :=
  ⟨9007199254740985, 1, 10, 9007199254740990, 900719925474099, by decide, by decide, by decide,
    by decide, by decide, by decide⟩

/-! ## on the real rounding oracle: witnesses -/

/-- the value of a floating literal text, for the examples -/
def litDec (t : String) : Dec := ((cppFloatL t.toList).map (·.1)).getD ⟨false, 0, 0⟩

/-- WITNESSES (kernel-decided instances, not a universal theorem): the 17-significant-digit texts
(`%.17g`) of DBL_MAX, 0.1+0.2, 1/3, π, the smallest subnormal, the smallest normal double (a binade
boundary) and 1234567.1234567892 round to exactly the bits of the double. -/
theorem seventeen_digit_witnesses :
    roundsTo (litDec "1.7976931348623157e+308") 9218868437227405311 = true ∧
    roundsTo (litDec "0.30000000000000004") 4599075939470750516 = true ∧
    roundsTo (litDec "0.33333333333333331") 4599676419421066581 = true ∧
    roundsTo (litDec "3.1415926535897931") 4614256656552045848 = true ∧
    roundsTo (litDec "4.9406564584124654e-324") 1 = true ∧
    roundsTo (litDec "2.2250738585072014e-308") 4503599627370496 = true ∧
    roundsTo (litDec "1234567.1234567892") 4698053237140020536 = true ∧
    roundsTo (litDec "2.4999999999999999e-07") 4508321993853365645 = true := by
  decide +kernel

/-- **15 digits: the counterexample on the real oracle** (the seeded changes C12-e2 / C18-e2,
`f"{value:.15g}"`): the 15-digit text of DBL_MAX is `1.79769313486232e+308`, of 0.1+0.2 it is `0.3`,
of 1/3 `0.333333333333333`, of the smallest normal double `2.2250738585072e-308`; none rounds to the
double it was printed from (`0.3` is a different double: …516 vs …515). -/
theorem fifteen_digits_counterexample :
    roundsTo (litDec "1.79769313486232e+308") 9218868437227405311 = false ∧
    roundsTo (litDec "0.3") 4599075939470750516 = false ∧
    roundsTo (litDec "0.3") 4599075939470750515 = true ∧
    roundsTo (litDec "0.333333333333333") 4599676419421066581 = false ∧
    roundsTo (litDec "2.2250738585072e-308") 4503599627370496 = false ∧
    roundsTo (litDec "1234567.12345679") 4698053237140020536 = false := by
  decide +kernel

/-- 16 digits are not enough either: `%.16g` of DBL_MAX, 0.1+0.2, 1234567.1234567892. -/
theorem sixteen_digits_counterexample :
    roundsTo (litDec "1.797693134862316e+308") 9218868437227405311 = false ∧
    roundsTo (litDec "0.3000000000000000") 4599075939470750516 = false ∧
    roundsTo (litDec "1234567.123456789") 4698053237140020536 = false ∧
    roundsTo (litDec "2.225073858507201e-308") 4503599627370496 = false := by
  decide +kernel

/-! ## the grid model and the real oracle: the general link -/

/-- one comparison of `roundsTo`, unfolded: both sides scaled by the common factor `2^(-k2)·5^(-k5)` -/
theorem cmpScaled_lt (a : Nat) (a2 a5 : Int) (b : Nat) (b2 b5 : Int) :
    cmpScaled a a2 a5 b b2 b5 = .lt ↔
      a * 2 ^ (a2 - min a2 b2).toNat * 5 ^ (a5 - min a5 b5).toNat <
      b * 2 ^ (b2 - min a2 b2).toNat * 5 ^ (b5 - min a5 b5).toNat := by
  simp only [cmpScaled]
  exact Nat.compare_eq_lt

theorem cmpScaled_gt (a : Nat) (a2 a5 : Int) (b : Nat) (b2 b5 : Int) :
    cmpScaled a a2 a5 b b2 b5 = .gt ↔
      b * 2 ^ (b2 - min a2 b2).toNat * 5 ^ (b5 - min a5 b5).toNat <
      a * 2 ^ (a2 - min a2 b2).toNat * 5 ^ (a5 - min a5 b5).toNat := by
  simp only [cmpScaled]
  exact Nat.compare_eq_gt

/-- the decimal unit, half the binary unit, and the decimal itself, all scaled by
`S = 2^(-min q.exp (e-1)) · 5^(-min q.exp 0)` -/
def gridT (q : Dec) (e : Int) : Nat := 2 ^ (q.exp - min q.exp (e - 1)).toNat * 5 ^ (q.exp - min q.exp 0).toNat
def gridH (q : Dec) (e : Int) : Nat := 2 ^ ((e - 1) - min q.exp (e - 1)).toNat * 5 ^ ((0 : Int) - min q.exp 0).toNat

theorem roundsTo_of_grid (q : Dec) (bits m : Nat) (e : Int)
    (hdec : decodeBits bits = some (q.neg, m, e)) (hm0 : m ≠ 0)
    (hnb : ¬ (m = 2 ^ 52 ∧ e > -1074))
    (hup : q.mant * gridT q e < (2 * m + 1) * gridH q e)
    (hlo : (2 * m - 1) * gridH q e < q.mant * gridT q e) :
    roundsTo q bits = true := by
  have h1 : cmpScaled q.mant q.exp q.exp (2 * m + 1) (e - 1) 0 = .lt := by
    rw [cmpScaled_lt]
    simpa [gridT, gridH, Nat.mul_assoc] using hup
  have h2 : cmpScaled q.mant q.exp q.exp (2 * m - 1) (e - 1) 0 = .gt := by
    rw [cmpScaled_gt]
    simpa [gridT, gridH, Nat.mul_assoc] using hlo
  have hb : (m == 2 ^ 52 && decide (e > -1074)) = false := by
    cases hx : (m == 2 ^ 52 && decide (e > -1074)) with
    | false => rfl
    | true =>
      simp only [Bool.and_eq_true, beq_iff_eq, decide_eq_true_eq] at hx
      exact absurd hx hnb
  have hm0' : (m == 0) = false := by simp [hm0]
  simp only [roundsTo, hdec, h1, h2, hb, hm0', beq_self_eq_true, Bool.true_or, Bool.false_eq_true, if_false,
    Bool.and_self]

theorem gridH_pos (q : Dec) (e : Int) : 0 < gridH q e := by
  unfold gridH
  exact Nat.mul_pos (Nat.pow_pos (by decide)) (Nat.pow_pos (by decide))

/-- **The grid theorem on the real oracle.** `bits` a finite non-zero double `m·2^e` that is not a
power of two with a smaller-spaced lower neighbour, `q` a decimal `D·10^k` with at least 17
significant digits (`D ≥ 10^16`) of the same sign, within half a unit of its last place of the
double — the distance being measured with both numbers multiplied by the common positive factor
`S = 2^(-min k (e-1))·5^(-min k 0)` so that they are natural numbers (`q ↦ D·gridT`, the double ↦
`2m·gridH`, the decimal unit ↦ `gridT`). Then `roundsTo q bits`: the oracle the harness applies to
the implementation's literals accepts `q` as a literal of that double. -/
theorem seventeen_digits_roundsTo (q : Dec) (bits m : Nat) (e : Int)
    (hdec : decodeBits bits = some (q.neg, m, e)) (hm0 : m ≠ 0) (hm : m < 2 ^ 53)
    (hnb : ¬ (m = 2 ^ 52 ∧ e > -1074))
    (hD : 10000000000000000 ≤ q.mant)
    (hup : 2 * (q.mant * gridT q e - 2 * m * gridH q e) ≤ gridT q e)
    (hdn : 2 * (2 * m * gridH q e - q.mant * gridT q e) ≤ gridT q e) :
    roundsTo q bits = true := by
  have hH := gridH_pos q e
  have hX : 2 * m * gridH q e < 9007199254740992 * (2 * gridH q e) := by
    have : 2 * m * gridH q e = m * (2 * gridH q e) := by
      rw [Nat.mul_comm 2 m, Nat.mul_assoc]
    rw [this]
    exact Nat.mul_lt_mul_of_pos_right (by simpa using hm) (by omega)
  obtain ⟨g1, g2⟩ := seventeen_digits_round_trip (2 * m * gridH q e) (2 * gridH q e) (gridT q e)
    (q.mant * gridT q e) q.mant hX rfl hD hup hdn
  have hP : 2 * m * gridH q e = 2 * (m * gridH q e) := Nat.mul_assoc 2 m _
  have hPH : gridH q e ≤ m * gridH q e := Nat.le_mul_of_pos_left _ (Nat.pos_of_ne_zero hm0)
  rw [hP] at g1 g2
  apply roundsTo_of_grid q bits m e hdec hm0 hnb
  · rw [Nat.add_mul, Nat.one_mul, hP]; omega
  · rw [Nat.sub_mul, Nat.one_mul, hP]; omega

/-- the hypotheses are satisfiable: 0.1 = 7205759403792794·2^-56 and its 17-digit decimal -/
example : roundsTo ⟨false, 10000000000000001, -17⟩ 4591870180066957722 = true :=
  seventeen_digits_roundsTo ⟨false, 10000000000000001, -17⟩ 4591870180066957722 7205759403792794 (-56)
    (by decide +kernel) (by decide) (by decide) (by decide) (by decide) (by decide +kernel) (by decide +kernel)

/-! ## non-vacuity of the grid theorem's hypotheses -/

-- 0.1 = 7205759403792794 · 2^-56; scaled by 2^56·10^17: U = 10^17, X = 7205759403792794·10^17,
-- the 17-digit decimal 0.10000000000000001 = 10000000000000001·10^-17 → T = 2^56, D = 10000000000000001
example : (7205759403792794 * 100000000000000000 : Nat) < 9007199254740992 * 100000000000000000 ∧
    (10000000000000000 : Nat) ≤ 10000000000000001 ∧
    2 * (10000000000000001 * 72057594037927936 - 7205759403792794 * 100000000000000000) ≤ 72057594037927936 := by
  decide

end FaxVerif.C18
