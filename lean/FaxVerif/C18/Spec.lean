/-
C18 — the property as decidable predicates over (constant of the query, what was emitted).

The same predicates are (a) the statements proved of the model in `Theorems.lean` and (b) the
oracle the harness evaluates, through the driver, on what the IMPLEMENTATION emitted.
"Denotes the same value" is judged by the C++ lexer of `Model.lean`, never by comparing texts.
-/
import FaxVerif.C18.Model
namespace FaxVerif.C18

/-! ## kinds and ranges -/

def InInt32 (n : Int) : Prop := -2147483648 ≤ n ∧ n < 2147483648
def InInt64 (n : Int) : Prop := -9223372036854775808 ≤ n ∧ n < 9223372036854775808
instance (n : Int) : Decidable (InInt32 n) := by unfold InInt32; exact inferInstance
instance (n : Int) : Decidable (InInt64 n) := by unfold InInt64; exact inferInstance

/-- can a variable of that C++ type hold the integer? -/
def fitsTy : CTy → Int → Bool
  | .int, n => decide (InInt32 n)
  | .uint, n => decide (0 ≤ n ∧ n < 4294967296)
  | .long, n => decide (InInt64 n)
  | .llong, n => decide (InInt64 n)
  | .ulong, n => decide (0 ≤ n ∧ n < 18446744073709551616)
  | .ullong, n => decide (0 ≤ n ∧ n < 18446744073709551616)
  | _, _ => false

/-- the text really is what `repr` prints for a finite float: digits before the point, non-empty
fraction / exponent digits when present, and at least one of the two (otherwise the text would
be an integer) -/
def WFRepr : FloatRepr → Prop
  | .finite _ ip fp ex =>
    ip ≠ [] ∧ fp ≠ some [] ∧ ex.map (·.2) ≠ some [] ∧ (fp.isSome = true ∨ ex.isSome = true)
  | _ => True

instance (r : FloatRepr) : Decidable (WFRepr r) := by
  unfold WFRepr; split <;> exact inferInstance

def wfReprB : FloatRepr → Bool
  | .finite _ ip fp ex =>
    !ip.isEmpty && (match fp with | some f => !f.isEmpty | none => true) &&
    (match ex with | some (_, e) => !e.isEmpty | none => true) && (fp.isSome || ex.isSome)
  | _ => true

/-- same number (and same sign, also for zero) -/
def Dec.same (a b : Dec) : Prop :=
  a.neg = b.neg ∧
  a.mant * 10 ^ (a.exp - min a.exp b.exp).toNat = b.mant * 10 ^ (b.exp - min a.exp b.exp).toNat
instance (a b : Dec) : Decidable (Dec.same a b) := by unfold Dec.same; exact inferInstance

/-! ## floats: the literal's decimal value rounds to the double the query held

"The literal denotes the float" means: a correctly rounding compiler turns its exact decimal value
into exactly the 64 bits the query held. Exact integer arithmetic, no floating point. -/

/-- the double with these 64 bits as (sign, m, e), value `m · 2^e`; `none` for inf/nan -/
def decodeBits (b : Nat) : Option (Bool × Nat × Int) :=
  let neg := b / 2 ^ 63 % 2 == 1
  let E : Nat := b / 2 ^ 52 % 2 ^ 11
  let F : Nat := b % 2 ^ 52
  if E == 2047 then none
  else if E == 0 then some (neg, F, -1074)
  else some (neg, 2 ^ 52 + F, (E : Int) - 1075)

/-- compare `a · 2^a2 · 5^a5` with `b · 2^b2 · 5^b5` -/
def cmpScaled (a : Nat) (a2 a5 : Int) (b : Nat) (b2 b5 : Int) : Ordering :=
  let m2 := min a2 b2
  let m5 := min a5 b5
  compare (a * 2 ^ (a2 - m2).toNat * 5 ^ (a5 - m5).toNat) (b * 2 ^ (b2 - m2).toNat * 5 ^ (b5 - m5).toNat)

/-- IEEE-754 binary64 round-to-nearest-even of the decimal `q` is the double with these bits. -/
def roundsTo (q : Dec) (bits : Nat) : Bool :=
  match decodeBits bits with
  | none => false
  | some (neg, m, e) =>
    let even := m % 2 == 0
    let up := cmpScaled q.mant q.exp q.exp (2 * m + 1) (e - 1) 0
    let upOk := up == .lt || (up == .eq && even)
    let lowOk :=
      if m == 0 then true
      else
        let lo :=
          if m == 2 ^ 52 && decide (e > -1074) then cmpScaled q.mant q.exp q.exp (4 * m - 1) (e - 2) 0
          else cmpScaled q.mant q.exp q.exp (2 * m - 1) (e - 1) 0
        lo == .gt || (lo == .eq && even)
    (q.neg == neg) && upOk && lowOk

/-- TRUSTED about CPython (checked by the harness on every sampled float, never proved): the text
`repr` prints for a float rounds back to that float. -/
def ReprFaithful : FloatRepr → Nat → Prop
  | .finite neg ip fp ex, bits => roundsTo (floatValue neg ip fp ex) bits = true
  | _, _ => True

instance (r : FloatRepr) (bits : Nat) : Decidable (ReprFaithful r bits) := by
  unfold ReprFaithful; split <;> exact inferInstance

/-! ## one constant: text and recorded type -/

/-- The emitted text is a C++ literal (or `-literal`, or one of them in parentheses) of the same value and kind as the constant,
and the type recorded for it can hold the value. A string literal has to denote the string under
both lexing dialects: C++17/GNU, and ISO C++ before 17 where trigraphs are replaced first. -/
def ConstOk (c : PyConst) (text : Str) (ty : CTy) : Prop :=
  match c with
  | .str s => cppStringL text = some s ∧ cppStringTriL text = some s ∧ ty = .string
  | .int n =>
    match cppIntE text with
    | some (v, t) => v = n ∧ fitsTy t n = true ∧ fitsTy ty n = true
    | none => False
  | .float (.finite ..) bits =>
    match cppFloatE text with
    | some (d, t) => roundsTo d bits = true ∧ t = .double ∧ ty = .double
    | none => False
  | .float _ _ => False
  | .bool b => cppBoolL text = some b ∧ ty = .bool
  | .other _ => False

instance (c : PyConst) (text : Str) (ty : CTy) : Decidable (ConstOk c text ty) := by
  unfold ConstOk
  split
  · exact inferInstance
  · split <;> exact inferInstance
  · split <;> exact inferInstance
  · exact inferInstance
  · exact inferInstance
  · exact inferInstance

/-- constants that have a C++ literal of their kind -/
def Representable : PyConst → Prop
  | .str _ => True
  | .int n => InInt64 n
  | .float (.finite ..) _ => True
  | .float _ _ => False
  | .bool _ => True
  | .other _ => False

instance (c : PyConst) : Decidable (Representable c) := by
  unfold Representable; split <;> exact inferInstance

/-- THE PROPERTY for one constant: what was emitted (`some (text, type)`) denotes it; a refusal
(`none`) is right exactly when the constant has no C++ literal of its kind. -/
def OutcomeOk (c : PyConst) (o : Option (Str × CTy)) : Prop :=
  match o with
  | some (text, ty) => ConstOk c text ty
  | none => ¬ Representable c

instance (c : PyConst) (o : Option (Str × CTy)) : Decidable (OutcomeOk c o) := by
  unfold OutcomeOk; split <;> exact inferInstance

/-! ## a numeric constant stored through variables and casts

A constant that is not used where it stands but assigned — to the result variable of a conditional
expression, to the output column — is converted to the declared type of every variable (and by
every written `static_cast`) on its way. "Denotes the same value" then also asks that the value
survives these conversions. The C++ conversions ([conv.integral], [conv.fpint], [conv.double],
[conv.bool]; LP64; binary64) are computed exactly, a double being given by its 64 bits. -/

/-- an arithmetic value of the generated program -/
inductive NVal where
  | int (n : Int)
  | dbl (bits : Nat)
  | bool (b : Bool)
  deriving DecidableEq, Repr

/-- the binary64 that is exactly the integer `n` (|n| < 2^53), by its bits -/
def intToDbl (n : Int) : Option Nat :=
  let a := n.natAbs
  if a = 0 then some 0
  else if a < 2 ^ 53 then
    let k := Nat.log2 a
    some ((if n < 0 then 2 ^ 63 else 0) + (k + 1023) * 2 ^ 52 + (a * 2 ^ (52 - k) - 2 ^ 52))
  else none

/-- truncation toward zero of a finite double -/
def dblToInt (bits : Nat) : Option Int :=
  match decodeBits bits with
  | none => none
  | some (neg, m, e) =>
    let a : Nat := if e ≥ 0 then m * 2 ^ e.toNat else m / 2 ^ (-e).toNat
    some (if neg then -(a : Int) else (a : Int))

/-- is the double (by its bits) also a binary32 value? (zero, or 24 significant bits and a normal
binary32 exponent) -/
def fitsFloat32 (bits : Nat) : Bool :=
  bits % 2 ^ 63 == 0 ||
  (bits % 2 ^ 29 == 0 && decide (897 ≤ bits / 2 ^ 52 % 2 ^ 11) && decide (bits / 2 ^ 52 % 2 ^ 11 ≤ 1150))

def isIntTy : CTy → Bool
  | .int | .uint | .long | .ulong | .llong | .ullong => true
  | _ => false

/-- The value after conversion to a variable (or cast) of type `t`; `none` when the conversion is
undefined, implementation-defined or inexact in a way this model does not compute (out-of-range
integers, a double that is not a binary32 value into `float`, `long double`, strings): in all
those cases the value is not kept. -/
def convTo (t : CTy) (v : NVal) : Option NVal :=
  match t, v with
  | .bool, .bool b => some (.bool b)
  | .bool, .int n => some (.bool (n != 0))
  | .bool, .dbl b => some (.bool (b % 2 ^ 63 != 0))
  | .double, .dbl b => some (.dbl b)
  | .double, .int n => (intToDbl n).map .dbl
  | .double, .bool b => some (.dbl (if b then 4607182418800017408 else 0))
  | .float, .dbl b => if fitsFloat32 b then some (.dbl b) else none
  | .float, .int n => (intToDbl n).bind fun b => if fitsFloat32 b then some (.dbl b) else none
  | .float, .bool b => some (.dbl (if b then 4607182418800017408 else 0))
  | .ldouble, _ => none
  | .string, _ => none
  | t, .int n => if isIntTy t && fitsTy t n then some (.int n) else none
  | t, .bool b => if isIntTy t then some (.int (if b then 1 else 0)) else none
  | t, .dbl b =>
    match dblToInt b with
    | some n => if isIntTy t && fitsTy t n then some (.int n) else none
    | none => none

def convChain : List CTy → NVal → Option NVal
  | [], v => some v
  | t :: ts, v => (convTo t v).bind (convChain ts)

/-- the program value a numeric constant is -/
def valOf : PyConst → Option NVal
  | .int n => some (.int n)
  | .float (.finite ..) bits => some (.dbl bits)
  | .bool b => some (.bool b)
  | _ => none

/-- numerically the same: two integers that are equal; otherwise the same double (an int `n` and
the double that is exactly `n`, `true` and 1; the sign of zero counts) -/
def sameNum : NVal → NVal → Bool
  | .int a, .int b => a == b
  | a, b =>
    match convTo .double a, convTo .double b with
    | some x, some y => x == y
    | _, _ => false

/-- the arithmetic value `v` is still `v` after the conversions of `chain` -/
def keptVal (v : NVal) (chain : List CTy) : Bool :=
  match convChain chain v with
  | some w => sameNum v w
  | none => false

/-- the value that arrives after the conversions of `chain` is still the constant (a string: only
through string variables — there is no conversion between strings and arithmetic types) -/
def keptThrough (c : PyConst) (chain : List CTy) : Bool :=
  match c with
  | .str _ => chain.all (· == .string)
  | _ =>
    match valOf c with
    | some v => keptVal v chain
    | none => false

/-- THE PROPERTY for a constant that is stored: the text assigned is a literal of the
constant (`ConstOk`, with the type `visit_Constant` records for its kind) and the value survives
the conversions to the types in `chain` (written casts and declared types of the variables it is
assigned through, in order, the output column last). -/
def StoredOk (c : PyConst) (text : Str) (chain : List CTy) : Prop :=
  ConstOk c text (litTy c) ∧ keptThrough c chain = true

instance (c : PyConst) (text : Str) (chain : List CTy) : Decidable (StoredOk c text chain) := by
  unfold StoredOk; exact inferInstance

/-- numeric constants the stored-value theorem speaks about: ints of the 32-bit range (larger ones
are the listed finding), finite floats whose `repr` text is well formed and faithful, bools -/
def StorableConst : PyConst → Prop
  | .int n => InInt32 n
  | .float (.finite neg ip fp ex) bits =>
    WFRepr (.finite neg ip fp ex) ∧ ReprFaithful (.finite neg ip fp ex) bits
  | .bool _ => True
  | _ => False

instance (c : PyConst) : Decidable (StorableConst c) := by
  unfold StorableConst; split <;> exact inferInstance

/-! ## strings: hypotheses of the partial results -/

/-- characters that end or escape inside a C++ string literal -/
def isSpecial (c : Char) : Bool := c = '"' || c = '\\' || isNewline c

/-- a name that can stand between quotes unescaped -/
def PlainName (s : Str) : Prop := s.all (fun c => !isSpecial c) = true
instance (s : Str) : Decidable (PlainName s) := by unfold PlainName; exact inferInstance

def NoNul (s : Str) : Prop := s.all (fun c => c ≠ Char.ofNat 0) = true
instance (s : Str) : Decidable (NoNul s) := by unfold NoNul; exact inferInstance

/-- the per-character table is sound for the lexer: every image is the character itself (and the
character is not special) or backslash + the letter of a simple escape sequence denoting it;
and the special characters all have an image. -/
def rowOk (p : Char × Str) : Bool :=
  (p.2 == [p.1] && !isSpecial p.1) ||
  (match p.2 with
   | [b, x] => b = '\\' && simpleEsc x == some p.1
   | _ => false)

def TableOk (tbl : List (Char × Str)) : Prop :=
  tbl.all rowOk = true ∧
  (tbl.lookup '"').isSome = true ∧ (tbl.lookup '\\').isSome = true ∧
  (tbl.lookup '\n').isSome = true ∧ (tbl.lookup '\r').isSome = true
instance (tbl : List (Char × Str)) : Decidable (TableOk tbl) := by unfold TableOk; exact inferInstance

/-! ## a constant at the head of a piece of a generated line -/

/-- If the text starts with a literal denoting the constant, the rest of the text. -/
def constAt (c : PyConst) (text : Str) : Option Str :=
  match c with
  | .str s =>
    match cppStringLit text, cppStringLit (detri text) with
    | some (v, rest), some (vt, _) => if v = s ∧ vt = s then some rest else none   -- both lexing dialects
    | _, _ => none
  | _ =>
    let p := numTokenP text
    if decide (ConstOk c p.1 (match c with | .int _ => .int | .float _ _ => .double | _ => .bool)) then some p.2
    else none

/-- Maximal munch: a text starting with `-` (resp. `+`) directly after a `-` (resp. `+`) is not
lexed as operator + signed literal but as the token `--` (`++`). -/
def glued (prev : Char) (text : Str) : Bool :=
  match text with
  | c :: _ => (prev = '-' && c = '-') || (prev = '+' && c = '+')
  | [] => false

/-- `constAt` for a literal that directly follows the character `prev` -/
def constAfter (prev : Char) (c : PyConst) (text : Str) : Option Str :=
  if glued prev text then none else constAt c text

/-! ## names inside the booking / fill lines -/

/-- concatenated leading constant text, and the segments after it -/
def litPrefix : List Seg → Str × List Seg
  | .lit t :: r =>
    match litPrefix r with
    | (a, b) => (t ++ a, b)
  | r => ([], r)

def Seg.isUnrecognised : Seg → Bool
  | .unrecognised _ => true
  | _ => false

/-- The (first) name of the line stands where a string literal is lexed: a verbatim name directly
between a quote that ends the preceding text and a quote that starts the following text; an
escaped name anywhere. Lines without a name are fine. -/
def BookLineOk (segs : List Seg) : Bool :=
  !segs.any Seg.isUnrecognised &&
  (match (litPrefix segs).2 with
   | [] => true
   | .tree :: .lit t :: _ => (litPrefix segs).1.getLast? == some '"' && t.head? == some '"'
   | .col :: .lit t :: _ => (litPrefix segs).1.getLast? == some '"' && t.head? == some '"'
   | .treeEsc :: _ => true
   | .colEsc :: _ => true
   | _ => false)

inductive NameKind where | tree | col
  deriving DecidableEq, Repr

def pickName (k : NameKind) (tree col : Str) : Str :=
  match k with
  | .tree => tree
  | .col => col

/-- where the literal holding the name starts in the rendered line, which name, and whether it
was escaped -/
def nameSlot (segs : List Seg) : Option (Nat × NameKind × Bool) :=
  match (litPrefix segs).2 with
  | .tree :: _ => some ((litPrefix segs).1.length - 1, .tree, false)
  | .col :: _ => some ((litPrefix segs).1.length - 1, .col, false)
  | .treeEsc :: _ => some ((litPrefix segs).1.length, .tree, true)
  | .colEsc :: _ => some ((litPrefix segs).1.length, .col, true)
  | _ => none

/-- the string literal found at the name's place in an emitted line -/
def nameAt (off : Nat) (line : Str) : Option Str :=
  (cppStringLit (line.drop off)).map (·.1)

/-- the same for a compiler that replaces trigraphs first (ISO C++ before C++17) -/
def nameAtTri (off : Nat) (line : Str) : Option Str :=
  (cppStringLit (detri (line.drop off))).map (·.1)

/-- the literal at the name's place of this line (if the line has one) denotes the name -/
def slotCarries (tbl : List (Char × Str)) (tree col var : Str) (segs : List Seg) : Bool :=
  match nameSlot segs with
  | some (off, k, _) => nameAt off (renderSegs tbl tree col var segs) == some (pickName k tree col)
  | none => true

/-- the line copies its name verbatim (no escaping) -/
def verbatimSlot (segs : List Seg) : Bool :=
  match nameSlot segs with
  | some (_, _, esc) => !esc
  | none => false

/-! ### all string literals of a line (a second, table-independent oracle for the harness)

`nameAt` looks at the place the regenerated table gives; if the emitters change shape so that the
table has no place for a name, this scan still says which strings a line carries. Character
literals are skipped. Used by the search only; not part of a theorem. -/

/-- skip a character literal body (after the opening `'`): the text after its closing `'` -/
def skipCharLit : Str → Option Str
  | [] => none
  | c :: r =>
    if c = '\'' then some r
    else if c = '\\' then (match r with | _ :: r' => skipCharLit r' | [] => none)
    else if isNewline c then none
    else skipCharLit r

/-- the values of all string literals of a line, in order; `none` if a literal does not lex -/
def lineStrings : Nat → Str → Option (List Str)
  | 0, _ => some []
  | _ + 1, [] => some []
  | f + 1, c :: r =>
    if c = '"' then
      match lex .norm r with
      | some (v, rest) => (lineStrings f rest).map (v :: ·)
      | none => none
    else if c = '\'' then
      match skipCharLit r with
      | some rest => lineStrings f rest
      | none => none
    else lineStrings f r

end FaxVerif.C18
