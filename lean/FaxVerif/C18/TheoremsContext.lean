/-
C18 — property theorems about a constant AS AN OPERAND (extension round).

"Denotes the same value" is a statement about the C++ program, and a C++ program is first of all a
sequence of TOKENS found by maximal munch: a literal that is right where it stands alone can be wrong
in place (`x - -2.5e-07` written `x--2.5e-07` is the decrement `--`). The full-strength statement,
for every operand expression `e` of a query (method calls of the loop variable, constants, unary
`+`/`-`, `+ - * / %`, `**`, comparisons — unbounded depth, every constant):

    ∀ e, e.WF → tokenize (renderE e) = some (toksE e)                                   -- (T)
    ∀ e, e.WF → ExprOk e (renderE e)                                                    -- (E)

(T): the text `visit_BinOp` / `visit_UnaryOp` / `visit_Compare` / `std::pow` / `visit_Constant`
write is lexed, by maximal munch, into exactly the tokens the renderer meant — no juxtaposition
anywhere in it forms a different token. PROVED (`operand_tokens`, `operand_tokens_in_context`).
(E) adds the parser (precedence) and the comparison with the query; it is the decidable Spec the
harness evaluates on the IMPLEMENTATION's text. Here it is shown on witnesses (`exprok_witnesses`,
kernel-decided); the universal statement (with the one defect exclusion of the ints) is
`exprok_model_partial` in `TheoremsExpr.lean`. The counterexample theorems show what (T)/(E) forbid:
`glued_sign_counterexample` is the seeded change C18-e1 and the repaired defect 212716c.

`ContextSafe` (Spec, evaluated on every constant text the implementation emits): the text of a
constant can be put after every operator of the translator's three operator tables (regenerated
from the source on every run: `emitted_ops_ok`), `(` and `,`, and before `)`, and is still lexed
into its own tokens. PROVED for every constant the renderer accepts (`const_context_safe`), hence
`ConstOk ∧ ContextSafe` (`const_ok_context_safe_partial`).

Also here: the type a decimal integer literal has, at every magnitude (`int_literal_type`).
-/
import FaxVerif.C18.ProofsContext
import FaxVerif.C18.Theorems
namespace FaxVerif.C18

/-! ## the operator tables regenerated from the source -/

/-- Every operator text of `_known_binary_operators`, `_known_unary_operators` and
`compare_operations`, as they are in the source now, is a C++ punctuator of one or two characters
(and not `.`): an operand can be put after it. Re-checked on every run. -/
theorem emitted_ops_ok : ∀ op ∈ emittedOps, OpOk op = true := by decide

/-- the model's operator texts ARE the source's tables (nothing missing, nothing extra) -/
theorem emitted_ops_are_the_models :
    (Gen.binaryOps.map String.toList).all (fun o => [BOp.add, .sub, .mul, .div, .mod].any (·.text == o)) = true ∧
    [BOp.add, .sub, .mul, .div, .mod].all (fun b => (Gen.binaryOps.map String.toList).contains b.text) = true ∧
    [COp.lt, .le, .gt, .ge, .eq, .ne].all (fun b => (Gen.compareOps.map String.toList).contains b.text) = true ∧
    (Gen.compareOps.map String.toList).all (fun o => [COp.lt, .le, .gt, .ge, .eq, .ne].any (·.text == o)) = true ∧
    [UOp.neg, .pos].all (fun b => (Gen.unaryOps.map String.toList).contains b.text) = true := by decide

/-! ## (T) tokenization is a homomorphism on the rendered expression -/

/-- **No juxtaposition in a rendered expression forms a different token.** For EVERY operand
expression (any depth, any constants the renderer accepts: all strings, all ints, every finite
float given by a well-formed `repr` text, bools; loop variable and method any identifiers), the text
the translator writes is lexed by maximal munch into exactly the tokens it was built from: every
sign, operator, parenthesis, number, name and string literal is a token of its own. In particular a
negative constant after `-` is `-`, `(`, `-`, number, `)` and never `--`. -/
theorem operand_tokens (e : OExpr) (h : e.WF) : tokenize (renderE e) = some (toksE e) := by
  have := lexes_renderE e h [] [] tailOK_nil Lexes.nil
  simp only [List.append_nil] at this
  exact tokenize_of_lexes this

/-- … and in any context that starts like the text after an operand (`)`, `,`, `;`, a blank, an
operator): the expression's tokens, then the context's. -/
theorem operand_tokens_in_context (e : OExpr) (h : e.WF) (tl : Str) (ts : List Tok)
    (ht : ∀ c r, tl = c :: r → isTailStart c = true) (hl : tokenize tl = some ts → Lexes tl ts)
    (htok : tokenize tl = some ts) : tokenize (renderE e ++ tl) = some (toksE e ++ ts) :=
  tokenize_of_lexes (lexes_renderE e h tl ts ht (hl htok))

/-- the same, stated with the relation (no side condition on how `tl` was lexed) -/
theorem operand_lexes_in_context (e : OExpr) (h : e.WF) (tl : Str) (ts : List Tok)
    (ht : ∀ c r, tl = c :: r → isTailStart c = true) (hl : Lexes tl ts) :
    Lexes (renderE e ++ tl) (toksE e ++ ts) := lexes_renderE e h tl ts ht hl

/-! ## `ContextSafe` -/

theorem toksConst_ne_nil (c : PyConst) (hc : ConstWF c) : toksConst c ≠ [] := by
  cases c with
  | str s => simp [toksConst]
  | int n => cases n <;> simp [toksConst]
  | float r bits =>
    cases r with
    | finite neg ip fp ex => cases neg <;> simp [toksConst]
    | inf b => exact absurd hc.1 (by simp)
    | nan => exact absurd hc.1 (by simp)
  | bool b => simp [toksConst]
  | other t => exact absurd hc (by simp [ConstWF])

/-- **The text of every constant is context safe**: whatever constant `visit_Constant` accepts,
its text is a token sequence of its own, and directly after every operator the translator emits
(its three operator tables as they are in the source now, `(`, `,`) and before `)` it is lexed
into the same tokens — no `--`, `++`, `-=`, `->`, `.5` can form. -/
theorem const_context_safe (c : PyConst) (hc : ConstWF c) : ContextSafe (constText c) := by
  have h0 := lexes_const c hc [] [] tailOK_nil Lexes.nil
  simp only [List.append_nil] at h0
  unfold ContextSafe
  rw [tokenize_of_lexes h0]
  refine ⟨toksConst_ne_nil c hc, ?_⟩
  intro op hop
  have h1 := lexes_const c hc [')'] [tRP] (tailOK_cons [] tailStart_rparen)
    (lexes_solo ')' solo_rparen (by decide) [] [] Lexes.nil)
  obtain ⟨a, r, hh, ha⟩ := constText_head c hc
  rw [hh] at h1
  have h2 := lexes_op op (emitted_ops_ok op hop) a (r ++ [')']) (opStart_not_ext ha) _ h1
  rw [List.append_assoc, hh]
  exact tokenize_of_lexes h2

/-- `ConstOk` extended by `ContextSafe`, for the model's output: what `visit_Constant` emits denotes
the constant AND can stand after any emitted operator. PARTIAL in the ints only (32-bit range — the
listed finding of `visit_Constant`; `ContextSafe` itself holds for every int). -/
theorem const_ok_context_safe_partial (c : PyConst) (hint : ∀ n, c = .int n → InInt32 n)
    (hfl : ∀ r bits, c = .float r bits → WFRepr r ∧ ReprFaithful r bits)
    (text : Str) (ty : CTy) (hr : renderConst c = .ok (text, ty)) :
    ConstOk c text ty ∧ ContextSafe text := by
  have hok := const_ok_partial c hint hfl
  rw [hr] at hok
  refine ⟨hok, ?_⟩
  have hwf : ConstWF c := by
    cases c with
    | str s => trivial
    | int n => trivial
    | float r bits =>
      cases r with
      | finite neg ip fp ex => exact ⟨trivial, (hfl _ _ rfl).1⟩
      | inf b => simp [renderConst] at hr
      | nan => simp [renderConst] at hr
    | bool b => trivial
    | other t => simp [renderConst] at hr
  have := const_context_safe c hwf
  simpa [constText, hr] using this

/-! ## what (T) and (E) forbid; (E) on witnesses -/

/-- the query `x.pt() - -2.5e-07` as the Python parser delivers it: `Sub(pt, USub(2.5e-07))` -/
def subNegExample : OExpr :=
  .bin .sub (.leaf ['x'] true ['p', 't'])
    (.un .neg (.const (.float (.finite false [2] (some [5]) (some (true, [0, 7]))) 4508321993853365645)))

/-- **A sign written directly after the operator is a different program** (the seeded change C18-e1,
and with `-5` as one node the repaired defect 212716c): in `(x->pt()--2.5e-07)` the lexer finds the
decrement `--`; the text is not an expression of the query's shape (`ExprOk` fails; g++: "lvalue
required as decrement operand"), and the bare `-2.5e-07` / `-5` is not `ContextSafe`. The
renderer's own text for the same query is `(x->pt()-(-(2.5e-07)))`, lexed sign by sign, and is the
query's expression. -/
theorem glued_sign_counterexample :
    tokenize "(x->pt()--2.5e-07)".toList =
      some [tLP, .id ['x'], .punct ['-', '>'], .id ['p', 't'], tLP, tRP, .punct ['-', '-'],
            .num "2.5e-07".toList, tRP] ∧
    ¬ ExprOk subNegExample "(x->pt()--2.5e-07)".toList ∧
    ¬ ContextSafe "-2.5e-07".toList ∧ ¬ ContextSafe "-5".toList ∧
    renderE subNegExample = "(x->pt()-(-(2.5e-07)))".toList ∧
    ExprOk subNegExample (renderE subNegExample) ∧
    ExprOk subNegExample "(x->pt() - -2.5e-07)".toList ∧
    ExprOk (.bin .sub (.leaf ['x'] true ['p', 't']) (.const (.int (-5)))) "(x->pt()-(-5))".toList ∧
    ¬ ExprOk (.bin .sub (.leaf ['x'] true ['p', 't']) (.const (.int (-5)))) "(x->pt()--5)".toList := by
  decide +kernel

/-- (E) ON WITNESSES ONLY (kernel-decided instances, not a universal theorem): the renderer's text is
the query's expression for a unary minus under `**`, an int/int division (the cast is needed: without
it the C++ division is an integer one and `ExprOk` fails), a comparison of a difference, a product of
a negative node and a sum; and `ExprOk` rejects a changed constant, a changed operator and a
regrouping. -/
theorem exprok_witnesses :
    ExprOk (.pow (.un .neg (.const (.float (.finite false [1] (some [5]) none) 4609434218613702656))) (.const (.int 2)))
      (renderE (.pow (.un .neg (.const (.float (.finite false [1] (some [5]) none) 4609434218613702656))) (.const (.int 2)))) ∧
    renderE (.bin .div (.const (.int 5)) (.const (.int 2))) = "(static_cast<double>(5)/2)".toList ∧
    ExprOk (.bin .div (.const (.int 5)) (.const (.int 2))) "(static_cast<double>(5)/2)".toList ∧
    ¬ ExprOk (.bin .div (.const (.int 5)) (.const (.int 2))) "(5/2)".toList ∧
    ExprOk (.cmp .gt (.bin .sub (.leaf ['j'] false ['e', 't', 'a']) (.const (.int (-3)))) (.const (.int 0)))
      "((j.eta()-(-3))>0)".toList ∧
    ExprOk (.bin .mul (.const (.int (-3))) (.bin .add (.leaf ['j'] true ['p', 't']) (.const (.int 1))))
      "((-3)*(j->pt()+1))".toList ∧
    ¬ ExprOk (.bin .mul (.const (.int (-3))) (.bin .add (.leaf ['j'] true ['p', 't']) (.const (.int 1))))
      "(-3*j->pt()+1)".toList ∧
    ¬ ExprOk (.bin .sub (.leaf ['x'] true ['p', 't']) (.const (.int 5))) "(x->pt()-6)".toList ∧
    ¬ ExprOk (.bin .sub (.leaf ['x'] true ['p', 't']) (.const (.int 5))) "(x->pt()+5)".toList ∧
    ExprOk (.bin .sub (.leaf ['x'] true ['p', 't']) (.const (.int 5))) "x->pt() - 5".toList := by
  decide +kernel

/-! ## the type of a decimal integer literal, at every magnitude -/

/-- **Integer literal typing boundaries** (LP64, [lex.icon]): the decimal literal Python's `str(n)`
is for a natural number has type `int` below 2^31, `long` from 2^31 up to 2^63 - 1, and NO type from
2^63 on (ill-formed) — for every `n`. The translator records `int` for every int constant: right
exactly below 2^31 (and for `-2^31`, whose literal `2147483648` is a `long` negated:
`int_const_ok_partial`). -/
theorem int_literal_type (n : Nat) :
    (cppIntLit (renderNat n)).map (·.2) =
      if n < 2 ^ 31 then some .int else if n < 2 ^ 63 then some .long else none := by
  rw [cppIntLit_renderNat, intLitType_dec]
  by_cases h1 : n < 2 ^ 31
  · simp [h1]
  · by_cases h2 : n < 2 ^ 63 <;> simp [h1, h2]

/-- at the boundaries themselves -/
theorem int_literal_type_boundaries :
    cppInt "2147483647" = some (2147483647, .int) ∧ cppInt "2147483648" = some (2147483648, .long) ∧
    cppInt "-2147483648" = some (-2147483648, .long) ∧
    cppInt "9223372036854775807" = some (9223372036854775807, .long) ∧
    cppInt "9223372036854775808" = none ∧ cppInt "4294967295" = some (4294967295, .long) ∧
    cppInt "0xFFFFFFFF" = some (4294967295, .uint) ∧ cppInt "2147483648u" = some (2147483648, .uint) := by
  decide +kernel

/-! ## the First() message -/

/-- **The First() message.** The run-time check of `First()` is emitted as
`throw std::runtime_error(` + the escaped literal of the message + `);`, the message being the text
of the query — with every string constant of it (bank names …). Whatever the message is, lexing from
the place of the literal returns exactly the message and the untouched `);` — under C++17 lexing and
under trigraph replacement. (Before the repair ce7402e the message was put between quotes unescaped.) -/
theorem first_message_roundtrip (msg : Str) :
    cppStringLit (("throw std::runtime_error(".toList ++ renderStrL pyTable msg ++ ");".toList).drop
      "throw std::runtime_error(".toList.length) = some (msg, ");".toList) ∧
    cppStringLit (detri (("throw std::runtime_error(".toList ++ renderStrL pyTable msg ++ ");".toList).drop
      "throw std::runtime_error(".toList.length)) = some (msg, ");".toList) := by
  have h := bank_roundtrip "throw std::runtime_error(".toList ");".toList msg
  have ht := bank_roundtrip_trigraphs "throw std::runtime_error(".toList ");".toList msg
  have hd : detri ");".toList = ");".toList := by decide
  rw [hd] at ht
  exact ⟨h, ht⟩

/-! ## non-vacuity -/

example : subNegExample.WF := by decide
example : (OExpr.pow (.leaf "i_obj1".toList true "pt".toList) (.const (.str "a\"b".toList))).WF := by decide
example : toksE subNegExample =
    [tLP, .id ['x'], .punct ['-', '>'], .id ['p', 't'], tLP, tRP, tMinus, tLP, tMinus, tLP,
     .num "2.5e-07".toList, tRP, tRP, tRP] := by decide
example : ContextSafe "(-5)".toList ∧ ContextSafe "2.5e-07".toList ∧ ContextSafe "\"a\\\"b\"".toList ∧
    ContextSafe "true".toList ∧ ¬ ContextSafe "=5".toList ∧ ¬ ContextSafe "+5".toList := by decide +kernel
example : emittedOps.length = 16 := by decide

end FaxVerif.C18
