/-
C18 — `sameE` on the intended tree of a rendered operand expression: every constant is matched by
its literal (`ConstOk`), a `/` is a floating division. Helper lemmas; the property theorems are in
`TheoremsExpr.lean`.
-/
import FaxVerif.C18.ProofsParse
import FaxVerif.C18.Theorems
namespace FaxVerif.C18

/-! ## constants -/

theorem unparen_plain (t : Str) (h : t.head? ≠ some '(') : unparen t = t := by
  simp [unparen, h]

theorem cppIntE_plain (n : Int) : cppIntE (renderInt n) = cppIntE (signedLit (renderInt n)) := by
  rw [cppIntE_signed]; unfold cppIntE; rw [unparen_plain _ (renderInt_head n)]

theorem cppFloatE_plain (neg : Bool) (ip : List (Fin 10)) (fp : Option (List (Fin 10)))
    (ex : Option (Bool × List (Fin 10))) (hip : ip ≠ []) :
    cppFloatE (renderFloat neg ip fp ex) = cppFloatE (signedLit (renderFloat neg ip fp ex)) := by
  rw [cppFloatE_signed neg ip fp ex hip]; unfold cppFloatE
  rw [unparen_plain _ (renderFloat_head neg ip fp ex hip)]

/-- the plain text `str(n)` (no parentheses) denotes the int as well as the parenthesised one -/
theorem int_const_ok_plain (n : Int) (h : InInt32 n) : ConstOk (.int n) (renderInt n) .int := by
  have := int_const_ok_partial n h
  unfold ConstOk at this ⊢
  rw [cppIntE_plain]
  exact this

theorem float_const_ok_plain (neg : Bool) (ip : List (Fin 10)) (fp : Option (List (Fin 10)))
    (ex : Option (Bool × List (Fin 10))) (bits : Nat) (wf : WFRepr (.finite neg ip fp ex))
    (hr : ReprFaithful (.finite neg ip fp ex) bits) :
    ConstOk (.float (.finite neg ip fp ex) bits) (renderFloat neg ip fp ex) .double := by
  have := float_const_ok neg ip fp ex bits wf hr
  unfold ConstOk at this ⊢
  rw [cppFloatE_plain neg ip fp ex wf.1]
  exact this

/-- the hypotheses under which `visit_Constant`'s literal denotes the constant (`const_ok_partial`) -/
def ConstGood (c : PyConst) : Prop :=
  (∀ n, c = .int n → InInt32 n) ∧ (∀ r bits, c = .float r bits → WFRepr r ∧ ReprFaithful r bits)

theorem constMatches_tree (c : PyConst) (hc : ConstWF c) (hg : ConstGood c) :
    constMatches c (treeConst c) = true := by
  cases c with
  | str s => simp [constMatches, treeConst]
  | int n =>
    have h := int_const_ok_plain n (hg.1 n rfl)
    cases n with
    | ofNat m =>
      simp only [renderInt] at h
      simp only [constMatches, treeConst, litOf, Bool.false_eq_true, if_false, List.nil_append, litTy]
      exact decide_eq_true h
    | negSucc m =>
      simp only [renderInt] at h
      simp only [constMatches, treeConst, litOf, if_true, Option.map_some, Bool.not_false, if_true,
        List.singleton_append, litTy]
      exact decide_eq_true h
  | float r bits =>
    cases r with
    | finite neg ip fp ex =>
      obtain ⟨wf, hr⟩ := hg.2 _ _ rfl
      have h := float_const_ok_plain neg ip fp ex bits wf hr
      cases neg with
      | false =>
        simp only [constMatches, treeConst, litOf, Bool.false_eq_true, if_false, List.nil_append, litTy,
          floatAbsText]
        exact decide_eq_true h
      | true =>
        rw [renderFloat_neg] at h
        simp only [constMatches, treeConst, litOf, if_true, Option.map_some, Bool.not_false, if_true,
          List.singleton_append, litTy, floatAbsText]
        exact decide_eq_true h
    | inf b => exact absurd hc.1 (by simp)
    | nan => exact absurd hc.1 (by simp)
  | bool b => cases b <;> simp [constMatches, treeConst]
  | other t => exact absurd hc (by simp [ConstWF])

theorem treeConst_not_cast (c : PyConst) : ∀ ty y, treeConst c ≠ .cast ty y := by
  intro ty y
  cases c with
  | str s => simp [treeConst]
  | int n => cases n <;> simp [treeConst]
  | float r bits =>
    cases r with
    | finite neg ip fp ex => cases neg <;> simp [treeConst]
    | inf b => simp [treeConst]
    | nan => simp [treeConst]
  | bool b => simp [treeConst]
  | other t => simp [treeConst]

theorem sameE_const (f : Nat) (c : PyConst) (x : CExpr) (hx : ∀ ty y, x ≠ .cast ty y) :
    sameE (f + 1) (.const c) x = constMatches c x := by
  cases x <;> first | rfl | (exact absurd rfl (hx _ _))

/-! ## a `/` is a floating division -/

theorem ty_double_cIsDouble (e : OExpr) : e.WF → e.ty = .double → cIsDouble (treeE e) = true := by
  induction e with
  | leaf v arrow m => intro _ _; rfl
  | const c =>
    intro h ht
    cases c with
    | str s => simp [OExpr.ty, litTy] at ht
    | int n => simp [OExpr.ty, litTy] at ht
    | bool b => simp [OExpr.ty, litTy] at ht
    | other t => exact absurd h (by simp [OExpr.WF, ConstWF])
    | float r bits =>
      cases r with
      | finite neg ip fp ex =>
        have wf : WFRepr (.finite false ip fp ex) := h.2
        have hl := cppFloatLit_render ip fp ex wf
        cases neg <;> simp [treeE, treeConst, cIsDouble, floatAbsText, hl]
      | inf b => exact absurd h.1 (by simp)
      | nan => exact absurd h.1 (by simp)
  | un op e ih => intro h ht; simpa [treeE, cIsDouble] using ih h ht
  | bin op a b iha ihb =>
    intro h ht
    have hp : (binPrec op.text).any (fun p => decide (3 ≤ p)) = true := by cases op <;> decide
    simp only [treeE, cIsDouble, hp, Bool.true_and, Bool.or_eq_true]
    by_cases hc : needsCast op a b = true
    · left; simp [hc, cIsDouble]
    · simp only [hc, Bool.false_eq_true, if_false]
      have hd : a.ty = .double ∨ b.ty = .double := by
        by_cases hdiv : op = .div
        · simp only [needsCast, hdiv, decide_true, Bool.true_and, Bool.not_eq_true', Bool.or_eq_false_iff,
            decide_eq_false_iff_not, not_and] at hc
          by_cases h1 : a.ty = .double
          · exact Or.inl h1
          · exact Or.inr (Decidable.not_not.mp (hc h1))
        · simp only [OExpr.ty, hdiv, if_false] at ht
          by_cases h1 : a.ty = .double ∨ b.ty = .double
          · exact h1
          · simp [h1] at ht
      rcases hd with h1 | h1
      · exact Or.inl (iha h.1 h1)
      · exact Or.inr (ihb h.2 h1)
  | pow a b _ _ => intro _ _; rfl
  | cmp op a b _ _ => intro _ ht; simp [OExpr.ty] at ht

/-! ## `sameE` on the intended tree -/

def OExpr.consts : OExpr → List PyConst
  | .leaf .. => []
  | .const c => [c]
  | .un _ e => e.consts
  | .bin _ a b => a.consts ++ b.consts
  | .pow a b => a.consts ++ b.consts
  | .cmp _ a b => a.consts ++ b.consts

def OExpr.need2 : OExpr → Nat
  | .leaf .. => 1
  | .const _ => 1
  | .un _ e => e.need2 + 1
  | .bin _ a b => max a.need2 b.need2 + 2
  | .pow a b => max a.need2 b.need2 + 1
  | .cmp _ a b => max a.need2 b.need2 + 1

theorem need2_le (e : OExpr) : e.need2 ≤ 2 * e.size := by
  induction e with
  | leaf v arrow m => simp [OExpr.need2, OExpr.size]
  | const c => simp [OExpr.need2, OExpr.size]
  | un op e ih => simp only [OExpr.need2, OExpr.size]; omega
  | bin op a b iha ihb => simp only [OExpr.need2, OExpr.size]; omega
  | pow a b iha ihb => simp only [OExpr.need2, OExpr.size]; omega
  | cmp op a b iha ihb => simp only [OExpr.need2, OExpr.size]; omega

theorem sameE_tree (e : OExpr) : e.WF → (∀ c ∈ e.consts, ConstGood c) → ∀ f, e.need2 ≤ f →
    sameE f e (treeE e) = true := by
  induction e with
  | leaf v arrow m =>
    intro _ _ f hf
    obtain ⟨g, rfl⟩ : ∃ g, f = g + 1 := ⟨f - 1, by simp only [OExpr.need2] at hf; omega⟩
    cases arrow <;> simp [sameE, treeE]
  | const c =>
    intro h hg f hf
    obtain ⟨g, rfl⟩ : ∃ g, f = g + 1 := ⟨f - 1, by simp only [OExpr.need2] at hf; omega⟩
    simp only [treeE]
    rw [sameE_const g c _ (treeConst_not_cast c)]
    exact constMatches_tree c h (hg c (by simp [OExpr.consts]))
  | un op e ih =>
    intro h hg f hf
    simp only [OExpr.need2] at hf
    obtain ⟨g, rfl⟩ : ∃ g, f = g + 1 := ⟨f - 1, by omega⟩
    have := ih h hg g (by omega)
    cases op <;> simp [sameE, treeE, UOp.text, this]
  | bin op a b iha ihb =>
    intro h hg f hf
    simp only [OExpr.need2] at hf
    obtain ⟨g, rfl⟩ : ∃ g, f = g + 2 := ⟨f - 2, by omega⟩
    have hga : ∀ c ∈ a.consts, ConstGood c := fun c hc => hg c (by simp [OExpr.consts, hc])
    have hgb : ∀ c ∈ b.consts, ConstGood c := fun c hc => hg c (by simp [OExpr.consts, hc])
    have ha := iha h.1 hga g (by omega)
    have ha1 := iha h.1 hga (g + 1) (by omega)
    have hb := ihb h.2 hgb (g + 1) (by omega)
    by_cases hc : needsCast op a b = true
    · simp [sameE, treeE, hc, ha, hb, cIsDouble]
    · have hdiv : op ≠ .div ∨ cIsDouble (treeE a) = true ∨ cIsDouble (treeE b) = true := by
        by_cases hd : op = .div
        · right
          simp only [needsCast, hd, decide_true, Bool.true_and, Bool.not_eq_true', Bool.or_eq_false_iff,
            decide_eq_false_iff_not, not_and] at hc
          by_cases h1 : a.ty = .double
          · exact Or.inl (ty_double_cIsDouble a h.1 h1)
          · exact Or.inr (ty_double_cIsDouble b h.2 (Decidable.not_not.mp (hc h1)))
        · exact Or.inl hd
      simp only [treeE, hc, Bool.false_eq_true, if_false]
      cases hta : treeE a with
      | cast ty y =>
        -- the intended tree of an operand is a cast only as the left operand of a division
        rw [hta] at ha1 hdiv
        rcases hdiv with hd | hd | hd <;> simp [sameE, ha1, hb, hd] <;> simp_all [sameE]
      | _ =>
        rw [hta] at ha1 hdiv
        rcases hdiv with hd | hd | hd <;> simp [sameE, ha1, hb, hd]
  | pow a b iha ihb =>
    intro h hg f hf
    simp only [OExpr.need2] at hf
    obtain ⟨g, rfl⟩ : ∃ g, f = g + 1 := ⟨f - 1, by omega⟩
    have ha := iha h.1 (fun c hc => hg c (by simp [OExpr.consts, hc])) g (by omega)
    have hb := ihb h.2 (fun c hc => hg c (by simp [OExpr.consts, hc])) g (by omega)
    simp [sameE, treeE, ha, hb]
  | cmp op a b iha ihb =>
    intro h hg f hf
    simp only [OExpr.need2] at hf
    obtain ⟨g, rfl⟩ : ∃ g, f = g + 1 := ⟨f - 1, by omega⟩
    have ha := iha h.1 (fun c hc => hg c (by simp [OExpr.consts, hc])) g (by omega)
    have hb := ihb h.2 (fun c hc => hg c (by simp [OExpr.consts, hc])) g (by omega)
    simp [sameE, treeE, ha, hb]

end FaxVerif.C18
