/-
C06 — helper lemmas for Theorems.lean (no property statement lives here).
-/
import FaxVerif.C06.Spec
namespace FaxVerif.C06

/-! ## whole-word substitution -/

def startsNonWord : Text → Bool
  | [] => true
  | c :: _ => !isWordChar c

def endsNonWord (a : Text) : Bool := startsNonWord a.reverse

theorem tokGo_word {c : Char} (h : isWordChar c = true) (acc cs : Text) :
    tokGo acc (c :: cs) = tokGo (acc ++ [c]) cs := by
  simp [tokGo, h]

theorem tokGo_nonword {c : Char} (h : isWordChar c = false) (acc cs : Text) :
    tokGo acc (c :: cs) = flushTok acc ++ ([c] :: tokGo [] cs) := by
  simp [tokGo, h]

theorem tokGo_append_nonword {c : Char} (hc : isWordChar c = false) (a t : Text) :
    ∀ acc, tokGo acc (a ++ c :: t) = tokGo acc a ++ ([c] :: tokGo [] t) := by
  induction a with
  | nil => intro acc; simp [tokGo, hc]
  | cons d a ih =>
    intro acc
    by_cases hd : isWordChar d = true
    · simp only [List.cons_append, tokGo_word hd]; exact ih _
    · have hd' : isWordChar d = false := by simpa using hd
      simp only [List.cons_append, tokGo_nonword hd', ih, List.append_assoc, List.cons_append]

theorem tokens_append_of_starts (a b : Text) (h : startsNonWord b = true) :
    tokens (a ++ b) = tokens a ++ tokens b := by
  cases b with
  | nil => simp [tokens, tokGo, flushTok]
  | cons c t =>
    have hc : isWordChar c = false := by simpa [startsNonWord] using h
    simp only [tokens, tokGo_append_nonword hc, tokGo_nonword hc, flushTok, List.nil_append]

theorem tokens_append_of_ends (a b : Text) (h : endsNonWord a = true) :
    tokens (a ++ b) = tokens a ++ tokens b := by
  rcases List.eq_nil_or_concat a with rfl | ⟨a', c, rfl⟩
  · simp [tokens, tokGo, flushTok]
  · have hc : isWordChar c = false := by simpa [endsNonWord, startsNonWord] using h
    simp only [List.concat_eq_append, List.append_assoc, List.singleton_append, tokens,
      tokGo_append_nonword hc]
    simp [tokGo, flushTok]

theorem tokens_append (a b : Text) (h : endsNonWord a = true ∨ startsNonWord b = true) :
    tokens (a ++ b) = tokens a ++ tokens b := by
  rcases h with h | h
  · exact tokens_append_of_ends a b h
  · exact tokens_append_of_starts a b h

theorem tokGo_allWord (u : Text) (hu : u.all isWordChar = true) : ∀ acc, tokGo acc u = flushTok (acc ++ u) := by
  induction u with
  | nil => intro acc; simp [tokGo]
  | cons c u ih =>
    intro acc
    simp only [List.all_cons, Bool.and_eq_true] at hu
    rw [tokGo_word hu.1, ih hu.2]; simp

theorem tokens_word (u : Text) (hu : u.all isWordChar = true) (hne : u ≠ []) : tokens u = [u] := by
  simp only [tokens, tokGo_allWord u hu, List.nil_append]
  cases u with
  | nil => exact absurd rfl hne
  | cons c u => rfl

theorem flushTok_flatten (acc : Text) : (flushTok acc).flatten = acc := by
  cases acc <;> simp [flushTok]

theorem tokGo_flatten (s : Text) : ∀ acc, (tokGo acc s).flatten = acc ++ s := by
  induction s with
  | nil => intro acc; simp [tokGo, flushTok_flatten]
  | cons c s ih =>
    intro acc
    by_cases hc : isWordChar c = true
    · rw [tokGo_word hc, ih]; simp
    · have hc' : isWordChar c = false := by simpa using hc
      rw [tokGo_nonword hc']; simp [flushTok_flatten, ih]

theorem tokens_flatten (s : Text) : (tokens s).flatten = s := by
  simpa [tokens] using tokGo_flatten s []

theorem fill_append (r : Text) (l₁ l₂ : List (Option Text)) : fill r (l₁ ++ l₂) = fill r l₁ ++ fill r l₂ := by
  induction l₁ with
  | nil => rfl
  | cons x l ih => cases x <;> simp [fill, ih]

theorem substWord_append (w r a b : Text) (h : endsNonWord a = true ∨ startsNonWord b = true) :
    substWord w r (a ++ b) = substWord w r a ++ substWord w r b := by
  simp [substWord, holes, tokens_append a b h, fill_append]

theorem fill_map_some (r : Text) (l : List Text) : fill r (l.map some) = l.flatten := by
  induction l with
  | nil => rfl
  | cons x l ih => simp [fill, ih]

theorem hasWord_false_iff (w s : Text) : hasWord w s = false ↔ w ∉ tokens s := by
  simp [hasWord]

theorem substWord_noWord (w r s : Text) (h : hasWord w s = false) : substWord w r s = s := by
  have hw : w ∉ tokens s := (hasWord_false_iff w s).1 h
  have : holes w s = (tokens s).map some := by
    simp only [holes]
    apply List.map_congr_left
    intro t ht
    have : t ≠ w := fun e => hw (e ▸ ht)
    simp [this]
  rw [substWord, this, fill_map_some, tokens_flatten]

theorem substWord_self (w r : Text) (hw : w.all isWordChar = true) (hne : w ≠ []) : substWord w r w = r := by
  simp [substWord, holes, tokens_word w hw hne, fill]

theorem hasWord_append (w a b : Text) (h : endsNonWord a = true ∨ startsNonWord b = true) :
    hasWord w (a ++ b) = (hasWord w a || hasWord w b) := by
  simp [hasWord, tokens_append a b h]

/-! ## the emitted block, per backend -/

theorem paramName_word : paramName.all isWordChar = true := by decide
theorem paramName_ne : paramName ≠ [] := by decide

theorem substWord_sandwich (w r pre post : Text) (hw : w.all isWordChar = true) (hne : w ≠ [])
    (h1 : endsNonWord pre = true) (h2 : startsNonWord post = true)
    (hp : hasWord w pre = false) (hq : hasWord w post = false) :
    substWord w r (pre ++ w ++ post) = pre ++ r ++ post := by
  rw [List.append_assoc, substWord_append _ _ _ _ (Or.inl h1), substWord_append _ _ _ _ (Or.inr h2),
    substWord_noWord _ _ _ hp, substWord_noWord _ _ _ hq, substWord_self _ _ hw hne, List.append_assoc]

theorem hasWord_sandwich (w pre mid post : Text)
    (h1 : endsNonWord pre = true) (h2 : startsNonWord post = true)
    (hp : hasWord w pre = false) (hq : hasWord w post = false) (hm : hasWord w mid = false) :
    hasWord w (pre ++ mid ++ post) = false := by
  rw [List.append_assoc, hasWord_append _ _ _ (Or.inl h1), hasWord_append _ _ _ (Or.inr h2), hp, hq, hm]; rfl

theorem stmtLine_semicolon (a : Text) : stmtLine (a ++ [';']) = a ++ [';'] := by
  simp [stmtLine]

/-- what `get_collection` builds for a well-shaped call -/
def mkCV (cd : CoderInfo) (c : CollSpec) (bank : Text) (n : Nat) : CodeValue :=
  let tok : Text := match cd.tokenPrefix with
    | none => []
    | some p => if cd.tokenPerUse then uniqueName p n else uniqueName p 0
  { spec := c, bank,
    runningCode := cd.runningCode.map (render [(t!"container_type", c.tyStr), (t!"self.t_name", tok)]),
    fields := match cd.tokenInit, c.tokenTypeStr with
      | some init, some tt => [(tt, tok, render [(t!"md.container_type.type", c.container)] init)]
      | some init, none => [(t!"None", tok, render [(t!"md.container_type.type", c.container)] init)]
      | none, _ => [],
    token := tok }

theorem getCollection_str (cd : CoderInfo) (c : CollSpec) (s : Text) (n : Nat) :
    getCollection cd c [.str s] n = .ok (mkCV cd c s n, if cd.tokenPerUse then n + 1 else n) := rfl

theorem getCollection_ok_iff (cd : CoderInfo) (c : CollSpec) (args : List Arg) (n : Nat) :
    (∃ r, getCollection cd c args n = .ok r) ↔ CallOk args := by
  constructor
  · rintro ⟨r, h⟩
    match args, h with
    | [.str s], _ => exact ⟨s, rfl⟩
    | [], h => simp [getCollection] at h
    | [.other], h => simp [getCollection] at h
    | _ :: _ :: _, h => simp [getCollection] at h
  · rintro ⟨s, rfl⟩; exact ⟨_, getCollection_str cd c s n⟩

/-- the model's handle text is the property's, the token type too; pointer depths are the backend's -/
structure ClassOk (b : Backend) (c : CollSpec) : Prop where
  ty : c.tyStr = expectedTy b (declOf c)
  tok : b = .cmsMiniaod → c.tokenTypeStr = some (t!"edm::EDGetTokenT<" ++ c.container ++ t!">")
  depthType : c.depthType = 1

theorem lookupHole_head (n : Text) (t : Text) (env : List (Text × Text)) : lookupHole ((n, t) :: env) n = t := by
  simp [lookupHole, List.find?]

theorem lookupHole_tail (n n' : Text) (t : Text) (env : List (Text × Text)) (h : (n' == n) = false) :
    lookupHole ((n', t) :: env) n = lookupHole env n := by
  simp [lookupHole, List.find?, h]

theorem stmtLine_append (a b : Text) (h : b.getLast? = some ';') : stmtLine (a ++ b) = a ++ b := by
  simp [stmtLine, List.getLast?_append, h]

/-- a line `<type> <concrete rest>` is left alone by the substitution of the bank -/
theorem line_type_rest (lit ty rest : Text) (hty : hasWord paramName ty = false)
    (h1 : startsNonWord rest = true) (h2 : hasWord paramName rest = false) (h3 : rest.getLast? = some ';') :
    stmtLine (substWord paramName lit (ty ++ rest)) = ty ++ rest := by
  rw [substWord_append _ _ _ _ (Or.inr h1), substWord_noWord _ _ _ hty, substWord_noWord _ _ _ h2, stmtLine_append _ _ h3]

/-- a concrete line `pre collection_name post` gets the bank exactly there -/
theorem line_param (lit pre post : Text) (h1 : endsNonWord pre = true) (h2 : startsNonWord post = true)
    (hp : hasWord paramName pre = false) (hq : hasWord paramName post = false) (h3 : post.getLast? = some ';') :
    stmtLine (substWord paramName lit (pre ++ paramName ++ post)) = pre ++ lit ++ post := by
  rw [substWord_sandwich _ _ _ _ paramName_word paramName_ne h1 h2 hp hq, stmtLine_append _ _ h3]

theorem assign_line (x : Text) : x ++ t!" = " ++ resultName ++ [';'] = x ++ t!" = result;" := by
  rw [List.append_assoc, List.append_assoc]
  congr 1

theorem hasWord_expectedTy (b : Backend) (d : Decl) (h : hasWord paramName d.container = false) :
    hasWord paramName (expectedTy b d) = false := by
  unfold expectedTy
  cases b <;> cases d.element <;> simp only [] <;>
  · apply hasWord_sandwich <;> first | decide | exact h

/-- ATLAS: the block that `process_ast_node` emits for a well-shaped call -/
theorem frag_atlas (c : CollSpec) (bank : Text) (n : Nat) (st : GenState) (hc : ClassOk .atlas c)
    (hclean : hasWord paramName c.container = false) :
    let f := (processNode (mkCV Gen.atlasCoder c bank n) st).1
    f.lines = expectedLines .atlas (expectedTy .atlas (declOf c)) (cppLit bank) f.tok f.var ∧
    f.decl = expectedDecl (expectedTy .atlas (declOf c)) f.var ∧ f.tok = [] := by
  have hcleanTy := hasWord_expectedTy .atlas (declOf c) hclean
  simp only [processNode, mkCV, Gen.atlasCoder, List.map_cons, List.map_nil, render, lookupHole_head, List.append_nil, hc.ty]
  refine ⟨?_, rfl, trivial⟩
  rw [line_type_rest _ _ _ hcleanTy (by decide) (by decide) (by decide)]
  rw [show t!"ANA_CHECK (evtStore()->retrieve(result, collection_name));" =
      t!"ANA_CHECK (evtStore()->retrieve(result, " ++ paramName ++ t!"));" from by decide]
  rw [line_param _ _ _ (by decide) (by decide) (by decide) (by decide) (by decide), assign_line]
  rfl

/-- CMS AOD -/
theorem frag_cmsAod (c : CollSpec) (bank : Text) (n : Nat) (st : GenState) (hc : ClassOk .cmsAod c)
    (hclean : hasWord paramName c.container = false) :
    let f := (processNode (mkCV Gen.cmsAodCoder c bank n) st).1
    f.lines = expectedLines .cmsAod (expectedTy .cmsAod (declOf c)) (cppLit bank) f.tok f.var ∧
    f.decl = expectedDecl (expectedTy .cmsAod (declOf c)) f.var ∧ f.tok = [] := by
  have hcleanTy := hasWord_expectedTy .cmsAod (declOf c) hclean
  simp only [processNode, mkCV, Gen.cmsAodCoder, List.map_cons, List.map_nil, render, lookupHole_head, List.append_nil, hc.ty]
  refine ⟨?_, rfl, trivial⟩
  rw [line_type_rest _ _ _ hcleanTy (by decide) (by decide) (by decide)]
  rw [show t!"iEvent.getByLabel(collection_name, result);" =
      t!"iEvent.getByLabel(" ++ paramName ++ t!", result);" from by decide]
  rw [line_param _ _ _ (by decide) (by decide) (by decide) (by decide) (by decide), assign_line]
  rfl


theorem isWordChar_of_isDigit {c : Char} (h : c.isDigit = true) : isWordChar c = true := by
  simp [isWordChar, Char.isAlphanum, h]

theorem digits_all_word (n : Nat) : (digits n).all isWordChar = true := by
  simp only [List.all_eq_true, digits]
  intro c hc
  exact isWordChar_of_isDigit (Nat.isDigit_of_mem_toDigits (by omega) (by omega) hc)

theorem digits_ne_nil (n : Nat) : digits n ≠ [] := Nat.toDigits_ne_nil

theorem endsNonWord_append (a b : Text) (hb : b ≠ []) : endsNonWord (a ++ b) = endsNonWord b := by
  cases hr : b.reverse with
  | nil => simp at hr; exact absurd hr hb
  | cons c t => simp [endsNonWord, hr, startsNonWord]

/-- the token of a miniAOD use -/
def tokenName (n : Nat) : Text := uniqueName (t!"token") n

theorem tokenName_word (n : Nat) : (tokenName n).all isWordChar = true := by
  simp only [tokenName, uniqueName, List.all_append, digits_all_word, Bool.and_true]; decide

theorem hasWord_tokenName (n : Nat) : hasWord paramName (tokenName n) = false := by
  have h1 : tokenName n = 't' :: (['o', 'k', 'e', 'n'] ++ digits n) := by
    simp only [tokenName, uniqueName, List.cons_append, List.nil_append]
  have h2 : paramName = 'c' :: t!"ollection_name" := by decide
  have hne : tokenName n ≠ [] := by rw [h1]; exact List.cons_ne_nil _ _
  rw [hasWord_false_iff, tokens_word _ (tokenName_word n) hne, List.mem_singleton, h1, h2]
  intro h
  exact absurd (List.cons.inj h).1 (by decide)

theorem paramName_eq : paramName = t!"collection_name" := rfl
theorem resultName_eq : resultName = t!"result" := rfl

/-- closes equalities between append chains of literals and variables -/
macro "text_eq" : tactic =>
  `(tactic| simp only [paramName_eq, resultName_eq, List.append_assoc, List.cons_append, List.nil_append])

/-- CMS miniAOD -/
theorem frag_cmsMiniaod (c : CollSpec) (bank : Text) (n : Nat) (st : GenState) (hc : ClassOk .cmsMiniaod c)
    (hclean : hasWord paramName c.container = false) :
    let r := processNode (mkCV Gen.cmsMiniaodCoder c bank n) st
    r.1.lines = expectedLines .cmsMiniaod (expectedTy .cmsMiniaod (declOf c)) (cppLit bank) r.1.tok r.1.var ∧
    r.1.decl = expectedDecl (expectedTy .cmsMiniaod (declOf c)) r.1.var ∧ r.1.tok = tokenName n ∧
    r.2.classDecls = st.classDecls ++ [expectedTokenDecl (declOf c) (tokenName n)] ∧
    r.2.book = st.book ++ [expectedTokenInit (declOf c) (cppLit bank) (tokenName n)] := by
  have hcleanTy := hasWord_expectedTy .cmsMiniaod (declOf c) hclean
  have htt := hc.tok rfl
  simp only [processNode, mkCV, Gen.cmsMiniaodCoder, List.map_cons, List.map_nil, render, lookupHole_head,
    lookupHole_tail _ _ _ _ (show (t!"container_type" == t!"self.t_name") = false from by decide),
    List.append_nil, hc.ty, htt, if_true]
  refine ⟨?_, rfl, rfl, ?_, ?_⟩
  · rw [line_type_rest _ _ _ hcleanTy (by decide) (by decide) (by decide)]
    have h2 : hasWord paramName (t!"iEvent.getByToken(" ++ tokenName n ++ t!", result);") = false :=
      hasWord_sandwich _ _ _ _ (by decide) (by decide) (by decide) (by decide) (hasWord_tokenName n)
    have e : t!"iEvent.getByToken(" ++ (uniqueName t!"token" n ++ t!", result);") =
        t!"iEvent.getByToken(" ++ tokenName n ++ t!", result);" := by
      simp only [tokenName, List.append_assoc]
    rw [e, substWord_noWord _ _ _ h2, stmtLine_append _ _ (show (t!", result);").getLast? = some ';' from by decide), assign_line]
    rfl
  · simp only [expectedTokenDecl, declOf, tokenName]; text_eq
  · have e : t!"consumes<" ++ (c.container ++ t!">(edm::InputTag(collection_name))") =
        (t!"consumes<" ++ c.container ++ t!">(edm::InputTag(") ++ paramName ++ t!"))" := by text_eq
    have hpre : hasWord paramName (t!"consumes<" ++ c.container ++ t!">(edm::InputTag(") = false :=
      hasWord_sandwich _ _ _ _ (by decide) (by decide) (by decide) (by decide) hclean
    rw [e, substWord_sandwich _ _ _ _ paramName_word paramName_ne
      (by rw [endsNonWord_append _ _ (by decide)]; decide) (by decide) hpre (by decide)]
    simp only [expectedTokenInit, declOf, tokenName]; text_eq

/-! ## tables, metadata branches, `validate` -/

instance (b : Backend) (c : CollSpec) : Decidable (ClassOk b c) :=
  decidable_of_iff (c.tyStr = expectedTy b (declOf c) ∧ (b = .cmsMiniaod → c.tokenTypeStr = some (t!"edm::EDGetTokenT<" ++ c.container ++ t!">")) ∧ c.depthType = 1)
    ⟨fun ⟨a, b, c⟩ => ⟨a, b, c⟩, fun h => ⟨h.ty, h.tok, h.depthType⟩⟩

theorem builtins_classOk (b : Backend) : ∀ c ∈ builtins b, ClassOk b c := by
  cases b <;> decide +kernel

theorem builtins_declOf (b : Backend) : (builtins b).map declOf = builtinDecls b := by
  cases b <;> decide +kernel

/-- the generated description of the backend's metadata branch -/
def branchOf (b : Backend) : MdBranch := (findBranch b.mdType).getD default

theorem findBranch_mdType (b : Backend) : findBranch b.mdType = some (branchOf b) := by
  cases b <;> decide +kernel

theorem findBranch_some (t : Text) (br : MdBranch) (h : findBranch t = some br) :
    ∃ b : Backend, t = b.mdType ∧ br = branchOf b := by
  unfold findBranch at h
  have hm := List.find?_some h
  have hmem := List.mem_of_find?_eq_some h
  simp only [beq_iff_eq] at hm
  have : ∀ br' ∈ Gen.mdBranches, (br'.mdType = Backend.mdType .atlas ∧ br' = branchOf .atlas) ∨
      (br'.mdType = Backend.mdType .cmsAod ∧ br' = branchOf .cmsAod) ∨
      (br'.mdType = Backend.mdType .cmsMiniaod ∧ br' = branchOf .cmsMiniaod) := by decide +kernel
  rcases this br hmem with ⟨h1, h2⟩ | ⟨h1, h2⟩ | ⟨h1, h2⟩
  · exact ⟨.atlas, by rw [← hm, h1], h2⟩
  · exact ⟨.cmsAod, by rw [← hm, h1], h2⟩
  · exact ⟨.cmsMiniaod, by rw [← hm, h1], h2⟩


/-! ### stages of `validateWith` -/

theorem validateWith_ok {br : MdBranch} {md : Md} {c : CollSpec} (h : validateWith br md = .ok c) :
    firstUnexpected br.whitelist md.keys = none ∧ flagStage br md = .ok () ∧
    ∃ ci ct et libs name incs, containerStage br md = .ok (ci, ct, et) ∧ libsStage br md = .ok libs ∧
      md.reqStr t!"name" = .ok name ∧ md.reqStrs t!"include_files" = .ok incs ∧
      c = mkSpec br.specBackend name incs ci ct et libs := by
  unfold validateWith at h
  cases h1 : firstUnexpected br.whitelist md.keys with
  | some k => simp [h1] at h
  | none =>
    cases h2 : flagStage br md with
    | error e => simp [h1, h2] at h
    | ok u =>
      cases h3 : containerStage br md with
      | error e => simp [h1, h2, h3] at h
      | ok r =>
        obtain ⟨ci, ct, et⟩ := r
        cases h4 : libsStage br md with
        | error e => simp [h1, h2, h3, h4] at h
        | ok libs =>
          cases h5 : md.reqStr t!"name" with
          | error e => simp [h1, h2, h3, h4, h5] at h
          | ok name =>
            cases h6 : md.reqStrs t!"include_files" with
            | error e => simp [h1, h2, h3, h4, h5, h6] at h
            | ok incs =>
              simp [h1, h2, h3, h4, h5, h6] at h
              exact ⟨rfl, rfl, ci, ct, et, libs, name, incs, rfl, rfl, rfl, rfl, h.symm⟩

theorem validateWith_of {br : MdBranch} {md : Md} {ci ct et libs name incs}
    (h1 : firstUnexpected br.whitelist md.keys = none) (h2 : flagStage br md = .ok ())
    (h3 : containerStage br md = .ok (ci, ct, et)) (h4 : libsStage br md = .ok libs)
    (h5 : md.reqStr t!"name" = .ok name) (h6 : md.reqStrs t!"include_files" = .ok incs) :
    validateWith br md = .ok (mkSpec br.specBackend name incs ci ct et libs) := by
  unfold validateWith; simp [h1, h2, h3, h4, h5, h6]

theorem firstUnexpected_none_iff (wl ks : List Text) : firstUnexpected wl ks = none ↔ ∀ k ∈ ks, k ∈ wl := by
  induction ks with
  | nil => simp [firstUnexpected]
  | cons k ks ih =>
    by_cases hk : k ∈ wl
    · simp [firstUnexpected, hk, ih]
    · simp [firstUnexpected, hk]

theorem reqStr_ok_iff (md : Md) (k s : Text) : md.reqStr k = .ok s ↔ md.get? k = some (.str s) := by
  unfold Md.reqStr
  cases h : md.get? k with
  | none => simp
  | some v => cases v <;> simp

theorem reqStrs_ok_iff (md : Md) (k : Text) (l : List Text) : md.reqStrs k = .ok l ↔ md.get? k = some (.strs l) := by
  unfold Md.reqStrs
  cases h : md.get? k with
  | none => simp
  | some v => cases v <;> simp

theorem flagStage_ok_iff (br : MdBranch) (md : Md) (hf : br.flagCheck = true) :
    flagStage br md = .ok () ↔ md.has t!"contains_collection" = true ∧ (md.flag = true ↔ md.has t!"element_type" = true) := by
  unfold flagStage Md.flag Md.has
  simp only [hf, if_true]
  cases h : md.get? t!"contains_collection" with
  | none => simp
  | some v =>
    cases hv : v.truthy <;> cases he : (md.get? t!"element_type").isSome <;> simp


/-! ### facts about the generated branches and classes (re-checked whenever the source changes) -/

theorem branch_flagCheck (b : Backend) : (branchOf b).flagCheck = true := by cases b <;> decide
theorem branch_specBackend (b : Backend) : (branchOf b).specBackend = b.execName := by cases b <;> decide
theorem branch_whitelist (b : Backend) : (branchOf b).whitelist = b.whitelist := by cases b <;> decide
theorem execName_injective (b b' : Backend) (h : b.execName = b'.execName) : b = b' := by
  cases b <;> cases b' <;> first | rfl | (exact absurd h (by decide))

theorem branch_atlas : ∃ cc sc ciC ciS, (branchOf .atlas).build = .byFlag cc sc ∧
    classStage cc = .ok ciC ∧ classStage sc = .ok ciS ∧ (branchOf .atlas).librariesKey = some t!"link_libraries" ∧
    ciC.str = [.lit t!"const ", .hole t!"self.type", .lit t!"*"] ∧ ciC.depthType = 1 ∧ ciC.depthElem = 1 ∧
    ciS.str = [.lit t!"const ", .hole t!"self.type", .lit t!" *"] ∧ ciS.depthType = 1 ∧ ciS.depthElem = 0 :=
  ⟨_, _, _, _, rfl, rfl, rfl, by decide, by decide, by decide, by decide, by decide, by decide, by decide⟩

theorem branch_cmsAod : ∃ cc ciC, (branchOf .cmsAod).build = .alwaysPtr cc t!"element_pointer" ∧
    classStage cc = .ok ciC ∧ (branchOf .cmsAod).librariesKey = none ∧
    ciC.str = [.lit t!"edm::Handle<", .hole t!"self.type", .lit t!">"] ∧ ciC.depthType = 1 ∧ ciC.depthElem = 0 :=
  ⟨_, _, rfl, rfl, by decide, by decide, by decide, by decide⟩

theorem branch_cmsMiniaod : ∃ cc ciC, (branchOf .cmsMiniaod).build = .alwaysPtr cc t!"element_pointer" ∧
    classStage cc = .ok ciC ∧ (branchOf .cmsMiniaod).librariesKey = none ∧
    ciC.str = [.lit t!"Handle<", .hole t!"self.type", .lit t!">"] ∧ ciC.depthType = 1 ∧ ciC.depthElem = 0 ∧
    ciC.tokenType = some [.lit t!"edm::EDGetTokenT<", .hole t!"self.type", .lit t!">"] :=
  ⟨_, _, rfl, rfl, by decide, by decide, by decide, by decide, by decide⟩


theorem get?_mem_keys {md : Md} {k : Text} {v : MdVal} (h : md.get? k = some v) : k ∈ md.keys := by
  unfold Md.get? at h
  cases hf : md.fields.find? (fun p => p.1 == k) with
  | none => simp [hf] at h
  | some p =>
    have hm := List.mem_of_find?_eq_some hf
    have hk := List.find?_some hf
    simp only [beq_iff_eq] at hk
    simp only [Md.keys, List.mem_cons, List.mem_map]
    exact Or.inr ⟨p, hm, hk⟩

theorem get?_none_of_not_whitelisted {md : Md} {wl : List Text} (hk : ∀ k ∈ md.keys, k ∈ wl) {k : Text} (h : k ∉ wl) :
    md.get? k = none := by
  cases hg : md.get? k with
  | none => rfl
  | some v => exact absurd (hk k (get?_mem_keys hg)) h

theorem collStage_ok {md : Md} {cls : Text} {r} (h : collStage md cls = .ok r) :
    ∃ ci ct et, r = (ci, ct, some et) ∧ md.get? t!"container_type" = some (.str ct) ∧
      md.get? t!"element_type" = some (.str et) ∧ classStage cls = .ok ci := by
  unfold collStage at h
  cases h1 : md.reqStr t!"container_type" with
  | error e => simp [h1] at h
  | ok ct =>
    cases h2 : md.reqStr t!"element_type" with
    | error e => simp [h1, h2] at h
    | ok et =>
      cases h3 : classStage cls with
      | error e => simp [h1, h2, h3] at h
      | ok ci =>
        simp [h1, h2, h3] at h
        exact ⟨ci, ct, et, h.symm, (reqStr_ok_iff _ _ _).1 h1, (reqStr_ok_iff _ _ _).1 h2, rfl⟩

theorem singleStage_ok {md : Md} {cls : Text} {r} (h : singleStage md cls = .ok r) :
    ∃ ci ct, r = (ci, ct, none) ∧ md.get? t!"container_type" = some (.str ct) ∧ classStage cls = .ok ci := by
  unfold singleStage at h
  cases h1 : md.reqStr t!"container_type" with
  | error e => simp [h1] at h
  | ok ct =>
    cases h3 : classStage cls with
    | error e => simp [h1, h3] at h
    | ok ci =>
      simp [h1, h3] at h
      exact ⟨ci, ct, h.symm, (reqStr_ok_iff _ _ _).1 h1, rfl⟩

theorem has_of_get? {md : Md} {k : Text} {v : MdVal} (h : md.get? k = some v) : md.has k = true := by
  simp [Md.has, h]

theorem getStr_of {md : Md} {k s : Text} (h : md.get? k = some (.str s)) : getStr md k = s := by simp [getStr, h]
theorem getStrs_of {md : Md} {k : Text} {l : List Text} (h : md.get? k = some (.strs l)) : getStrs md k = l := by simp [getStrs, h]
theorem getStrs_none {md : Md} {k : Text} (h : md.get? k = none) : getStrs md k = [] := by simp [getStrs, h]

theorem render_three (t a b : Text) : render [(t!"self.type", t)] [.lit a, .hole t!"self.type", .lit b] = a ++ t ++ b := by
  simp [render, lookupHole_head]


theorem keys_of_ok {b : Backend} {md : Md} (h1 : firstUnexpected (branchOf b).whitelist md.keys = none) :
    ∀ k ∈ md.keys, k ∈ b.whitelist := by
  rw [branch_whitelist] at h1
  exact (firstUnexpected_none_iff _ _).1 h1

/-- what an accepted declaration is, stage by stage (any backend) -/
theorem validateWith_sound (b : Backend) (md : Md) (c : CollSpec) (hty : md.mdType = b.mdType)
    (h : validateWith (branchOf b) md = .ok c) :
    ValidMd b md ∧ c.backend = b.execName ∧ ClassOk b c ∧ declOf c = intended b md := by
  obtain ⟨h1, h2, ci, ct, et, libs, name, incs, h3, h4, h5, h6, rfl⟩ := validateWith_ok h
  have hkeys := keys_of_ok h1
  obtain ⟨hcc, hflag⟩ := (flagStage_ok_iff _ _ (branch_flagCheck b)).1 h2
  have hname := (reqStr_ok_iff _ _ _).1 h5
  have hincs := (reqStrs_ok_iff _ _ _).1 h6
  cases b with
  | atlas =>
    obtain ⟨cc, sc, ciC, ciS, hb, hcC, hcS, hlk, f1, f2, f3, f4, f5, f6⟩ := branch_atlas
    unfold containerStage at h3
    rw [hb] at h3
    simp only [] at h3
    unfold libsStage at h4
    rw [hlk] at h4
    simp only [] at h4
    cases hg : md.get? t!"contains_collection" with
    | none => simp [Md.has, hg] at hcc
    | some flag =>
      rw [hg] at h3
      simp only [] at h3
      have hlibs : libs = getStrs md t!"link_libraries" := by
        cases hl : md.has t!"link_libraries" with
        | true =>
          rw [hl] at h4; simp only [if_true] at h4
          rw [getStrs_of ((reqStrs_ok_iff _ _ _).1 h4)]
        | false =>
          rw [hl] at h4; simp only [Bool.false_eq_true, if_false, Except.ok.injEq] at h4
          have : md.get? t!"link_libraries" = none := by simpa [Md.has] using hl
          rw [getStrs_none this, h4]
      cases hf : flag.truthy with
      | true =>
        rw [hf] at h3; simp only [if_true] at h3
        obtain ⟨ci', ct', et', e, g1, g2, g3⟩ := collStage_ok h3
        rw [hcC] at g3
        simp only [Prod.mk.injEq, Except.ok.injEq] at e g3
        obtain ⟨rfl, rfl, rfl⟩ := e
        subst g3
        have hfl : md.flag = true := by simp [Md.flag, hg, hf]
        refine ⟨⟨hty, hkeys, ?_, hflag⟩, ?_, ⟨?_, ?_, ?_⟩, ?_⟩
        · intro k hk
          simp only [requiredKeys, List.mem_cons, List.not_mem_nil, or_false] at hk
          rcases hk with rfl | rfl | rfl | rfl
          · exact has_of_get? hname
          · exact has_of_get? hincs
          · exact has_of_get? g1
          · exact hcc
        · simp [mkSpec, branch_specBackend]
        · simp [mkSpec, CollSpec.tyStr, f1, render_three, expectedTy, declOf]
        · intro hh; cases hh
        · simp [mkSpec, f2]
        · have hnoep : md.get? t!"element_pointer" = none :=
            get?_none_of_not_whitelisted hkeys (by decide)
          simp [declOf, intended, mkSpec, getStr_of hname, getStrs_of hincs, getStr_of g1, getStr_of g2, hfl, hlibs, f3,
            hnoep, Backend.elemPtrDefault]
      | false =>
        rw [hf] at h3; simp only [Bool.false_eq_true, if_false] at h3
        obtain ⟨ci', ct', e, g1, g3⟩ := singleStage_ok h3
        rw [hcS] at g3
        simp only [Prod.mk.injEq, Except.ok.injEq] at e g3
        obtain ⟨rfl, rfl, rfl⟩ := e
        subst g3
        have hfl : md.flag = false := by simp [Md.flag, hg, hf]
        refine ⟨⟨hty, hkeys, ?_, hflag⟩, ?_, ⟨?_, ?_, ?_⟩, ?_⟩
        · intro k hk
          simp only [requiredKeys, List.mem_cons, List.not_mem_nil, or_false] at hk
          rcases hk with rfl | rfl | rfl | rfl
          · exact has_of_get? hname
          · exact has_of_get? hincs
          · exact has_of_get? g1
          · exact hcc
        · simp [mkSpec, branch_specBackend]
        · simp [mkSpec, CollSpec.tyStr, f4, render_three, expectedTy, declOf]
        · intro hh; cases hh
        · simp [mkSpec, f5]
        · simp [declOf, intended, mkSpec, getStr_of hname, getStrs_of hincs, getStr_of g1, hfl, hlibs]
  | cmsAod =>
    obtain ⟨cc, ciC, hb, hcC, hlk, f1, f2, f3⟩ := branch_cmsAod
    unfold containerStage at h3
    rw [hb] at h3
    simp only [] at h3
    unfold libsStage at h4
    rw [hlk] at h4
    simp only [Except.ok.injEq] at h4
    subst h4
    cases hcs : collStage md cc with
    | error e0 => rw [hcs] at h3; simp at h3
    | ok r0 =>
    obtain ⟨ci', ct', et', e, g1, g2, g3⟩ := collStage_ok hcs
    subst e
    rw [hcs] at h3
    rw [hcC] at g3
    simp only [Prod.mk.injEq, Except.ok.injEq] at h3 g3
    obtain ⟨rfl, rfl, rfl⟩ := h3
    subst g3
    have hfl : md.flag = true := hflag.2 (has_of_get? g2)
    have hnoll : md.get? t!"link_libraries" = none := get?_none_of_not_whitelisted hkeys (by decide)
    refine ⟨⟨hty, hkeys, ?_, hflag⟩, ?_, ⟨?_, ?_, ?_⟩, ?_⟩
    · intro k hk
      simp only [requiredKeys, List.mem_cons, List.not_mem_nil, or_false] at hk
      rcases hk with rfl | rfl | rfl | rfl
      · exact has_of_get? hname
      · exact has_of_get? hincs
      · exact has_of_get? g1
      · exact hcc
    · simp [mkSpec, branch_specBackend]
    · simp [mkSpec, CollSpec.tyStr, f1, render_three, expectedTy, declOf]
    · intro hh; cases hh
    · simp [mkSpec, f2]
    · cases hep : md.get? t!"element_pointer" with
      | none =>
        simp [declOf, intended, mkSpec, getStr_of hname, getStrs_of hincs, getStr_of g1, getStr_of g2, hfl,
          hep, getStrs_none hnoll, Backend.elemPtrDefault]
      | some v =>
        cases hv : v.truthy <;>
        simp [declOf, intended, mkSpec, getStr_of hname, getStrs_of hincs, getStr_of g1, getStr_of g2, hfl,
          hep, getStrs_none hnoll, hv]
  | cmsMiniaod =>
    obtain ⟨cc, ciC, hb, hcC, hlk, f1, f2, f3, f4⟩ := branch_cmsMiniaod
    unfold containerStage at h3
    rw [hb] at h3
    simp only [] at h3
    unfold libsStage at h4
    rw [hlk] at h4
    simp only [Except.ok.injEq] at h4
    subst h4
    cases hcs : collStage md cc with
    | error e0 => rw [hcs] at h3; simp at h3
    | ok r0 =>
    obtain ⟨ci', ct', et', e, g1, g2, g3⟩ := collStage_ok hcs
    subst e
    rw [hcs] at h3
    rw [hcC] at g3
    simp only [Prod.mk.injEq, Except.ok.injEq] at h3 g3
    obtain ⟨rfl, rfl, rfl⟩ := h3
    subst g3
    have hfl : md.flag = true := hflag.2 (has_of_get? g2)
    have hnoll : md.get? t!"link_libraries" = none := get?_none_of_not_whitelisted hkeys (by decide)
    refine ⟨⟨hty, hkeys, ?_, hflag⟩, ?_, ⟨?_, ?_, ?_⟩, ?_⟩
    · intro k hk
      simp only [requiredKeys, List.mem_cons, List.not_mem_nil, or_false] at hk
      rcases hk with rfl | rfl | rfl | rfl
      · exact has_of_get? hname
      · exact has_of_get? hincs
      · exact has_of_get? g1
      · exact hcc
    · simp [mkSpec, branch_specBackend]
    · simp [mkSpec, CollSpec.tyStr, f1, render_three, expectedTy, declOf]
    · intro _; simp [mkSpec, CollSpec.tokenTypeStr, f4, render_three]
    · simp [mkSpec, f2]
    · cases hep : md.get? t!"element_pointer" with
      | none =>
        simp [declOf, intended, mkSpec, getStr_of hname, getStrs_of hincs, getStr_of g1, getStr_of g2, hfl,
          hep, getStrs_none hnoll, Backend.elemPtrDefault]
      | some v =>
        cases hv : v.truthy <;>
        simp [declOf, intended, mkSpec, getStr_of hname, getStrs_of hincs, getStr_of g1, getStr_of g2, hfl,
          hep, getStrs_none hnoll, hv]


theorem str_of_has {md : Md} {k : Text} (hh : md.has k = true) (ht : md.has k = true → isStr (md.get? k) = true) :
    ∃ s, md.get? k = some (.str s) := by
  have := ht hh
  cases hg : md.get? k with
  | none => simp [hg, isStr] at this
  | some v => cases v <;> simp_all [isStr]

theorem strs_of_has {md : Md} {k : Text} (hh : md.has k = true) (ht : md.has k = true → isStrs (md.get? k) = true) :
    ∃ l, md.get? k = some (.strs l) := by
  have := ht hh
  cases hg : md.get? k with
  | none => simp [hg, isStrs] at this
  | some v => cases v <;> simp_all [isStrs]

theorem collStage_of {md : Md} {cls : Text} {ci ct et} (h1 : md.get? t!"container_type" = some (.str ct))
    (h2 : md.get? t!"element_type" = some (.str et)) (h3 : classStage cls = .ok ci) :
    collStage md cls = .ok (ci, ct, some et) := by
  simp [collStage, (reqStr_ok_iff _ _ _).2 h1, (reqStr_ok_iff _ _ _).2 h2, h3]

theorem singleStage_of {md : Md} {cls : Text} {ci ct} (h1 : md.get? t!"container_type" = some (.str ct))
    (h3 : classStage cls = .ok ci) : singleStage md cls = .ok (ci, ct, none) := by
  simp [singleStage, (reqStr_ok_iff _ _ _).2 h1, h3]

/-- a well-formed, well-typed declaration is accepted (CMS: if it declares a collection) -/
theorem validateWith_complete (b : Backend) (md : Md) (hv : ValidMd b md) (hwt : md.WellTyped)
    (hcms : CmsIsCollection b md) : ∃ c, validateWith (branchOf b) md = .ok c := by
  obtain ⟨_, hkeys, hreq, hflag⟩ := hv
  obtain ⟨w1, w2, w3, w4, w5, w6, w7⟩ := hwt
  have h1 : firstUnexpected (branchOf b).whitelist md.keys = none := by
    rw [branch_whitelist]; exact (firstUnexpected_none_iff _ _).2 hkeys
  have hcc := hreq t!"contains_collection" (by simp [requiredKeys])
  have h2 : flagStage (branchOf b) md = .ok () := (flagStage_ok_iff _ _ (branch_flagCheck b)).2 ⟨hcc, hflag⟩
  obtain ⟨name, hname⟩ := str_of_has (hreq t!"name" (by simp [requiredKeys])) w1
  obtain ⟨incs, hincs⟩ := strs_of_has (hreq t!"include_files" (by simp [requiredKeys])) w2
  obtain ⟨ct, hct⟩ := str_of_has (hreq t!"container_type" (by simp [requiredKeys])) w3
  have h5 := (reqStr_ok_iff _ _ _).2 hname
  have h6 := (reqStrs_ok_iff _ _ _).2 hincs
  cases b with
  | atlas =>
    obtain ⟨cc, sc, ciC, ciS, hb, hcC, hcS, hlk, -⟩ := branch_atlas
    have h4 : ∃ libs, libsStage (branchOf .atlas) md = .ok libs := by
      unfold libsStage; rw [hlk]; simp only []
      cases hl : md.has t!"link_libraries" with
      | true =>
        obtain ⟨l, hl'⟩ := strs_of_has hl w6
        exact ⟨l, by simp [(reqStrs_ok_iff _ _ _).2 hl']⟩
      | false => exact ⟨[], by simp⟩
    obtain ⟨libs, h4⟩ := h4
    cases hg : md.get? t!"contains_collection" with
    | none => simp [Md.has, hg] at hcc
    | some flag =>
      cases hf : flag.truthy with
      | true =>
        have hfl : md.flag = true := by simp [Md.flag, hg, hf]
        obtain ⟨et, het⟩ := str_of_has (hflag.1 hfl) w4
        have h3 : containerStage (branchOf .atlas) md = .ok (ciC, ct, some et) := by
          unfold containerStage; rw [hb]; simp only [hg, hf, if_true]; exact collStage_of hct het hcC
        exact ⟨_, validateWith_of h1 h2 h3 h4 h5 h6⟩
      | false =>
        have h3 : containerStage (branchOf .atlas) md = .ok (ciS, ct, none) := by
          unfold containerStage; rw [hb]; simp only [hg, hf, Bool.false_eq_true, if_false]; exact singleStage_of hct hcS
        exact ⟨_, validateWith_of h1 h2 h3 h4 h5 h6⟩
  | cmsAod =>
    obtain ⟨cc, ciC, hb, hcC, hlk, -⟩ := branch_cmsAod
    have hfl : md.flag = true := by
      rcases hcms with h | h | h
      · exact absurd h (by decide)
      · exact h
      · rw [hcc] at h; exact absurd h (by decide)
    obtain ⟨et, het⟩ := str_of_has (hflag.1 hfl) w4
    have h3 : ∃ ci, containerStage (branchOf .cmsAod) md = .ok (ci, ct, some et) := by
      unfold containerStage; rw [hb]; simp only [collStage_of hct het hcC]; exact ⟨_, rfl⟩
    obtain ⟨ci, h3⟩ := h3
    have h4 : libsStage (branchOf .cmsAod) md = .ok [] := by unfold libsStage; rw [hlk]
    exact ⟨_, validateWith_of h1 h2 h3 h4 h5 h6⟩
  | cmsMiniaod =>
    obtain ⟨cc, ciC, hb, hcC, hlk, -⟩ := branch_cmsMiniaod
    have hfl : md.flag = true := by
      rcases hcms with h | h | h
      · exact absurd h (by decide)
      · exact h
      · rw [hcc] at h; exact absurd h (by decide)
    obtain ⟨et, het⟩ := str_of_has (hflag.1 hfl) w4
    have h3 : ∃ ci, containerStage (branchOf .cmsMiniaod) md = .ok (ci, ct, some et) := by
      unfold containerStage; rw [hb]; simp only [collStage_of hct het hcC]; exact ⟨_, rfl⟩
    obtain ⟨ci, h3⟩ := h3
    have h4 : libsStage (branchOf .cmsMiniaod) md = .ok [] := by unfold libsStage; rw [hlk]
    exact ⟨_, validateWith_of h1 h2 h3 h4 h5 h6⟩

/-! ## `declare`: tables -/

inductive Rel₂ {α β : Type} (R : α → β → Prop) : List α → List β → Prop where
  | nil : Rel₂ R [] []
  | cons {a b as bs} : R a b → Rel₂ R as bs → Rel₂ R (a :: as) (b :: bs)

theorem validate_of_mdType (b : Backend) (md : Md) (h : md.mdType = b.mdType) :
    validate md = validateWith (branchOf b) md := by
  unfold validate; rw [h, findBranch_mdType]

theorem validate_ok_branch {md : Md} {c : CollSpec} (h : validate md = .ok c) :
    ∃ b : Backend, md.mdType = b.mdType ∧ validateWith (branchOf b) md = .ok c := by
  unfold validate at h
  cases hf : findBranch md.mdType with
  | none => simp [hf] at h
  | some br =>
    obtain ⟨b, h1, h2⟩ := findBranch_some _ _ hf
    rw [hf] at h; subst h2
    exact ⟨b, h1, h⟩

theorem mdType_injective (b b' : Backend) (h : b.mdType = b'.mdType) : b = b' := by
  cases b <;> cases b' <;> first | rfl | (exact absurd h (by decide))

theorem checkBackends_ok_iff (b : Backend) (cs : List CollSpec) :
    checkBackends b cs = .ok () ↔ ∀ c ∈ cs, c.backend = b.execName := by
  induction cs with
  | nil => simp [checkBackends]
  | cons c cs ih =>
    by_cases hc : c.backend = b.execName
    · simp [checkBackends, hc, ih]
    · simp [checkBackends, hc]

/-- every accepted list of declarations: one specification per declaration, in order -/
theorem validateAll_ok {mds : List Md} {cs : List CollSpec} (h : validateAll mds = .ok cs) :
    Rel₂ (fun md c => validate md = .ok c) mds cs := by
  induction mds generalizing cs with
  | nil => simp [validateAll] at h; subst h; exact .nil
  | cons md mds ih =>
    unfold validateAll at h
    cases h1 : validate md with
    | error e => simp [h1] at h
    | ok c =>
      cases h2 : validateAll mds with
      | error e => simp [h1, h2] at h
      | ok cs' =>
        simp [h1, h2] at h; subst h
        exact .cons h1 (ih h2)

theorem validateAll_of {mds : List Md} (h : ∀ md ∈ mds, ∃ c, validate md = .ok c) : ∃ cs, validateAll mds = .ok cs := by
  induction mds with
  | nil => exact ⟨[], rfl⟩
  | cons md mds ih =>
    obtain ⟨c, hc⟩ := h md (by simp)
    obtain ⟨cs, hcs⟩ := ih (fun m hm => h m (by simp [hm]))
    exact ⟨c :: cs, by simp [validateAll, hc, hcs]⟩

theorem declare_ok {b : Backend} {mds : List Md} {table : List CollSpec} (h : declare b mds = .ok table) :
    ∃ cs, table = builtins b ++ cs ∧ Rel₂ (fun md c => validate md = .ok c) mds cs ∧
      ∀ c ∈ cs, c.backend = b.execName := by
  unfold declare at h
  cases h1 : validateAll mds with
  | error e => simp [h1] at h
  | ok cs =>
    cases h2 : checkBackends b cs with
    | error e => simp [h1, h2] at h
    | ok u =>
      simp [h1, h2] at h
      exact ⟨cs, h.symm, validateAll_ok h1, (checkBackends_ok_iff b cs).1 h2⟩

/-- what `declare` accepts: every declaration is well formed and for this backend; the table is
the property's table -/
theorem declare_sound {b : Backend} {mds : List Md} {table : List CollSpec} (h : declare b mds = .ok table) :
    (∀ md ∈ mds, ValidMd b md) ∧ (∀ c ∈ table, ClassOk b c) ∧
    table.map declOf = builtinDecls b ++ mds.map (intended b) := by
  obtain ⟨cs, rfl, hf, hb⟩ := declare_ok h
  have key : ∀ (mds : List Md) (cs : List CollSpec), Rel₂ (fun md c => validate md = .ok c) mds cs →
      (∀ c ∈ cs, c.backend = b.execName) →
      (∀ md ∈ mds, ValidMd b md) ∧ (∀ c ∈ cs, ClassOk b c) ∧
      cs.map declOf = mds.map (intended b) := by
    intro mds cs hf
    induction hf with
    | nil => intro _; simp
    | @cons md c mds cs hv _ ih =>
      intro hb
      obtain ⟨b', hty, hw⟩ := validate_ok_branch hv
      obtain ⟨v1, v2, v3, v4⟩ := validateWith_sound b' md c hty hw
      have hbb : b' = b := execName_injective _ _ (v2.symm.trans (hb c (by simp)))
      subst hbb
      obtain ⟨i1, i2, i3⟩ := ih (fun c hc => hb c (by simp [hc]))
      refine ⟨?_, ?_, ?_⟩
      · intro m hm; rcases List.mem_cons.1 hm with rfl | hm; exact v1; exact i1 m hm
      · intro x hx; rcases List.mem_cons.1 hx with rfl | hx; exact v3; exact i2 x hx
      · simp only [List.map_cons]
        rw [v4, i3]
  obtain ⟨k1, k2, k3⟩ := key mds cs hf hb
  refine ⟨k1, ?_, ?_⟩
  · intro c hc
    rcases List.mem_append.1 hc with hc | hc
    · exact builtins_classOk b c hc
    · exact k2 c hc
  · rw [List.map_append, builtins_declOf, k3]

theorem declare_complete {b : Backend} {mds : List Md} (hv : ∀ md ∈ mds, ValidMd b md) (hwt : ∀ md ∈ mds, md.WellTyped)
    (hcms : ∀ md ∈ mds, CmsIsCollection b md) : ∃ table, declare b mds = .ok table := by
  have h1 : ∀ md ∈ mds, ∃ c, validate md = .ok c := by
    intro md hm
    rw [validate_of_mdType b md (hv md hm).1]
    exact validateWith_complete b md (hv md hm) (hwt md hm) (hcms md hm)
  obtain ⟨cs, hcs⟩ := validateAll_of h1
  have hb : ∀ c ∈ cs, c.backend = b.execName := by
    have hf := validateAll_ok hcs
    clear hcs h1
    induction hf with
    | nil => simp
    | @cons md c mds cs hvv _ ih =>
      intro x hx
      rcases List.mem_cons.1 hx with rfl | hx
      · rw [validate_of_mdType b md (hv md (by simp)).1] at hvv
        exact (validateWith_sound b md x (hv md (by simp)).1 hvv).2.1
      · exact ih (fun m hm => hv m (by simp [hm])) (fun m hm => hwt m (by simp [hm])) (fun m hm => hcms m (by simp [hm])) x hx
  exact ⟨builtins b ++ cs, by simp [declare, hcs, (checkBackends_ok_iff b cs).2 hb]⟩

/-! ## lookup -/

theorem lookupDecl_map (l : List CollSpec) (n : Text) : lookupDecl (l.map declOf) n = (lookup l n).map declOf := by
  induction l with
  | nil => rfl
  | cons c l ih =>
    simp only [List.map_cons, lookupDecl, lookup, ih]
    cases lookup l n with
    | some c' => rfl
    | none =>
      simp only [Option.map_none, declOf]
      by_cases hc : c.name = n
      · subst hc; simp [declOf]
      · simp [hc]

theorem lookup_append (l₁ l₂ : List CollSpec) (n : Text) :
    lookup (l₁ ++ l₂) n = match lookup l₂ n with
      | some c => some c
      | none => lookup l₁ n := by
  induction l₁ with
  | nil => simp [lookup]; cases lookup l₂ n <;> rfl
  | cons c l ih =>
    simp only [List.cons_append, lookup, ih]
    cases lookup l₂ n <;> rfl

/-! ## the two passes -/

def tokStep (cd : CoderInfo) : Nat := if cd.tokenPerUse then 1 else 0

/-- the rewritten calls on the success path of `findAll` -/
def cvsOf (cd : CoderInfo) (table : List CollSpec) : List Use → Nat → List (CodeValue × Nat)
  | [], _ => []
  | u :: us, n =>
    match lookup table u.name with
    | some c => (mkCV cd c (bankOf u.args) n, u.skip) :: cvsOf cd table us (n + tokStep cd)
    | none => cvsOf cd table us n

def UseOk (table : List CollSpec) (u : Use) : Prop := CallOk u.args ∧ (lookup table u.name).isSome = true

theorem findAll_ok {cd : CoderInfo} {table : List CollSpec} {uses : List Use} {n : Nat} {r}
    (h : findAll cd table uses n = .ok r) :
    (∀ u ∈ uses, UseOk table u) ∧ r.1 = cvsOf cd table uses n := by
  induction uses generalizing n r with
  | nil => simp [findAll] at h; subst h; simp [cvsOf]
  | cons u us ih =>
    unfold findAll at h
    cases hl : lookup table u.name with
    | none => simp [hl] at h
    | some c =>
      cases hg : getCollection cd c u.args n with
      | error e => simp [hl, hg] at h
      | ok p =>
        obtain ⟨cv, n'⟩ := p
        cases hr : findAll cd table us n' with
        | error e => simp [hl, hg, hr] at h
        | ok q =>
          obtain ⟨rest, n''⟩ := q
          simp [hl, hg, hr] at h
          subst h
          obtain ⟨s, hs⟩ := (getCollection_ok_iff cd c u.args n).1 ⟨_, hg⟩
          rw [hs, getCollection_str] at hg
          simp only [Except.ok.injEq, Prod.mk.injEq] at hg
          obtain ⟨i1, i2⟩ := ih hr
          refine ⟨?_, ?_⟩
          · intro x hx
            rcases List.mem_cons.1 hx with rfl | hx
            · exact ⟨⟨s, hs⟩, by simp [hl]⟩
            · exact i1 x hx
          · simp only [cvsOf, hl, hs, bankOf]
            rw [← hg.1]
            simp only at i2
            rw [i2, ← hg.2]
            congr 2
            unfold tokStep; split <;> rfl

theorem findAll_of {cd : CoderInfo} {table : List CollSpec} {uses : List Use} (n : Nat)
    (h : ∀ u ∈ uses, UseOk table u) : ∃ r, findAll cd table uses n = .ok r := by
  induction uses generalizing n with
  | nil => exact ⟨_, rfl⟩
  | cons u us ih =>
    obtain ⟨⟨s, hs⟩, hl⟩ := h u (by simp)
    cases hl' : lookup table u.name with
    | none => simp [hl'] at hl
    | some c =>
      obtain ⟨r, hr⟩ := ih (if cd.tokenPerUse then n + 1 else n) (fun x hx => h x (by simp [hx]))
      exact ⟨((mkCV cd c s n, u.skip) :: r.1, r.2), by simp [findAll, hl', hs, getCollection_str, hr]⟩


/-! ## include / library lists -/

theorem dedup_step (w out : List Text) (x : Text) (h : DedupSpec w out) : DedupSpec (w ++ [x]) (addUnique out x) := by
  obtain ⟨h1, h2, h3⟩ := h
  have hidx : ∀ a ∈ out, (w ++ [x]).idxOf a = w.idxOf a := by
    intro a ha
    rw [List.idxOf_append, if_pos (h1 a ha)]
  have hmap : out.map (fun a => (w ++ [x]).idxOf a) = out.map (fun a => w.idxOf a) :=
    List.map_congr_left hidx
  unfold addUnique
  by_cases hx : x ∈ out
  · simp only [hx, if_true]
    refine ⟨fun a ha => List.mem_append_left _ (h1 a ha), ?_, by rw [hmap]; exact h3⟩
    intro a ha
    rcases List.mem_append.1 ha with ha | ha
    · exact h2 a ha
    · simp only [List.mem_singleton] at ha; subst ha; exact hx
  · simp only [hx, if_false]
    have hxw : x ∉ w := fun hw => hx (h2 x hw)
    refine ⟨?_, ?_, ?_⟩
    · intro a ha
      rcases List.mem_append.1 ha with ha | ha
      · exact List.mem_append_left _ (h1 a ha)
      · exact List.mem_append_right _ ha
    · intro a ha
      rcases List.mem_append.1 ha with ha | ha
      · exact List.mem_append_left _ (h2 a ha)
      · exact List.mem_append_right _ ha
    · rw [List.map_append, hmap, List.pairwise_append]
      refine ⟨h3, by simp, ?_⟩
      intro a ha b hb
      simp only [List.map_cons, List.map_nil, List.mem_singleton] at hb
      subst hb
      obtain ⟨y, hy, rfl⟩ := List.mem_map.1 ha
      rw [List.idxOf_append, if_neg hxw]
      have := List.idxOf_lt_length_of_mem (h1 y hy)
      simp only [List.idxOf_cons_self]
      omega

theorem addAll_dedup (xs : List Text) : ∀ (pre acc : List Text), DedupSpec pre acc → DedupSpec (pre ++ xs) (addAll acc xs) := by
  induction xs with
  | nil => intro pre acc h; simpa [addAll] using h
  | cons x xs ih =>
    intro pre acc h
    have := ih (pre ++ [x]) (addUnique acc x) (dedup_step pre acc x h)
    simpa [addAll, List.append_assoc] using this

theorem addAll_nil_dedup (xs : List Text) : DedupSpec xs (addAll [] xs) := by
  have := addAll_dedup xs [] [] ⟨by simp, by simp, by simp⟩
  simpa using this

theorem addAll_append (l a b : List Text) : addAll l (a ++ b) = addAll (addAll l a) b := by
  simp [addAll, List.foldl_append]

/-! ## `emitAll` in closed form -/

theorem emitAll_includes (cvs : List (CodeValue × Nat)) : ∀ st : GenState,
    (emitAll cvs st).2.includes = addAll st.includes (cvs.flatMap (·.1.spec.includes)) ∧
    (emitAll cvs st).2.libs = addAll st.libs (cvs.flatMap (·.1.spec.libraries)) := by
  induction cvs with
  | nil => intro st; simp [emitAll, addAll]
  | cons p cvs ih =>
    intro st
    obtain ⟨cv, skip⟩ := p
    simp only [emitAll, List.flatMap_cons, addAll_append]
    exact ih _


/-! ## generated names are distinct -/

theorem digits_injective {a b : Nat} (h : digits a = digits b) : a = b := by
  have := congrArg (fun l => Nat.ofDigitChars 10 l 0) h
  simpa [digits, Nat.ofDigitChars_ten_toDigits] using this

theorem uniqueName_inj_same (p : Text) {a b : Nat} (h : uniqueName p a = uniqueName p b) : a = b :=
  digits_injective (List.append_cancel_left h)

def digitSuffix (l : Text) : Text := (l.reverse.takeWhile Char.isDigit).reverse

theorem digits_all_digit (n : Nat) : ∀ c ∈ digits n, c.isDigit = true :=
  fun _ hc => Nat.isDigit_of_mem_toDigits (by omega) (by omega) hc

theorem digitSuffix_uniqueName (p : Text) (n : Nat) (hp : endsInDigit p = false) :
    digitSuffix (uniqueName p n) = digits n := by
  unfold digitSuffix uniqueName
  rw [List.reverse_append, List.takeWhile_append_of_pos (by
    intro c hc; exact digits_all_digit n c (List.mem_reverse.1 hc))]
  have : p.reverse.takeWhile Char.isDigit = [] := by
    cases hr : p.reverse with
    | nil => rfl
    | cons c t =>
      have hl : p.getLast? = some c := by
        rw [List.getLast?_eq_head?_reverse, hr]; rfl
      simp only [endsInDigit, hl] at hp
      simp [List.takeWhile, hp]
  rw [this, List.append_nil, List.reverse_reverse]

theorem uniqueName_inj {p q : Text} {a b : Nat} (hp : endsInDigit p = false) (hq : endsInDigit q = false)
    (h : uniqueName p a = uniqueName q b) : a = b := by
  have := congrArg digitSuffix h
  rw [digitSuffix_uniqueName p a hp, digitSuffix_uniqueName q b hq] at this
  exact digits_injective this

theorem tokenName_injective {a b : Nat} (h : tokenName a = tokenName b) : a = b := uniqueName_inj_same _ h


/-! ## one call, any backend -/

theorem memberOp_eq (n : Nat) : memberOp n = if (n != 0) = true then t!"->" else t!"." := by
  unfold memberOp; cases n <;> simp

theorem observe_fragSpec (b : Backend) (c : CollSpec) (bank : Text) (f : Frag) (k : Consumer) (hc : ClassOk b c)
    (hl : f.lines = expectedLines b (expectedTy b (declOf c)) (cppLit bank) f.tok f.var)
    (hd : f.decl = expectedDecl (expectedTy b (declOf c)) f.var) (hr : f.rep = repOf c f.var) :
    FragSpec b (declOf c) bank (f.observe k) := by
  have hE : (declOf c).element = c.element := rfl
  have hP : (declOf c).elemPtr = (c.element.isSome && c.depthElem != 0) := rfl
  generalize declOf c = d at *
  unfold FragSpec Frag.observe
  rw [hr, hE]
  unfold repOf
  cases he : c.element with
  | none =>
    simp only []
    refine ⟨hl, by rw [hd], trivial, trivial, ?_⟩
    intro o ho
    rw [List.eq_of_mem_replicate ho, hc.depthType]; rfl
  | some e =>
    simp only []
    refine ⟨hl, by rw [hd], ?_, ?_, trivial⟩
    · intro x hx
      rw [List.eq_of_mem_replicate hx, hc.depthType]; rfl
    · intro o ho
      rw [List.eq_of_mem_replicate ho, memberOp_eq, hP, he]
      simp

/-- the block and the state after one call, whatever the backend -/
theorem frag_any (b : Backend) (c : CollSpec) (bank : Text) (n : Nat) (st : GenState) (hc : ClassOk b c)
    (hclean : hasWord paramName c.container = false) :
    let r := processNode (mkCV b.coder c bank n) st
    r.1.lines = expectedLines b (expectedTy b (declOf c)) (cppLit bank) r.1.tok r.1.var ∧
    r.1.decl = expectedDecl (expectedTy b (declOf c)) r.1.var ∧
    r.1.rep = repOf c r.1.var ∧ r.1.var = uniqueName (lowerText c.name) st.counter ∧ r.2.counter = st.counter + 1 ∧
    (match b with
     | .cmsMiniaod => r.1.tok = tokenName n ∧
        r.2.classDecls = st.classDecls ++ [expectedTokenDecl (declOf c) (tokenName n)] ∧
        r.2.book = st.book ++ [expectedTokenInit (declOf c) (cppLit bank) (tokenName n)]
     | _ => r.1.tok = [] ∧ r.2.classDecls = st.classDecls ∧ r.2.book = st.book) := by
  cases b with
  | atlas =>
    obtain ⟨h1, h2, h3⟩ := frag_atlas c bank n st hc hclean
    exact ⟨h1, h2, rfl, rfl, rfl, h3, by simp [processNode, mkCV, Backend.coder, Gen.atlasCoder], by simp [processNode, mkCV, Backend.coder, Gen.atlasCoder]⟩
  | cmsAod =>
    obtain ⟨h1, h2, h3⟩ := frag_cmsAod c bank n st hc hclean
    exact ⟨h1, h2, rfl, rfl, rfl, h3, by simp [processNode, mkCV, Backend.coder, Gen.cmsAodCoder], by simp [processNode, mkCV, Backend.coder, Gen.cmsAodCoder]⟩
  | cmsMiniaod =>
    obtain ⟨h1, h2, h3, h4, h5⟩ := frag_cmsMiniaod c bank n st hc hclean
    exact ⟨h1, h2, rfl, rfl, rfl, h3, h4, h5⟩


/-! ## the whole job -/

/-- the collections the calls mean, read off the model's table -/
def dsOf (table : List CollSpec) : List Use → List (Decl × Text)
  | [] => []
  | u :: us =>
    match lookup table u.name with
    | some c => (declOf c, bankOf u.args) :: dsOf table us
    | none => dsOf table us

theorem lookup_name {l : List CollSpec} {n : Text} {c : CollSpec} (h : lookup l n = some c) : c.name = n := by
  induction l with
  | nil => simp [lookup] at h
  | cons x l ih =>
    unfold lookup at h
    cases hl : lookup l n with
    | some c' => rw [hl] at h; simp only [Option.some.injEq] at h; subst h; exact ih hl
    | none =>
      rw [hl] at h
      by_cases hx : x.name = n
      · simp only [hx, if_true, Option.some.injEq] at h; subst h; exact hx
      · simp [hx] at h

theorem observeFrags_cons (f : Frag) (fs : List Frag) (ks : List Consumer) :
    observeFrags (f :: fs) ks = f.observe (ks.headD ⟨0, 0, 0⟩) :: observeFrags fs ks.tail := by
  cases ks <;> rfl

theorem observe_var (f : Frag) (k : Consumer) : (f.observe k).var = f.var ∧ (f.observe k).tok = f.tok := by
  unfold Frag.observe; cases f.rep <;> exact ⟨rfl, rfl⟩

theorem observeFrags_map (fs : List Frag) : ∀ ks, (observeFrags fs ks).map (·.var) = fs.map (·.var) ∧
    (observeFrags fs ks).map (·.tok) = fs.map (·.tok) := by
  induction fs with
  | nil => intro ks; exact ⟨rfl, rfl⟩
  | cons f fs ih =>
    intro ks
    rw [observeFrags_cons]
    simp only [List.map_cons, (observe_var f _).1, (observe_var f _).2, (ih ks.tail).1, (ih ks.tail).2, and_self]

theorem zip_observe_map {γ : Type} (g : Decl × Text → Text → γ) (ds : List (Decl × Text)) (fs : List Frag) : ∀ ks,
    (ds.zip (observeFrags fs ks)).map (fun p => g p.1 p.2.tok) = (ds.zip fs).map (fun p => g p.1 p.2.tok) := by
  induction fs generalizing ds with
  | nil => intro ks; simp [observeFrags]
  | cons f fs ih =>
    intro ks
    rw [observeFrags_cons]
    cases ds with
    | nil => rfl
    | cons d ds => simp only [List.zip_cons_cons, List.map_cons, (observe_var f _).2, ih ds ks.tail]

/-- the token half of the job, per backend -/
def TokPart (b : Backend) (n : Nat) (st : GenState) (r : List Frag × GenState) (ds : List (Decl × Text)) : Prop :=
  match b with
  | .cmsMiniaod =>
    (∀ f ∈ r.1, ∃ k, n ≤ k ∧ f.tok = tokenName k) ∧ (r.1.map (·.tok)).Nodup ∧
    r.2.classDecls = st.classDecls ++ (ds.zip r.1).map (fun p => expectedTokenDecl p.1.1 p.2.tok) ∧
    r.2.book = st.book ++ (ds.zip r.1).map (fun p => expectedTokenInit p.1.1 (cppLit p.1.2) p.2.tok)
  | _ => (∀ f ∈ r.1, f.tok = []) ∧ r.2.classDecls = st.classDecls ∧ r.2.book = st.book

theorem tokStep_miniaod : tokStep (Backend.coder .cmsMiniaod) = 1 := by decide

theorem emit_spec (b : Backend) (table : List CollSpec) (hcl : ∀ c ∈ table, ClassOk b c) (uses : List Use) :
    ∀ (n : Nat) (st : GenState) (ks : List Consumer),
    (∀ u ∈ uses, UseOk table u) → (∀ p ∈ dsOf table uses, TypeClean p.1) → (∀ u ∈ uses, NameClean u.name) →
    let r := emitAll (cvsOf b.coder table uses n) st
    let ds := dsOf table uses
    r.1.length = ds.length ∧
    (∀ p ∈ ds.zip (observeFrags r.1 ks), FragSpec b p.1.1 p.1.2 p.2) ∧
    (∀ f ∈ r.1, ∃ name k, NameClean name ∧ st.counter ≤ k ∧ f.var = uniqueName (lowerText name) k) ∧
    (r.1.map (·.var)).Nodup ∧
    TokPart b n st r ds := by
  induction uses with
  | nil =>
    intro n st ks _ _ _
    refine ⟨rfl, by simp [dsOf, cvsOf, emitAll, observeFrags], by simp [cvsOf, emitAll], by simp [cvsOf, emitAll], ?_⟩
    cases b <;> simp [TokPart, cvsOf, emitAll, dsOf]
  | cons u us ih =>
    intro n st ks hok hclean hnames
    obtain ⟨⟨s, hs⟩, hl⟩ := hok u (by simp)
    cases hlk : lookup table u.name with
    | none => simp [hlk] at hl
    | some c =>
      have hcmem : c ∈ table := by
        clear ih hok hclean hnames hl
        induction table with
        | nil => simp [lookup] at hlk
        | cons x l ihl =>
          unfold lookup at hlk
          cases hl2 : lookup l u.name with
          | some c' =>
            rw [hl2] at hlk; simp only [Option.some.injEq] at hlk; subst hlk
            exact List.mem_cons_of_mem _ (ihl (fun c hc => hcl c (List.mem_cons_of_mem _ hc)) hl2)
          | none =>
            rw [hl2] at hlk
            by_cases hx : x.name = u.name
            · simp only [hx, if_true, Option.some.injEq] at hlk; subst hlk; simp
            · simp [hx] at hlk
      have hc := hcl c hcmem
      have hds : dsOf table (u :: us) = (declOf c, s) :: dsOf table us := by simp [dsOf, hlk, hs, bankOf]
      have hcv : cvsOf b.coder table (u :: us) n = (mkCV b.coder c s n, u.skip) :: cvsOf b.coder table us (n + tokStep b.coder) := by
        simp [cvsOf, hlk, hs, bankOf]
      have hcl0 : hasWord paramName c.container = false := by
        have := hclean (declOf c, s) (by rw [hds]; simp)
        exact this
      simp only [hds, hcv, emitAll]
      generalize hst0 : ({ st with counter := st.counter + u.skip } : GenState) = st0
      have hst0c : st0.counter = st.counter + u.skip := by rw [← hst0]
      have hst0d : st0.classDecls = st.classDecls ∧ st0.book = st.book := by rw [← hst0]; exact ⟨rfl, rfl⟩
      obtain ⟨f1, f2, f3, f4, f5, f6⟩ := frag_any b c s n st0 hc hcl0
      generalize hr0 : processNode (mkCV b.coder c s n) st0 = r0 at f1 f2 f3 f4 f5 f6
      obtain ⟨i1, i2, i3, i4, i5⟩ := ih (n + tokStep b.coder) r0.2 ks.tail (fun x hx => hok x (by simp [hx]))
        (fun p hp => hclean p (by rw [hds]; simp [hp])) (fun x hx => hnames x (by simp [hx]))
      generalize hrs : emitAll (cvsOf b.coder table us (n + tokStep b.coder)) r0.2 = rs at i1 i2 i3 i4 i5
      have hname : c.name = u.name := lookup_name hlk
      have hnc : NameClean c.name := by rw [hname]; exact hnames u (by simp)
      refine ⟨by simp [i1], ?_, ?_, ?_, ?_⟩
      · intro p hp
        rw [observeFrags_cons, List.zip_cons_cons, List.mem_cons] at hp
        rcases hp with rfl | hp
        · exact observe_fragSpec b c s r0.1 _ hc f1 f2 f3
        · exact i2 p hp
      · intro f hf
        rcases List.mem_cons.1 hf with rfl | hf
        · exact ⟨c.name, st0.counter, hnc, by omega, f4⟩
        · obtain ⟨nm, k, h1, h2, h3⟩ := i3 f hf
          exact ⟨nm, k, h1, by omega, h3⟩
      · simp only [List.map_cons, List.nodup_cons]
        refine ⟨?_, i4⟩
        intro hmem
        obtain ⟨f, hf, hfv⟩ := List.mem_map.1 hmem
        obtain ⟨nm, k, h1, h2, h3⟩ := i3 f hf
        rw [f4, h3] at hfv
        have := uniqueName_inj h1 hnc hfv
        omega
      · cases b with
        | cmsMiniaod =>
          simp only [TokPart] at f6 i5 ⊢
          rw [tokStep_miniaod] at i5
          obtain ⟨t1, t2, t3⟩ := f6
          obtain ⟨j1, j2, j3, j4⟩ := i5
          refine ⟨?_, ?_, ?_, ?_⟩
          · intro f hf
            rcases List.mem_cons.1 hf with rfl | hf
            · exact ⟨n, Nat.le_refl _, t1⟩
            · obtain ⟨k, hk, hk2⟩ := j1 f hf
              exact ⟨k, by omega, hk2⟩
          · simp only [List.map_cons, List.nodup_cons]
            refine ⟨?_, j2⟩
            intro hmem
            obtain ⟨f, hf, hfv⟩ := List.mem_map.1 hmem
            obtain ⟨k, hk, hk2⟩ := j1 f hf
            rw [t1, hk2] at hfv
            have := tokenName_injective hfv
            omega
          · rw [j3, t2, hst0d.1, List.zip_cons_cons, List.map_cons, t1]; simp
          · rw [j4, t3, hst0d.2, List.zip_cons_cons, List.map_cons, t1]; simp
        | atlas =>
          simp only [TokPart] at f6 i5 ⊢
          obtain ⟨t1, t2, t3⟩ := f6
          obtain ⟨j1, j2, j3⟩ := i5
          refine ⟨?_, by rw [j2, t2, hst0d.1], by rw [j3, t3, hst0d.2]⟩
          intro f hf
          rcases List.mem_cons.1 hf with rfl | hf
          · exact t1
          · exact j1 f hf
        | cmsAod =>
          simp only [TokPart] at f6 i5 ⊢
          obtain ⟨t1, t2, t3⟩ := f6
          obtain ⟨j1, j2, j3⟩ := i5
          refine ⟨?_, by rw [j2, t2, hst0d.1], by rw [j3, t3, hst0d.2]⟩
          intro f hf
          rcases List.mem_cons.1 hf with rfl | hf
          · exact t1
          · exact j1 f hf

theorem resolve_eq {b : Backend} {mds : List Md} {table : List CollSpec}
    (ht : table.map declOf = builtinDecls b ++ mds.map (intended b)) (n : Text) :
    resolve b mds n = (lookup table n).map declOf := by
  unfold resolve; rw [← ht, lookupDecl_map]

theorem resolveAll_eq {b : Backend} {mds : List Md} {table : List CollSpec}
    (ht : table.map declOf = builtinDecls b ++ mds.map (intended b)) (uses : List Use) :
    resolveAll b mds uses = dsOf table uses := by
  induction uses with
  | nil => rfl
  | cons u us ih =>
    simp only [resolveAll, dsOf, resolve_eq ht, ih]
    cases lookup table u.name <;> rfl

theorem cvsOf_flat (cd : CoderInfo) (table : List CollSpec) (uses : List Use) : ∀ n,
    (cvsOf cd table uses n).flatMap (·.1.spec.includes) = (dsOf table uses).flatMap (·.1.includes) ∧
    (cvsOf cd table uses n).flatMap (·.1.spec.libraries) = (dsOf table uses).flatMap (·.1.libraries) := by
  induction uses with
  | nil => intro n; exact ⟨rfl, rfl⟩
  | cons u us ih =>
    intro n
    simp only [cvsOf, dsOf]
    cases lookup table u.name with
    | none => exact ih n
    | some c =>
      simp only [List.flatMap_cons, (ih _).1, (ih _).2]
      exact ⟨rfl, rfl⟩

theorem sameLines_refl (a : List Text) : SameLines a a := fun _ _ => rfl


theorem stripPrefix?_append (p r : Text) : stripPrefix? p (p ++ r) = some r := by
  simp [stripPrefix?]

theorem stripSuffix?_append (r s : Text) : stripSuffix? s (r ++ s) = some r := by
  have h : s.isSuffixOf (r ++ s) = true := List.isSuffixOf_iff_suffix.2 (List.suffix_append r s)
  simp [stripSuffix?, h]

/-- everything `runJob` does, related to the property -/
theorem runJob_spec (b : Backend) (mds : List Md) (uses : List Use) (c0 gap : Nat) (ks : List Consumer)
    (hwt : ∀ md ∈ mds, md.WellTyped)
    (hcms : ∀ md ∈ mds, md.mdType = b.mdType → CmsIsCollection b md)
    (hclean : ∀ p ∈ resolveAll b mds uses, TypeClean p.1) (hnames : ∀ u ∈ uses, NameClean u.name) :
    RunSpec b mds uses (outcomeOf (runJob b mds uses c0 gap) ks) := by
  cases hr : runJob b mds uses c0 gap with
  | ok out =>
    unfold runJob at hr
    cases hd : declare b mds with
    | error e => simp [hd] at hr
    | ok table =>
      cases hf : findAll b.coder table uses c0 with
      | error e => simp [hd, hf] at hr
      | ok p =>
        obtain ⟨cvs, n⟩ := p
        simp only [hd, hf, Except.ok.injEq] at hr
        obtain ⟨d1, d2, d3⟩ := declare_sound hd
        have ht := d3
        obtain ⟨u1, u2⟩ := findAll_ok hf
        have u2' : cvs = cvsOf b.coder table uses c0 := u2
        subst u2'
        have hres := resolveAll_eq ht uses
        have hacc : Acceptable b mds uses := by
          refine ⟨d1, fun u hu => ⟨(u1 u hu).1, ?_⟩⟩
          rw [resolve_eq ht]
          have := (u1 u hu).2
          cases hl : lookup table u.name with
          | none => simp [hl] at this
          | some c => rfl
        refine ⟨hacc, ?_⟩
        show JobSpec b (resolveAll b mds uses) (out.observe ks)
        rw [hres]
        rw [hres] at hclean
        generalize hst : ({ counter := n + gap, includes := [], libs := [], classDecls := [], book := [] } : GenState) = st at hr
        obtain ⟨e1, e2, e3, e4, e5⟩ := emit_spec b table d2 uses c0 st ks u1 hclean hnames
        obtain ⟨g1, g2⟩ := emitAll_includes (cvsOf b.coder table uses c0) st
        generalize hrr : emitAll (cvsOf b.coder table uses c0) st = r at hr e1 e2 e3 e4 e5 g1 g2
        subst hr
        have hm := observeFrags_map r.1 ks
        have hlen : (observeFrags r.1 ks).length = r.1.length := by
          have := congrArg List.length hm.1
          simpa using this
        refine ⟨by simp only [JobOut.observe]; rw [hlen, e1], e2, by simp only [JobOut.observe]; rw [hm.1]; exact e4, ?_, ?_, ?_⟩
        · cases b with
          | cmsMiniaod =>
            simp only [TokPart] at e5
            obtain ⟨t1, t2, t3, t4⟩ := e5
            simp only [TokenSpec, JobOut.observe]
            refine ⟨by rw [hm.2]; exact t2, ?_, ?_⟩
            · rw [zip_observe_map (fun p t => expectedTokenDecl p.1 t), t3, ← hst]
              exact sameLines_refl _
            · rw [zip_observe_map (fun p t => expectedTokenInit p.1 (cppLit p.2) t), t4, ← hst]
              exact sameLines_refl _
          | atlas =>
            simp only [TokPart] at e5
            obtain ⟨t1, t2, t3⟩ := e5
            simp only [TokenSpec, JobOut.observe]
            refine ⟨by rw [t2, ← hst], by rw [t3, ← hst], ?_⟩
            intro f hf
            have : f.tok ∈ (observeFrags r.1 ks).map (·.tok) := List.mem_map_of_mem hf
            rw [hm.2] at this
            obtain ⟨f', hf', e⟩ := List.mem_map.1 this
            rw [← e]; exact t1 f' hf'
          | cmsAod =>
            simp only [TokPart] at e5
            obtain ⟨t1, t2, t3⟩ := e5
            simp only [TokenSpec, JobOut.observe]
            refine ⟨by rw [t2, ← hst], by rw [t3, ← hst], ?_⟩
            intro f hf
            have : f.tok ∈ (observeFrags r.1 ks).map (·.tok) := List.mem_map_of_mem hf
            rw [hm.2] at this
            obtain ⟨f', hf', e⟩ := List.mem_map.1 this
            rw [← e]; exact t1 f' hf'
        · simp only [JobOut.observe]
          rw [g1, (cvsOf_flat b.coder table uses c0).1, ← hst]
          exact addAll_nil_dedup _
        · simp only [JobOut.observe]
          rw [g2, (cvsOf_flat b.coder table uses c0).2, ← hst]
          exact addAll_nil_dedup _
  | error e =>
    simp only [outcomeOf, RunSpec]
    intro hacc
    obtain ⟨table, hd⟩ := declare_complete hacc.1 hwt (fun md hm => hcms md hm (hacc.1 md hm).1)
    obtain ⟨_, _, d3⟩ := declare_sound hd
    have ht := d3
    have huse : ∀ u ∈ uses, UseOk table u := by
      intro u hu
      refine ⟨(hacc.2 u hu).1, ?_⟩
      have := (hacc.2 u hu).2
      rw [resolve_eq ht] at this
      cases hl : lookup table u.name with
      | none => simp [hl] at this
      | some c => rfl
    obtain ⟨r, hf⟩ := findAll_of (cd := b.coder) c0 huse
    simp [runJob, hd, hf] at hr

end FaxVerif.C06
