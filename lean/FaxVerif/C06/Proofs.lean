/-
C06 — helper lemmas for Theorems.lean (no property statement lives here).
-/
import FaxVerif.C06.Spec
namespace FaxVerif.C06

/-! ## whole-word substitution -/

def startsNonWord : Text → Bool
  | [] => true
  | c :: _ => !isWordChar c

def endsNonWord (a : Text) : Bool := startsNonWord a.reverse

theorem tokGo_word {c : Char} (h : isWordChar c = true) (acc cs : Text) :
    tokGo acc (c :: cs) = tokGo (acc ++ [c]) cs := by
  simp [tokGo, h]

theorem tokGo_nonword {c : Char} (h : isWordChar c = false) (acc cs : Text) :
    tokGo acc (c :: cs) = flushTok acc ++ ([c] :: tokGo [] cs) := by
  simp [tokGo, h]

theorem tokGo_append_nonword {c : Char} (hc : isWordChar c = false) (a t : Text) :
    ∀ acc, tokGo acc (a ++ c :: t) = tokGo acc a ++ ([c] :: tokGo [] t) := by
  induction a with
  | nil => intro acc; simp [tokGo, hc]
  | cons d a ih =>
    intro acc
    by_cases hd : isWordChar d = true
    · simp only [List.cons_append, tokGo_word hd]; exact ih _
    · have hd' : isWordChar d = false := by simpa using hd
      simp only [List.cons_append, tokGo_nonword hd', ih, List.append_assoc, List.cons_append]

theorem tokens_append_of_starts (a b : Text) (h : startsNonWord b = true) :
    tokens (a ++ b) = tokens a ++ tokens b := by
  cases b with
  | nil => simp [tokens, tokGo, flushTok]
  | cons c t =>
    have hc : isWordChar c = false := by simpa [startsNonWord] using h
    simp only [tokens, tokGo_append_nonword hc, tokGo_nonword hc, flushTok, List.nil_append]

theorem tokens_append_of_ends (a b : Text) (h : endsNonWord a = true) :
    tokens (a ++ b) = tokens a ++ tokens b := by
  rcases List.eq_nil_or_concat a with rfl | ⟨a', c, rfl⟩
  · simp [tokens, tokGo, flushTok]
  · have hc : isWordChar c = false := by simpa [endsNonWord, startsNonWord] using h
    simp only [List.concat_eq_append, List.append_assoc, List.singleton_append, tokens,
      tokGo_append_nonword hc]
    simp [tokGo, flushTok]

theorem tokens_append (a b : Text) (h : endsNonWord a = true ∨ startsNonWord b = true) :
    tokens (a ++ b) = tokens a ++ tokens b := by
  rcases h with h | h
  · exact tokens_append_of_ends a b h
  · exact tokens_append_of_starts a b h

theorem tokGo_allWord (u : Text) (hu : u.all isWordChar = true) : ∀ acc, tokGo acc u = flushTok (acc ++ u) := by
  induction u with
  | nil => intro acc; simp [tokGo]
  | cons c u ih =>
    intro acc
    simp only [List.all_cons, Bool.and_eq_true] at hu
    rw [tokGo_word hu.1, ih hu.2]; simp

theorem tokens_word (u : Text) (hu : u.all isWordChar = true) (hne : u ≠ []) : tokens u = [u] := by
  simp only [tokens, tokGo_allWord u hu, List.nil_append]
  cases u with
  | nil => exact absurd rfl hne
  | cons c u => rfl

theorem flushTok_flatten (acc : Text) : (flushTok acc).flatten = acc := by
  cases acc <;> simp [flushTok]

theorem tokGo_flatten (s : Text) : ∀ acc, (tokGo acc s).flatten = acc ++ s := by
  induction s with
  | nil => intro acc; simp [tokGo, flushTok_flatten]
  | cons c s ih =>
    intro acc
    by_cases hc : isWordChar c = true
    · rw [tokGo_word hc, ih]; simp
    · have hc' : isWordChar c = false := by simpa using hc
      rw [tokGo_nonword hc']; simp [flushTok_flatten, ih]

theorem tokens_flatten (s : Text) : (tokens s).flatten = s := by
  simpa [tokens] using tokGo_flatten s []

theorem fill_append (r : Text) (l₁ l₂ : List (Option Text)) : fill r (l₁ ++ l₂) = fill r l₁ ++ fill r l₂ := by
  induction l₁ with
  | nil => rfl
  | cons x l ih => cases x <;> simp [fill, ih]

theorem substWord_append (w r a b : Text) (h : endsNonWord a = true ∨ startsNonWord b = true) :
    substWord w r (a ++ b) = substWord w r a ++ substWord w r b := by
  simp [substWord, holes, tokens_append a b h, fill_append]

theorem fill_map_some (r : Text) (l : List Text) : fill r (l.map some) = l.flatten := by
  induction l with
  | nil => rfl
  | cons x l ih => simp [fill, ih]

theorem hasWord_false_iff (w s : Text) : hasWord w s = false ↔ w ∉ tokens s := by
  simp [hasWord]

theorem substWord_noWord (w r s : Text) (h : hasWord w s = false) : substWord w r s = s := by
  have hw : w ∉ tokens s := (hasWord_false_iff w s).1 h
  have : holes w s = (tokens s).map some := by
    simp only [holes]
    apply List.map_congr_left
    intro t ht
    have : t ≠ w := fun e => hw (e ▸ ht)
    simp [this]
  rw [substWord, this, fill_map_some, tokens_flatten]

theorem substWord_self (w r : Text) (hw : w.all isWordChar = true) (hne : w ≠ []) : substWord w r w = r := by
  simp [substWord, holes, tokens_word w hw hne, fill]

theorem hasWord_append (w a b : Text) (h : endsNonWord a = true ∨ startsNonWord b = true) :
    hasWord w (a ++ b) = (hasWord w a || hasWord w b) := by
  simp [hasWord, tokens_append a b h]

/-! ## the emitted block, per backend -/

/-- the property-level view of a model specification -/
def declOf (c : CollSpec) : Decl :=
  { name := c.name, includes := c.includes, container := c.container, element := c.element,
    elemPtr := c.element.isSome && c.depthElem != 0, libraries := c.libraries }

theorem paramName_word : paramName.all isWordChar = true := by decide
theorem paramName_ne : paramName ≠ [] := by decide

theorem substWord_sandwich (w r pre post : Text) (hw : w.all isWordChar = true) (hne : w ≠ [])
    (h1 : endsNonWord pre = true) (h2 : startsNonWord post = true)
    (hp : hasWord w pre = false) (hq : hasWord w post = false) :
    substWord w r (pre ++ w ++ post) = pre ++ r ++ post := by
  rw [List.append_assoc, substWord_append _ _ _ _ (Or.inl h1), substWord_append _ _ _ _ (Or.inr h2),
    substWord_noWord _ _ _ hp, substWord_noWord _ _ _ hq, substWord_self _ _ hw hne, List.append_assoc]

theorem hasWord_sandwich (w pre mid post : Text)
    (h1 : endsNonWord pre = true) (h2 : startsNonWord post = true)
    (hp : hasWord w pre = false) (hq : hasWord w post = false) (hm : hasWord w mid = false) :
    hasWord w (pre ++ mid ++ post) = false := by
  rw [List.append_assoc, hasWord_append _ _ _ (Or.inl h1), hasWord_append _ _ _ (Or.inr h2), hp, hq, hm]; rfl

theorem stmtLine_semicolon (a : Text) : stmtLine (a ++ [';']) = a ++ [';'] := by
  simp [stmtLine]

/-- what `get_collection` builds for a well-shaped call -/
def mkCV (cd : CoderInfo) (c : CollSpec) (bank : Text) (n : Nat) : CodeValue :=
  let tok : Text := match cd.tokenPrefix with
    | none => []
    | some p => if cd.tokenPerUse then uniqueName p n else uniqueName p 0
  { spec := c, bank,
    runningCode := cd.runningCode.map (render [(t!"container_type", c.tyStr), (t!"self.t_name", tok)]),
    fields := match cd.tokenInit, c.tokenTypeStr with
      | some init, some tt => [(tt, tok, render [(t!"md.container_type.type", c.container)] init)]
      | some init, none => [(t!"None", tok, render [(t!"md.container_type.type", c.container)] init)]
      | none, _ => [],
    token := tok }

theorem getCollection_str (cd : CoderInfo) (c : CollSpec) (s : Text) (n : Nat) :
    getCollection cd c [.str s] n = .ok (mkCV cd c s n, if cd.tokenPerUse then n + 1 else n) := rfl

theorem getCollection_ok_iff (cd : CoderInfo) (c : CollSpec) (args : List Arg) (n : Nat) :
    (∃ r, getCollection cd c args n = .ok r) ↔ CallOk args := by
  constructor
  · rintro ⟨r, h⟩
    match args, h with
    | [.str s], _ => exact ⟨s, rfl⟩
    | [], h => simp [getCollection] at h
    | [.other], h => simp [getCollection] at h
    | _ :: _ :: _, h => simp [getCollection] at h
  · rintro ⟨s, rfl⟩; exact ⟨_, getCollection_str cd c s n⟩

/-- the model's handle text is the property's, the token type too; pointer depths are the backend's -/
structure ClassOk (b : Backend) (c : CollSpec) : Prop where
  ty : c.tyStr = expectedTy b (declOf c)
  tok : b = .cmsMiniaod → c.tokenTypeStr = some (t!"edm::EDGetTokenT<" ++ c.container ++ t!">")
  depthType : c.depthType = 1

theorem lookupHole_head (n : Text) (t : Text) (env : List (Text × Text)) : lookupHole ((n, t) :: env) n = t := by
  simp [lookupHole, List.find?]

theorem lookupHole_tail (n n' : Text) (t : Text) (env : List (Text × Text)) (h : (n' == n) = false) :
    lookupHole ((n', t) :: env) n = lookupHole env n := by
  simp [lookupHole, List.find?, h]

theorem stmtLine_append (a b : Text) (h : b.getLast? = some ';') : stmtLine (a ++ b) = a ++ b := by
  simp [stmtLine, List.getLast?_append, h]

/-- a line `<type> <concrete rest>` is left alone by the substitution of the bank -/
theorem line_type_rest (lit ty rest : Text) (hty : hasWord paramName ty = false)
    (h1 : startsNonWord rest = true) (h2 : hasWord paramName rest = false) (h3 : rest.getLast? = some ';') :
    stmtLine (substWord paramName lit (ty ++ rest)) = ty ++ rest := by
  rw [substWord_append _ _ _ _ (Or.inr h1), substWord_noWord _ _ _ hty, substWord_noWord _ _ _ h2, stmtLine_append _ _ h3]

/-- a concrete line `pre collection_name post` gets the bank exactly there -/
theorem line_param (lit pre post : Text) (h1 : endsNonWord pre = true) (h2 : startsNonWord post = true)
    (hp : hasWord paramName pre = false) (hq : hasWord paramName post = false) (h3 : post.getLast? = some ';') :
    stmtLine (substWord paramName lit (pre ++ paramName ++ post)) = pre ++ lit ++ post := by
  rw [substWord_sandwich _ _ _ _ paramName_word paramName_ne h1 h2 hp hq, stmtLine_append _ _ h3]

theorem assign_line (x : Text) : x ++ t!" = " ++ resultName ++ [';'] = x ++ t!" = result;" := by
  rw [List.append_assoc, List.append_assoc]
  congr 1

theorem hasWord_expectedTy (b : Backend) (d : Decl) (h : hasWord paramName d.container = false) :
    hasWord paramName (expectedTy b d) = false := by
  unfold expectedTy
  cases b <;> cases d.element <;> simp only [] <;>
  · apply hasWord_sandwich <;> first | decide | exact h

/-- ATLAS: the block that `process_ast_node` emits for a well-shaped call -/
theorem frag_atlas (c : CollSpec) (bank : Text) (n : Nat) (st : GenState) (hc : ClassOk .atlas c)
    (hclean : hasWord paramName c.container = false) :
    let f := (processNode (mkCV Gen.atlasCoder c bank n) st).1
    f.lines = expectedLines .atlas (expectedTy .atlas (declOf c)) (cppLit bank) f.tok f.var ∧
    f.decl = expectedDecl (expectedTy .atlas (declOf c)) f.var ∧ f.tok = [] := by
  have hcleanTy := hasWord_expectedTy .atlas (declOf c) hclean
  simp only [processNode, mkCV, Gen.atlasCoder, List.map_cons, List.map_nil, render, lookupHole_head, List.append_nil, hc.ty]
  refine ⟨?_, rfl, trivial⟩
  rw [line_type_rest _ _ _ hcleanTy (by decide) (by decide) (by decide)]
  rw [show t!"ANA_CHECK (evtStore()->retrieve(result, collection_name));" =
      t!"ANA_CHECK (evtStore()->retrieve(result, " ++ paramName ++ t!"));" from by decide]
  rw [line_param _ _ _ (by decide) (by decide) (by decide) (by decide) (by decide), assign_line]
  rfl

/-- CMS AOD -/
theorem frag_cmsAod (c : CollSpec) (bank : Text) (n : Nat) (st : GenState) (hc : ClassOk .cmsAod c)
    (hclean : hasWord paramName c.container = false) :
    let f := (processNode (mkCV Gen.cmsAodCoder c bank n) st).1
    f.lines = expectedLines .cmsAod (expectedTy .cmsAod (declOf c)) (cppLit bank) f.tok f.var ∧
    f.decl = expectedDecl (expectedTy .cmsAod (declOf c)) f.var ∧ f.tok = [] := by
  have hcleanTy := hasWord_expectedTy .cmsAod (declOf c) hclean
  simp only [processNode, mkCV, Gen.cmsAodCoder, List.map_cons, List.map_nil, render, lookupHole_head, List.append_nil, hc.ty]
  refine ⟨?_, rfl, trivial⟩
  rw [line_type_rest _ _ _ hcleanTy (by decide) (by decide) (by decide)]
  rw [show t!"iEvent.getByLabel(collection_name, result);" =
      t!"iEvent.getByLabel(" ++ paramName ++ t!", result);" from by decide]
  rw [line_param _ _ _ (by decide) (by decide) (by decide) (by decide) (by decide), assign_line]
  rfl


theorem isWordChar_of_isDigit {c : Char} (h : c.isDigit = true) : isWordChar c = true := by
  simp [isWordChar, Char.isAlphanum, h]

theorem digits_all_word (n : Nat) : (digits n).all isWordChar = true := by
  simp only [List.all_eq_true, digits]
  intro c hc
  exact isWordChar_of_isDigit (Nat.isDigit_of_mem_toDigits (by omega) (by omega) hc)

theorem digits_ne_nil (n : Nat) : digits n ≠ [] := Nat.toDigits_ne_nil

theorem endsNonWord_append (a b : Text) (hb : b ≠ []) : endsNonWord (a ++ b) = endsNonWord b := by
  cases hr : b.reverse with
  | nil => simp at hr; exact absurd hr hb
  | cons c t => simp [endsNonWord, hr, startsNonWord]

/-- the token of a miniAOD use -/
def tokenName (n : Nat) : Text := uniqueName (t!"token") n

theorem tokenName_word (n : Nat) : (tokenName n).all isWordChar = true := by
  simp only [tokenName, uniqueName, List.all_append, digits_all_word, Bool.and_true]; decide

theorem hasWord_tokenName (n : Nat) : hasWord paramName (tokenName n) = false := by
  have h1 : tokenName n = 't' :: (['o', 'k', 'e', 'n'] ++ digits n) := by
    simp only [tokenName, uniqueName, tx, String.reduceToList, List.cons_append, List.nil_append]
  have h2 : paramName = 'c' :: t!"ollection_name" := by decide
  have hne : tokenName n ≠ [] := by rw [h1]; exact List.cons_ne_nil _ _
  rw [hasWord_false_iff, tokens_word _ (tokenName_word n) hne, List.mem_singleton, h1, h2]
  intro h
  exact absurd (List.cons.inj h).1 (by decide)

theorem tx_eq (s : String) : tx s = s.toList := rfl
theorem paramName_eq : paramName = t!"collection_name" := rfl
theorem resultName_eq : resultName = t!"result" := rfl

/-- closes equalities between append chains of literals and variables -/
macro "text_eq" : tactic =>
  `(tactic| simp only [paramName_eq, resultName_eq, List.append_assoc, List.cons_append, List.nil_append])

/-- CMS miniAOD -/
theorem frag_cmsMiniaod (c : CollSpec) (bank : Text) (n : Nat) (st : GenState) (hc : ClassOk .cmsMiniaod c)
    (hclean : hasWord paramName c.container = false) :
    let r := processNode (mkCV Gen.cmsMiniaodCoder c bank n) st
    r.1.lines = expectedLines .cmsMiniaod (expectedTy .cmsMiniaod (declOf c)) (cppLit bank) r.1.tok r.1.var ∧
    r.1.decl = expectedDecl (expectedTy .cmsMiniaod (declOf c)) r.1.var ∧ r.1.tok = tokenName n ∧
    r.2.classDecls = st.classDecls ++ [expectedTokenDecl (declOf c) (tokenName n)] ∧
    r.2.book = st.book ++ [expectedTokenInit (declOf c) (cppLit bank) (tokenName n)] := by
  have hcleanTy := hasWord_expectedTy .cmsMiniaod (declOf c) hclean
  have htt := hc.tok rfl
  simp only [processNode, mkCV, Gen.cmsMiniaodCoder, List.map_cons, List.map_nil, render, lookupHole_head,
    lookupHole_tail _ _ _ _ (show (t!"container_type" == t!"self.t_name") = false from by decide),
    List.append_nil, hc.ty, htt, if_true]
  refine ⟨?_, rfl, rfl, ?_, ?_⟩
  · rw [line_type_rest _ _ _ hcleanTy (by decide) (by decide) (by decide)]
    have h2 : hasWord paramName (t!"iEvent.getByToken(" ++ tokenName n ++ t!", result);") = false :=
      hasWord_sandwich _ _ _ _ (by decide) (by decide) (by decide) (by decide) (hasWord_tokenName n)
    have e : t!"iEvent.getByToken(" ++ (uniqueName t!"token" n ++ t!", result);") =
        t!"iEvent.getByToken(" ++ tokenName n ++ t!", result);" := by
      simp only [tokenName, tx, List.append_assoc]
    rw [e, substWord_noWord _ _ _ h2, stmtLine_append _ _ (show (t!", result);").getLast? = some ';' from by decide), assign_line]
    rfl
  · simp only [expectedTokenDecl, declOf, tokenName]; text_eq
  · have e : t!"consumes<" ++ (c.container ++ t!">(edm::InputTag(collection_name))") =
        (t!"consumes<" ++ c.container ++ t!">(edm::InputTag(") ++ paramName ++ t!"))" := by text_eq
    have hpre : hasWord paramName (t!"consumes<" ++ c.container ++ t!">(edm::InputTag(") = false :=
      hasWord_sandwich _ _ _ _ (by decide) (by decide) (by decide) (by decide) hclean
    rw [e, substWord_sandwich _ _ _ _ paramName_word paramName_ne
      (by rw [endsNonWord_append _ _ (by decide)]; decide) (by decide) hpre (by decide)]
    simp only [expectedTokenInit, declOf, tokenName]; text_eq

end FaxVerif.C06
