/-
C06 — helper lemmas for Theorems.lean (no property statement lives here).
-/
import FaxVerif.C06.Spec
namespace FaxVerif.C06

/-! ## whole-word substitution -/

def startsNonWord : Text → Bool
  | [] => true
  | c :: _ => !isWordChar c

def endsNonWord (a : Text) : Bool := startsNonWord a.reverse

theorem tokGo_word {c : Char} (h : isWordChar c = true) (acc cs : Text) :
    tokGo acc (c :: cs) = tokGo (acc ++ [c]) cs := by
  simp [tokGo, h]

theorem tokGo_nonword {c : Char} (h : isWordChar c = false) (acc cs : Text) :
    tokGo acc (c :: cs) = flushTok acc ++ ([c] :: tokGo [] cs) := by
  simp [tokGo, h]

theorem tokGo_append_nonword {c : Char} (hc : isWordChar c = false) (a t : Text) :
    ∀ acc, tokGo acc (a ++ c :: t) = tokGo acc a ++ ([c] :: tokGo [] t) := by
  induction a with
  | nil => intro acc; simp [tokGo, hc]
  | cons d a ih =>
    intro acc
    by_cases hd : isWordChar d = true
    · simp only [List.cons_append, tokGo_word hd]; exact ih _
    · have hd' : isWordChar d = false := by simpa using hd
      simp only [List.cons_append, tokGo_nonword hd', ih, List.append_assoc, List.cons_append]

theorem tokens_append_of_starts (a b : Text) (h : startsNonWord b = true) :
    tokens (a ++ b) = tokens a ++ tokens b := by
  cases b with
  | nil => simp [tokens, tokGo, flushTok]
  | cons c t =>
    have hc : isWordChar c = false := by simpa [startsNonWord] using h
    simp only [tokens, tokGo_append_nonword hc, tokGo_nonword hc, flushTok, List.nil_append]

theorem tokens_append_of_ends (a b : Text) (h : endsNonWord a = true) :
    tokens (a ++ b) = tokens a ++ tokens b := by
  rcases List.eq_nil_or_concat a with rfl | ⟨a', c, rfl⟩
  · simp [tokens, tokGo, flushTok]
  · have hc : isWordChar c = false := by simpa [endsNonWord, startsNonWord] using h
    simp only [List.concat_eq_append, List.append_assoc, List.singleton_append, tokens,
      tokGo_append_nonword hc]
    simp [tokGo, flushTok]

theorem tokens_append (a b : Text) (h : endsNonWord a = true ∨ startsNonWord b = true) :
    tokens (a ++ b) = tokens a ++ tokens b := by
  rcases h with h | h
  · exact tokens_append_of_ends a b h
  · exact tokens_append_of_starts a b h

theorem tokGo_allWord (u : Text) (hu : u.all isWordChar = true) : ∀ acc, tokGo acc u = flushTok (acc ++ u) := by
  induction u with
  | nil => intro acc; simp [tokGo]
  | cons c u ih =>
    intro acc
    simp only [List.all_cons, Bool.and_eq_true] at hu
    rw [tokGo_word hu.1, ih hu.2]; simp

theorem tokens_word (u : Text) (hu : u.all isWordChar = true) (hne : u ≠ []) : tokens u = [u] := by
  simp only [tokens, tokGo_allWord u hu, List.nil_append]
  cases u with
  | nil => exact absurd rfl hne
  | cons c u => rfl

theorem flushTok_flatten (acc : Text) : (flushTok acc).flatten = acc := by
  cases acc <;> simp [flushTok]

theorem tokGo_flatten (s : Text) : ∀ acc, (tokGo acc s).flatten = acc ++ s := by
  induction s with
  | nil => intro acc; simp [tokGo, flushTok_flatten]
  | cons c s ih =>
    intro acc
    by_cases hc : isWordChar c = true
    · rw [tokGo_word hc, ih]; simp
    · have hc' : isWordChar c = false := by simpa using hc
      rw [tokGo_nonword hc']; simp [flushTok_flatten, ih]

theorem tokens_flatten (s : Text) : (tokens s).flatten = s := by
  simpa [tokens] using tokGo_flatten s []

theorem fill_append (r : Text) (l₁ l₂ : List (Option Text)) : fill r (l₁ ++ l₂) = fill r l₁ ++ fill r l₂ := by
  induction l₁ with
  | nil => rfl
  | cons x l ih => cases x <;> simp [fill, ih]

theorem substWord_append (w r a b : Text) (h : endsNonWord a = true ∨ startsNonWord b = true) :
    substWord w r (a ++ b) = substWord w r a ++ substWord w r b := by
  simp [substWord, holes, tokens_append a b h, fill_append]

theorem fill_map_some (r : Text) (l : List Text) : fill r (l.map some) = l.flatten := by
  induction l with
  | nil => rfl
  | cons x l ih => simp [fill, ih]

theorem hasWord_false_iff (w s : Text) : hasWord w s = false ↔ w ∉ tokens s := by
  simp [hasWord]

theorem substWord_noWord (w r s : Text) (h : hasWord w s = false) : substWord w r s = s := by
  have hw : w ∉ tokens s := (hasWord_false_iff w s).1 h
  have : holes w s = (tokens s).map some := by
    simp only [holes]
    apply List.map_congr_left
    intro t ht
    have : t ≠ w := fun e => hw (e ▸ ht)
    simp [this]
  rw [substWord, this, fill_map_some, tokens_flatten]

theorem substWord_self (w r : Text) (hw : w.all isWordChar = true) (hne : w ≠ []) : substWord w r w = r := by
  simp [substWord, holes, tokens_word w hw hne, fill]

theorem hasWord_append (w a b : Text) (h : endsNonWord a = true ∨ startsNonWord b = true) :
    hasWord w (a ++ b) = (hasWord w a || hasWord w b) := by
  simp [hasWord, tokens_append a b h]

/-! ## the emitted block, per backend -/

/-- the property-level view of a model specification -/
def declOf (c : CollSpec) : Decl :=
  { name := c.name, includes := c.includes, container := c.container, element := c.element,
    elemPtr := c.element.isSome && c.depthElem != 0, libraries := c.libraries }

theorem paramName_word : paramName.all isWordChar = true := by decide
theorem paramName_ne : paramName ≠ [] := by decide

theorem substWord_sandwich (w r pre post : Text) (hw : w.all isWordChar = true) (hne : w ≠ [])
    (h1 : endsNonWord pre = true) (h2 : startsNonWord post = true)
    (hp : hasWord w pre = false) (hq : hasWord w post = false) :
    substWord w r (pre ++ w ++ post) = pre ++ r ++ post := by
  rw [List.append_assoc, substWord_append _ _ _ _ (Or.inl h1), substWord_append _ _ _ _ (Or.inr h2),
    substWord_noWord _ _ _ hp, substWord_noWord _ _ _ hq, substWord_self _ _ hw hne, List.append_assoc]

theorem hasWord_sandwich (w pre mid post : Text)
    (h1 : endsNonWord pre = true) (h2 : startsNonWord post = true)
    (hp : hasWord w pre = false) (hq : hasWord w post = false) (hm : hasWord w mid = false) :
    hasWord w (pre ++ mid ++ post) = false := by
  rw [List.append_assoc, hasWord_append _ _ _ (Or.inl h1), hasWord_append _ _ _ (Or.inr h2), hp, hq, hm]; rfl

theorem stmtLine_semicolon (a : Text) : stmtLine (a ++ [';']) = a ++ [';'] := by
  simp [stmtLine]

/-- what `get_collection` builds for a well-shaped call -/
def mkCV (cd : CoderInfo) (c : CollSpec) (bank : Text) (n : Nat) : CodeValue :=
  let tok : Text := match cd.tokenPrefix with
    | none => []
    | some p => if cd.tokenPerUse then uniqueName p n else uniqueName p 0
  { spec := c, bank,
    runningCode := cd.runningCode.map (render [(t!"container_type", c.tyStr), (t!"self.t_name", tok)]),
    fields := match cd.tokenInit, c.tokenTypeStr with
      | some init, some tt => [(tt, tok, render [(t!"md.container_type.type", c.container)] init)]
      | some init, none => [(t!"None", tok, render [(t!"md.container_type.type", c.container)] init)]
      | none, _ => [],
    token := tok }

theorem getCollection_str (cd : CoderInfo) (c : CollSpec) (s : Text) (n : Nat) :
    getCollection cd c [.str s] n = .ok (mkCV cd c s n, if cd.tokenPerUse then n + 1 else n) := rfl

theorem getCollection_ok_iff (cd : CoderInfo) (c : CollSpec) (args : List Arg) (n : Nat) :
    (∃ r, getCollection cd c args n = .ok r) ↔ CallOk args := by
  constructor
  · rintro ⟨r, h⟩
    match args, h with
    | [.str s], _ => exact ⟨s, rfl⟩
    | [], h => simp [getCollection] at h
    | [.other], h => simp [getCollection] at h
    | _ :: _ :: _, h => simp [getCollection] at h
  · rintro ⟨s, rfl⟩; exact ⟨_, getCollection_str cd c s n⟩

/-- the model's handle text is the property's, the token type too; pointer depths are the backend's -/
structure ClassOk (b : Backend) (c : CollSpec) : Prop where
  ty : c.tyStr = expectedTy b (declOf c)
  tok : b = .cmsMiniaod → c.tokenTypeStr = some (t!"edm::EDGetTokenT<" ++ c.container ++ t!">")
  depthType : c.depthType = 1

theorem lookupHole_head (n : Text) (t : Text) (env : List (Text × Text)) : lookupHole ((n, t) :: env) n = t := by
  simp [lookupHole, List.find?]

theorem lookupHole_tail (n n' : Text) (t : Text) (env : List (Text × Text)) (h : (n' == n) = false) :
    lookupHole ((n', t) :: env) n = lookupHole env n := by
  simp [lookupHole, List.find?, h]

theorem stmtLine_append (a b : Text) (h : b.getLast? = some ';') : stmtLine (a ++ b) = a ++ b := by
  simp [stmtLine, List.getLast?_append, h]

/-- a line `<type> <concrete rest>` is left alone by the substitution of the bank -/
theorem line_type_rest (lit ty rest : Text) (hty : hasWord paramName ty = false)
    (h1 : startsNonWord rest = true) (h2 : hasWord paramName rest = false) (h3 : rest.getLast? = some ';') :
    stmtLine (substWord paramName lit (ty ++ rest)) = ty ++ rest := by
  rw [substWord_append _ _ _ _ (Or.inr h1), substWord_noWord _ _ _ hty, substWord_noWord _ _ _ h2, stmtLine_append _ _ h3]

/-- a concrete line `pre collection_name post` gets the bank exactly there -/
theorem line_param (lit pre post : Text) (h1 : endsNonWord pre = true) (h2 : startsNonWord post = true)
    (hp : hasWord paramName pre = false) (hq : hasWord paramName post = false) (h3 : post.getLast? = some ';') :
    stmtLine (substWord paramName lit (pre ++ paramName ++ post)) = pre ++ lit ++ post := by
  rw [substWord_sandwich _ _ _ _ paramName_word paramName_ne h1 h2 hp hq, stmtLine_append _ _ h3]

theorem assign_line (x : Text) : x ++ t!" = " ++ resultName ++ [';'] = x ++ t!" = result;" := by
  rw [List.append_assoc, List.append_assoc]
  congr 1

theorem hasWord_expectedTy (b : Backend) (d : Decl) (h : hasWord paramName d.container = false) :
    hasWord paramName (expectedTy b d) = false := by
  unfold expectedTy
  cases b <;> cases d.element <;> simp only [] <;>
  · apply hasWord_sandwich <;> first | decide | exact h

/-- ATLAS: the block that `process_ast_node` emits for a well-shaped call -/
theorem frag_atlas (c : CollSpec) (bank : Text) (n : Nat) (st : GenState) (hc : ClassOk .atlas c)
    (hclean : hasWord paramName c.container = false) :
    let f := (processNode (mkCV Gen.atlasCoder c bank n) st).1
    f.lines = expectedLines .atlas (expectedTy .atlas (declOf c)) (cppLit bank) f.tok f.var ∧
    f.decl = expectedDecl (expectedTy .atlas (declOf c)) f.var ∧ f.tok = [] := by
  have hcleanTy := hasWord_expectedTy .atlas (declOf c) hclean
  simp only [processNode, mkCV, Gen.atlasCoder, List.map_cons, List.map_nil, render, lookupHole_head, List.append_nil, hc.ty]
  refine ⟨?_, rfl, trivial⟩
  rw [line_type_rest _ _ _ hcleanTy (by decide) (by decide) (by decide)]
  rw [show t!"ANA_CHECK (evtStore()->retrieve(result, collection_name));" =
      t!"ANA_CHECK (evtStore()->retrieve(result, " ++ paramName ++ t!"));" from by decide]
  rw [line_param _ _ _ (by decide) (by decide) (by decide) (by decide) (by decide), assign_line]
  rfl

/-- CMS AOD -/
theorem frag_cmsAod (c : CollSpec) (bank : Text) (n : Nat) (st : GenState) (hc : ClassOk .cmsAod c)
    (hclean : hasWord paramName c.container = false) :
    let f := (processNode (mkCV Gen.cmsAodCoder c bank n) st).1
    f.lines = expectedLines .cmsAod (expectedTy .cmsAod (declOf c)) (cppLit bank) f.tok f.var ∧
    f.decl = expectedDecl (expectedTy .cmsAod (declOf c)) f.var ∧ f.tok = [] := by
  have hcleanTy := hasWord_expectedTy .cmsAod (declOf c) hclean
  simp only [processNode, mkCV, Gen.cmsAodCoder, List.map_cons, List.map_nil, render, lookupHole_head, List.append_nil, hc.ty]
  refine ⟨?_, rfl, trivial⟩
  rw [line_type_rest _ _ _ hcleanTy (by decide) (by decide) (by decide)]
  rw [show t!"iEvent.getByLabel(collection_name, result);" =
      t!"iEvent.getByLabel(" ++ paramName ++ t!", result);" from by decide]
  rw [line_param _ _ _ (by decide) (by decide) (by decide) (by decide) (by decide), assign_line]
  rfl


theorem isWordChar_of_isDigit {c : Char} (h : c.isDigit = true) : isWordChar c = true := by
  simp [isWordChar, Char.isAlphanum, h]

theorem digits_all_word (n : Nat) : (digits n).all isWordChar = true := by
  simp only [List.all_eq_true, digits]
  intro c hc
  exact isWordChar_of_isDigit (Nat.isDigit_of_mem_toDigits (by omega) (by omega) hc)

theorem digits_ne_nil (n : Nat) : digits n ≠ [] := Nat.toDigits_ne_nil

theorem endsNonWord_append (a b : Text) (hb : b ≠ []) : endsNonWord (a ++ b) = endsNonWord b := by
  cases hr : b.reverse with
  | nil => simp at hr; exact absurd hr hb
  | cons c t => simp [endsNonWord, hr, startsNonWord]

/-- the token of a miniAOD use -/
def tokenName (n : Nat) : Text := uniqueName (t!"token") n

theorem tokenName_word (n : Nat) : (tokenName n).all isWordChar = true := by
  simp only [tokenName, uniqueName, List.all_append, digits_all_word, Bool.and_true]; decide

theorem hasWord_tokenName (n : Nat) : hasWord paramName (tokenName n) = false := by
  have h1 : tokenName n = 't' :: (['o', 'k', 'e', 'n'] ++ digits n) := by
    simp only [tokenName, uniqueName, List.cons_append, List.nil_append]
  have h2 : paramName = 'c' :: t!"ollection_name" := by decide
  have hne : tokenName n ≠ [] := by rw [h1]; exact List.cons_ne_nil _ _
  rw [hasWord_false_iff, tokens_word _ (tokenName_word n) hne, List.mem_singleton, h1, h2]
  intro h
  exact absurd (List.cons.inj h).1 (by decide)

theorem paramName_eq : paramName = t!"collection_name" := rfl
theorem resultName_eq : resultName = t!"result" := rfl

/-- closes equalities between append chains of literals and variables -/
macro "text_eq" : tactic =>
  `(tactic| simp only [paramName_eq, resultName_eq, List.append_assoc, List.cons_append, List.nil_append])

/-- CMS miniAOD -/
theorem frag_cmsMiniaod (c : CollSpec) (bank : Text) (n : Nat) (st : GenState) (hc : ClassOk .cmsMiniaod c)
    (hclean : hasWord paramName c.container = false) :
    let r := processNode (mkCV Gen.cmsMiniaodCoder c bank n) st
    r.1.lines = expectedLines .cmsMiniaod (expectedTy .cmsMiniaod (declOf c)) (cppLit bank) r.1.tok r.1.var ∧
    r.1.decl = expectedDecl (expectedTy .cmsMiniaod (declOf c)) r.1.var ∧ r.1.tok = tokenName n ∧
    r.2.classDecls = st.classDecls ++ [expectedTokenDecl (declOf c) (tokenName n)] ∧
    r.2.book = st.book ++ [expectedTokenInit (declOf c) (cppLit bank) (tokenName n)] := by
  have hcleanTy := hasWord_expectedTy .cmsMiniaod (declOf c) hclean
  have htt := hc.tok rfl
  simp only [processNode, mkCV, Gen.cmsMiniaodCoder, List.map_cons, List.map_nil, render, lookupHole_head,
    lookupHole_tail _ _ _ _ (show (t!"container_type" == t!"self.t_name") = false from by decide),
    List.append_nil, hc.ty, htt, if_true]
  refine ⟨?_, rfl, rfl, ?_, ?_⟩
  · rw [line_type_rest _ _ _ hcleanTy (by decide) (by decide) (by decide)]
    have h2 : hasWord paramName (t!"iEvent.getByToken(" ++ tokenName n ++ t!", result);") = false :=
      hasWord_sandwich _ _ _ _ (by decide) (by decide) (by decide) (by decide) (hasWord_tokenName n)
    have e : t!"iEvent.getByToken(" ++ (uniqueName t!"token" n ++ t!", result);") =
        t!"iEvent.getByToken(" ++ tokenName n ++ t!", result);" := by
      simp only [tokenName, List.append_assoc]
    rw [e, substWord_noWord _ _ _ h2, stmtLine_append _ _ (show (t!", result);").getLast? = some ';' from by decide), assign_line]
    rfl
  · simp only [expectedTokenDecl, declOf, tokenName]; text_eq
  · have e : t!"consumes<" ++ (c.container ++ t!">(edm::InputTag(collection_name))") =
        (t!"consumes<" ++ c.container ++ t!">(edm::InputTag(") ++ paramName ++ t!"))" := by text_eq
    have hpre : hasWord paramName (t!"consumes<" ++ c.container ++ t!">(edm::InputTag(") = false :=
      hasWord_sandwich _ _ _ _ (by decide) (by decide) (by decide) (by decide) hclean
    rw [e, substWord_sandwich _ _ _ _ paramName_word paramName_ne
      (by rw [endsNonWord_append _ _ (by decide)]; decide) (by decide) hpre (by decide)]
    simp only [expectedTokenInit, declOf, tokenName]; text_eq

/-! ## tables, metadata branches, `validate` -/

instance (b : Backend) (c : CollSpec) : Decidable (ClassOk b c) :=
  decidable_of_iff (c.tyStr = expectedTy b (declOf c) ∧ (b = .cmsMiniaod → c.tokenTypeStr = some (t!"edm::EDGetTokenT<" ++ c.container ++ t!">")) ∧ c.depthType = 1)
    ⟨fun ⟨a, b, c⟩ => ⟨a, b, c⟩, fun h => ⟨h.ty, h.tok, h.depthType⟩⟩

theorem builtins_classOk (b : Backend) : ∀ c ∈ builtins b, ClassOk b c := by
  cases b <;> decide +kernel

theorem builtins_declOf (b : Backend) : (builtins b).map declOf = builtinDecls b := by
  cases b <;> decide +kernel

/-- the generated description of the backend's metadata branch -/
def branchOf (b : Backend) : MdBranch := (findBranch b.mdType).getD default

theorem findBranch_mdType (b : Backend) : findBranch b.mdType = some (branchOf b) := by
  cases b <;> decide +kernel

theorem findBranch_some (t : Text) (br : MdBranch) (h : findBranch t = some br) :
    ∃ b : Backend, t = b.mdType ∧ br = branchOf b := by
  unfold findBranch at h
  have hm := List.find?_some h
  have hmem := List.mem_of_find?_eq_some h
  simp only [beq_iff_eq] at hm
  have : ∀ br' ∈ Gen.mdBranches, (br'.mdType = Backend.mdType .atlas ∧ br' = branchOf .atlas) ∨
      (br'.mdType = Backend.mdType .cmsAod ∧ br' = branchOf .cmsAod) ∨
      (br'.mdType = Backend.mdType .cmsMiniaod ∧ br' = branchOf .cmsMiniaod) := by decide +kernel
  rcases this br hmem with ⟨h1, h2⟩ | ⟨h1, h2⟩ | ⟨h1, h2⟩
  · exact ⟨.atlas, by rw [← hm, h1], h2⟩
  · exact ⟨.cmsAod, by rw [← hm, h1], h2⟩
  · exact ⟨.cmsMiniaod, by rw [← hm, h1], h2⟩


/-! ### stages of `validateWith` -/

theorem validateWith_ok {br : MdBranch} {md : Md} {c : CollSpec} (h : validateWith br md = .ok c) :
    firstUnexpected br.whitelist md.keys = none ∧ flagStage br md = .ok () ∧
    ∃ ci ct et libs name incs, containerStage br md = .ok (ci, ct, et) ∧ libsStage br md = .ok libs ∧
      md.reqStr t!"name" = .ok name ∧ md.reqStrs t!"include_files" = .ok incs ∧
      c = mkSpec br.specBackend name incs ci ct et libs := by
  unfold validateWith at h
  cases h1 : firstUnexpected br.whitelist md.keys with
  | some k => simp [h1] at h
  | none =>
    cases h2 : flagStage br md with
    | error e => simp [h1, h2] at h
    | ok u =>
      cases h3 : containerStage br md with
      | error e => simp [h1, h2, h3] at h
      | ok r =>
        obtain ⟨ci, ct, et⟩ := r
        cases h4 : libsStage br md with
        | error e => simp [h1, h2, h3, h4] at h
        | ok libs =>
          cases h5 : md.reqStr t!"name" with
          | error e => simp [h1, h2, h3, h4, h5] at h
          | ok name =>
            cases h6 : md.reqStrs t!"include_files" with
            | error e => simp [h1, h2, h3, h4, h5, h6] at h
            | ok incs =>
              simp [h1, h2, h3, h4, h5, h6] at h
              exact ⟨rfl, rfl, ci, ct, et, libs, name, incs, rfl, rfl, rfl, rfl, h.symm⟩

theorem validateWith_of {br : MdBranch} {md : Md} {ci ct et libs name incs}
    (h1 : firstUnexpected br.whitelist md.keys = none) (h2 : flagStage br md = .ok ())
    (h3 : containerStage br md = .ok (ci, ct, et)) (h4 : libsStage br md = .ok libs)
    (h5 : md.reqStr t!"name" = .ok name) (h6 : md.reqStrs t!"include_files" = .ok incs) :
    validateWith br md = .ok (mkSpec br.specBackend name incs ci ct et libs) := by
  unfold validateWith; simp [h1, h2, h3, h4, h5, h6]

theorem firstUnexpected_none_iff (wl ks : List Text) : firstUnexpected wl ks = none ↔ ∀ k ∈ ks, k ∈ wl := by
  induction ks with
  | nil => simp [firstUnexpected]
  | cons k ks ih =>
    by_cases hk : k ∈ wl
    · simp [firstUnexpected, hk, ih]
    · simp [firstUnexpected, hk]

theorem reqStr_ok_iff (md : Md) (k s : Text) : md.reqStr k = .ok s ↔ md.get? k = some (.str s) := by
  unfold Md.reqStr
  cases h : md.get? k with
  | none => simp
  | some v => cases v <;> simp

theorem reqStrs_ok_iff (md : Md) (k : Text) (l : List Text) : md.reqStrs k = .ok l ↔ md.get? k = some (.strs l) := by
  unfold Md.reqStrs
  cases h : md.get? k with
  | none => simp
  | some v => cases v <;> simp

theorem flagStage_ok_iff (br : MdBranch) (md : Md) (hf : br.flagCheck = true) :
    flagStage br md = .ok () ↔ md.has t!"contains_collection" = true ∧ (md.flag = true ↔ md.has t!"element_type" = true) := by
  unfold flagStage Md.flag Md.has
  simp only [hf, if_true]
  cases h : md.get? t!"contains_collection" with
  | none => simp
  | some v =>
    cases hv : v.truthy <;> cases he : (md.get? t!"element_type").isSome <;> simp


/-! ### facts about the generated branches and classes (re-checked whenever the source changes) -/

theorem branch_flagCheck (b : Backend) : (branchOf b).flagCheck = true := by cases b <;> decide
theorem branch_specBackend (b : Backend) : (branchOf b).specBackend = b.execName := by cases b <;> decide
theorem branch_whitelist (b : Backend) : (branchOf b).whitelist = b.whitelist := by cases b <;> decide
theorem execName_injective (b b' : Backend) (h : b.execName = b'.execName) : b = b' := by
  cases b <;> cases b' <;> first | rfl | (exact absurd h (by decide))

theorem branch_atlas : ∃ cc sc ciC ciS, (branchOf .atlas).build = .byFlag cc sc ∧
    classStage cc = .ok ciC ∧ classStage sc = .ok ciS ∧ (branchOf .atlas).librariesKey = some t!"link_libraries" ∧
    ciC.str = [.lit t!"const ", .hole t!"self.type", .lit t!"*"] ∧ ciC.depthType = 1 ∧ ciC.depthElem = 1 ∧
    ciS.str = [.lit t!"const ", .hole t!"self.type", .lit t!" *"] ∧ ciS.depthType = 1 ∧ ciS.depthElem = 0 :=
  ⟨_, _, _, _, rfl, rfl, rfl, by decide, by decide, by decide, by decide, by decide, by decide, by decide⟩

theorem branch_cmsAod : ∃ cc ciC, (branchOf .cmsAod).build = .always cc ∧
    classStage cc = .ok ciC ∧ (branchOf .cmsAod).librariesKey = none ∧
    ciC.str = [.lit t!"edm::Handle<", .hole t!"self.type", .lit t!">"] ∧ ciC.depthType = 1 ∧ ciC.depthElem = 0 :=
  ⟨_, _, rfl, rfl, by decide, by decide, by decide, by decide⟩

theorem branch_cmsMiniaod : ∃ cc ciC, (branchOf .cmsMiniaod).build = .always cc ∧
    classStage cc = .ok ciC ∧ (branchOf .cmsMiniaod).librariesKey = none ∧
    ciC.str = [.lit t!"Handle<", .hole t!"self.type", .lit t!">"] ∧ ciC.depthType = 1 ∧ ciC.depthElem = 0 ∧
    ciC.tokenType = some [.lit t!"edm::EDGetTokenT<", .hole t!"self.type", .lit t!">"] :=
  ⟨_, _, rfl, rfl, by decide, by decide, by decide, by decide, by decide⟩


theorem get?_mem_keys {md : Md} {k : Text} {v : MdVal} (h : md.get? k = some v) : k ∈ md.keys := by
  unfold Md.get? at h
  cases hf : md.fields.find? (fun p => p.1 == k) with
  | none => simp [hf] at h
  | some p =>
    have hm := List.mem_of_find?_eq_some hf
    have hk := List.find?_some hf
    simp only [beq_iff_eq] at hk
    simp only [Md.keys, List.mem_cons, List.mem_map]
    exact Or.inr ⟨p, hm, hk⟩

theorem get?_none_of_not_whitelisted {md : Md} {wl : List Text} (hk : ∀ k ∈ md.keys, k ∈ wl) {k : Text} (h : k ∉ wl) :
    md.get? k = none := by
  cases hg : md.get? k with
  | none => rfl
  | some v => exact absurd (hk k (get?_mem_keys hg)) h

theorem collStage_ok {md : Md} {cls : Text} {r} (h : collStage md cls = .ok r) :
    ∃ ci ct et, r = (ci, ct, some et) ∧ md.get? t!"container_type" = some (.str ct) ∧
      md.get? t!"element_type" = some (.str et) ∧ classStage cls = .ok ci := by
  unfold collStage at h
  cases h1 : md.reqStr t!"container_type" with
  | error e => simp [h1] at h
  | ok ct =>
    cases h2 : md.reqStr t!"element_type" with
    | error e => simp [h1, h2] at h
    | ok et =>
      cases h3 : classStage cls with
      | error e => simp [h1, h2, h3] at h
      | ok ci =>
        simp [h1, h2, h3] at h
        exact ⟨ci, ct, et, h.symm, (reqStr_ok_iff _ _ _).1 h1, (reqStr_ok_iff _ _ _).1 h2, rfl⟩

theorem singleStage_ok {md : Md} {cls : Text} {r} (h : singleStage md cls = .ok r) :
    ∃ ci ct, r = (ci, ct, none) ∧ md.get? t!"container_type" = some (.str ct) ∧ classStage cls = .ok ci := by
  unfold singleStage at h
  cases h1 : md.reqStr t!"container_type" with
  | error e => simp [h1] at h
  | ok ct =>
    cases h3 : classStage cls with
    | error e => simp [h1, h3] at h
    | ok ci =>
      simp [h1, h3] at h
      exact ⟨ci, ct, h.symm, (reqStr_ok_iff _ _ _).1 h1, rfl⟩

theorem has_of_get? {md : Md} {k : Text} {v : MdVal} (h : md.get? k = some v) : md.has k = true := by
  simp [Md.has, h]

theorem getStr_of {md : Md} {k s : Text} (h : md.get? k = some (.str s)) : getStr md k = s := by simp [getStr, h]
theorem getStrs_of {md : Md} {k : Text} {l : List Text} (h : md.get? k = some (.strs l)) : getStrs md k = l := by simp [getStrs, h]
theorem getStrs_none {md : Md} {k : Text} (h : md.get? k = none) : getStrs md k = [] := by simp [getStrs, h]

theorem render_three (t a b : Text) : render [(t!"self.type", t)] [.lit a, .hole t!"self.type", .lit b] = a ++ t ++ b := by
  simp [render, lookupHole_head]


theorem keys_of_ok {b : Backend} {md : Md} (h1 : firstUnexpected (branchOf b).whitelist md.keys = none) :
    ∀ k ∈ md.keys, k ∈ b.whitelist := by
  rw [branch_whitelist] at h1
  exact (firstUnexpected_none_iff _ _).1 h1

/-- what an accepted declaration is, stage by stage (any backend) -/
theorem validateWith_sound (b : Backend) (md : Md) (c : CollSpec) (hty : md.mdType = b.mdType)
    (h : validateWith (branchOf b) md = .ok c) :
    ValidMd b md ∧ c.backend = b.execName ∧ ClassOk b c ∧ (KindDefault b md → declOf c = intended b md) := by
  obtain ⟨h1, h2, ci, ct, et, libs, name, incs, h3, h4, h5, h6, rfl⟩ := validateWith_ok h
  have hkeys := keys_of_ok h1
  obtain ⟨hcc, hflag⟩ := (flagStage_ok_iff _ _ (branch_flagCheck b)).1 h2
  have hname := (reqStr_ok_iff _ _ _).1 h5
  have hincs := (reqStrs_ok_iff _ _ _).1 h6
  cases b with
  | atlas =>
    obtain ⟨cc, sc, ciC, ciS, hb, hcC, hcS, hlk, f1, f2, f3, f4, f5, f6⟩ := branch_atlas
    unfold containerStage at h3
    rw [hb] at h3
    simp only [] at h3
    unfold libsStage at h4
    rw [hlk] at h4
    simp only [] at h4
    cases hg : md.get? t!"contains_collection" with
    | none => simp [Md.has, hg] at hcc
    | some flag =>
      rw [hg] at h3
      simp only [] at h3
      have hlibs : libs = getStrs md t!"link_libraries" := by
        cases hl : md.has t!"link_libraries" with
        | true =>
          rw [hl] at h4; simp only [if_true] at h4
          rw [getStrs_of ((reqStrs_ok_iff _ _ _).1 h4)]
        | false =>
          rw [hl] at h4; simp only [Bool.false_eq_true, if_false, Except.ok.injEq] at h4
          have : md.get? t!"link_libraries" = none := by simpa [Md.has] using hl
          rw [getStrs_none this, h4]
      cases hf : flag.truthy with
      | true =>
        rw [hf] at h3; simp only [if_true] at h3
        obtain ⟨ci', ct', et', e, g1, g2, g3⟩ := collStage_ok h3
        rw [hcC] at g3
        simp only [Prod.mk.injEq, Except.ok.injEq] at e g3
        obtain ⟨rfl, rfl, rfl⟩ := e
        subst g3
        have hfl : md.flag = true := by simp [Md.flag, hg, hf]
        refine ⟨⟨hty, hkeys, ?_, hflag⟩, ?_, ⟨?_, ?_, ?_⟩, ?_⟩
        · intro k hk
          simp only [requiredKeys, List.mem_cons, List.not_mem_nil, or_false] at hk
          rcases hk with rfl | rfl | rfl | rfl
          · exact has_of_get? hname
          · exact has_of_get? hincs
          · exact has_of_get? g1
          · exact hcc
        · simp [mkSpec, branch_specBackend]
        · simp [mkSpec, CollSpec.tyStr, f1, render_three, expectedTy, declOf]
        · intro hh; cases hh
        · simp [mkSpec, f2]
        · intro hkd
          simp only [KindDefault] at hkd
          have hnoep : md.get? t!"element_pointer" = none :=
            get?_none_of_not_whitelisted hkeys (by decide)
          simp [declOf, intended, mkSpec, getStr_of hname, getStrs_of hincs, getStr_of g1, getStr_of g2, hfl, hlibs, f3,
            hnoep, Backend.elemPtrDefault]
      | false =>
        rw [hf] at h3; simp only [Bool.false_eq_true, if_false] at h3
        obtain ⟨ci', ct', e, g1, g3⟩ := singleStage_ok h3
        rw [hcS] at g3
        simp only [Prod.mk.injEq, Except.ok.injEq] at e g3
        obtain ⟨rfl, rfl, rfl⟩ := e
        subst g3
        have hfl : md.flag = false := by simp [Md.flag, hg, hf]
        refine ⟨⟨hty, hkeys, ?_, hflag⟩, ?_, ⟨?_, ?_, ?_⟩, ?_⟩
        · intro k hk
          simp only [requiredKeys, List.mem_cons, List.not_mem_nil, or_false] at hk
          rcases hk with rfl | rfl | rfl | rfl
          · exact has_of_get? hname
          · exact has_of_get? hincs
          · exact has_of_get? g1
          · exact hcc
        · simp [mkSpec, branch_specBackend]
        · simp [mkSpec, CollSpec.tyStr, f4, render_three, expectedTy, declOf]
        · intro hh; cases hh
        · simp [mkSpec, f5]
        · intro _
          simp [declOf, intended, mkSpec, getStr_of hname, getStrs_of hincs, getStr_of g1, hfl, hlibs]
  | cmsAod =>
    obtain ⟨cc, ciC, hb, hcC, hlk, f1, f2, f3⟩ := branch_cmsAod
    unfold containerStage at h3
    rw [hb] at h3
    simp only [] at h3
    unfold libsStage at h4
    rw [hlk] at h4
    simp only [Except.ok.injEq] at h4
    subst h4
    obtain ⟨ci', ct', et', e, g1, g2, g3⟩ := collStage_ok h3
    rw [hcC] at g3
    simp only [Prod.mk.injEq, Except.ok.injEq] at e g3
    obtain ⟨rfl, rfl, rfl⟩ := e
    subst g3
    have hfl : md.flag = true := hflag.2 (has_of_get? g2)
    have hnoll : md.get? t!"link_libraries" = none := get?_none_of_not_whitelisted hkeys (by decide)
    refine ⟨⟨hty, hkeys, ?_, hflag⟩, ?_, ⟨?_, ?_, ?_⟩, ?_⟩
    · intro k hk
      simp only [requiredKeys, List.mem_cons, List.not_mem_nil, or_false] at hk
      rcases hk with rfl | rfl | rfl | rfl
      · exact has_of_get? hname
      · exact has_of_get? hincs
      · exact has_of_get? g1
      · exact hcc
    · simp [mkSpec, branch_specBackend]
    · simp [mkSpec, CollSpec.tyStr, f1, render_three, expectedTy, declOf]
    · intro hh; cases hh
    · simp [mkSpec, f2]
    · intro hkd
      simp only [KindDefault] at hkd
      cases hep : md.get? t!"element_pointer" with
      | none =>
        simp [declOf, intended, mkSpec, getStr_of hname, getStrs_of hincs, getStr_of g1, getStr_of g2, hfl, f3,
          hep, getStrs_none hnoll, Backend.elemPtrDefault]
      | some v =>
        rw [hep] at hkd
        simp only [Backend.elemPtrDefault] at hkd
        simp [declOf, intended, mkSpec, getStr_of hname, getStrs_of hincs, getStr_of g1, getStr_of g2, hfl, f3,
          hep, getStrs_none hnoll, hkd]
  | cmsMiniaod =>
    obtain ⟨cc, ciC, hb, hcC, hlk, f1, f2, f3, f4⟩ := branch_cmsMiniaod
    unfold containerStage at h3
    rw [hb] at h3
    simp only [] at h3
    unfold libsStage at h4
    rw [hlk] at h4
    simp only [Except.ok.injEq] at h4
    subst h4
    obtain ⟨ci', ct', et', e, g1, g2, g3⟩ := collStage_ok h3
    rw [hcC] at g3
    simp only [Prod.mk.injEq, Except.ok.injEq] at e g3
    obtain ⟨rfl, rfl, rfl⟩ := e
    subst g3
    have hfl : md.flag = true := hflag.2 (has_of_get? g2)
    have hnoll : md.get? t!"link_libraries" = none := get?_none_of_not_whitelisted hkeys (by decide)
    refine ⟨⟨hty, hkeys, ?_, hflag⟩, ?_, ⟨?_, ?_, ?_⟩, ?_⟩
    · intro k hk
      simp only [requiredKeys, List.mem_cons, List.not_mem_nil, or_false] at hk
      rcases hk with rfl | rfl | rfl | rfl
      · exact has_of_get? hname
      · exact has_of_get? hincs
      · exact has_of_get? g1
      · exact hcc
    · simp [mkSpec, branch_specBackend]
    · simp [mkSpec, CollSpec.tyStr, f1, render_three, expectedTy, declOf]
    · intro _; simp [mkSpec, CollSpec.tokenTypeStr, f4, render_three]
    · simp [mkSpec, f2]
    · intro hkd
      simp only [KindDefault] at hkd
      cases hep : md.get? t!"element_pointer" with
      | none =>
        simp [declOf, intended, mkSpec, getStr_of hname, getStrs_of hincs, getStr_of g1, getStr_of g2, hfl, f3,
          hep, getStrs_none hnoll, Backend.elemPtrDefault]
      | some v =>
        rw [hep] at hkd
        simp only [Backend.elemPtrDefault] at hkd
        simp [declOf, intended, mkSpec, getStr_of hname, getStrs_of hincs, getStr_of g1, getStr_of g2, hfl, f3,
          hep, getStrs_none hnoll, hkd]


theorem str_of_has {md : Md} {k : Text} (hh : md.has k = true) (ht : md.has k = true → isStr (md.get? k) = true) :
    ∃ s, md.get? k = some (.str s) := by
  have := ht hh
  cases hg : md.get? k with
  | none => simp [hg, isStr] at this
  | some v => cases v <;> simp_all [isStr]

theorem strs_of_has {md : Md} {k : Text} (hh : md.has k = true) (ht : md.has k = true → isStrs (md.get? k) = true) :
    ∃ l, md.get? k = some (.strs l) := by
  have := ht hh
  cases hg : md.get? k with
  | none => simp [hg, isStrs] at this
  | some v => cases v <;> simp_all [isStrs]

theorem collStage_of {md : Md} {cls : Text} {ci ct et} (h1 : md.get? t!"container_type" = some (.str ct))
    (h2 : md.get? t!"element_type" = some (.str et)) (h3 : classStage cls = .ok ci) :
    collStage md cls = .ok (ci, ct, some et) := by
  simp [collStage, (reqStr_ok_iff _ _ _).2 h1, (reqStr_ok_iff _ _ _).2 h2, h3]

theorem singleStage_of {md : Md} {cls : Text} {ci ct} (h1 : md.get? t!"container_type" = some (.str ct))
    (h3 : classStage cls = .ok ci) : singleStage md cls = .ok (ci, ct, none) := by
  simp [singleStage, (reqStr_ok_iff _ _ _).2 h1, h3]

/-- a well-formed, well-typed declaration is accepted (CMS: if it declares a collection) -/
theorem validateWith_complete (b : Backend) (md : Md) (hv : ValidMd b md) (hwt : md.WellTyped)
    (hcms : CmsIsCollection b md) : ∃ c, validateWith (branchOf b) md = .ok c := by
  obtain ⟨_, hkeys, hreq, hflag⟩ := hv
  obtain ⟨w1, w2, w3, w4, w5, w6, w7⟩ := hwt
  have h1 : firstUnexpected (branchOf b).whitelist md.keys = none := by
    rw [branch_whitelist]; exact (firstUnexpected_none_iff _ _).2 hkeys
  have hcc := hreq t!"contains_collection" (by simp [requiredKeys])
  have h2 : flagStage (branchOf b) md = .ok () := (flagStage_ok_iff _ _ (branch_flagCheck b)).2 ⟨hcc, hflag⟩
  obtain ⟨name, hname⟩ := str_of_has (hreq t!"name" (by simp [requiredKeys])) w1
  obtain ⟨incs, hincs⟩ := strs_of_has (hreq t!"include_files" (by simp [requiredKeys])) w2
  obtain ⟨ct, hct⟩ := str_of_has (hreq t!"container_type" (by simp [requiredKeys])) w3
  have h5 := (reqStr_ok_iff _ _ _).2 hname
  have h6 := (reqStrs_ok_iff _ _ _).2 hincs
  cases b with
  | atlas =>
    obtain ⟨cc, sc, ciC, ciS, hb, hcC, hcS, hlk, -⟩ := branch_atlas
    have h4 : ∃ libs, libsStage (branchOf .atlas) md = .ok libs := by
      unfold libsStage; rw [hlk]; simp only []
      cases hl : md.has t!"link_libraries" with
      | true =>
        obtain ⟨l, hl'⟩ := strs_of_has hl w6
        exact ⟨l, by simp [(reqStrs_ok_iff _ _ _).2 hl']⟩
      | false => exact ⟨[], by simp⟩
    obtain ⟨libs, h4⟩ := h4
    cases hg : md.get? t!"contains_collection" with
    | none => simp [Md.has, hg] at hcc
    | some flag =>
      cases hf : flag.truthy with
      | true =>
        have hfl : md.flag = true := by simp [Md.flag, hg, hf]
        obtain ⟨et, het⟩ := str_of_has (hflag.1 hfl) w4
        have h3 : containerStage (branchOf .atlas) md = .ok (ciC, ct, some et) := by
          unfold containerStage; rw [hb]; simp only [hg, hf, if_true]; exact collStage_of hct het hcC
        exact ⟨_, validateWith_of h1 h2 h3 h4 h5 h6⟩
      | false =>
        have h3 : containerStage (branchOf .atlas) md = .ok (ciS, ct, none) := by
          unfold containerStage; rw [hb]; simp only [hg, hf, Bool.false_eq_true, if_false]; exact singleStage_of hct hcS
        exact ⟨_, validateWith_of h1 h2 h3 h4 h5 h6⟩
  | cmsAod =>
    obtain ⟨cc, ciC, hb, hcC, hlk, -⟩ := branch_cmsAod
    have hfl : md.flag = true := by rcases hcms with h | h; exact absurd h (by decide); exact h
    obtain ⟨et, het⟩ := str_of_has (hflag.1 hfl) w4
    have h3 : containerStage (branchOf .cmsAod) md = .ok (ciC, ct, some et) := by
      unfold containerStage; rw [hb]; exact collStage_of hct het hcC
    have h4 : libsStage (branchOf .cmsAod) md = .ok [] := by unfold libsStage; rw [hlk]
    exact ⟨_, validateWith_of h1 h2 h3 h4 h5 h6⟩
  | cmsMiniaod =>
    obtain ⟨cc, ciC, hb, hcC, hlk, -⟩ := branch_cmsMiniaod
    have hfl : md.flag = true := by rcases hcms with h | h; exact absurd h (by decide); exact h
    obtain ⟨et, het⟩ := str_of_has (hflag.1 hfl) w4
    have h3 : containerStage (branchOf .cmsMiniaod) md = .ok (ciC, ct, some et) := by
      unfold containerStage; rw [hb]; exact collStage_of hct het hcC
    have h4 : libsStage (branchOf .cmsMiniaod) md = .ok [] := by unfold libsStage; rw [hlk]
    exact ⟨_, validateWith_of h1 h2 h3 h4 h5 h6⟩

/-! ## `declare`: tables -/

inductive Rel₂ {α β : Type} (R : α → β → Prop) : List α → List β → Prop where
  | nil : Rel₂ R [] []
  | cons {a b as bs} : R a b → Rel₂ R as bs → Rel₂ R (a :: as) (b :: bs)

theorem validate_of_mdType (b : Backend) (md : Md) (h : md.mdType = b.mdType) :
    validate md = validateWith (branchOf b) md := by
  unfold validate; rw [h, findBranch_mdType]

theorem validate_ok_branch {md : Md} {c : CollSpec} (h : validate md = .ok c) :
    ∃ b : Backend, md.mdType = b.mdType ∧ validateWith (branchOf b) md = .ok c := by
  unfold validate at h
  cases hf : findBranch md.mdType with
  | none => simp [hf] at h
  | some br =>
    obtain ⟨b, h1, h2⟩ := findBranch_some _ _ hf
    rw [hf] at h; subst h2
    exact ⟨b, h1, h⟩

theorem mdType_injective (b b' : Backend) (h : b.mdType = b'.mdType) : b = b' := by
  cases b <;> cases b' <;> first | rfl | (exact absurd h (by decide))

theorem checkBackends_ok_iff (b : Backend) (cs : List CollSpec) :
    checkBackends b cs = .ok () ↔ ∀ c ∈ cs, c.backend = b.execName := by
  induction cs with
  | nil => simp [checkBackends]
  | cons c cs ih =>
    by_cases hc : c.backend = b.execName
    · simp [checkBackends, hc, ih]
    · simp [checkBackends, hc]

/-- every accepted list of declarations: one specification per declaration, in order -/
theorem validateAll_ok {mds : List Md} {cs : List CollSpec} (h : validateAll mds = .ok cs) :
    Rel₂ (fun md c => validate md = .ok c) mds cs := by
  induction mds generalizing cs with
  | nil => simp [validateAll] at h; subst h; exact .nil
  | cons md mds ih =>
    unfold validateAll at h
    cases h1 : validate md with
    | error e => simp [h1] at h
    | ok c =>
      cases h2 : validateAll mds with
      | error e => simp [h1, h2] at h
      | ok cs' =>
        simp [h1, h2] at h; subst h
        exact .cons h1 (ih h2)

theorem validateAll_of {mds : List Md} (h : ∀ md ∈ mds, ∃ c, validate md = .ok c) : ∃ cs, validateAll mds = .ok cs := by
  induction mds with
  | nil => exact ⟨[], rfl⟩
  | cons md mds ih =>
    obtain ⟨c, hc⟩ := h md (by simp)
    obtain ⟨cs, hcs⟩ := ih (fun m hm => h m (by simp [hm]))
    exact ⟨c :: cs, by simp [validateAll, hc, hcs]⟩

theorem declare_ok {b : Backend} {mds : List Md} {table : List CollSpec} (h : declare b mds = .ok table) :
    ∃ cs, table = builtins b ++ cs ∧ Rel₂ (fun md c => validate md = .ok c) mds cs ∧
      ∀ c ∈ cs, c.backend = b.execName := by
  unfold declare at h
  cases h1 : validateAll mds with
  | error e => simp [h1] at h
  | ok cs =>
    cases h2 : checkBackends b cs with
    | error e => simp [h1, h2] at h
    | ok u =>
      simp [h1, h2] at h
      exact ⟨cs, h.symm, validateAll_ok h1, (checkBackends_ok_iff b cs).1 h2⟩

/-- what `declare` accepts: every declaration is well formed and for this backend; the table is
the property's table -/
theorem declare_sound {b : Backend} {mds : List Md} {table : List CollSpec} (h : declare b mds = .ok table) :
    (∀ md ∈ mds, ValidMd b md) ∧ (∀ c ∈ table, ClassOk b c) ∧
    ((∀ md ∈ mds, KindDefault b md) → table.map declOf = builtinDecls b ++ mds.map (intended b)) := by
  obtain ⟨cs, rfl, hf, hb⟩ := declare_ok h
  have key : ∀ (mds : List Md) (cs : List CollSpec), Rel₂ (fun md c => validate md = .ok c) mds cs →
      (∀ c ∈ cs, c.backend = b.execName) →
      (∀ md ∈ mds, ValidMd b md) ∧ (∀ c ∈ cs, ClassOk b c) ∧
      ((∀ md ∈ mds, KindDefault b md) → cs.map declOf = mds.map (intended b)) := by
    intro mds cs hf
    induction hf with
    | nil => intro _; simp
    | @cons md c mds cs hv _ ih =>
      intro hb
      obtain ⟨b', hty, hw⟩ := validate_ok_branch hv
      obtain ⟨v1, v2, v3, v4⟩ := validateWith_sound b' md c hty hw
      have hbb : b' = b := execName_injective _ _ (v2.symm.trans (hb c (by simp)))
      subst hbb
      obtain ⟨i1, i2, i3⟩ := ih (fun c hc => hb c (by simp [hc]))
      refine ⟨?_, ?_, ?_⟩
      · intro m hm; rcases List.mem_cons.1 hm with rfl | hm; exact v1; exact i1 m hm
      · intro x hx; rcases List.mem_cons.1 hx with rfl | hx; exact v3; exact i2 x hx
      · intro hk
        simp only [List.map_cons]
        rw [v4 (hk md (by simp)), i3 (fun m hm => hk m (by simp [hm]))]
  obtain ⟨k1, k2, k3⟩ := key mds cs hf hb
  refine ⟨k1, ?_, ?_⟩
  · intro c hc
    rcases List.mem_append.1 hc with hc | hc
    · exact builtins_classOk b c hc
    · exact k2 c hc
  · intro hk
    rw [List.map_append, builtins_declOf, k3 hk]

theorem declare_complete {b : Backend} {mds : List Md} (hv : ∀ md ∈ mds, ValidMd b md) (hwt : ∀ md ∈ mds, md.WellTyped)
    (hcms : ∀ md ∈ mds, CmsIsCollection b md) : ∃ table, declare b mds = .ok table := by
  have h1 : ∀ md ∈ mds, ∃ c, validate md = .ok c := by
    intro md hm
    rw [validate_of_mdType b md (hv md hm).1]
    exact validateWith_complete b md (hv md hm) (hwt md hm) (hcms md hm)
  obtain ⟨cs, hcs⟩ := validateAll_of h1
  have hb : ∀ c ∈ cs, c.backend = b.execName := by
    have hf := validateAll_ok hcs
    clear hcs h1
    induction hf with
    | nil => simp
    | @cons md c mds cs hvv _ ih =>
      intro x hx
      rcases List.mem_cons.1 hx with rfl | hx
      · rw [validate_of_mdType b md (hv md (by simp)).1] at hvv
        exact (validateWith_sound b md x (hv md (by simp)).1 hvv).2.1
      · exact ih (fun m hm => hv m (by simp [hm])) (fun m hm => hwt m (by simp [hm])) (fun m hm => hcms m (by simp [hm])) x hx
  exact ⟨builtins b ++ cs, by simp [declare, hcs, (checkBackends_ok_iff b cs).2 hb]⟩

/-! ## lookup -/

theorem lookupDecl_map (l : List CollSpec) (n : Text) : lookupDecl (l.map declOf) n = (lookup l n).map declOf := by
  induction l with
  | nil => rfl
  | cons c l ih =>
    simp only [List.map_cons, lookupDecl, lookup, ih]
    cases lookup l n with
    | some c' => rfl
    | none =>
      simp only [Option.map_none, declOf]
      by_cases hc : c.name = n
      · subst hc; simp [declOf]
      · simp [hc]

theorem lookup_append (l₁ l₂ : List CollSpec) (n : Text) :
    lookup (l₁ ++ l₂) n = match lookup l₂ n with
      | some c => some c
      | none => lookup l₁ n := by
  induction l₁ with
  | nil => simp [lookup]; cases lookup l₂ n <;> rfl
  | cons c l ih =>
    simp only [List.cons_append, lookup, ih]
    cases lookup l₂ n <;> rfl

end FaxVerif.C06
