/-
C06 — helper lemmas for Theorems.lean (no property statement lives here).
-/
import FaxVerif.C06.Spec
namespace FaxVerif.C06

/-! ## whole-word substitution -/

def startsNonWord : Text → Bool
  | [] => true
  | c :: _ => !isWordChar c

def endsNonWord (a : Text) : Bool := startsNonWord a.reverse

theorem tokGo_word {c : Char} (h : isWordChar c = true) (acc cs : Text) :
    tokGo acc (c :: cs) = tokGo (acc ++ [c]) cs := by
  simp [tokGo, h]

theorem tokGo_nonword {c : Char} (h : isWordChar c = false) (acc cs : Text) :
    tokGo acc (c :: cs) = flushTok acc ++ ([c] :: tokGo [] cs) := by
  simp [tokGo, h]

theorem tokGo_append_nonword {c : Char} (hc : isWordChar c = false) (a t : Text) :
    ∀ acc, tokGo acc (a ++ c :: t) = tokGo acc a ++ ([c] :: tokGo [] t) := by
  induction a with
  | nil => intro acc; simp [tokGo, hc]
  | cons d a ih =>
    intro acc
    by_cases hd : isWordChar d = true
    · simp only [List.cons_append, tokGo_word hd]; exact ih _
    · have hd' : isWordChar d = false := by simpa using hd
      simp only [List.cons_append, tokGo_nonword hd', ih, List.append_assoc, List.cons_append]

theorem tokens_append_of_starts (a b : Text) (h : startsNonWord b = true) :
    tokens (a ++ b) = tokens a ++ tokens b := by
  cases b with
  | nil => simp [tokens, tokGo, flushTok]
  | cons c t =>
    have hc : isWordChar c = false := by simpa [startsNonWord] using h
    simp only [tokens, tokGo_append_nonword hc, tokGo_nonword hc, flushTok, List.nil_append]

theorem tokens_append_of_ends (a b : Text) (h : endsNonWord a = true) :
    tokens (a ++ b) = tokens a ++ tokens b := by
  rcases List.eq_nil_or_concat a with rfl | ⟨a', c, rfl⟩
  · simp [tokens, tokGo, flushTok]
  · have hc : isWordChar c = false := by simpa [endsNonWord, startsNonWord] using h
    simp only [List.concat_eq_append, List.append_assoc, List.singleton_append, tokens,
      tokGo_append_nonword hc]
    simp [tokGo, flushTok]

theorem tokens_append (a b : Text) (h : endsNonWord a = true ∨ startsNonWord b = true) :
    tokens (a ++ b) = tokens a ++ tokens b := by
  rcases h with h | h
  · exact tokens_append_of_ends a b h
  · exact tokens_append_of_starts a b h

theorem tokGo_allWord (u : Text) (hu : u.all isWordChar = true) : ∀ acc, tokGo acc u = flushTok (acc ++ u) := by
  induction u with
  | nil => intro acc; simp [tokGo]
  | cons c u ih =>
    intro acc
    simp only [List.all_cons, Bool.and_eq_true] at hu
    rw [tokGo_word hu.1, ih hu.2]; simp

theorem tokens_word (u : Text) (hu : u.all isWordChar = true) (hne : u ≠ []) : tokens u = [u] := by
  simp only [tokens, tokGo_allWord u hu, List.nil_append]
  cases u with
  | nil => exact absurd rfl hne
  | cons c u => rfl

theorem flushTok_flatten (acc : Text) : (flushTok acc).flatten = acc := by
  cases acc <;> simp [flushTok]

theorem tokGo_flatten (s : Text) : ∀ acc, (tokGo acc s).flatten = acc ++ s := by
  induction s with
  | nil => intro acc; simp [tokGo, flushTok_flatten]
  | cons c s ih =>
    intro acc
    by_cases hc : isWordChar c = true
    · rw [tokGo_word hc, ih]; simp
    · have hc' : isWordChar c = false := by simpa using hc
      rw [tokGo_nonword hc']; simp [flushTok_flatten, ih]

theorem tokens_flatten (s : Text) : (tokens s).flatten = s := by
  simpa [tokens] using tokGo_flatten s []

theorem fill_append (r : Text) (l₁ l₂ : List (Option Text)) : fill r (l₁ ++ l₂) = fill r l₁ ++ fill r l₂ := by
  induction l₁ with
  | nil => rfl
  | cons x l ih => cases x <;> simp [fill, ih]

theorem substWord_append (w r a b : Text) (h : endsNonWord a = true ∨ startsNonWord b = true) :
    substWord w r (a ++ b) = substWord w r a ++ substWord w r b := by
  simp [substWord, holes, tokens_append a b h, fill_append]

theorem fill_map_some (r : Text) (l : List Text) : fill r (l.map some) = l.flatten := by
  induction l with
  | nil => rfl
  | cons x l ih => simp [fill, ih]

theorem hasWord_false_iff (w s : Text) : hasWord w s = false ↔ w ∉ tokens s := by
  simp [hasWord]

theorem substWord_noWord (w r s : Text) (h : hasWord w s = false) : substWord w r s = s := by
  have hw : w ∉ tokens s := (hasWord_false_iff w s).1 h
  have : holes w s = (tokens s).map some := by
    simp only [holes]
    apply List.map_congr_left
    intro t ht
    have : t ≠ w := fun e => hw (e ▸ ht)
    simp [this]
  rw [substWord, this, fill_map_some, tokens_flatten]

theorem substWord_self (w r : Text) (hw : w.all isWordChar = true) (hne : w ≠ []) : substWord w r w = r := by
  simp [substWord, holes, tokens_word w hw hne, fill]

theorem hasWord_append (w a b : Text) (h : endsNonWord a = true ∨ startsNonWord b = true) :
    hasWord w (a ++ b) = (hasWord w a || hasWord w b) := by
  simp [hasWord, tokens_append a b h]

end FaxVerif.C06
