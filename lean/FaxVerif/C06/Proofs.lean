/- C06 — helper lemmas (to be filled in) -/
import FaxVerif.C06.Spec
namespace FaxVerif.C06
end FaxVerif.C06
