/-
C06 — property theorems of the extension: the finder reaches every position of a query, which
declaration lists are refused, what the rendered files include.
-/
import FaxVerif.C06.Proofs
import FaxVerif.C06.ExtModel
namespace FaxVerif.C06

/-! ## T — the rendering source was understood -/

/-- **C06.render_source_recognised** — the translator read `write_cpp_files`' include / library
lists as plain concatenations of the visitor's lists and the inject blocks' lists, and found the
`#include` loops of every template. -/
theorem render_source_recognised : GenR.unrecognised = [] := by decide

/-! ## the finder reaches every position -/

theorem argShape_visit (known : Text → Bool) (e : PExpr) : argShape (visit known e) = argShape e := by
  cases e with
  | callAttr r a args => simp only [visit]; split <;> rfl
  | callName f args => simp only [visit]; split <;> rfl
  | _ => simp [visit, argShape]

theorem shapes_visitAll (known : Text → Bool) : ∀ es : PExprs, (visitAll known es).shapes = es.shapes
  | .nil => by simp [visitAll, PExprs.shapes]
  | .cons e es => by simp [visitAll, PExprs.shapes, argShape_visit, shapes_visitAll known es]

mutual
theorem visit_found (known : Text → Bool) : ∀ e : PExpr, e.raw = true →
    found (visit known e) = sites known e ∧ sites known (visit known e) = []
  | .atom t, _ => by simp [visit, found, sites]
  | .str s, _ => by simp [visit, found, sites]
  | .node ks, h => by
    have ih := visitAll_found known ks (by simpa [PExpr.raw] using h)
    simp [visit, found, sites, ih]
  | .callAttr r a args, h => by
    have ih := visitAll_found known args (by simpa [PExpr.raw] using h)
    by_cases hk : known a = true
    · simp [visit, hk, found, sites, ih, shapes_visitAll]
    · simp [visit, hk, found, sites, ih]
  | .callName f args, h => by
    have ih := visitAll_found known args (by simpa [PExpr.raw] using h)
    by_cases hk : known f = true
    · simp [visit, hk, found, sites, ih, shapes_visitAll]
    · simp [visit, hk, found, sites, ih]
  | .callOther f args, h => by
    have h' : f.raw = true ∧ args.raw = true := by simpa [PExpr.raw] using h
    have ih1 := visit_found known f h'.1
    have ih2 := visitAll_found known args h'.2
    simp [visit, found, sites, ih1, ih2]
  | .rewritten n args, h => by simp [PExpr.raw] at h
theorem visitAll_found (known : Text → Bool) : ∀ es : PExprs, es.raw = true →
    foundAll (visitAll known es) = sitesAll known es ∧ sitesAll known (visitAll known es) = []
  | .nil, _ => by simp [visitAll, foundAll, sitesAll]
  | .cons e es, h => by
    have h' : e.raw = true ∧ es.raw = true := by simpa [PExprs.raw] using h
    have ih1 := visit_found known e h'.1
    have ih2 := visitAll_found known es h'.2
    simp [visitAll, foundAll, sitesAll, ih1, ih2]
end

/-- **C06.every_collection_call_found** — for EVERY expression tree and every table of method
names: each call that names a known function — at whatever position: inside the arguments of
another rewritten call (`DeltaR(e.Jets("a")…)`, a declared function), of a method, in a
conditional, a tuple / dict element, a lambda body, at any depth — is rewritten exactly once
(`found` lists the rewritten calls in post-order: it IS the list of call sites, same names, same
argument shapes, same multiplicity), and no call naming a known function is left anywhere in
the result. -/
theorem every_collection_call_found (known : Text → Bool) (e : PExpr) (h : e.raw = true) :
    found (visit known e) = sites known e ∧ sites known (visit known e) = [] ∧
    (found (visit known e)).length = (sites known e).length := by
  obtain ⟨h1, h2⟩ := visit_found known e h
  exact ⟨h1, h2, by rw [h1]⟩

/-- `DeltaR(e.Jets("a").eta…, 1.0)` with both names known: both calls are sites -/
example :
    let known : Text → Bool := fun n => n == t!"DeltaR" || n == t!"Jets"
    let e : PExpr := .callName t!"DeltaR" (.cons (.callOther (.node (.cons (.callAttr t!"e" t!"Jets" (.cons (.str t!"a") .nil)) .nil)) .nil) (.cons (.atom t!"1.0") .nil))
    e.raw = true ∧ sites known e = [(t!"Jets", [.str t!"a"]), (t!"DeltaR", [.other, .other])] ∧
      found (visit known e) = [(t!"Jets", [.str t!"a"]), (t!"DeltaR", [.other, .other])] := by
  decide

/-- **C06.finder_without_descent_counterexample** — the traversal that visits the children only of
calls that did not match (seeded change C06-e3) leaves the collection call inside the argument
list of a rewritten call unrewritten: the statement above is false of it. -/
theorem finder_without_descent_counterexample :
    ∃ (known : Text → Bool) (e : PExpr), e.raw = true ∧ sites known (visitNoDescent known e) ≠ [] ∧
      (found (visitNoDescent known e)).length < (sites known e).length := by
  refine ⟨fun n => n == t!"DeltaR" || n == t!"Jets",
    .callName t!"DeltaR" (.cons (.callAttr t!"e" t!"Jets" (.cons (.str t!"a") .nil)) (.cons (.atom t!"1.0") .nil)), ?_⟩
  decide

/-- **C06.run_spec_tree_partial** — the whole-job statement for query TREES: the collection calls of
the tree (every position) are what the job model translates, so `RunSpec` holds of the tree's
job under the hypotheses of `run_spec_partial`. -/
theorem run_spec_tree_partial (b : Backend) (mds : List Md) (table : List CollSpec) (known : Text → Bool) (e : PExpr)
    (c0 gap : Nat) (ks : List Consumer)
    (hwt : ∀ md ∈ mds, md.WellTyped)
    (hcms : ∀ md ∈ mds, md.mdType = b.mdType → CmsIsCollection b md)
    (hclean : ∀ p ∈ resolveAll b mds (usesOfTree table known e), TypeClean p.1)
    (hnames : ∀ u ∈ usesOfTree table known e, NameClean u.name) :
    RunSpec b mds (usesOfTree table known e) (outcomeOf (runJob b mds (usesOfTree table known e) c0 gap) ks) :=
  runJob_spec b mds (usesOfTree table known e) c0 gap ks hwt hcms hclean hnames

/-! ## which declaration lists are refused -/

theorem validateAll_error_iff (mds : List Md) :
    (∃ e, validateAll mds = .error e) ↔ ∃ md ∈ mds, ∃ e, validate md = .error e := by
  induction mds with
  | nil => simp [validateAll]
  | cons md mds ih =>
    cases h1 : validate md with
    | error e => simp [validateAll, h1]
    | ok c =>
      cases h2 : validateAll mds with
      | error e =>
        have := ih.1 (by simp [h2])
        obtain ⟨m, hm, e', he'⟩ := this
        simp only [validateAll, h1, h2, List.mem_cons]
        exact ⟨fun _ => ⟨m, Or.inr hm, e', he'⟩, fun _ => ⟨e, rfl⟩⟩
      | ok cs =>
        have hn : ¬ ∃ md ∈ mds, ∃ e, validate md = .error e := fun hx => by
          have := ih.2 hx; simp [h2] at this
        simp only [validateAll, h1, h2, List.mem_cons]
        constructor
        · rintro ⟨e, he⟩; cases he
        · rintro ⟨m, hm | hm, e, he⟩
          · subst hm; rw [h1] at he; cases he
          · exact absurd ⟨m, hm, e, he⟩ hn

theorem rel_foreign_of_not_all (b : Backend) {mds : List Md} {cs : List CollSpec}
    (hrel : Rel₂ (fun md c => validate md = .ok c) mds cs) (hnot : ¬ ∀ c ∈ cs, c.backend = b.execName) :
    ∃ md ∈ mds, ∃ c, validate md = .ok c ∧ c.backend ≠ b.execName := by
  induction hrel with
  | nil => exact absurd (by simp) hnot
  | @cons md c mds cs hv _ ih =>
    by_cases hc : c.backend = b.execName
    · have : ¬ ∀ c ∈ cs, c.backend = b.execName := fun hx => hnot (by
        intro x hx'; rcases List.mem_cons.1 hx' with rfl | hx'; exact hc; exact hx x hx')
      obtain ⟨m, hm, hb⟩ := ih this
      exact ⟨m, List.mem_cons_of_mem _ hm, hb⟩
    · exact ⟨md, by simp, c, hv, hc⟩

theorem rel_no_bad_of_all (b : Backend) {mds : List Md} {cs : List CollSpec}
    (hrel : Rel₂ (fun md c => validate md = .ok c) mds cs) (hall : ∀ c ∈ cs, c.backend = b.execName) :
    ¬ ∃ md ∈ mds, (∃ e, validate md = .error e) ∨ (∃ c, validate md = .ok c ∧ c.backend ≠ b.execName) := by
  induction hrel with
  | nil => simp
  | @cons md c mds cs hv _ ih =>
    rintro ⟨m, hm, hbad⟩
    rcases List.mem_cons.1 hm with rfl | hm'
    · rcases hbad with ⟨e, he⟩ | ⟨c', hc', hne⟩
      · rw [hv] at he; cases he
      · rw [hv] at hc'; cases hc'; exact hne (hall _ (by simp))
    · exact ih (fun x hx => hall x (by simp [hx])) ⟨m, hm', hbad⟩

/-- **C06.decl_refused_iff** — for ANY list of declarations: the executor of backend `b` refuses
the list exactly when some declaration — at whatever position, whatever precedes or follows it,
repeated or not — is refused by `process_metadata` or is accepted as a declaration for another
backend.  (No declaration is ever dropped before the backend test.) -/
theorem decl_refused_iff (b : Backend) (mds : List Md) :
    (∃ e, declare b mds = .error e) ↔
      ∃ md ∈ mds, (∃ e, validate md = .error e) ∨ (∃ c, validate md = .ok c ∧ c.backend ≠ b.execName) := by
  unfold declare
  cases h1 : validateAll mds with
  | error e =>
    have := (validateAll_error_iff mds).1 ⟨e, h1⟩
    obtain ⟨m, hm, e', he'⟩ := this
    exact ⟨fun _ => ⟨m, hm, Or.inl ⟨e', he'⟩⟩, fun _ => ⟨e, rfl⟩⟩
  | ok cs =>
    have hrel := validateAll_ok h1
    simp only []
    cases h2 : checkBackends b cs with
    | ok u =>
      have hall := (checkBackends_ok_iff b cs).1 (by cases u; exact h2)
      constructor
      · rintro ⟨e, he⟩; cases he
      · intro hx; exact absurd hx (rel_no_bad_of_all b hrel hall)
    | error e =>
      have hnot : ¬ ∀ c ∈ cs, c.backend = b.execName := fun hx => by
        have := (checkBackends_ok_iff b cs).2 hx; rw [h2] at this; cases this
      obtain ⟨m, hm, c, hc, hne⟩ := rel_foreign_of_not_all b hrel hnot
      exact ⟨fun _ => ⟨m, hm, Or.inr ⟨c, hc, hne⟩⟩, fun _ => ⟨e, rfl⟩⟩

/-- **C06.foreign_decl_refused_any_position** — a declaration that `process_metadata` accepts for
ANOTHER backend makes the executor refuse the list wherever it stands — also right after an
identical declaration for the executor's own backend (`pre ++ [own] ++ mid ++ [foreign] ++ post`). -/
theorem foreign_decl_refused_any_position (b b' : Backend) (hbb : b' ≠ b) (pre mid post : List Md) (own foreign : Md)
    (hf : foreign.mdType = b'.mdType) :
    (∃ e, declare b (pre ++ [own] ++ mid ++ [foreign] ++ post) = .error e) ∧
    (∃ e, declare b (pre ++ [foreign] ++ mid ++ [own] ++ post) = .error e) := by
  have key : (∃ e, validate foreign = .error e) ∨ (∃ c, validate foreign = .ok c ∧ c.backend ≠ b.execName) := by
    cases hv : validate foreign with
    | error e => exact Or.inl ⟨e, rfl⟩
    | ok c =>
      refine Or.inr ⟨c, rfl, ?_⟩
      rw [validate_of_mdType b' foreign hf] at hv
      have := (validateWith_sound b' foreign c hf hv).2.1
      rw [this]
      exact fun h => hbb (execName_injective _ _ h)
  exact ⟨(decl_refused_iff b _).2 ⟨foreign, by simp, key⟩, (decl_refused_iff b _).2 ⟨foreign, by simp, key⟩⟩

/-- own declaration, then the same fields declared for CMS AOD: refused on ATLAS in both orders -/
example :
    let f (ty : Text) : Md := ⟨ty, [(t!"name", .str t!"V"), (t!"include_files", .strs [t!"V.h"]), (t!"container_type", .str t!"my::VC"),
      (t!"element_type", .str t!"my::V"), (t!"contains_collection", .bool true)]⟩
    (declare .atlas [f (Backend.mdType .atlas), f (Backend.mdType .cmsAod)]).toOption = none ∧
    (declare .atlas [f (Backend.mdType .cmsAod), f (Backend.mdType .atlas)]).toOption = none ∧
    (declare .atlas [f (Backend.mdType .atlas), f (Backend.mdType .atlas)]).toOption.isSome = true := by
  decide

/-! ## what the rendered files include -/

/-- **C06.include_closure_covers** — on every backend, whatever `inject_code` blocks accompany the
query (also blocks that name the very same headers in `header_includes` or `body_includes`): every
header the visitor collected (`qv.include_files()`, which holds the headers of every used
collection — `job_includes`) is an `#include` line of the include closure of the main source. -/
theorem include_closure_covers (b : Backend) (qvIncs qvLibs : List Text) (blocks : List Inject) :
    ∀ h ∈ qvIncs, h ∈ includeClosure b qvIncs qvLibs blocks := by
  intro h hh
  cases b <;>
    simp [includeClosure, fileIncludes, templateVar, partValue, GenR.mainIncludes, GenR.includeLoops, GenR.bodyListParts,
      GenR.headerListParts, Backend.execName, Gen.atlasExecutorBackend, Gen.cmsAodExecutorBackend, Gen.cmsMiniaodExecutorBackend, hh]

/-- **C06.link_line_covers** — ATLAS: every library the visitor collected is on the link line,
whatever the inject blocks add. -/
theorem link_line_covers (qvIncs qvLibs : List Text) (blocks : List Inject) :
    ∀ l ∈ qvLibs, l ∈ linkLine .atlas qvIncs qvLibs blocks := by
  intro l hl
  simp [linkLine, templateVar, partValue, GenR.linkLoops, GenR.linkListParts, Backend.execName, Gen.atlasExecutorBackend, hl]

/-- **C06.header_includes_only_atlas** — the CMS templates render no header includes: a header named
only in an inject block's `header_includes` reaches no CMS file (so nothing may be dropped from
the body list on the ground that "the header has it"), while ATLAS renders it through `query.h`. -/
theorem header_includes_only_atlas (qvIncs qvLibs : List Text) (blocks : List Inject) :
    includeClosure .cmsAod qvIncs qvLibs blocks = qvIncs ++ blocks.flatMap (·.bodyIncludes) ∧
    includeClosure .cmsMiniaod qvIncs qvLibs blocks = qvIncs ++ blocks.flatMap (·.bodyIncludes) ∧
    includeClosure .atlas qvIncs qvLibs blocks =
      qvIncs ++ blocks.flatMap (·.bodyIncludes) ++ blocks.flatMap (·.headerIncludes) := by
  refine ⟨?_, ?_, ?_⟩ <;>
    simp [includeClosure, fileIncludes, templateVar, partValue, GenR.mainIncludes, GenR.includeLoops, GenR.bodyListParts,
      GenR.headerListParts, Backend.execName, Gen.atlasExecutorBackend, Gen.cmsAodExecutorBackend, Gen.cmsMiniaodExecutorBackend]

example : includeClosure .cmsAod [t!"A.h"] [] [⟨[t!"B.h"], [t!"A.h"], []⟩] = [t!"A.h", t!"B.h"] := by decide

/-! ## the include clause in its three readings -/

theorem filter_mem_self (out wanted : List Text) (h : ∀ x ∈ out, x ∈ wanted) :
    out.filter (fun x => decide (x ∈ wanted)) = out := by
  rw [List.filter_eq_self]
  intro x hx
  simpa using h x hx

/-- **C06.run_spec_modes** — `RunSpec` (the exact reading) implies the two weaker readings of the
include / library clause that the harness uses when other sources of headers are present. -/
theorem run_spec_modes (m : IncMode) (b : Backend) (mds : List Md) (uses : List Use) (r : Outcome)
    (h : RunSpec b mds uses r) : RunSpecM m b mds uses r := by
  cases r with
  | rejected => exact h
  | ok o =>
    obtain ⟨ha, h1, h2, h3, h4, h5, h6⟩ := h
    refine ⟨ha, h1, h2, h3, h4, ?_, ?_⟩
    · cases m with
      | exact => exact h5
      | restricted => unfold IncSpec; simp only []; rw [filter_mem_self _ _ h5.1]; exact h5
      | cover => exact h5.2.1
    · cases m with
      | exact => exact h6
      | restricted => unfold IncSpec; simp only []; rw [filter_mem_self _ _ h6.1]; exact h6
      | cover => exact h6.2.1

/-- **C06.run_spec_closure** — the whole-job statement on the rendered files: under the hypotheses of
`run_spec_partial`, with ANY inject blocks beside the query, the `cover` reading holds of the
model's job observed through the include closure of the rendered main source (and, on ATLAS,
through the link line). -/
theorem run_spec_closure (b : Backend) (mds : List Md) (uses : List Use) (c0 gap : Nat) (ks : List Consumer)
    (blocks : List Inject) (out : JobOut)
    (hwt : ∀ md ∈ mds, md.WellTyped)
    (hcms : ∀ md ∈ mds, md.mdType = b.mdType → CmsIsCollection b md)
    (hclean : ∀ p ∈ resolveAll b mds uses, TypeClean p.1) (hnames : ∀ u ∈ uses, NameClean u.name)
    (h : runJob b mds uses c0 gap = .ok out) :
    RunSpecM .cover b mds uses
      (.ok { out.observe ks with
        includes := includeClosure b out.includes out.libs blocks,
        libs := if b = .atlas then linkLine .atlas out.includes out.libs blocks else out.libs }) := by
  have hs := runJob_spec b mds uses c0 gap ks hwt hcms hclean hnames
  rw [h] at hs
  obtain ⟨ha, h1, h2, h3, h4, h5, h6⟩ := hs
  refine ⟨ha, h1, h2, h3, ?_, ?_, ?_⟩
  · cases b <;> exact h4
  · intro x hx
    exact include_closure_covers b _ _ blocks x (h5.2.1 x hx)
  · intro x hx
    have hx' := h6.2.1 x hx
    by_cases hb : b = .atlas
    · subst hb; simp only [if_true]; exact link_line_covers _ _ blocks x hx'
    · simp only [hb, if_false]; exact hx'

end FaxVerif.C06
