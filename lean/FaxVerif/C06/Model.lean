/-
C06 — executable model of how an event-collection call `e.<Collection>("bank")` becomes C++.

What is modelled (file : function of /repo):
  common/meta_data.py        : process_metadata, the three `add_*_event_collection_info` branches  → `validate`
  */executor.py              : build_collection_callback (backend test), method_names.update       → `declare`, `lookup`
  common/event_collections.py: event_collection_coder.get_collection                                → `getCollection`
  cms/miniaod/event_collections.py: get_running_code_CPPCodeValue (token per use)                   → `getCollection`
  common/cpp_ast.py          : _replace_whole_words (single word), process_ast_node                 → `substWord`, `processNode`
  common/generated_code.py   : add_include, add_link_library, declare_class_variable                → `addUnique`, `GenState`
  common/statement.py        : block.emit (declaration line), arbitrary_statement, set_var          → `stmtLine`, `processNode`
  common/cpp_vars.py         : unique_name                                                          → `uniqueName`
The tables, the `__str__`/`token_type` f-strings, the running-code lines, the metadata whitelists
come from `FaxVerif.Generated.C06Tables`, which is rewritten from the source on every run.

Texts are `List Char` (`t!"abc"` is the list literal; no `String` occurs in a term the kernel
evaluates); everything is total and computable; no Mathlib/Batteries.
-/
import FaxVerif.Generated.C06Tables
namespace FaxVerif.C06

/-! ## whole-word substitution of one name (`_replace_whole_words` with a single pair)

`re.sub(r"\bNAME\b", lambda m: repl, line)`: for a NAME made of word characters the matches are
exactly the maximal runs of word characters that are equal to NAME.  `tokens` cuts a line into
maximal word runs and single non-word characters. -/

def isWordChar (c : Char) : Bool := c.isAlphanum || c == '_'

def flushTok : Text → List Text
  | [] => []
  | acc => [acc]

def tokGo : Text → Text → List Text
  | acc, [] => flushTok acc
  | acc, c :: cs =>
    if isWordChar c then tokGo (acc ++ [c]) cs
    else flushTok acc ++ ([c] :: tokGo [] cs)

def tokens (s : Text) : List Text := tokGo [] s

/-- the line with every whole-word occurrence of `w` cut out (`none` marks the cut) -/
def holes (w s : Text) : List (Option Text) :=
  (tokens s).map fun t => if t = w then none else some t

def fill (r : Text) : List (Option Text) → Text
  | [] => []
  | none :: l => r ++ fill r l
  | some t :: l => t ++ fill r l

def substWord (w r s : Text) : Text := fill r (holes w s)

/-- does `w` occur as a whole word in `s`? -/
def hasWord (w s : Text) : Bool := (tokens s).contains w

/-- the parameter name `get_collection` gives the bank (`r.args = ["collection_name"]`) -/
def paramName : Text := t!"collection_name"

/-- the result variable of the inline block (`r.result = "result"`) -/
def resultName : Text := t!"result"

/-! ## names and literals -/

def digits (n : Nat) : Text := Nat.toDigits 10 n

/-- `unique_name(pre)` when the global counter stands at `n` -/
def uniqueName (pre : Text) (n : Nat) : Text := pre ++ digits n

/-- `str.lower()` on ASCII text -/
def lowerText (t : Text) : Text := t.map Char.toLower

def escChar : Char → Text
  | '\\' => ['\\', '\\']
  | '"' => ['\\', '"']
  | '\n' => ['\\', 'n']
  | '\r' => ['\\', 'r']
  | '\t' => ['\\', 't']
  | c => [c]

/-- `as_cpp_string_literal` (ast_to_cpp_translator.py): how the bank constant is written in C++ -/
def cppLit (s : Text) : Text := '"' :: (s.flatMap escChar ++ ['"'])

/-! ## f-string pieces -/

def lookupHole (env : List (Text × Text)) (n : Text) : Text :=
  match env.find? (fun p => p.1 == n) with
  | some p => p.2
  | none => t!"<unknown hole " ++ n ++ t!">"

def render (env : List (Text × Text)) : List Piece → Text
  | [] => []
  | .lit s :: ps => s ++ render env ps
  | .hole n :: ps => lookupHole env n ++ render env ps

/-! ## backends and collection specifications -/

inductive Backend where
  | atlas | cmsAod | cmsMiniaod
deriving DecidableEq, Repr, Inhabited

def Backend.classes : Backend → List ClassInfo
  | .atlas => Gen.atlasClasses | .cmsAod => Gen.cmsAodClasses | .cmsMiniaod => Gen.cmsMiniaodClasses

def Backend.rows : Backend → List Row
  | .atlas => Gen.atlasCollections | .cmsAod => Gen.cmsAodCollections | .cmsMiniaod => Gen.cmsMiniaodCollections

def Backend.coder : Backend → CoderInfo
  | .atlas => Gen.atlasCoder | .cmsAod => Gen.cmsAodCoder | .cmsMiniaod => Gen.cmsMiniaodCoder

/-- the name `build_collection_callback` of this backend's executor insists on -/
def Backend.execName : Backend → Text
  | .atlas => Gen.atlasExecutorBackend | .cmsAod => Gen.cmsAodExecutorBackend | .cmsMiniaod => Gen.cmsMiniaodExecutorBackend

def allClasses : List ClassInfo := Gen.atlasClasses ++ Gen.cmsAodClasses ++ Gen.cmsMiniaodClasses

/-- `EventCollectionSpecification` with its container object flattened in. -/
structure CollSpec where
  backend : Text
  name : Text
  includes : List Text
  container : Text
  element : Option Text        -- `none`: single-object container (`event_collection_container`)
  depthType : Nat
  depthElem : Nat
  libraries : List Text
  str : List Piece             -- `__str__` of the container object's class
  tokenType : Option (List Piece)
deriving DecidableEq, Repr, Inhabited

def findClass (cs : List ClassInfo) (n : Text) : Option ClassInfo := cs.find? (fun c => c.cls == n)

def Row.toSpec (cs : List ClassInfo) (r : Row) : Option CollSpec :=
  match findClass cs r.cls with
  | none => none
  | some ci => some {
      backend := r.backend, name := r.name, includes := r.includes,
      container := r.container, element := r.element,
      depthType := r.depthType, depthElem := r.depthElem, libraries := r.libraries,
      str := ci.str, tokenType := ci.tokenType }

/-- the `*_collections` list of the backend as specifications -/
def builtins (b : Backend) : List CollSpec := b.rows.filterMap (Row.toSpec b.classes)

/-- `str(container_type)`: the C++ type the variable and `result` are declared with -/
def CollSpec.tyStr (c : CollSpec) : Text := render [(t!"self.type", c.container)] c.str

/-- `container_type.token_type()` -/
def CollSpec.tokenTypeStr (c : CollSpec) : Option Text := c.tokenType.map (render [(t!"self.type", c.container)])

/-! ## metadata declarations (`process_metadata`) -/

inductive MdVal where
  | str (s : Text) | strs (l : List Text) | bool (b : Bool)
deriving DecidableEq, Repr, Inhabited

/-- a metadata dict: `metadata_type` and the other items (a dict: keys are distinct) -/
structure Md where
  mdType : Text
  fields : List (Text × MdVal)
deriving DecidableEq, Repr, Inhabited

inductive Err where
  | unknownMdType
  | unexpectedKey (k : Text)      -- ValueError
  | elementTypeMismatch           -- ValueError
  | missingKey (k : Text)         -- KeyError
  | badValue (k : Text)           -- a value of another type than the documented one (outside the modelled domain)
  | unknownClass                  -- the generated branch names a class the generated class list lacks
  | backendRefused (got : Text)   -- ValueError of build_collection_callback
  | argCount                      -- ValueError of get_collection
  | argType                       -- ValueError of get_collection
  | notACollection (n : Text)     -- the name is not a collection function (outside the modelled domain)
deriving DecidableEq, Repr, Inhabited

def Md.get? (md : Md) (k : Text) : Option MdVal :=
  match md.fields.find? (fun p => p.1 == k) with
  | some p => some p.2
  | none => none

def Md.has (md : Md) (k : Text) : Bool := (md.get? k).isSome

/-- `md.keys()` -/
def Md.keys (md : Md) : List Text := t!"metadata_type" :: md.fields.map (·.1)

/-- Python truthiness of the values we model -/
def MdVal.truthy : MdVal → Bool
  | .str s => !s.isEmpty | .strs l => !l.isEmpty | .bool b => b

def Md.reqStr (md : Md) (k : Text) : Except Err Text :=
  match md.get? k with
  | some (.str s) => .ok s
  | some _ => .error (.badValue k)
  | none => .error (.missingKey k)

def Md.reqStrs (md : Md) (k : Text) : Except Err (List Text) :=
  match md.get? k with
  | some (.strs l) => .ok l
  | some _ => .error (.badValue k)
  | none => .error (.missingKey k)

def firstUnexpected (wl : List Text) : List Text → Option Text
  | [] => none
  | k :: ks => if k ∈ wl then firstUnexpected wl ks else some k

def mkSpec (backend name : Text) (incs : List Text) (ci : ClassInfo) (ct : Text) (et : Option Text) (libs : List Text) : CollSpec :=
  { backend, name, includes := incs, container := ct, element := et, depthType := ci.depthType, depthElem := ci.depthElem,
    libraries := libs, str := ci.str, tokenType := ci.tokenType }

/-- the contains_collection / element_type consistency test -/
def flagStage (br : MdBranch) (md : Md) : Except Err Unit :=
  if br.flagCheck then
    match md.get? (t!"contains_collection") with
    | none => .error (.missingKey (t!"contains_collection"))
    | some flag =>
      if (flag.truthy && !md.has t!"element_type") || (!flag.truthy && md.has t!"element_type") then
        .error .elementTypeMismatch
      else .ok ()
  else .ok ()

def classStage (cls : Text) : Except Err ClassInfo :=
  match findClass allClasses cls with
  | some ci => .ok ci
  | none => .error .unknownClass

/-- `C(md["container_type"], md["element_type"])` -/
def collStage (md : Md) (cls : Text) : Except Err (ClassInfo × Text × Option Text) :=
  match md.reqStr t!"container_type" with
  | .error e => .error e
  | .ok ct =>
    match md.reqStr t!"element_type" with
    | .error e => .error e
    | .ok et =>
      match classStage cls with
      | .error e => .error e
      | .ok ci => .ok (ci, ct, some et)

/-- `S(md["container_type"])` -/
def singleStage (md : Md) (cls : Text) : Except Err (ClassInfo × Text × Option Text) :=
  match md.reqStr t!"container_type" with
  | .error e => .error e
  | .ok ct =>
    match classStage cls with
    | .error e => .error e
    | .ok ci => .ok (ci, ct, none)

/-- the container object -/
def containerStage (br : MdBranch) (md : Md) : Except Err (ClassInfo × Text × Option Text) :=
  match br.build with
  | .byFlag collCls singleCls =>
    match md.get? (t!"contains_collection") with
    | none => .error (.missingKey (t!"contains_collection"))
    | some flag => if flag.truthy then collStage md collCls else singleStage md singleCls
  | .always collCls => collStage md collCls
  | .alwaysPtr collCls ptrKey =>
    -- `p_depth_element=1 if md.get(ptrKey, False) else 0`
    match collStage md collCls with
    | .error e => .error e
    | .ok (ci, ct, et) =>
      let ptr := match md.get? ptrKey with
        | some v => v.truthy
        | none => false
      .ok ({ ci with depthElem := if ptr then 1 else 0 }, ct, et)

def libsStage (br : MdBranch) (md : Md) : Except Err (List Text) :=
  match br.librariesKey with
  | none => .ok []
  | some k => if md.has k then md.reqStrs k else .ok []

/-- one `add_*_event_collection_info` branch, interpreted from its generated description -/
def validateWith (br : MdBranch) (md : Md) : Except Err CollSpec :=
  -- for k in md.keys(): if k not in [...]: raise ValueError
  match firstUnexpected br.whitelist md.keys with
  | some k => .error (.unexpectedKey k)
  | none =>
    match flagStage br md with
    | .error e => .error e
    | .ok () =>
      match containerStage br md with
      | .error e => .error e
      | .ok (ci, ct, et) =>
        match libsStage br md with
        | .error e => .error e
        | .ok libs =>
          match md.reqStr t!"name" with
          | .error e => .error e
          | .ok name =>
            match md.reqStrs t!"include_files" with
            | .error e => .error e
            | .ok incs => .ok (mkSpec br.specBackend name incs ci ct et libs)

def findBranch (t : Text) : Option MdBranch := Gen.mdBranches.find? (fun b => b.mdType == t)

/-- `process_metadata` on one collection declaration -/
def validate (md : Md) : Except Err CollSpec :=
  match findBranch md.mdType with
  | none => .error .unknownMdType
  | some br => validateWith br md

def validateAll : List Md → Except Err (List CollSpec)
  | [] => .ok []
  | md :: mds =>
    match validate md with
    | .error e => .error e
    | .ok c => match validateAll mds with
      | .error e => .error e
      | .ok cs => .ok (c :: cs)

/-- `build_collection_callback` for every declared collection -/
def checkBackends (b : Backend) : List CollSpec → Except Err Unit
  | [] => .ok ()
  | c :: cs => if c.backend = b.execName then checkBackends b cs else .error (.backendRefused c.backend)

/-- the collection functions an executor of backend `b` knows after the metadata `mds` has been
processed: the built-ins, then the declared ones (`method_names.update`) -/
def declare (b : Backend) (mds : List Md) : Except Err (List CollSpec) :=
  match validateAll mds with
  | .error e => .error e
  | .ok cs => match checkBackends b cs with
    | .error e => .error e
    | .ok () => .ok (builtins b ++ cs)

/-- dict lookup after `update`: the last entry with that name wins -/
def lookup : List CollSpec → Text → Option CollSpec
  | [], _ => none
  | c :: cs, n =>
    match lookup cs n with
    | some c' => some c'
    | none => if c.name = n then some c else none

/-! ## the call site (`get_collection`) -/

inductive Arg where
  | str (s : Text)     -- a string constant
  | other              -- any other expression
deriving DecidableEq, Repr, Inhabited

/-- what `get_collection` stores in the `CPPCodeValue` -/
structure CodeValue where
  spec : CollSpec
  bank : Text
  runningCode : List Text
  /-- `(type, name, initialisation text)` of `cpv.fields` -/
  fields : List (Text × Text × Text)
  token : Text
deriving DecidableEq, Repr, Inhabited

/-- `get_collection(md, call_node)` with the name counter at `n`; returns the new counter. -/
def getCollection (cd : CoderInfo) (c : CollSpec) (args : List Arg) (n : Nat) : Except Err (CodeValue × Nat) :=
  match args with
  | [.str bank] =>
    let perUse := cd.tokenPerUse
    let tok : Text := match cd.tokenPrefix with
      | none => []
      | some p => if perUse then uniqueName p n else uniqueName p 0   -- class attribute drawn once at import
    let n' := if perUse then n + 1 else n
    let code := cd.runningCode.map (render [(t!"container_type", c.tyStr), (t!"self.t_name", tok)])
    let fields := match cd.tokenInit, c.tokenTypeStr with
      | some init, some tt => [(tt, tok, render [(t!"md.container_type.type", c.container)] init)]
      | some init, none => [(t!"None", tok, render [(t!"md.container_type.type", c.container)] init)]
      | none, _ => []
    .ok ({ spec := c, bank, runningCode := code, fields, token := tok }, n')
  | [.other] => .error .argType
  | _ => .error .argCount

/-! ## emission (`process_ast_node`) -/

/-- `add_include` / `add_link_library` -/
def addUnique (l : List Text) (x : Text) : List Text := if x ∈ l then l else l ++ [x]

def addAll (l : List Text) (xs : List Text) : List Text := xs.foldl addUnique l

/-- `arbitrary_statement.emit` -/
def stmtLine (l : Text) : Text := if l.getLast? = some ';' then l else l ++ [';']

/-- how the translator goes on to use the variable -/
inductive Rep where
  | collection (iterExpr : Text) (elemOp : Text)   -- `for (auto &&i : iterExpr)`, `i<elemOp>method()`
  | variable (accessOp : Text)                     -- `x<accessOp>method()`
deriving DecidableEq, Repr, Inhabited

def memberOp (depth : Nat) : Text := if depth = 0 then t!"." else t!"->"

def repOf (c : CollSpec) (x : Text) : Rep :=
  match c.element with
  | some _ => .collection (if c.depthType = 0 then x else '*' :: x) (memberOp c.depthElem)
  | none => .variable (memberOp c.depthType)

structure Frag where
  var : Text
  tok : Text               -- token used by the block (miniAOD), `[]` otherwise
  decl : Text              -- `T x;`
  lines : List Text        -- statements of the inline block
  rep : Rep
deriving DecidableEq, Repr, Inhabited

structure GenState where
  counter : Nat
  includes : List Text
  libs : List Text
  classDecls : List Text
  book : List Text
deriving DecidableEq, Repr, Inhabited

/-- `process_ast_node` -/
def processNode (cv : CodeValue) (st : GenState) : Frag × GenState :=
  let c := cv.spec
  let x := uniqueName (lowerText c.name) st.counter
  let lit := cppLit cv.bank
  let code := cv.runningCode.map (fun l => stmtLine (substWord paramName lit l))
  let frag : Frag := {
    var := x, tok := cv.token,
    decl := c.tyStr ++ ' ' :: x ++ [';'],
    lines := code ++ [x ++ t!" = " ++ resultName ++ [';']],
    rep := repOf c x }
  let st' : GenState := {
    counter := st.counter + 1,
    includes := addAll st.includes c.includes,
    libs := addAll st.libs c.libraries,
    classDecls := st.classDecls ++ cv.fields.map (fun f => f.1 ++ ' ' :: f.2.1 ++ [';']),
    book := st.book ++ cv.fields.map (fun f => f.2.1 ++ t!" = " ++ substWord paramName lit f.2.2 ++ [';']) }
  (frag, st')

/-! ## a whole job -/

structure Use where
  name : Text
  args : List Arg
  /-- names the translator draws for other purposes (loop variables, accumulators, …) just
  before it comes to this call -/
  skip : Nat
deriving DecidableEq, Repr, Inhabited

/-- the `cpp_ast_finder` pass: every collection call is handed to `get_collection` -/
def findAll (cd : CoderInfo) (table : List CollSpec) : List Use → Nat → Except Err (List (CodeValue × Nat) × Nat)
  | [], n => .ok ([], n)
  | u :: us, n =>
    match lookup table u.name with
    | none => .error (.notACollection u.name)
    | some c =>
      match getCollection cd c u.args n with
      | .error e => .error e
      | .ok (cv, n') =>
        match findAll cd table us n' with
        | .error e => .error e
        | .ok (rest, n'') => .ok ((cv, u.skip) :: rest, n'')

/-- the translation pass: every rewritten call is emitted by `process_ast_node` -/
def emitAll : List (CodeValue × Nat) → GenState → List Frag × GenState
  | [], st => ([], st)
  | (cv, skip) :: rest, st =>
    let r := processNode cv { st with counter := st.counter + skip }
    let rs := emitAll rest r.2
    (r.1 :: rs.1, rs.2)

structure JobOut where
  frags : List Frag
  classDecls : List Text
  book : List Text
  includes : List Text
  libs : List Text
deriving DecidableEq, Repr, Inhabited

/-- `apply_ast_transformations` + `write_cpp_files` as far as collections are concerned.
`c0`: where the name counter stands; `gap`: names drawn between the two passes. -/
def runJob (b : Backend) (mds : List Md) (uses : List Use) (c0 gap : Nat) : Except Err JobOut :=
  match declare b mds with
  | .error e => .error e
  | .ok table =>
    match findAll b.coder table uses c0 with
    | .error e => .error e
    | .ok (cvs, n) =>
      let r := emitAll cvs { counter := n + gap, includes := [], libs := [], classDecls := [], book := [] }
      .ok { frags := r.1, classDecls := r.2.classDecls, book := r.2.book, includes := r.2.includes, libs := r.2.libs }

end FaxVerif.C06
