/-
C06 — property theorems: event collections are fetched by the requested bank, type and backend
idiom.  Every statement is universally quantified over specifications, bank strings, metadata
dictionaries, lists of calls and name-counter positions (no bound on any size); the theorems
about `Gen.*` constants are re-proved whenever /repo's source changes them.
Helper lemmas live in `Proofs.lean`; nothing here is weakened to make a proof pass.
-/
import FaxVerif.C06.Proofs
namespace FaxVerif.C06

/-! ## T — the source was understood, the built-in tables are sane -/

/-- **C06.source_recognised** — the translator interpreted every construct of the anchored source
it read (tables, container and coder classes, metadata branches, executor backend tests, README);
anything it could not read is listed in `Gen.unrecognised` and makes this fail. -/
theorem source_recognised : Gen.unrecognised = [] := by decide

/-- **C06.builtin_rows** — every row of the three built-in tables is consistent with its
experiment's naming scheme: ATLAS `xAOD::<X>Container` holds `xAOD::<X>` pointers behind a
pointer, its own header is requested and the link libraries are exactly the first path segments
of the headers; CMS `<ns>::<X>Collection` holds `<ns>::<X>` values behind a handle, `<X>.h` from
`DataFormats/*/interface/` is requested and nothing is linked.  A row edited to another class,
header, library or pointer depth stops deciding, and that row is the failing input. -/
theorem builtin_rows :
    (∀ r ∈ Gen.atlasCollections, AtlasRowOk r) ∧
    (∀ r ∈ Gen.cmsAodCollections, CmsRowOk t!"cms_aod" Gen.cmsAodClasses r) ∧
    (∀ r ∈ Gen.cmsMiniaodCollections, CmsRowOk t!"cms_miniaod" Gen.cmsMiniaodClasses r) := by
  refine ⟨?_, ?_, ?_⟩ <;> decide

/-- **C06.builtin_names** — every collection function the README names is in the ATLAS table, no
backend has two built-ins of one name, and every built-in row becomes a specification. -/
theorem builtin_names :
    (∀ n ∈ Gen.readmeAtlasCollections, n ∈ namesOf Gen.atlasCollections) ∧ Gen.readmeAtlasCollections ≠ [] ∧
    (namesOf Gen.atlasCollections).Nodup ∧ (namesOf Gen.cmsAodCollections).Nodup ∧ (namesOf Gen.cmsMiniaodCollections).Nodup ∧
    (∀ b : Backend, (builtins b).length = b.rows.length) := by
  refine ⟨by decide, by decide, by decide, by decide, by decide, ?_⟩
  intro b; cases b <;> decide

/-- **C06.builtin_specs** — seen through the model, each built-in is handed out with the handle
text of the property and the backend's pointer depths (ATLAS container*/element*, CMS
handle/value): the model's table *is* the property's table. -/
theorem builtin_specs (b : Backend) : (builtins b).map declOf = builtinDecls b :=
  builtins_declOf b

/-- **C06.default_types** — the default method-type declarations of the three backends declare
no (class, method) twice and only pointer depths 0/1; on ATLAS and CMS AOD every class that
carries defaults is reachable from a built-in collection. -/
theorem default_types :
    DefaultTypesOk Gen.atlasDefaultTypes ∧ DefaultTypesOk Gen.cmsAodDefaultTypes ∧ DefaultTypesOk Gen.cmsMiniaodDefaultTypes ∧
    DefaultTypesReachable Gen.atlasCollections Gen.atlasDefaultTypes ∧
    DefaultTypesReachable Gen.cmsAodCollections Gen.cmsAodDefaultTypes := by
  refine ⟨?_, ?_, ?_, ?_, ?_⟩ <;> decide

/-- **C06.documented_keys** — every key the README documents for a backend's declaration is
accepted by that backend, and the executor of backend `b` insists on exactly the backend name the
`b` branch of `process_metadata` writes into its specifications. -/
theorem documented_keys :
    (∀ k ∈ Gen.readmeAtlasKeys, k ∈ Backend.whitelist .atlas) ∧
    (∀ k ∈ Gen.readmeCmsAodKeys, k ∈ Backend.whitelist .cmsAod) ∧
    (∀ k ∈ Gen.readmeCmsMiniaodKeys, k ∈ Backend.whitelist .cmsMiniaod) ∧
    (∀ b : Backend, ∃ br, findBranch b.mdType = some br ∧ br.specBackend = b.execName) := by
  refine ⟨by decide, by decide, by decide, ?_⟩
  intro b
  exact ⟨branchOf b, findBranch_mdType b, branch_specBackend b⟩

/-- **C06.whitelist_keys_read** — every key a branch accepts is a key it looks at (nothing is
accepted and silently ignored). -/
theorem whitelist_keys_read :
    ∀ br ∈ Gen.mdBranches, ∀ k ∈ br.whitelist, k = t!"metadata_type" ∨ k ∈ br.readKeys := by
  decide

/-! ## the bank reaches the retrieval, and only the retrieval -/

/-- **C06.bank_substitution** — the bank-name instance of the substitution law: in a line
`pre collection_name post` whose neighbours are not word characters, exactly that word is replaced
by the literal; the literal itself is never looked at again (it may contain `collection_name`). -/
theorem bank_substitution (lit pre post : Text) (h1 : endsNonWord pre = true) (h2 : startsNonWord post = true) :
    substWord paramName lit (pre ++ paramName ++ post) =
      substWord paramName lit pre ++ lit ++ substWord paramName lit post := by
  rw [List.append_assoc, substWord_append _ _ _ _ (Or.inl h1), substWord_append _ _ _ _ (Or.inr h2),
    substWord_self _ _ paramName_word paramName_ne, List.append_assoc]

/-- **C06.retrieval** — for every backend, every collection specification in force on it
(built-in or declared through metadata), every bank string and wherever the name counters
stand: the call `e.<Collection>("bank")` is accepted and `process_ast_node` emits
`T x;` and the block `{ T result(=0); IDIOM_b(T, bank); x = result; }` with `T` the handle of that
collection's container type and the bank's C++ literal exactly once, in the idiom line.
Hypothesis `TypeClean`: the container type does not contain the word `collection_name`
(defect exclusion, `retrieval_typename_counterexample`). -/
theorem retrieval (b : Backend) (mds : List Md) (table : List CollSpec) (hd : declare b mds = .ok table)
    (c : CollSpec) (hc : c ∈ table) (hclean : TypeClean (declOf c)) (bank : Text) (n : Nat) (st : GenState) :
    ∃ cv n', getCollection b.coder c [.str bank] n = .ok (cv, n') ∧
      (processNode cv st).1.decl = expectedDecl (expectedTy b (declOf c)) (processNode cv st).1.var ∧
      (processNode cv st).1.lines =
        expectedLines b (expectedTy b (declOf c)) (cppLit bank) (processNode cv st).1.tok (processNode cv st).1.var := by
  obtain ⟨_, hcl, _⟩ := declare_sound hd
  obtain ⟨f1, f2, _⟩ := frag_any b c bank n st (hcl c hc) hclean
  exact ⟨_, _, getCollection_str _ _ _ _, f2, f1⟩

/-- **C06.retrieval_typename_counterexample** — a declared container type that contains the word
`collection_name` is hit by the textual substitution as well: the declaration of `result` is
corrupted (`const my::"b"* result = 0;`). -/
theorem retrieval_typename_counterexample :
    ∃ (md : Md) (c : CollSpec), validate md = .ok c ∧ ValidMd .atlas md ∧
      ∀ cv n', getCollection (Backend.coder .atlas) c [.str t!"b"] 0 = .ok (cv, n') →
        (processNode cv ⟨0, [], [], [], []⟩).1.lines ≠
          expectedLines .atlas (expectedTy .atlas (declOf c)) (cppLit t!"b") [] (processNode cv ⟨0, [], [], [], []⟩).1.var := by
  refine ⟨⟨Backend.mdType .atlas, [(t!"name", .str t!"Foo"), (t!"include_files", .strs [t!"Foo.h"]),
    (t!"container_type", .str t!"my::collection_name"), (t!"element_type", .str t!"my::Foo"),
    (t!"contains_collection", .bool true)]⟩, ?_⟩
  refine ⟨_, rfl, by decide, ?_⟩
  intro cv n' h
  rw [getCollection_str] at h
  simp only [Except.ok.injEq, Prod.mk.injEq] at h
  rw [← h.1]
  decide

/-- **C06.singleton_is_value** — a singleton collection (no element type) is handed to the
translator as a plain variable accessed through the pointer, never as something to iterate; a
collection is handed over as a sequence iterated by dereferencing the handle. -/
theorem singleton_is_value (cd : CoderInfo) (c : CollSpec) (bank : Text) (n : Nat) (st : GenState) (k : Consumer) :
    let f := (processNode (mkCV cd c bank n) st).1
    (c.element = none → (∃ op, f.rep = .variable op) ∧ (f.observe k).iters = [] ∧ (f.observe k).elemOps = []) ∧
    (∀ e, c.element = some e → (∃ it op, f.rep = .collection it op) ∧ (f.observe k).selfOps = []) := by
  have hs : (mkCV cd c bank n).spec = c := rfl
  refine ⟨?_, ?_⟩
  · intro he
    simp only [processNode, repOf, hs, he, Frag.observe]
    exact ⟨⟨_, rfl⟩, by trivial, by trivial⟩
  · intro e he
    simp only [processNode, repOf, hs, he, Frag.observe]
    exact ⟨⟨_, _, rfl⟩, by trivial⟩

/-- **C06.failed_retrieve_aborts** — ATLAS: for every specification in force and every bank, the
idiom line is the *status-checked* retrieval of exactly that bank; under the semantics of the
checked idiom a failed retrieval ends the event with the fault before the container variable is
read even once (a null container is never iterated), and a successful one hands a non-null
container to every later use. -/
theorem failed_retrieve_aborts (mds : List Md) (table : List CollSpec) (hd : declare .atlas mds = .ok table)
    (c : CollSpec) (hc : c ∈ table) (hclean : TypeClean (declOf c)) (bank : Text) (n : Nat) (st : GenState)
    (found : Text → Bool) (uses : Nat) :
    ∃ l1 l2 l3, (processNode (mkCV (Backend.coder .atlas) c bank n) st).1.lines = [l1, l2, l3] ∧
      parseRetrieve l2 = .checked (cppLit bank) ∧
      (found (cppLit bank) = false → runRetrieve found (parseRetrieve l2) uses = [.retrieve (cppLit bank), .abort]) ∧
      (found (cppLit bank) = true →
        runRetrieve found (parseRetrieve l2) uses = .retrieve (cppLit bank) :: List.replicate uses (.useContainer false)) := by
  obtain ⟨_, hcl, _⟩ := declare_sound hd
  obtain ⟨f1, _⟩ := frag_any .atlas c bank n st (hcl c hc) hclean
  refine ⟨_, _, _, f1, ?_⟩
  have hp : parseRetrieve (t!"ANA_CHECK (evtStore()->retrieve(result, " ++ cppLit bank ++ t!"));") = .checked (cppLit bank) := by
    unfold parseRetrieve
    rw [List.append_assoc]
    simp only [stripPrefix?_append, stripSuffix?_append]
  refine ⟨hp, ?_, ?_⟩
  · intro hf; rw [hp]; simp [runRetrieve, hf]
  · intro hf; rw [hp]; simp [runRetrieve, hf]

/-- **C06.unchecked_retrieve_counterexample** — why the check matters: the same line without
`ANA_CHECK` lets a failed retrieval hand a null container to its first use. -/
theorem unchecked_retrieve_counterexample :
    runRetrieve (fun _ => false) (parseRetrieve t!"evtStore()->retrieve(result, \"b\");") 1 =
      [.retrieve t!"\"b\"", .useContainer true] := by decide

/-! ## declarations through metadata -/

/-- **C06.validate_iff** (ATLAS) — a declaration is accepted exactly when it is well formed: only
whitelisted keys, the required keys present, and `element_type` given iff `contains_collection`
is true.  (`WellTyped`: every value has the documented Python type.) -/
theorem validate_iff (md : Md) (hty : md.mdType = Backend.mdType .atlas) (hwt : md.WellTyped) :
    (∃ c, validate md = .ok c) ↔ ValidMd .atlas md := by
  rw [validate_of_mdType .atlas md hty]
  constructor
  · rintro ⟨c, h⟩; exact (validateWith_sound .atlas md c hty h).1
  · intro hv; exact validateWith_complete .atlas md hv hwt (Or.inl rfl)

/-- **C06.validate_iff_cms_partial** — the same on the two CMS backends for declarations of
collections.  Full statement: as `validate_iff`; it is false for `contains_collection = False`
(defect exclusion `CmsIsCollection`, counterexample below). -/
theorem validate_iff_cms_partial (b : Backend) (md : Md) (hty : md.mdType = b.mdType) (hwt : md.WellTyped)
    (hcoll : CmsIsCollection b md) : (∃ c, validate md = .ok c) ↔ ValidMd b md := by
  rw [validate_of_mdType b md hty]
  constructor
  · rintro ⟨c, h⟩; exact (validateWith_sound b md c hty h).1
  · intro hv; exact validateWith_complete b md hv hwt hcoll

/-- **C06.validate_cms_singleton_counterexample** — a well-formed CMS declaration of a singleton
(`contains_collection` false, no `element_type`, as the README documents) is rejected: the branch
indexes `md["element_type"]` unconditionally (KeyError). -/
theorem validate_cms_singleton_counterexample :
    ∃ md : Md, ValidMd .cmsAod md ∧ md.WellTyped ∧ validate md = .error (.missingKey t!"element_type") := by
  refine ⟨⟨Backend.mdType .cmsAod, [(t!"name", .str t!"Foo"), (t!"include_files", .strs [t!"Foo.h"]),
    (t!"container_type", .str t!"reco::Foo"), (t!"contains_collection", .bool false)]⟩, by decide, by decide, rfl⟩

/-- **C06.validate_declares** — an accepted declaration declares what it says: name, headers,
container type, element type (or none), libraries and the element kind (ATLAS: pointers; CMS:
pointers iff `element_pointer` is true). -/
theorem validate_declares (b : Backend) (md : Md) (c : CollSpec) (hty : md.mdType = b.mdType) (h : validate md = .ok c) :
    declOf c = intended b md ∧ c.backend = b.execName := by
  rw [validate_of_mdType b md hty] at h
  obtain ⟨_, h2, _, h4⟩ := validateWith_sound b md c hty h
  exact ⟨h4, h2⟩

/-- **C06.element_pointer_honoured** — on both CMS backends the element kind of an accepted
declaration is exactly what `element_pointer` says (absent = values). -/
theorem element_pointer_honoured (b : Backend) (hb : b ≠ .atlas) (md : Md) (c : CollSpec) (hty : md.mdType = b.mdType)
    (h : validate md = .ok c) :
    (declOf c).elemPtr = (match md.get? t!"element_pointer" with
      | some v => v.truthy
      | none => false) := by
  have hd := (validate_declares b md c hty h).1
  rw [validate_of_mdType b md hty] at h
  have hv := (validateWith_sound b md c hty h).1
  have hfl : md.flag = true := by
    have hcms : md.flag = true ∨ md.flag = false := by cases md.flag <;> simp
    rcases hcms with h1 | h1
    · exact h1
    · -- a CMS declaration is only accepted with an element type, hence with the flag set
      have : (declOf c).element = (intended b md).element := by rw [hd]
      obtain ⟨_, _, ci, ct, et, libs, name, incs, h3, _, _, _, rfl⟩ := validateWith_ok h
      cases b with
      | atlas => exact absurd rfl hb
      | cmsAod =>
        obtain ⟨cc, ciC, hbld, _⟩ := branch_cmsAod
        unfold containerStage at h3; rw [hbld] at h3; simp only [] at h3
        cases hcs : collStage md cc with
        | error e0 => rw [hcs] at h3; simp at h3
        | ok r0 =>
          obtain ⟨_, _, et', e, _, g2, _⟩ := collStage_ok hcs
          exact hv.2.2.2.2 (has_of_get? g2)
      | cmsMiniaod =>
        obtain ⟨cc, ciC, hbld, _⟩ := branch_cmsMiniaod
        unfold containerStage at h3; rw [hbld] at h3; simp only [] at h3
        cases hcs : collStage md cc with
        | error e0 => rw [hcs] at h3; simp at h3
        | ok r0 =>
          obtain ⟨_, _, et', e, _, g2, _⟩ := collStage_ok hcs
          exact hv.2.2.2.2 (has_of_get? g2)
  rw [hd]
  simp only [intended, hfl, Bool.true_and]
  cases b with
  | atlas => exact absurd rfl hb
  | cmsAod => cases md.get? t!"element_pointer" <;> rfl
  | cmsMiniaod => cases md.get? t!"element_pointer" <;> rfl

/-- **C06.backend_refused** — whatever else the query says, one declaration for another backend
makes the executor refuse the job. -/
theorem backend_refused (b : Backend) (mds : List Md) (uses : List Use) (c0 gap : Nat) (md : Md) (hm : md ∈ mds)
    (hother : md.mdType ≠ b.mdType) : ∃ e, runJob b mds uses c0 gap = .error e := by
  cases hd : declare b mds with
  | error e => exact ⟨e, by simp [runJob, hd]⟩
  | ok table => exact absurd ((declare_sound hd).1 md hm).1 hother

/-- **C06.override** — after the metadata has been processed, a name that some declaration
carries means the (last processed) declaration of that name, whether or not a built-in has the
name too; all other names mean the built-in. -/
theorem override (b : Backend) (mds : List Md) (cs table : List CollSpec) (hv : validateAll mds = .ok cs)
    (hd : declare b mds = .ok table) (n : Text) :
    lookup table n = (lookup cs n).orElse (fun _ => lookup (builtins b) n) := by
  unfold declare at hd
  rw [hv] at hd
  cases h2 : checkBackends b cs with
  | error e => simp [h2] at hd
  | ok u =>
    simp [h2] at hd
    rw [← hd, lookup_append]
    cases lookup cs n <;> rfl

/-- **C06.call_shape** — `get_collection` accepts a call exactly when it has one argument and that
argument is a string constant; and a job in which some collection call has another shape is
refused. -/
theorem call_shape (cd : CoderInfo) (c : CollSpec) (args : List Arg) (n : Nat) :
    (∃ r, getCollection cd c args n = .ok r) ↔ CallOk args :=
  getCollection_ok_iff cd c args n

theorem call_shape_job (b : Backend) (mds : List Md) (uses : List Use) (c0 gap : Nat) (out : JobOut)
    (h : runJob b mds uses c0 gap = .ok out) : ∀ u ∈ uses, CallOk u.args := by
  unfold runJob at h
  cases hd : declare b mds with
  | error e => simp [hd] at h
  | ok table =>
    cases hf : findAll b.coder table uses c0 with
    | error e => simp [hd, hf] at h
    | ok p => exact fun u hu => ((findAll_ok hf).1 u hu).1

/-! ## include and link-library lists -/

/-- **C06.dedup** — `add_include` / `add_link_library` over any sequence of requests leave every
requested entry exactly once, in the order of first request. -/
theorem dedup (requests : List Text) : DedupSpec requests (addAll [] requests) :=
  addAll_nil_dedup requests

/-- **C06.job_includes** — the include (library) list of a job is that accumulation over the
headers (libraries) of the collections its calls mean, in emission order — for every accepted job,
with no further hypothesis. -/
theorem job_includes (b : Backend) (mds : List Md) (uses : List Use) (c0 gap : Nat) (out : JobOut)
    (h : runJob b mds uses c0 gap = .ok out) :
    ∃ table, declare b mds = .ok table ∧
      DedupSpec ((dsOf table uses).flatMap (·.1.includes)) out.includes ∧
      DedupSpec ((dsOf table uses).flatMap (·.1.libraries)) out.libs := by
  unfold runJob at h
  cases hd : declare b mds with
  | error e => simp [hd] at h
  | ok table =>
    cases hf : findAll b.coder table uses c0 with
    | error e => simp [hd, hf] at h
    | ok p =>
      obtain ⟨cvs, n⟩ := p
      simp only [hd, hf, Except.ok.injEq] at h
      have hcv : cvs = cvsOf b.coder table uses c0 := (findAll_ok hf).2
      subst hcv
      obtain ⟨g1, g2⟩ := emitAll_includes (cvsOf b.coder table uses c0)
        { counter := n + gap, includes := [], libs := [], classDecls := [], book := [] }
      refine ⟨table, rfl, ?_, ?_⟩
      · rw [← h]; simp only []
        rw [g1, (cvsOf_flat b.coder table uses c0).1]; exact addAll_nil_dedup _
      · rw [← h]; simp only []
        rw [g2, (cvsOf_flat b.coder table uses c0).2]; exact addAll_nil_dedup _

/-! ## the whole job -/

/-- **C06.run_spec_partial** — the property for whole jobs, on every backend, for every list of
metadata declarations, every list of collection calls (any number, any repetition), wherever the
name counters stand and however the translator goes on to use the values: a job is refused
exactly when a declaration is malformed or for another backend, or a call does not have exactly
one string-constant argument (or names nothing); otherwise every call gets its own variable,
declared once with the container's handle type, filled by the backend's idiom with exactly its
bank, iterated (collections) or accessed (singletons) as declared; miniAOD tokens are pairwise
distinct, declared once and initialised once with their use's bank; headers and libraries are
the union of what the used collections need, once each in order of first use.
Hypotheses (all decidable, all used as generator filters):
 * `WellTyped`  — values have the documented Python types (modelling domain);
 * `CmsIsCollection` (asked of this backend's declarations only), `TypeClean` — defect exclusions
   (two listed findings, counterexample theorems above);
 * `NameClean`  — no collection name ends in a digit (`unique_name` is `name ++ index`, which is
   only injective for such names; C02 owns that finding).
Full statement: the same without the last three hypotheses. -/
theorem run_spec_partial (b : Backend) (mds : List Md) (uses : List Use) (c0 gap : Nat) (ks : List Consumer)
    (hwt : ∀ md ∈ mds, md.WellTyped)
    (hcms : ∀ md ∈ mds, md.mdType = b.mdType → CmsIsCollection b md)
    (hclean : ∀ p ∈ resolveAll b mds uses, TypeClean p.1) (hnames : ∀ u ∈ uses, NameClean u.name) :
    RunSpec b mds uses (outcomeOf (runJob b mds uses c0 gap) ks) :=
  runJob_spec b mds uses c0 gap ks hwt hcms hclean hnames

/-- **C06.miniaod_tokens_distinct** — the corollary the property singles out: in every accepted
miniAOD job (under the hypotheses above) the tokens of the retrieval blocks are pairwise
distinct, and the class declares / the constructor initialises exactly one line per use: the
use's token with the container's token type / with `consumes<C>(edm::InputTag("bank"))`. -/
theorem miniaod_tokens_distinct (mds : List Md) (uses : List Use) (c0 gap : Nat) (ks : List Consumer) (out : JobOut)
    (hwt : ∀ md ∈ mds, md.WellTyped)
    (hcms : ∀ md ∈ mds, md.mdType = Backend.mdType .cmsMiniaod → CmsIsCollection .cmsMiniaod md)
    (hclean : ∀ p ∈ resolveAll .cmsMiniaod mds uses, TypeClean p.1) (hnames : ∀ u ∈ uses, NameClean u.name)
    (h : runJob .cmsMiniaod mds uses c0 gap = .ok out) :
    TokenSpec .cmsMiniaod (resolveAll .cmsMiniaod mds uses) (out.observe ks) ∧ (out.frags.map (·.tok)).Nodup := by
  have := run_spec_partial .cmsMiniaod mds uses c0 gap ks hwt hcms hclean hnames
  rw [h] at this
  have ht : TokenSpec .cmsMiniaod (resolveAll .cmsMiniaod mds uses) (out.observe ks) := this.2.2.2.2.1
  refine ⟨ht, ?_⟩
  have hn := ht.1
  simp only [JobOut.observe] at hn
  rwa [(observeFrags_map out.frags ks).2] at hn

/-- **C06.run_spec_element_pointer** — the former counterexample, now an instance of the
theorem: a CMS AOD collection declared with `element_pointer: True` is iterated with pointer
access (`i->pt()`), one declared without it with value access. -/
theorem run_spec_element_pointer :
    let md (ep : Bool) : Md := ⟨Backend.mdType .cmsAod, [(t!"name", .str t!"Foo"), (t!"include_files", .strs [t!"Foo.h"]),
      (t!"container_type", .str t!"reco::FooCollection"), (t!"element_type", .str t!"reco::Foo"),
      (t!"contains_collection", .bool true), (t!"element_pointer", .bool ep)]⟩
    ∀ ep : Bool,
      RunSpec .cmsAod [md ep] [⟨t!"Foo", [.str t!"b"], 0⟩] (outcomeOf (runJob .cmsAod [md ep] [⟨t!"Foo", [.str t!"b"], 0⟩] 0 0) [⟨1, 1, 0⟩]) ∧
      ((runJob .cmsAod [md ep] [⟨t!"Foo", [.str t!"b"], 0⟩] 0 0).toOption.map (fun o => (o.observe [⟨1, 1, 0⟩]).frags.map (·.elemOps))) =
        some [[if ep then t!"->" else t!"."]] := by
  intro md ep
  cases ep <;> decide

/-! ## non-vacuity: the hypotheses are satisfiable on non-trivial inputs -/

/-- a declared ATLAS collection that replaces the built-in `Jets`, used twice with two banks, and
the singleton `EventInfo`: accepted, all hypotheses hold, three blocks come out. -/
example :
    let md : Md := ⟨Backend.mdType .atlas, [(t!"name", .str t!"Jets"), (t!"include_files", .strs [t!"my/JetContainer.h", t!"xAODEventInfo/EventInfo.h"]),
      (t!"container_type", .str t!"my::JetContainer"), (t!"element_type", .str t!"my::Jet"), (t!"contains_collection", .bool true),
      (t!"link_libraries", .strs [t!"myLib"])]⟩
    let uses : List Use := [⟨t!"Jets", [.str t!"a"], 0⟩, ⟨t!"EventInfo", [.str t!"e"], 2⟩, ⟨t!"Jets", [.str t!"a\"b"], 1⟩]
    md.WellTyped ∧ CmsIsCollection .atlas md ∧ (∀ p ∈ resolveAll .atlas [md] uses, TypeClean p.1) ∧
    (∀ u ∈ uses, NameClean u.name) ∧ Acceptable .atlas [md] uses ∧
    ((runJob .atlas [md] uses 7 3).toOption.map (fun o => (o.frags.length, o.includes, o.libs))) =
      some (3, [t!"my/JetContainer.h", t!"xAODEventInfo/EventInfo.h"], [t!"myLib", t!"xAODEventInfo"]) := by
  decide

/-- two miniAOD collections in one job: two distinct tokens -/
example :
    ((runJob .cmsMiniaod [] [⟨t!"Muons", [.str t!"slimmedMuons"], 0⟩, ⟨t!"Electrons", [.str t!"slimmedElectrons"], 0⟩] 0 0).toOption.map
      (fun o => o.frags.map (·.tok))) = some [t!"token0", t!"token1"] := by
  decide

/-- a declaration for another backend is there to be refused -/
example : ∃ e, runJob .atlas [⟨Backend.mdType .cmsAod, []⟩] [] 0 0 = .error e :=
  backend_refused .atlas _ [] 0 0 _ (List.mem_singleton.2 rfl) (by decide)

end FaxVerif.C06
