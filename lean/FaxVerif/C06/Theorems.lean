/- C06 — property theorems -/
import FaxVerif.C06.Proofs
namespace FaxVerif.C06

/-- the translator recognised every construct it read -/
theorem source_recognised : Gen.unrecognised = [] := by decide

end FaxVerif.C06
