/-
C06 driver: one JSON request per line on stdin, one JSON answer per line on stdout.

  {"op":"job","backend":B,"mds":[MD..],"uses":[USE..],"c0":n,"gap":n}
      -> {"ok":OBS} | {"err":kind}                      the model's job, observed with the uses' consumers
  {"op":"spec","backend":B,"mds":[..],"uses":[..],"impl":{"rejected":true} | {"body":[..],"class_decl":[..],"book":[..],"includes":[..],"libs":[..]}}
      (optional "mode":"exact"|"restricted"|"cover": how the include / library clause is judged, Spec.lean `IncMode`)
      -> {"holds":bool,"why":text,"obs":OBS|null,"filters":{..}}   RunSpecM mode (exact = RunSpec) on the implementation's text
  {"op":"validate","backend":B,"md":MD}
      -> {"model":"ok"|kind,"spec":{..}|null,"valid":bool,"welltyped":bool,"flag":bool}
  {"op":"subst","line":text,"lit":text} -> {"out":text}   whole-word substitution of `collection_name`
  {"op":"exec","wanted":[[type,bank]..],"fails":[bank..],"reqs":[[type,bank,ok]..],"success":bool,"crashed":bool}
      -> {"holds":bool,"expected":[[type,bank]..]}        ExecSpec on the log of the executed job (mock event store)
  {"op":"tablechecks"} -> {"failing":[{kind,backend,item}..],"unrecognised":[..]}   the table theorems item by item
  {"op":"tables"} -> {"atlas":[row..],"cms_aod":[..],"cms_miniaod":[..]}  built-ins as the model sees them

  B   = "atlas" | "cms_aod" | "cms_miniaod"
  MD  = {"type":text,"fields":[[key,{"s":text}|{"l":[text..]}|{"b":bool}]..]}
  USE = {"name":text,"args":[{"s":text}|{"o":1}..],"skip":n,"cons":[loops,elemCalls,selfCalls]}
  OBS = {"frags":[{"var","tok","decls","lines","iters","elemOps","selfOps"}..],"classDecls","book","includes","libs"}
Run: lake env lean --run FaxVerif/C06/Driver.lean
-/
import Lean.Data.Json
import FaxVerif.C06.Spec
open Lean FaxVerif.C06

def T (s : String) : Text := s.toList
def S (t : Text) : String := String.ofList t

def jT (t : Text) : Json := Json.str (S t)
def jTs (l : List Text) : Json := Json.arr (l.map jT).toArray

def getT (j : Json) (k : String) : Except String Text := do pure (T (← (← j.getObjVal? k).getStr?))

def getTs (j : Json) (k : String) : Except String (List Text) := do
  let a ← (← j.getObjVal? k).getArr?
  a.toList.mapM fun x => do pure (T (← x.getStr?))

def getNat (j : Json) (k : String) : Except String Nat := do (← j.getObjVal? k).getNat?

def parseBackend (j : Json) : Except String Backend := do
  match (← (← j.getObjVal? "backend").getStr?) with
  | "atlas" => pure .atlas
  | "cms_aod" => pure .cmsAod
  | "cms_miniaod" => pure .cmsMiniaod
  | s => throw s!"unknown backend {s}"

def parseVal (j : Json) : Except String MdVal := do
  match j.getObjVal? "s" with
  | .ok v => pure (.str (T (← v.getStr?)))
  | .error _ =>
    match j.getObjVal? "l" with
    | .ok v => do
      let a ← v.getArr?
      let l ← a.toList.mapM fun x => do pure (T (← x.getStr?))
      pure (.strs l)
    | .error _ => do pure (.bool (← (← j.getObjVal? "b").getBool?))

def parseMd (j : Json) : Except String Md := do
  let ty ← getT j "type"
  let fs ← (← j.getObjVal? "fields").getArr?
  let fields ← fs.toList.mapM fun f => do
    let a ← f.getArr?
    match a.toList with
    | [k, v] => do pure (T (← k.getStr?), ← parseVal v)
    | _ => throw "field is not a pair"
  pure { mdType := ty, fields }

def parseArg (j : Json) : Except String Arg := do
  match j.getObjVal? "s" with
  | .ok v => pure (.str (T (← v.getStr?)))
  | .error _ => pure .other

def parseUse (j : Json) : Except String (Use × Consumer) := do
  let name ← getT j "name"
  let args ← (← (← j.getObjVal? "args").getArr?).toList.mapM parseArg
  let skip ← getNat j "skip"
  let cons ← (← (← j.getObjVal? "cons").getArr?).toList.mapM (·.getNat?)
  let k : Consumer := match cons with
    | [a, b, c] => ⟨a, b, c⟩
    | _ => ⟨0, 0, 0⟩
  pure ({ name, args, skip }, k)

def parseJob (j : Json) : Except String (Backend × List Md × List Use × List Consumer) := do
  let b ← parseBackend j
  let mds ← (← (← j.getObjVal? "mds").getArr?).toList.mapM parseMd
  let us ← (← (← j.getObjVal? "uses").getArr?).toList.mapM parseUse
  pure (b, mds, us.map (·.1), us.map (·.2))

def errKind : Err → String
  | .unknownMdType => "unknownMdType" | .unexpectedKey _ => "unexpectedKey" | .elementTypeMismatch => "elementTypeMismatch"
  | .missingKey _ => "missingKey" | .badValue _ => "badValue" | .unknownClass => "unknownClass"
  | .backendRefused _ => "backendRefused" | .argCount => "argCount" | .argType => "argType" | .notACollection _ => "notACollection"

def jFrag (f : FragObs) : Json :=
  Json.mkObj [("var", jT f.var), ("tok", jT f.tok), ("decls", jTs f.decls), ("lines", jTs f.lines),
    ("iters", jTs f.iters), ("elemOps", jTs f.elemOps), ("selfOps", jTs f.selfOps)]

def jObs (o : Obs) : Json :=
  Json.mkObj [("frags", Json.arr (o.frags.map jFrag).toArray), ("classDecls", jTs o.classDecls), ("book", jTs o.book),
    ("includes", jTs o.includes), ("libs", jTs o.libs)]

/-- which conjunct of `RunSpec` fails (for the replay file) -/
def explain (m : IncMode) (b : Backend) (mds : List Md) (uses : List Use) : Outcome → String
  | .rejected =>
    if decide (Acceptable b mds uses) then "the job was rejected although every declaration is well formed and for this backend and every call has one string argument and names a known collection"
    else ""
  | .ok o =>
    if !decide (Acceptable b mds uses) then
      (match mds.find? (fun md => !decide (ValidMd b md)) with
       | some md => s!"the job was translated although the declaration of '{S (getStr md (T "name"))}' (metadata_type '{S md.mdType}') is malformed or for another backend"
       | none =>
         match uses.find? (fun u => !decide (CallOk u.args)) with
         | some u => s!"the job was translated although the call of '{S u.name}' does not have exactly one string-constant argument"
         | none => "the job was translated although a call names no known collection")
    else
      let ds := resolveAll b mds uses
      if o.frags.length != ds.length then s!"{o.frags.length} retrieval blocks for {ds.length} collection calls"
      else
        match (ds.zip o.frags).find? (fun p => !decide (FragSpec b p.1.1 p.1.2 p.2)) with
        | some p =>
          let d := p.1.1; let f := p.2
          if f.lines != expectedLines b (expectedTy b d) (cppLit p.1.2) f.tok f.var then
            s!"retrieval of {S d.name}(\"{S p.1.2}\"): block is {f.lines.map S}, expected {(expectedLines b (expectedTy b d) (cppLit p.1.2) f.tok f.var).map S}"
          else if f.decls != [expectedDecl (expectedTy b d) f.var] then
            s!"retrieval of {S d.name}(\"{S p.1.2}\"): variable {S f.var} is declared by {f.decls.map S}, expected exactly [{S (expectedDecl (expectedTy b d) f.var)}]"
          else s!"retrieval of {S d.name}(\"{S p.1.2}\"): iteration/access does not fit the declared kind (singleton={d.element.isNone}, element pointer={d.elemPtr}): loops over {f.iters.map S}, element access {f.elemOps.map S}, direct access {f.selfOps.map S}"
        | none =>
          if !decide ((o.frags.map (·.var)).Nodup) then s!"two retrievals share one variable: {o.frags.map (fun f => S f.var)}"
          else if !decide (TokenSpec b ds o) then s!"tokens: used {o.frags.map (fun f => S f.tok)}, declared {o.classDecls.map S}, initialised {o.book.map S}"
          else if !decide (IncSpec m (ds.flatMap (·.1.includes)) o.includes) then
            (if m == .cover then s!"the include closure of the rendered main source lacks {((ds.flatMap (·.1.includes)).filter (fun h => !o.includes.contains h)).map S}, needed by the used collections (their headers: {(ds.flatMap (·.1.includes)).map S})"
             else s!"include files {o.includes.map S} are not the headers of the used collections {(ds.flatMap (·.1.includes)).map S} once each in order of first use")
          else if !decide (IncSpec m (ds.flatMap (·.1.libraries)) o.libs) then
            (if m == .cover then s!"the rendered link libraries {o.libs.map S} lack a library of the used collections {(ds.flatMap (·.1.libraries)).map S}"
             else s!"link libraries {o.libs.map S} are not the libraries of the used collections {(ds.flatMap (·.1.libraries)).map S} once each in order of first use")
          else ""

def jRow (c : CollSpec) : Json :=
  Json.mkObj [("backend", jT c.backend), ("name", jT c.name), ("includes", jTs c.includes), ("container", jT c.container),
    ("element", match c.element with | some e => jT e | none => Json.null), ("depthType", c.depthType), ("depthElem", c.depthElem),
    ("libraries", jTs c.libraries), ("tyStr", jT c.tyStr), ("tokenType", match c.tokenTypeStr with | some e => jT e | none => Json.null)]

def handle (line : String) : String :=
  match Json.parse line with
  | .error e => (Json.mkObj [("bad", e)]).compress
  | .ok j =>
    let r : Except String Json := do
      let op ← (← j.getObjVal? "op").getStr?
      if op == "job" then
        let (b, mds, uses, ks) ← parseJob j
        let c0 ← getNat j "c0"
        let gap ← getNat j "gap"
        match runJob b mds uses c0 gap with
        | .ok o => pure (Json.mkObj [("ok", jObs (o.observe ks))])
        | .error e => pure (Json.mkObj [("err", errKind e)])
      else if op == "spec" then
        let (b, mds, uses, _) ← parseJob j
        let impl ← j.getObjVal? "impl"
        let mode : IncMode := match j.getObjVal? "mode" with
          | .ok (Json.str "restricted") => .restricted
          | .ok (Json.str "cover") => .cover
          | _ => .exact
        let out : Outcome ← (match impl.getObjVal? "rejected" with
          | .ok _ => pure Outcome.rejected
          | .error _ => do
            let body ← getTs impl "body"
            let cd ← getTs impl "class_decl"
            let book ← getTs impl "book"
            let incs ← getTs impl "includes"
            let libs ← getTs impl "libs"
            pure (Outcome.ok (if mode == .restricted then observeTextR body cd book incs libs else observeText body cd book incs libs)))
        let holds := decide (RunSpecM mode b mds uses out)
        let filters := Json.mkObj [
          ("typeClean", decide (∀ p ∈ resolveAll b mds uses, TypeClean p.1)),
          ("cmsIsCollection", decide (∀ md ∈ mds, md.mdType = b.mdType → CmsIsCollection b md)),
          ("nameClean", decide (∀ u ∈ uses, NameClean u.name)),
          ("wellTyped", decide (∀ md ∈ mds, md.WellTyped))]
        pure (Json.mkObj [("holds", holds), ("why", if holds then "" else explain mode b mds uses out),
          ("obs", match out with | .ok o => jObs o | .rejected => Json.null), ("filters", filters)])
      else if op == "validate" then
        let b ← parseBackend j
        let md ← parseMd (← j.getObjVal? "md")
        let (m, sp) := match validate md with
          | .ok c => ("ok", jRow c)
          | .error e => (errKind e, Json.null)
        pure (Json.mkObj [("model", m), ("spec", sp), ("valid", decide (ValidMd b md)), ("welltyped", decide (md.WellTyped ∧ keysDistinct md)),
          ("flag", md.flag), ("cmsIsCollection", decide (CmsIsCollection b md))])
      else if op == "subst" then
        let l ← getT j "line"
        let lit ← getT j "lit"
        pure (Json.mkObj [("out", jT (substWord paramName lit l)), ("has", hasWord paramName l)])
      else if op == "exec" then
        let pairs (k : String) : Except String (List (List Json)) := do
          let a ← (← j.getObjVal? k).getArr?
          a.toList.mapM fun x => do pure (← x.getArr?).toList
        let wanted ← (← pairs "wanted").mapM fun
          | [a, b] => do pure (T (← a.getStr?), T (← b.getStr?))
          | _ => throw "wanted: not a pair"
        let reqs ← (← pairs "reqs").mapM fun
          | [a, b, c] => do pure ({ ty := T (← a.getStr?), bank := T (← b.getStr?), ok := ← c.getBool? } : ReqObs)
          | _ => throw "reqs: not a triple"
        let fails ← getTs j "fails"
        let success ← (← j.getObjVal? "success").getBool?
        let crashed ← (← j.getObjVal? "crashed").getBool?
        pure (Json.mkObj [("holds", decide (ExecSpec wanted fails reqs success crashed)),
          ("expected", Json.arr ((takeThrough (fun p => decide (p.2 ∈ fails)) wanted.eraseDups).map (fun p => Json.arr #[jT p.1, jT p.2])).toArray)])
      else if op == "tablechecks" then
        -- the table theorems, item by item: which row / name / key is the failing input
        let bad (kind : String) (b : String) (what : Text) : Json := Json.mkObj [("kind", kind), ("backend", b), ("item", jT what)]
        let rowsBad :=
          (Gen.atlasCollections.filter (fun r => !decide (AtlasRowOk r))).map (fun r => bad "row" "atlas" r.name) ++
          (Gen.cmsAodCollections.filter (fun r => !decide (CmsRowOk (T "cms_aod") Gen.cmsAodClasses r))).map (fun r => bad "row" "cms_aod" r.name) ++
          (Gen.cmsMiniaodCollections.filter (fun r => !decide (CmsRowOk (T "cms_miniaod") Gen.cmsMiniaodClasses r))).map (fun r => bad "row" "cms_miniaod" r.name)
        let namesBad := (Gen.readmeAtlasCollections.filter (fun n => !(namesOf Gen.atlasCollections).contains n)).map (bad "readme-collection-missing" "atlas")
        let specBad := ([Backend.atlas, .cmsAod, .cmsMiniaod].filter (fun b => (builtins b).map declOf != builtinDecls b || (builtins b).length != b.rows.length)).map
          (fun b => bad "builtin-spec-differs-from-backend-convention" (S b.execName) b.execName)
        let keysBad :=
          (Gen.readmeAtlasKeys.filter (fun k => !(Backend.whitelist .atlas).contains k)).map (bad "documented-key-refused" "atlas") ++
          (Gen.readmeCmsAodKeys.filter (fun k => !(Backend.whitelist .cmsAod).contains k)).map (bad "documented-key-refused" "cms_aod") ++
          (Gen.readmeCmsMiniaodKeys.filter (fun k => !(Backend.whitelist .cmsMiniaod).contains k)).map (bad "documented-key-refused" "cms_miniaod")
        let readBad := Gen.mdBranches.flatMap (fun br => (br.whitelist.filter (fun k => k != T "metadata_type" && !br.readKeys.contains k)).map
          (bad "accepted-key-never-read" (S br.specBackend)))
        let dtBad := (if decide (DefaultTypesOk Gen.atlasDefaultTypes ∧ DefaultTypesOk Gen.cmsAodDefaultTypes ∧ DefaultTypesOk Gen.cmsMiniaodDefaultTypes ∧
            DefaultTypesReachable Gen.atlasCollections Gen.atlasDefaultTypes ∧ DefaultTypesReachable Gen.cmsAodCollections Gen.cmsAodDefaultTypes)
          then [] else [bad "default-method-types" "" (T "duplicate (class, method), pointer depth > 1, or unreachable class")])
        pure (Json.mkObj [("failing", Json.arr (rowsBad ++ namesBad ++ specBad ++ keysBad ++ readBad ++ dtBad).toArray),
          ("unrecognised", Json.arr (Gen.unrecognised.map jT).toArray)])
      else if op == "tables" then
        pure (Json.mkObj [("atlas", Json.arr ((builtins .atlas).map jRow).toArray), ("cms_aod", Json.arr ((builtins .cmsAod).map jRow).toArray),
          ("cms_miniaod", Json.arr ((builtins .cmsMiniaod).map jRow).toArray)])
      else throw s!"unknown op {op}"
    match r with
    | .ok j => j.compress
    | .error e => (Json.mkObj [("bad", e)]).compress

partial def loopIO (h : IO.FS.Stream) (out : IO.FS.Stream) : IO Unit := do
  let line ← h.getLine
  if line.isEmpty then return ()
  let t := line.trimAscii.toString
  if !t.isEmpty then out.putStrLn (handle t)
  loopIO h out

def main : IO Unit := do
  let out ← IO.getStdout
  loopIO (← IO.getStdin) out
  out.flush
