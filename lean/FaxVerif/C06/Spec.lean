/-
C06 — the property as decidable predicates over (input, observed output).

Input: a backend, the collection declarations sent as metadata, the collection calls of the
query (name, arguments) in the order they are emitted.  Observed output: either "rejected" or,
for every inline retrieval block of the generated job, its lines, the lines that declare its
variable, how the variable is iterated / accessed; the token declarations and initialisations;
the include and link-library lists.

The three retrieval idioms, the four container-handle spellings and the token lines are written
out here by hand; they do NOT come from the generated templates.  `RunSpec` is (a) what the
theorems prove of the model and (b) what the harness evaluates on the implementation's text.
-/
import FaxVerif.C06.Model
namespace FaxVerif.C06

/-! ## what a collection is, for the property -/

/-- A collection function as the property sees it. -/
structure Decl where
  name : Text
  includes : List Text
  container : Text
  element : Option Text        -- `none`: a singleton (a value, not a sequence)
  elemPtr : Bool               -- the declared element kind: pointer / value
  libraries : List Text
deriving DecidableEq, Repr, Inhabited

/-- ATLAS containers hold pointers, CMS collections hold values. -/
def Backend.elemPtrDefault : Backend → Bool
  | .atlas => true | _ => false

def Backend.mdType : Backend → Text
  | .atlas => t!"add_atlas_event_collection_info"
  | .cmsAod => t!"add_cms_aod_event_collection_info"
  | .cmsMiniaod => t!"add_cms_miniaod_event_collection_info"

def Backend.ofMdType (t : Text) : Option Backend :=
  if t = Backend.mdType .atlas then some .atlas
  else if t = Backend.mdType .cmsAod then some .cmsAod
  else if t = Backend.mdType .cmsMiniaod then some .cmsMiniaod
  else none

/-- the built-in table of the backend as the property sees it (from the generated rows) -/
def Row.toDecl (b : Backend) (r : Row) : Decl :=
  { name := r.name, includes := r.includes, container := r.container,
    element := r.element, elemPtr := r.element.isSome && b.elemPtrDefault, libraries := r.libraries }

def builtinDecls (b : Backend) : List Decl := b.rows.map (Row.toDecl b)

/-- the property-level view of a specification of the model -/
def declOf (c : CollSpec) : Decl :=
  { name := c.name, includes := c.includes, container := c.container, element := c.element,
    elemPtr := c.element.isSome && c.depthElem != 0, libraries := c.libraries }

/-! ## metadata declarations -/

/-- keys the backend's declaration accepts (generated from the `if k not in [...]` list) -/
def Backend.whitelist (b : Backend) : List Text :=
  match findBranch b.mdType with
  | some br => br.whitelist
  | none => []

def requiredKeys : List Text := [t!"name", t!"include_files", t!"container_type", t!"contains_collection"]

def Md.flag (md : Md) : Bool :=
  match md.get? (t!"contains_collection") with
  | some v => v.truthy
  | none => false

def isStr : Option MdVal → Bool
  | some (.str _) => true | _ => false
def isStrs : Option MdVal → Bool
  | some (.strs _) => true | _ => false
def isBool : Option MdVal → Bool
  | some (.bool _) => true | _ => false

/-- every value present has the documented type -/
def Md.WellTyped (md : Md) : Prop :=
  (md.has t!"name" → isStr (md.get? (t!"name")) = true) ∧
  (md.has t!"include_files" → isStrs (md.get? (t!"include_files")) = true) ∧
  (md.has t!"container_type" → isStr (md.get? (t!"container_type")) = true) ∧
  (md.has t!"element_type" → isStr (md.get? (t!"element_type")) = true) ∧
  (md.has t!"contains_collection" → isBool (md.get? (t!"contains_collection")) = true) ∧
  (md.has t!"link_libraries" → isStrs (md.get? (t!"link_libraries")) = true) ∧
  (md.has t!"element_pointer" → isBool (md.get? (t!"element_pointer")) = true)

instance (md : Md) : Decidable md.WellTyped := by unfold Md.WellTyped; exact inferInstance

/-- **well-formed declaration**: only whitelisted keys, the required keys present, and
`element_type` given exactly when `contains_collection` is true. -/
def ValidMd (b : Backend) (md : Md) : Prop :=
  md.mdType = b.mdType ∧
  (∀ k ∈ md.keys, k ∈ b.whitelist) ∧
  (∀ k ∈ requiredKeys, md.has k = true) ∧
  (md.flag = true ↔ md.has t!"element_type" = true)

instance (b : Backend) (md : Md) : Decidable (ValidMd b md) := by unfold ValidMd; exact inferInstance

def getStr (md : Md) (k : Text) : Text :=
  match md.get? k with
  | some (.str s) => s
  | _ => []

def getStrs (md : Md) (k : Text) : List Text :=
  match md.get? k with
  | some (.strs l) => l
  | _ => []

/-- the collection a (valid) declaration declares -/
def intended (b : Backend) (md : Md) : Decl :=
  { name := getStr md t!"name", includes := getStrs md t!"include_files", container := getStr md t!"container_type",
    element := if md.flag then some (getStr md t!"element_type") else none,
    elemPtr := md.flag && (match md.get? (t!"element_pointer") with
      | some v => v.truthy
      | none => b.elemPtrDefault),
    libraries := getStrs md t!"link_libraries" }

/-- dict semantics: the last declaration of a name wins, and any declaration beats a built-in -/
def lookupDecl : List Decl → Text → Option Decl
  | [], _ => none
  | d :: ds, n =>
    match lookupDecl ds n with
    | some d' => some d'
    | none => if d.name = n then some d else none

def resolve (b : Backend) (mds : List Md) (n : Text) : Option Decl :=
  lookupDecl (builtinDecls b ++ mds.map (intended b)) n

/-- a call the property accepts: exactly one argument and it is a string constant -/
def CallOk (args : List Arg) : Prop := ∃ s, args = [.str s]

instance (args : List Arg) : Decidable (CallOk args) :=
  match args with
  | [.str s] => isTrue ⟨s, rfl⟩
  | [] => isFalse (by rintro ⟨s, h⟩; cases h)
  | [.other] => isFalse (by rintro ⟨s, h⟩; cases h)
  | _ :: _ :: _ => isFalse (by rintro ⟨s, h⟩; cases h)

def bankOf : List Arg → Text
  | [.str s] => s
  | _ => []

/-- the job has to be translated: every declaration is well formed and for this backend, every
call has the right shape and names a known collection -/
def Acceptable (b : Backend) (mds : List Md) (uses : List Use) : Prop :=
  (∀ md ∈ mds, ValidMd b md) ∧
  (∀ u ∈ uses, CallOk u.args ∧ (resolve b mds u.name).isSome = true)

instance (b : Backend) (mds : List Md) (uses : List Use) : Decidable (Acceptable b mds uses) := by
  unfold Acceptable; exact inferInstance

/-! ## the expected text -/

/-- the handle the container is fetched into -/
def expectedTy (b : Backend) (d : Decl) : Text :=
  match b, d.element with
  | .atlas, some _ => t!"const " ++ d.container ++ t!"*"
  | .atlas, none => t!"const " ++ d.container ++ t!" *"
  | .cmsAod, _ => t!"edm::Handle<" ++ d.container ++ t!">"
  | .cmsMiniaod, _ => t!"Handle<" ++ d.container ++ t!">"

/-- `decl T x; { T result(=0); IDIOM_b(T, bank); x = result; }` — the statements of the block:
ATLAS status-checked store retrieval, CMS AOD by label, CMS miniAOD by token. -/
def expectedLines (b : Backend) (ty lit tok x : Text) : List Text :=
  match b with
  | .atlas => [ty ++ t!" result = 0;", t!"ANA_CHECK (evtStore()->retrieve(result, " ++ lit ++ t!"));", x ++ t!" = result;"]
  | .cmsAod => [ty ++ t!" result;", t!"iEvent.getByLabel(" ++ lit ++ t!", result);", x ++ t!" = result;"]
  | .cmsMiniaod => [ty ++ t!" result;", t!"iEvent.getByToken(" ++ tok ++ t!", result);", x ++ t!" = result;"]

def expectedDecl (ty x : Text) : Text := ty ++ ' ' :: x ++ [';']

def expectedTokenDecl (d : Decl) (tok : Text) : Text := t!"edm::EDGetTokenT<" ++ d.container ++ t!"> " ++ tok ++ t!";"

def expectedTokenInit (d : Decl) (lit tok : Text) : Text :=
  tok ++ t!" = consumes<" ++ d.container ++ t!">(edm::InputTag(" ++ lit ++ t!"));"

/-! ## observations -/

structure FragObs where
  var : Text
  tok : Text
  decls : List Text        -- every line of the per-event code that declares `var`
  lines : List Text        -- statements of the inline block
  iters : List Text        -- iteration expressions of the loops over `var`
  elemOps : List Text      -- member operators applied to the loop variables of those loops
  selfOps : List Text      -- member operators applied to `var` itself
deriving DecidableEq, Repr, Inhabited

structure Obs where
  frags : List FragObs
  classDecls : List Text   -- class-level token declarations
  book : List Text         -- token initialisations in the constructor / booking code
  includes : List Text
  libs : List Text
deriving DecidableEq, Repr, Inhabited

inductive Outcome where
  | rejected
  | ok (o : Obs)
deriving DecidableEq, Repr, Inhabited

/-- One retrieval: right type, right idiom with the bank exactly where it belongs, assigned to a
variable declared once with that type; a collection is iterated by dereferencing the handle and
its elements are accessed as the declared element kind; a singleton is never iterated. -/
def FragSpec (b : Backend) (d : Decl) (bank : Text) (f : FragObs) : Prop :=
  f.lines = expectedLines b (expectedTy b d) (cppLit bank) f.tok f.var ∧
  f.decls = [expectedDecl (expectedTy b d) f.var] ∧
  (match d.element with
   | some _ => (∀ e ∈ f.iters, e = '*' :: f.var) ∧ (∀ o ∈ f.elemOps, o = if d.elemPtr then t!"->" else t!".") ∧ f.selfOps = []
   | none => f.iters = [] ∧ f.elemOps = [] ∧ ∀ o ∈ f.selfOps, o = t!"->")

instance (b : Backend) (d : Decl) (bank : Text) (f : FragObs) : Decidable (FragSpec b d bank f) := by
  unfold FragSpec; cases d.element <;> exact inferInstance

/-- the two lists hold the same lines, each as often (order is free) -/
def SameLines (a b : List Text) : Prop := ∀ x ∈ a ++ b, a.count x = b.count x

instance (a b : List Text) : Decidable (SameLines a b) := by unfold SameLines; exact inferInstance

/-- miniAOD: one token per use — the tokens of the blocks are pairwise distinct; the class
declares exactly these tokens, each once, with the container's token type; the constructor
initialises exactly these tokens, each once, with the tag of that use's bank.  Other backends:
no token at all. -/
def TokenSpec (b : Backend) (ds : List (Decl × Text)) (o : Obs) : Prop :=
  match b with
  | .cmsMiniaod =>
    (o.frags.map (·.tok)).Nodup ∧
    SameLines o.classDecls ((ds.zip o.frags).map fun p => expectedTokenDecl p.1.1 p.2.tok) ∧
    SameLines o.book ((ds.zip o.frags).map fun p => expectedTokenInit p.1.1 (cppLit p.1.2) p.2.tok)
  | _ => o.classDecls = [] ∧ o.book = [] ∧ ∀ f ∈ o.frags, f.tok = []

instance (b : Backend) (ds : List (Decl × Text)) (o : Obs) : Decidable (TokenSpec b ds o) := by
  unfold TokenSpec; cases b <;> exact inferInstance

/-- `out` is `wanted` without repetitions, in order of first use. -/
def DedupSpec (wanted out : List Text) : Prop :=
  (∀ h ∈ out, h ∈ wanted) ∧ (∀ h ∈ wanted, h ∈ out) ∧ (out.map (fun h => wanted.idxOf h)).Pairwise (· < ·)

instance (w o : List Text) : Decidable (DedupSpec w o) := by unfold DedupSpec; exact inferInstance

/-- the whole job -/
def JobSpec (b : Backend) (ds : List (Decl × Text)) (o : Obs) : Prop :=
  o.frags.length = ds.length ∧
  (∀ p ∈ ds.zip o.frags, FragSpec b p.1.1 p.1.2 p.2) ∧
  (o.frags.map (·.var)).Nodup ∧
  TokenSpec b ds o ∧
  DedupSpec (ds.flatMap (·.1.includes)) o.includes ∧
  DedupSpec (ds.flatMap (·.1.libraries)) o.libs

instance (b : Backend) (ds : List (Decl × Text)) (o : Obs) : Decidable (JobSpec b ds o) := by
  unfold JobSpec; exact inferInstance

/-- the collections the calls of the query mean, with their banks -/
def resolveAll (b : Backend) (mds : List Md) : List Use → List (Decl × Text)
  | [] => []
  | u :: us =>
    match resolve b mds u.name with
    | some d => (d, bankOf u.args) :: resolveAll b mds us
    | none => resolveAll b mds us

/-- **C06**: a job is rejected exactly when it is not acceptable; otherwise every call is
translated as `JobSpec` says. -/
def RunSpec (b : Backend) (mds : List Md) (uses : List Use) : Outcome → Prop
  | .rejected => ¬ Acceptable b mds uses
  | .ok o => Acceptable b mds uses ∧ JobSpec b (resolveAll b mds uses) o

instance (b : Backend) (mds : List Md) (uses : List Use) (r : Outcome) : Decidable (RunSpec b mds uses r) := by
  unfold RunSpec; cases r <;> exact inferInstance

/-! ## the include / library clause when other sources of headers are present

`RunSpec` asks for the include list to be *exactly* the de-duplicated headers of the used
collections.  A query that also calls C++ functions (built-in `DeltaR`, math functions, functions
declared with `add_cpp_function`) or carries `inject_code` blocks legitimately includes more: the
clause is then judged
 * `restricted` — on the sub-list of the observed body includes that are collection headers
   (still: once each, in order of first use);
 * `cover`      — on the include closure of the rendered main source (the main file's own
   `#include` lines and those of every rendered file it includes): every header of every used
   collection occurs in it ("requests the headers … that container needs"). -/

inductive IncMode where
  | exact | restricted | cover
deriving DecidableEq, Repr, Inhabited

def IncSpec (m : IncMode) (wanted out : List Text) : Prop :=
  match m with
  | .exact => DedupSpec wanted out
  | .restricted => DedupSpec wanted (out.filter (fun h => decide (h ∈ wanted)))
  | .cover => ∀ h ∈ wanted, h ∈ out

instance (m : IncMode) (w o : List Text) : Decidable (IncSpec m w o) := by
  unfold IncSpec; cases m <;> exact inferInstance

def JobSpecM (m : IncMode) (b : Backend) (ds : List (Decl × Text)) (o : Obs) : Prop :=
  o.frags.length = ds.length ∧
  (∀ p ∈ ds.zip o.frags, FragSpec b p.1.1 p.1.2 p.2) ∧
  (o.frags.map (·.var)).Nodup ∧
  TokenSpec b ds o ∧
  IncSpec m (ds.flatMap (·.1.includes)) o.includes ∧
  IncSpec m (ds.flatMap (·.1.libraries)) o.libs

instance (m : IncMode) (b : Backend) (ds : List (Decl × Text)) (o : Obs) : Decidable (JobSpecM m b ds o) := by
  unfold JobSpecM; exact inferInstance

/-- **C06** with the include clause judged in mode `m` (`RunSpecM .exact` is `RunSpec`). -/
def RunSpecM (m : IncMode) (b : Backend) (mds : List Md) (uses : List Use) : Outcome → Prop
  | .rejected => ¬ Acceptable b mds uses
  | .ok o => Acceptable b mds uses ∧ JobSpecM m b (resolveAll b mds uses) o

instance (m : IncMode) (b : Backend) (mds : List Md) (uses : List Use) (r : Outcome) : Decidable (RunSpecM m b mds uses r) := by
  unfold RunSpecM; cases r <;> exact inferInstance

/-! ## how the model's output is observed -/

/-- how the translator goes on to use the value of the call: how many loops it opens over it,
how many members it calls on loop elements and on the value itself -/
structure Consumer where
  loops : Nat
  elemCalls : Nat
  selfCalls : Nat
deriving DecidableEq, Repr, Inhabited

def Frag.observe (f : Frag) (k : Consumer) : FragObs :=
  match f.rep with
  | .collection it op =>
    { var := f.var, tok := f.tok, decls := [f.decl], lines := f.lines,
      iters := List.replicate k.loops it, elemOps := List.replicate k.elemCalls op, selfOps := [] }
  | .variable op =>
    { var := f.var, tok := f.tok, decls := [f.decl], lines := f.lines,
      iters := [], elemOps := [], selfOps := List.replicate k.selfCalls op }

def observeFrags : List Frag → List Consumer → List FragObs
  | [], _ => []
  | f :: fs, [] => f.observe ⟨0, 0, 0⟩ :: observeFrags fs []
  | f :: fs, k :: ks => f.observe k :: observeFrags fs ks

def JobOut.observe (o : JobOut) (ks : List Consumer) : Obs :=
  { frags := observeFrags o.frags ks, classDecls := o.classDecls, book := o.book, includes := o.includes, libs := o.libs }

def outcomeOf (r : Except Err JobOut) (ks : List Consumer) : Outcome :=
  match r with
  | .ok o => .ok (o.observe ks)
  | .error _ => .rejected

/-! ## the decidable hypotheses of the `_partial` theorems (also used as generator filters) -/

/-- defect exclusion (known finding "typename"): the container type does not contain the word
`collection_name`, which the textual substitution of the bank would also hit -/
def TypeClean (d : Decl) : Prop := hasWord paramName d.container = false

/-- defect exclusion (known finding "cms singleton"): the CMS branches build a collection
whatever `contains_collection` says -/
def CmsIsCollection (b : Backend) (md : Md) : Prop :=
  b = .atlas ∨ md.flag = true ∨ md.has t!"contains_collection" = false

def endsInDigit (t : Text) : Bool :=
  match t.getLast? with
  | some c => c.isDigit
  | none => false

/-- proof frontier / C02's finding on `unique_name`: `name ++ index` is only injective for
names that do not end in a digit -/
def NameClean (n : Text) : Prop := endsInDigit (lowerText n) = false

def keysDistinct (md : Md) : Prop := (md.fields.map (·.1)).Nodup ∧ t!"metadata_type" ∉ md.fields.map (·.1)

instance (d : Decl) : Decidable (TypeClean d) := by unfold TypeClean; exact inferInstance
instance (b : Backend) (md : Md) : Decidable (CmsIsCollection b md) := by unfold CmsIsCollection; exact inferInstance
instance (n : Text) : Decidable (NameClean n) := by unfold NameClean; exact inferInstance
instance (md : Md) : Decidable (keysDistinct md) := by unfold keysDistinct; exact inferInstance

/-! ## built-in tables: consistency with the experiments' naming schemes -/

def stripSuffix? (suf s : Text) : Option Text :=
  if suf.isSuffixOf s then some (s.take (s.length - suf.length)) else none

def stripPrefix? (pre s : Text) : Option Text :=
  if pre.isPrefixOf s then some (s.drop pre.length) else none

/-- split at the last `::` : (namespace with the trailing `::`, class name) -/
def splitNs (t : Text) : Text × Text :=
  let rec go : Text → Text → Text → Text × Text
    | [], ns, cur => (ns, cur)
    | ':' :: ':' :: rest, ns, cur => go rest (ns ++ cur ++ [':', ':']) []
    | c :: rest, ns, cur => go rest ns (cur ++ [c])
  go t [] []

/-- does `pat` occur in `s`? -/
def isInfix (pat : Text) : Text → Bool
  | [] => pat.isEmpty
  | c :: t => pat.isPrefixOf (c :: t) || isInfix pat t

/-- first path segment of a header -/
def firstSegment (h : Text) : Text := h.takeWhile (· != '/')

/-- file name of a header without directory and without `.h` -/
def headerStem (h : Text) : Text :=
  let base := (h.reverse.takeWhile (· != '/')).reverse
  match stripSuffix? (t!".h") base with
  | some s => s
  | none => base

/-- ATLAS row: `xAOD::<X>Container` of `xAOD::<X>` (or a single `xAOD::<X>`), fetched as
`const T*` holding pointers; the container's own header `<lib>/<class>.h` is among the headers;
every header lives in a package the row links against and every library is needed by a header. -/
def AtlasRowOk (r : Row) : Prop :=
  r.backend = t!"atlas" ∧
  (findClass Gen.atlasClasses r.cls).map (·.isCollection) = some r.element.isSome ∧
  (splitNs r.container).1 = t!"xAOD::" ∧
  (match r.element with
   | some e => stripSuffix? (t!"Container") (splitNs r.container).2 = some (splitNs e).2 ∧
       (splitNs e).1 = (splitNs r.container).1 ∧ r.depthType = 1 ∧ r.depthElem = 1
   | none => r.depthType = 1) ∧
  (∃ h ∈ r.includes, headerStem h = (splitNs r.container).2 ∧ firstSegment h ∈ r.libraries) ∧
  (∀ h ∈ r.includes, firstSegment h ∈ r.libraries) ∧
  (∀ l ∈ r.libraries, ∃ h ∈ r.includes, firstSegment h = l) ∧
  r.includes ≠ [] ∧ r.libraries ≠ []

/-- CMS row: `<ns>::<X>Collection` of `<ns>::<X>`, fetched through a handle holding values; the
element's own header `DataFormats/<pkg>/interface/<X>.h` is among the headers; no link library. -/
def CmsRowOk (backend : Text) (classes : List ClassInfo) (r : Row) : Prop :=
  r.backend = backend ∧ (findClass classes r.cls).map (·.isCollection) = some true ∧
  r.libraries = [] ∧ r.depthType = 1 ∧ r.depthElem = 0 ∧
  (match r.element with
   | some e =>
     (splitNs e).1 = (splitNs r.container).1 ∧
     stripSuffix? (t!"Collection") (splitNs r.container).2 = some (splitNs e).2 ∧
     ∃ h ∈ r.includes, headerStem h = (splitNs e).2
   | none => False) ∧
  (∀ h ∈ r.includes, firstSegment h = t!"DataFormats" ∧ isInfix (t!"/interface/") h = true)

instance (r : Row) : Decidable (AtlasRowOk r) := by
  unfold AtlasRowOk; cases r.element <;> exact inferInstance

instance (backend : Text) (classes : List ClassInfo) (r : Row) : Decidable (CmsRowOk backend classes r) := by
  unfold CmsRowOk; cases r.element <;> exact inferInstance

/-- default method types: nothing declared twice, pointer depth 0 or 1 -/
def DefaultTypesOk (ts : List MethodType) : Prop :=
  (ts.map (fun t => (t.cls, t.method))).Nodup ∧ ∀ t ∈ ts, t.depth ≤ 1

instance (ts : List MethodType) : Decidable (DefaultTypesOk ts) := by unfold DefaultTypesOk; exact inferInstance

/-- every class that has default method types can be reached: it is the element type of a built-in
collection or what another default method returns -/
def DefaultTypesReachable (rows : List Row) (ts : List MethodType) : Prop :=
  ∀ t ∈ ts, (∃ r ∈ rows, r.element = some t.cls) ∨ (∃ t' ∈ ts, t'.type = t.cls)

instance (rows : List Row) (ts : List MethodType) : Decidable (DefaultTypesReachable rows ts) := by
  unfold DefaultTypesReachable; exact inferInstance

def namesOf (rows : List Row) : List Text := rows.map (·.name)

/-! ## status-checked retrieval (ATLAS): a tiny semantics of the inline block -/

/-- the statements a retrieval line can be -/
inductive RetrieveStmt where
  | checked (bank : Text)      -- `ANA_CHECK (evtStore()->retrieve(result, bank));`
  | unchecked (bank : Text)    -- `evtStore()->retrieve(result, bank);`
  | other
deriving DecidableEq, Repr, Inhabited

def parseRetrieve (l : Text) : RetrieveStmt :=
  match stripPrefix? (t!"ANA_CHECK (evtStore()->retrieve(result, ") l with
  | some rest =>
    match stripSuffix? (t!"));") rest with
    | some bank => .checked bank
    | none => .other
  | none =>
    match stripPrefix? (t!"evtStore()->retrieve(result, ") l with
    | some rest =>
      match stripSuffix? (t!");") rest with
      | some bank => .unchecked bank
      | none => .other
    | none => .other

/-- what happens in `execute()` -/
inductive Event where
  | retrieve (bank : Text)
  | useContainer (isNull : Bool)     -- the container variable is read by the rest of the job
  | abort                            -- `return StatusCode::FAILURE` (the fault `retrieveFailed`)
deriving DecidableEq, Repr, Inhabited

/-- `{ T result = 0; <stmt>; x = result; }` followed by `uses` reads of `x`; `found` tells
whether the store holds the bank. -/
def runRetrieve (found : Text → Bool) (stmt : RetrieveStmt) (uses : Nat) : List Event :=
  match stmt with
  | .checked bank =>
    if found bank then .retrieve bank :: List.replicate uses (.useContainer false)
    else [.retrieve bank, .abort]
  | .unchecked bank =>
    .retrieve bank :: List.replicate uses (.useContainer (!found bank))
  | .other => List.replicate uses (.useContainer true)

/-! ## the executed job (thorough tier: the rendered job compiled against a mock event store)

Not the subject of a theorem: C++ semantics is validated by running g++-compiled jobs, not proved
(DESIGN §7).  `ExecSpec` is what the log of the mock store / event must look like. -/

/-- one request the mock event store / event received -/
structure ReqObs where
  ty : Text
  bank : Text
  ok : Bool
deriving DecidableEq, Repr, Inhabited

/-- up to and including the first element satisfying `p` -/
def takeThrough {α : Type} (p : α → Bool) : List α → List α
  | [] => []
  | a :: as => if p a then [a] else a :: takeThrough p as

/-- `wanted`: (container type, bank) of the calls in execution order; `fails`: banks the store
does not hold.  The store is asked for exactly the wanted (type, bank) pairs, in order, up to and
including the first one it does not hold; every answer is honest; the event succeeds iff nothing
is missing, and after a missing one nothing else happens (no crash, no further request). -/
def ExecSpec (wanted : List (Text × Text)) (fails : List Text) (reqs : List ReqObs) (success crashed : Bool) : Prop :=
  crashed = false ∧
  (reqs.map fun r => (r.ty, r.bank)).eraseDups = takeThrough (fun p => decide (p.2 ∈ fails)) wanted.eraseDups ∧
  (∀ r ∈ reqs, r.ok = decide (r.bank ∉ fails)) ∧
  success = decide (∀ p ∈ wanted, p.2 ∉ fails) ∧
  (success = false → ∃ r, reqs.getLast? = some r ∧ r.ok = false)

instance (w : List (Text × Text)) (f : List Text) (r : List ReqObs) (s c : Bool) : Decidable (ExecSpec w f r s c) := by
  unfold ExecSpec
  cases r.getLast? <;> exact inferInstance

/-! ## reading the implementation's text (executable; used by the driver only) -/

def isForLine (l : Text) : Bool := (t!"for (auto &&").isPrefixOf l

/-- `for (auto &&V : E)` ↦ `(V, E)` -/
def parseFor (l : Text) : Option (Text × Text) :=
  match stripPrefix? (t!"for (auto &&") l with
  | none => none
  | some rest =>
    let v := rest.takeWhile isWordChar
    match stripPrefix? (t!" : ") (rest.drop v.length) with
    | none => none
    | some e =>
      match stripSuffix? (t!")") e with
      | some e' => some (v, e')
      | none => none

/-- the member operators that follow the whole-word occurrences of `v` in a line -/
def opsAfter (v : Text) : List Text → List Text
  | [] => []
  | t :: rest =>
    if t = v then
      (match rest with
       | ['-'] :: ['>'] :: _ => t!"->"
       | ['.'] :: _ => t!"."
       | [] => []
       | t' :: _ => t') :: opsAfter v rest
    else opsAfter v rest

/-- blocks `{ l₁ … lₙ }` without inner braces whose last statement is `x = result;` -/
def findBlocks : List Text → List (List Text)
  | [] => []
  | l :: rest =>
    if l = ['{'] then
      let inner := rest.takeWhile (fun x => x != ['{'] && x != ['}'])
      let after := rest.drop inner.length
      match after, inner.getLast? with
      | ['}'] :: _, some last =>
        if (t!" = result;").isSuffixOf last then inner :: findBlocks rest else findBlocks rest
      | _, _ => findBlocks rest
    else findBlocks rest

def tokenIn (lines : List Text) : Text :=
  match lines.findSome? (fun l =>
    match stripPrefix? (t!"iEvent.getByToken(") l with
    | some rest => stripSuffix? (t!", result);") rest
    | none => none) with
  | some t => t
  | none => []

def observeBlock (body : List Text) (blk : List Text) : FragObs :=
  let x : Text := match blk.getLast? with
    | some last => (stripSuffix? (t!" = result;") last).getD []
    | none => []
  let declSuffix := ' ' :: x ++ [';']
  let loops := body.filterMap parseFor |>.filter (fun p => hasWord x p.2)
  let plain := body.filter (fun l => !isForLine l)
  let elemOps := loops.flatMap (fun p => plain.flatMap (fun l => opsAfter p.1 (tokens l)))
  let selfLines := plain.filter (fun l => !declSuffix.isSuffixOf l && !(x ++ t!" = ").isPrefixOf l)
  { var := x, tok := tokenIn blk,
    decls := body.filter (fun l => declSuffix.isSuffixOf l),
    lines := blk,
    iters := loops.map (·.2),
    elemOps := elemOps,
    selfOps := selfLines.flatMap (fun l => opsAfter x (tokens l)) }

/-- the observation of an implementation's job: `body` the per-event code, `classDecl` the class
declarations, `book` the booking code (all as trimmed lines) -/
def observeText (body classDecl book includes libs : List Text) : Obs :=
  { frags := (findBlocks body).map (observeBlock body),
    classDecls := classDecl.filter (fun l => isInfix (t!"EDGetTokenT<") l),
    book := book.filter (fun l => isInfix (t!"consumes<") l),
    includes := includes, libs := libs }

/-- a block `{ …; x = result; }` that asks the event store / the event for something; the inline
blocks of C++ functions (`DeltaR`, `add_cpp_function` code) end in `x = result;` too and are no
retrievals -/
def isRetrievalBlock (blk : List Text) : Bool :=
  blk.any fun l => isInfix (t!"retrieve(") l || isInfix (t!"getByLabel(") l || isInfix (t!"getByToken(") l

/-- `observeText` for jobs that also call C++ functions: only the blocks that carry a retrieval
call are retrievals (a retrieval block that lost its idiom line is then a missing block) -/
def observeTextR (body classDecl book includes libs : List Text) : Obs :=
  { observeText body classDecl book includes libs with
    frags := ((findBlocks body).filter isRetrievalBlock).map (observeBlock body) }

end FaxVerif.C06
