/-
C06 — extension of the executable model:

 * `cpp_ast_finder` (common/cpp_ast.py) as a traversal of python expression TREES: `visit_Call`
   first visits every child of the call (`generic_visit`: the `func` field, then the arguments),
   then — if the call is `name.attr(…)` with `name` an `ast.Name`, or `fn(…)` — asks the table of
   method names and replaces the call's `func` by the C++ value (`rewritten`).  A rewritten call
   is returned as it is (its arguments were visited BEFORE the rewrite).
 * the lists `executor.write_cpp_files` hands to the templates and the `#include` lines the
   templates of each backend make of them (`Generated/C06Render.lean`, re-read on every run).

No Mathlib/Batteries; total, computable.
-/
import FaxVerif.C06.Spec
import FaxVerif.Generated.C06Render
namespace FaxVerif.C06

/-! ## expression trees -/

mutual
/-- python `ast` expressions as far as `cpp_ast_finder` tells them apart -/
inductive PExpr where
  | atom (t : Text)                                   -- `ast.Name`, number constants, …: no children
  | str (s : Text)                                    -- a string constant
  | node (kids : PExprs)                              -- any other node (Tuple, Dict, IfExp, BinOp, Compare, Lambda, Attribute, …) with its children in field order
  | callAttr (recv attr : Text) (args : PExprs)       -- `recv.attr(args)` where `recv` is an `ast.Name`
  | callName (fn : Text) (args : PExprs)              -- `fn(args)`
  | callOther (f : PExpr) (args : PExprs)             -- any other call, e.g. `a.b().c(args)`: `f` is the `func` field
  | rewritten (name : Text) (args : PExprs)           -- a call whose `func` has been replaced by a `CPPCodeValue` (output only)
/-- child lists -/
inductive PExprs where
  | nil
  | cons (e : PExpr) (es : PExprs)
end

mutual
/-- `cpp_ast_finder.visit` with `known n` = "`n` is a key of the method-name table" -/
def visit (known : Text → Bool) : PExpr → PExpr
  | .atom t => .atom t
  | .str s => .str s
  | .node ks => .node (visitAll known ks)
  | .callAttr r a args => if known a then .rewritten a (visitAll known args) else .callAttr r a (visitAll known args)
  | .callName f args => if known f then .rewritten f (visitAll known args) else .callName f (visitAll known args)
  | .callOther f args => .callOther (visit known f) (visitAll known args)
  | .rewritten n args => .rewritten n args
def visitAll (known : Text → Bool) : PExprs → PExprs
  | .nil => .nil
  | .cons e es => .cons (visit known e) (visitAll known es)
end

mutual
/-- the traversal of seeded change C06-e3 (kept as a foil): children are visited only when the call
itself did not match -/
def visitNoDescent (known : Text → Bool) : PExpr → PExpr
  | .atom t => .atom t
  | .str s => .str s
  | .node ks => .node (visitNoDescentAll known ks)
  | .callAttr r a args => if known a then .rewritten a args else .callAttr r a (visitNoDescentAll known args)
  | .callName f args => if known f then .rewritten f args else .callName f (visitNoDescentAll known args)
  | .callOther f args => .callOther (visitNoDescent known f) (visitNoDescentAll known args)
  | .rewritten n args => .rewritten n args
def visitNoDescentAll (known : Text → Bool) : PExprs → PExprs
  | .nil => .nil
  | .cons e es => .cons (visitNoDescent known e) (visitNoDescentAll known es)
end

/-- what `get_collection` looks at in an argument: a string constant or anything else -/
def argShape : PExpr → Arg
  | .str s => .str s
  | _ => .other

def PExprs.shapes : PExprs → List Arg
  | .nil => []
  | .cons e es => argShape e :: es.shapes

mutual
/-- no `rewritten` node: a tree as it comes from the front end -/
def PExpr.raw : PExpr → Bool
  | .atom _ => true
  | .str _ => true
  | .node ks => ks.raw
  | .callAttr _ _ args => args.raw
  | .callName _ args => args.raw
  | .callOther f args => f.raw && args.raw
  | .rewritten _ _ => false
def PExprs.raw : PExprs → Bool
  | .nil => true
  | .cons e es => e.raw && es.raw
end

mutual
/-- the calls of the tree that name a known function, at EVERY position (post-order: a call's
arguments before the call), each with the shapes of its own arguments -/
def sites (known : Text → Bool) : PExpr → List (Text × List Arg)
  | .atom _ => []
  | .str _ => []
  | .node ks => sitesAll known ks
  | .callAttr _ a args => sitesAll known args ++ (if known a then [(a, args.shapes)] else [])
  | .callName f args => sitesAll known args ++ (if known f then [(f, args.shapes)] else [])
  | .callOther f args => sites known f ++ sitesAll known args
  | .rewritten _ args => sitesAll known args
def sitesAll (known : Text → Bool) : PExprs → List (Text × List Arg)
  | .nil => []
  | .cons e es => sites known e ++ sitesAll known es
end

mutual
/-- the rewritten calls of a tree (post-order) -/
def found : PExpr → List (Text × List Arg)
  | .atom _ => []
  | .str _ => []
  | .node ks => foundAll ks
  | .callAttr _ _ args => foundAll args
  | .callName _ args => foundAll args
  | .callOther f args => found f ++ foundAll args
  | .rewritten n args => foundAll args ++ [(n, args.shapes)]
def foundAll : PExprs → List (Text × List Arg)
  | .nil => []
  | .cons e es => found e ++ foundAll es
end

/-- the collection calls of a query tree, as the job model takes them: every call site whose name
is a collection function of the table, in the order the finder rewrites them -/
def usesOfTree (table : List CollSpec) (known : Text → Bool) (e : PExpr) : List Use :=
  ((sites known e).filter (fun p => (lookup table p.1).isSome)).map (fun p => { name := p.1, args := p.2, skip := 0 })

/-! ## what the templates include -/

/-- an `inject_code` block as far as includes and libraries go -/
structure Inject where
  bodyIncludes : List Text
  headerIncludes : List Text
  linkLibraries : List Text
deriving DecidableEq, Repr, Inhabited

/-- value of one part of a list expression of `write_cpp_files` -/
def partValue (qvIncs qvLibs : List Text) (blocks : List Inject) (p : Text) : List Text :=
  if p = t!"qv.include_files()" then qvIncs
  else if p = t!"qv.link_libraries()" then qvLibs
  else if p = t!"self.body_include_files" then blocks.flatMap (·.bodyIncludes)
  else if p = t!"self.header_include_files" then blocks.flatMap (·.headerIncludes)
  else if p = t!"self.link_libraries" then blocks.flatMap (·.linkLibraries)
  else []

/-- value of the template variable `v` -/
def templateVar (qvIncs qvLibs : List Text) (blocks : List Inject) (v : Text) : List Text :=
  if v = t!"body_include_files" then GenR.bodyListParts.flatMap (partValue qvIncs qvLibs blocks)
  else if v = t!"header_include_files" then GenR.headerListParts.flatMap (partValue qvIncs qvLibs blocks)
  else if v = t!"link_libraries" then GenR.linkListParts.flatMap (partValue qvIncs qvLibs blocks)
  else []

/-- the generated `#include "…"` lines of one rendered file of the backend -/
def fileIncludes (b : Backend) (file : Text) (qvIncs qvLibs : List Text) (blocks : List Inject) : List Text :=
  (GenR.includeLoops.filter (fun r => r.1 = b.execName && r.2.1 = file)).flatMap
    (fun r => r.2.2.flatMap (templateVar qvIncs qvLibs blocks))

/-- the include closure of the backend's main source: its own generated includes and those of the
rendered files it includes -/
def includeClosure (b : Backend) (qvIncs qvLibs : List Text) (blocks : List Inject) : List Text :=
  (GenR.mainIncludes.filter (fun r => r.1 = b.execName)).flatMap fun r =>
    fileIncludes b r.2.1 qvIncs qvLibs blocks ++ r.2.2.flatMap (fun f => fileIncludes b f qvIncs qvLibs blocks)

/-- the libraries on the backend's link line (ATLAS only; CMS links nothing per query) -/
def linkLine (b : Backend) (qvIncs qvLibs : List Text) (blocks : List Inject) : List Text :=
  (GenR.linkLoops.filter (fun r => r.1 = b.execName)).flatMap (fun r => r.2.2.flatMap (templateVar qvIncs qvLibs blocks))

end FaxVerif.C06
