/-
Gen — END TO END for event-level rows whose columns nest loops to ANY depth:
    ds.Select(e → {name: e.Coll(bank).Where*.Select(y → DE), …})
`deepEventRows_correct_post`: the package `compileD` emits (all retrieval variables, then per column the retrieval
block and the outer loop with the expression's block — loops nested as deep as the expression — in its body, one
Fill, the clears) writes exactly the one row the query denotes, from a class state in which the column vectors
are empty, and leaves them empty again — every column list, event, number model, all three backends. The
column-list bookkeeping of Gen/NestedEventRowsCorrect.lean, re-instantiated for `DCol`.
-/
import FaxVerif.Gen.DeepColCorrect
import FaxVerif.Gen.NestedEventRowsCorrect
namespace FaxVerif.Gen
open FaxVerif.Cpp FaxVerif.Linq
variable {D : Type}

/-! ## one column -/

/-- per-event side conditions of one column: static well-typedness; the objects of the bank return values of the
declared kinds at every level (`DEHyp`) -/
def DColHyp (QC : QCtx D) (col : DCol) : Prop :=
  wtOuter col.c = true ∧ wtDE none col.e = true ∧ ChainTyped QC col.c ∧
    (∀ cty l, QC.ev.find col.c.bank = some (cty, .vec l) → ∀ v ∈ l, DEHyp QC col.e 0 outerVar [("e", evtVal)] v)

section
variable (N : Num D) (B : Backend) (nm cn : Nat → String) (hinj : ∀ i j, nm i = nm j → i = j)
include N hinj

theorem compDCol_next_ge (idx : Nat) (col : DCol) (n : Nat) : n + 3 ≤ (compDCol B nm cn idx col n).next := by
  have h1 := outerNext_ge B nm col.c n
  have h2 := aggKD_next_ge B nm hinj N (cn idx) col.e (stepConds B.elemPtr (outerIt nm n) none col.c.steps).2.1
    (stepConds B.elemPtr (outerIt nm n) none col.c.steps).2.2 (outerNext B nm col.c n)
  simp only [compDCol, compChainN]; omega

omit N hinj in
theorem compDCol_stmts (idx : Nat) (col : DCol) (n : Nat) :
    (compDCol B nm cn idx col n).stmts =
      (compChain B nm col.c n (fun cur ty => (aggKD B nm (cn idx) col.e cur ty (outerNext B nm col.c n)).1)).stmts := rfl

omit N hinj in
theorem compDCol_decls_eq (idx : Nat) (col : DCol) (n : Nat) :
    (compDCol B nm cn idx col n).decls =
      (compChain B nm col.c n (fun cur ty => (aggKD B nm (cn idx) col.e cur ty (outerNext B nm col.c n)).1)).decls := rfl

def dcolsNext (B : Backend) (nm cn : Nat → String) : List DCol → Nat → Nat → Nat
  | [], _, n => n
  | c :: cs, idx, n => dcolsNext B nm cn cs (idx + 1) (compDCol B nm cn idx c n).next

theorem dcolsNext_ge : ∀ (cols : List DCol) (idx n : Nat), n ≤ dcolsNext B nm cn cols idx n
  | [], _, n => Nat.le_refl n
  | c :: cs, idx, n => by
    have h1 := compDCol_next_ge N B nm cn hinj idx c n
    have h2 := dcolsNext_ge cs (idx + 1) (compDCol B nm cn idx c n).next
    simp only [dcolsNext]; omega

theorem compDCol_decls (idx : Nat) (col : DCol) (n : Nat) :
    DeclsIn nm n (compDCol B nm cn idx col n).next (compDCol B nm cn idx col n).decls := by
  have hn := compDCol_next_ge N B nm cn hinj idx col n
  rw [compDCol_decls_eq]
  intro d hd
  simp only [compChain, List.mem_singleton] at hd
  exact ⟨_, _, _, hd, n, Nat.le_refl n, by omega, rfl⟩

theorem compDCols_declsIn : ∀ (cols : List DCol) (idx n : Nat),
    DeclsIn nm n (dcolsNext B nm cn cols idx n) ((compDCols B nm cn cols idx n).flatMap (·.decls))
  | [], _, n => by intro d hd; simp [compDCols] at hd
  | c :: cs, idx, n => by
    simp only [compDCols, List.flatMap_cons, dcolsNext]
    have h1 := compDCol_next_ge N B nm cn hinj idx c n
    have h2 := dcolsNext_ge N B nm cn hinj cs (idx + 1) (compDCol B nm cn idx c n).next
    exact ((compDCol_decls N B nm cn hinj idx c n).mono (Nat.le_refl _) h2).append
      ((compDCols_declsIn cs (idx + 1) _).mono (by omega) (Nat.le_refl _))

omit N hinj in
theorem compDCols_vars : ∀ (cols : List DCol) (idx n : Nat),
    (compDCols B nm cn cols idx n).map (·.classVar.2) = colNames cn cols.length idx
  | [], _, _ => rfl
  | c :: cs, idx, n => by
    simp only [compDCols, List.map_cons, List.length_cons, colNames]
    rw [compDCols_vars cs (idx + 1) _]; rfl

omit N hinj in
theorem compDCols_length : ∀ (cols : List DCol) (idx n : Nat), (compDCols B nm cn cols idx n).length = cols.length
  | [], _, _ => rfl
  | c :: cs, idx, n => by simp [compDCols, compDCols_length cs]

end

theorem compDCol_declsOK (C : Ctx D) (B : Backend) (hB : BackendBase B) (nm cn : Nat → String) (idx : Nat) (col : DCol) (n : Nat) :
    (∀ d ∈ (compDCol B nm cn idx col n).decls, SimpleDecl C.N d) ∧ ((compDCol B nm cn idx col n).decls.map declName).Nodup := by
  rw [compDCol_decls_eq]
  have hc := compChain_declsOK_base C B hB nm col.c n
    (fun cur ty => (aggKD B nm (cn idx) col.e cur ty (outerNext B nm col.c n)).1)
  exact ⟨hc.1, by rw [hc.2]; simp⟩

theorem compDCols_declsOK (C : Ctx D) (B : Backend) (hB : BackendBase B) (nm cn : Nat → String)
    (hinj : ∀ i j, nm i = nm j → i = j) : ∀ (cols : List DCol) (idx n : Nat),
    (∀ d ∈ (compDCols B nm cn cols idx n).flatMap (·.decls), SimpleDecl C.N d) ∧
    (((compDCols B nm cn cols idx n).flatMap (·.decls)).map declName).Nodup
  | [], _, _ => by simp [compDCols]
  | c :: cs, idx, n => by
    have hc := compDCol_declsOK C B hB nm cn idx c n
    have ih := compDCols_declsOK C B hB nm cn hinj cs (idx + 1) (compDCol B nm cn idx c n).next
    simp only [compDCols, List.flatMap_cons]
    refine ⟨fun d hd => ?_, ?_⟩
    · rcases List.mem_append.1 hd with h | h
      · exact hc.1 d h
      · exact ih.1 d h
    · rw [List.map_append]
      exact nodup_append_ranges hinj hc.2 ih.2 (declsIn_names (compDCol_decls C.N B nm cn hinj idx c n))
        (declsIn_names (compDCols_declsIn C.N B nm cn hinj cs (idx + 1) _))

/-- **one column** — from a state in which the column's retrieval variable is declared and its vector variable is
empty: afterwards the vector variable holds exactly the list the column denotes. -/
theorem compDCol_correct (C : Ctx D) (QC : QCtx D) (hN : QC.N = C.N) (hev : QC.ev = C.ev)
    (B : Backend) (hB : BackendBase B) (nm cn : Nat → String)
    (hinj : ∀ i j, nm i = nm j → i = j) (hres : ∀ j, nm j ≠ "result")
    (hcres : ∀ k, cn k ≠ "result") (hdisj : ∀ j k, nm j ≠ cn k)
    (hcollT : ∀ name, B.collType name = QC.collType name)
    (col : DCol) (idx n : Nat) (htok : TokChain B nm C col.c n) (s : St D) (v : Val D)
    (hdone : DeclsDone C.N (compDCol B nm cn idx col n).decls s.env)
    (hpre : s.env (cn idx) = some (.val (.vec []))) (hhyp : DColHyp QC col)
    (hden : denote QC [("e", evtVal)] (dcolQ "e" col) = .ok v) :
    ∃ us s', v = .vec us ∧ execs C (compDCol B nm cn idx col n).stmts s = .ok s' ∧ s'.rows = s.rows ∧
      s'.env (cn idx) = some (.val (.vec us)) ∧
      (∀ z, z ≠ cn idx → ¬ Touch nm n (compDCol B nm cn idx col n).next z → s'.env z = s.env z) := by
  have hx : (s.env (nm n)).isSome = true := by
    have := hdone (.decl (B.handleTy ((B.collType col.c.coll).getD "?")) (nm n) none)
      (by rw [compDCol_decls_eq]; simp [compChain])
    simpa [DeclOK] using this
  obtain ⟨hwo, hwt, hct, hq⟩ := hhyp
  exact deepCol_correct C QC hN hev B hB nm hinj hres hcollT col.c hwo n htok (cn idx) (fun j => hdisj j idx) (hcres idx)
    col.e hwt hct hq s hx hpre v hden

/-! ## tokens -/

def TokDCols (B : Backend) (nm cn : Nat → String) (C : Ctx D) : List DCol → Nat → Nat → Prop
  | [], _, _ => True
  | c :: cs, idx, n => TokChain B nm C c.c n ∧ TokDCols B nm cn C cs (idx + 1) (compDCol B nm cn idx c n).next

def dcolsToks (B : Backend) (nm cn : Nat → String) : List DCol → Nat → Nat → List (String × String × String)
  | [], _, _ => []
  | c :: cs, idx, n => chainToks B nm c.c n ++ dcolsToks B nm cn cs (idx + 1) (compDCol B nm cn idx c n).next

theorem banksOf_dcols (B : Backend) (ht : B.how = "token") (nm cn : Nat → String) :
    ∀ (cols : List DCol) (idx n : Nat) (rest : List Stmt) (bs : List String),
      banksOf B ((compDCols B nm cn cols idx n).flatMap (·.stmts) ++ rest) (cols.map (·.c.bank) ++ bs) =
        dcolsToks B nm cn cols idx n ++ banksOf B rest bs
  | [], idx, n, rest, bs => by simp [compDCols, dcolsToks]
  | c :: cs, idx, n, rest, bs => by
    simp only [compDCols, List.flatMap_cons, dcolsToks, List.map_cons, List.append_assoc, List.cons_append]
    rw [compDCol_stmts, banksOf_chain B ht nm c.c n, banksOf_dcols B ht nm cn cs]

theorem dcolsToks_names (N : Num D) (B : Backend) (nm cn : Nat → String) (hinj : ∀ i j, nm i = nm j → i = j) :
    ∀ (cols : List DCol) (idx n : Nat),
    ∀ y ∈ (dcolsToks B nm cn cols idx n).map (·.1), InRange nm n (dcolsNext B nm cn cols idx n) y
  | [], _, _, y, h => by simp [dcolsToks] at h
  | c :: cs, idx, n, y, h => by
    have h1 := compDCol_next_ge N B nm cn hinj idx c n
    have h2 := dcolsNext_ge N B nm cn hinj cs (idx + 1) (compDCol B nm cn idx c n).next
    simp only [dcolsToks, List.map_append, List.mem_append] at h
    simp only [dcolsNext]
    rcases h with h | h
    · simp only [chainToks, List.map_cons, List.map_nil, List.mem_singleton] at h
      exact ⟨n + 2, by omega, by omega, h⟩
    · exact (dcolsToks_names N B nm cn hinj cs _ _ y h).mono (by omega) (Nat.le_refl _)

theorem dcolsToks_nodup (N : Num D) (B : Backend) (nm cn : Nat → String) (hinj : ∀ i j, nm i = nm j → i = j) :
    ∀ (cols : List DCol) (idx n : Nat), ((dcolsToks B nm cn cols idx n).map (·.1)).Nodup
  | [], _, _ => by simp [dcolsToks]
  | c :: cs, idx, n => by
    have h1 := compDCol_next_ge N B nm cn hinj idx c n
    simp only [dcolsToks, List.map_append]
    refine nodup_append_ranges hinj (a := n) (b := (compDCol B nm cn idx c n).next) (by simp [chainToks])
      (dcolsToks_nodup N B nm cn hinj cs _ _) ?_ (dcolsToks_names N B nm cn hinj cs _ _)
    intro y hy
    simp only [chainToks, List.map_cons, List.map_nil, List.mem_singleton] at hy
    exact ⟨n + 2, by omega, by omega, hy⟩

theorem tokDCols_of_lookup (B : Backend) (nm cn : Nat → String) (C : Ctx D) : ∀ (cols : List DCol) (idx n : Nat),
    (∀ t ∈ dcolsToks B nm cn cols idx n, C.tokenBank t.1 = some t.2) → TokDCols B nm cn C cols idx n
  | [], _, _, _ => trivial
  | c :: cs, idx, n, h =>
    ⟨fun _ => h (nm (n + 2), (B.collType c.c.coll).getD "?", c.c.bank) (by simp [dcolsToks, chainToks]),
      tokDCols_of_lookup B nm cn C cs _ _ (fun t ht => h t (by simp [dcolsToks, ht]))⟩

theorem tokDCols_of_notToken {B : Backend} (h : B.how ≠ "token") (nm cn : Nat → String) (C : Ctx D) :
    ∀ (cols : List DCol) (idx n : Nat), TokDCols B nm cn C cols idx n
  | [], _, _ => trivial
  | c :: cs, _, n => ⟨tokChain_of_notToken h nm C c.c n, tokDCols_of_notToken h nm cn C cs _ _⟩

/-- **the token table `compileD` emits for event-level rows binds every chain's token** -/
theorem tokDCols_eventRows (B : Backend) (nm cn : Nat → String) (hinj : ∀ i j, nm i = nm j → i = j)
    (cols : List (String × DCol)) (N : Num D) (ev : Event D) :
    TokDCols B nm cn ((compileD B nm cn (.eventRows cols)).ctx N ev) (cols.map (·.2)) 0 0 := by
  by_cases ht : B.how = "token"
  · have h := banksOf_dcols B ht nm cn (cols.map (·.2)) 0 0 [] []
    simp only [List.append_nil] at h
    have hb : cols.map (·.2.c.bank) = (cols.map (·.2)).map (·.c.bank) := by simp [List.map_map]
    have htoks : ((compileD B nm cn (.eventRows cols)).ctx N ev).tokens = dcolsToks B nm cn (cols.map (·.2)) 0 0 := by
      simp only [Package.ctx, compileD]
      rw [hb, h]; simp [banksOf]
    apply tokDCols_of_lookup
    intro t hm
    exact tokenBank_of_mem _ (by rw [htoks]; exact dcolsToks_nodup N B nm cn hinj _ 0 0) t (by rw [htoks]; exact hm)
  · exact tokDCols_of_notToken ht nm cn _ _ 0 0

/-! ## all columns -/

/-- running the loops of all columns, in order -/
theorem compDCols_correct (C : Ctx D) (QC : QCtx D) (hN : QC.N = C.N) (hev : QC.ev = C.ev)
    (B : Backend) (hB : BackendBase B) (nm cn : Nat → String)
    (hinj : ∀ i j, nm i = nm j → i = j) (hcinj : ∀ i j, cn i = cn j → i = j) (hres : ∀ j, nm j ≠ "result")
    (hcres : ∀ k, cn k ≠ "result") (hdisj : ∀ j k, nm j ≠ cn k)
    (hcollT : ∀ name, B.collType name = QC.collType name) :
    ∀ (cols : List DCol) (idx n : Nat) (s : St D) (vs : List (Val D)), TokDCols B nm cn C cols idx n →
      DeclsDone C.N ((compDCols B nm cn cols idx n).flatMap (·.decls)) s.env →
      NColsPre cn cols.length idx s.env → (∀ col ∈ cols, DColHyp QC col) →
      denotes QC [("e", evtVal)] (cols.map (dcolQ "e")) = .ok vs →
      ∃ s', execs C ((compDCols B nm cn cols idx n).flatMap (·.stmts)) s = .ok s' ∧ s'.rows = s.rows ∧
        VarsHold cn idx vs s'.env ∧ AllVec vs ∧
        (∀ y, (∀ k, idx ≤ k → y ≠ cn k) → ¬ Touch nm n (dcolsNext B nm cn cols idx n) y → s'.env y = s.env y)
  | [], idx, n, s, vs, _, _, _, _, hden => by
    simp only [List.map_nil, denotes, Except.ok.injEq] at hden; subst hden
    exact ⟨s, by simp [compDCols, execs], rfl, trivial, by intro v hv; simp at hv, fun _ _ _ => rfl⟩
  | c :: cs, idx, n, s, vs, htk, hdone, hpre, hhyp, hden => by
    simp only [List.map_cons, denotes] at hden
    cases hd1 : denote QC [("e", evtVal)] (dcolQ "e" c) with
    | error e => rw [hd1] at hden; simp at hden
    | ok v =>
      rw [hd1] at hden; simp only [] at hden
      cases hd2 : denotes QC [("e", evtVal)] (cs.map (dcolQ "e")) with
      | error e => rw [hd2] at hden; simp at hden
      | ok vs' =>
        rw [hd2] at hden; simp only [Except.ok.injEq] at hden; subst hden
        simp only [compDCols, List.flatMap_cons] at hdone ⊢
        have h1 := compDCol_next_ge C.N B nm cn hinj idx c n
        have h2 := dcolsNext_ge C.N B nm cn hinj cs (idx + 1) (compDCol B nm cn idx c n).next
        obtain ⟨us, s1, rfl, hex1, hr1, hcol1, hfr1⟩ := compDCol_correct C QC hN hev B hB nm cn hinj hres hcres hdisj hcollT c idx n htk.1 s v
          (fun d hd => hdone d (by simp [hd])) (hpre idx (Nat.le_refl _) (by simp)) (hhyp c (by simp)) hd1
        have hrest_names : ∀ y, InRange nm (compDCol B nm cn idx c n).next (dcolsNext B nm cn cs (idx + 1) (compDCol B nm cn idx c n).next) y →
            s1.env y = s.env y := by
          intro y hy
          apply hfr1 y
          · obtain ⟨j, _, _, hj⟩ := hy; rw [hj]; exact hdisj j idx
          · rintro (h | h)
            · exact inRange_disjoint hinj hy h
            · obtain ⟨j, _, _, hj⟩ := hy; exact hres j (hj ▸ h)
        have hcn_rest : ∀ k, idx + 1 ≤ k → s1.env (cn k) = s.env (cn k) := by
          intro k hk
          apply hfr1
          · intro e; have := hcinj _ _ e; omega
          · rintro (⟨j, _, _, hj⟩ | h)
            · exact hdisj j k hj.symm
            · exact hcres k h
        have hdone2 : DeclsDone C.N ((compDCols B nm cn cs (idx + 1) (compDCol B nm cn idx c n).next).flatMap (·.decls)) s1.env :=
          DeclsDone.transport (fun d hd => hdone d (by simp [hd])) (compDCols_declsIn C.N B nm cn hinj cs (idx + 1) _) hrest_names
        have hpre2 : NColsPre cn cs.length (idx + 1) s1.env := by
          intro k hk1 hk2
          rw [hcn_rest k hk1]
          exact hpre k (by omega) (by simp only [List.length_cons]; omega)
        obtain ⟨s', hex2, hr2, hvars2, hvec2, hfr2⟩ := compDCols_correct C QC hN hev B hB nm cn hinj hcinj hres hcres hdisj hcollT
          cs (idx + 1) _ s1 vs' htk.2 hdone2 hpre2 (fun col hc => hhyp col (by simp [hc])) hd2
        refine ⟨s', by rw [execs_append, hex1]; exact hex2, by rw [hr2, hr1], ⟨?_, hvars2⟩, ?_, ?_⟩
        · rw [hfr2 (cn idx) (fun k hk e => by have := hcinj _ _ e; omega) (by
            rintro (⟨j, _, _, hj⟩ | h)
            · exact hdisj j idx hj.symm
            · exact hcres idx h)]
          exact hcol1
        · intro w hw
          rcases List.mem_cons.1 hw with rfl | hw
          · exact ⟨us, rfl⟩
          · exact hvec2 w hw
        · intro y hy1 hy2
          simp only [dcolsNext] at hy2
          rw [hfr2 y (fun k hk => hy1 k (by omega)) (not_touch_sub hy2 (by omega) (Nat.le_refl _)),
              hfr1 y (hy1 idx (Nat.le_refl _)) (not_touch_sub hy2 (Nat.le_refl _) h2)]

/-- the clears after the fill: every column vector is empty again — the precondition of the NEXT event -/
theorem dclears_correct (C : Ctx D) (B : Backend) (nm cn : Nat → String) (hcinj : ∀ i j, cn i = cn j → i = j) :
    ∀ (cols : List DCol) (idx n : Nat) (s : St D) (vs : List (Val D)),
      VarsHold cn idx vs s.env → vs.length = cols.length → AllVec vs →
      ∃ s', execs C ((compDCols B nm cn cols idx n).flatMap (·.clears)) s = .ok s' ∧ s'.rows = s.rows ∧
        NColsPre cn cols.length idx s'.env ∧ (∀ y, (∀ k, idx ≤ k → y ≠ cn k) → s'.env y = s.env y)
  | [], _, _, s, _, _, _, _ => ⟨s, by simp [compDCols, execs], rfl, by intro k h1 h2; simp at h2; omega, fun _ _ => rfl⟩
  | c :: cs, idx, n, s, vs, hv, hlen, hok => by
    cases vs with
    | nil => simp at hlen
    | cons v vs =>
      simp only [VarsHold] at hv
      obtain ⟨l, rfl⟩ := hok v (by simp)
      simp only [compDCols, List.flatMap_cons, show (compDCol B nm cn idx c n).clears = [.clear (cn idx)] from rfl]
      have hv1 : VarsHold cn (idx + 1) vs (s.env.set (cn idx) (.vec [])) :=
        varsHold_stable cn vs (idx + 1) s.env _ (fun k hk => by
          have : cn k ≠ cn idx := fun e => by have := hcinj _ _ e; omega
          simp [Env.set, this]) hv.2
      obtain ⟨s', hex, hr, hpre, hfr⟩ := dclears_correct C B nm cn hcinj cs (idx + 1) _ { s with env := s.env.set (cn idx) (.vec []) } vs hv1
        (by simpa using hlen) (fun w hw => hok w (by simp [hw]))
      refine ⟨s', ?_, by rw [hr], ?_, ?_⟩
      · simp only [List.cons_append, List.nil_append, execs, exec, hv.1]
        exact hex
      · intro k hk1 hk2
        by_cases hk : k = idx
        · subst hk
          rw [hfr (cn k) (fun k' hk' e => by have := hcinj _ _ e; omega)]; simp [Env.set]
        · exact hpre k (by omega) (by simp only [List.length_cons] at hk2; omega)
      · intro y hy
        rw [hfr y (fun k hk => hy k (by omega))]
        simp [Env.set, hy idx (Nat.le_refl _)]

/-- **C01 (event-level rows of columns nested to any depth)** — for every list of columns, every event and every
class state in which the column vectors are empty: if the query denotes `rows` (necessarily one row) on the
event, the package the translator model emits writes exactly `rows`, and the class state it leaves behind has
the column vectors empty again. -/
theorem deepEventRows_correct_post (B : Backend) (hB : BackendBase B) (nm cn : Nat → String)
    (hinj : ∀ i j, nm i = nm j → i = j) (hcinj : ∀ i j, cn i = cn j → i = j)
    (hres : ∀ j, nm j ≠ "result") (hcres : ∀ k, cn k ≠ "result") (hdisj : ∀ j k, nm j ≠ cn k)
    (QC : QCtx D) (hcollT : ∀ name, B.collType name = QC.collType name)
    (cols : List (String × DCol)) (hhyp : ∀ p ∈ cols, DColHyp QC p.2)
    (σc : Env D) (hσ : NColsPre cn cols.length 0 σc)
    (rows : List (List (Val D)))
    (hden : denoteRows QC (DQ.toQuery (.eventRows cols)) = .ok rows) :
    ∃ σ', runEvent (compileD B nm cn (.eventRows cols)) QC.N σc QC.ev = .ok (rows, σ') ∧
      NColsPre cn cols.length 0 σ' := by
  let cs := cols.map (·.2)
  have hqs : (cols.map fun p => dcolQ "e" p.2) = cs.map (dcolQ "e") := by simp [cs, List.map_map]
  have hden' : denoteRows QC (.select .ds "e" (.dict (cols.map (·.1)) (cs.map (dcolQ "e")))) = .ok rows := by
    rw [← hqs]; exact hden
  obtain ⟨vs, hvs, rfl⟩ := eventDict_denote QC _ _ (by simp [cs]) rows hden'
  let fs := compDCols B nm cn cs 0 0
  let P := compileD B nm cn (.eventRows cols)
  let C := P.ctx QC.N QC.ev
  have hcslen : cs.length = cols.length := by simp [cs]
  have hCcols : C.cols = colNames cn cs.length 0 := by
    simp only [C, Package.ctx, P, compileD]
    rw [zip_map_snd _ _ (by simp [compDCols_length]), compDCols_vars]
  have hvlen : vs.length = cs.length := by
    have := denotes_length QC _ _ vs hvs; simpa using this
  obtain ⟨hsimple, hnodup⟩ := compDCols_declsOK C B hB nm cn hinj cs 0 0
  obtain ⟨sD, hexD, hrD, hdone, hfrD⟩ := exec_decls C (fs.flatMap (·.decls)) ⟨σc, []⟩ hsimple hnodup
  have hcnD : ∀ k, sD.env (cn k) = σc (cn k) := by
    intro k
    apply hfrD
    intro hm
    obtain ⟨j, _, _, hj⟩ := declsIn_names (compDCols_declsIn C.N B nm cn hinj cs 0 0) _ hm
    exact hdisj j k hj.symm
  obtain ⟨sS, hexS, hrS, hvars, hvec, _⟩ := compDCols_correct C QC rfl rfl B hB nm cn hinj hcinj hres hcres hdisj hcollT
    cs 0 0 sD vs (tokDCols_eventRows B nm cn hinj cols QC.N QC.ev) hdone
    (by intro k hk1 hk2; rw [hcnD k]; exact hσ k hk1 (by rw [← hcslen]; exact hk2))
    (fun col hc => by
      obtain ⟨p, hp, rfl⟩ := List.mem_map.1 hc
      exact hhyp p hp) hvs
  have hread : readCols sS.env C.cols = .ok vs := by
    rw [hCcols, ← hvlen]; exact readCols_of_varsHold cn vs 0 sS.env hvars
  obtain ⟨sF, hexF, hrF, hpreF, _⟩ := dclears_correct C B nm cn hcinj cs 0 0 ⟨sS.env, sS.rows ++ [vs]⟩ vs hvars hvlen hvec
  refine ⟨keepClass P.classVars sF.env, ?_, ?_⟩
  rotate_left
  · intro k hk1 hk2
    have hmem : cn k ∈ P.classVars.map (·.2) := by
      have h1 : cn k ∈ (fs.map (·.classVar)).map (·.2) := by
        rw [List.map_map]
        have := compDCols_vars B nm cn cs 0 0
        simp only [fs]
        rw [show ((fun x : String × String => x.2) ∘ fun x : ColFrag => x.classVar) = (fun x : ColFrag => x.classVar.2) from rfl, this]
        exact mem_colNames cn _ 0 k (Nat.zero_le _) (by rw [hcslen]; exact hk2)
      simp only [P, compileD, List.map_append, List.mem_append]
      exact Or.inr h1
    have hany : P.classVars.any (fun p => decide (p.2 = cn k)) = true := by
      obtain ⟨p, hp, hpe⟩ := List.mem_map.1 hmem
      simp only [List.any_eq_true, decide_eq_true_eq]
      exact ⟨p, hp, hpe⟩
    simp only [keepClass, hany, if_true]
    exact hpreF k hk1 (by rw [hcslen]; exact hk2)
  have hblock := exec_block4 C (fs.flatMap (·.decls)) (fs.flatMap (·.stmts)) (fs.flatMap (·.clears))
    (B.fillTree B.treeName) ⟨σc, []⟩ sD sS sF vs hexD hexS hread hexF
  have hbody : P.body = .block (fs.flatMap (·.decls) ++ fs.flatMap (·.stmts) ++
      [.fill (B.fillTree B.treeName)] ++ fs.flatMap (·.clears)) := rfl
  have hrun : runEvent P QC.N σc QC.ev = .ok (sF.rows, keepClass P.classVars sF.env) := by
    simp only [runEvent]
    rw [hbody]
    have : exec (P.ctx QC.N QC.ev) (.block (fs.flatMap (·.decls) ++ fs.flatMap (·.stmts) ++
      [.fill (B.fillTree B.treeName)] ++ fs.flatMap (·.clears))) ⟨σc, []⟩ = .ok sF := hblock
    rw [this]
  rw [show compileD B nm cn (.eventRows cols) = P from rfl, hrun]
  have : sF.rows = [vs] := by
    rw [hrF]; simp only
    rw [hrS, hrD]; rfl
  rw [this]

end FaxVerif.Gen
