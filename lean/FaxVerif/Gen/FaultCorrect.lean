/-
Gen — the FAULT direction of the translator model, part 1: expressions, one element, the loop of a
chain, the retrieval.

The success direction (`pe_correct`, `elem_correct`, `chainBody_correct`, `loop_correct`,
`compChain_correct_tok`) says: what the query defines, the emitted code computes. Here:

  * `peQ_fault`        a well-typed pure expression can only fault with a member fault of the element,
                       and only while the current value is still the object;
  * `elemSem_fault`    the same for one element going through the steps of a chain;
  * `elem_fault`       if the query faults on an element, the emitted conditions / value expression
                       fault with THE SAME fault (per element the evaluation order is the same) —
                       provided the chain is `strictSteps`: the body of a `Select` is inlined into
                       what follows it, so the emitted code evaluates it only where a later `Where`
                       condition or the consumer mentions the value (C++ is lazier than the query's
                       eager `Select`: `jets.Select(j → j.pt()).Count()` never calls `pt()`);
  * `andLower_fault`   the lowering of a fused conjunction raises the fault of the first condition
                       that faults (after true ones);
  * `chainBody_fault`, `loop_fault`, `compChain_fault_tok`, `compChain_retrieve_fault`
                       the loop body, the loop, retrieval + loop, a missing bank.

`elemsFold` is the element-at-a-time (interleaved) meaning of "chain, then consumer" — exactly what
the emitted loop does; `elemsFold_ok` / `elemsSem_chainList` relate it to the query's list-at-a-time
meaning: one is defined iff the other is (the REPORTED fault may differ: the query meets the faults
step by step over the whole list, the loop element by element).
-/
import FaxVerif.Gen.EventRowsCorrect
import FaxVerif.Gen.LazyExprCorrect
namespace FaxVerif.Gen
open FaxVerif.Cpp FaxVerif.Linq
variable {D : Type}

/-! ## pure expressions: typing, faults -/

/-- the value of a well-typed pure expression has the statically computed type -/
theorem peQ_typed (QC : QCtx D) (curTy : Option Ty) (v : Val D) (x : String) (ρ : LEnv D)
    (hty : ∀ t, curTy = some t → HasTy v t) (pe : PE) (hwt : wtPE curTy pe = true) (hmt : MethTyped v (methsPE pe))
    (w : Val D) (h : denote QC ((x, v) :: ρ) (peQ x pe) = .ok w) : HasTy w (tyPE (curT curTy) pe) :=
  (pe_correct QC (fun _ => some (.val v)) (.var "z") curTy false v x ρ (by simp [evalE]) hty pe hwt hmt).2 w h

/-- `f` is the fault of a call, on the element `v`, of one of the methods `ms` (the methods the query
itself calls: on a bank of good objects and null links the only such fault is `nullDeref`) -/
def MethFault (v : Val D) (ms : List (String × Ty)) (f : Fault) : Prop := ∃ p ∈ ms, member v p.1 [] = .error f

theorem MethFault.mono {v : Val D} {ms ms' : List (String × Ty)} {f : Fault} (h : MethFault v ms f)
    (hsub : ∀ p ∈ ms, p ∈ ms') : MethFault v ms' f := by
  obtain ⟨p, hp, hf⟩ := h; exact ⟨p, hsub p hp, hf⟩

theorem MethFault.elemFault {v : Val D} {ms : List (String × Ty)} {f : Fault} (h : MethFault v ms f) : ElemFault v f := by
  obtain ⟨p, _, hf⟩ := h; exact ⟨p.1, hf⟩

/-- a well-typed pure expression can only fault with a member fault of the element — and only when
the current value is the object itself (on numbers nothing can fault: int/int division is real
division, there is no modulo in the fragment) -/
theorem peQ_fault (QC : QCtx D) (curTy : Option Ty) (v : Val D) (x : String) (ρ : LEnv D)
    (hty : ∀ t, curTy = some t → HasTy v t) :
    ∀ (pe : PE), wtPE curTy pe = true → MethTyped v (methsPE pe) →
      ∀ f, denote QC ((x, v) :: ρ) (peQ x pe) = .error f → MethFault v (methsPE pe) f ∧ curTy = none
  | .int _, _, _, f, h => by simp [peQ, denote] at h
  | .dbl _ _, _, _, f, h => by simp [peQ, denote] at h
  | .bool _, _, _, f, h => by simp [peQ, denote] at h
  | .it, _, _, f, h => by simp [peQ, denote, LEnv.get] at h
  | .meth name ty, hwt, _, f, h => by
    simp only [peQ, denote, LEnv.get, if_true] at h
    simp only [wtPE, Option.isNone_iff_eq_none] at hwt
    exact ⟨⟨(name, ty), by simp [methsPE], h⟩, hwt⟩
  | .bin op a b, hwt, hmt, f, h => by
    simp only [wtPE, Bool.and_eq_true] at hwt
    obtain ⟨⟨⟨hwa, hwb⟩, hna⟩, hnb⟩ := hwt
    simp only [methsPE] at hmt
    simp only [peQ] at h
    rw [denote_bin] at h
    cases hra : denote QC ((x, v) :: ρ) (peQ x a) with
    | error e =>
      rw [hra] at h; simp only [strict2, Except.error.injEq] at h; subst h
      have ih := peQ_fault QC curTy v x ρ hty a hwa (methTyped_left hmt) e hra
      exact ⟨ih.1.mono (fun p hp => by simp [methsPE, hp]), ih.2⟩
    | ok wa =>
      cases hrb : denote QC ((x, v) :: ρ) (peQ x b) with
      | error e =>
        rw [hra, hrb] at h; simp only [strict2, Except.error.injEq] at h; subst h
        have ih := peQ_fault QC curTy v x ρ hty b hwb (methTyped_right hmt) e hrb
        exact ⟨ih.1.mono (fun p hp => by simp [methsPE, hp]), ih.2⟩
      | ok wb =>
        rw [hra, hrb] at h; simp only [strict2] at h
        obtain ⟨w, hw⟩ := pyArith_total QC.N op wa wb _ _
          (peQ_typed QC curTy v x ρ hty a hwa (methTyped_left hmt) wa hra)
          (peQ_typed QC curTy v x ρ hty b hwb (methTyped_right hmt) wb hrb) hna hnb
        rw [hw] at h; simp at h
  | .cmp op a b, hwt, hmt, f, h => by
    simp only [wtPE, Bool.and_eq_true] at hwt
    obtain ⟨⟨⟨hwa, hwb⟩, hna⟩, hnb⟩ := hwt
    simp only [methsPE] at hmt
    simp only [peQ] at h
    rw [denote_cmp] at h
    cases hra : denote QC ((x, v) :: ρ) (peQ x a) with
    | error e =>
      rw [hra] at h; simp only [strict2, Except.error.injEq] at h; subst h
      have ih := peQ_fault QC curTy v x ρ hty a hwa (methTyped_left hmt) e hra
      exact ⟨ih.1.mono (fun p hp => by simp [methsPE, hp]), ih.2⟩
    | ok wa =>
      cases hrb : denote QC ((x, v) :: ρ) (peQ x b) with
      | error e =>
        rw [hra, hrb] at h; simp only [strict2, Except.error.injEq] at h; subst h
        have ih := peQ_fault QC curTy v x ρ hty b hwb (methTyped_right hmt) e hrb
        exact ⟨ih.1.mono (fun p hp => by simp [methsPE, hp]), ih.2⟩
      | ok wb =>
        rw [hra, hrb] at h; simp only [strict2] at h
        obtain ⟨w, hw⟩ := cmp_total QC.N op wa wb _ _
          (peQ_typed QC curTy v x ρ hty a hwa (methTyped_left hmt) wa hra)
          (peQ_typed QC curTy v x ρ hty b hwb (methTyped_right hmt) wb hrb) hna hnb
        rw [hw] at h; simp at h
  | .neg a, hwt, hmt, f, h => by
    simp only [wtPE, Bool.and_eq_true] at hwt
    simp only [methsPE] at hmt
    simp only [peQ] at h
    rw [denote_neg] at h
    cases hra : denote QC ((x, v) :: ρ) (peQ x a) with
    | error e =>
      rw [hra] at h; simp only [strict1, Except.error.injEq] at h; subst h
      have ih := peQ_fault QC curTy v x ρ hty a hwt.1 hmt e hra
      exact ⟨ih.1.mono (fun p hp => by simpa [methsPE] using hp), ih.2⟩
    | ok wa =>
      rw [hra] at h; simp only [strict1] at h
      obtain ⟨w, hw, _⟩ := neg_total QC.N wa _ (peQ_typed QC curTy v x ρ hty a hwt.1 hmt wa hra) hwt.2
      rw [hw] at h; simp at h
  | .not a, hwt, hmt, f, h => by
    simp only [wtPE, Bool.and_eq_true, beq_iff_eq] at hwt
    simp only [methsPE] at hmt
    simp only [peQ] at h
    rw [denote_not] at h
    cases hra : denote QC ((x, v) :: ρ) (peQ x a) with
    | error e =>
      rw [hra] at h; simp only [strict1, Except.error.injEq] at h; subst h
      have ih := peQ_fault QC curTy v x ρ hty a hwt.1 hmt e hra
      exact ⟨ih.1.mono (fun p hp => by simpa [methsPE] using hp), ih.2⟩
    | ok wa =>
      rw [hra] at h; simp only [strict1] at h
      obtain ⟨w, hw, _⟩ := not_total QC.N wa (hwt.2 ▸ peQ_typed QC curTy v x ρ hty a hwt.1 hmt wa hra)
      rw [hw] at h; simp at h

/-- on a value of a number type a well-typed pure expression is total -/
theorem peQ_total (QC : QCtx D) (t : Ty) (v : Val D) (x : String) (ρ : LEnv D) (hv : HasTy v t)
    (pe : PE) (hwt : wtPE (some t) pe = true) : ∃ w, denote QC ((x, v) :: ρ) (peQ x pe) = .ok w := by
  cases h : denote QC ((x, v) :: ρ) (peQ x pe) with
  | ok w => exact ⟨w, rfl⟩
  | error f =>
    have := (peQ_fault QC (some t) v x ρ (fun t' ht => by cases ht; exact hv) pe hwt (methTyped_of_hasTy hv _) f h).2
    simp at this

/-! ## one element through the steps: the query side -/

/-- an element can only fault, going through the steps of a well-typed chain, with a member fault of
itself — and only before the first `Select` (after it the current value is a number) -/
theorem elemSem_fault (QC : QCtx D) : ∀ (steps : List Step) (curTy : Option Ty) (v : Val D) (f : Fault),
    (∀ t, curTy = some t → HasTy v t) → wtSteps curTy steps = true → MethTyped v (methsSteps steps) →
    elemSem QC steps v = .error f → MethFault v (methsSteps steps) f ∧ curTy = none
  | [], _, _, f, _, _, _, h => by simp [elemSem] at h
  | .sel g :: rest, curTy, v, f, hty, hwt, hm, h => by
    simp only [wtSteps, Bool.and_eq_true] at hwt
    simp only [elemSem] at h
    have hmg : MethTyped v (methsPE g) := fun p hp => hm p (by simp [methsSteps, hp])
    cases hd : peSem QC v g with
    | error e =>
      rw [hd] at h; simp only [Except.error.injEq] at h; subst h
      have ih := peQ_fault QC curTy v "x" [] hty g hwt.1 hmg e hd
      exact ⟨ih.1.mono (fun p hp => by simp [methsSteps, hp]), ih.2⟩
    | ok w =>
      rw [hd] at h; simp only [] at h
      have hw := peQ_typed QC curTy v "x" [] hty g hwt.1 hmg w hd
      have := (elemSem_fault QC rest (some (tyPE (curT curTy) g)) w f
        (fun t ht => by simp only [Option.some.injEq] at ht; subst ht; exact hw) hwt.2 (methTyped_of_hasTy hw _) h).2
      simp at this
  | .whr c :: rest, curTy, v, f, hty, hwt, hm, h => by
    simp only [wtSteps, Bool.and_eq_true, beq_iff_eq] at hwt
    simp only [elemSem] at h
    have hmc : MethTyped v (methsPE c) := fun p hp => hm p (by simp [methsSteps, hp])
    cases hd : peSem QC v c with
    | error e =>
      rw [hd] at h; simp only [Except.error.injEq] at h; subst h
      have ih := peQ_fault QC curTy v "x" [] hty c hwt.1.1 hmc e hd
      exact ⟨ih.1.mono (fun p hp => by simp [methsSteps, hp]), ih.2⟩
    | ok r =>
      rw [hd] at h; simp only [] at h
      have hr := peQ_typed QC curTy v "x" [] hty c hwt.1.1 hmc r hd
      obtain ⟨b, hb⟩ := hasTy_asBool QC.N hr
      rw [hb] at h
      cases b with
      | false => simp at h
      | true =>
        simp only [] at h
        have ih := elemSem_fault QC rest curTy v f hty hwt.2 (fun p hp => hm p (by simp [methsSteps, hp])) h
        exact ⟨ih.1.mono (fun p hp => by simp [methsSteps, hp]), ih.2⟩

/-! ## strictness: where the emitted code evaluates the body of a `Select` -/

/-- the expression mentions the current value -/
def usesIt : PE → Bool
  | .it => true
  | .meth _ _ => true
  | .bin _ a b => usesIt a || usesIt b
  | .cmp _ a b => usesIt a || usesIt b
  | .neg a => usesIt a
  | .not a => usesIt a
  | _ => false

/-- after a `Select` whose body may fault: the emitted code is certain to evaluate the (inlined)
body — the next `Where` condition mentions the value, or every later `Select` passes it on and the
consumer evaluates it (`cons`) -/
def forcedSteps (cons : Bool) : List Step → Bool
  | [] => cons
  | .sel g :: rest => usesIt g && forcedSteps cons rest
  | .whr c :: _ => usesIt c

/-- the chain's first `Select` (the only one applied to objects, hence the only one whose body can
fault) is `forcedSteps`. `cons`: the consumer of the chain's value evaluates it for every kept element
(`Sum`, a vector column, the columns of element-level rows: yes; `Count`, `First`: no). -/
def strictSteps (cons : Bool) : List Step → Bool
  | [] => true
  | .whr _ :: rest => strictSteps cons rest
  | .sel _ :: rest => forcedSteps cons rest

def litCur : Ty → CExpr
  | .int => .int 0
  | .bool => .bool false
  | _ => .dbl "0" 0 0

def litVal (N : Num D) : Ty → Val D
  | .int => .int 0
  | .bool => .bool false
  | _ => .dbl (N.ofDec 0 0)

theorem litCur_eval (N : Num D) (σ : Env D) (t : Ty) : evalE N σ (litCur t) = .ok (litVal N t) := by
  cases t <;> simp [litCur, litVal, evalE]

theorem litVal_ty (N : Num D) (t : Ty) : HasTy (litVal N t) t := by
  cases t <;> simp [litVal, HasTy]

/-- an expression that does not mention the current value compiles to the same code whatever the
current-value expression is -/
theorem compPE_closed (ptr : Bool) (cur cur' : CExpr) (t : Ty) :
    ∀ pe : PE, usesIt pe = false → compPE ptr cur t pe = compPE ptr cur' t pe
  | .int _, _ => rfl
  | .dbl _ _, _ => rfl
  | .bool _, _ => rfl
  | .it, h => by simp [usesIt] at h
  | .meth _ _, h => by simp [usesIt] at h
  | .bin op a b, h => by
    simp only [usesIt, Bool.or_eq_false_iff] at h
    simp only [compPE, compPE_closed ptr cur cur' t a h.1, compPE_closed ptr cur cur' t b h.2]
  | .cmp op a b, h => by
    simp only [usesIt, Bool.or_eq_false_iff] at h
    simp only [compPE, compPE_closed ptr cur cur' t a h.1, compPE_closed ptr cur cur' t b h.2]
  | .neg a, h => by
    simp only [usesIt] at h
    simp only [compPE, compPE_closed ptr cur cur' t a h]
  | .not a, h => by
    simp only [usesIt] at h
    simp only [compPE, compPE_closed ptr cur cur' t a h]

/-- … and evaluates, to a value of its static type, in every state -/
theorem compPE_closed_ok (QC : QCtx D) (σ : Env D) (ptr : Bool) (cur : CExpr) (t : Ty) (pe : PE)
    (hwt : wtPE (some t) pe = true) (hc : usesIt pe = false) :
    ∃ w, evalE QC.N σ (compPE ptr cur t pe) = .ok w ∧ HasTy w (tyPE t pe) := by
  rw [compPE_closed ptr cur (litCur t) t pe hc]
  have hpe := pe_correct QC σ (litCur t) (some t) ptr (litVal QC.N t) "x" [] (litCur_eval QC.N σ t)
    (fun t' ht => by simp only [Option.some.injEq] at ht; subst ht; exact litVal_ty QC.N t) pe hwt
    (methTyped_of_hasTy (litVal_ty QC.N t) _)
  obtain ⟨w, hw⟩ := peQ_total QC t (litVal QC.N t) "x" [] (litVal_ty QC.N t) pe hwt
  have h1 : evalE QC.N σ (compPE ptr (litCur t) t pe) = denote QC [("x", litVal QC.N t)] (peQ "x" pe) := hpe.1
  exact ⟨w, by rw [h1]; exact hw, hpe.2 w hw⟩

theorem compPE_bin_binV (ptr : Bool) (cur : CExpr) (t : Ty) (op : AOp) (a b : PE) :
    compPE ptr cur t (.bin op a b) = binV op (tyPE t a) (tyPE t b) (compPE ptr cur t a) (compPE ptr cur t b) := by
  simp only [compPE, binV]

/-- if the current-value expression faults, so does — with the same fault — every (well-typed)
expression over it that mentions it: what is evaluated before the first mention is closed -/
theorem compPE_cur_error (QC : QCtx D) (σ : Env D) (ptr : Bool) (cur : CExpr) (t : Ty) (e : Fault)
    (hcur : evalE QC.N σ cur = .error e) :
    ∀ pe : PE, wtPE (some t) pe = true → usesIt pe = true → evalE QC.N σ (compPE ptr cur t pe) = .error e
  | .int _, _, h => by simp [usesIt] at h
  | .dbl _ _, _, h => by simp [usesIt] at h
  | .bool _, _, h => by simp [usesIt] at h
  | .it, _, _ => by simpa [compPE] using hcur
  | .meth _ _, hwt, _ => by simp [wtPE] at hwt
  | .bin op a b, hwt, h => by
    simp only [wtPE, Bool.and_eq_true] at hwt
    obtain ⟨⟨⟨hwa, hwb⟩, hna⟩, hnb⟩ := hwt
    rw [compPE_bin_binV]
    by_cases hua : usesIt a = true
    · exact binV_err_a _ _ _ _ _ _ _ _ (compPE_cur_error QC σ ptr cur t e hcur a hwa hua)
    · have hua' : usesIt a = false := by simpa using hua
      have hub : usesIt b = true := by simpa [usesIt, hua'] using h
      obtain ⟨wa, hwa1, hwa2⟩ := compPE_closed_ok QC σ ptr cur t a hwa hua'
      exact binV_err_b _ _ _ _ _ _ _ wa _ hwa2 hna hwa1 (compPE_cur_error QC σ ptr cur t e hcur b hwb hub)
  | .cmp op a b, hwt, h => by
    simp only [wtPE, Bool.and_eq_true] at hwt
    obtain ⟨⟨⟨hwa, hwb⟩, hna⟩, hnb⟩ := hwt
    simp only [compPE]
    rw [evalE_bin_arith _ _ _ (cop_not_logic op).1 (cop_not_logic op).2]
    by_cases hua : usesIt a = true
    · rw [compPE_cur_error QC σ ptr cur t e hcur a hwa hua]
    · have hua' : usesIt a = false := by simpa using hua
      have hub : usesIt b = true := by simpa [usesIt, hua'] using h
      obtain ⟨wa, hwa1, _⟩ := compPE_closed_ok QC σ ptr cur t a hwa hua'
      rw [hwa1, compPE_cur_error QC σ ptr cur t e hcur b hwb hub]
  | .neg a, hwt, h => by
    simp only [wtPE, Bool.and_eq_true] at hwt
    simp only [usesIt] at h
    simp only [compPE, evalE, compPE_cur_error QC σ ptr cur t e hcur a hwt.1 h]
  | .not a, hwt, h => by
    simp only [wtPE, Bool.and_eq_true] at hwt
    simp only [usesIt] at h
    simp only [compPE, evalE, compPE_cur_error QC σ ptr cur t e hcur a hwt.1 h]


/-! ## one element through the steps: the emitted conditions and value expression -/

/-- after a `Select` whose (inlined) body faults with `e`: if what follows is `forcedSteps`, the
emitted conditions — or, all of them being true, the final value expression — fault with `e` -/
theorem forced_fault (QC : QCtx D) (σ : Env D) (ptr : Bool) (cons : Bool) (e : Fault) :
    ∀ (steps : List Step) (cur : CExpr) (t : Ty), evalE QC.N σ cur = .error e →
      wtSteps (some t) steps = true → forcedSteps cons steps = true →
      condsF QC.N σ (stepConds ptr cur (some t) steps).1 = .error e ∨
      (cons = true ∧ condsF QC.N σ (stepConds ptr cur (some t) steps).1 = .ok true ∧
        evalE QC.N σ (stepConds ptr cur (some t) steps).2.1 = .error e ∧
        (stepConds ptr cur (some t) steps).2.2 ≠ none)
  | [], cur, t, hcur, _, hf =>
    Or.inr ⟨by simpa [forcedSteps] using hf, by simp [stepConds, condsF], by simpa [stepConds] using hcur,
      by simp [stepConds]⟩
  | .sel g :: rest, cur, t, hcur, hwt, hf => by
    simp only [wtSteps, Bool.and_eq_true] at hwt
    simp only [forcedSteps, Bool.and_eq_true] at hf
    simp only [stepConds]
    exact forced_fault QC σ ptr cons e rest _ (tyPE t g)
      (compPE_cur_error QC σ _ cur t e hcur g hwt.1 hf.1) hwt.2 hf.2
  | .whr c :: rest, cur, t, hcur, hwt, hf => by
    simp only [wtSteps, Bool.and_eq_true] at hwt
    simp only [forcedSteps] at hf
    left
    have hc := compPE_cur_error QC σ (ptr && (some t).isNone) cur t e hcur c hwt.1.1 hf
    simp only [stepConds, condsF, evalB, Option.getD_some, hc]

/-- **one element, fault direction** — if the query faults on element `v` going through the steps
of a `strictSteps` chain, then the emitted conditions fault with the SAME fault (lazily, in order:
after the conditions before it were true), or — all conditions true, the consumer evaluating the
value — the final value expression does. -/
theorem elem_fault (QC : QCtx D) (σ : Env D) (ptr : Bool) (cons : Bool) :
    ∀ (steps : List Step) (cur : CExpr) (curTy : Option Ty) (v : Val D) (f : Fault),
      evalE QC.N σ cur = .ok v → (∀ t, curTy = some t → HasTy v t) →
      wtSteps curTy steps = true → MethTyped v (methsSteps steps) → strictSteps cons steps = true →
      elemSem QC steps v = .error f →
      condsF QC.N σ (stepConds ptr cur curTy steps).1 = .error f ∨
      (cons = true ∧ condsF QC.N σ (stepConds ptr cur curTy steps).1 = .ok true ∧
        evalE QC.N σ (stepConds ptr cur curTy steps).2.1 = .error f ∧
        (stepConds ptr cur curTy steps).2.2 ≠ none)
  | [], _, _, _, f, _, _, _, _, _, h => by simp [elemSem] at h
  | .sel g :: rest, cur, curTy, v, f, hcur, hty, hwt, hm, hst, h => by
    simp only [wtSteps, Bool.and_eq_true] at hwt
    simp only [elemSem] at h
    have hmg : MethTyped v (methsPE g) := fun p hp => hm p (by simp [methsSteps, hp])
    have hpe := pe_correct QC σ cur curTy (ptr && curTy.isNone) v "x" [] hcur hty g hwt.1 hmg
    cases hd : peSem QC v g with
    | error e =>
      rw [hd] at h; simp only [Except.error.injEq] at h; subst h
      have hcur' : evalE QC.N σ (compPE (ptr && curTy.isNone) cur (curT curTy) g) = .error e := by rw [hpe.1]; exact hd
      simp only [stepConds]
      exact forced_fault QC σ ptr cons e rest _ (tyPE (curT curTy) g) hcur' hwt.2 (by simpa [strictSteps] using hst)
    | ok w =>
      rw [hd] at h; simp only [] at h
      have hw := hpe.2 w hd
      have := (elemSem_fault QC rest (some (tyPE (curT curTy) g)) w f
        (fun t ht => by simp only [Option.some.injEq] at ht; subst ht; exact hw) hwt.2 (methTyped_of_hasTy hw _) h).2
      simp at this
  | .whr c :: rest, cur, curTy, v, f, hcur, hty, hwt, hm, hst, h => by
    simp only [wtSteps, Bool.and_eq_true, beq_iff_eq] at hwt
    simp only [elemSem] at h
    have hmc : MethTyped v (methsPE c) := fun p hp => hm p (by simp [methsSteps, hp])
    have hpe := pe_correct QC σ cur curTy (ptr && curTy.isNone) v "x" [] hcur hty c hwt.1.1 hmc
    cases hd : peSem QC v c with
    | error e =>
      rw [hd] at h; simp only [Except.error.injEq] at h; subst h
      have hc : evalE QC.N σ (compPE (ptr && curTy.isNone) cur (curT curTy) c) = .error e := by rw [hpe.1]; exact hd
      left
      simp only [stepConds, condsF, evalB]
      rw [show curTy.getD .double = curT curTy from rfl, hc]
    | ok r =>
      rw [hd] at h; simp only [] at h
      have hev : evalE QC.N σ (compPE (ptr && curTy.isNone) cur (curT curTy) c) = .ok r := by rw [hpe.1]; exact hd
      obtain ⟨b, hb⟩ := hasTy_asBool QC.N (hpe.2 r hd)
      rw [hb] at h
      have hB : evalB QC.N σ (compPE (ptr && curTy.isNone) cur (curT curTy) c) = .ok b := evalB_of _ _ _ _ _ hev hb
      cases b with
      | false => simp at h
      | true =>
        simp only [] at h
        have := elem_fault QC σ ptr cons rest cur curTy v f hcur hty hwt.2
          (fun p hp => hm p (by simp [methsSteps, hp])) (by simpa [strictSteps] using hst) h
        simp only [stepConds, condsF]
        rw [show curTy.getD .double = curT curTy from rfl, hB]
        simpa using this

/-! ## the lowered conjunction -/

theorem exec_ite_evalB_error (C : Ctx D) (s : St D) (c : CExpr) (t e : List Stmt) (f : Fault)
    (h : evalB C.N s.env c = .error f) : exec C (.ite c t e) s = .error f := by
  unfold evalB at h
  simp only [exec]
  cases hc : evalE C.N s.env c with
  | error f' => rw [hc] at h; simpa using h
  | ok v =>
    rw [hc] at h; simp only [] at h ⊢
    cases hb : asBool C.N v with
    | none => rw [hb] at h; simp only [Except.error.injEq] at h; subst h; rfl
    | some b => rw [hb] at h; simp at h

/-- **and-lowering, fault direction** — if the lazy conjunction of the conditions faults (a
condition faults after all earlier ones were true), the lowered statements raise that fault, or
they complete and the result expression raises it when tested. -/
theorem andLower_fault (C : Ctx D) (nm : Nat → String) (hinj : ∀ i j, nm i = nm j → i = j) :
    ∀ (rc : List CExpr) (n : Nat) (σ : Env D) (rows : List (List (Val D))) (f : Fault),
      (∀ c ∈ rc, ∀ x ∈ vars c, ∀ j, n ≤ j → x ≠ nm j) →
      condsR C.N σ rc = .error f →
      execs C ((andLower nm rc n).decls ++ (andLower nm rc n).stmts) ⟨σ, rows⟩ = .error f ∨
      ∃ σ', execs C ((andLower nm rc n).decls ++ (andLower nm rc n).stmts) ⟨σ, rows⟩ = .ok ⟨σ', rows⟩ ∧
        evalB C.N σ' (andLower nm rc n).val = .error f ∧
        (∀ y, ¬ InRange nm n (andLower nm rc n).next y → σ' y = σ y)
  | [], n, σ, rows, f, _, h => by simp [condsR] at h
  | [c], n, σ, rows, f, _, h => by
    simp only [condsR] at h
    exact Or.inr ⟨σ, by simp [andLower, execs], by simpa [andLower] using h, fun _ _ => rfl⟩
  | c :: c2 :: rest, n, σ, rows, f, hfresh, h => by
    rw [condsR_cons] at h
    have hfresh' : ∀ c' ∈ c2 :: rest, ∀ x ∈ vars c', ∀ j, n + 1 ≤ j → x ≠ nm j :=
      fun c' hc' x hx j hj => hfresh c' (by simp at hc' ⊢; exact Or.inr hc') x hx j (by omega)
    have hge := andLower_next_ge nm (c2 :: rest) (n + 1)
    have hcongr : condsR C.N (σ.declare (nm n)) (c2 :: rest) = condsR C.N σ (c2 :: rest) := by
      apply condsR_congr
      intro c' hc' x hx
      have : x ≠ nm n := hfresh c' (by simp at hc' ⊢; exact Or.inr hc') x hx n (Nat.le_refl n)
      simp [Env.declare, this]
    let b := nm n
    have hshape : (andLower nm (c :: c2 :: rest) n).decls ++ (andLower nm (c :: c2 :: rest) n).stmts =
        .decl "bool" b none :: (((andLower nm (c2 :: rest) (n + 1)).decls ++ (andLower nm (c2 :: rest) (n + 1)).stmts) ++
          [.set b (andLower nm (c2 :: rest) (n + 1)).val, .ite (.var b) [.set b c] []]) := by
      simp [andLower, b, List.append_assoc]
    have hvt : isVecType "bool" = false := by decide
    cases hr1 : condsR C.N σ (c2 :: rest) with
    | error f1 =>
      rw [hr1] at h; simp only [Except.error.injEq] at h; subst h
      rcases andLower_fault C nm hinj (c2 :: rest) (n + 1) (σ.declare (nm n)) rows f1 hfresh' (by rw [hcongr]; exact hr1)
        with hex1 | ⟨σ1, hex1, hval1, hfr1⟩
      · left
        rw [hshape]
        simp only [execs, exec, hvt, Bool.false_eq_true, if_false]
        rw [execs_append, hex1]
      · left
        have hbdecl : σ1 b = some .uninit := by
          rw [hfr1 (nm n) (by rintro ⟨j, hj1, _, hj3⟩; have := hinj _ _ hj3; omega)]
          simp [Env.declare]
        rw [hshape]
        simp only [execs, exec, hvt, Bool.false_eq_true, if_false]
        rw [execs_append, hex1]
        unfold evalB at hval1
        cases hv1 : evalE C.N σ1 (andLower nm (c2 :: rest) (n + 1)).val with
        | error f' =>
          rw [hv1] at hval1; simp only [Except.error.injEq] at hval1; subst hval1
          simp only [execs, exec, hbdecl, hv1]
        | ok v1 =>
          rw [hv1] at hval1; simp only [] at hval1
          cases hb1 : asBool C.N v1 with
          | some b1 => rw [hb1] at hval1; simp at hval1
          | none =>
            rw [hb1] at hval1; simp only [Except.error.injEq] at hval1; subst hval1
            simp [execs, exec, hbdecl, hv1, evalE, Env.set, hb1]
    | ok r1 =>
      cases r1 with
      | false => rw [hr1] at h; simp at h
      | true =>
        rw [hr1] at h; simp only [] at h
        obtain ⟨σ1, hex1, hval1, hfr1⟩ :=
          andLower_correct C nm hinj (c2 :: rest) (n + 1) (σ.declare (nm n)) rows true hfresh' (by rw [hcongr]; exact hr1)
        obtain ⟨v1, hv1, hb1⟩ := evalB_ok C.N σ1 _ true hval1
        have hbdecl : σ1 b = some .uninit := by
          rw [hfr1 (nm n) (by rintro ⟨j, hj1, _, hj3⟩; have := hinj _ _ hj3; omega)]
          simp [Env.declare]
        let σ2 : Env D := σ1.set b v1
        have hσ2 : ∀ y, ¬ InRange nm n (andLower nm (c2 :: rest) (n + 1)).next y → σ2 y = σ y := by
          intro y hy
          have hyb : y ≠ b := fun e => hy ⟨n, Nat.le_refl n, by omega, e⟩
          simp only [σ2, Env.set, hyb, if_false]
          rw [hfr1 y (fun ⟨j, hj1, hj2, hj3⟩ => hy ⟨j, by omega, hj2, hj3⟩)]
          have hyb' : y ≠ nm n := hyb
          simp [Env.declare, hyb']
        have hc_same : evalB C.N σ2 c = evalB C.N σ c := by
          apply evalB_congr
          intro x hx
          apply hσ2
          rintro ⟨j, hj1, _, hj3⟩
          exact hfresh c (by simp) x hx j hj1 hj3
        have hpre : execs C ((andLower nm (c :: c2 :: rest) n).decls ++ (andLower nm (c :: c2 :: rest) n).stmts) ⟨σ, rows⟩ =
            execs C [.ite (.var b) [.set b c] []] ⟨σ2, rows⟩ := by
          rw [hshape]
          simp only [execs, exec, hvt, Bool.false_eq_true, if_false]
          rw [execs_append, hex1]
          simp only [execs, exec, hbdecl, hv1]
          rfl
        have hvarb : evalE C.N σ2 (.var b) = .ok v1 := by simp [evalE, σ2, Env.set]
        have hσ2b : σ2 b = some (.val v1) := by simp [σ2, Env.set]
        rw [← hc_same] at h
        unfold evalB at h
        cases hvc : evalE C.N σ2 c with
        | error f' =>
          rw [hvc] at h; simp only [Except.error.injEq] at h; subst h
          left
          rw [hpre]
          simp only [execs, exec, hvarb, hb1, hσ2b, hvc]
        | ok vc =>
          rw [hvc] at h; simp only [] at h
          cases hbc : asBool C.N vc with
          | some bc => rw [hbc] at h; simp at h
          | none =>
            rw [hbc] at h; simp only [Except.error.injEq] at h; subst h
            right
            refine ⟨σ2.set b vc, ?_, ?_, ?_⟩
            · rw [hpre]
              simp only [execs, exec, hvarb, hb1, hσ2b, hvc]
            · have hv : evalE C.N (σ2.set b vc) (.var b) = .ok vc := by simp [evalE, Env.set]
              have hval' : (andLower nm (c :: c2 :: rest) n).val = .var b := by simp [andLower, b]
              rw [hval']
              simp only [evalB, hv, hbc]
            · intro y hy
              have hy' : ¬ InRange nm n (andLower nm (c2 :: rest) (n + 1)).next y := by simpa [andLower] using hy
              have hyb : y ≠ b := fun e => hy' ⟨n, Nat.le_refl n, by omega, e⟩
              simp only [Env.set, hyb, if_false]
              have := hσ2 y hy'
              simpa [σ2, Env.set, hyb] using this

/-! ## the loop body for one element -/

/-- **loop body, fault direction** — on an element on which the query faults (with `f`), the body
emitted for a `strictSteps` chain raises `f`: in the lowered conditions, or (`cons`) in the
continuation, whose only assumption is that it raises the fault of its argument expression. -/
theorem chainBody_fault (C : Ctx D) (QC : QCtx D) (hN : QC.N = C.N) (nm : Nat → String)
    (hinj : ∀ i j, nm i = nm j → i = j) (ptr : Bool) (i : String) (steps : List Step) (n : Nat)
    (hi : ∀ j, n ≤ j → i ≠ nm j) (K : CExpr → Option Ty → List Stmt) (cons : Bool)
    (s : St D) (v : Val D) (f : Fault)
    (hiv : s.env i = some (.val v)) (hwt : wtSteps none steps = true)
    (hm : MethTyped v (methsSteps steps)) (hst : strictSteps cons steps = true)
    (hs : elemSem QC steps v = .error f)
    (hKf : cons = true → (stepConds ptr (.var i) none steps).2.2 ≠ none → ∀ s1 : St D, s1.rows = s.rows →
        (∀ y, ¬ InRange nm n (chainBody nm ptr (.var i) steps n K).2 y → s1.env y = s.env y) →
        evalE C.N s1.env (stepConds ptr (.var i) none steps).2.1 = .error f →
        execs C (K (stepConds ptr (.var i) none steps).2.1 (stepConds ptr (.var i) none steps).2.2) s1 = .error f) :
    execs C (chainBody nm ptr (.var i) steps n K).1 s = .error f := by
  have hcur : evalE QC.N s.env (.var i) = .ok v := by simp [evalE, hiv]
  have hel := elem_fault QC s.env ptr cons steps (.var i) none v f hcur (by simp) hwt hm hst hs
  have hvars := stepConds_vars ptr steps (.var i) none
  have hsame : ∀ σ' : Env D, σ' i = s.env i →
      evalE C.N σ' (stepConds ptr (.var i) none steps).2.1 = evalE C.N s.env (stepConds ptr (.var i) none steps).2.1 := by
    intro σ' h
    apply evalE_congr
    intro x hx
    have := hvars.2 x hx
    simp only [vars, List.mem_singleton] at this
    rw [this, h]
  cases hc : (stepConds ptr (.var i) none steps).1 with
  | nil =>
    have hbody : chainBody nm ptr (.var i) steps n K =
        (K (stepConds ptr (.var i) none steps).2.1 (stepConds ptr (.var i) none steps).2.2, n) := by
      simp only [chainBody]; rw [hc]
    rcases hel with h1 | ⟨hc1, _, h3, h4⟩
    · rw [hc] at h1; simp [condsF] at h1
    · have := hKf hc1 h4 s rfl (fun _ _ => rfl) (by rw [← hN]; exact h3)
      rw [hbody]; exact this
  | cons c0 cs =>
    have hbody : chainBody nm ptr (.var i) steps n K =
        ((andLower nm (c0 :: cs).reverse n).decls ++ (andLower nm (c0 :: cs).reverse n).stmts ++
          [.ite (andLower nm (c0 :: cs).reverse n).val
            (K (stepConds ptr (.var i) none steps).2.1 (stepConds ptr (.var i) none steps).2.2) []],
          (andLower nm (c0 :: cs).reverse n).next) := by
      simp only [chainBody]; rw [hc]
    have hfresh : ∀ c ∈ (c0 :: cs).reverse, ∀ x ∈ vars c, ∀ j, n ≤ j → x ≠ nm j := by
      intro c hcm x hx j hj
      have hcm' : c ∈ (stepConds ptr (.var i) none steps).1 := by rw [hc]; simpa [or_comm] using hcm
      have := hvars.1 c hcm' x hx
      simp only [vars, List.mem_singleton] at this
      rw [this]; exact hi j hj
    rcases hel with h1 | ⟨hc1, h2, h3, h4⟩
    · rw [hN, condsF_eq_condsR, hc] at h1
      rw [hbody]
      simp only []
      rcases andLower_fault C nm hinj (c0 :: cs).reverse n s.env s.rows f hfresh h1 with hex | ⟨σ', hex, hval, _⟩
      · rw [execs_append]
        rw [show execs C ((andLower nm (c0 :: cs).reverse n).decls ++ (andLower nm (c0 :: cs).reverse n).stmts) s = .error f from hex]
      · rw [execs_append]
        rw [show execs C ((andLower nm (c0 :: cs).reverse n).decls ++ (andLower nm (c0 :: cs).reverse n).stmts) s = .ok ⟨σ', s.rows⟩ from hex]
        simp only [execs]
        rw [exec_ite_evalB_error C ⟨σ', s.rows⟩ _ _ _ f hval]
    · rw [hN, condsF_eq_condsR, hc] at h2
      obtain ⟨σ', hex, hval, hfr⟩ := andLower_correct C nm hinj (c0 :: cs).reverse n s.env s.rows true hfresh h2
      obtain ⟨vb, hvb, hbb⟩ := evalB_ok _ _ _ _ hval
      have hbn : (chainBody nm ptr (.var i) steps n K).2 = (andLower nm (c0 :: cs).reverse n).next := by rw [hbody]
      have hk := hKf hc1 h4 ⟨σ', s.rows⟩ rfl (fun y hy => hfr y (by rw [← hbn]; exact hy))
        (by
          rw [hsame σ' (hfr i (by rintro ⟨j, hj1, _, hj3⟩; exact hi j hj1 hj3)), ← hN]
          exact h3)
      rw [hbody]
      simp only []
      rw [execs_append]
      rw [show execs C ((andLower nm (c0 :: cs).reverse n).decls ++ (andLower nm (c0 :: cs).reverse n).stmts) s = .ok ⟨σ', s.rows⟩ from hex]
      simp only [execs, exec, hvb, hbb, hk]


/-! ## element-at-a-time meaning of "chain, then consumer" -/

/-- what the emitted loop does: each element goes through the steps and — if kept — into the
consumer `g`, before the next element is looked at -/
def elemsFold {β : Type} (QC : QCtx D) (steps : List Step) (g : β → Val D → Except Fault β) :
    List (Val D) → β → Except Fault β
  | [], b => .ok b
  | v :: vs, b => match elemSem QC steps v with
    | .error e => .error e
    | .ok none => elemsFold QC steps g vs b
    | .ok (some w) => match g b w with
      | .error e => .error e
      | .ok b' => elemsFold QC steps g vs b'

/-- if the interleaved evaluation succeeds, so does "all elements through the steps, then fold" -/
theorem elemsFold_ok {β : Type} (QC : QCtx D) (steps : List Step) (g : β → Val D → Except Fault β) :
    ∀ (l : List (Val D)) (b b' : β), elemsFold QC steps g l b = .ok b' →
      ∃ ws, elemsSem QC steps l = .ok ws ∧ foldG g ws b = .ok b'
  | [], b, b', h => by
    simp only [elemsFold, Except.ok.injEq] at h; subst h
    exact ⟨[], rfl, rfl⟩
  | v :: vs, b, b', h => by
    simp only [elemsFold] at h
    cases ho : elemSem QC steps v with
    | error e => rw [ho] at h; simp at h
    | ok o =>
      rw [ho] at h
      cases o with
      | none =>
        simp only [] at h
        obtain ⟨ws, h1, h2⟩ := elemsFold_ok QC steps g vs b b' h
        exact ⟨ws, by simp [elemsSem, ho, h1], h2⟩
      | some w =>
        simp only [] at h
        cases hg : g b w with
        | error e => rw [hg] at h; simp at h
        | ok b1 =>
          rw [hg] at h; simp only [] at h
          obtain ⟨ws, h1, h2⟩ := elemsFold_ok QC steps g vs b1 b' h
          exact ⟨w :: ws, by simp [elemsSem, ho, h1], by simp [foldG, hg, h2]⟩

theorem elemsSem_sel_inv (QC : QCtx D) (g : PE) (rest : List Step) : ∀ (l ws : List (Val D)),
    elemsSem QC (.sel g :: rest) l = .ok ws →
      ∃ l1, mapE (fun v => peSem QC v g) l = .ok l1 ∧ elemsSem QC rest l1 = .ok ws
  | [], ws, h => by
    simp only [elemsSem, Except.ok.injEq] at h; subst h
    exact ⟨[], rfl, rfl⟩
  | v :: vs, ws, h => by
    simp only [elemsSem, elemSem] at h
    cases hv : peSem QC v g with
    | error e => rw [hv] at h; simp at h
    | ok w =>
      rw [hv] at h; simp only [] at h
      cases hw : elemSem QC rest w with
      | error e => rw [hw] at h; simp at h
      | ok o =>
        rw [hw] at h; simp only [] at h
        cases hr : elemsSem QC (.sel g :: rest) vs with
        | error e => rw [hr] at h; simp at h
        | ok rs =>
          rw [hr] at h; simp only [Except.ok.injEq] at h; subst h
          obtain ⟨l1, hm, he⟩ := elemsSem_sel_inv QC g rest vs rs hr
          exact ⟨w :: l1, by simp [mapE, hv, hm], by simp [elemsSem, hw, he]⟩

theorem elemsSem_whr_inv (QC : QCtx D) (c : PE) (rest : List Step) : ∀ (l ws : List (Val D)),
    elemsSem QC (.whr c :: rest) l = .ok ws →
      ∃ l1, filterE QC.N (fun v => peSem QC v c) l = .ok l1 ∧ elemsSem QC rest l1 = .ok ws
  | [], ws, h => by
    simp only [elemsSem, Except.ok.injEq] at h; subst h
    exact ⟨[], rfl, rfl⟩
  | v :: vs, ws, h => by
    simp only [elemsSem, elemSem] at h
    cases hv : peSem QC v c with
    | error e => rw [hv] at h; simp at h
    | ok r =>
      rw [hv] at h; simp only [] at h
      cases hb : asBool QC.N r with
      | none => rw [hb] at h; simp at h
      | some b =>
        rw [hb] at h
        cases b with
        | false =>
          simp only [] at h
          cases hr : elemsSem QC (.whr c :: rest) vs with
          | error e => rw [hr] at h; simp at h
          | ok rs =>
            rw [hr] at h; simp only [Except.ok.injEq, Option.toList, List.nil_append] at h; subst h
            obtain ⟨l1, hm, he⟩ := elemsSem_whr_inv QC c rest vs rs hr
            exact ⟨l1, by simp [filterE, hv, hb, hm], he⟩
        | true =>
          simp only [] at h
          cases hw : elemSem QC rest v with
          | error e => rw [hw] at h; simp at h
          | ok o =>
            rw [hw] at h; simp only [] at h
            cases hr : elemsSem QC (.whr c :: rest) vs with
            | error e => rw [hr] at h; simp at h
            | ok rs =>
              rw [hr] at h; simp only [Except.ok.injEq] at h; subst h
              obtain ⟨l1, hm, he⟩ := elemsSem_whr_inv QC c rest vs rs hr
              exact ⟨v :: l1, by simp [filterE, hv, hb, hm], by simp [elemsSem, hw, he]⟩

/-- element-at-a-time success implies the query's own list-at-a-time success, with the same value
(the converse of `chainList_elems`) -/
theorem elemsSem_chainList (QC : QCtx D) : ∀ (steps : List Step) (l ws : List (Val D)),
    elemsSem QC steps l = .ok ws → chainList QC steps l = .ok ws
  | [], l, ws, h => by
    rw [elemsSem_nil_steps] at h
    simpa [chainList] using h
  | .sel g :: rest, l, ws, h => by
    obtain ⟨l1, hm, he⟩ := elemsSem_sel_inv QC g rest l ws h
    simp only [chainList, hm]
    exact elemsSem_chainList QC rest l1 ws he
  | .whr c :: rest, l, ws, h => by
    obtain ⟨l1, hm, he⟩ := elemsSem_whr_inv QC c rest l ws h
    simp only [chainList, hm]
    exact elemsSem_chainList QC rest l1 ws he

/-- if the query's meaning of "chain, then consumer" is undefined, the interleaved one faults -/
theorem elemsFold_error_of {β : Type} (QC : QCtx D) (steps : List Step) (g : β → Val D → Except Fault β)
    (l : List (Val D)) (b : β)
    (h : ∀ ws b', chainList QC steps l = .ok ws → foldG g ws b = .ok b' → False) :
    ∃ e, elemsFold QC steps g l b = .error e := by
  cases he : elemsFold QC steps g l b with
  | error e => exact ⟨e, rfl⟩
  | ok b' =>
    obtain ⟨ws, h1, h2⟩ := elemsFold_ok QC steps g l b b' he
    exact (h ws b' (elemsSem_chainList QC steps l ws h1) h2).elim

/-! ## the class of the fault: a member fault of some element of the bank -/

/-- `f` is the fault of a call of one of the methods `ms` on some element of `l` -/
def ListFault (l : List (Val D)) (ms : List (String × Ty)) (f : Fault) : Prop := ∃ v ∈ l, MethFault v ms f

theorem ListFault.cons {l : List (Val D)} {ms : List (String × Ty)} {f : Fault} (v : Val D) (h : ListFault l ms f) :
    ListFault (v :: l) ms f := by
  obtain ⟨u, hu, hf⟩ := h; exact ⟨u, by simp [hu], hf⟩

theorem ListFault.mono {l : List (Val D)} {ms ms' : List (String × Ty)} {f : Fault} (h : ListFault l ms f)
    (hsub : ∀ p ∈ ms, p ∈ ms') : ListFault l ms' f := by
  obtain ⟨u, hu, hf⟩ := h; exact ⟨u, hu, hf.mono hsub⟩

theorem elemsFold_listFault {β : Type} (QC : QCtx D) (steps : List Step) (g : β → Val D → Except Fault β)
    (hwt : wtSteps none steps = true) (ms : List (String × Ty)) (hms : ∀ p ∈ methsSteps steps, p ∈ ms) :
    ∀ (l : List (Val D)) (b : β) (e : Fault), (∀ v ∈ l, MethTyped v (methsSteps steps)) →
      (∀ v ∈ l, ∀ w b0 e, elemSem QC steps v = .ok (some w) → g b0 w = .error e → MethFault v ms e) →
      elemsFold QC steps g l b = .error e → ListFault l ms e
  | [], b, e, _, _, h => by simp [elemsFold] at h
  | v :: vs, b, e, hmt, hg, h => by
    simp only [elemsFold] at h
    have ih := fun b1 h1 => (elemsFold_listFault QC steps g hwt ms hms vs b1 e (fun u hu => hmt u (by simp [hu]))
      (fun u hu => hg u (by simp [hu])) h1).cons v
    cases ho : elemSem QC steps v with
    | error e' =>
      rw [ho] at h; simp only [Except.error.injEq] at h; subst h
      exact ⟨v, by simp, ((elemSem_fault QC steps none v e' (by simp) hwt (hmt v (by simp)) ho).1).mono hms⟩
    | ok o =>
      rw [ho] at h
      cases o with
      | none => exact ih b h
      | some w =>
        simp only [] at h
        cases hgw : g b w with
        | error e' =>
          rw [hgw] at h; simp only [Except.error.injEq] at h; subst h
          exact ⟨v, by simp, hg v (by simp) w b e' ho hgw⟩
        | ok b1 => rw [hgw] at h; exact ih b1 h

theorem mapE_error (f : Val D → Except Fault (Val D)) : ∀ (l : List (Val D)) (e : Fault),
    mapE f l = .error e → ∃ v ∈ l, f v = .error e
  | [], e, h => by simp [mapE] at h
  | v :: vs, e, h => by
    simp only [mapE] at h
    cases hv : f v with
    | error e' => rw [hv] at h; simp only [Except.error.injEq] at h; subst h; exact ⟨v, by simp, hv⟩
    | ok r =>
      rw [hv] at h; simp only [] at h
      cases hr : mapE f vs with
      | ok rs => rw [hr] at h; simp at h
      | error e' =>
        rw [hr] at h; simp only [Except.error.injEq] at h; subst h
        obtain ⟨u, hu, hf⟩ := mapE_error f vs e' hr
        exact ⟨u, by simp [hu], hf⟩

theorem mapE_ok_mem (f : Val D → Except Fault (Val D)) : ∀ (l r : List (Val D)),
    mapE f l = .ok r → ∀ w ∈ r, ∃ v ∈ l, f v = .ok w
  | [], r, h, w, hw => by simp only [mapE, Except.ok.injEq] at h; subst h; simp at hw
  | v :: vs, r, h, w, hw => by
    simp only [mapE] at h
    cases hv : f v with
    | error e' => rw [hv] at h; simp at h
    | ok r0 =>
      rw [hv] at h; simp only [] at h
      cases hr : mapE f vs with
      | error e' => rw [hr] at h; simp at h
      | ok rs =>
        rw [hr] at h; simp only [Except.ok.injEq] at h; subst h
        rcases List.mem_cons.1 hw with rfl | hw
        · exact ⟨v, by simp, hv⟩
        · obtain ⟨u, hu, hf⟩ := mapE_ok_mem f vs rs hr w hw
          exact ⟨u, by simp [hu], hf⟩

theorem filterE_error (N : Num D) (f : Val D → Except Fault (Val D)) : ∀ (l : List (Val D)) (e : Fault),
    filterE N f l = .error e → ∃ v ∈ l, f v = .error e ∨ ∃ r, f v = .ok r ∧ asBool N r = none
  | [], e, h => by simp [filterE] at h
  | v :: vs, e, h => by
    simp only [filterE] at h
    cases hv : f v with
    | error e' => rw [hv] at h; simp only [Except.error.injEq] at h; subst h; exact ⟨v, by simp, Or.inl hv⟩
    | ok r =>
      rw [hv] at h; simp only [] at h
      cases hb : asBool N r with
      | none => exact ⟨v, by simp, Or.inr ⟨r, hv, hb⟩⟩
      | some b =>
        rw [hb] at h; simp only [] at h
        cases hr : filterE N f vs with
        | ok rs => rw [hr] at h; simp at h
        | error e' =>
          rw [hr] at h; simp only [Except.error.injEq] at h; subst h
          obtain ⟨u, hu, hf⟩ := filterE_error N f vs e' hr
          exact ⟨u, by simp [hu], hf⟩

theorem filterE_ok_sub (N : Num D) (f : Val D → Except Fault (Val D)) : ∀ (l r : List (Val D)),
    filterE N f l = .ok r → ∀ w ∈ r, w ∈ l
  | [], r, h, w, hw => by simp only [filterE, Except.ok.injEq] at h; subst h; simp at hw
  | v :: vs, r, h, w, hw => by
    simp only [filterE] at h
    cases hv : f v with
    | error e' => rw [hv] at h; simp at h
    | ok r0 =>
      rw [hv] at h; simp only [] at h
      cases hb : asBool N r0 with
      | none => rw [hb] at h; simp at h
      | some b =>
        rw [hb] at h; simp only [] at h
        cases hr : filterE N f vs with
        | error e' => rw [hr] at h; simp at h
        | ok rs =>
          rw [hr] at h; simp only [Except.ok.injEq] at h; subst h
          have ih := filterE_ok_sub N f vs rs hr
          cases b with
          | false => simp only [Bool.false_eq_true, if_false] at hw; exact List.mem_cons_of_mem _ (ih w hw)
          | true =>
            simp only [if_true] at hw
            rcases List.mem_cons.1 hw with rfl | hw
            · simp
            · exact List.mem_cons_of_mem _ (ih w hw)

/-- the query's own (list-at-a-time) evaluation of a well-typed chain can only fault with a member
fault of an element of the collection -/
theorem chainList_fault (QC : QCtx D) : ∀ (steps : List Step) (curTy : Option Ty) (l : List (Val D)) (f : Fault),
    (∀ v ∈ l, ∀ t, curTy = some t → HasTy v t) → wtSteps curTy steps = true →
    (∀ v ∈ l, MethTyped v (methsSteps steps)) →
    chainList QC steps l = .error f → ListFault l (methsSteps steps) f ∧ curTy = none
  | [], _, _, f, _, _, _, h => by simp [chainList] at h
  | .sel g :: rest, curTy, l, f, hty, hwt, hm, h => by
    simp only [wtSteps, Bool.and_eq_true] at hwt
    simp only [chainList] at h
    have hmg : ∀ v ∈ l, MethTyped v (methsPE g) := fun v hv p hp => hm v hv p (by simp [methsSteps, hp])
    cases hd : mapE (fun v => peSem QC v g) l with
    | error e =>
      rw [hd] at h; simp only [Except.error.injEq] at h; subst h
      obtain ⟨v, hv, hf⟩ := mapE_error _ l e hd
      have := peQ_fault QC curTy v "x" [] (hty v hv) g hwt.1 (hmg v hv) e hf
      exact ⟨⟨v, hv, this.1.mono (fun p hp => by simp [methsSteps, hp])⟩, this.2⟩
    | ok l1 =>
      rw [hd] at h; simp only [] at h
      have hl1 : ∀ w ∈ l1, HasTy w (tyPE (curT curTy) g) := by
        intro w hw
        obtain ⟨v, hv, hf⟩ := mapE_ok_mem _ l l1 hd w hw
        exact peQ_typed QC curTy v "x" [] (hty v hv) g hwt.1 (hmg v hv) w hf
      have := (chainList_fault QC rest (some (tyPE (curT curTy) g)) l1 f
        (fun w hw t ht => by simp only [Option.some.injEq] at ht; subst ht; exact hl1 w hw) hwt.2
        (fun w hw => methTyped_of_hasTy (hl1 w hw) _) h).2
      simp at this
  | .whr c :: rest, curTy, l, f, hty, hwt, hm, h => by
    simp only [wtSteps, Bool.and_eq_true, beq_iff_eq] at hwt
    simp only [chainList] at h
    have hmc : ∀ v ∈ l, MethTyped v (methsPE c) := fun v hv p hp => hm v hv p (by simp [methsSteps, hp])
    cases hd : filterE QC.N (fun v => peSem QC v c) l with
    | error e =>
      rw [hd] at h; simp only [Except.error.injEq] at h; subst h
      obtain ⟨v, hv, hf | ⟨r, hr, hb⟩⟩ := filterE_error QC.N _ l e hd
      · have := peQ_fault QC curTy v "x" [] (hty v hv) c hwt.1.1 (hmc v hv) e hf
        exact ⟨⟨v, hv, this.1.mono (fun p hp => by simp [methsSteps, hp])⟩, this.2⟩
      · obtain ⟨b, hb'⟩ := hasTy_asBool QC.N (peQ_typed QC curTy v "x" [] (hty v hv) c hwt.1.1 (hmc v hv) r hr)
        rw [hb] at hb'; simp at hb'
    | ok l1 =>
      rw [hd] at h; simp only [] at h
      have hsub := filterE_ok_sub QC.N _ l l1 hd
      obtain ⟨⟨v, hv, hf⟩, hn⟩ := chainList_fault QC rest curTy l1 f (fun w hw => hty w (hsub w hw)) hwt.2
        (fun w hw p hp => hm w (hsub w hw) p (by simp [methsSteps, hp])) h
      exact ⟨⟨v, hsub v hv, hf.mono (fun p hp => by simp [methsSteps, hp])⟩, hn⟩

/-! ## the loop -/

/-- **the loop, fault direction** — if the interleaved evaluation "each element through the steps,
then into the consumer" faults with `f`, iterating the emitted body raises `f`: the elements before
the faulting one are processed as in `loop_correct`, the faulting one by `chainBody_fault` (fault in
the steps) or by the continuation (fault of the consumer `g`, assumption `hKg`). -/
theorem loop_fault {β : Type} (C : Ctx D) (QC : QCtx D) (hN : QC.N = C.N) (nm : Nat → String)
    (hinj : ∀ i j, nm i = nm j → i = j) (ptr : Bool) (i : String) (steps : List Step) (n : Nat)
    (hi : ∀ j, n ≤ j → i ≠ nm j) (K : CExpr → Option Ty → List Stmt) (cons : Bool)
    (hwt : wtSteps none steps = true) (hst : strictSteps cons steps = true)
    (P : St D → β → Prop) (g : β → Val D → Except Fault β) (Q : Val D → Prop)
    (hstable : ∀ (s s' : St D) b, P s b → s'.rows = s.rows →
        (∀ y, y ≠ i → ¬ InRange nm n (chainBody nm ptr (.var i) steps n K).2 y → s'.env y = s.env y) → P s' b)
    (hK : ∀ (s : St D) b b' w (v : Val D), P s b → g b w = .ok b' →
        evalE C.N s.env (stepConds ptr (.var i) none steps).2.1 = .ok w →
        (∀ t, (stepConds ptr (.var i) none steps).2.2 = some t → HasTy w t) →
        ((stepConds ptr (.var i) none steps).2.2 = none → w = v ∧ Q v) →
        ∃ s', execs C (K (stepConds ptr (.var i) none steps).2.1 (stepConds ptr (.var i) none steps).2.2) s = .ok s' ∧ P s' b')
    (hKg : ∀ (s : St D) b e w (v : Val D), P s b → g b w = .error e →
        evalE C.N s.env (stepConds ptr (.var i) none steps).2.1 = .ok w →
        (∀ t, (stepConds ptr (.var i) none steps).2.2 = some t → HasTy w t) →
        ((stepConds ptr (.var i) none steps).2.2 = none → w = v ∧ Q v) →
        execs C (K (stepConds ptr (.var i) none steps).2.1 (stepConds ptr (.var i) none steps).2.2) s = .error e)
    (hKf : cons = true → (stepConds ptr (.var i) none steps).2.2 ≠ none → ∀ (s : St D) b e, P s b →
        evalE C.N s.env (stepConds ptr (.var i) none steps).2.1 = .error e →
        execs C (K (stepConds ptr (.var i) none steps).2.1 (stepConds ptr (.var i) none steps).2.2) s = .error e) :
    ∀ (l : List (Val D)) (s : St D) (b : β) (f : Fault),
      (∀ v ∈ l, MethTyped v (methsSteps steps)) → (∀ v ∈ l, Q v) →
      elemsFold QC steps g l b = .error f → P s b →
      iter (fun s v => execs C (chainBody nm ptr (.var i) steps n K).1 { s with env := s.env.set i v }) l s = .error f
  | [], s, b, f, _, _, he, _ => by simp [elemsFold] at he
  | v :: vs, s, b, f, hmt, hQ, he, hP => by
    simp only [elemsFold] at he
    let s0 : St D := { s with env := s.env.set i v }
    have hP0 : P s0 b := hstable s s0 b hP rfl (fun y hy _ => by simp [s0, Env.set, hy])
    have hs0 : s0.env i = some (.val v) := by simp [s0, Env.set]
    cases ho : elemSem QC steps v with
    | error e =>
      rw [ho] at he; simp only [Except.error.injEq] at he; subst he
      have := chainBody_fault C QC hN nm hinj ptr i steps n hi K cons s0 v e hs0 hwt (hmt v (by simp)) hst ho
        (fun hc hn s1 hr hfr hev => hKf hc hn s1 b e (hstable s0 s1 b hP0 hr (fun y _ hy => hfr y hy)) hev)
      simp only [iter]
      rw [show ({ s with env := s.env.set i v } : St D) = s0 from rfl, this]
    | ok o =>
      rw [ho] at he
      obtain ⟨s1, hr1, hfr1, hnone, hsome⟩ := chainBody_correct C QC hN nm hinj ptr i steps n hi K s0 v o
        hs0 hwt (hmt v (by simp)) ho
      have hP1 : P s1 b := hstable s0 s1 b hP0 hr1 (fun y _ hy => hfr1 y hy)
      cases o with
      | none =>
        simp only [] at he
        have ih := loop_fault C QC hN nm hinj ptr i steps n hi K cons hwt hst P g Q hstable hK hKg hKf vs s1 b f
          (fun u hu => hmt u (by simp [hu])) (fun u hu => hQ u (by simp [hu])) he hP1
        simp only [iter]
        rw [show ({ s with env := s.env.set i v } : St D) = s0 from rfl, hnone rfl]
        exact ih
      | some w =>
        simp only [] at he
        obtain ⟨hex, hev, hty, hobj⟩ := hsome w rfl
        cases hg : g b w with
        | error e =>
          rw [hg] at he; simp only [Except.error.injEq] at he; subst he
          have := hKg s1 b e w v hP1 hg hev hty (fun h => ⟨hobj h, hQ v (by simp)⟩)
          simp only [iter]
          rw [show ({ s with env := s.env.set i v } : St D) = s0 from rfl, hex, this]
        | ok b1 =>
          rw [hg] at he; simp only [] at he
          obtain ⟨s2, hK2, hP2⟩ := hK s1 b b1 w v hP1 hg hev hty (fun h => ⟨hobj h, hQ v (by simp)⟩)
          have ih := loop_fault C QC hN nm hinj ptr i steps n hi K cons hwt hst P g Q hstable hK hKg hKf vs s2 b1 f
            (fun u hu => hmt u (by simp [hu])) (fun u hu => hQ u (by simp [hu])) he hP2
          simp only [iter]
          rw [show ({ s with env := s.env.set i v } : St D) = s0 from rfl, hex, hK2]
          exact ih

end FaxVerif.Gen
