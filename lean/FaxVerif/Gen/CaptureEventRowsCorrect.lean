/-
Gen — END TO END for event-level rows whose columns iterate ANOTHER event collection with the outer element captured:
    ds.Select(e → {name: e.Coll(bank).Where*.Select(y → XE | e.Coll2(bank2).{Select|Where with y}*), …})
`captureEventRows_correct_post`: the package `compileC` emits (all outer retrieval variables, then per column the
retrieval block and the outer loop with — in its body — the inner handle variables, accumulators / storage vectors, the
inner retrieval blocks and inner loops; one Fill; the clears) writes exactly the one row the query denotes, from a class
state in which the column vectors are empty, and leaves them empty again — every column list, event, number model, all
three backends (`BackendBase`; the token table `compileC` emits binds every chain's token, outer and inner).
-/
import FaxVerif.Gen.CaptureColCorrect
import FaxVerif.Gen.NestedEventRowsCorrect
namespace FaxVerif.Gen
open FaxVerif.Cpp FaxVerif.Linq
variable {D : Type}

/-! ## one column -/

def CCol.chain : CCol → Chain
  | .agg c _ => c
  | .twoD c _ => c

/-- per-event side conditions of one column: static well-typedness; the objects of the outer bank and of the inner banks
return values of the declared kinds; floating captured sums are non-empty; a 2-D column's inner bank holds a collection -/
def CColHyp (QC : QCtx D) : CCol → Prop
  | .agg c e => wtOuter c = true ∧ wtXE e = true ∧ ChainTyped QC c ∧
      (∀ cty l, QC.ev.find c.bank = some (cty, .vec l) → ∀ v ∈ l, XEHyp QC v e)
  | .twoD c ic => wtOuter c = true ∧ wtCChain ic = true ∧ ChainTyped QC c ∧ CChainTyped QC ic ∧ BankIsVecC QC ic ∧
      (∀ cty l, QC.ev.find c.bank = some (cty, .vec l) → ∀ v ∈ l, MethTyped v (omethsCSteps ic.steps))

/-- the continuation of a column -/
def CCol.kn (B : Backend) (nm : Nat → String) (v : String) : CCol → KN
  | .agg _ e => caggK B nm v e
  | .twoD _ ic => ctwoDK B nm v ic

/-- what a column needs of the run's token table: the outer chain's token and every inner chain's token -/
def TokCCol (B : Backend) (nm : Nat → String) (C : Ctx D) (col : CCol) (n : Nat) : Prop :=
  TokChain B nm C col.chain n ∧
  (match col with
   | .agg c e => TokXE B nm C (B.elemPtr && (none : Option Ty).isNone) (stepConds B.elemPtr (.var (nm (n + 1))) none c.steps).2.1 e (outerNext B nm c n)
   | .twoD c ic => TokCChain B nm C ic (outerNext B nm c n + 1))

theorem compCCol_eq (B : Backend) (nm cn : Nat → String) (idx : Nat) (col : CCol) (n : Nat) :
    (compCCol B nm cn idx col n).decls = (compChainN B nm col.chain n (col.kn B nm (cn idx))).decls ∧
    (compCCol B nm cn idx col n).stmts = (compChainN B nm col.chain n (col.kn B nm (cn idx))).stmts ∧
    (compCCol B nm cn idx col n).next = (compChainN B nm col.chain n (col.kn B nm (cn idx))).next ∧
    (compCCol B nm cn idx col n).clears = [.clear (cn idx)] ∧ (compCCol B nm cn idx col n).classVar.2 = cn idx := by
  cases col <;> simp [compCCol, CCol.chain, CCol.kn]

theorem CCol.kn_next_ge (B : Backend) (nm : Nat → String) (v : String) (col : CCol) (cur : CExpr) (ty : Option Ty) (m : Nat) :
    m ≤ (col.kn B nm v cur ty m).2 := by
  cases col with
  | agg c e => exact caggK_next_ge B nm v e cur ty m
  | twoD c ic => exact ctwoDK_next_ge B nm v ic cur ty m

theorem compCCol_next_ge (B : Backend) (nm cn : Nat → String) (idx : Nat) (col : CCol) (n : Nat) :
    n + 3 ≤ (compCCol B nm cn idx col n).next := by
  rw [(compCCol_eq B nm cn idx col n).2.2.1]
  have h1 := outerNext_ge B nm col.chain n
  have h2 := col.kn_next_ge B nm (cn idx) (stepConds B.elemPtr (outerIt nm n) none col.chain.steps).2.1
    (stepConds B.elemPtr (outerIt nm n) none col.chain.steps).2.2 (outerNext B nm col.chain n)
  simp only [compChainN]; omega

theorem compCCol_stmts (B : Backend) (nm cn : Nat → String) (idx : Nat) (col : CCol) (n : Nat) :
    (compCCol B nm cn idx col n).stmts =
      (compChain B nm col.chain n (fun cur ty => (col.kn B nm (cn idx) cur ty (outerNext B nm col.chain n)).1)).stmts := by
  rw [(compCCol_eq B nm cn idx col n).2.1]; rfl

theorem compCCol_decls_eq (B : Backend) (nm cn : Nat → String) (idx : Nat) (col : CCol) (n : Nat) :
    (compCCol B nm cn idx col n).decls =
      (compChain B nm col.chain n (fun cur ty => (col.kn B nm (cn idx) cur ty (outerNext B nm col.chain n)).1)).decls := by
  rw [(compCCol_eq B nm cn idx col n).1]; rfl


/-- **one column** — from a state in which the column's outer retrieval variable is declared and its vector variable is
empty: afterwards the vector variable holds exactly the list the column denotes. -/
theorem compCCol_correct (C : Ctx D) (QC : QCtx D) (hN : QC.N = C.N) (hev : QC.ev = C.ev)
    (B : Backend) (hB : BackendBase B) (nm cn : Nat → String)
    (hinj : ∀ i j, nm i = nm j → i = j) (hres : ∀ j, nm j ≠ "result")
    (hcres : ∀ k, cn k ≠ "result") (hdisj : ∀ j k, nm j ≠ cn k)
    (hcollT : ∀ name, B.collType name = QC.collType name)
    (col : CCol) (idx n : Nat) (htok : TokCCol B nm C col n) (s : St D) (v : Val D)
    (hdone : DeclsDone C.N (compCCol B nm cn idx col n).decls s.env)
    (hpre : s.env (cn idx) = some (.val (.vec []))) (hhyp : CColHyp QC col)
    (hden : denote QC [("e", evtVal)] (ccolQ "e" col) = .ok v) :
    ∃ us s', v = .vec us ∧ execs C (compCCol B nm cn idx col n).stmts s = .ok s' ∧ s'.rows = s.rows ∧
      s'.env (cn idx) = some (.val (.vec us)) ∧
      (∀ z, z ≠ cn idx → ¬ Touch nm n (compCCol B nm cn idx col n).next z → s'.env z = s.env z) := by
  have hx : (s.env (nm n)).isSome = true := by
    have := hdone (.decl (B.handleTy ((B.collType col.chain.coll).getD "?")) (nm n) none)
      (by rw [compCCol_decls_eq]; simp [compChain])
    simpa [DeclOK] using this
  obtain ⟨h1, h2, h3, _, _⟩ := compCCol_eq B nm cn idx col n
  rw [h2, h3]
  cases col with
  | agg c e =>
    obtain ⟨hwo, hwt, hct, hq⟩ := hhyp
    exact pushColT_correct C QC hN hev B hB nm hinj hres hcollT c hwo n htok.1 (cn idx) (fun j => hdisj j idx) (hcres idx)
      (caggK B nm (cn idx) e) _ _ _ (caggK_pushSpec C QC hN hev B hB nm hinj hres hcollT (cn idx) (fun j => hdisj j idx) (hcres idx) e hwt [("e", evtVal)])
      htok.2
      (fun cur m => caggK_next_ge B nm (cn idx) e cur none m) outerVar (xeQ "e" outerVar e) (fun _ => rfl) hct hq s hx hpre v hden
  | twoD c ic =>
    obtain ⟨hwo, hwt, hct, hcct, hbv, hq⟩ := hhyp
    exact pushColT_correct C QC hN hev B hB nm hinj hres hcollT c hwo n htok.1 (cn idx) (fun j => hdisj j idx) (hcres idx)
      (ctwoDK B nm (cn idx) ic) _ _ _ (ctwoDK_pushSpec C QC hN hev B hB nm hinj hres hcollT (cn idx) (fun j => hdisj j idx) (hcres idx) ic hwt hcct hbv [("e", evtVal)])
      htok.2
      (fun cur m => ctwoDK_next_ge B nm (cn idx) ic cur none m) outerVar (cchainQ "e" outerVar ic) (fun _ => rfl) hct hq s hx hpre v hden

/-! ## the column list: names, declarations, tokens -/

def ccolsNext (B : Backend) (nm cn : Nat → String) : List CCol → Nat → Nat → Nat
  | [], _, n => n
  | c :: cs, idx, n => ccolsNext B nm cn cs (idx + 1) (compCCol B nm cn idx c n).next

theorem ccolsNext_ge (B : Backend) (nm cn : Nat → String) : ∀ (cols : List CCol) (idx n : Nat), n ≤ ccolsNext B nm cn cols idx n
  | [], _, n => Nat.le_refl n
  | c :: cs, idx, n => by
    have h1 := compCCol_next_ge B nm cn idx c n
    have h2 := ccolsNext_ge B nm cn cs (idx + 1) (compCCol B nm cn idx c n).next
    simp only [ccolsNext]; omega

theorem compCCol_decls (B : Backend) (nm cn : Nat → String) (idx : Nat) (col : CCol) (n : Nat) :
    DeclsIn nm n (compCCol B nm cn idx col n).next (compCCol B nm cn idx col n).decls := by
  have hn := compCCol_next_ge B nm cn idx col n
  rw [compCCol_decls_eq]
  intro d hd
  simp only [compChain, List.mem_singleton] at hd
  exact ⟨_, _, _, hd, n, Nat.le_refl n, by omega, rfl⟩

theorem compCCol_declsOK (C : Ctx D) (B : Backend) (hB : BackendBase B) (nm cn : Nat → String) (idx : Nat) (col : CCol) (n : Nat) :
    (∀ d ∈ (compCCol B nm cn idx col n).decls, SimpleDecl C.N d) ∧ ((compCCol B nm cn idx col n).decls.map declName).Nodup := by
  rw [compCCol_decls_eq]
  have hc := compChain_declsOK_base C B hB nm col.chain n
    (fun cur ty => (col.kn B nm (cn idx) cur ty (outerNext B nm col.chain n)).1)
  exact ⟨hc.1, by rw [hc.2]; simp⟩

theorem compCCols_declsIn (B : Backend) (nm cn : Nat → String) : ∀ (cols : List CCol) (idx n : Nat),
    DeclsIn nm n (ccolsNext B nm cn cols idx n) ((compCCols B nm cn cols idx n).flatMap (·.decls))
  | [], _, n => by intro d hd; simp [compCCols] at hd
  | c :: cs, idx, n => by
    simp only [compCCols, List.flatMap_cons, ccolsNext]
    have h1 := compCCol_next_ge B nm cn idx c n
    have h2 := ccolsNext_ge B nm cn cs (idx + 1) (compCCol B nm cn idx c n).next
    exact ((compCCol_decls B nm cn idx c n).mono (Nat.le_refl _) h2).append
      ((compCCols_declsIn B nm cn cs (idx + 1) _).mono (by omega) (Nat.le_refl _))

theorem compCCols_declsOK (C : Ctx D) (B : Backend) (hB : BackendBase B) (nm cn : Nat → String)
    (hinj : ∀ i j, nm i = nm j → i = j) : ∀ (cols : List CCol) (idx n : Nat),
    (∀ d ∈ (compCCols B nm cn cols idx n).flatMap (·.decls), SimpleDecl C.N d) ∧
    (((compCCols B nm cn cols idx n).flatMap (·.decls)).map declName).Nodup
  | [], _, _ => by simp [compCCols]
  | c :: cs, idx, n => by
    have hc := compCCol_declsOK C B hB nm cn idx c n
    have ih := compCCols_declsOK C B hB nm cn hinj cs (idx + 1) (compCCol B nm cn idx c n).next
    simp only [compCCols, List.flatMap_cons]
    refine ⟨fun d hd => ?_, ?_⟩
    · rcases List.mem_append.1 hd with h | h
      · exact hc.1 d h
      · exact ih.1 d h
    · rw [List.map_append]
      exact nodup_append_ranges hinj hc.2 ih.2 (declsIn_names (compCCol_decls B nm cn idx c n))
        (declsIn_names (compCCols_declsIn B nm cn cs (idx + 1) _))

theorem compCCols_vars (B : Backend) (nm cn : Nat → String) : ∀ (cols : List CCol) (idx n : Nat),
    (compCCols B nm cn cols idx n).map (·.classVar.2) = colNames cn cols.length idx
  | [], _, _ => rfl
  | c :: cs, idx, n => by
    simp only [compCCols, List.map_cons, List.length_cons, colNames, (compCCol_eq B nm cn idx c n).2.2.2.2]
    rw [compCCols_vars B nm cn cs (idx + 1) _]

theorem compCCols_length (B : Backend) (nm cn : Nat → String) : ∀ (cols : List CCol) (idx n : Nat),
    (compCCols B nm cn cols idx n).length = cols.length
  | [], _, _ => rfl
  | c :: cs, idx, n => by simp [compCCols, compCCols_length B nm cn cs]

/-- every chain of the column list, outer and inner, finds its token bound to its own container type and bank -/
def TokCCols (B : Backend) (nm cn : Nat → String) (C : Ctx D) : List CCol → Nat → Nat → Prop
  | [], _, _ => True
  | c :: cs, idx, n => TokCCol B nm C c n ∧ TokCCols B nm cn C cs (idx + 1) (compCCol B nm cn idx c n).next

theorem tokCCols_of_notToken {B : Backend} (h : B.how ≠ "token") (nm cn : Nat → String) (C : Ctx D) :
    ∀ (cols : List CCol) (idx n : Nat), TokCCols B nm cn C cols idx n
  | [], _, _ => trivial
  | c :: cs, _, n => by
    refine ⟨⟨tokChain_of_notToken h nm C c.chain n, ?_⟩, tokCCols_of_notToken h nm cn C cs _ _⟩
    cases c with
    | agg c e => exact tokXE_of_notToken h nm C _ _ e _
    | twoD c ic => exact fun e => absurd e h

/-! ## all columns -/

/-- running the loops of all columns, in order -/
theorem compCCols_correct (C : Ctx D) (QC : QCtx D) (hN : QC.N = C.N) (hev : QC.ev = C.ev)
    (B : Backend) (hB : BackendBase B) (nm cn : Nat → String)
    (hinj : ∀ i j, nm i = nm j → i = j) (hcinj : ∀ i j, cn i = cn j → i = j) (hres : ∀ j, nm j ≠ "result")
    (hcres : ∀ k, cn k ≠ "result") (hdisj : ∀ j k, nm j ≠ cn k)
    (hcollT : ∀ name, B.collType name = QC.collType name) :
    ∀ (cols : List CCol) (idx n : Nat) (s : St D) (vs : List (Val D)), TokCCols B nm cn C cols idx n →
      DeclsDone C.N ((compCCols B nm cn cols idx n).flatMap (·.decls)) s.env →
      NColsPre cn cols.length idx s.env → (∀ col ∈ cols, CColHyp QC col) →
      denotes QC [("e", evtVal)] (cols.map (ccolQ "e")) = .ok vs →
      ∃ s', execs C ((compCCols B nm cn cols idx n).flatMap (·.stmts)) s = .ok s' ∧ s'.rows = s.rows ∧
        VarsHold cn idx vs s'.env ∧ AllVec vs ∧
        (∀ y, (∀ k, idx ≤ k → y ≠ cn k) → ¬ Touch nm n (ccolsNext B nm cn cols idx n) y → s'.env y = s.env y)
  | [], idx, n, s, vs, _, _, _, _, hden => by
    simp only [List.map_nil, denotes, Except.ok.injEq] at hden; subst hden
    exact ⟨s, by simp [compCCols, execs], rfl, trivial, by intro v hv; simp at hv, fun _ _ _ => rfl⟩
  | c :: cs, idx, n, s, vs, htk, hdone, hpre, hhyp, hden => by
    simp only [List.map_cons, denotes] at hden
    cases hd1 : denote QC [("e", evtVal)] (ccolQ "e" c) with
    | error e => rw [hd1] at hden; simp at hden
    | ok v =>
      rw [hd1] at hden; simp only [] at hden
      cases hd2 : denotes QC [("e", evtVal)] (cs.map (ccolQ "e")) with
      | error e => rw [hd2] at hden; simp at hden
      | ok vs' =>
        rw [hd2] at hden; simp only [Except.ok.injEq] at hden; subst hden
        simp only [compCCols, List.flatMap_cons] at hdone ⊢
        have h1 := compCCol_next_ge B nm cn idx c n
        have h2 := ccolsNext_ge B nm cn cs (idx + 1) (compCCol B nm cn idx c n).next
        obtain ⟨us, s1, rfl, hex1, hr1, hcol1, hfr1⟩ := compCCol_correct C QC hN hev B hB nm cn hinj hres hcres hdisj hcollT c idx n htk.1 s v
          (fun d hd => hdone d (by simp [hd])) (hpre idx (Nat.le_refl _) (by simp)) (hhyp c (by simp)) hd1
        have hrest_names : ∀ y, InRange nm (compCCol B nm cn idx c n).next (ccolsNext B nm cn cs (idx + 1) (compCCol B nm cn idx c n).next) y →
            s1.env y = s.env y := by
          intro y hy
          apply hfr1 y
          · obtain ⟨j, _, _, hj⟩ := hy; rw [hj]; exact hdisj j idx
          · rintro (h | h)
            · exact inRange_disjoint hinj hy h
            · obtain ⟨j, _, _, hj⟩ := hy; exact hres j (hj ▸ h)
        have hcn_rest : ∀ k, idx + 1 ≤ k → s1.env (cn k) = s.env (cn k) := by
          intro k hk
          apply hfr1
          · intro e; have := hcinj _ _ e; omega
          · rintro (⟨j, _, _, hj⟩ | h)
            · exact hdisj j k hj.symm
            · exact hcres k h
        have hdone2 : DeclsDone C.N ((compCCols B nm cn cs (idx + 1) (compCCol B nm cn idx c n).next).flatMap (·.decls)) s1.env :=
          DeclsDone.transport (fun d hd => hdone d (by simp [hd])) (compCCols_declsIn B nm cn cs (idx + 1) _) hrest_names
        have hpre2 : NColsPre cn cs.length (idx + 1) s1.env := by
          intro k hk1 hk2
          rw [hcn_rest k hk1]
          exact hpre k (by omega) (by simp only [List.length_cons]; omega)
        obtain ⟨s', hex2, hr2, hvars2, hvec2, hfr2⟩ := compCCols_correct C QC hN hev B hB nm cn hinj hcinj hres hcres hdisj hcollT
          cs (idx + 1) _ s1 vs' htk.2 hdone2 hpre2 (fun col hc => hhyp col (by simp [hc])) hd2
        refine ⟨s', by rw [execs_append, hex1]; exact hex2, by rw [hr2, hr1], ⟨?_, hvars2⟩, ?_, ?_⟩
        · rw [hfr2 (cn idx) (fun k hk e => by have := hcinj _ _ e; omega) (by
            rintro (⟨j, _, _, hj⟩ | h)
            · exact hdisj j idx hj.symm
            · exact hcres idx h)]
          exact hcol1
        · intro w hw
          rcases List.mem_cons.1 hw with rfl | hw
          · exact ⟨us, rfl⟩
          · exact hvec2 w hw
        · intro y hy1 hy2
          simp only [ccolsNext] at hy2
          rw [hfr2 y (fun k hk => hy1 k (by omega)) (not_touch_sub hy2 (by omega) (Nat.le_refl _)),
              hfr1 y (hy1 idx (Nat.le_refl _)) (not_touch_sub hy2 (Nat.le_refl _) h2)]

/-- the clears after the fill: every column vector is empty again — the precondition of the NEXT event -/
theorem cclears_correct (C : Ctx D) (B : Backend) (nm cn : Nat → String) (hcinj : ∀ i j, cn i = cn j → i = j) :
    ∀ (cols : List CCol) (idx n : Nat) (s : St D) (vs : List (Val D)),
      VarsHold cn idx vs s.env → vs.length = cols.length → AllVec vs →
      ∃ s', execs C ((compCCols B nm cn cols idx n).flatMap (·.clears)) s = .ok s' ∧ s'.rows = s.rows ∧
        NColsPre cn cols.length idx s'.env ∧ (∀ y, (∀ k, idx ≤ k → y ≠ cn k) → s'.env y = s.env y)
  | [], _, _, s, _, _, _, _ => ⟨s, by simp [compCCols, execs], rfl, by intro k h1 h2; simp at h2; omega, fun _ _ => rfl⟩
  | c :: cs, idx, n, s, vs, hv, hlen, hok => by
    cases vs with
    | nil => simp at hlen
    | cons v vs =>
      simp only [VarsHold] at hv
      obtain ⟨l, rfl⟩ := hok v (by simp)
      simp only [compCCols, List.flatMap_cons, (compCCol_eq B nm cn idx c n).2.2.2.1]
      let s1 : St D := { s with env := s.env.set (cn idx) (.vec []) }
      have hv1 : VarsHold cn (idx + 1) vs s1.env :=
        varsHold_stable cn vs (idx + 1) s.env s1.env (fun k hk => by
          have : cn k ≠ cn idx := fun e => by have := hcinj _ _ e; omega
          simp [s1, Env.set, this]) hv.2
      obtain ⟨s', hex, hr, hpre, hfr⟩ := cclears_correct C B nm cn hcinj cs (idx + 1) _ s1 vs hv1
        (by simpa using hlen) (fun w hw => hok w (by simp [hw]))
      refine ⟨s', ?_, by rw [hr], ?_, ?_⟩
      · simp only [List.cons_append, List.nil_append, execs, exec, hv.1]
        exact hex
      · intro k hk1 hk2
        by_cases hk : k = idx
        · subst hk
          rw [hfr (cn k) (fun k' hk' e => by have := hcinj _ _ e; omega)]; simp [s1, Env.set]
        · exact hpre k (by omega) (by simp only [List.length_cons] at hk2; omega)
      · intro y hy
        rw [hfr y (fun k hk => hy k (by omega))]
        simp [s1, Env.set, hy idx (Nat.le_refl _)]

/-! ## the token table `compileC` emits -/

theorem xeToks_names (B : Backend) (nm : Nat → String) (optr : Bool) (ocur : CExpr) : ∀ (e : XE) (n : Nat),
    ∀ y ∈ (xeToks B nm optr ocur e n).map (·.1), InRange nm n (compXE B nm optr ocur e n).next y
  | .pure _, n, y, h => by simp [xeToks] at h
  | .ccount c, n, y, h => by
    have := ccompChain_next B nm optr ocur c (n + 1) (countK (nm n))
    simp only [xeToks, cchainToks] at h
    split at h
    · simp only [List.map_cons, List.map_nil, List.mem_singleton] at h
      exact ⟨n + 1 + 2, by omega, by simp only [compXE]; omega, h⟩
    · simp at h
  | .csum c, n, y, h => by
    have := ccompChain_next B nm optr ocur c (n + 1) (sumK (nm n))
    simp only [xeToks, cchainToks] at h
    split at h
    · simp only [List.map_cons, List.map_nil, List.mem_singleton] at h
      exact ⟨n + 1 + 2, by omega, by simp only [compXE]; omega, h⟩
    · simp at h
  | .bin _ a b, n, y, h => by
    have h1 := compXE_next_ge B nm optr ocur a n
    have h2 := compXE_next_ge B nm optr ocur b (compXE B nm optr ocur a n).next
    simp only [xeToks, List.map_append, List.mem_append] at h
    simp only [compXE]
    rcases h with h | h
    · exact (xeToks_names B nm optr ocur a n y h).mono (Nat.le_refl _) h2
    · exact (xeToks_names B nm optr ocur b _ y h).mono h1 (Nat.le_refl _)
  | .cmp _ a b, n, y, h => by
    have h1 := compXE_next_ge B nm optr ocur a n
    have h2 := compXE_next_ge B nm optr ocur b (compXE B nm optr ocur a n).next
    simp only [xeToks, List.map_append, List.mem_append] at h
    simp only [compXE]
    rcases h with h | h
    · exact (xeToks_names B nm optr ocur a n y h).mono (Nat.le_refl _) h2
    · exact (xeToks_names B nm optr ocur b _ y h).mono h1 (Nat.le_refl _)
  | .neg a, n, y, h => by simp only [xeToks] at h; simpa [compXE] using xeToks_names B nm optr ocur a n y h
  | .not a, n, y, h => by simp only [xeToks] at h; simpa [compXE] using xeToks_names B nm optr ocur a n y h

theorem xeToks_nodup (B : Backend) (nm : Nat → String) (hinj : ∀ i j, nm i = nm j → i = j) (optr : Bool) (ocur : CExpr) :
    ∀ (e : XE) (n : Nat), ((xeToks B nm optr ocur e n).map (·.1)).Nodup
  | .pure _, n => by simp [xeToks]
  | .ccount c, n => by simp only [xeToks, cchainToks]; split <;> simp
  | .csum c, n => by simp only [xeToks, cchainToks]; split <;> simp
  | .bin _ a b, n => by
    simp only [xeToks, List.map_append]
    exact nodup_append_ranges hinj (xeToks_nodup B nm hinj optr ocur a n) (xeToks_nodup B nm hinj optr ocur b _)
      (xeToks_names B nm optr ocur a n) (xeToks_names B nm optr ocur b _)
  | .cmp _ a b, n => by
    simp only [xeToks, List.map_append]
    exact nodup_append_ranges hinj (xeToks_nodup B nm hinj optr ocur a n) (xeToks_nodup B nm hinj optr ocur b _)
      (xeToks_names B nm optr ocur a n) (xeToks_names B nm optr ocur b _)
  | .neg a, n => by simpa [xeToks] using xeToks_nodup B nm hinj optr ocur a n
  | .not a, n => by simpa [xeToks] using xeToks_nodup B nm hinj optr ocur a n

theorem tokCChain_of_lookup (B : Backend) (nm : Nat → String) (C : Ctx D) (c : CChain) (n : Nat)
    (h : ∀ t ∈ cchainToks B nm c n, C.tokenBank t.1 = some t.2) : TokCChain B nm C c n := by
  intro ht
  exact h (nm (n + 2), (B.collType c.coll).getD "?", c.bank) (by simp [cchainToks, ht])

theorem tokXE_of_lookup (B : Backend) (nm : Nat → String) (C : Ctx D) (optr : Bool) (ocur : CExpr) : ∀ (e : XE) (n : Nat),
    (∀ t ∈ xeToks B nm optr ocur e n, C.tokenBank t.1 = some t.2) → TokXE B nm C optr ocur e n
  | .pure _, _, _ => trivial
  | .ccount c, n, h => tokCChain_of_lookup B nm C c (n + 1) (by simpa [xeToks] using h)
  | .csum c, n, h => tokCChain_of_lookup B nm C c (n + 1) (by simpa [xeToks] using h)
  | .bin _ a b, n, h => ⟨tokXE_of_lookup B nm C optr ocur a n (fun t ht => h t (by simp [xeToks, ht])),
      tokXE_of_lookup B nm C optr ocur b _ (fun t ht => h t (by simp [xeToks, ht]))⟩
  | .cmp _ a b, n, h => ⟨tokXE_of_lookup B nm C optr ocur a n (fun t ht => h t (by simp [xeToks, ht])),
      tokXE_of_lookup B nm C optr ocur b _ (fun t ht => h t (by simp [xeToks, ht]))⟩
  | .neg a, n, h => tokXE_of_lookup B nm C optr ocur a n (by simpa [xeToks] using h)
  | .not a, n, h => tokXE_of_lookup B nm C optr ocur a n (by simpa [xeToks] using h)

theorem outerCur_eq (B : Backend) (nm : Nat → String) (c : Chain) (n : Nat) :
    outerCur B nm c n = (stepConds B.elemPtr (.var (nm (n + 1))) none c.steps).2.1 := rfl

theorem ccolToks_names (B : Backend) (nm cn : Nat → String) (idx : Nat) (col : CCol) (hwo : wtOuter col.chain = true) (n : Nat) :
    ∀ y ∈ (ccolToks B nm col n).map (·.1), InRange nm n (compCCol B nm cn idx col n).next y := by
  intro y h
  have h3 := compCCol_next_ge B nm cn idx col n
  have hm := outerNext_ge B nm col.chain n
  have hnx := (compCCol_eq B nm cn idx col n).2.2.1
  have hN := compChainN_next B nm col.chain n (col.kn B nm (cn idx)) hwo
  by_cases ht : B.how = "token"
  · cases col with
    | agg c e =>
      have hty : outerTy B nm c n = none := wtOuter_ty hwo B.elemPtr (outerIt nm n)
      simp only [ccolToks, ht, if_true, List.map_cons, List.mem_cons] at h
      rcases h with h | h
      · exact ⟨n + 2, by omega, by omega, h⟩
      · have := xeToks_names B nm _ _ e _ y h
        rw [hnx, hN]
        simp only [CCol.kn, caggK, CCol.chain]
        rw [hty] at this
        exact this.mono (by simp only [CCol.chain] at hm; omega) (Nat.le_refl _)
    | twoD c ic =>
      simp only [ccolToks, ht, if_true, cchainToks, List.map_cons, List.map_nil, List.mem_cons, List.not_mem_nil, or_false] at h
      rcases h with h | h
      · exact ⟨n + 2, by omega, by omega, h⟩
      · have hcn := ccompChain_next B nm (B.elemPtr && (none : Option Ty).isNone)
          (stepConds B.elemPtr (outerIt nm n) none c.steps).2.1 ic (outerNext B nm c n + 1) (pushK (nm (outerNext B nm c n)))
        refine ⟨outerNext B nm c n + 1 + 2, by simp only [CCol.chain] at hm; omega, ?_, h⟩
        rw [hnx, hN]
        simp only [CCol.kn, ctwoDK, CCol.chain]
        omega
  · simp [ccolToks, ht] at h

theorem ccolToks_nodup (B : Backend) (nm cn : Nat → String) (hinj : ∀ i j, nm i = nm j → i = j) (idx : Nat) (col : CCol)
    (hwo : wtOuter col.chain = true) (n : Nat) : ((ccolToks B nm col n).map (·.1)).Nodup := by
  have hm := outerNext_ge B nm col.chain n
  by_cases ht : B.how = "token"
  · cases col with
    | agg c e =>
      simp only [ccolToks, ht, if_true, List.map_cons, List.nodup_cons]
      refine ⟨?_, xeToks_nodup B nm hinj _ _ e _⟩
      intro hmem
      obtain ⟨j, hj1, _, hj3⟩ := xeToks_names B nm _ _ e _ _ hmem
      have := hinj _ _ hj3
      simp only [CCol.chain] at hm; omega
    | twoD c ic =>
      simp only [ccolToks, ht, if_true, cchainToks, List.map_cons, List.map_nil, List.nodup_cons, List.mem_singleton,
        List.not_mem_nil, not_false_eq_true, List.nodup_nil, and_true]
      intro e; have := hinj _ _ e; simp only [CCol.chain] at hm; omega
  · simp [ccolToks, ht]

theorem tokCCol_of_lookup (B : Backend) (nm : Nat → String) (C : Ctx D) (col : CCol) (hwo : wtOuter col.chain = true) (n : Nat)
    (h : ∀ t ∈ ccolToks B nm col n, C.tokenBank t.1 = some t.2) : TokCCol B nm C col n := by
  by_cases ht : B.how = "token"
  · cases col with
    | agg c e =>
      have hty : outerTy B nm c n = none := wtOuter_ty hwo B.elemPtr (outerIt nm n)
      refine ⟨fun _ => h (nm (n + 2), (B.collType c.coll).getD "?", c.bank) (by simp [ccolToks, ht]), ?_⟩
      apply tokXE_of_lookup
      intro t htm
      apply h t
      simp only [ccolToks, ht, if_true, List.mem_cons]
      right
      rw [hty]
      exact htm
    | twoD c ic =>
      refine ⟨fun _ => h (nm (n + 2), (B.collType c.coll).getD "?", c.bank) (by simp [ccolToks, ht]), ?_⟩
      apply tokCChain_of_lookup
      intro t htm
      apply h t
      simp only [ccolToks, ht, if_true, List.mem_cons]
      right; exact htm
  · refine ⟨tokChain_of_notToken ht nm C col.chain n, ?_⟩
    cases col with
    | agg c e => exact tokXE_of_notToken ht nm C _ _ e _
    | twoD c ic => exact fun e => absurd e ht

theorem ccolsToks_names (B : Backend) (nm cn : Nat → String) : ∀ (cols : List CCol) (idx n : Nat),
    (∀ col ∈ cols, wtOuter col.chain = true) →
    ∀ y ∈ (ccolsToks B nm cn cols idx n).map (·.1), InRange nm n (ccolsNext B nm cn cols idx n) y
  | [], _, _, _, y, h => by simp [ccolsToks] at h
  | c :: cs, idx, n, hwo, y, h => by
    have h1 := compCCol_next_ge B nm cn idx c n
    have h2 := ccolsNext_ge B nm cn cs (idx + 1) (compCCol B nm cn idx c n).next
    simp only [ccolsToks, List.map_append, List.mem_append] at h
    simp only [ccolsNext]
    rcases h with h | h
    · exact (ccolToks_names B nm cn idx c (hwo c (by simp)) n y h).mono (Nat.le_refl _) h2
    · exact (ccolsToks_names B nm cn cs _ _ (fun col hc => hwo col (by simp [hc])) y h).mono (by omega) (Nat.le_refl _)

theorem ccolsToks_nodup (B : Backend) (nm cn : Nat → String) (hinj : ∀ i j, nm i = nm j → i = j) :
    ∀ (cols : List CCol) (idx n : Nat), (∀ col ∈ cols, wtOuter col.chain = true) →
      ((ccolsToks B nm cn cols idx n).map (·.1)).Nodup
  | [], _, _, _ => by simp [ccolsToks]
  | c :: cs, idx, n, hwo => by
    simp only [ccolsToks, List.map_append]
    exact nodup_append_ranges hinj (ccolToks_nodup B nm cn hinj idx c (hwo c (by simp)) n)
      (ccolsToks_nodup B nm cn hinj cs _ _ (fun col hc => hwo col (by simp [hc])))
      (ccolToks_names B nm cn idx c (hwo c (by simp)) n)
      (ccolsToks_names B nm cn cs _ _ (fun col hc => hwo col (by simp [hc])))

theorem tokCCols_of_lookup (B : Backend) (nm cn : Nat → String) (C : Ctx D) : ∀ (cols : List CCol) (idx n : Nat),
    (∀ col ∈ cols, wtOuter col.chain = true) →
    (∀ t ∈ ccolsToks B nm cn cols idx n, C.tokenBank t.1 = some t.2) → TokCCols B nm cn C cols idx n
  | [], _, _, _, _ => trivial
  | c :: cs, idx, n, hwo, h =>
    ⟨tokCCol_of_lookup B nm C c (hwo c (by simp)) n (fun t ht => h t (by simp [ccolsToks, ht])),
      tokCCols_of_lookup B nm cn C cs _ _ (fun col hc => hwo col (by simp [hc])) (fun t ht => h t (by simp [ccolsToks, ht]))⟩

/-- **the token table `compileC` emits binds every chain's token — outer chains and captured inner chains** -/
theorem tokCCols_eventRows (B : Backend) (nm cn : Nat → String) (hinj : ∀ i j, nm i = nm j → i = j)
    (cols : List (String × CCol)) (hwo : ∀ p ∈ cols, wtOuter p.2.chain = true) (N : Num D) (ev : Event D) :
    TokCCols B nm cn ((compileC B nm cn (.eventRows cols)).ctx N ev) (cols.map (·.2)) 0 0 := by
  have hwo' : ∀ col ∈ cols.map (·.2), wtOuter col.chain = true := by
    intro col hc
    obtain ⟨p, hp, rfl⟩ := List.mem_map.1 hc
    exact hwo p hp
  have htoks : ((compileC B nm cn (.eventRows cols)).ctx N ev).tokens = ccolsToks B nm cn (cols.map (·.2)) 0 0 := rfl
  apply tokCCols_of_lookup _ _ _ _ _ _ _ hwo'
  intro t hm
  exact tokenBank_of_mem _ (by rw [htoks]; exact ccolsToks_nodup B nm cn hinj _ 0 0 hwo') t (by rw [htoks]; exact hm)

/-- every token name of the table is a generated local name (never a column variable) -/
theorem tokens_names_captureEventRows (B : Backend) (nm cn : Nat → String) (cols : List (String × CCol))
    (hwo : ∀ p ∈ cols, wtOuter p.2.chain = true) :
    ∀ t ∈ (compileC B nm cn (.eventRows cols)).tokens, ∃ j, t.1 = nm j := by
  intro t hm
  have hwo' : ∀ col ∈ cols.map (·.2), wtOuter col.chain = true := by
    intro col hc
    obtain ⟨p, hp, rfl⟩ := List.mem_map.1 hc
    exact hwo p hp
  have htoks : (compileC B nm cn (.eventRows cols)).tokens = ccolsToks B nm cn (cols.map (·.2)) 0 0 := rfl
  rw [htoks] at hm
  obtain ⟨j, _, _, hj⟩ := ccolsToks_names B nm cn _ 0 0 hwo' t.1 (List.mem_map.2 ⟨t, hm, rfl⟩)
  exact ⟨j, hj⟩

/-- **C01 (event-level rows of captured-variable columns)** — for every list of columns of shapes (a) / (b), every event
and every class state in which the column vectors are empty: if the query denotes `rows` (necessarily one
row) on the event, the package the translator model emits writes exactly `rows`, and the class state it
leaves behind has the column vectors empty again. -/
theorem captureEventRows_correct_post (B : Backend) (hB : BackendBase B) (nm cn : Nat → String)
    (hinj : ∀ i j, nm i = nm j → i = j) (hcinj : ∀ i j, cn i = cn j → i = j)
    (hres : ∀ j, nm j ≠ "result") (hcres : ∀ k, cn k ≠ "result") (hdisj : ∀ j k, nm j ≠ cn k)
    (QC : QCtx D) (hcollT : ∀ name, B.collType name = QC.collType name)
    (cols : List (String × CCol)) (hhyp : ∀ p ∈ cols, CColHyp QC p.2)
    (σc : Env D) (hσ : NColsPre cn cols.length 0 σc)
    (rows : List (List (Val D)))
    (hden : denoteRows QC (CQ.toQuery (.eventRows cols)) = .ok rows) :
    ∃ σ', runEvent (compileC B nm cn (.eventRows cols)) QC.N σc QC.ev = .ok (rows, σ') ∧
      NColsPre cn cols.length 0 σ' := by
  let cs := cols.map (·.2)
  have hqs : (cols.map fun p => ccolQ "e" p.2) = cs.map (ccolQ "e") := by simp [cs, List.map_map]
  have hden' : denoteRows QC (.select .ds "e" (.dict (cols.map (·.1)) (cs.map (ccolQ "e")))) = .ok rows := by
    rw [← hqs]; exact hden
  obtain ⟨vs, hvs, rfl⟩ := eventDict_denote QC _ _ (by simp [cs]) rows hden'
  let fs := compCCols B nm cn cs 0 0
  let P := compileC B nm cn (.eventRows cols)
  let C := P.ctx QC.N QC.ev
  have hcslen : cs.length = cols.length := by simp [cs]
  have hCcols : C.cols = colNames cn cs.length 0 := by
    simp only [C, Package.ctx, P, compileC]
    rw [zip_map_snd _ _ (by simp [compCCols_length]), compCCols_vars]
  have hvlen : vs.length = cs.length := by
    have := denotes_length QC _ _ vs hvs; simpa using this
  -- 1. declarations
  obtain ⟨hsimple, hnodup⟩ := compCCols_declsOK C B hB nm cn hinj cs 0 0
  obtain ⟨sD, hexD, hrD, hdone, hfrD⟩ := exec_decls C (fs.flatMap (·.decls)) ⟨σc, []⟩ hsimple hnodup
  have hcnD : ∀ k, sD.env (cn k) = σc (cn k) := by
    intro k
    apply hfrD
    intro hm
    obtain ⟨j, _, _, hj⟩ := declsIn_names (compCCols_declsIn B nm cn cs 0 0) _ hm
    exact hdisj j k hj.symm
  -- 2. the loops of all columns
  obtain ⟨sS, hexS, hrS, hvars, hvec, _⟩ := compCCols_correct C QC rfl rfl B hB nm cn hinj hcinj hres hcres hdisj hcollT
    cs 0 0 sD vs (tokCCols_eventRows B nm cn hinj cols (fun p hp => by have := hhyp p hp; cases hc : p.2 <;> rw [hc] at this <;> exact this.1) QC.N QC.ev) hdone
    (by intro k hk1 hk2; rw [hcnD k]; exact hσ k hk1 (by rw [← hcslen]; exact hk2))
    (fun col hc => by
      obtain ⟨p, hp, rfl⟩ := List.mem_map.1 hc
      exact hhyp p hp) hvs
  -- 3. fill
  have hread : readCols sS.env C.cols = .ok vs := by
    rw [hCcols, ← hvlen]; exact readCols_of_varsHold cn vs 0 sS.env hvars
  -- 4. clears
  obtain ⟨sF, hexF, hrF, hpreF, _⟩ := cclears_correct C B nm cn hcinj cs 0 0 ⟨sS.env, sS.rows ++ [vs]⟩ vs hvars hvlen hvec
  refine ⟨keepClass P.classVars sF.env, ?_, ?_⟩
  rotate_left
  · intro k hk1 hk2
    have hmem : cn k ∈ P.classVars.map (·.2) := by
      have h1 : cn k ∈ (fs.map (·.classVar)).map (·.2) := by
        rw [List.map_map]
        have := compCCols_vars B nm cn cs 0 0
        simp only [fs]
        rw [show ((fun x : String × String => x.2) ∘ fun x : ColFrag => x.classVar) = (fun x : ColFrag => x.classVar.2) from rfl, this]
        exact mem_colNames cn _ 0 k (Nat.zero_le _) (by rw [hcslen]; exact hk2)
      simp only [P, compileC, List.map_append, List.mem_append]
      exact Or.inr h1
    have hany : P.classVars.any (fun p => decide (p.2 = cn k)) = true := by
      obtain ⟨p, hp, hpe⟩ := List.mem_map.1 hmem
      simp only [List.any_eq_true, decide_eq_true_eq]
      exact ⟨p, hp, hpe⟩
    simp only [keepClass, hany, if_true]
    exact hpreF k hk1 (by rw [hcslen]; exact hk2)
  have hblock := exec_block4 C (fs.flatMap (·.decls)) (fs.flatMap (·.stmts)) (fs.flatMap (·.clears))
    (B.fillTree B.treeName) ⟨σc, []⟩ sD sS sF vs hexD hexS hread hexF
  have hbody : P.body = .block (fs.flatMap (·.decls) ++ fs.flatMap (·.stmts) ++
      [.fill (B.fillTree B.treeName)] ++ fs.flatMap (·.clears)) := rfl
  have hrun : runEvent P QC.N σc QC.ev = .ok (sF.rows, keepClass P.classVars sF.env) := by
    simp only [runEvent]
    rw [hbody]
    have : exec (P.ctx QC.N QC.ev) (.block (fs.flatMap (·.decls) ++ fs.flatMap (·.stmts) ++
      [.fill (B.fillTree B.treeName)] ++ fs.flatMap (·.clears))) ⟨σc, []⟩ = .ok sF := hblock
    rw [this]
  rw [show compileC B nm cn (.eventRows cols) = P from rfl, hrun]
  have : sF.rows = [vs] := by
    rw [hrF]; simp only
    rw [hrS, hrD]; rfl
  rw [this]


end FaxVerif.Gen
