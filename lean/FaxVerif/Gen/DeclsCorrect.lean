/-
Gen — the declarations hoisted to the top of the per-event block: executing them establishes
`DeclsDone`, and the fragments' declared names are pairwise distinct.
-/
import FaxVerif.Gen.EECorrect
namespace FaxVerif.Gen
open FaxVerif.Cpp FaxVerif.Linq
variable {D : Type}

/-- a declaration the model emits: uninitialised non-vector, or initialised by a literal -/
def SimpleDecl (N : Num D) : Stmt → Prop
  | .decl ty _ none => isVecType ty = false
  | .decl ty _ (some e) => ∃ v v', litOf (D := D) e = some v ∧ castTo N ty v = .ok v'
  | _ => False

def declName : Stmt → String
  | .decl _ x _ => x
  | _ => ""

theorem evalE_lit (N : Num D) (σ : Env D) (e : CExpr) (v : Val D) (h : litOf (D := D) e = some v) : evalE N σ e = .ok v := by
  cases e <;> simp [litOf] at h <;> subst h <;> simp [evalE]

theorem exec_decls (C : Ctx D) : ∀ (ds : List Stmt) (s : St D),
    (∀ d ∈ ds, SimpleDecl C.N d) → (ds.map declName).Nodup →
    ∃ s', execs C ds s = .ok s' ∧ s'.rows = s.rows ∧ DeclsDone C.N ds s'.env ∧
      (∀ y, y ∉ ds.map declName → s'.env y = s.env y)
  | [], s, _, _ => ⟨s, rfl, rfl, fun _ h => by simp at h, fun _ _ => rfl⟩
  | d :: ds, s, hsimple, hnd => by
    simp only [List.map_cons, List.nodup_cons] at hnd
    have hd := hsimple d (by simp)
    -- the head declaration
    have hhead : ∃ s1, exec C d s = .ok s1 ∧ s1.rows = s.rows ∧ DeclOK C.N s1.env d ∧
        (∀ y, y ≠ declName d → s1.env y = s.env y) := by
      cases d with
      | decl ty x init =>
        cases init with
        | none =>
          simp only [SimpleDecl] at hd
          exact ⟨{ s with env := s.env.declare x }, by simp [exec, hd], rfl, by simp [DeclOK, Env.declare],
            fun y hy => by simp [Env.declare, declName] at hy ⊢; simp [hy]⟩
        | some e =>
          simp only [SimpleDecl] at hd
          obtain ⟨v, v', hl, hc⟩ := hd
          refine ⟨{ s with env := s.env.set x v' }, by simp [exec, evalE_lit C.N s.env e v hl, hc], rfl, ?_,
            fun y hy => by simp [Env.set, declName] at hy ⊢; simp [hy]⟩
          simp [DeclOK, Env.set, initValOf, hl, hc]
      | _ => simp [SimpleDecl] at hd
    obtain ⟨s1, hex1, hr1, hok1, hfr1⟩ := hhead
    obtain ⟨s', hex, hr, hdone, hfr⟩ := exec_decls C ds s1 (fun d' hd' => hsimple d' (by simp [hd'])) hnd.2
    refine ⟨s', by simp only [execs, hex1]; exact hex, by rw [hr, hr1], ?_, ?_⟩
    · intro d' hd'
      rcases List.mem_cons.1 hd' with rfl | hd'
      · -- the head's slot is not touched by the tail (names are distinct)
        have hx : s'.env (declName d') = s1.env (declName d') := hfr _ hnd.1
        cases d' with
        | decl ty x init =>
          have hx' : s'.env x = s1.env x := hx
          cases init <;> simp only [DeclOK] at hok1 ⊢ <;> rw [hx'] <;> exact hok1
        | _ => simp [SimpleDecl] at hd
      · exact hdone d' hd'
    · intro y hy
      simp only [List.map_cons, List.mem_cons, not_or] at hy
      rw [hfr y hy.2, hfr1 y hy.1]

/-! ## the model's declarations are simple and pairwise distinct -/

theorem castTo_cpp_int0 (N : Num D) (t : Ty) : ∃ v', castTo N t.cpp (.int 0) = .ok v' := by
  cases t <;> simp [castTo, Ty.cpp, asD, asBool]

theorem declsIn_names {nm : Nat → String} {lo hi : Nat} {ds : List Stmt} (h : DeclsIn nm lo hi ds) :
    ∀ y ∈ ds.map declName, InRange nm lo hi y := by
  intro y hy
  obtain ⟨d, hd, rfl⟩ := List.mem_map.1 hy
  obtain ⟨ty, x, init, rfl, hr⟩ := h d hd
  exact hr

theorem nodup_append_ranges {nm : Nat → String} (hinj : ∀ i j, nm i = nm j → i = j) {a b c : Nat} {l₁ l₂ : List String}
    (h1 : l₁.Nodup) (h2 : l₂.Nodup) (r1 : ∀ y ∈ l₁, InRange nm a b y) (r2 : ∀ y ∈ l₂, InRange nm b c y) :
    (l₁ ++ l₂).Nodup := by
  rw [List.nodup_append]
  refine ⟨h1, h2, ?_⟩
  intro x hx y hy hxy
  subst hxy
  exact inRange_disjoint hinj (r2 x hy) (r1 x hx)

theorem compChain_declsOK_base (C : Ctx D) (B : Backend) (hB : BackendBase B) (nm : Nat → String) (c : Chain) (n : Nat)
    (K : CExpr → Option Ty → List Stmt) :
    (∀ d ∈ (compChain B nm c n K).decls, SimpleDecl C.N d) ∧ ((compChain B nm c n K).decls.map declName) = [nm n] := by
  simp [compChain, SimpleDecl, hB.handleNotVec, declName]

theorem compEE_declsOK_base (C : Ctx D) (B : Backend) (hB : BackendBase B) (nm : Nat → String)
    (hinj : ∀ i j, nm i = nm j → i = j) : ∀ (e : EE) (n : Nat),
    (∀ d ∈ (compEE B nm e n).decls, SimpleDecl C.N d) ∧ ((compEE B nm e n).decls.map declName).Nodup
  | .int _, n => by simp [compEE]
  | .dbl _ _, n => by simp [compEE]
  | .bool _, n => by simp [compEE]
  | .count c, n => by
    have hc := compChain_declsOK_base C B hB nm c (n + 1) (fun _ _ => [.set (nm n) (.bin "+" (.var (nm n)) (.int 1))])
    simp only [compEE]
    constructor
    · intro d hd
      rcases List.mem_append.1 hd with h | h
      · exact hc.1 d h
      · simp only [List.mem_singleton] at h; subst h
        exact ⟨.int 0, .int 0, rfl, by simp [castTo]⟩
    · rw [List.map_append, hc.2]
      simp only [List.map_cons, List.map_nil, declName, List.cons_append, List.nil_append, List.nodup_cons,
        List.mem_singleton, List.not_mem_nil, not_false_eq_true, List.nodup_nil, and_true]
      intro h; have := hinj _ _ h; omega
  | .sum c, n => by
    have hc := compChain_declsOK_base C B hB nm c (n + 1) (fun cur _ => [.set (nm n) (.bin "+" (.var (nm n)) cur)])
    simp only [compEE]
    constructor
    · intro d hd
      rcases List.mem_append.1 hd with h | h
      · exact hc.1 d h
      · simp only [List.mem_singleton] at h; subst h
        obtain ⟨v', hv'⟩ := castTo_cpp_int0 C.N (Ty.join .int ((chainTy none c.steps).getD .double))
        exact ⟨.int 0, v', rfl, hv'⟩
    · rw [List.map_append, hc.2]
      simp only [List.map_cons, List.map_nil, declName, List.cons_append, List.nil_append, List.nodup_cons,
        List.mem_singleton, List.not_mem_nil, not_false_eq_true, List.nodup_nil, and_true]
      intro h; have := hinj _ _ h; omega
  | .bin _ a b, n => by
    have ha := compEE_declsOK_base C B hB nm hinj a n
    have hb := compEE_declsOK_base C B hB nm hinj b (compEE B nm a n).next
    simp only [compEE]
    refine ⟨fun d hd => ?_, ?_⟩
    · rcases List.mem_append.1 hd with h | h
      · exact ha.1 d h
      · exact hb.1 d h
    · rw [List.map_append]
      exact nodup_append_ranges hinj ha.2 hb.2 (declsIn_names (compEE_decls B nm a n)) (declsIn_names (compEE_decls B nm b _))
  | .cmp _ a b, n => by
    have ha := compEE_declsOK_base C B hB nm hinj a n
    have hb := compEE_declsOK_base C B hB nm hinj b (compEE B nm a n).next
    simp only [compEE]
    refine ⟨fun d hd => ?_, ?_⟩
    · rcases List.mem_append.1 hd with h | h
      · exact ha.1 d h
      · exact hb.1 d h
    · rw [List.map_append]
      exact nodup_append_ranges hinj ha.2 hb.2 (declsIn_names (compEE_decls B nm a n)) (declsIn_names (compEE_decls B nm b _))
  | .neg a, n => by simpa [compEE] using compEE_declsOK_base C B hB nm hinj a n
  | .not a, n => by simpa [compEE] using compEE_declsOK_base C B hB nm hinj a n

theorem compCol_next_ge (B : Backend) (nm cn : Nat → String) (idx : Nat) (col : Col) (n : Nat) :
    n ≤ (compCol B nm cn idx col n).next := by
  cases col with
  | scalar e => simpa [compCol] using compEE_next_ge B nm e n
  | seq c => have := compChain_next B nm c n (fun cur _ => [.push (cn idx) cur]); simp only [compCol]; omega
  | first c =>
    have := compChain_next B nm c (n + 1) (fun cur _ => [.ite (.var (nm n)) [.set (nm n) (.bool false), .set (cn idx) cur] []])
    simp only [compCol]; omega

theorem compCol_decls (B : Backend) (nm cn : Nat → String) (idx : Nat) (col : Col) (n : Nat) :
    DeclsIn nm n (compCol B nm cn idx col n).next (compCol B nm cn idx col n).decls := by
  cases col with
  | scalar e => simpa [compCol] using compEE_decls B nm e n
  | seq c => simpa [compCol] using compChain_decls B nm c n _
  | first c =>
    have hn := compChain_next B nm c (n + 1) (fun cur _ => [.ite (.var (nm n)) [.set (nm n) (.bool false), .set (cn idx) cur] []])
    simp only [compCol]
    apply DeclsIn.append
    · exact (compChain_decls B nm c (n + 1) _).mono (by omega) (Nat.le_refl _)
    · intro d hd
      simp only [List.mem_singleton] at hd
      exact ⟨_, _, _, hd, n, Nat.le_refl n, by omega, rfl⟩

theorem compCol_declsOK_base (C : Ctx D) (B : Backend) (hB : BackendBase B) (nm cn : Nat → String)
    (hinj : ∀ i j, nm i = nm j → i = j) (idx : Nat) (col : Col) (n : Nat) :
    (∀ d ∈ (compCol B nm cn idx col n).decls, SimpleDecl C.N d) ∧ ((compCol B nm cn idx col n).decls.map declName).Nodup := by
  cases col with
  | scalar e => simpa [compCol] using compEE_declsOK_base C B hB nm hinj e n
  | seq c =>
    have hc := compChain_declsOK_base C B hB nm c n (fun cur _ => [.push (cn idx) cur])
    simp only [compCol]
    exact ⟨hc.1, by rw [hc.2]; simp⟩
  | first c =>
    have hc := compChain_declsOK_base C B hB nm c (n + 1) (fun cur _ => [.ite (.var (nm n)) [.set (nm n) (.bool false), .set (cn idx) cur] []])
    simp only [compCol]
    constructor
    · intro d hd
      rcases List.mem_append.1 hd with h | h
      · exact hc.1 d h
      · simp only [List.mem_singleton] at h; subst h
        exact ⟨.bool true, .bool true, rfl, by simp [castTo, asBool]⟩
    · rw [List.map_append, hc.2]
      simp only [List.map_cons, List.map_nil, declName, List.cons_append, List.nil_append, List.nodup_cons,
        List.mem_singleton, List.not_mem_nil, not_false_eq_true, List.nodup_nil, and_true]
      intro h; have := hinj _ _ h; omega

/-- the fragments of the columns, with the name each starts from -/
def colsNext (B : Backend) (nm cn : Nat → String) : List Col → Nat → Nat → Nat
  | [], _, n => n
  | c :: cs, idx, n => colsNext B nm cn cs (idx + 1) (compCol B nm cn idx c n).next

theorem colsNext_ge (B : Backend) (nm cn : Nat → String) : ∀ (cols : List Col) (idx n : Nat), n ≤ colsNext B nm cn cols idx n
  | [], _, n => Nat.le_refl n
  | c :: cs, idx, n => by
    have h1 := compCol_next_ge B nm cn idx c n
    have h2 := colsNext_ge B nm cn cs (idx + 1) (compCol B nm cn idx c n).next
    simp only [colsNext]; omega

theorem compCols_declsIn (B : Backend) (nm cn : Nat → String) : ∀ (cols : List Col) (idx n : Nat),
    DeclsIn nm n (colsNext B nm cn cols idx n) ((compCols B nm cn cols idx n).flatMap (·.decls))
  | [], _, n => by intro d hd; simp [compCols] at hd
  | c :: cs, idx, n => by
    simp only [compCols, List.flatMap_cons, colsNext]
    have h1 := compCol_next_ge B nm cn idx c n
    have h2 := colsNext_ge B nm cn cs (idx + 1) (compCol B nm cn idx c n).next
    exact ((compCol_decls B nm cn idx c n).mono (Nat.le_refl _) h2).append
      ((compCols_declsIn B nm cn cs (idx + 1) _).mono h1 (Nat.le_refl _))

theorem compCols_declsOK_base (C : Ctx D) (B : Backend) (hB : BackendBase B) (nm cn : Nat → String)
    (hinj : ∀ i j, nm i = nm j → i = j) : ∀ (cols : List Col) (idx n : Nat),
    (∀ d ∈ (compCols B nm cn cols idx n).flatMap (·.decls), SimpleDecl C.N d) ∧
    (((compCols B nm cn cols idx n).flatMap (·.decls)).map declName).Nodup
  | [], _, _ => by simp [compCols]
  | c :: cs, idx, n => by
    have hc := compCol_declsOK_base C B hB nm cn hinj idx c n
    have ih := compCols_declsOK_base C B hB nm cn hinj cs (idx + 1) (compCol B nm cn idx c n).next
    simp only [compCols, List.flatMap_cons]
    refine ⟨fun d hd => ?_, ?_⟩
    · rcases List.mem_append.1 hd with h | h
      · exact hc.1 d h
      · exact ih.1 d h
    · rw [List.map_append]
      exact nodup_append_ranges hinj hc.2 ih.2 (declsIn_names (compCol_decls B nm cn idx c n))
        (declsIn_names (compCols_declsIn B nm cn cs (idx + 1) _))

/-! ### the same for `BackendOK` (names used by the fault-direction and guard-idiom proofs) -/

theorem compChain_declsOK (C : Ctx D) (B : Backend) (hB : BackendOK B) (nm : Nat → String) (c : Chain) (n : Nat)
    (K : CExpr → Option Ty → List Stmt) :
    (∀ d ∈ (compChain B nm c n K).decls, SimpleDecl C.N d) ∧ ((compChain B nm c n K).decls.map declName) = [nm n] :=
  compChain_declsOK_base C B hB.base nm c n K

theorem compEE_declsOK (C : Ctx D) (B : Backend) (hB : BackendOK B) (nm : Nat → String)
    (hinj : ∀ i j, nm i = nm j → i = j) (e : EE) (n : Nat) :
    (∀ d ∈ (compEE B nm e n).decls, SimpleDecl C.N d) ∧ ((compEE B nm e n).decls.map declName).Nodup :=
  compEE_declsOK_base C B hB.base nm hinj e n

theorem compCol_declsOK (C : Ctx D) (B : Backend) (hB : BackendOK B) (nm cn : Nat → String)
    (hinj : ∀ i j, nm i = nm j → i = j) (idx : Nat) (col : Col) (n : Nat) :
    (∀ d ∈ (compCol B nm cn idx col n).decls, SimpleDecl C.N d) ∧ ((compCol B nm cn idx col n).decls.map declName).Nodup :=
  compCol_declsOK_base C B hB.base nm cn hinj idx col n

theorem compCols_declsOK (C : Ctx D) (B : Backend) (hB : BackendOK B) (nm cn : Nat → String)
    (hinj : ∀ i j, nm i = nm j → i = j) (cols : List Col) (idx n : Nat) :
    (∀ d ∈ (compCols B nm cn cols idx n).flatMap (·.decls), SimpleDecl C.N d) ∧
    (((compCols B nm cn cols idx n).flatMap (·.decls)).map declName).Nodup :=
  compCols_declsOK_base C B hB.base nm cn hinj cols idx n

end FaxVerif.Gen
