/-
Gen — all expressions over the outer element with captured aggregates (`compXE_correct`), and the block level
(`compXE_block_correct`: declarations executed first, so the accumulators restart per outer element).
-/
import FaxVerif.Gen.CaptureExprCorrect
namespace FaxVerif.Gen
open FaxVerif.Cpp FaxVerif.Linq
variable {D : Type}

/-- running fragment `a` then fragment `b` (consecutive name ranges): both values are available
in the final state, nothing outside the two ranges is touched -/
theorem compXE_seq (C : Ctx D) (B : Backend) (nm : Nat → String)
    (hinj : ∀ i j, nm i = nm j → i = j) (hres : ∀ j, nm j ≠ "result")
    (optr : Bool) (ocur : CExpr) (vo : Val D)
    (a b : XE) (n : Nat) (s : St D) (va vb : Val D)
    (hofr : ∀ y ∈ vars ocur, (∀ j, n ≤ j → y ≠ nm j) ∧ y ≠ "result") (hocur : evalE C.N s.env ocur = .ok vo)
    (hdone : DeclsDone C.N ((compXE B nm optr ocur a n).decls ++ (compXE B nm optr ocur b (compXE B nm optr ocur a n).next).decls) s.env)
    (speca : DeclsDone C.N (compXE B nm optr ocur a n).decls s.env →
      ∃ s1, execs C (compXE B nm optr ocur a n).stmts s = .ok s1 ∧ s1.rows = s.rows ∧
        evalE C.N s1.env (compXE B nm optr ocur a n).val = .ok va ∧
        (∀ y, ¬ Touch nm n (compXE B nm optr ocur a n).next y → s1.env y = s.env y))
    (specb : ∀ s1 : St D, evalE C.N s1.env ocur = .ok vo → DeclsDone C.N (compXE B nm optr ocur b (compXE B nm optr ocur a n).next).decls s1.env →
      ∃ s2, execs C (compXE B nm optr ocur b (compXE B nm optr ocur a n).next).stmts s1 = .ok s2 ∧ s2.rows = s1.rows ∧
        evalE C.N s2.env (compXE B nm optr ocur b (compXE B nm optr ocur a n).next).val = .ok vb ∧
        (∀ y, ¬ Touch nm (compXE B nm optr ocur a n).next (compXE B nm optr ocur b (compXE B nm optr ocur a n).next).next y → s2.env y = s1.env y)) :
    ∃ s2, execs C ((compXE B nm optr ocur a n).stmts ++ (compXE B nm optr ocur b (compXE B nm optr ocur a n).next).stmts) s = .ok s2 ∧
      s2.rows = s.rows ∧ evalE C.N s2.env (compXE B nm optr ocur a n).val = .ok va ∧
      evalE C.N s2.env (compXE B nm optr ocur b (compXE B nm optr ocur a n).next).val = .ok vb ∧
      (∀ y, ¬ Touch nm n (compXE B nm optr ocur b (compXE B nm optr ocur a n).next).next y → s2.env y = s.env y) := by
  have h1 := compXE_next_ge B nm optr ocur a n
  have h2 := compXE_next_ge B nm optr ocur b (compXE B nm optr ocur a n).next
  have hda : DeclsDone C.N (compXE B nm optr ocur a n).decls s.env := fun d hd => hdone d (by simp [hd])
  have hdb : DeclsDone C.N (compXE B nm optr ocur b (compXE B nm optr ocur a n).next).decls s.env := fun d hd => hdone d (by simp [hd])
  obtain ⟨s1, hex1, hr1, hv1, hf1⟩ := speca hda
  have hdb1 : DeclsDone C.N (compXE B nm optr ocur b (compXE B nm optr ocur a n).next).decls s1.env :=
    hdb.transport (compXE_decls B nm optr ocur b _) (fun y hy => hf1 y (by
      rintro (h | h)
      · exact inRange_disjoint hinj hy h
      · obtain ⟨j, _, _, hj⟩ := hy; exact hres j (hj ▸ h)))
  have hocur1 : evalE C.N s1.env ocur = .ok vo := by
    rw [evalE_ocur_frame C.N nm ocur n n _ s.env s1.env hofr (Nat.le_refl _) hf1]; exact hocur
  obtain ⟨s2, hex2, hr2, hv2, hf2⟩ := specb s1 hocur1 hdb1
  refine ⟨s2, ?_, by rw [hr2, hr1], ?_, hv2, ?_⟩
  · rw [execs_append, hex1]; exact hex2
  · rw [← hv1]
    apply evalE_congr
    intro x hx
    apply hf2
    rcases compXE_val_vars B nm optr ocur a n x hx with hxo | hxr
    · rintro (⟨j, hj1, _, hj3⟩ | h)
      · exact (hofr x hxo).1 j (by omega) hj3
      · exact (hofr x hxo).2 h
    · rintro (h | h)
      · exact inRange_disjoint hinj h hxr
      · obtain ⟨j, _, _, hj⟩ := hxr; exact hres j (hj ▸ h)
  · intro y hy
    rw [hf2 y (not_touch_sub hy h1 (Nat.le_refl _)), hf1 y (not_touch_sub hy (Nat.le_refl _) h2)]

/-- **expressions over the outer element with captured aggregates** — in every state in which the declarations are
done (`DeclsDone`: handle variables declared, accumulators at their initial value) and the outer element expression
evaluates to `vo`, executing the emitted statements (retrieval blocks and inner loops) terminates in a state in which the
emitted value expression evaluates to EXACTLY what the query expression denotes with the outer parameter bound to
`vo`; only the fragment's own fresh names and `result` are touched; the value has the statically computed C++ type. -/
theorem compXE_correct (C : Ctx D) (QC : QCtx D) (hN : QC.N = C.N) (hev : QC.ev = C.ev)
    (B : Backend) (hB : BackendBase B) (nm : Nat → String)
    (hinj : ∀ i j, nm i = nm j → i = j) (hres : ∀ j, nm j ≠ "result")
    (hcollT : ∀ name, B.collType name = QC.collType name)
    (optr : Bool) (ocur : CExpr) (vo : Val D) (ρ : LEnv D) :
    ∀ (e : XE) (n : Nat) (s : St D) (v : Val D), TokXE B nm C optr ocur e n →
      (∀ y ∈ vars ocur, (∀ j, n ≤ j → y ≠ nm j) ∧ y ≠ "result") → evalE C.N s.env ocur = .ok vo →
      DeclsDone C.N (compXE B nm optr ocur e n).decls s.env →
      wtXE e = true → XEHyp QC vo e →
      denote QC (("y", vo) :: ρ) (xeQ "e" "y" e) = .ok v →
      ∃ s', execs C (compXE B nm optr ocur e n).stmts s = .ok s' ∧ s'.rows = s.rows ∧
        evalE C.N s'.env (compXE B nm optr ocur e n).val = .ok v ∧ HasTy v (tyXE e) ∧
        (∀ y, ¬ Touch nm n (compXE B nm optr ocur e n).next y → s'.env y = s.env y)
  | .pure p, n, s, v, _, _, hocur, _, hwt, hhyp, hden => by
    simp only [wtXE] at hwt
    simp only [xeQ] at hden
    have hpe := pe_correct QC s.env ocur none optr vo "y" ρ (by rw [hN]; exact hocur) (by simp) p hwt (hhyp.1 p (by simp [puresXE]))
    refine ⟨s, by simp [compXE, execs], rfl, ?_, ?_, fun _ _ => rfl⟩
    · simp only [compXE]
      rw [← hN, show Ty.double = curT none from rfl, hpe.1]; exact hden
    · simpa [tyXE, curT] using hpe.2 v hden
  | .ccount c, n, s, v, htk, hofr, hocur, hdone, hwt, hhyp, hden => by
    simp only [wtXE] at hwt
    exact ccount_correct C QC hN hev B hB nm hinj hres hcollT optr ocur vo ρ c n htk s v hofr hocur hdone (wtCChain_steps hwt)
      (hhyp.2.1 c (by simp [cchainsXE])).1 (hhyp.2.1 c (by simp [cchainsXE])).2 hden
  | .csum c, n, s, v, htk, hofr, hocur, hdone, hwt, hhyp, hden => by
    simp only [wtXE, Bool.and_eq_true, cchainNumTy] at hwt
    cases hty : cchainTy none c.steps with
    | none => rw [hty] at hwt; simp at hwt
    | some t =>
      rw [hty] at hwt
      have htn : t.isNum = true := by
        by_cases h : t.isNum = true
        · exact h
        · simp [h] at hwt
      have := csum_correct C QC hN hev B hB nm hinj hres hcollT optr ocur vo ρ c n htk s v hofr hocur hdone (wtCChain_steps hwt.1) t hty htn
        (hhyp.2.1 c (by simp [cchainsXE])).1 (hhyp.2.1 c (by simp [cchainsXE])).2 (hhyp.2.2 c (by simp [csumsXE])) hden
      simpa [tyXE, hty] using this
  | .bin op a b, n, s, v, htk, hofr, hocur, hdone, hwt, hhyp, hden => by
    simp only [wtXE, Bool.and_eq_true] at hwt
    obtain ⟨⟨⟨hwa, hwb⟩, hna⟩, hnb⟩ := hwt
    simp only [xeQ, denote] at hden
    cases hda : denote QC (("y", vo) :: ρ) (xeQ "e" "y" a) with
    | error e => rw [hda] at hden; simp at hden
    | ok va =>
      rw [hda] at hden
      cases hdb : denote QC (("y", vo) :: ρ) (xeQ "e" "y" b) with
      | error e => rw [hdb] at hden; simp at hden
      | ok vb =>
        rw [hdb] at hden
        simp only [] at hden
        have hhypa : XEHyp QC vo a := ⟨fun p hp => hhyp.1 p (by simp [puresXE, hp]), fun c hc => hhyp.2.1 c (by simp [cchainsXE, hc]), fun c hc => hhyp.2.2 c (by simp [csumsXE, hc])⟩
        have hhypb : XEHyp QC vo b := ⟨fun p hp => hhyp.1 p (by simp [puresXE, hp]), fun c hc => hhyp.2.1 c (by simp [cchainsXE, hc]), fun c hc => hhyp.2.2 c (by simp [csumsXE, hc])⟩
        have h1n := compXE_next_ge B nm optr ocur a n
        have hofrb : ∀ y ∈ vars ocur, (∀ j, (compXE B nm optr ocur a n).next ≤ j → y ≠ nm j) ∧ y ≠ "result" :=
          fun y hy => ⟨fun j hj => (hofr y hy).1 j (by omega), (hofr y hy).2⟩
        -- typing of the two operand values (from the induction hypotheses)
        have hdone' : DeclsDone C.N ((compXE B nm optr ocur a n).decls ++ (compXE B nm optr ocur b (compXE B nm optr ocur a n).next).decls) s.env := by
          simpa [compXE] using hdone
        have hta : HasTy va (tyXE a) := by
          obtain ⟨_, _, _, _, h, _⟩ := compXE_correct C QC hN hev B hB nm hinj hres hcollT optr ocur vo ρ a n s va htk.1 hofr hocur
            (fun d hd => hdone' d (by simp [hd])) hwa hhypa hda
          exact h
        have htb : HasTy vb (tyXE b) := by
          obtain ⟨_, _, _, _, h, _⟩ := compXE_correct C QC hN hev B hB nm hinj hres hcollT optr ocur vo ρ b (compXE B nm optr ocur a n).next s vb htk.2 hofrb hocur
            (fun d hd => hdone' d (by simp [hd])) hwb hhypb hdb
          exact h
        obtain ⟨s2, hex, hrows, hva, hvb, hfr⟩ := compXE_seq C B nm hinj hres optr ocur vo a b n s va vb hofr hocur hdone'
          (fun hd => by
            obtain ⟨s1, h1, h2, h3, _, h5⟩ := compXE_correct C QC hN hev B hB nm hinj hres hcollT optr ocur vo ρ a n s va htk.1 hofr hocur hd hwa hhypa hda
            exact ⟨s1, h1, h2, h3, h5⟩)
          (fun s1 hc1 hd => by
            obtain ⟨s2, h1, h2, h3, _, h5⟩ := compXE_correct C QC hN hev B hB nm hinj hres hcollT optr ocur vo ρ b _ s1 vb htk.2 hofrb hc1 hd hwb hhypb hdb
            exact ⟨s2, h1, h2, h3, h5⟩)
        refine ⟨s2, by simpa [compXE] using hex, hrows, ?_, ?_, by simpa [compXE] using hfr⟩
        · -- the value
          by_cases hdiv : op = .div
          · subst hdiv
            have hd := div_num C.N va vb _ _ hta htb hna hnb
            rw [hN] at hden
            simp only [AOp.str] at hden
            rw [← hden, ← hd.1]
            simp only [compXE]
            by_cases hj : (tyXE a).join (tyXE b) = .int
            · simp only [hj, and_self, if_true]
              rw [evalE_bin_arith _ _ _ (by simp) (by simp)]
              simp only [evalE, hva, hvb]
              cases castTo C.N "double" va <;> rfl
            · simp only [hj, and_false, if_false]
              rw [evalE_bin_arith _ _ _ (by simp [AOp.str]) (by simp [AOp.str])]
              simp [hva, hvb, AOp.str]
          · have hne : ¬ (op = .div ∧ (tyXE a).join (tyXE b) = .int) := fun h => hdiv h.1
            have := arith_num C.N op hdiv va vb _ _ hta htb hna hnb
            rw [hN] at hden
            simp only [compXE, hne, if_false]
            rw [evalE_bin_arith _ _ _ (aop_not_logic op).1 (aop_not_logic op).2]
            simp only [hva, hvb]
            rw [this.1]; exact hden
        · by_cases hdiv : op = .div
          · subst hdiv
            rw [hN] at hden
            simpa [tyXE] using (div_num C.N va vb _ _ hta htb hna hnb).2 v (by simpa [AOp.str] using hden)
          · have hty' : tyXE (.bin op a b) = (tyXE a).join (tyXE b) := by cases op <;> simp [tyXE] at hdiv ⊢
            rw [hty']
            have := arith_num C.N op hdiv va vb _ _ hta htb hna hnb
            rw [hN] at hden
            exact this.2 v (by rw [this.1]; exact hden)
  | .cmp op a b, n, s, v, htk, hofr, hocur, hdone, hwt, hhyp, hden => by
    simp only [wtXE, Bool.and_eq_true] at hwt
    obtain ⟨⟨⟨hwa, hwb⟩, hna⟩, hnb⟩ := hwt
    simp only [xeQ, denote] at hden
    cases hda : denote QC (("y", vo) :: ρ) (xeQ "e" "y" a) with
    | error e => rw [hda] at hden; simp at hden
    | ok va =>
      rw [hda] at hden
      cases hdb : denote QC (("y", vo) :: ρ) (xeQ "e" "y" b) with
      | error e => rw [hdb] at hden; simp at hden
      | ok vb =>
        rw [hdb] at hden
        simp only [] at hden
        have hhypa : XEHyp QC vo a := ⟨fun p hp => hhyp.1 p (by simp [puresXE, hp]), fun c hc => hhyp.2.1 c (by simp [cchainsXE, hc]), fun c hc => hhyp.2.2 c (by simp [csumsXE, hc])⟩
        have hhypb : XEHyp QC vo b := ⟨fun p hp => hhyp.1 p (by simp [puresXE, hp]), fun c hc => hhyp.2.1 c (by simp [cchainsXE, hc]), fun c hc => hhyp.2.2 c (by simp [csumsXE, hc])⟩
        have h1n := compXE_next_ge B nm optr ocur a n
        have hofrb : ∀ y ∈ vars ocur, (∀ j, (compXE B nm optr ocur a n).next ≤ j → y ≠ nm j) ∧ y ≠ "result" :=
          fun y hy => ⟨fun j hj => (hofr y hy).1 j (by omega), (hofr y hy).2⟩
        have hdone' : DeclsDone C.N ((compXE B nm optr ocur a n).decls ++ (compXE B nm optr ocur b (compXE B nm optr ocur a n).next).decls) s.env := by
          simpa [compXE] using hdone
        have hta : HasTy va (tyXE a) := by
          obtain ⟨_, _, _, _, h, _⟩ := compXE_correct C QC hN hev B hB nm hinj hres hcollT optr ocur vo ρ a n s va htk.1 hofr hocur
            (fun d hd => hdone' d (by simp [hd])) hwa hhypa hda
          exact h
        have htb : HasTy vb (tyXE b) := by
          obtain ⟨_, _, _, _, h, _⟩ := compXE_correct C QC hN hev B hB nm hinj hres hcollT optr ocur vo ρ b (compXE B nm optr ocur a n).next s vb htk.2 hofrb hocur
            (fun d hd => hdone' d (by simp [hd])) hwb hhypb hdb
          exact h
        obtain ⟨s2, hex, hrows, hva, hvb, hfr⟩ := compXE_seq C B nm hinj hres optr ocur vo a b n s va vb hofr hocur hdone'
          (fun hd => by
            obtain ⟨s1, h1, h2, h3, _, h5⟩ := compXE_correct C QC hN hev B hB nm hinj hres hcollT optr ocur vo ρ a n s va htk.1 hofr hocur hd hwa hhypa hda
            exact ⟨s1, h1, h2, h3, h5⟩)
          (fun s1 hc1 hd => by
            obtain ⟨s2, h1, h2, h3, _, h5⟩ := compXE_correct C QC hN hev B hB nm hinj hres hcollT optr ocur vo ρ b _ s1 vb htk.2 hofrb hc1 hd hwb hhypb hdb
            exact ⟨s2, h1, h2, h3, h5⟩)
        rw [hN] at hden
        refine ⟨s2, by simpa [compXE] using hex, hrows, ?_, ?_, by simpa [compXE] using hfr⟩
        · simp only [compXE]
          rw [evalE_bin_arith _ _ _ (cop_not_logic op).1 (cop_not_logic op).2]
          simp only [hva, hvb]; exact hden
        · simpa [tyXE] using cmp_num C.N op va vb _ _ hta htb hna hnb v hden
  | .neg a, n, s, v, htk, hofr, hocur, hdone, hwt, hhyp, hden => by
    simp only [wtXE, Bool.and_eq_true] at hwt
    simp only [xeQ, denote] at hden
    cases hda : denote QC (("y", vo) :: ρ) (xeQ "e" "y" a) with
    | error e => rw [hda] at hden; simp at hden
    | ok va =>
      rw [hda, hN] at hden
      simp only [] at hden
      obtain ⟨s1, h1, h2, h3, h4, h5⟩ := compXE_correct C QC hN hev B hB nm hinj hres hcollT optr ocur vo ρ a n s va htk hofr hocur
        (by simpa [compXE] using hdone) hwt.1
        ⟨fun p hp => hhyp.1 p (by simpa [puresXE] using hp), fun c hc => hhyp.2.1 c (by simpa [cchainsXE] using hc),
         fun c hc => hhyp.2.2 c (by simpa [csumsXE] using hc)⟩ hda
      refine ⟨s1, by simpa [compXE] using h1, h2, by simp [compXE, evalE, h3, hden], ?_, by simpa [compXE] using h5⟩
      simp only [tyXE]
      rcases hasTy_num h4 hwt.2 with ⟨k, rfl, ht⟩ | ⟨y, rfl, ht⟩
      · simp [unop] at hden; subst hden; simp [ht, HasTy]
      · simp [unop] at hden; subst hden; rcases ht with h | h <;> simp [h, HasTy]
  | .not a, n, s, v, htk, hofr, hocur, hdone, hwt, hhyp, hden => by
    simp only [wtXE, Bool.and_eq_true, beq_iff_eq] at hwt
    simp only [xeQ, denote] at hden
    cases hda : denote QC (("y", vo) :: ρ) (xeQ "e" "y" a) with
    | error e => rw [hda] at hden; simp at hden
    | ok va =>
      rw [hda, hN] at hden
      simp only [] at hden
      obtain ⟨s1, h1, h2, h3, h4, h5⟩ := compXE_correct C QC hN hev B hB nm hinj hres hcollT optr ocur vo ρ a n s va htk hofr hocur
        (by simpa [compXE] using hdone) hwt.1
        ⟨fun p hp => hhyp.1 p (by simpa [puresXE] using hp), fun c hc => hhyp.2.1 c (by simpa [cchainsXE] using hc),
         fun c hc => hhyp.2.2 c (by simpa [csumsXE] using hc)⟩ hda
      refine ⟨s1, by simpa [compXE] using h1, h2, by simp [compXE, evalE, h3, hden], ?_, by simpa [compXE] using h5⟩
      simp only [tyXE]
      rw [hwt.2] at h4
      obtain ⟨b, rfl⟩ := hasTy_bool h4
      simp [unop, asBool] at hden; subst hden; simp [HasTy]


/-! ## block level: the declarations are executed, the accumulators restart -/

/-- **the block of an expression with captured aggregates** — from ANY state in which the outer element expression
evaluates to `vo` (whatever the handle variables and accumulators hold — e.g. what the previous outer element left in
them): the block's text, declarations first (hoisted), then the retrievals and inner loops, computes the query's value. -/
theorem compXE_block_correct (C : Ctx D) (QC : QCtx D) (hN : QC.N = C.N) (hev : QC.ev = C.ev)
    (B : Backend) (hB : BackendBase B) (nm : Nat → String)
    (hinj : ∀ i j, nm i = nm j → i = j) (hres : ∀ j, nm j ≠ "result")
    (hcollT : ∀ name, B.collType name = QC.collType name)
    (optr : Bool) (ocur : CExpr) (vo : Val D) (ρ : LEnv D)
    (e : XE) (n : Nat) (s : St D) (v : Val D) (htk : TokXE B nm C optr ocur e n)
    (hofr : ∀ y ∈ vars ocur, (∀ j, n ≤ j → y ≠ nm j) ∧ y ≠ "result") (hocur : evalE C.N s.env ocur = .ok vo)
    (hwt : wtXE e = true) (hhyp : XEHyp QC vo e)
    (hden : denote QC (("y", vo) :: ρ) (xeQ "e" "y" e) = .ok v) :
    ∃ s', execs C ((compXE B nm optr ocur e n).decls ++ (compXE B nm optr ocur e n).stmts) s = .ok s' ∧ s'.rows = s.rows ∧
      evalE C.N s'.env (compXE B nm optr ocur e n).val = .ok v ∧ HasTy v (tyXE e) ∧
      (∀ y, ¬ Touch nm n (compXE B nm optr ocur e n).next y → s'.env y = s.env y) := by
  obtain ⟨hsimple, hnodup⟩ := compXE_declsOK C.N B hB nm hinj optr ocur e n
  obtain ⟨sD, hexD, hrD, hdone, hfrD⟩ := exec_decls C (compXE B nm optr ocur e n).decls s hsimple hnodup
  have hfrD' : ∀ y, ¬ Touch nm n (compXE B nm optr ocur e n).next y → sD.env y = s.env y :=
    fun y hy => hfrD y (fun hm => hy (Or.inl (declsIn_names (compXE_decls B nm optr ocur e n) y hm)))
  have hocurD : evalE C.N sD.env ocur = .ok vo := by
    rw [evalE_ocur_frame C.N nm ocur n n _ s.env sD.env hofr (Nat.le_refl _) hfrD']; exact hocur
  obtain ⟨s', hex, hr, hv, hty, hfr'⟩ := compXE_correct C QC hN hev B hB nm hinj hres hcollT optr ocur vo ρ e n sD v htk hofr hocurD hdone hwt hhyp hden
  refine ⟨s', by rw [execs_append, hexD]; exact hex, by rw [hr, hrD], hv, hty, fun y hy => ?_⟩
  rw [hfr' y hy, hfrD' y hy]

end FaxVerif.Gen
