/-
Gen — END TO END for element-level rows whose columns nest loops to ANY depth:
    ds.SelectMany(e → e.Coll(bank).Where*).Select(r → {name: DE, …})
`compDEs_correct` (the columns of a row), `rowKD_correct` (one row: the accumulators' declarations, the loops, the
branch assignments, the Fill), `deepElemRows_correct_post` (the package `compileD` emits writes exactly the rows
the query denotes, one per kept outer element, and leaves the column variables declared). Gen/NestedExprCorrect.lean
(`compNEs_correct`, `rowKN_correct`) and Gen/NestedElemRowsCorrect.lean re-instantiated for `DE`.
-/
import FaxVerif.Gen.DeepRowsCorrect
namespace FaxVerif.Gen
open FaxVerif.Cpp FaxVerif.Linq
variable {D : Type}

/-- **the columns of a row** — every column's loops in order; afterwards every column's value expression
evaluates to the value the query's column expression denotes -/
theorem compDEs_correct (C : Ctx D) (QC : QCtx D) (hN : QC.N = C.N) (nm : Nat → String)
    (hinj : ∀ i j, nm i = nm j → i = j) (ptr : Bool) (cur : CExpr) (v : Val D) (x : String) (ρ : LEnv D) :
    ∀ (es : List DE) (n : Nat) (s : St D) (row : List (Val D)),
      (∀ y ∈ vars cur, ∀ j, n ≤ j → y ≠ nm j) → evalE C.N s.env cur = .ok v →
      DeclsDone C.N (compDEs nm ptr cur es n).decls s.env →
      (∀ e ∈ es, wtDE none e = true) → (∀ e ∈ es, DEHyp QC e 0 x ρ v) →
      denotes QC ((x, v) :: ρ) (es.map (deQ 0 x)) = .ok row →
      ∃ s', execs C (compDEs nm ptr cur es n).stmts s = .ok s' ∧ s'.rows = s.rows ∧
        evalsTo C.N s'.env (compDEs nm ptr cur es n).vals row ∧
        (∀ y, ¬ InRange nm n (compDEs nm ptr cur es n).next y → s'.env y = s.env y)
  | [], n, s, row, _, _, _, _, _, hrow => by
    simp only [List.map_nil, denotes, Except.ok.injEq] at hrow; subst hrow
    exact ⟨s, by simp [compDEs, execs], rfl, by simp [compDEs, evalsTo], fun _ _ => rfl⟩
  | e :: rest, n, s, row, hfr, hcur, hdone, hwt, hhyp, hrow => by
    simp only [List.map_cons, denotes] at hrow
    cases h1 : denote QC ((x, v) :: ρ) (deQ 0 x e) with
    | error f => rw [h1] at hrow; simp at hrow
    | ok w =>
      rw [h1] at hrow; simp only [] at hrow
      cases h2 : denotes QC ((x, v) :: ρ) (rest.map (deQ 0 x)) with
      | error f => rw [h2] at hrow; simp at hrow
      | ok ws =>
        rw [h2] at hrow; simp only [Except.ok.injEq] at hrow; subst hrow
        have hsh := compDE_shape C.N nm hinj e ptr none cur n
        have hk := hsh.ge
        obtain ⟨hk2, hrdecls, _, _, _, _⟩ := compDEs_shape C.N nm hinj ptr cur rest (compDE nm ptr none cur e n).next
        simp only [compDEs] at hdone ⊢
        obtain ⟨s1, hex1, hr1, ⟨w', hv1, hw', _⟩, hf1⟩ := compDE_correct C QC hN nm hinj e ptr none cur v 0 x ρ n w hfr
          (by intro t ht; cases ht) (hwt e (by simp)) (hhyp e (by simp)) h1 s hcur (fun d hd => hdone d (by simp [hd]))
        subst hw'
        have hcur1 : evalE C.N s1.env cur = .ok v := by
          rw [evalE_cur_frame C.N nm cur n n _ s.env s1.env hfr (Nat.le_refl _) hf1]; exact hcur
        have hdone1 : DeclsDone C.N (compDEs nm ptr cur rest (compDE nm ptr none cur e n).next).decls s1.env :=
          DeclsDone.transport (fun d hd => hdone d (by simp [hd])) hrdecls
            (fun y hy => hf1 y (inRange_disjoint hinj hy))
        obtain ⟨s', hex, hr, hvs, hf⟩ := compDEs_correct C QC hN nm hinj ptr cur v x ρ rest _ s1 ws
          (fun y hy j hj => hfr y hy j (by omega)) hcur1 hdone1
          (fun e' he' => hwt e' (by simp [he'])) (fun e' he' => hhyp e' (by simp [he'])) h2
        refine ⟨s', by rw [execs_append, hex1]; exact hex, by rw [hr, hr1], ⟨?_, hvs⟩, fun y hy => ?_⟩
        · rw [← hv1]
          apply evalE_congr
          intro y hy
          apply hf
          rcases hsh.valVars y hy with hc | hr'
          · rintro ⟨j, hj1, _, hj3⟩; exact hfr y hc j (by omega) hj3
          · exact fun h => inRange_disjoint hinj h hr'
        · rw [hf y (fun h => hy (h.mono hk (Nat.le_refl _))), hf1 y (fun h => hy (h.mono (Nat.le_refl _) hk2))]

/-- **one row of expressions nested to any depth** — the accumulators' declarations, the columns' loops, the
branch assignments, the fill: from ANY state in which the current-value expression evaluates to the outer element
and the column variables are declared, exactly one row — the values the column expressions denote — is appended;
the column variables stay declared. -/
theorem rowKD_correct (C : Ctx D) (QC : QCtx D) (hN : QC.N = C.N) (B : Backend) (nm cn : Nat → String)
    (hinj : ∀ i j, nm i = nm j → i = j) (hcinj : ∀ i j, cn i = cn j → i = j) (hdisj : ∀ j k, nm j ≠ cn k)
    (es : List DE) (cur : CExpr) (ty : Option Ty) (v : Val D) (x : String) (ρ : LEnv D) (n : Nat)
    (hcols : C.cols = colNames cn es.length 0)
    (hcv : ∀ y ∈ vars cur, (∀ j, n ≤ j → y ≠ nm j) ∧ ∀ k, y ≠ cn k)
    (hwt : ∀ e ∈ es, wtDE none e = true) (hhyp : ∀ e ∈ es, DEHyp QC e 0 x ρ v)
    (row : List (Val D)) (hrow : denotes QC ((x, v) :: ρ) (es.map (deQ 0 x)) = .ok row)
    (s : St D) (hcur : evalE C.N s.env cur = .ok v)
    (hdecl : ∀ k, k < es.length → (s.env (cn k)).isSome = true) :
    ∃ s', execs C (rowKD B nm cn es cur ty n).1 s = .ok s' ∧ s'.rows = s.rows ++ [row] ∧
      (∀ k, k < es.length → (s'.env (cn k)).isSome = true) := by
  have hfr0 : ∀ y ∈ vars cur, ∀ j, n ≤ j → y ≠ nm j := fun y hy => (hcv y hy).1
  obtain ⟨_, hdin, hsimple, hnodup, hvv, hlen⟩ := compDEs_shape C.N nm hinj (B.elemPtr && ty.isNone) cur es n
  obtain ⟨sD, hexD, hrD, hdone, hfrD⟩ := exec_decls C (compDEs nm (B.elemPtr && ty.isNone) cur es n).decls s hsimple hnodup
  have hfrD' : ∀ y, ¬ InRange nm n (compDEs nm (B.elemPtr && ty.isNone) cur es n).next y → sD.env y = s.env y :=
    fun y hy => hfrD y (fun hm => hy (declsIn_names hdin y hm))
  have hcurD : evalE C.N sD.env cur = .ok v := by
    rw [evalE_cur_frame C.N nm cur n n _ s.env sD.env hfr0 (Nat.le_refl _) hfrD']; exact hcur
  obtain ⟨s1, hex1, hr1, hvals, hf1⟩ := compDEs_correct C QC hN nm hinj (B.elemPtr && ty.isNone) cur v x ρ es n sD row
    hfr0 hcurD hdone hwt hhyp hrow
  have hcn1 : ∀ k, s1.env (cn k) = s.env (cn k) := by
    intro k
    have hnr : ¬ InRange nm n (compDEs nm (B.elemPtr && ty.isNone) cur es n).next (cn k) := by
      rintro ⟨j, _, _, hj⟩; exact hdisj j k hj.symm
    rw [hf1 _ hnr, hfrD' _ hnr]
  obtain ⟨σ2, hex2, hread, _, hmo2⟩ := setsOf_correct C cn hcinj (compDEs nm (B.elemPtr && ty.isNone) cur es n).vals row 0 s1.env s1.rows hvals
    (by
      intro e he y hy k
      rcases hvv e he y hy with h | ⟨j, _, _, hj⟩
      · exact (hcv y h).2 k
      · rw [hj]; exact hdisj j k)
    (by
      intro k _ hk
      rw [hcn1 k]
      exact hdecl k (by rw [hlen] at hk; omega))
  refine ⟨⟨σ2, s.rows ++ [row]⟩, ?_, rfl, fun k hk => hmo2 _ (by rw [hcn1 k]; exact hdecl k hk)⟩
  show execs C ((compDEs nm (B.elemPtr && ty.isNone) cur es n).decls ++ (compDEs nm (B.elemPtr && ty.isNone) cur es n).stmts ++
    setsOf cn (compDEs nm (B.elemPtr && ty.isNone) cur es n).vals 0 ++ [.fill (B.fillTree B.treeName)]) s = _
  rw [execs_append, execs_append, execs_append, hexD]
  simp only []
  rw [hex1]
  simp only []
  rw [show s1 = ⟨s1.env, s1.rows⟩ from rfl, hex2]
  simp only [execs, exec, hcols]
  rw [← hlen, hread, hr1, hrD]

theorem colVarsD_names (cn : Nat → String) : ∀ (es : List DE) (idx : Nat),
    (colVarsD cn es idx).map (·.2) = colNames cn es.length idx
  | [], _ => rfl
  | e :: rest, idx => by simp [colVarsD, colNames, colVarsD_names cn rest (idx + 1)]

/-- per-event side conditions of element-level rows -/
def DElemHyp (QC : QCtx D) (c : Chain) (cols : List (String × DE)) : Prop :=
  wtOuter c = true ∧ (∀ p ∈ cols, wtDE none p.2 = true) ∧
  (∀ cty l, QC.ev.find c.bank = some (cty, .vec l) →
    ∀ v ∈ l, MethTyped v (methsSteps c.steps) ∧ ∀ p ∈ cols, DEHyp QC p.2 0 "r" [] v)

/-- **C01 (element-level rows of expressions nested to any depth)** — if the query denotes `rows` on the event, the
package the translator model emits writes exactly `rows`, and the class state it leaves behind again has the
column variables declared (the precondition of the next event). -/
theorem deepElemRows_correct_post (B : Backend) (hB : BackendBase B) (nm cn : Nat → String)
    (hinj : ∀ i j, nm i = nm j → i = j) (hcinj : ∀ i j, cn i = cn j → i = j)
    (hres : ∀ j, nm j ≠ "result") (hcres : ∀ k, cn k ≠ "result") (hdisj : ∀ j k, nm j ≠ cn k)
    (QC : QCtx D) (hcollT : ∀ name, B.collType name = QC.collType name)
    (c : Chain) (cols : List (String × DE)) (hhyp : DElemHyp QC c cols)
    (σc : Env D) (hσ : ∀ k, k < cols.length → (σc (cn k)).isSome = true)
    (rows : List (List (Val D)))
    (hden : denoteRows QC (DQ.toQuery (.elemRows c cols)) = .ok rows) :
    ∃ σ', runEvent (compileD B nm cn (.elemRows c cols)) QC.N σc QC.ev = .ok (rows, σ') ∧
      ∀ k, k < cols.length → (σ' (cn k)).isSome = true := by
  obtain ⟨hwo, hwtc, hmt⟩ := hhyp
  let es := cols.map (·.2)
  let qs := es.map (deQ 0 "r")
  have hqs : (cols.map fun p => deQ 0 "r" p.2) = qs := by simp [qs, es, List.map_map]
  have hden' : denoteRows QC (.select (.selectMany .ds "e" (chainQ "e" c)) "r" (.dict (cols.map (·.1)) qs)) = .ok rows := by
    rw [← hqs]; exact hden
  obtain ⟨ws, hchain, hrows⟩ := selectManyRows_denote QC c "r" (cols.map (·.1)) qs (by simp [qs, es]) rows hden'
  obtain ⟨cty, l, hct, hfind, hel⟩ := chainQ_ok QC _ "e" c ws hchain
  have hcoll : B.collType c.coll = some cty := by rw [hcollT]; exact hct
  let mlen := cols.length
  let m := outerNext B nm c 0
  let K : CExpr → Option Ty → List Stmt := fun cur ty => (rowKD B nm cn es cur ty m).1
  let P := compileD B nm cn (.elemRows c cols)
  let C := P.ctx QC.N QC.ev
  have heslen : es.length = mlen := by simp [es, mlen]
  have hCcols : C.cols = colNames cn es.length 0 := by
    simp only [C, Package.ctx, P, compileD]
    rw [zip_map_snd _ _ (by simp [colVarsD_names, colNames_length])]
    rw [colVarsD_names]
  have hbody : P.body = .block ((compChain B nm c 0 K).decls ++ (compChain B nm c 0 K).stmts) := rfl
  let s1 : St D := ⟨σc.declare (nm 0), []⟩
  have hdecl : execs C (compChain B nm c 0 K).decls ⟨σc, []⟩ = .ok s1 := by
    simp [compChain, execs, exec, hB.handleNotVec, s1]
  let Pinv : St D → List (List (Val D)) → Prop := fun s acc => s.rows = acc ∧ ∀ k, k < mlen → (s.env (cn k)).isSome = true
  let g : List (List (Val D)) → Val D → Except Fault (List (List (Val D))) := fun a w =>
    match denotes QC [("r", w)] qs with
    | .ok row => .ok (a ++ [row])
    | .error e => .error e
  have hmt' := hmt cty l hfind
  have htok : TokChain B nm C c 0 := tokChain_of_tokens B nm c 0 K C rfl
  have hm3 : 0 + 3 ≤ m := outerNext_ge B nm c 0
  have htynone := wtOuter_ty hwo B.elemPtr (.var (nm (0 + 1)))
  obtain ⟨s', hex, hP'⟩ := compChain_correct_tok (β := List (List (Val D))) C QC rfl B hB nm hinj hres c 0 htok K cty l ws hcoll hfind
    (wtOuter_steps hwo) (fun v hv => (hmt' v hv).1) Pinv g (fun v => ∀ p ∈ cols, DEHyp QC p.2 0 "r" [] v) (fun v hv => (hmt' v hv).2)
    (by
      intro s t acc hPs hr hfr
      refine ⟨by rw [hr]; exact hPs.1, fun k hk => ?_⟩
      rw [hfr (cn k) (by
        rintro (⟨j, _, _, hj⟩ | hj)
        · exact hdisj j k hj.symm
        · exact hcres k hj)]
      exact hPs.2 k hk)
    (by
      intro s acc acc' w v hPs hg hev _ hobj
      obtain ⟨rfl, hq⟩ := hobj htynone
      simp only [g] at hg
      cases hrow : denotes QC [("r", w)] qs with
      | error e => rw [hrow] at hg; simp at hg
      | ok row =>
        rw [hrow] at hg; simp only [Except.ok.injEq] at hg; subst hg
        obtain ⟨s2, hex2, hrows2, hdecl2⟩ := rowKD_correct C QC rfl B nm cn hinj hcinj hdisj es
          (stepConds B.elemPtr (.var (nm (0 + 1))) none c.steps).2.1
          (stepConds B.elemPtr (.var (nm (0 + 1))) none c.steps).2.2 w "r" [] m hCcols
          (by
            intro y hy
            have := outerCur_vars B nm c 0 y hy
            rw [this]
            exact ⟨fun j hj e => by have := hinj _ _ e; omega, fun k => hdisj _ k⟩)
          (by
            intro e he
            simp only [es, List.mem_map] at he
            obtain ⟨p, hp, rfl⟩ := he
            exact hwtc p hp)
          (by
            intro e he
            simp only [es, List.mem_map] at he
            obtain ⟨p, hp, rfl⟩ := he
            exact hq p hp)
          row hrow s hev (by intro k hk; exact hPs.2 k (by rw [← heslen]; exact hk))
        refine ⟨s2, hex2, by rw [hrows2, hPs.1], fun k hk => hdecl2 k (by rw [heslen]; exact hk)⟩)
    s1 [] ([] ++ rows) (by simp [s1, Env.declare]) hel (foldG_rowsQ QC "r" qs ws [] rows hrows)
    ⟨rfl, fun k hk => by
      have : cn k ≠ nm 0 := fun e => hdisj 0 k e.symm
      simp only [s1, Env.declare, this, if_false]; exact hσ k hk⟩
  refine ⟨keepClass P.classVars s'.env, ?_, ?_⟩
  · simp only [runEvent]
    rw [show P.body = .block ((compChain B nm c 0 K).decls ++ (compChain B nm c 0 K).stmts) from hbody]
    simp only [exec]
    rw [execs_append, hdecl]
    simp only []
    rw [hex]
    simp only [hP'.1, List.nil_append]
    rfl
  · intro k hk
    have hmem : cn k ∈ P.classVars.map (·.2) := by
      have h1 : cn k ∈ (colVarsD cn es 0).map (·.2) := by
        rw [colVarsD_names]; exact mem_colNames cn _ 0 k (Nat.zero_le _) (by rw [heslen]; simpa using hk)
      simp only [P, compileD, List.map_append, List.mem_append]
      exact Or.inr h1
    have hany : P.classVars.any (fun p => decide (p.2 = cn k)) = true := by
      obtain ⟨p, hp, hpe⟩ := List.mem_map.1 hmem
      simp only [List.any_eq_true, decide_eq_true_eq]
      exact ⟨p, hp, hpe⟩
    simp only [keepClass, hany, if_true]
    exact hP'.2 k hk

end FaxVerif.Gen
