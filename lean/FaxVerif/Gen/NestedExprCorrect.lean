/-
Gen — correctness of element-level expressions with inner aggregates (`compNE`):
  * `icount_correct` / `isum_correct`: the accumulator declared (with initialiser) at the top of the
    block that contains the inner loop, then the inner loop, compute `it.m().….Count()` / `.Sum()`;
  * `compNE_correct`: all expressions — pure parts, aggregates, arithmetic and comparisons over them;
  * `compNE_block_correct`: the same at block level — the declarations are EXECUTED first (they are
    hoisted to the top of the outer loop's body), so every accumulator restarts from its initial value
    whatever the state left by the previous outer element;
  * `compNEs_correct`: the columns of a row.
-/
import FaxVerif.Gen.NestedLoopCorrect
import FaxVerif.Gen.LazyRowsCorrect
namespace FaxVerif.Gen
open FaxVerif.Cpp FaxVerif.Linq
variable {D : Type}

/-! ## side conditions -/

/-- A floating-point inner `Sum` ranges over at least one kept element of this outer element (for an
empty one the emitted accumulator holds 0.0 where Python's `sum([])` is the integer 0: equal numbers,
different values of the model — left to the numeric comparison of the tie stream). -/
def ISumNonEmpty (QC : QCtx D) (v : Val D) (ic : IChain) : Prop :=
  ∀ t, ichainTy ic = some t → t.isFloating = true →
    ∀ l ws, member v ic.meth [] = .ok (.vec l) → elemsSem QC ic.steps l = .ok ws → ws ≠ []

/-- what is assumed of the outer element `v` for the expression `e`: its accessors and the elements of
the collections its methods return are of the declared kinds; floating inner sums are non-empty -/
def NEHyp (QC : QCtx D) (v : Val D) (e : NE) : Prop :=
  (∀ p ∈ puresNE e, MethTyped v (methsPE p)) ∧ (∀ ic ∈ ichainsNE e, InnerTyped v ic) ∧
  (∀ ic ∈ isumsNE e, ISumNonEmpty QC v ic)

theorem NEHyp.bin_left {QC : QCtx D} {v : Val D} {op : AOp} {a b : NE} (h : NEHyp QC v (.bin op a b)) : NEHyp QC v a :=
  ⟨fun p hp => h.1 p (by simp [puresNE, hp]), fun c hc => h.2.1 c (by simp [ichainsNE, hc]),
   fun c hc => h.2.2 c (by simp [isumsNE, hc])⟩
theorem NEHyp.bin_right {QC : QCtx D} {v : Val D} {op : AOp} {a b : NE} (h : NEHyp QC v (.bin op a b)) : NEHyp QC v b :=
  ⟨fun p hp => h.1 p (by simp [puresNE, hp]), fun c hc => h.2.1 c (by simp [ichainsNE, hc]),
   fun c hc => h.2.2 c (by simp [isumsNE, hc])⟩
theorem NEHyp.cmp_left {QC : QCtx D} {v : Val D} {op : COp} {a b : NE} (h : NEHyp QC v (.cmp op a b)) : NEHyp QC v a :=
  ⟨fun p hp => h.1 p (by simp [puresNE, hp]), fun c hc => h.2.1 c (by simp [ichainsNE, hc]),
   fun c hc => h.2.2 c (by simp [isumsNE, hc])⟩
theorem NEHyp.cmp_right {QC : QCtx D} {v : Val D} {op : COp} {a b : NE} (h : NEHyp QC v (.cmp op a b)) : NEHyp QC v b :=
  ⟨fun p hp => h.1 p (by simp [puresNE, hp]), fun c hc => h.2.1 c (by simp [ichainsNE, hc]),
   fun c hc => h.2.2 c (by simp [isumsNE, hc])⟩
theorem NEHyp.neg {QC : QCtx D} {v : Val D} {a : NE} (h : NEHyp QC v (.neg a)) : NEHyp QC v a :=
  ⟨fun p hp => h.1 p (by simpa [puresNE] using hp), fun c hc => h.2.1 c (by simpa [ichainsNE] using hc),
   fun c hc => h.2.2 c (by simpa [isumsNE] using hc)⟩
theorem NEHyp.not {QC : QCtx D} {v : Val D} {a : NE} (h : NEHyp QC v (.not a)) : NEHyp QC v a :=
  ⟨fun p hp => h.1 p (by simpa [puresNE] using hp), fun c hc => h.2.1 c (by simpa [ichainsNE] using hc),
   fun c hc => h.2.2 c (by simpa [isumsNE] using hc)⟩

/-! ## shape of the fragments -/

theorem compNE_next_ge (nm : Nat → String) (ptr : Bool) (cur : CExpr) : ∀ (e : NE) (n : Nat), n ≤ (compNE nm ptr cur e n).next
  | .pure _, n => by simp [compNE]
  | .icount c, n => by
    have := innerLoop_next_ge nm cur ptr c (n + 1) (countK (nm n))
    simp only [compNE]; omega
  | .isum c, n => by
    have := innerLoop_next_ge nm cur ptr c (n + 1) (sumK (nm n))
    simp only [compNE]; omega
  | .bin _ a b, n => by
    have h1 := compNE_next_ge nm ptr cur a n
    have h2 := compNE_next_ge nm ptr cur b (compNE nm ptr cur a n).next
    simp only [compNE]; omega
  | .cmp _ a b, n => by
    have h1 := compNE_next_ge nm ptr cur a n
    have h2 := compNE_next_ge nm ptr cur b (compNE nm ptr cur a n).next
    simp only [compNE]; omega
  | .neg a, n => by simpa [compNE] using compNE_next_ge nm ptr cur a n
  | .not a, n => by simpa [compNE] using compNE_next_ge nm ptr cur a n

/-- the value expression mentions the current-value expression's variables and the fragment's own names only -/
theorem compNE_val_vars (nm : Nat → String) (ptr : Bool) (cur : CExpr) : ∀ (e : NE) (n : Nat),
    ∀ x ∈ vars (compNE nm ptr cur e n).val, x ∈ vars cur ∨ InRange nm n (compNE nm ptr cur e n).next x
  | .pure p, n, x, h => Or.inl (vars_compPE ptr cur .double p x (by simpa [compNE] using h))
  | .icount c, n, x, h => by
    have := innerLoop_next_ge nm cur ptr c (n + 1) (countK (nm n))
    simp only [compNE, vars, List.mem_singleton] at h ⊢
    exact Or.inr ⟨n, Nat.le_refl n, by omega, h⟩
  | .isum c, n, x, h => by
    have := innerLoop_next_ge nm cur ptr c (n + 1) (sumK (nm n))
    simp only [compNE, vars, List.mem_singleton] at h ⊢
    exact Or.inr ⟨n, Nat.le_refl n, by omega, h⟩
  | .bin op a b, n, x, h => by
    have ha := compNE_val_vars nm ptr cur a n
    have hb := compNE_val_vars nm ptr cur b (compNE nm ptr cur a n).next
    have h1 := compNE_next_ge nm ptr cur a n
    have h2 := compNE_next_ge nm ptr cur b (compNE nm ptr cur a n).next
    simp only [compNE] at h ⊢
    split at h <;> simp only [vars, List.mem_append] at h <;> rcases h with h | h
    all_goals first
      | exact (ha x h).imp id (fun r => r.mono (Nat.le_refl _) h2)
      | exact (hb x h).imp id (fun r => r.mono h1 (Nat.le_refl _))
  | .cmp op a b, n, x, h => by
    have ha := compNE_val_vars nm ptr cur a n
    have hb := compNE_val_vars nm ptr cur b (compNE nm ptr cur a n).next
    have h1 := compNE_next_ge nm ptr cur a n
    have h2 := compNE_next_ge nm ptr cur b (compNE nm ptr cur a n).next
    simp only [compNE, vars, List.mem_append] at h ⊢
    rcases h with h | h
    · exact (ha x h).imp id (fun r => r.mono (Nat.le_refl _) h2)
    · exact (hb x h).imp id (fun r => r.mono h1 (Nat.le_refl _))
  | .neg a, n, x, h => by simp only [compNE, vars] at h ⊢; exact compNE_val_vars nm ptr cur a n x h
  | .not a, n, x, h => by simp only [compNE, vars] at h ⊢; exact compNE_val_vars nm ptr cur a n x h

theorem compNE_decls (nm : Nat → String) (ptr : Bool) (cur : CExpr) : ∀ (e : NE) (n : Nat),
    DeclsIn nm n (compNE nm ptr cur e n).next (compNE nm ptr cur e n).decls
  | .pure _, n => by intro d hd; simp [compNE] at hd
  | .icount c, n => by
    have hn := innerLoop_next_ge nm cur ptr c (n + 1) (countK (nm n))
    intro d hd
    simp only [compNE, List.mem_singleton] at hd
    exact ⟨_, _, _, hd, n, Nat.le_refl n, by simp only [compNE]; omega, rfl⟩
  | .isum c, n => by
    have hn := innerLoop_next_ge nm cur ptr c (n + 1) (sumK (nm n))
    intro d hd
    simp only [compNE, List.mem_singleton] at hd
    exact ⟨_, _, _, hd, n, Nat.le_refl n, by simp only [compNE]; omega, rfl⟩
  | .bin _ a b, n => by
    have h1 := compNE_next_ge nm ptr cur a n
    have h2 := compNE_next_ge nm ptr cur b (compNE nm ptr cur a n).next
    simp only [compNE]
    exact ((compNE_decls nm ptr cur a n).mono (Nat.le_refl _) h2).append ((compNE_decls nm ptr cur b _).mono h1 (Nat.le_refl _))
  | .cmp _ a b, n => by
    have h1 := compNE_next_ge nm ptr cur a n
    have h2 := compNE_next_ge nm ptr cur b (compNE nm ptr cur a n).next
    simp only [compNE]
    exact ((compNE_decls nm ptr cur a n).mono (Nat.le_refl _) h2).append ((compNE_decls nm ptr cur b _).mono h1 (Nat.le_refl _))
  | .neg a, n => by simpa [compNE] using compNE_decls nm ptr cur a n
  | .not a, n => by simpa [compNE] using compNE_decls nm ptr cur a n

/-- every declaration is an accumulator initialised by a literal; the declared names are pairwise distinct -/
theorem compNE_declsOK (N : Num D) (nm : Nat → String) (hinj : ∀ i j, nm i = nm j → i = j) (ptr : Bool) (cur : CExpr) :
    ∀ (e : NE) (n : Nat),
    (∀ d ∈ (compNE nm ptr cur e n).decls, SimpleDecl N d) ∧ ((compNE nm ptr cur e n).decls.map declName).Nodup
  | .pure _, n => by simp [compNE]
  | .icount c, n => by
    simp only [compNE]
    refine ⟨fun d hd => ?_, by simp⟩
    simp only [List.mem_singleton] at hd; subst hd
    exact ⟨.int 0, .int 0, rfl, by simp [castTo]⟩
  | .isum c, n => by
    simp only [compNE]
    refine ⟨fun d hd => ?_, by simp⟩
    simp only [List.mem_singleton] at hd; subst hd
    obtain ⟨v', hv'⟩ := castTo_cpp_int0 N (Ty.join .int ((ichainTy c).getD .double))
    exact ⟨.int 0, v', rfl, hv'⟩
  | .bin _ a b, n => by
    have ha := compNE_declsOK N nm hinj ptr cur a n
    have hb := compNE_declsOK N nm hinj ptr cur b (compNE nm ptr cur a n).next
    simp only [compNE]
    refine ⟨fun d hd => ?_, ?_⟩
    · rcases List.mem_append.1 hd with h | h
      · exact ha.1 d h
      · exact hb.1 d h
    · rw [List.map_append]
      exact nodup_append_ranges hinj ha.2 hb.2 (declsIn_names (compNE_decls nm ptr cur a n)) (declsIn_names (compNE_decls nm ptr cur b _))
  | .cmp _ a b, n => by
    have ha := compNE_declsOK N nm hinj ptr cur a n
    have hb := compNE_declsOK N nm hinj ptr cur b (compNE nm ptr cur a n).next
    simp only [compNE]
    refine ⟨fun d hd => ?_, ?_⟩
    · rcases List.mem_append.1 hd with h | h
      · exact ha.1 d h
      · exact hb.1 d h
    · rw [List.map_append]
      exact nodup_append_ranges hinj ha.2 hb.2 (declsIn_names (compNE_decls nm ptr cur a n)) (declsIn_names (compNE_decls nm ptr cur b _))
  | .neg a, n => by simpa [compNE] using compNE_declsOK N nm hinj ptr cur a n
  | .not a, n => by simpa [compNE] using compNE_declsOK N nm hinj ptr cur a n

/-! ## Count and Sum of an inner chain -/

theorem wtIChain_steps {ic : IChain} (h : wtIChain ic = true) : wtSteps ic.elem ic.steps = true := by
  simp only [wtIChain, Bool.and_eq_true] at h; exact h.1

/-- **inner Count** -/
theorem icount_correct (C : Ctx D) (QC : QCtx D) (hN : QC.N = C.N) (nm : Nat → String)
    (hinj : ∀ i j, nm i = nm j → i = j) (ptr : Bool) (cur : CExpr) (v : Val D) (x : String) (ρ : LEnv D)
    (ic : IChain) (n : Nat) (s : St D) (w : Val D)
    (hcur : evalE C.N s.env cur = .ok v)
    (hdone : DeclsDone C.N (compNE nm ptr cur (.icount ic) n).decls s.env)
    (hwt : wtIChain ic = true) (hit : InnerTyped v ic)
    (hden : denote QC ((x, v) :: ρ) (neQ x (.icount ic)) = .ok w) :
    ∃ s', execs C (compNE nm ptr cur (.icount ic) n).stmts s = .ok s' ∧ s'.rows = s.rows ∧
      evalE C.N s'.env (compNE nm ptr cur (.icount ic) n).val = .ok w ∧ HasTy w .int ∧
      (∀ y, ¬ InRange nm n (compNE nm ptr cur (.icount ic) n).next y → s'.env y = s.env y) := by
  simp only [neQ, denote] at hden
  cases hc : denote QC ((x, v) :: ρ) (ichainQ x ic) with
  | error e => rw [hc] at hden; simp at hden
  | ok cv =>
    rw [hc] at hden
    cases cv with
    | vec ws =>
      simp only [Except.ok.injEq] at hden; subst hden
      obtain ⟨l, hmem, hel⟩ := ichainQ_ok QC x v ρ ic ws hc
      let K := countK (nm n)
      have hnext := innerLoop_next_ge nm cur ptr ic (n + 1) K
      have hacc : s.env (nm n) = some (.val (.int 0)) := by
        have := hdone (.decl "int" (nm n) (some (.int 0))) (by simp [compNE])
        have h0 := initVal_int C.N
        simp only [initVal] at h0
        simpa [DeclOK, h0] using this
      let Pinv : St D → Int → Prop := fun t b => t.env (nm n) = some (.val (.int b)) ∧ t.rows = s.rows ∧
        ∀ y, ¬ InRange nm n (innerLoop nm cur ptr ic (n + 1) K).2 y → t.env y = s.env y
      have haccR : ¬ InRange nm (n + 1) (innerLoop nm cur ptr ic (n + 1) K).2 (nm n) := by
        rintro ⟨j, h1, _, h3⟩
        have := hinj _ _ h3; omega
      obtain ⟨s', hex, hP'⟩ := innerLoop_correct (β := Int) C QC hN nm hinj cur ptr ic (n + 1) K (wtIChain_steps hwt)
        v l ws hmem hit Pinv (fun a _ => .ok (a + 1))
        (by
          intro t t' b hPt hr hfr
          refine ⟨by rw [hfr _ haccR]; exact hPt.1, by rw [hr]; exact hPt.2.1, fun y hy => ?_⟩
          rw [hfr y (fun h => hy (h.mono (by omega) (Nat.le_refl _)))]; exact hPt.2.2 y hy)
        (by
          intro t b b' u hPt hg _ _
          simp only [Except.ok.injEq] at hg; subst hg
          refine ⟨{ t with env := t.env.set (nm n) (.int (b + 1)) }, ?_, ?_, hPt.2.1, ?_⟩
          · simp only [K, countK, execs, exec, hPt.1]
            rw [evalE_bin_arith _ _ _ (by simp) (by simp)]
            simp [evalE, hPt.1, arith, asInt]
          · simp [Env.set]
          · intro y hy
            have : y ≠ nm n := fun e => hy ⟨n, Nat.le_refl n, by omega, e⟩
            simp only [Env.set, this, if_false]; exact hPt.2.2 y hy)
        s 0 (0 + ws.length) hcur hel (foldG_count ws 0) ⟨hacc, rfl, fun _ _ => rfl⟩
      refine ⟨s', by simpa [compNE] using hex, hP'.2.1, ?_, by simp [HasTy], ?_⟩
      · simp [compNE, evalE, hP'.1]
      · simpa [compNE] using hP'.2.2
    | _ => simp at hden

/-- **inner Sum** over a chain that ends in numbers -/
theorem isum_correct (C : Ctx D) (QC : QCtx D) (hN : QC.N = C.N) (nm : Nat → String)
    (hinj : ∀ i j, nm i = nm j → i = j) (ptr : Bool) (cur : CExpr) (v : Val D) (x : String) (ρ : LEnv D)
    (ic : IChain) (n : Nat) (s : St D) (w : Val D)
    (hcur : evalE C.N s.env cur = .ok v)
    (hdone : DeclsDone C.N (compNE nm ptr cur (.isum ic) n).decls s.env)
    (hwt : wtIChain ic = true) (t : Ty) (hct : ichainTy ic = some t) (htn : t.isNum = true)
    (hit : InnerTyped v ic) (hsne : ISumNonEmpty QC v ic)
    (hden : denote QC ((x, v) :: ρ) (neQ x (.isum ic)) = .ok w) :
    ∃ s', execs C (compNE nm ptr cur (.isum ic) n).stmts s = .ok s' ∧ s'.rows = s.rows ∧
      evalE C.N s'.env (compNE nm ptr cur (.isum ic) n).val = .ok w ∧ HasTy w (Ty.join .int t) ∧
      (∀ y, ¬ InRange nm n (compNE nm ptr cur (.isum ic) n).next y → s'.env y = s.env y) := by
  simp only [neQ, denote] at hden
  cases hc : denote QC ((x, v) :: ρ) (ichainQ x ic) with
  | error e => rw [hc] at hden; simp at hden
  | ok cv =>
    rw [hc] at hden
    cases cv with
    | vec ws =>
      simp only [] at hden
      rw [foldE_eq_foldG, hN] at hden
      obtain ⟨l, hmem, hel⟩ := ichainQ_ok QC x v ρ ic ws hc
      have hwsty := elemsSemT_typed QC ic.elem ic.steps t (wtIChain_steps hwt) hct l ws (hit l hmem) hel
      have hfold := sum_fold_agree C.N t htn ws w hwsty (fun hf => hsne t hct hf l ws hmem hel) hden
      let K := sumK (nm n)
      have hnext := innerLoop_next_ge nm cur ptr ic (n + 1) K
      have hty : (Ty.join .int ((ichainTy ic).getD .double)) = Ty.join .int t := by rw [hct]; rfl
      have hacc : s.env (nm n) = some (.val (initVal C.N (Ty.join .int t).cpp)) := by
        have := hdone (.decl (Ty.join .int ((ichainTy ic).getD .double)).cpp (nm n) (some (.int 0))) (by simp [compNE])
        simpa [DeclOK, hty, initVal] using this
      let Pinv : St D → Val D → Prop := fun u a => u.env (nm n) = some (.val a) ∧ u.rows = s.rows ∧
        ∀ y, ¬ InRange nm n (innerLoop nm cur ptr ic (n + 1) K).2 y → u.env y = s.env y
      have haccR : ¬ InRange nm (n + 1) (innerLoop nm cur ptr ic (n + 1) K).2 (nm n) := by
        rintro ⟨j, h1, _, h3⟩
        have := hinj _ _ h3; omega
      obtain ⟨s', hex, hP'⟩ := innerLoop_correct (β := Val D) C QC hN nm hinj cur ptr ic (n + 1) K (wtIChain_steps hwt)
        v l ws hmem hit Pinv (fun a u => arith C.N "+" a u)
        (by
          intro u u' b hPu hr hfr
          refine ⟨by rw [hfr _ haccR]; exact hPu.1, by rw [hr]; exact hPu.2.1, fun y hy => ?_⟩
          rw [hfr y (fun h => hy (h.mono (by omega) (Nat.le_refl _)))]; exact hPu.2.2 y hy)
        (by
          intro u a a' z hPu hg hevz _
          refine ⟨{ u with env := u.env.set (nm n) a' }, ?_, ?_, hPu.2.1, ?_⟩
          · simp only [K, sumK, execs, exec, hPu.1]
            rw [evalE_bin_arith _ _ _ (by simp) (by simp)]
            simp [evalE, hPu.1, hevz, hg]
          · simp [Env.set]
          · intro y hy
            have : y ≠ nm n := fun e => hy ⟨n, Nat.le_refl n, by omega, e⟩
            simp only [Env.set, this, if_false]; exact hPu.2.2 y hy)
        s _ w hcur hel hfold ⟨hacc, rfl, fun _ _ => rfl⟩
      refine ⟨s', by simpa [compNE] using hex, hP'.2.1, ?_, ?_, ?_⟩
      · simp [compNE, evalE, hP'.1]
      · refine foldG_sum_typed C.N t htn ws (.int 0) w hwsty (Or.inl (by simp [HasTy])) ?_ hden
        by_cases hf : t.isFloating = true
        · exact Or.inl (hsne t hct hf l ws hmem hel)
        · right; cases t <;> simp [Ty.isFloating, Ty.isNum, Ty.join, HasTy] at hf htn ⊢
      · simpa [compNE] using hP'.2.2
    | _ => simp at hden

/-! ## all expressions -/

theorem evalE_cur_frame (N : Num D) (nm : Nat → String) (cur : CExpr) (n lo hi : Nat) (σ σ' : Env D)
    (hfr : ∀ y ∈ vars cur, ∀ j, n ≤ j → y ≠ nm j) (hlo : n ≤ lo)
    (hag : ∀ y, ¬ InRange nm lo hi y → σ' y = σ y) : evalE N σ' cur = evalE N σ cur := by
  apply evalE_congr
  intro y hy
  apply hag
  rintro ⟨j, hj1, _, hj3⟩
  exact hfr y hy j (by omega) hj3

/-- running fragment `a` then fragment `b` (consecutive name ranges): both values are available in the
final state, nothing outside the two ranges is touched -/
theorem compNE_seq (C : Ctx D) (nm : Nat → String) (hinj : ∀ i j, nm i = nm j → i = j) (ptr : Bool) (cur : CExpr) (v : Val D)
    (a b : NE) (n : Nat) (s : St D) (va vb : Val D)
    (hfr : ∀ y ∈ vars cur, ∀ j, n ≤ j → y ≠ nm j) (hcur : evalE C.N s.env cur = .ok v)
    (hdone : DeclsDone C.N ((compNE nm ptr cur a n).decls ++ (compNE nm ptr cur b (compNE nm ptr cur a n).next).decls) s.env)
    (speca : DeclsDone C.N (compNE nm ptr cur a n).decls s.env →
      ∃ s1, execs C (compNE nm ptr cur a n).stmts s = .ok s1 ∧ s1.rows = s.rows ∧
        evalE C.N s1.env (compNE nm ptr cur a n).val = .ok va ∧
        (∀ y, ¬ InRange nm n (compNE nm ptr cur a n).next y → s1.env y = s.env y))
    (specb : ∀ s1 : St D, evalE C.N s1.env cur = .ok v →
      DeclsDone C.N (compNE nm ptr cur b (compNE nm ptr cur a n).next).decls s1.env →
      ∃ s2, execs C (compNE nm ptr cur b (compNE nm ptr cur a n).next).stmts s1 = .ok s2 ∧ s2.rows = s1.rows ∧
        evalE C.N s2.env (compNE nm ptr cur b (compNE nm ptr cur a n).next).val = .ok vb ∧
        (∀ y, ¬ InRange nm (compNE nm ptr cur a n).next (compNE nm ptr cur b (compNE nm ptr cur a n).next).next y → s2.env y = s1.env y)) :
    ∃ s2, execs C ((compNE nm ptr cur a n).stmts ++ (compNE nm ptr cur b (compNE nm ptr cur a n).next).stmts) s = .ok s2 ∧
      s2.rows = s.rows ∧ evalE C.N s2.env (compNE nm ptr cur a n).val = .ok va ∧
      evalE C.N s2.env (compNE nm ptr cur b (compNE nm ptr cur a n).next).val = .ok vb ∧
      (∀ y, ¬ InRange nm n (compNE nm ptr cur b (compNE nm ptr cur a n).next).next y → s2.env y = s.env y) := by
  have h1 := compNE_next_ge nm ptr cur a n
  have h2 := compNE_next_ge nm ptr cur b (compNE nm ptr cur a n).next
  have hda : DeclsDone C.N (compNE nm ptr cur a n).decls s.env := fun d hd => hdone d (by simp [hd])
  have hdb : DeclsDone C.N (compNE nm ptr cur b (compNE nm ptr cur a n).next).decls s.env := fun d hd => hdone d (by simp [hd])
  obtain ⟨s1, hex1, hr1, hv1, hf1⟩ := speca hda
  have hdb1 : DeclsDone C.N (compNE nm ptr cur b (compNE nm ptr cur a n).next).decls s1.env :=
    hdb.transport (compNE_decls nm ptr cur b _) (fun y hy => hf1 y (inRange_disjoint hinj hy))
  have hcur1 : evalE C.N s1.env cur = .ok v := by
    rw [evalE_cur_frame C.N nm cur n n _ s.env s1.env hfr (Nat.le_refl _) hf1]; exact hcur
  obtain ⟨s2, hex2, hr2, hv2, hf2⟩ := specb s1 hcur1 hdb1
  refine ⟨s2, ?_, by rw [hr2, hr1], ?_, hv2, ?_⟩
  · rw [execs_append, hex1]; exact hex2
  · rw [← hv1]
    apply evalE_congr
    intro y hy
    apply hf2
    rcases compNE_val_vars nm ptr cur a n y hy with hc | hr
    · rintro ⟨j, hj1, _, hj3⟩; exact hfr y hc j (by omega) hj3
    · exact fun h => inRange_disjoint hinj h hr
  · intro y hy
    rw [hf2 y (fun h => hy (h.mono h1 (Nat.le_refl _))), hf1 y (fun h => hy (h.mono (Nat.le_refl _) h2))]

/-- **element-level expressions with inner aggregates** — in every state in which the accumulators'
declarations are done (`DeclsDone`: each holds its initial value) and the current-value expression evaluates
to the outer element `v`, executing the emitted statements (the inner loops) terminates in a state in which
the emitted value expression evaluates to EXACTLY what the query expression denotes with its parameter bound
to `v`; only the fragment's own fresh names are touched; the value has the statically computed C++ type. -/
theorem compNE_correct (C : Ctx D) (QC : QCtx D) (hN : QC.N = C.N) (nm : Nat → String)
    (hinj : ∀ i j, nm i = nm j → i = j) (ptr : Bool) (cur : CExpr) (v : Val D) (x : String) (ρ : LEnv D) :
    ∀ (e : NE) (n : Nat) (s : St D) (w : Val D),
      (∀ y ∈ vars cur, ∀ j, n ≤ j → y ≠ nm j) → evalE C.N s.env cur = .ok v →
      DeclsDone C.N (compNE nm ptr cur e n).decls s.env →
      wtNE e = true → NEHyp QC v e →
      denote QC ((x, v) :: ρ) (neQ x e) = .ok w →
      ∃ s', execs C (compNE nm ptr cur e n).stmts s = .ok s' ∧ s'.rows = s.rows ∧
        evalE C.N s'.env (compNE nm ptr cur e n).val = .ok w ∧ HasTy w (tyNE e) ∧
        (∀ y, ¬ InRange nm n (compNE nm ptr cur e n).next y → s'.env y = s.env y)
  | .pure p, n, s, w, _, hcur, _, hwt, hhyp, hden => by
    simp only [wtNE] at hwt
    simp only [neQ] at hden
    have hpe := pe_correct QC s.env cur none ptr v x ρ (by rw [hN]; exact hcur) (by simp) p hwt (hhyp.1 p (by simp [puresNE]))
    refine ⟨s, by simp [compNE, execs], rfl, ?_, ?_, fun _ _ => rfl⟩
    · simp only [compNE]
      rw [← hN, show Ty.double = curT none from rfl, hpe.1]; exact hden
    · simpa [tyNE, curT] using hpe.2 w hden
  | .icount ic, n, s, w, _, hcur, hdone, hwt, hhyp, hden => by
    simp only [wtNE] at hwt
    exact icount_correct C QC hN nm hinj ptr cur v x ρ ic n s w hcur hdone hwt (hhyp.2.1 ic (by simp [ichainsNE])) hden
  | .isum ic, n, s, w, _, hcur, hdone, hwt, hhyp, hden => by
    simp only [wtNE, Bool.and_eq_true, ichainNumTy] at hwt
    cases hty : ichainTy ic with
    | none => rw [hty] at hwt; simp at hwt
    | some t =>
      rw [hty] at hwt
      have htn : t.isNum = true := by
        by_cases h : t.isNum = true
        · exact h
        · simp [h] at hwt
      have := isum_correct C QC hN nm hinj ptr cur v x ρ ic n s w hcur hdone hwt.1 t hty htn
        (hhyp.2.1 ic (by simp [ichainsNE])) (hhyp.2.2 ic (by simp [isumsNE])) hden
      simpa [tyNE, hty] using this
  | .bin op a b, n, s, w, hfr, hcur, hdone, hwt, hhyp, hden => by
    simp only [wtNE, Bool.and_eq_true] at hwt
    obtain ⟨⟨⟨hwa, hwb⟩, hna⟩, hnb⟩ := hwt
    simp only [neQ, denote] at hden
    have h1 := compNE_next_ge nm ptr cur a n
    have hfrb : ∀ y ∈ vars cur, ∀ j, (compNE nm ptr cur a n).next ≤ j → y ≠ nm j := fun y hy j hj => hfr y hy j (by omega)
    cases hda : denote QC ((x, v) :: ρ) (neQ x a) with
    | error e => rw [hda] at hden; simp at hden
    | ok va =>
      rw [hda] at hden
      cases hdb : denote QC ((x, v) :: ρ) (neQ x b) with
      | error e => rw [hdb] at hden; simp at hden
      | ok vb =>
        rw [hdb] at hden
        simp only [] at hden
        have hdone' : DeclsDone C.N ((compNE nm ptr cur a n).decls ++ (compNE nm ptr cur b (compNE nm ptr cur a n).next).decls) s.env := by
          simpa [compNE] using hdone
        have hta : HasTy va (tyNE a) := by
          obtain ⟨_, _, _, _, h, _⟩ := compNE_correct C QC hN nm hinj ptr cur v x ρ a n s va hfr hcur
            (fun d hd => hdone' d (by simp [hd])) hwa hhyp.bin_left hda
          exact h
        have htb : HasTy vb (tyNE b) := by
          obtain ⟨_, _, _, _, h, _⟩ := compNE_correct C QC hN nm hinj ptr cur v x ρ b (compNE nm ptr cur a n).next s vb hfrb hcur
            (fun d hd => hdone' d (by simp [hd])) hwb hhyp.bin_right hdb
          exact h
        obtain ⟨s2, hex, hrows, hva, hvb, hfr2⟩ := compNE_seq C nm hinj ptr cur v a b n s va vb hfr hcur hdone'
          (fun hd => by
            obtain ⟨s1, h1, h2, h3, _, h5⟩ := compNE_correct C QC hN nm hinj ptr cur v x ρ a n s va hfr hcur hd hwa hhyp.bin_left hda
            exact ⟨s1, h1, h2, h3, h5⟩)
          (fun s1 hc1 hd => by
            obtain ⟨s2, h1, h2, h3, _, h5⟩ := compNE_correct C QC hN nm hinj ptr cur v x ρ b _ s1 vb hfrb hc1 hd hwb hhyp.bin_right hdb
            exact ⟨s2, h1, h2, h3, h5⟩)
        refine ⟨s2, by simpa [compNE] using hex, hrows, ?_, ?_, by simpa [compNE] using hfr2⟩
        · by_cases hdiv : op = .div
          · subst hdiv
            have hd := div_num C.N va vb _ _ hta htb hna hnb
            rw [hN] at hden
            simp only [AOp.str] at hden
            rw [← hden, ← hd.1]
            simp only [compNE]
            by_cases hj : (tyNE a).join (tyNE b) = .int
            · simp only [hj, and_self, if_true]
              rw [evalE_bin_arith _ _ _ (by simp) (by simp)]
              simp only [evalE, hva, hvb]
              cases castTo C.N "double" va <;> rfl
            · simp only [hj, and_false, if_false]
              rw [evalE_bin_arith _ _ _ (by simp [AOp.str]) (by simp [AOp.str])]
              simp [hva, hvb, AOp.str]
          · have hne : ¬ (op = .div ∧ (tyNE a).join (tyNE b) = .int) := fun h => hdiv h.1
            have := arith_num C.N op hdiv va vb _ _ hta htb hna hnb
            rw [hN] at hden
            simp only [compNE, hne, if_false]
            rw [evalE_bin_arith _ _ _ (aop_not_logic op).1 (aop_not_logic op).2]
            simp only [hva, hvb]
            rw [this.1]; exact hden
        · by_cases hdiv : op = .div
          · subst hdiv
            rw [hN] at hden
            simpa [tyNE] using (div_num C.N va vb _ _ hta htb hna hnb).2 w (by simpa [AOp.str] using hden)
          · have hty' : tyNE (.bin op a b) = (tyNE a).join (tyNE b) := by cases op <;> simp [tyNE] at hdiv ⊢
            rw [hty']
            have := arith_num C.N op hdiv va vb _ _ hta htb hna hnb
            rw [hN] at hden
            exact this.2 w (by rw [this.1]; exact hden)
  | .cmp op a b, n, s, w, hfr, hcur, hdone, hwt, hhyp, hden => by
    simp only [wtNE, Bool.and_eq_true] at hwt
    obtain ⟨⟨⟨hwa, hwb⟩, hna⟩, hnb⟩ := hwt
    simp only [neQ, denote] at hden
    have h1 := compNE_next_ge nm ptr cur a n
    have hfrb : ∀ y ∈ vars cur, ∀ j, (compNE nm ptr cur a n).next ≤ j → y ≠ nm j := fun y hy j hj => hfr y hy j (by omega)
    cases hda : denote QC ((x, v) :: ρ) (neQ x a) with
    | error e => rw [hda] at hden; simp at hden
    | ok va =>
      rw [hda] at hden
      cases hdb : denote QC ((x, v) :: ρ) (neQ x b) with
      | error e => rw [hdb] at hden; simp at hden
      | ok vb =>
        rw [hdb] at hden
        simp only [] at hden
        have hdone' : DeclsDone C.N ((compNE nm ptr cur a n).decls ++ (compNE nm ptr cur b (compNE nm ptr cur a n).next).decls) s.env := by
          simpa [compNE] using hdone
        have hta : HasTy va (tyNE a) := by
          obtain ⟨_, _, _, _, h, _⟩ := compNE_correct C QC hN nm hinj ptr cur v x ρ a n s va hfr hcur
            (fun d hd => hdone' d (by simp [hd])) hwa hhyp.cmp_left hda
          exact h
        have htb : HasTy vb (tyNE b) := by
          obtain ⟨_, _, _, _, h, _⟩ := compNE_correct C QC hN nm hinj ptr cur v x ρ b (compNE nm ptr cur a n).next s vb hfrb hcur
            (fun d hd => hdone' d (by simp [hd])) hwb hhyp.cmp_right hdb
          exact h
        obtain ⟨s2, hex, hrows, hva, hvb, hfr2⟩ := compNE_seq C nm hinj ptr cur v a b n s va vb hfr hcur hdone'
          (fun hd => by
            obtain ⟨s1, h1, h2, h3, _, h5⟩ := compNE_correct C QC hN nm hinj ptr cur v x ρ a n s va hfr hcur hd hwa hhyp.cmp_left hda
            exact ⟨s1, h1, h2, h3, h5⟩)
          (fun s1 hc1 hd => by
            obtain ⟨s2, h1, h2, h3, _, h5⟩ := compNE_correct C QC hN nm hinj ptr cur v x ρ b _ s1 vb hfrb hc1 hd hwb hhyp.cmp_right hdb
            exact ⟨s2, h1, h2, h3, h5⟩)
        rw [hN] at hden
        refine ⟨s2, by simpa [compNE] using hex, hrows, ?_, ?_, by simpa [compNE] using hfr2⟩
        · simp only [compNE]
          rw [evalE_bin_arith _ _ _ (cop_not_logic op).1 (cop_not_logic op).2]
          simp only [hva, hvb]; exact hden
        · simpa [tyNE] using cmp_num C.N op va vb _ _ hta htb hna hnb w hden
  | .neg a, n, s, w, hfr, hcur, hdone, hwt, hhyp, hden => by
    simp only [wtNE, Bool.and_eq_true] at hwt
    simp only [neQ, denote] at hden
    cases hda : denote QC ((x, v) :: ρ) (neQ x a) with
    | error e => rw [hda] at hden; simp at hden
    | ok va =>
      rw [hda, hN] at hden
      simp only [] at hden
      obtain ⟨s1, h1, h2, h3, h4, h5⟩ := compNE_correct C QC hN nm hinj ptr cur v x ρ a n s va hfr hcur
        (by simpa [compNE] using hdone) hwt.1 hhyp.neg hda
      refine ⟨s1, by simpa [compNE] using h1, h2, by simp [compNE, evalE, h3, hden], ?_, by simpa [compNE] using h5⟩
      simp only [tyNE]
      rcases hasTy_num h4 hwt.2 with ⟨k, rfl, ht⟩ | ⟨y, rfl, ht⟩
      · simp [unop] at hden; subst hden; simp [ht, HasTy]
      · simp [unop] at hden; subst hden; rcases ht with h | h <;> simp [h, HasTy]
  | .not a, n, s, w, hfr, hcur, hdone, hwt, hhyp, hden => by
    simp only [wtNE, Bool.and_eq_true, beq_iff_eq] at hwt
    simp only [neQ, denote] at hden
    cases hda : denote QC ((x, v) :: ρ) (neQ x a) with
    | error e => rw [hda] at hden; simp at hden
    | ok va =>
      rw [hda, hN] at hden
      simp only [] at hden
      obtain ⟨s1, h1, h2, h3, h4, h5⟩ := compNE_correct C QC hN nm hinj ptr cur v x ρ a n s va hfr hcur
        (by simpa [compNE] using hdone) hwt.1 hhyp.not hda
      refine ⟨s1, by simpa [compNE] using h1, h2, by simp [compNE, evalE, h3, hden], ?_, by simpa [compNE] using h5⟩
      simp only [tyNE]
      rw [hwt.2] at h4
      obtain ⟨b, rfl⟩ := hasTy_bool h4
      simp [unop, asBool] at hden; subst hden; simp [HasTy]

/-! ## block level: the declarations are executed, the accumulators restart -/

/-- **the block of an expression with inner aggregates** — from ANY state in which the current-value
expression evaluates to the outer element `v` (whatever the accumulators hold — e.g. what the previous
outer element left in them): the block's text, declarations first (hoisted), then the inner loops,
computes the query's value. -/
theorem compNE_block_correct (C : Ctx D) (QC : QCtx D) (hN : QC.N = C.N) (nm : Nat → String)
    (hinj : ∀ i j, nm i = nm j → i = j) (ptr : Bool) (cur : CExpr) (v : Val D) (x : String) (ρ : LEnv D)
    (e : NE) (n : Nat) (s : St D) (w : Val D)
    (hfr : ∀ y ∈ vars cur, ∀ j, n ≤ j → y ≠ nm j) (hcur : evalE C.N s.env cur = .ok v)
    (hwt : wtNE e = true) (hhyp : NEHyp QC v e)
    (hden : denote QC ((x, v) :: ρ) (neQ x e) = .ok w) :
    ∃ s', execs C ((compNE nm ptr cur e n).decls ++ (compNE nm ptr cur e n).stmts) s = .ok s' ∧ s'.rows = s.rows ∧
      evalE C.N s'.env (compNE nm ptr cur e n).val = .ok w ∧ HasTy w (tyNE e) ∧
      (∀ y, ¬ InRange nm n (compNE nm ptr cur e n).next y → s'.env y = s.env y) := by
  obtain ⟨hsimple, hnodup⟩ := compNE_declsOK C.N nm hinj ptr cur e n
  obtain ⟨sD, hexD, hrD, hdone, hfrD⟩ := exec_decls C (compNE nm ptr cur e n).decls s hsimple hnodup
  have hfrD' : ∀ y, ¬ InRange nm n (compNE nm ptr cur e n).next y → sD.env y = s.env y :=
    fun y hy => hfrD y (fun hm => hy (declsIn_names (compNE_decls nm ptr cur e n) y hm))
  have hcurD : evalE C.N sD.env cur = .ok v := by
    rw [evalE_cur_frame C.N nm cur n n _ s.env sD.env hfr (Nat.le_refl _) hfrD']; exact hcur
  obtain ⟨s', hex, hr, hv, hty, hfr'⟩ := compNE_correct C QC hN nm hinj ptr cur v x ρ e n sD w hfr hcurD hdone hwt hhyp hden
  refine ⟨s', by rw [execs_append, hexD]; exact hex, by rw [hr, hrD], hv, hty, fun y hy => ?_⟩
  rw [hfr' y hy, hfrD' y hy]

/-! ## the columns of a row -/

theorem compNEs_next_ge (nm : Nat → String) (ptr : Bool) (cur : CExpr) : ∀ (es : List NE) (n : Nat), n ≤ (compNEs nm ptr cur es n).next
  | [], n => by simp [compNEs]
  | e :: rest, n => by
    have h1 := compNE_next_ge nm ptr cur e n
    have h2 := compNEs_next_ge nm ptr cur rest (compNE nm ptr cur e n).next
    simp only [compNEs]; omega

theorem compNEs_decls (nm : Nat → String) (ptr : Bool) (cur : CExpr) : ∀ (es : List NE) (n : Nat),
    DeclsIn nm n (compNEs nm ptr cur es n).next (compNEs nm ptr cur es n).decls
  | [], n => by intro d hd; simp [compNEs] at hd
  | e :: rest, n => by
    have h1 := compNE_next_ge nm ptr cur e n
    have h2 := compNEs_next_ge nm ptr cur rest (compNE nm ptr cur e n).next
    simp only [compNEs]
    exact ((compNE_decls nm ptr cur e n).mono (Nat.le_refl _) h2).append ((compNEs_decls nm ptr cur rest _).mono h1 (Nat.le_refl _))

theorem compNEs_declsOK (N : Num D) (nm : Nat → String) (hinj : ∀ i j, nm i = nm j → i = j) (ptr : Bool) (cur : CExpr) :
    ∀ (es : List NE) (n : Nat),
    (∀ d ∈ (compNEs nm ptr cur es n).decls, SimpleDecl N d) ∧ ((compNEs nm ptr cur es n).decls.map declName).Nodup
  | [], n => by simp [compNEs]
  | e :: rest, n => by
    have ha := compNE_declsOK N nm hinj ptr cur e n
    have hb := compNEs_declsOK N nm hinj ptr cur rest (compNE nm ptr cur e n).next
    simp only [compNEs]
    refine ⟨fun d hd => ?_, ?_⟩
    · rcases List.mem_append.1 hd with h | h
      · exact ha.1 d h
      · exact hb.1 d h
    · rw [List.map_append]
      exact nodup_append_ranges hinj ha.2 hb.2 (declsIn_names (compNE_decls nm ptr cur e n)) (declsIn_names (compNEs_decls nm ptr cur rest _))

theorem compNEs_vals_vars (nm : Nat → String) (ptr : Bool) (cur : CExpr) : ∀ (es : List NE) (n : Nat),
    ∀ e ∈ (compNEs nm ptr cur es n).vals, ∀ x ∈ vars e, x ∈ vars cur ∨ InRange nm n (compNEs nm ptr cur es n).next x
  | [], n, e, he, _, _ => by simp [compNEs] at he
  | e0 :: rest, n, e, he, x, hx => by
    have h1 := compNE_next_ge nm ptr cur e0 n
    have h2 := compNEs_next_ge nm ptr cur rest (compNE nm ptr cur e0 n).next
    simp only [compNEs, List.mem_cons] at he ⊢
    rcases he with rfl | he
    · exact (compNE_val_vars nm ptr cur e0 n x hx).imp id (fun r => r.mono (Nat.le_refl _) h2)
    · exact (compNEs_vals_vars nm ptr cur rest _ e he x hx).imp id (fun r => r.mono h1 (Nat.le_refl _))

theorem compNEs_vals_length (nm : Nat → String) (ptr : Bool) (cur : CExpr) : ∀ (es : List NE) (n : Nat),
    (compNEs nm ptr cur es n).vals.length = es.length
  | [], n => by simp [compNEs]
  | e :: rest, n => by simp [compNEs, compNEs_vals_length nm ptr cur rest]

/-- **the columns of a row** — every column's inner loops in order; afterwards every column's value
expression evaluates to the value the query's column expression denotes -/
theorem compNEs_correct (C : Ctx D) (QC : QCtx D) (hN : QC.N = C.N) (nm : Nat → String)
    (hinj : ∀ i j, nm i = nm j → i = j) (ptr : Bool) (cur : CExpr) (v : Val D) (x : String) (ρ : LEnv D) :
    ∀ (es : List NE) (n : Nat) (s : St D) (row : List (Val D)),
      (∀ y ∈ vars cur, ∀ j, n ≤ j → y ≠ nm j) → evalE C.N s.env cur = .ok v →
      DeclsDone C.N (compNEs nm ptr cur es n).decls s.env →
      (∀ e ∈ es, wtNE e = true) → (∀ e ∈ es, NEHyp QC v e) →
      denotes QC ((x, v) :: ρ) (es.map (neQ x)) = .ok row →
      ∃ s', execs C (compNEs nm ptr cur es n).stmts s = .ok s' ∧ s'.rows = s.rows ∧
        evalsTo C.N s'.env (compNEs nm ptr cur es n).vals row ∧
        (∀ y, ¬ InRange nm n (compNEs nm ptr cur es n).next y → s'.env y = s.env y)
  | [], n, s, row, _, _, _, _, _, hrow => by
    simp only [List.map_nil, denotes, Except.ok.injEq] at hrow; subst hrow
    exact ⟨s, by simp [compNEs, execs], rfl, by simp [compNEs, evalsTo], fun _ _ => rfl⟩
  | e :: rest, n, s, row, hfr, hcur, hdone, hwt, hhyp, hrow => by
    simp only [List.map_cons, denotes] at hrow
    cases h1 : denote QC ((x, v) :: ρ) (neQ x e) with
    | error f => rw [h1] at hrow; simp at hrow
    | ok w =>
      rw [h1] at hrow; simp only [] at hrow
      cases h2 : denotes QC ((x, v) :: ρ) (rest.map (neQ x)) with
      | error f => rw [h2] at hrow; simp at hrow
      | ok ws =>
        rw [h2] at hrow; simp only [Except.ok.injEq] at hrow; subst hrow
        have hk := compNE_next_ge nm ptr cur e n
        have hk2 := compNEs_next_ge nm ptr cur rest (compNE nm ptr cur e n).next
        simp only [compNEs] at hdone ⊢
        obtain ⟨s1, hex1, hr1, hv1, _, hf1⟩ := compNE_correct C QC hN nm hinj ptr cur v x ρ e n s w hfr hcur
          (fun d hd => hdone d (by simp [hd])) (hwt e (by simp)) (hhyp e (by simp)) h1
        have hcur1 : evalE C.N s1.env cur = .ok v := by
          rw [evalE_cur_frame C.N nm cur n n _ s.env s1.env hfr (Nat.le_refl _) hf1]; exact hcur
        have hdone1 : DeclsDone C.N (compNEs nm ptr cur rest (compNE nm ptr cur e n).next).decls s1.env :=
          DeclsDone.transport (fun d hd => hdone d (by simp [hd])) (compNEs_decls nm ptr cur rest _)
            (fun y hy => hf1 y (inRange_disjoint hinj hy))
        obtain ⟨s', hex, hr, hvs, hf⟩ := compNEs_correct C QC hN nm hinj ptr cur v x ρ rest _ s1 ws
          (fun y hy j hj => hfr y hy j (by omega)) hcur1 hdone1
          (fun e' he' => hwt e' (by simp [he'])) (fun e' he' => hhyp e' (by simp [he'])) h2
        refine ⟨s', by rw [execs_append, hex1]; exact hex, by rw [hr, hr1], ⟨?_, hvs⟩, fun y hy => ?_⟩
        · rw [← hv1]
          apply evalE_congr
          intro y hy
          apply hf
          rcases compNE_val_vars nm ptr cur e n y hy with hc | hr'
          · rintro ⟨j, hj1, _, hj3⟩; exact hfr y hc j (by omega) hj3
          · exact fun h => inRange_disjoint hinj h hr'
        · rw [hf y (fun h => hy (h.mono hk (Nat.le_refl _))), hf1 y (fun h => hy (h.mono (Nat.le_refl _) hk2))]

/-- **one row of inner aggregates** — the accumulators' declarations, the columns' inner loops, the branch
assignments, the fill: from ANY state in which the current-value expression evaluates to the outer element
and the column variables are declared, exactly one row — the values the column expressions denote — is
appended; the column variables stay declared; nothing but the block's own names and the column variables changes. -/
theorem rowKN_correct (C : Ctx D) (QC : QCtx D) (hN : QC.N = C.N) (B : Backend) (nm cn : Nat → String)
    (hinj : ∀ i j, nm i = nm j → i = j) (hcinj : ∀ i j, cn i = cn j → i = j) (hdisj : ∀ j k, nm j ≠ cn k)
    (es : List NE) (cur : CExpr) (ty : Option Ty) (v : Val D) (x : String) (ρ : LEnv D) (n : Nat)
    (hcols : C.cols = colNames cn es.length 0)
    (hcv : ∀ y ∈ vars cur, (∀ j, n ≤ j → y ≠ nm j) ∧ ∀ k, y ≠ cn k)
    (hwt : ∀ e ∈ es, wtNE e = true) (hhyp : ∀ e ∈ es, NEHyp QC v e)
    (row : List (Val D)) (hrow : denotes QC ((x, v) :: ρ) (es.map (neQ x)) = .ok row)
    (s : St D) (hcur : evalE C.N s.env cur = .ok v)
    (hdecl : ∀ k, k < es.length → (s.env (cn k)).isSome = true) :
    ∃ s', execs C (rowKN B nm cn es cur ty n).1 s = .ok s' ∧ s'.rows = s.rows ++ [row] ∧
      (∀ k, k < es.length → (s'.env (cn k)).isSome = true) := by
  let cf := compNEs nm (B.elemPtr && ty.isNone) cur es n
  have hfr0 : ∀ y ∈ vars cur, ∀ j, n ≤ j → y ≠ nm j := fun y hy => (hcv y hy).1
  obtain ⟨hsimple, hnodup⟩ := compNEs_declsOK C.N nm hinj (B.elemPtr && ty.isNone) cur es n
  obtain ⟨sD, hexD, hrD, hdone, hfrD⟩ := exec_decls C cf.decls s hsimple hnodup
  have hfrD' : ∀ y, ¬ InRange nm n cf.next y → sD.env y = s.env y :=
    fun y hy => hfrD y (fun hm => hy (declsIn_names (compNEs_decls nm _ cur es n) y hm))
  have hcurD : evalE C.N sD.env cur = .ok v := by
    rw [evalE_cur_frame C.N nm cur n n _ s.env sD.env hfr0 (Nat.le_refl _) hfrD']; exact hcur
  obtain ⟨s1, hex1, hr1, hvals, hf1⟩ := compNEs_correct C QC hN nm hinj (B.elemPtr && ty.isNone) cur v x ρ es n sD row
    hfr0 hcurD hdone hwt hhyp hrow
  have hlen : cf.vals.length = es.length := compNEs_vals_length nm _ cur es n
  have hcn1 : ∀ k, s1.env (cn k) = s.env (cn k) := by
    intro k
    have hnr : ¬ InRange nm n cf.next (cn k) := by rintro ⟨j, _, _, hj⟩; exact hdisj j k hj.symm
    rw [hf1 _ hnr, hfrD' _ hnr]
  obtain ⟨σ2, hex2, hread, _, hmo2⟩ := setsOf_correct C cn hcinj cf.vals row 0 s1.env s1.rows hvals
    (by
      intro e he y hy k
      rcases compNEs_vals_vars nm _ cur es n e he y hy with h | ⟨j, _, _, hj⟩
      · exact (hcv y h).2 k
      · rw [hj]; exact hdisj j k)
    (by
      intro k _ hk
      rw [hcn1 k]
      exact hdecl k (by rw [hlen] at hk; omega))
  refine ⟨⟨σ2, s.rows ++ [row]⟩, ?_, rfl, fun k hk => hmo2 _ (by rw [hcn1 k]; exact hdecl k hk)⟩
  show execs C (cf.decls ++ cf.stmts ++ setsOf cn cf.vals 0 ++ [.fill (B.fillTree B.treeName)]) s = _
  rw [execs_append, execs_append, execs_append, hexD]
  simp only []
  rw [hex1]
  simp only []
  rw [show s1 = ⟨s1.env, s1.rows⟩ from rfl, hex2]
  simp only [execs, exec, hcols]
  rw [← hlen, hread, hr1, hrD]

end FaxVerif.Gen
