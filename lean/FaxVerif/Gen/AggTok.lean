/-
Gen — the token table `compileA` emits (CMS miniAOD): `banksOf` computes exactly one entry per
aggregate, the token names are pairwise distinct, hence the table binds every aggregate's token to
that aggregate's own container type and bank (`TokGEs`). The analogue of Gen/TokenTable.lean for
`GE` / `compGEs`.
-/
import FaxVerif.Gen.AggExprCorrect
import FaxVerif.Gen.TokenTable
namespace FaxVerif.Gen
open FaxVerif.Cpp FaxVerif.Linq
variable {D : Type}

def TokGEs (B : Backend) (nm : Nat → String) (C : Ctx D) : List GE → Nat → Prop
  | [], _ => True
  | e :: es, n => TokGE B nm C e n ∧ TokGEs B nm C es (compGE B nm e n).next

theorem tokGEs_of_notToken {B : Backend} (h : B.how ≠ "token") (nm : Nat → String) (C : Ctx D) :
    ∀ (es : List GE) (n : Nat), TokGEs B nm C es n
  | [], _ => trivial
  | e :: es, n => ⟨tokGE_of_notToken h nm C e n, tokGEs_of_notToken h nm C es _⟩

/-! ## the entries the fragments contribute -/

def geToks (B : Backend) (nm : Nat → String) : GE → Nat → List (String × String × String)
  | .agg g, n => chainToks B nm g.c (n + 1)
  | .bin _ a b, n => geToks B nm a n ++ geToks B nm b (compGE B nm a n).next
  | .cmp _ a b, n => geToks B nm a n ++ geToks B nm b (compGE B nm a n).next
  | .neg a, n => geToks B nm a n
  | .not a, n => geToks B nm a n
  | .int _, _ => []
  | .dbl _ _, _ => []
  | .bool _, _ => []

def gesToks (B : Backend) (nm : Nat → String) : List GE → Nat → List (String × String × String)
  | [], _ => []
  | e :: es, n => geToks B nm e n ++ gesToks B nm es (compGE B nm e n).next

/-! ## `banksOf` computes exactly these entries (token backend) -/

theorem banksOf_ge (B : Backend) (ht : B.how = "token") (nm : Nat → String) :
    ∀ (e : GE) (n : Nat) (rest : List Stmt) (bs : List String),
      banksOf B ((compGE B nm e n).stmts ++ rest) (geBanks e ++ bs) = geToks B nm e n ++ banksOf B rest bs
  | .int _, n, rest, bs => by simp [compGE, geBanks, geToks]
  | .dbl _ _, n, rest, bs => by simp [compGE, geBanks, geToks]
  | .bool _, n, rest, bs => by simp [compGE, geBanks, geToks]
  | .agg g, n, rest, bs => by
    simp only [compGE, compAgg, geBanks, geToks, List.singleton_append]
    exact banksOf_chain B ht nm g.c (n + 1) _ rest bs
  | .bin _ a b, n, rest, bs => by
    simp only [compGE, geBanks, geToks, List.append_assoc]
    rw [banksOf_ge B ht nm a n, banksOf_ge B ht nm b]
  | .cmp _ a b, n, rest, bs => by
    simp only [compGE, geBanks, geToks, List.append_assoc]
    rw [banksOf_ge B ht nm a n, banksOf_ge B ht nm b]
  | .neg a, n, rest, bs => by
    simp only [compGE, geBanks, geToks]
    exact banksOf_ge B ht nm a n rest bs
  | .not a, n, rest, bs => by
    simp only [compGE, geBanks, geToks]
    exact banksOf_ge B ht nm a n rest bs

theorem banksOf_ges (B : Backend) (ht : B.how = "token") (nm : Nat → String) :
    ∀ (es : List GE) (n : Nat) (rest : List Stmt) (bs : List String),
      banksOf B ((compGEs B nm es n).flatMap (·.stmts) ++ rest) (es.flatMap geBanks ++ bs) =
        gesToks B nm es n ++ banksOf B rest bs
  | [], n, rest, bs => by simp [compGEs, gesToks]
  | e :: es, n, rest, bs => by
    simp only [compGEs, List.flatMap_cons, gesToks, List.append_assoc]
    rw [banksOf_ge B ht nm e n, banksOf_ges B ht nm es]

/-! ## token names are pairwise distinct -/

theorem geToks_names (B : Backend) (nm : Nat → String) : ∀ (e : GE) (n : Nat),
    ∀ y ∈ (geToks B nm e n).map (·.1), InRange nm n (compGE B nm e n).next y
  | .int _, n, y, h => by simp [geToks] at h
  | .dbl _ _, n, y, h => by simp [geToks] at h
  | .bool _, n, y, h => by simp [geToks] at h
  | .agg g, n, y, h => by
    simp only [geToks] at h
    simp only [compGE, compAgg]
    exact (chainToks_names B nm g.c (n + 1) _ y h).mono (by omega) (Nat.le_refl _)
  | .bin _ a b, n, y, h => by
    have h1 := compGE_next_ge B nm a n
    have h2 := compGE_next_ge B nm b (compGE B nm a n).next
    simp only [geToks, List.map_append, List.mem_append] at h
    simp only [compGE]
    rcases h with h | h
    · exact (geToks_names B nm a n y h).mono (Nat.le_refl _) h2
    · exact (geToks_names B nm b _ y h).mono h1 (Nat.le_refl _)
  | .cmp _ a b, n, y, h => by
    have h1 := compGE_next_ge B nm a n
    have h2 := compGE_next_ge B nm b (compGE B nm a n).next
    simp only [geToks, List.map_append, List.mem_append] at h
    simp only [compGE]
    rcases h with h | h
    · exact (geToks_names B nm a n y h).mono (Nat.le_refl _) h2
    · exact (geToks_names B nm b _ y h).mono h1 (Nat.le_refl _)
  | .neg a, n, y, h => by simp only [geToks] at h; simp only [compGE]; exact geToks_names B nm a n y h
  | .not a, n, y, h => by simp only [geToks] at h; simp only [compGE]; exact geToks_names B nm a n y h

theorem geToks_nodup (B : Backend) (nm : Nat → String) (hinj : ∀ i j, nm i = nm j → i = j) : ∀ (e : GE) (n : Nat),
    ((geToks B nm e n).map (·.1)).Nodup
  | .int _, n => by simp [geToks]
  | .dbl _ _, n => by simp [geToks]
  | .bool _, n => by simp [geToks]
  | .agg g, n => by simp [geToks, chainToks]
  | .bin _ a b, n => by
    simp only [geToks, List.map_append]
    exact nodup_append_ranges hinj (geToks_nodup B nm hinj a n) (geToks_nodup B nm hinj b _)
      (geToks_names B nm a n) (geToks_names B nm b _)
  | .cmp _ a b, n => by
    simp only [geToks, List.map_append]
    exact nodup_append_ranges hinj (geToks_nodup B nm hinj a n) (geToks_nodup B nm hinj b _)
      (geToks_names B nm a n) (geToks_names B nm b _)
  | .neg a, n => by simpa [geToks] using geToks_nodup B nm hinj a n
  | .not a, n => by simpa [geToks] using geToks_nodup B nm hinj a n

/-- where the name supply stands after all columns -/
def gesEnd (B : Backend) (nm : Nat → String) : List GE → Nat → Nat
  | [], n => n
  | e :: es, n => gesEnd B nm es (compGE B nm e n).next

theorem gesEnd_ge (B : Backend) (nm : Nat → String) : ∀ (es : List GE) (n : Nat), n ≤ gesEnd B nm es n
  | [], n => Nat.le_refl n
  | e :: es, n => by
    have h1 := compGE_next_ge B nm e n
    have h2 := gesEnd_ge B nm es (compGE B nm e n).next
    simp only [gesEnd]; omega

theorem gesToks_names (B : Backend) (nm : Nat → String) : ∀ (es : List GE) (n : Nat),
    ∀ y ∈ (gesToks B nm es n).map (·.1), InRange nm n (gesEnd B nm es n) y
  | [], _, y, h => by simp [gesToks] at h
  | e :: es, n, y, h => by
    have h1 := compGE_next_ge B nm e n
    have h2 := gesEnd_ge B nm es (compGE B nm e n).next
    simp only [gesToks, List.map_append, List.mem_append] at h
    simp only [gesEnd]
    rcases h with h | h
    · exact (geToks_names B nm e n y h).mono (Nat.le_refl _) h2
    · exact (gesToks_names B nm es _ y h).mono h1 (Nat.le_refl _)

theorem gesToks_nodup (B : Backend) (nm : Nat → String) (hinj : ∀ i j, nm i = nm j → i = j) :
    ∀ (es : List GE) (n : Nat), ((gesToks B nm es n).map (·.1)).Nodup
  | [], _ => by simp [gesToks]
  | e :: es, n => by
    simp only [gesToks, List.map_append]
    exact nodup_append_ranges hinj (geToks_nodup B nm hinj e n) (gesToks_nodup B nm hinj es _)
      (geToks_names B nm e n) (gesToks_names B nm es _)

/-! ## a table that binds the entries gives the hypotheses -/

theorem tokGE_of_lookup (B : Backend) (nm : Nat → String) (C : Ctx D) : ∀ (e : GE) (n : Nat),
    (∀ t ∈ geToks B nm e n, C.tokenBank t.1 = some t.2) → TokGE B nm C e n
  | .int _, _, _ => trivial
  | .dbl _ _, _, _ => trivial
  | .bool _, _, _ => trivial
  | .agg g, n, h => fun _ => h (nm (n + 1 + 2), (B.collType g.c.coll).getD "?", g.c.bank) (by simp [geToks, chainToks])
  | .bin _ a b, n, h => ⟨tokGE_of_lookup B nm C a n (fun t ht => h t (by simp [geToks, ht])),
      tokGE_of_lookup B nm C b _ (fun t ht => h t (by simp [geToks, ht]))⟩
  | .cmp _ a b, n, h => ⟨tokGE_of_lookup B nm C a n (fun t ht => h t (by simp [geToks, ht])),
      tokGE_of_lookup B nm C b _ (fun t ht => h t (by simp [geToks, ht]))⟩
  | .neg a, n, h => tokGE_of_lookup B nm C a n (fun t ht => h t (by simpa [geToks] using ht))
  | .not a, n, h => tokGE_of_lookup B nm C a n (fun t ht => h t (by simpa [geToks] using ht))

theorem tokGEs_of_lookup (B : Backend) (nm : Nat → String) (C : Ctx D) : ∀ (es : List GE) (n : Nat),
    (∀ t ∈ gesToks B nm es n, C.tokenBank t.1 = some t.2) → TokGEs B nm C es n
  | [], _, _ => trivial
  | e :: es, n, h => ⟨tokGE_of_lookup B nm C e n (fun t ht => h t (by simp [gesToks, ht])),
      tokGEs_of_lookup B nm C es _ (fun t ht => h t (by simp [gesToks, ht]))⟩

/-- **the token table `compileA` emits binds every aggregate's token** to that aggregate's own
container type and bank — on every backend (vacuously on those that retrieve by bank name). -/
theorem tokGEs_compileA (B : Backend) (nm cn : Nat → String) (hinj : ∀ i j, nm i = nm j → i = j)
    (cols : AQ) (N : Num D) (ev : Event D) :
    TokGEs B nm ((compileA B nm cn cols).ctx N ev) (cols.map (·.2)) 0 := by
  by_cases ht : B.how = "token"
  · have h := banksOf_ges B ht nm (cols.map (·.2)) 0 [] []
    simp only [List.append_nil] at h
    have htoks : ((compileA B nm cn cols).ctx N ev).tokens = gesToks B nm (cols.map (·.2)) 0 := by
      simp only [Package.ctx, compileA]
      rw [h]; simp [banksOf]
    apply tokGEs_of_lookup
    intro t hm
    exact tokenBank_of_mem _ (by rw [htoks]; exact gesToks_nodup B nm hinj _ 0) t (by rw [htoks]; exact hm)
  · exact tokGEs_of_notToken ht nm _ _ 0

end FaxVerif.Gen
