/-
Gen — END TO END for element-level rows with lazy operators:
    ds.SelectMany(e -> coll(bank).{Select(pure) | Where(LE)}*).Select(x -> {name: LE, …})
`elemRowsL_correct`: the package `compileL` emits writes exactly the rows the query denotes, from
the class state at event start — for every chain, every column list (unbounded nesting of lazy
operators), every event, every number model; all three backends (`BackendBase`; on the token idiom
the table `compileL` emits binds the chain's token).
-/
import FaxVerif.Gen.LazyRowsCorrect
import FaxVerif.Gen.DeclsCorrect
namespace FaxVerif.Gen
open FaxVerif.Cpp FaxVerif.Linq
variable {D : Type}

/-- what one element contributes to the rows: nothing if dropped, the row of its columns if kept -/
def rowStep (QC : QCtx D) (steps : List StepL) (les : List LE) (a : List (List (Val D))) (v : Val D) :
    Except Fault (List (List (Val D))) :=
  match elemSemL QC steps v with
  | .error e => .error e
  | .ok none => .ok a
  | .ok (some u) => match lesSem QC u les with
    | .ok row => .ok (a ++ [row])
    | .error e => .error e

theorem foldG_rowsL (QC : QCtx D) (steps : List StepL) (les : List LE) :
    ∀ (l ws : List (Val D)) (acc rows : List (List (Val D))),
      elemsSemL QC steps l = .ok ws → rowsSemL QC les ws = .ok rows →
      foldG (rowStep QC steps les) l acc = .ok (acc ++ rows)
  | [], ws, acc, rows, he, hr => by
    simp only [elemsSemL, Except.ok.injEq] at he; subst he
    simp only [rowsSemL, Except.ok.injEq] at hr; subst hr
    simp [foldG]
  | v :: vs, ws, acc, rows, he, hr => by
    simp only [elemsSemL] at he
    cases ho : elemSemL QC steps v with
    | error e => rw [ho] at he; simp at he
    | ok o =>
      rw [ho] at he; simp only [] at he
      cases hrs : elemsSemL QC steps vs with
      | error e => rw [hrs] at he; simp at he
      | ok rs =>
        rw [hrs] at he; simp only [Except.ok.injEq] at he; subst he
        cases o with
        | none =>
          simp only [Option.toList, List.nil_append] at hr
          simp only [foldG, rowStep, ho]
          exact foldG_rowsL QC steps les vs rs acc rows hrs hr
        | some u =>
          simp only [Option.toList, List.cons_append, List.nil_append, rowsSemL] at hr
          cases h1 : lesSem QC u les with
          | error e => rw [h1] at hr; simp at hr
          | ok row =>
            rw [h1] at hr; simp only [] at hr
            cases h2 : rowsSemL QC les rs with
            | error e => rw [h2] at hr; simp at hr
            | ok rs' =>
              rw [h2] at hr; simp only [Except.ok.injEq] at hr; subst hr
              simp only [foldG, rowStep, ho, h1]
              rw [foldG_rowsL QC steps les vs rs (acc ++ [row]) rs' hrs h2]
              simp

theorem colVarsL_names (cn : Nat → String) (t : Option Ty) : ∀ (les : List LE) (idx : Nat),
    (colVarsL cn t les idx).map (·.2) = colNames cn les.length idx
  | [], _ => rfl
  | le :: rest, idx => by simp [colVarsL, colNames, colVarsL_names cn t rest (idx + 1)]

theorem stepCondsL_ty (ptr : Bool) : ∀ (steps : List StepL) (cur : CExpr) (t : Option Ty),
    (stepCondsL ptr cur t steps).2.2 = chainTyL t steps
  | [], _, _ => rfl
  | .sel f :: rest, cur, t => by simp only [stepCondsL, chainTyL]; exact stepCondsL_ty ptr rest _ _
  | .whr c :: rest, cur, t => by simp only [stepCondsL, chainTyL]; exact stepCondsL_ty ptr rest _ _

/-- the chain record whose retrieval and loop header `compChainL` borrows -/
def ChainL.header (c : ChainL) : Chain := ⟨c.coll, c.bank, []⟩

/-- the token table `compileL` emits binds the chain's token -/
theorem tokChain_elemRowsL (B : Backend) (nm cn : Nat → String) (c : ChainL) (cols : List (String × LE))
    (N : Num D) (ev : Event D) :
    TokChain B nm ((compileL B nm cn (.elemRows c cols)).ctx N ev) c.header 0 := by
  intro ht
  have h := banksOf_chain B ht nm c.header 0 (fun _ _ => (chainBodyL B nm c 0 (rowK B nm cn (cols.map (·.2)))).1) [] []
  rw [List.append_nil] at h
  have htoks : ((compileL B nm cn (.elemRows c cols)).ctx N ev).tokens = chainToks B nm c.header 0 := by
    simp only [Package.ctx, compileL, compChainL]
    exact h.trans (by simp [banksOf])
  have := tokenBank_of_mem ((compileL B nm cn (.elemRows c cols)).ctx N ev) (by rw [htoks]; simp [chainToks])
    (nm (0 + 2), (B.collType c.header.coll).getD "?", c.header.bank) (by rw [htoks]; simp [chainToks])
  exact this

/-- **C01 (element-level rows with lazy operators)** — if the query denotes `rows` on the event, the
package the translator model emits writes exactly `rows`, and the class state it leaves behind again
has the column variables declared (the precondition of the next event). -/
theorem elemRowsL_correct_post (B : Backend) (hB : BackendBase B) (nm cn : Nat → String)
    (hinj : ∀ i j, nm i = nm j → i = j) (hcinj : ∀ i j, cn i = cn j → i = j)
    (hres : ∀ j, nm j ≠ "result") (hcres : ∀ k, cn k ≠ "result") (hdisj : ∀ j k, nm j ≠ cn k)
    (QC : QCtx D) (hcollT : ∀ name, B.collType name = QC.collType name)
    (c : ChainL) (cols : List (String × LE))
    (hwt : wtStepsL none c.steps = true)
    (hwtc : ∀ p ∈ cols, wtLE (chainTyL none c.steps) p.2 = true)
    (hmt : ∀ cty l, QC.ev.find c.bank = some (cty, .vec l) →
        ∀ v ∈ l, MethTyped v (methsStepsL c.steps) ∧ ∀ p ∈ cols, MethTyped v (methsLE p.2))
    (σc : Env D) (hσ : ∀ k, k < cols.length → (σc (cn k)).isSome = true)
    (rows : List (List (Val D)))
    (hden : denoteRows QC (FQL.toQuery (.elemRows c cols)) = .ok rows) :
    ∃ σ', runEvent (compileL B nm cn (.elemRows c cols)) QC.N σc QC.ev = .ok (rows, σ') ∧
      ∀ k, k < cols.length → (σ' (cn k)).isSome = true := by
  obtain ⟨ws, hchain, hrows⟩ := elemRowsL_denote QC c cols rows hden
  obtain ⟨cty, l, hct, hfind, hel⟩ := chainQL_ok QC _ "e" c ws hchain
  have hcoll : B.collType c.coll = some cty := by rw [hcollT]; exact hct
  let les := cols.map (·.2)
  let m := cols.length
  let body := chainBodyL B nm c 0 (rowK B nm cn les)
  let K : CExpr → Option Ty → List Stmt := fun _ _ => body.1
  let P := compileL B nm cn (.elemRows c cols)
  let C := P.ctx QC.N QC.ev
  have hCcols : C.cols = colNames cn les.length 0 := by
    simp only [C, Package.ctx, P, compileL]
    rw [zip_map_snd _ _ (by simp [colVarsL_names, colNames_length])]
    rw [colVarsL_names]
  have hlesm : les.length = m := by simp [les, m]
  have hbody : P.body = .block ((compChain B nm c.header 0 K).decls ++ (compChain B nm c.header 0 K).stmts) := rfl
  -- the declaration of the collection variable
  obtain ⟨hsimple, hnames⟩ := compChain_declsOK_base C B hB nm c.header 0 K
  obtain ⟨s1, hdecl, hr1, hdone, hfr1⟩ := exec_decls C (compChain B nm c.header 0 K).decls ⟨σc, []⟩ hsimple
    (by rw [hnames]; simp)
  have hx1 : (s1.env (nm 0)).isSome = true := by
    have := hdone (.decl (B.handleTy ((B.collType c.header.coll).getD "?")) (nm 0) none) (by simp [compChain])
    simpa [DeclOK] using this
  have hs1rows : s1.rows = [] := hr1
  -- the invariant carried through the loop
  let Pinv : St D → List (List (Val D)) → Prop := fun s acc => s.rows = acc ∧ ∀ k, k < m → (s.env (cn k)).isSome = true
  have hmt' := hmt cty l hfind
  have htok : TokChain B nm C c.header 0 := tokChain_elemRowsL B nm cn c cols QC.N QC.ev
  have hi1 : ∀ j, 0 + 3 ≤ j → nm (0 + 1) ≠ nm j := fun j hj e => by have := hinj _ _ e; omega
  obtain ⟨s', hex, hP'⟩ := compChain_correct_tok (β := List (List (Val D))) C QC rfl B hB nm hinj hres c.header 0 htok K cty l l
    hcoll hfind rfl (fun v _ p hp => by simp [ChainL.header, methsSteps] at hp) Pinv (rowStep QC c.steps les)
    (fun v => MethTyped v (methsStepsL c.steps) ∧ ∀ p ∈ cols, MethTyped v (methsLE p.2)) hmt'
    (by
      intro s t acc hPs hr hfr
      refine ⟨by rw [hr]; exact hPs.1, fun k hk => ?_⟩
      rw [hfr (cn k) (by
        rintro (⟨j, _, _, hj⟩ | hj)
        · exact hdisj j k hj.symm
        · exact hcres k hj)]
      exact hPs.2 k hk)
    (by
      intro s acc acc' w v hPs hg hev _ hobj
      obtain ⟨rfl, hq⟩ := hobj rfl
      simp only [ChainL.header, stepConds] at hev
      have hiv : s.env (nm (0 + 1)) = some (.val w) := by
        simp only [evalE] at hev
        cases hs : s.env (nm (0 + 1)) with
        | none => rw [hs] at hev; simp at hev
        | some sl =>
          rw [hs] at hev
          cases sl with
          | uninit => simp at hev
          | val u => simp only [Except.ok.injEq] at hev; rw [hev]
      simp only [rowStep] at hg
      cases ho : elemSemL QC c.steps w with
      | error e => rw [ho] at hg; simp at hg
      | ok o =>
        rw [ho] at hg
        obtain ⟨s2, hr2, _, hmo2, hnone, hsome⟩ := bodyL_correct C QC rfl nm hinj B.elemPtr (nm (0 + 1)) c.steps (0 + 3) hi1
          (rowK B nm cn les) s w o hiv hwt hq.1 ho
        cases o with
        | none =>
          simp only [Except.ok.injEq] at hg; subst hg
          exact ⟨s2, hnone rfl, by rw [hr2]; exact hPs.1, fun k hk => hmo2 _ (hPs.2 k hk)⟩
        | some u =>
          simp only [] at hg
          cases hrow : lesSem QC u les with
          | error e => rw [hrow] at hg; simp at hg
          | ok row =>
            rw [hrow] at hg; simp only [Except.ok.injEq] at hg; subst hg
            obtain ⟨hex2, hev2, hvars2, hty2, hobj2⟩ := hsome u rfl
            have hn1 := condsNext_ge nm B.elemPtr (.var (nm (0 + 1))) c.steps (0 + 3)
            have htyeq := stepCondsL_ty B.elemPtr c.steps (.var (nm (0 + 1))) none
            obtain ⟨s3, hex3, hrows3, hmo3⟩ := rowK_correct C QC rfl B nm cn hinj hcinj hdisj les
              (stepCondsL B.elemPtr (.var (nm (0 + 1))) none c.steps).2.1
              (stepCondsL B.elemPtr (.var (nm (0 + 1))) none c.steps).2.2 u
              (condsNext nm B.elemPtr (.var (nm (0 + 1))) c.steps (0 + 3)) hCcols
              (by
                intro y hy
                rw [hvars2 y hy]
                exact ⟨fun j hj e => by have := hinj _ _ e; omega, fun k => hdisj _ k⟩)
              hty2
              (by
                intro le hle
                simp only [les, List.mem_map] at hle
                obtain ⟨p, hp, rfl⟩ := hle
                rw [htyeq]; exact hwtc p hp)
              (by
                intro le hle
                simp only [les, List.mem_map] at hle
                obtain ⟨p, hp, rfl⟩ := hle
                cases hty' : (stepCondsL B.elemPtr (.var (nm (0 + 1))) none c.steps).2.2 with
                | some t => exact methTyped_of_hasTy (hty2 t hty') _
                | none => rw [hobj2 hty']; exact hq.2 p hp)
              row hrow s2 hev2
              (by intro k hk; exact hmo2 _ (hPs.2 k (by rw [← hlesm]; exact hk)))
            refine ⟨s3, ?_, ?_, fun k hk => hmo3 _ (hmo2 _ (hPs.2 k hk))⟩
            · exact hex2.trans hex3
            · rw [hrows3, hr2, hPs.1])
    s1 [] ([] ++ rows) hx1 (elemsSem_nil_steps QC l) (foldG_rowsL QC c.steps les l ws [] rows hel hrows)
    ⟨hs1rows, fun k hk => by
      have : cn k ∉ (compChain B nm c.header 0 K).decls.map declName := by
        rw [hnames]; simp only [List.mem_singleton]; exact fun e => hdisj 0 k e.symm
      rw [hfr1 _ this]; exact hσ k hk⟩
  refine ⟨keepClass P.classVars s'.env, ?_, ?_⟩
  · simp only [runEvent]
    rw [show P.body = .block ((compChain B nm c.header 0 K).decls ++ (compChain B nm c.header 0 K).stmts) from hbody]
    simp only [exec]
    rw [execs_append, hdecl]
    simp only []
    have hex' : execs C (compChain B nm c.header 0 K).stmts s1 = .ok s' := hex
    rw [hex']
    simp only [hP'.1, List.nil_append]
    rfl
  · intro k hk
    have hmem : cn k ∈ P.classVars.map (·.2) := by
      have h1 : cn k ∈ (colVarsL cn (chainTyL none c.steps) les 0).map (·.2) := by
        rw [colVarsL_names]; exact mem_colNames cn _ 0 k (Nat.zero_le _) (by rw [hlesm]; simpa using hk)
      simp only [P, compileL, List.map_append, List.mem_append]
      exact Or.inr h1
    have hany : P.classVars.any (fun p => decide (p.2 = cn k)) = true := by
      obtain ⟨p, hp, hpe⟩ := List.mem_map.1 hmem
      simp only [List.any_eq_true, decide_eq_true_eq]
      exact ⟨p, hp, hpe⟩
    simp only [keepClass, hany, if_true]
    exact hP'.2 k hk

/-- `elemRowsL_correct_post` without the post-state -/
theorem elemRowsL_correct (B : Backend) (hB : BackendBase B) (nm cn : Nat → String)
    (hinj : ∀ i j, nm i = nm j → i = j) (hcinj : ∀ i j, cn i = cn j → i = j)
    (hres : ∀ j, nm j ≠ "result") (hcres : ∀ k, cn k ≠ "result") (hdisj : ∀ j k, nm j ≠ cn k)
    (QC : QCtx D) (hcollT : ∀ name, B.collType name = QC.collType name)
    (c : ChainL) (cols : List (String × LE))
    (hwt : wtStepsL none c.steps = true)
    (hwtc : ∀ p ∈ cols, wtLE (chainTyL none c.steps) p.2 = true)
    (hmt : ∀ cty l, QC.ev.find c.bank = some (cty, .vec l) →
        ∀ v ∈ l, MethTyped v (methsStepsL c.steps) ∧ ∀ p ∈ cols, MethTyped v (methsLE p.2))
    (σc : Env D) (hσ : ∀ k, k < cols.length → (σc (cn k)).isSome = true)
    (rows : List (List (Val D)))
    (hden : denoteRows QC (FQL.toQuery (.elemRows c cols)) = .ok rows) :
    ∃ σ', runEvent (compileL B nm cn (.elemRows c cols)) QC.N σc QC.ev = .ok (rows, σ') := by
  obtain ⟨σ', h, _⟩ := elemRowsL_correct_post B hB nm cn hinj hcinj hres hcres hdisj QC hcollT c cols hwt hwtc hmt σc hσ rows hden
  exact ⟨σ', h⟩

end FaxVerif.Gen
