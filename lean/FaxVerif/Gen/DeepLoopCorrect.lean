/-
Gen — the combinators of the arbitrary-depth correctness proof (`Gen/DeepExprCorrect.lean`), stated over
ABSTRACT fragments and their specifications, so that the mutual induction only has to wire them:
  * `StmtSpec` / `BlockSpec`   what a fragment's statements compute (under `DeclsDone`) / what its block —
                               declarations first — computes from ANY state (`BlockSpec.of_stmt`);
  * `iter_keep_map_fold`       iterating a loop body over a list = filter, map, fold, element-at-a-time;
  * `loopD_correct`            the loop of one chain, from the specifications of its conditions' and its
                               `Select`'s blocks;
  * `condsD_snoc_correct`      one more `Where`: `bool r; … r = init; if (r) { [block of c] r = c; }`;
  * `efrag_seq`                two fragments over consecutive name ranges.
-/
import FaxVerif.Gen.DeepShape
namespace FaxVerif.Gen
open FaxVerif.Cpp FaxVerif.Linq
variable {D : Type}

/-- the fragment's statements, run in a state where `it` evaluates to `u` and the fragment's declarations are
done, end in a state where the value expression evaluates to some `w` with `R w`; rows untouched; only the
fragment's own names change -/
def StmtSpec (C : Ctx D) (nm : Nat → String) (f : EFrag) (n : Nat) (it : CExpr) (u : Val D) (R : Val D → Prop) : Prop :=
  ∀ s : St D, evalE C.N s.env it = .ok u → DeclsDone C.N f.decls s.env →
    ∃ s', execs C f.stmts s = .ok s' ∧ s'.rows = s.rows ∧ (∃ w, evalE C.N s'.env f.val = .ok w ∧ R w) ∧
      (∀ y, ¬ InRange nm n f.next y → s'.env y = s.env y)

/-- the same for the fragment's BLOCK (declarations, then statements), from any state -/
def BlockSpec (C : Ctx D) (nm : Nat → String) (f : EFrag) (n : Nat) (it : CExpr) (u : Val D) (R : Val D → Prop) : Prop :=
  ∀ s : St D, evalE C.N s.env it = .ok u →
    ∃ s', execs C (f.decls ++ f.stmts) s = .ok s' ∧ s'.rows = s.rows ∧ (∃ w, evalE C.N s'.env f.val = .ok w ∧ R w) ∧
      (∀ y, ¬ InRange nm n f.next y → s'.env y = s.env y)

theorem BlockSpec.of_stmt {C : Ctx D} {nm : Nat → String} {f : EFrag} {n : Nat} {it : CExpr} {u : Val D} {R : Val D → Prop}
    (hsh : FragShape C.N nm it n f) (hfr : ∀ y ∈ vars it, ∀ j, n ≤ j → y ≠ nm j)
    (h : StmtSpec C nm f n it u R) : BlockSpec C nm f n it u R := by
  intro s hcur
  obtain ⟨sD, hexD, hrD, hdone, hfrD⟩ := exec_decls C f.decls s hsh.simple hsh.nodup
  have hfrD' : ∀ y, ¬ InRange nm n f.next y → sD.env y = s.env y :=
    fun y hy => hfrD y (fun hm => hy (declsIn_names hsh.declsIn y hm))
  have hcurD : evalE C.N sD.env it = .ok u := by
    rw [evalE_cur_frame C.N nm it n n _ s.env sD.env hfr (Nat.le_refl _) hfrD']; exact hcur
  obtain ⟨s', hex, hr, hv, hfr'⟩ := h sD hcurD hdone
  refine ⟨s', by rw [execs_append, hexD]; exact hex, by rw [hr, hrD], hv, fun y hy => ?_⟩
  rw [hfr' y hy, hfrD' y hy]

theorem StmtSpec.mono {C : Ctx D} {nm : Nat → String} {f : EFrag} {n : Nat} {it : CExpr} {u : Val D} {R R' : Val D → Prop}
    (h : StmtSpec C nm f n it u R) (hR : ∀ w, R w → R' w) : StmtSpec C nm f n it u R' := by
  intro s hc hd
  obtain ⟨s', h1, h2, ⟨w, h3, h4⟩, h5⟩ := h s hc hd
  exact ⟨s', h1, h2, ⟨w, h3, hR w h4⟩, h5⟩

/-! ## iteration = filter, map, fold -/

theorem iter_keep_map_fold {β : Type} (C : Ctx D) (body : List Stmt) (i : String)
    (keep : Val D → Except Fault Bool) (F : Val D → Except Fault (Val D)) (P : St D → β → Prop)
    (g : β → Val D → Except Fault β) :
    ∀ (l r ws : List (Val D)) (s : St D) (b b' : β),
      (∀ u ∈ l, ∀ (s : St D) (b : β), P s b →
        (keep u = .ok false → ∃ s1, execs C body { s with env := s.env.set i u } = .ok s1 ∧ P s1 b) ∧
        (∀ w b1, keep u = .ok true → F u = .ok w → g b w = .ok b1 →
          ∃ s1, execs C body { s with env := s.env.set i u } = .ok s1 ∧ P s1 b1)) →
      keepE keep l = .ok r → mapE F r = .ok ws → foldG g ws b = .ok b' → P s b →
      ∃ s', iter (fun s v => execs C body { s with env := s.env.set i v }) l s = .ok s' ∧ P s' b'
  | [], r, ws, s, b, b', _, hk, hm, hf, hP => by
    simp only [keepE, Except.ok.injEq] at hk; subst hk
    simp only [mapE, Except.ok.injEq] at hm; subst hm
    simp only [foldG, Except.ok.injEq] at hf; subst hf
    exact ⟨s, rfl, hP⟩
  | v :: vs, r, ws, s, b, b', hbody, hk, hm, hf, hP => by
    simp only [keepE] at hk
    cases hkv : keep v with
    | error e => rw [hkv] at hk; simp at hk
    | ok bv =>
      rw [hkv] at hk; simp only [] at hk
      cases hrs : keepE keep vs with
      | error e => rw [hrs] at hk; simp at hk
      | ok rs =>
        rw [hrs] at hk; simp only [Except.ok.injEq] at hk; subst hk
        have hb := hbody v (by simp) s b hP
        have hbody' : ∀ u ∈ vs, ∀ (s : St D) (b : β), P s b →
            (keep u = .ok false → ∃ s1, execs C body { s with env := s.env.set i u } = .ok s1 ∧ P s1 b) ∧
            (∀ w b1, keep u = .ok true → F u = .ok w → g b w = .ok b1 →
              ∃ s1, execs C body { s with env := s.env.set i u } = .ok s1 ∧ P s1 b1) :=
          fun u hu => hbody u (by simp [hu])
        cases bv with
        | false =>
          simp only [Bool.false_eq_true, if_false] at hm
          obtain ⟨s1, hex1, hP1⟩ := hb.1 hkv
          obtain ⟨s', hit, hP'⟩ := iter_keep_map_fold C body i keep F P g vs rs ws s1 b b' hbody' hrs hm hf hP1
          exact ⟨s', by simp only [iter, hex1]; exact hit, hP'⟩
        | true =>
          simp only [if_true, mapE] at hm
          cases hFv : F v with
          | error e => rw [hFv] at hm; simp at hm
          | ok w =>
            rw [hFv] at hm; simp only [] at hm
            cases hms : mapE F rs with
            | error e => rw [hms] at hm; simp at hm
            | ok ws' =>
              rw [hms] at hm; simp only [Except.ok.injEq] at hm; subst hm
              simp only [foldG] at hf
              cases hg : g b w with
              | error e => rw [hg] at hf; simp at hf
              | ok b1 =>
                rw [hg] at hf; simp only [] at hf
                obtain ⟨s1, hex1, hP1⟩ := hb.2 w b1 hkv hFv hg
                obtain ⟨s', hit, hP'⟩ := iter_keep_map_fold C body i keep F P g vs rs ws' s1 b1 b' hbody' hrs hms hf hP1
                exact ⟨s', by simp only [iter, hex1]; exact hit, hP'⟩

/-! ## the loop of one chain -/

theorem loopD_correct {β : Type} (C : Ctx D) (nm : Nat → String) (hinj : ∀ i j, nm i = nm j → i = j)
    (ptr : Bool) (cur : CExpr) (m : String) (n : Nat) (K : CExpr → List Stmt) (cf fs : EFrag) (noConds : Bool)
    (v : Val D) (l : List (Val D)) (hmem : member v m [] = .ok (.vec l))
    (keep : Val D → Except Fault Bool) (F : Val D → Except Fault (Val D)) (Rw : Val D → Prop)
    (hge1 : n + 1 ≤ cf.next) (hge2 : cf.next ≤ fs.next)
    (hnil : noConds = true → ∀ u, keep u = .ok true)
    (hconds : noConds = false → ∀ u ∈ l, ∀ bv, keep u = .ok bv →
      BlockSpec C nm cf (n + 1) (.var (nm n)) u (fun w => asBool C.N w = some bv))
    (hsel : ∀ u ∈ l, ∀ w, F u = .ok w → BlockSpec C nm fs cf.next (.var (nm n)) u (fun w' => w' = w ∧ Rw w))
    (P : St D → β → Prop) (g : β → Val D → Except Fault β)
    (hstable : ∀ (s s' : St D) b, P s b → s'.rows = s.rows →
        (∀ y, ¬ InRange nm n fs.next y → s'.env y = s.env y) → P s' b)
    (hK : ∀ (s : St D) b b' w, P s b → g b w = .ok b' → evalE C.N s.env fs.val = .ok w → Rw w →
        ∃ s', execs C (K fs.val) s = .ok s' ∧ P s' b')
    (s : St D) (b b' : β) (r ws : List (Val D)) (hcur : evalE C.N s.env cur = .ok v)
    (hkeep : keepE keep l = .ok r) (hmap : mapE F r = .ok ws) (hfold : foldG g ws b = .ok b') (hP : P s b) :
    ∃ s', execs C [.loop (nm n) (.mem cur ptr m []) (loopBodyD noConds cf (fs.decls ++ fs.stmts ++ K fs.val))] s = .ok s' ∧
      P s' b' := by
  have hiR : InRange nm n fs.next (nm n) := ⟨n, Nat.le_refl n, by omega, rfl⟩
  have hi_cf : ¬ InRange nm (n + 1) cf.next (nm n) := by
    rintro ⟨j, hj1, _, hj3⟩; have := hinj _ _ hj3; omega
  have hi_fs : ¬ InRange nm cf.next fs.next (nm n) := by
    rintro ⟨j, hj1, _, hj3⟩; have := hinj _ _ hj3; omega
  -- the kept-element code, from a state where the loop variable holds `u`
  have hinner : ∀ u ∈ l, ∀ (s0 s1 : St D) (b0 b1 : β) w, P s0 b0 → s1.rows = s0.rows →
      (∀ y, ¬ InRange nm n fs.next y → s1.env y = s0.env y) → s1.env (nm n) = some (.val u) →
      F u = .ok w → g b0 w = .ok b1 →
      ∃ s2, execs C (fs.decls ++ fs.stmts ++ K fs.val) s1 = .ok s2 ∧ P s2 b1 := by
    intro u hu s0 s1 b0 b1 w hP0 hr1 hfr1 hi1 hFu hg
    obtain ⟨s2, hex2, hr2, ⟨w', hv2, hw', hRw⟩, hfr2⟩ := hsel u hu w hFu s1 (by simp [evalE, hi1])
    subst hw'
    have hP2 : P s2 b0 := hstable s0 s2 b0 hP0 (by rw [hr2, hr1]) (fun y hy => by
      rw [hfr2 y (fun h => hy (h.mono (by omega) (Nat.le_refl _))), hfr1 y hy])
    obtain ⟨s3, hex3, hP3⟩ := hK s2 b0 b1 w' hP2 hg hv2 hRw
    refine ⟨s3, ?_, hP3⟩
    rw [execs_append, hex2]; exact hex3
  have hbody : ∀ u ∈ l, ∀ (s : St D) (b : β), P s b →
      (keep u = .ok false → ∃ s1, execs C (loopBodyD noConds cf (fs.decls ++ fs.stmts ++ K fs.val))
          { s with env := s.env.set (nm n) u } = .ok s1 ∧ P s1 b) ∧
      (∀ w b1, keep u = .ok true → F u = .ok w → g b w = .ok b1 →
        ∃ s1, execs C (loopBodyD noConds cf (fs.decls ++ fs.stmts ++ K fs.val))
          { s with env := s.env.set (nm n) u } = .ok s1 ∧ P s1 b1) := by
    intro u hu s0 b0 hP0
    have hfr00 : ∀ y, ¬ InRange nm n fs.next y → (s0.env.set (nm n) u) y = s0.env y := by
      intro y hy
      have : y ≠ nm n := fun e => hy (e ▸ hiR)
      simp [Env.set, this]
    have hi00 : (s0.env.set (nm n) u) (nm n) = some (.val u) := by simp [Env.set]
    cases hw : noConds with
    | true =>
      have hk := hnil hw u
      refine ⟨fun h => by rw [hk] at h; simp at h, ?_⟩
      intro w b1 _ hFu hg
      simp only [loopBodyD, if_true]
      exact hinner u hu s0 { s0 with env := s0.env.set (nm n) u } b0 b1 w hP0 rfl hfr00 hi00 hFu hg
    | false =>
      simp only [loopBodyD, Bool.false_eq_true, if_false]
      have hc := hconds hw u hu
      constructor
      · intro hk
        obtain ⟨s1, hex1, hr1, ⟨wb, hv1, hwb⟩, hfr1⟩ := hc false hk { s0 with env := s0.env.set (nm n) u } (by simp [evalE, hi00])
        refine ⟨s1, ?_, hstable s0 s1 b0 hP0 (by rw [hr1]) (fun y hy => by
          rw [hfr1 y (fun h => hy (h.mono (by omega) (by omega)))]; exact hfr00 y hy)⟩
        rw [execs_append, hex1]
        simp [execs, exec, hv1, hwb]
      · intro w b1 hk hFu hg
        obtain ⟨s1, hex1, hr1, ⟨wb, hv1, hwb⟩, hfr1⟩ := hc true hk { s0 with env := s0.env.set (nm n) u } (by simp [evalE, hi00])
        have hi1 : s1.env (nm n) = some (.val u) := by rw [hfr1 _ hi_cf]; exact hi00
        obtain ⟨s2, hex2, hP2⟩ := hinner u hu s0 s1 b0 b1 w hP0 (by rw [hr1]) (fun y hy => by
          rw [hfr1 y (fun h => hy (h.mono (by omega) (by omega)))]; exact hfr00 y hy) hi1 hFu hg
        refine ⟨s2, ?_, hP2⟩
        rw [execs_append, hex1]
        simp only [execs, exec, hv1, hwb]
        rw [hex2]
  obtain ⟨s', hit, hP'⟩ := iter_keep_map_fold C _ (nm n) keep F P g l r ws s b b' hbody hkeep hmap hfold hP
  refine ⟨s', ?_, hP'⟩
  simp only [execs, exec, evalE, hcur, evalEs, hmem]
  rw [hit]

/-! ## one more `Where` -/

theorem deep_execs_cons_ok (C : Ctx D) (st : Stmt) (rest : List Stmt) (s s' : St D) (h : exec C st s = .ok s') :
    execs C (st :: rest) s = execs C rest s' := by simp [execs, h]

theorem deep_exec_ite_of (C : Ctx D) (c : CExpr) (thn els : List Stmt) (s : St D) (v : Val D) (b : Bool)
    (hv : evalE C.N s.env c = .ok v) (hb : asBool C.N v = some b) :
    exec C (.ite c thn els) s = if b then execs C thn s else execs C els s := by
  cases b <;> simp [exec, hv, hb]

theorem condsD_snoc_correct (C : Ctx D) (nm : Nat → String) (hinj : ∀ i j, nm i = nm j → i = j)
    (it : CExpr) (u : Val D) (n : Nat) (inner fc : EFrag) (bi : Bool) (R : Val D → Prop)
    (hfr : ∀ y ∈ vars it, ∀ j, n ≤ j → y ≠ nm j)
    (hshi : FragShape C.N nm it (n + 1) inner) (hshc : FragShape C.N nm it inner.next fc)
    (hinner : StmtSpec C nm inner (n + 1) it u (fun w => asBool C.N w = some bi))
    (hc : bi = true → BlockSpec C nm fc inner.next it u R) (hRf : bi = false → ∀ w, asBool C.N w = some false → R w) :
    StmtSpec C nm ⟨.decl "bool" (nm n) none :: inner.decls,
      inner.stmts ++ [.set (nm n) inner.val, .ite (.var (nm n)) (fc.decls ++ fc.stmts ++ [.set (nm n) fc.val]) []],
      .var (nm n), fc.next⟩ n it u R := by
  intro s hcur hdone
  dsimp only at hdone ⊢
  have hg1 := hshi.ge
  have hg2 := hshc.ge
  have hbdecl : (s.env (nm n)).isSome = true := by
    have := hdone (.decl "bool" (nm n) none) (by simp)
    simpa [DeclOK] using this
  have hdi : DeclsDone C.N inner.decls s.env := fun d hd => hdone d (by simp [hd])
  obtain ⟨s1, hex1, hr1, ⟨wi, hv1, hwi⟩, hfr1⟩ := hinner s hcur hdi
  have hbR : ¬ InRange nm (n + 1) inner.next (nm n) := by
    rintro ⟨j, hj1, _, hj3⟩; have := hinj _ _ hj3; omega
  have hb1 : (s1.env (nm n)).isSome = true := by rw [hfr1 _ hbR]; exact hbdecl
  obtain ⟨sl, hsl⟩ := Option.isSome_iff_exists.1 hb1
  have hset : exec C (.set (nm n) inner.val) s1 = .ok { s1 with env := s1.env.set (nm n) wi } := by simp [exec, hsl, hv1]
  have hb2 : evalE C.N (s1.env.set (nm n) wi) (.var (nm n)) = .ok wi := by simp [evalE, Env.set]
  have hfr2 : ∀ y, ¬ InRange nm n fc.next y → (s1.env.set (nm n) wi) y = s.env y := by
    intro y hy
    have hne : y ≠ nm n := fun e => hy ⟨n, Nat.le_refl n, by omega, e⟩
    simp only [Env.set, hne, if_false]
    exact hfr1 y (fun h => hy (h.mono (Nat.le_succ n) hg2))
  cases bi with
  | false =>
    refine ⟨{ s1 with env := s1.env.set (nm n) wi }, ?_, hr1, ⟨wi, hb2, hRf rfl wi hwi⟩, hfr2⟩
    rw [execs_append, hex1]
    simp only []
    have hite : exec C (.ite (.var (nm n)) (fc.decls ++ fc.stmts ++ [.set (nm n) fc.val]) []) { s1 with env := s1.env.set (nm n) wi } =
        .ok { s1 with env := s1.env.set (nm n) wi } := by
      rw [deep_exec_ite_of C _ _ _ _ wi false hb2 hwi]; simp [execs]
    rw [deep_execs_cons_ok C _ _ _ _ hset, deep_execs_cons_ok C _ _ _ _ hite]
    simp [execs]
  | true =>
    have hcur2 : evalE C.N (s1.env.set (nm n) wi) it = .ok u := by
      rw [evalE_cur_frame C.N nm it n n _ s.env _ hfr (Nat.le_refl _) hfr2]; exact hcur
    obtain ⟨s3, hex3, hr3, ⟨wc, hv3, hRc⟩, hfr3⟩ := hc rfl { s1 with env := s1.env.set (nm n) wi } hcur2
    have hb3 : (s3.env (nm n)).isSome = true := by
      rw [hfr3 _ (by rintro ⟨j, hj1, _, hj3⟩; have := hinj _ _ hj3; omega)]
      simp [Env.set]
    obtain ⟨sl3, hsl3⟩ := Option.isSome_iff_exists.1 hb3
    have hset3 : exec C (.set (nm n) fc.val) s3 = .ok { s3 with env := s3.env.set (nm n) wc } := by simp [exec, hsl3, hv3]
    refine ⟨{ s3 with env := s3.env.set (nm n) wc }, ?_, by show s3.rows = s.rows; rw [hr3]; exact hr1,
      ⟨wc, by simp [evalE, Env.set], hRc⟩, ?_⟩
    · rw [execs_append, hex1]
      simp only []
      rw [deep_execs_cons_ok C _ _ _ _ hset]
      have hite : exec C (.ite (.var (nm n)) (fc.decls ++ fc.stmts ++ [.set (nm n) fc.val]) []) { s1 with env := s1.env.set (nm n) wi } =
          .ok { s3 with env := s3.env.set (nm n) wc } := by
        rw [deep_exec_ite_of C _ _ _ _ wi true hb2 hwi]
        simp only [if_true]
        rw [execs_append, hex3]
        simp only []
        rw [deep_execs_cons_ok C _ _ _ _ hset3]; simp [execs]
      rw [deep_execs_cons_ok C _ _ _ _ hite]; simp [execs]
    · intro y hy
      have hne : y ≠ nm n := fun e => hy ⟨n, Nat.le_refl n, by omega, e⟩
      simp only [Env.set, hne, if_false]
      rw [hfr3 y (fun h => hy (h.mono (by omega) (Nat.le_refl _)))]; exact hfr2 y hy

/-! ## two fragments in a row -/

/-- running fragment `fa` then fragment `fb` (consecutive name ranges): both values are available in the
final state, nothing outside the two ranges is touched -/
theorem efrag_seq (C : Ctx D) (nm : Nat → String) (hinj : ∀ i j, nm i = nm j → i = j) (cur : CExpr) (v : Val D)
    (fa fb : EFrag) (n : Nat) (s : St D) (va vb : Val D)
    (hsa : FragShape C.N nm cur n fa) (hsb : FragShape C.N nm cur fa.next fb)
    (hfr : ∀ y ∈ vars cur, ∀ j, n ≤ j → y ≠ nm j) (hcur : evalE C.N s.env cur = .ok v)
    (hdone : DeclsDone C.N (fa.decls ++ fb.decls) s.env)
    (speca : StmtSpec C nm fa n cur v (fun w => w = va))
    (specb : StmtSpec C nm fb fa.next cur v (fun w => w = vb)) :
    ∃ s2, execs C (fa.stmts ++ fb.stmts) s = .ok s2 ∧
      s2.rows = s.rows ∧ evalE C.N s2.env fa.val = .ok va ∧ evalE C.N s2.env fb.val = .ok vb ∧
      (∀ y, ¬ InRange nm n fb.next y → s2.env y = s.env y) := by
  have h1 := hsa.ge
  have h2 := hsb.ge
  have hda : DeclsDone C.N fa.decls s.env := fun d hd => hdone d (by simp [hd])
  have hdb : DeclsDone C.N fb.decls s.env := fun d hd => hdone d (by simp [hd])
  obtain ⟨s1, hex1, hr1, ⟨wa, hv1, hwa⟩, hf1⟩ := speca s hcur hda
  subst hwa
  have hdb1 : DeclsDone C.N fb.decls s1.env :=
    hdb.transport hsb.declsIn (fun y hy => hf1 y (inRange_disjoint hinj hy))
  have hcur1 : evalE C.N s1.env cur = .ok v := by
    rw [evalE_cur_frame C.N nm cur n n _ s.env s1.env hfr (Nat.le_refl _) hf1]; exact hcur
  obtain ⟨s2, hex2, hr2, ⟨wb, hv2, hwb⟩, hf2⟩ := specb s1 hcur1 hdb1
  subst hwb
  refine ⟨s2, ?_, by rw [hr2, hr1], ?_, hv2, ?_⟩
  · rw [execs_append, hex1]; exact hex2
  · rw [← hv1]
    apply evalE_congr
    intro y hy
    apply hf2
    rcases hsa.valVars y hy with hc | hr
    · rintro ⟨j, hj1, _, hj3⟩; exact hfr y hc j (by omega) hj3
    · exact fun h => inRange_disjoint hinj h hr
  · intro y hy
    rw [hf2 y (fun h => hy (h.mono h1 (Nat.le_refl _))), hf1 y (fun h => hy (h.mono (Nat.le_refl _) h2))]

end FaxVerif.Gen
