/-
Gen/WfCorrectChain — what the definite-assignment checker `da` computes on the building blocks the
translator model emits for ONE chain `coll(bank).{Select|Where}*`:
  * `andLower_decls_da` / `andLower_stmts_da`: the lowered conjunction of fused `Where`s;
  * `cbPre_da` / `cbTail_da`: the loop body (`chainBody`) split into the conjunction and the guarded continuation;
  * `retr_block_da`: the retrieval block (`result` declared in its own block, the handle assigned);
  * `chain_plain`: retrieval + loop with a continuation that assigns no guard (Count / Sum / vector column / row fill);
  * `chain_first`: retrieval + loop with the `First()` capture `if (is_first) { is_first = false; v = cur; }` —
    the candidate facts `(is_first, y)` the body keeps are exactly those with `y` initialised at the head
    (or `y ∈ {is_first, v}`), they are an invariant, and `(is_first, v)` is among them.
No Mathlib.
-/
import FaxVerif.Gen.TokenTable
import FaxVerif.Gen.WfCorrectBase
namespace FaxVerif.Gen.Wf
open FaxVerif.Cpp FaxVerif.Gen

/-! ## the checker's rules, as rewriting lemmas -/

theorem da_set {C : DACtx} {s : DA} {x : String} {e : CExpr} (hx : x ∈ s.D) (he : okE s e = true) :
    da C (.set x e) s = some (s.assign x) := by simp [da, hx, he]

theorem da_push {C : DACtx} {s : DA} {x : String} {e : CExpr} (hx : x ∈ s.A) (he : okE s e = true) :
    da C (.push x e) s = some (s.assign x) := by simp [da, hx, he]

theorem da_clear {C : DACtx} {s : DA} {x : String} (hx : x ∈ s.A) :
    da C (.clear x) s = some (s.assign x) := by simp [da, hx]

theorem da_ite {C : DACtx} {s st se : DA} {c : CExpr} {thn els : List Stmt} (hc : okE s c = true)
    (ht : das C thn s = some st) (he : das C els (s.knowFalse c) = some se) (hnt : isThrow thn = false) :
    da C (.ite c thn els) s = some (DA.join s.D st se) := by
  simp [da, hc, ht, he, hnt]

theorem da_ite_throw {C : DACtx} {s se : DA} {c : CExpr} {m : String} {els : List Stmt} (hc : okE s c = true)
    (he : das C els (s.knowFalse c) = some se) :
    da C (.ite c [.throw m] els) s = some (se.restrict s.D) := by
  simp [da, das, hc, he, isThrow]

theorem da_block {C : DACtx} {s s1 : DA} {body : List Stmt} (h : das C body s = some s1) :
    da C (.block body) s = some (s1.restrict s.D) := by simp [da, h]

theorem das_cons {C : DACtx} {s s1 t : DA} {st : Stmt} {rest : List Stmt}
    (h1 : da C st s = some s1) (h2 : das C rest s1 = some t) : das C (st :: rest) s = some t := by
  simp only [das, h1]; exact h2

theorem isVec_bool : isVecType "bool" = false := by decide

theorem da_decl_none {C : DACtx} {s : DA} {ty n : String} (hn : n ∉ s.D) (hv : isVecType ty = false) :
    da C (.decl ty n none) s = some { D := n :: s.D, A := s.A, T := (s.fresh n).T, G := (s.fresh n).G } := by
  simp [da, hn, hv]

/-- the loop rule with both passes given -/
theorem loop_intro (C : DACtx) (s : DA) (x : String) (coll : CExpr) (body : List Stmt) (sb1 sb2 : DA)
    (hc : okE s coll = true) (hx : x ∉ s.D)
    (h1 : das C body (loopHead s x (loopCand s)) = some sb1)
    (h2 : das C body (loopHead s x ((loopCand s).filter sb1.eff)) = some sb2)
    (hall : ∀ p ∈ (loopCand s).filter sb1.eff, sb2.eff p = true) :
    da C (.loop x coll body) s = some { s with T := [], G := (loopCand s).filter sb1.eff } := by
  simp only [da, hc, hx, decide_false, Bool.not_false, Bool.and_self, if_true, h1, h2]
  simp only [List.all_eq_true]
  rw [if_pos hall]

/-! ## expressions of the fragment contain no opaque text -/

theorem clean_compPE (ptr : Bool) (cur : CExpr) (t : Ty) (hc : clean cur = true) :
    ∀ pe : PE, clean (compPE ptr cur t pe) = true
  | .int _ => by simp [compPE, clean]
  | .dbl _ _ => by simp [compPE, clean]
  | .bool _ => by simp [compPE, clean]
  | .it => by simpa [compPE] using hc
  | .meth _ _ => by simp [compPE, clean, cleanL, hc]
  | .bin op a b => by
    have ha := clean_compPE ptr cur t hc a
    have hb := clean_compPE ptr cur t hc b
    simp only [compPE]
    split <;> simp [clean, ha, hb]
  | .cmp _ a b => by simp [compPE, clean, clean_compPE ptr cur t hc a, clean_compPE ptr cur t hc b]
  | .neg a => by simp [compPE, clean, clean_compPE ptr cur t hc a]
  | .not a => by simp [compPE, clean, clean_compPE ptr cur t hc a]

theorem stepConds_clean (ptr : Bool) : ∀ (steps : List Step) (cur : CExpr) (curTy : Option Ty), clean cur = true →
    (∀ c ∈ (stepConds ptr cur curTy steps).1, clean c = true) ∧ clean (stepConds ptr cur curTy steps).2.1 = true
  | [], cur, curTy, hc => by simp [stepConds, hc]
  | .sel f :: rest, cur, curTy, hc => by
    simp only [stepConds]
    exact stepConds_clean ptr rest _ _ (clean_compPE _ _ _ hc f)
  | .whr c :: rest, cur, curTy, hc => by
    have ih := stepConds_clean ptr rest cur curTy hc
    simp only [stepConds]
    refine ⟨?_, ih.2⟩
    intro c' hc'
    rcases List.mem_cons.1 hc' with rfl | hc'
    · exact clean_compPE _ _ _ hc c
    · exact ih.1 c' hc'

/-! ## the lowered conjunction -/

theorem andLower_decls_da (C : DACtx) (nm : Nat → String) (hinj : ∀ i j, nm i = nm j → i = j) :
    ∀ (rc : List CExpr) (n : Nat) (s : DA),
      (∀ k, n ≤ k → k < (andLower nm rc n).next → nm k ∉ s.D) →
      ∃ t, das C (andLower nm rc n).decls s = some t ∧ t.A = s.A ∧ (∀ y ∈ s.D, y ∈ t.D) ∧
        (∀ k, n ≤ k → k < (andLower nm rc n).next → nm k ∈ t.D)
  | [], n, s, _ => ⟨s, by simp [andLower, das], rfl, fun _ h => h, by simp only [andLower]; omega⟩
  | [c], n, s, _ => ⟨s, by simp [andLower, das], rfl, fun _ h => h, by simp only [andLower]; omega⟩
  | c :: c2 :: rest, n, s, hf => by
    have hge := andLower_next_ge nm (c2 :: rest) (n + 1)
    have hnext : (andLower nm (c :: c2 :: rest) n).next = (andLower nm (c2 :: rest) (n + 1)).next := by
      simp [andLower]
    have hb : nm n ∉ s.D := hf n (Nat.le_refl _) (by rw [hnext]; omega)
    have h1 := da_decl_none (C := C) hb isVec_bool
    obtain ⟨t, ht, hA, hD, hR⟩ := andLower_decls_da C nm hinj (c2 :: rest) (n + 1)
      { D := nm n :: s.D, A := s.A, T := (s.fresh (nm n)).T, G := (s.fresh (nm n)).G } (by
      intro k hk1 hk2 hm
      rcases List.mem_cons.1 hm with e | hm
      · have := hinj _ _ e; omega
      · exact hf k (by omega) (by rw [hnext]; exact hk2) hm)
    refine ⟨t, ?_, hA, fun y hy => hD y (List.mem_cons_of_mem _ hy), ?_⟩
    · have hd : (andLower nm (c :: c2 :: rest) n).decls =
          .decl "bool" (nm n) none :: (andLower nm (c2 :: rest) (n + 1)).decls := by simp [andLower]
      rw [hd]; exact das_cons h1 ht
    · intro k hk1 hk2
      by_cases hk : k = n
      · subst hk; exact hD _ (List.mem_cons_self ..)
      · exact hR k (by omega) (by rw [← hnext]; exact hk2)

theorem andLower_stmts_da (C : DACtx) (nm : Nat → String) :
    ∀ (rc : List CExpr) (n : Nat) (s : DA), AsubD s →
      (∀ c ∈ rc, okE s c = true) →
      (∀ k, n ≤ k → k < (andLower nm rc n).next → nm k ∈ s.D) →
      ∃ t, das C (andLower nm rc n).stmts s = some t ∧ t.D = s.D ∧ AsubD t ∧ (∀ y ∈ s.A, y ∈ t.A) ∧
        (∀ y ∈ t.A, y ∈ s.A ∨ InRange nm n (andLower nm rc n).next y) ∧ okE t (andLower nm rc n).val = true
  | [], n, s, hs, _, _ => ⟨s, by simp [andLower, das], rfl, hs, fun _ h => h, fun _ h => Or.inl h,
      by simp [andLower, okE, clean, vars, subset]⟩
  | [c], n, s, hs, hok, _ => ⟨s, by simp [andLower, das], rfl, hs, fun _ h => h, fun _ h => Or.inl h,
      by simpa [andLower] using hok c (by simp)⟩
  | c :: c2 :: rest, n, s, hs, hok, hin => by
    have hge := andLower_next_ge nm (c2 :: rest) (n + 1)
    have hnext : (andLower nm (c :: c2 :: rest) n).next = (andLower nm (c2 :: rest) (n + 1)).next := by
      simp [andLower]
    obtain ⟨t1, h1, hD1, hs1, hA1, hU1, hv1⟩ := andLower_stmts_da C nm (c2 :: rest) (n + 1) s hs
      (fun c' hc' => hok c' (List.mem_cons_of_mem _ hc'))
      (fun k hk1 hk2 => hin k (by omega) (by rw [hnext]; exact hk2))
    have hb : nm n ∈ t1.D := by rw [hD1]; exact hin n (Nat.le_refl _) (by rw [hnext]; omega)
    -- b = inner.val
    have e2 := da_set (C := C) hb hv1
    -- if (b) { b = c; }
    have hbA : nm n ∈ (t1.assign (nm n)).A := List.mem_cons_self ..
    have hcb : okE (t1.assign (nm n)) (.var (nm n)) = true := okE_of rfl (by simpa [vars] using hbA)
    have hcc : okE (t1.assign (nm n)) c = true :=
      okE_mono (hok c (by simp)) (fun y hy => List.mem_cons_of_mem _ (hA1 y hy))
    have e3 := da_ite (C := C) (s := t1.assign (nm n)) (c := .var (nm n)) (thn := [.set (nm n) c]) (els := [])
      (st := (t1.assign (nm n)).assign (nm n)) (se := (t1.assign (nm n)).knowFalse (.var (nm n))) hcb
      (by rw [das_single]; exact da_set hb hcc) rfl rfl
    have hst : (andLower nm (c :: c2 :: rest) n).stmts = (andLower nm (c2 :: rest) (n + 1)).stmts ++
        [.set (nm n) (andLower nm (c2 :: rest) (n + 1)).val, .ite (.var (nm n)) [.set (nm n) c] []] := by
      simp [andLower]
    have hval : (andLower nm (c :: c2 :: rest) n).val = .var (nm n) := by simp [andLower]
    have hall : das C (andLower nm (c :: c2 :: rest) n).stmts s =
        some (DA.join (t1.assign (nm n)).D ((t1.assign (nm n)).assign (nm n)) ((t1.assign (nm n)).knowFalse (.var (nm n)))) := by
      rw [hst]
      exact das_append_some C h1 (das_cons e2 (by rw [das_single]; exact e3))
    obtain ⟨hsT, hAT, _⟩ := das_mono C _ s _ hall hs
    refine ⟨_, hall, by simpa [DA.join, DA.assign] using hD1, hsT, hAT, ?_, ?_⟩
    · intro y hy
      have hy' := ((mem_join_A _ _ _ _).1 hy).1.1
      simp only [DA.assign, List.mem_cons] at hy'
      rcases hy' with e | e | hy'
      · exact Or.inr ⟨n, Nat.le_refl _, by rw [hnext]; omega, e⟩
      · exact Or.inr ⟨n, Nat.le_refl _, by rw [hnext]; omega, e⟩
      · rcases hU1 y hy' with h | ⟨j, a, b, e⟩
        · exact Or.inl h
        · exact Or.inr ⟨j, by omega, by rw [hnext]; exact b, e⟩
    · rw [hval]
      refine okE_of rfl ?_
      intro x hx
      simp only [vars, List.mem_singleton] at hx; subst hx
      refine (mem_join_A _ _ _ _).2 ⟨⟨List.mem_cons_of_mem _ hbA, knowFalse_A _ _ _ hbA⟩, ?_⟩
      simpa [DA.assign] using hb

/-! ## the loop body of a chain, split into conjunction and guarded continuation -/

def cbNext (nm : Nat → String) (ptr : Bool) (it : CExpr) (steps : List Step) (n : Nat) : Nat :=
  match (stepConds ptr it none steps).1 with
  | [] => n
  | c :: cs => (andLower nm (c :: cs).reverse n).next

def cbPre (nm : Nat → String) (ptr : Bool) (it : CExpr) (steps : List Step) (n : Nat) : List Stmt :=
  match (stepConds ptr it none steps).1 with
  | [] => []
  | c :: cs => (andLower nm (c :: cs).reverse n).decls ++ (andLower nm (c :: cs).reverse n).stmts

def cbCond (nm : Nat → String) (ptr : Bool) (it : CExpr) (steps : List Step) (n : Nat) : CExpr :=
  match (stepConds ptr it none steps).1 with
  | [] => .bool true
  | c :: cs => (andLower nm (c :: cs).reverse n).val

def cbTail (nm : Nat → String) (ptr : Bool) (it : CExpr) (steps : List Step) (n : Nat) (ks : List Stmt) : List Stmt :=
  match (stepConds ptr it none steps).1 with
  | [] => ks
  | _ :: _ => [.ite (cbCond nm ptr it steps n) ks []]

/-- the value the continuation is applied to, and its type -/
def cbVal (ptr : Bool) (it : CExpr) (steps : List Step) : CExpr := (stepConds ptr it none steps).2.1
def cbTy (ptr : Bool) (it : CExpr) (steps : List Step) : Option Ty := (stepConds ptr it none steps).2.2

theorem chainBody_fst (nm : Nat → String) (ptr : Bool) (it : CExpr) (steps : List Step) (n : Nat)
    (k : CExpr → Option Ty → List Stmt) :
    (chainBody nm ptr it steps n k).1 = cbPre nm ptr it steps n ++ cbTail nm ptr it steps n (k (cbVal ptr it steps) (cbTy ptr it steps)) := by
  unfold chainBody cbPre cbTail cbCond cbVal cbTy
  cases h : (stepConds ptr it none steps).1 with
  | nil => simp only [h, List.nil_append]
  | cons c cs => simp only [h, List.append_assoc]

theorem chainBody_snd (nm : Nat → String) (ptr : Bool) (it : CExpr) (steps : List Step) (n : Nat)
    (k : CExpr → Option Ty → List Stmt) : (chainBody nm ptr it steps n k).2 = cbNext nm ptr it steps n := by
  unfold chainBody cbNext
  cases h : (stepConds ptr it none steps).1 with
  | nil => simp only [h]
  | cons c cs => simp only [h]

theorem cbNext_ge (nm : Nat → String) (ptr : Bool) (it : CExpr) (steps : List Step) (n : Nat) :
    n ≤ cbNext nm ptr it steps n := by
  unfold cbNext
  cases h : (stepConds ptr it none steps).1 with
  | nil => simp
  | cons c cs => simp only []; exact andLower_next_ge nm _ n

theorem cbVal_ok (ptr : Bool) (it : CExpr) (steps : List Step) (s : DA) (hit : clean it = true)
    (hiv : ∀ x ∈ vars it, x ∈ s.A) : okE s (cbVal ptr it steps) = true :=
  okE_of (stepConds_clean ptr steps it none hit).2 (fun x hx => hiv x ((stepConds_vars ptr steps it none).2 x hx))

theorem cbPre_da (C : DACtx) (nm : Nat → String) (hinj : ∀ i j, nm i = nm j → i = j)
    (ptr : Bool) (it : CExpr) (steps : List Step) (n : Nat) (h : DA) (hs : AsubD h)
    (hit : clean it = true) (hiv : ∀ x ∈ vars it, x ∈ h.A)
    (hf : ∀ k, n ≤ k → k < cbNext nm ptr it steps n → nm k ∉ h.D) :
    ∃ sp, das C (cbPre nm ptr it steps n) h = some sp ∧ AsubD sp ∧ (∀ y ∈ h.D, y ∈ sp.D) ∧ (∀ y ∈ h.A, y ∈ sp.A) ∧
      (∀ y ∈ sp.A, y ∈ h.A ∨ InRange nm n (cbNext nm ptr it steps n) y) ∧
      okE sp (cbCond nm ptr it steps n) = true := by
  unfold cbPre cbCond
  unfold cbNext at hf ⊢
  have hcl := (stepConds_clean ptr steps it none hit).1
  have hvs := (stepConds_vars ptr steps it none).1
  cases hc : (stepConds ptr it none steps).1 with
  | nil =>
    exact ⟨h, by simp [das], hs, fun _ a => a, fun _ a => a, fun _ a => Or.inl a, by simp [okE, clean, vars, subset]⟩
  | cons c cs =>
    rw [hc] at hf hcl hvs
    simp only [] at hf ⊢
    obtain ⟨t0, h0, hA0, hD0, hR0⟩ := andLower_decls_da C nm hinj (c :: cs).reverse n h hf
    have hs0 : AsubD t0 := fun y hy => hD0 y (hs y (hA0 ▸ hy))
    obtain ⟨t1, h1, hD1, hs1, hA1, hU1, hv1⟩ := andLower_stmts_da C nm (c :: cs).reverse n t0 hs0
      (fun c' hc' => okE_of (hcl c' (List.mem_reverse.1 hc'))
        (fun x hx => by rw [hA0]; exact hiv x (hvs c' (List.mem_reverse.1 hc') x hx)))
      hR0
    refine ⟨t1, das_append_some C h0 h1, hs1, fun y hy => by rw [hD1]; exact hD0 y hy,
      fun y hy => hA1 y (hA0 ▸ hy), fun y hy => ?_, hv1⟩
    rcases hU1 y hy with a | a
    · exact Or.inl (hA0 ▸ a)
    · exact Or.inr a

theorem cbTail_da (C : DACtx) (nm : Nat → String) (ptr : Bool) (it : CExpr) (steps : List Step) (n : Nat)
    (ks : List Stmt) (sp tk : DA) (hc : okE sp (cbCond nm ptr it steps n) = true)
    (hk : das C ks sp = some tk) (hnt : isThrow ks = false) :
    ∃ t, das C (cbTail nm ptr it steps n ks) sp = some t ∧ (∀ p, t.eff p = true → tk.eff p = true) ∧
      (∀ p, p ∈ tk.G → p ∈ sp.G → p.1 ∈ sp.D → p.2 ∈ sp.D → p ∈ t.G) := by
  unfold cbTail
  cases hcs : (stepConds ptr it none steps).1 with
  | nil => exact ⟨tk, hk, fun _ a => a, fun _ a _ _ _ => a⟩
  | cons c cs =>
    simp only []
    refine ⟨_, by rw [das_single]; exact da_ite hc hk rfl hnt, fun p hp => join_eff_left _ _ _ _ hp, ?_⟩
    intro p h1 h2 h3 h4
    exact join_G_of_left _ _ _ _ h1 (eff_of_G (by rw [knowFalse_G]; exact h2)) h3 h4

/-! ### what the body assigns -/

theorem andLower_asg (nm : Nat → String) : ∀ (rc : List CExpr) (n : Nat),
    asgL (andLower nm rc n).decls = [] ∧ ∀ y ∈ asgL (andLower nm rc n).stmts, InRange nm n (andLower nm rc n).next y
  | [], n => by simp [andLower, asgL]
  | [c], n => by simp [andLower, asgL]
  | c :: c2 :: rest, n => by
    have ih := andLower_asg nm (c2 :: rest) (n + 1)
    have hge := andLower_next_ge nm (c2 :: rest) (n + 1)
    constructor
    · simp only [andLower, asgL, asg, ih.1, List.append_nil]
    · intro y hy
      simp only [andLower, asgL_append, asgL, asg, List.mem_append, List.mem_cons, List.not_mem_nil, or_false,
        List.append_nil] at hy ⊢
      rcases hy with hy | hy | hy
      · obtain ⟨j, a, b, e⟩ := ih.2 y hy; exact ⟨j, by omega, b, e⟩
      · exact ⟨n, Nat.le_refl _, by omega, hy⟩
      · exact ⟨n, Nat.le_refl _, by omega, hy⟩

theorem cbPre_asg (nm : Nat → String) (ptr : Bool) (it : CExpr) (steps : List Step) (n : Nat) :
    ∀ y ∈ asgL (cbPre nm ptr it steps n), InRange nm n (cbNext nm ptr it steps n) y := by
  unfold cbPre cbNext
  cases h : (stepConds ptr it none steps).1 with
  | nil => simp [asgL]
  | cons c cs =>
    simp only [asgL_append, (andLower_asg nm (c :: cs).reverse n).1, List.nil_append]
    exact (andLower_asg nm (c :: cs).reverse n).2

theorem cbTail_asg (nm : Nat → String) (ptr : Bool) (it : CExpr) (steps : List Step) (n : Nat) (ks : List Stmt) :
    asgL (cbTail nm ptr it steps n ks) = asgL ks := by
  unfold cbTail
  cases h : (stepConds ptr it none steps).1 with
  | nil => rfl
  | cons c cs => simp [asgL, asg]

/-! ## retrieval block -/

/-- the retrieval of a chain: `{ T result (init); retrieve into result; x = result; }` -/
def retrBlock (B : Backend) (nm : Nat → String) (c : Chain) (n : Nat) : Stmt :=
  .block [.decl (B.handleTy ((B.collType c.coll).getD "?")) "result" B.resultInit,
          .retrieve B.how ((B.collType c.coll).getD "?") "result" (if B.how = "token" then .opaque "" else .str c.bank)
            (if B.how = "token" then nm (n + 2) else ""),
          .set (nm n) (.var "result")]

theorem compChain_stmts (B : Backend) (nm : Nat → String) (c : Chain) (n : Nat) (K : CExpr → Option Ty → List Stmt) :
    (compChain B nm c n K).stmts = [retrBlock B nm c n,
      .loop (nm (n + 1)) (.deref (.var (nm n))) (chainBody nm B.elemPtr (.var (nm (n + 1))) c.steps (n + 3) K).1] := rfl

theorem compChain_next_eq (B : Backend) (nm : Nat → String) (c : Chain) (n : Nat) (K : CExpr → Option Ty → List Stmt) :
    (compChain B nm c n K).next = cbNext nm B.elemPtr (.var (nm (n + 1))) c.steps (n + 3) := by
  simp only [compChain]; exact chainBody_snd ..

theorem retr_block_da (C : DACtx) (B : Backend) (hB : BackendBase B) (nm : Nat → String) (c : Chain) (n : Nat)
    (s : DA) (hs : AsubD s) (hx : nm n ∈ s.D) (hres : "result" ∉ s.D)
    (htok : B.how = "token" → nm (n + 2) ∈ C.tokens) :
    ∃ t, da C (retrBlock B nm c n) s = some t ∧ t.D = s.D ∧ AsubD t ∧ (∀ y ∈ s.A, y ∈ t.A) ∧ nm n ∈ t.A ∧
      (∀ f ∈ t.T, f ∈ s.T) ∧ (∀ p ∈ t.G, p ∈ s.G) := by
  -- the declaration of `result`
  have h1 : ∃ s1, da C (.decl (B.handleTy ((B.collType c.coll).getD "?")) "result" B.resultInit) s = some s1 ∧
      s1.D = "result" :: s.D ∧ (∀ f ∈ s1.T, f ∈ s.T) ∧ (∀ p ∈ s1.G, p ∈ s.G) := by
    rcases hB.resultInit with e | e
    · rw [e]
      exact ⟨_, da_decl_none hres (hB.handleNotVec _), rfl, fun f hf => ((mem_fresh_T _ _ _).1 hf).1,
        fun p hp => ((mem_fresh_G _ _ _).1 hp).1⟩
    · rw [e]
      refine ⟨{ D := "result" :: s.D, A := "result" :: s.A, T := (s.fresh "result").T, G := (s.fresh "result").G }, ?_, rfl,
        fun f hf => ((mem_fresh_T _ _ _).1 hf).1, fun p hp => ((mem_fresh_G _ _ _).1 hp).1⟩
      simp [da, hres, okE, clean, vars, subset, isTrueLit]
  obtain ⟨s1, e1, hD1, hT1, hG1⟩ := h1
  have hr1 : "result" ∈ s1.D := by rw [hD1]; exact List.mem_cons_self ..
  -- the retrieval
  have e2 : da C (.retrieve B.how ((B.collType c.coll).getD "?") "result" (if B.how = "token" then .opaque "" else .str c.bank)
      (if B.how = "token" then nm (n + 2) else "")) s1 = some (s1.assign "result") := by
    by_cases ht : B.how = "token"
    · simp [da, hr1, retrOk, ht, htok ht]
    · simp [da, hr1, retrOk, ht, okE, clean, vars, subset]
  -- the assignment to the handle
  have hx2 : nm n ∈ (s1.assign "result").D := by
    show nm n ∈ s1.D; rw [hD1]; exact List.mem_cons_of_mem _ hx
  have e3 : da C (.set (nm n) (.var "result")) (s1.assign "result") = some ((s1.assign "result").assign (nm n)) :=
    da_set hx2 (okE_of rfl (by simp [vars, DA.assign]))
  have hall := da_block (C := C) (s := s) (das_cons e1 (das_cons e2 (by rw [das_single]; exact e3)))
  obtain ⟨hsT, hAT, _⟩ := da_mono C _ s _ hall hs
  refine ⟨_, hall, rfl, hsT, hAT, ?_, ?_, ?_⟩
  · exact (mem_restrict_A _ _ _).2 ⟨List.mem_cons_self .., hx⟩
  · intro f hf
    have h := ((mem_restrict_T _ _ _).1 hf).1
    exact hT1 f ((mem_assign_T _ _ _).1 ((mem_assign_T _ _ _).1 h).1).1
  · intro p hp
    have h := ((mem_restrict_G _ _ _).1 hp).1
    exact hG1 p ((mem_assign_G _ _ _).1 ((mem_assign_G _ _ _).1 h).1).1

/-! ## retrieval + loop, continuation without guards -/

/-- the state after the loop of a chain: what the enclosing scope knew, no flag known `true`, the facts replaced -/
theorem chain_plain (C : DACtx) (B : Backend) (hB : BackendBase B) (nm : Nat → String)
    (hinj : ∀ i j, nm i = nm j → i = j)
    (c : Chain) (n : Nat) (K : CExpr → Option Ty → List Stmt) (s : DA) (hs : AsubD s)
    (hx : nm n ∈ s.D) (hres : "result" ∉ s.D) (hi : nm (n + 1) ∉ s.D)
    (hloc : ∀ k, n + 3 ≤ k → k < (compChain B nm c n K).next → nm k ∉ s.D)
    (htok : B.how = "token" → nm (n + 2) ∈ C.tokens)
    (hK : ∀ sp, AsubD sp → (∀ y ∈ s.D, y ∈ sp.D) → (∀ y ∈ s.A, y ∈ sp.A) → nm (n + 1) ∈ sp.A →
      ∃ tk, das C (K (cbVal B.elemPtr (.var (nm (n + 1))) c.steps) (cbTy B.elemPtr (.var (nm (n + 1))) c.steps)) sp = some tk)
    (hKt : isThrow (K (cbVal B.elemPtr (.var (nm (n + 1))) c.steps) (cbTy B.elemPtr (.var (nm (n + 1))) c.steps)) = false)
    (hng : ∀ f, (f ∈ s.T ∨ ∃ y, (f, y) ∈ s.G) →
      f ∉ asgL (K (cbVal B.elemPtr (.var (nm (n + 1))) c.steps) (cbTy B.elemPtr (.var (nm (n + 1))) c.steps))) :
    ∃ t, das C (compChain B nm c n K).stmts s = some t ∧ t.D = s.D ∧ AsubD t ∧ (∀ y ∈ s.A, y ∈ t.A) ∧ nm n ∈ t.A ∧
      t.T = [] ∧ (∀ p ∈ t.G, p ∈ s.G ∨ p.1 ∈ s.T) := by
  obtain ⟨s', e1, hD', hs', hA', hxA, hT', hG'⟩ := retr_block_da C B hB nm c n s hs hx hres htok
  rw [compChain_next_eq] at hloc
  -- the loop head
  have hi' : nm (n + 1) ∉ s'.D := by rw [hD']; exact hi
  have hcoll : okE s' (.deref (.var (nm n))) = true := okE_of rfl (by simpa [vars] using hxA)
  have hsh : AsubD (loopHead s' (nm (n + 1)) (loopCand s')) := by
    intro y hy
    rcases List.mem_cons.1 hy with e | hy
    · rw [e]; exact List.mem_cons_self ..
    · exact List.mem_cons_of_mem _ (hs' y hy)
  obtain ⟨sp, ep, hsp, hDp, hAp, _, hcp⟩ := cbPre_da C nm hinj B.elemPtr (.var (nm (n + 1))) c.steps (n + 3)
    (loopHead s' (nm (n + 1)) (loopCand s')) hsh rfl (by simp [vars, loopHead]) (by
      intro k hk1 hk2 hm
      rcases List.mem_cons.1 hm with e | hm
      · have := hinj _ _ e; omega
      · rw [hD'] at hm; exact hloc k hk1 hk2 hm)
  obtain ⟨tk, ek⟩ := hK sp hsp (fun y hy => hDp y (List.mem_cons_of_mem _ (hD' ▸ hy)))
    (fun y hy => hAp y (List.mem_cons_of_mem _ (hA' y hy))) (hAp _ (List.mem_cons_self ..))
  obtain ⟨sb, eb, _, _⟩ := cbTail_da C nm B.elemPtr (.var (nm (n + 1))) c.steps (n + 3) _ sp tk hcp ek hKt
  have hbody : das C (chainBody nm B.elemPtr (.var (nm (n + 1))) c.steps (n + 3) K).1
      (loopHead s' (nm (n + 1)) (loopCand s')) = some sb := by
    rw [chainBody_fst]; exact das_append_some C ep eb
  have hloop := loop_plain C s' (nm (n + 1)) (.deref (.var (nm n))) _ sb hcoll hi' hbody (by
    intro p hp hm
    obtain ⟨hg, h1, _⟩ := (mem_loopCand s' p).1 hp
    rw [chainBody_fst, asgL_append, cbTail_asg, List.mem_append] at hm
    rcases hm with hm | hm
    · obtain ⟨k, a, b, e⟩ := cbPre_asg nm B.elemPtr _ c.steps (n + 3) _ hm
      rw [hD', e] at h1
      exact hloc k a b h1
    · refine hng p.1 ?_ hm
      rcases hg with hg | hg
      · exact Or.inr ⟨p.2, hG' _ hg⟩
      · exact Or.inl (hT' _ hg))
  refine ⟨{ s' with T := [], G := loopCand s' },
    by rw [compChain_stmts]; exact das_cons e1 (by rw [das_single]; exact hloop), hD', hs', hA', hxA, rfl, ?_⟩
  intro p hp
  rcases ((mem_loopCand s' p).1 hp).1 with hg | hg
  · exact Or.inl (hG' _ hg)
  · exact Or.inr (hT' _ hg)

/-! ## retrieval + loop with the `First()` capture -/

/-- `if (is_first) { is_first = false; v = cur; }` -/
def firstK (fl v : String) (cur : CExpr) : Stmt := .ite (.var fl) [.set fl (.bool false), .set v cur] []

theorem firstK_da (C : DACtx) (sp : DA) (fl v : String) (cur : CExpr)
    (hflA : fl ∈ sp.A) (hflD : fl ∈ sp.D) (hvD : v ∈ sp.D) (hcur : okE sp cur = true) :
    ∃ tk, das C [firstK fl v cur] sp = some tk ∧
      (∀ y, tk.eff (fl, y) = true → y = v ∨ y = fl ∨ y ∈ sp.A) ∧
      (∀ y, (fl, y) ∈ sp.G → (y = v ∨ y = fl ∨ y ∈ sp.A) → y ∈ sp.D → (fl, y) ∈ tk.G) := by
  have e1 : da C (.set fl (.bool false)) sp = some (sp.assign fl) := da_set hflD (by simp [okE, clean, vars, subset])
  have e2 : da C (.set v cur) (sp.assign fl) = some ((sp.assign fl).assign v) :=
    da_set hvD (okE_mono hcur (fun y hy => List.mem_cons_of_mem _ hy))
  have hthn : das C [.set fl (.bool false), .set v cur] sp = some ((sp.assign fl).assign v) :=
    das_cons e1 (by rw [das_single]; exact e2)
  have hite : da C (firstK fl v cur) sp = some (DA.join sp.D ((sp.assign fl).assign v) (sp.knowFalse (.var fl))) :=
    da_ite (okE_of rfl (by simpa [vars] using hflA)) hthn rfl rfl
  refine ⟨_, by rw [das_single]; exact hite, ?_, ?_⟩
  · intro y hy
    have h := (eff_iff _ _).1 (join_eff_left _ _ _ _ hy)
    rcases h with h | h | h
    · have h' := ((mem_assign_G _ _ _).1 ((mem_assign_G _ _ _).1 h).1).2
      rcases h' with h' | h' | h'
      · exact absurd rfl h'
      · exact Or.inr (Or.inl h')
      · exact Or.inr (Or.inr h')
    · simp only [DA.assign, List.mem_cons] at h
      rcases h with h | h | h
      · exact Or.inl h
      · exact Or.inr (Or.inl h)
      · exact Or.inr (Or.inr h)
    · exact absurd rfl ((mem_assign_T _ _ _).1 ((mem_assign_T _ _ _).1 h).1).2
  · intro y hg hy hyD
    refine join_G_of_right _ _ _ _ (by rw [knowFalse_G]; exact hg) (eff_of_A ?_) hflD hyD
    simp only [DA.assign, List.mem_cons]
    rcases hy with h | h | h
    · exact Or.inl h
    · exact Or.inr (Or.inl h)
    · exact Or.inr (Or.inr h)

/-- one pass over the loop body of a `First()` chain, from a loop head carrying the facts `G0` -/
theorem first_body (C : DACtx) (nm : Nat → String) (hinj : ∀ i j, nm i = nm j → i = j)
    (ptr : Bool) (steps : List Step) (m : Nat) (i fl v : String) (s' : DA) (G0 : List (String × String))
    (hs' : AsubD s') (hi : i ∉ s'.D) (him : ∀ k, m ≤ k → i ≠ nm k)
    (hloc : ∀ k, m ≤ k → k < cbNext nm ptr (.var i) steps m → nm k ∉ s'.D)
    (hflA : fl ∈ s'.A) (hvD : v ∈ s'.D)
    (hG0 : ∀ p ∈ G0, p.1 ∈ s'.D ∧ p.2 ∈ s'.D) :
    ∃ sp sb : DA, das C (cbPre nm ptr (.var i) steps m ++
          cbTail nm ptr (.var i) steps m [firstK fl v (cbVal ptr (.var i) steps)]) (loopHead s' i G0) = some sb ∧
      (∀ y ∈ s'.A, y ∈ sp.A) ∧ (∀ y ∈ sp.A, y = i ∨ y ∈ s'.A ∨ InRange nm m (cbNext nm ptr (.var i) steps m) y) ∧
      (∀ y ∈ s'.D, y ∈ sp.D) ∧ (∀ p ∈ G0, p ∈ sp.G) ∧
      (∀ y, sb.eff (fl, y) = true → y = v ∨ y = fl ∨ y ∈ sp.A) ∧
      (∀ y, (fl, y) ∈ sp.G → (y = v ∨ y = fl ∨ y ∈ sp.A) → y ∈ sp.D → sb.eff (fl, y) = true) ∧
      (∀ p ∈ G0, p.1 ≠ fl → p.1 ≠ v → sb.eff p = true) := by
  have hsh : AsubD (loopHead s' i G0) := by
    intro y hy
    rcases List.mem_cons.1 hy with e | hy
    · rw [e]; exact List.mem_cons_self ..
    · exact List.mem_cons_of_mem _ (hs' y hy)
  have hfresh : ∀ k, m ≤ k → k < cbNext nm ptr (.var i) steps m → nm k ∉ (loopHead s' i G0).D := by
    intro k hk1 hk2 hm
    rcases List.mem_cons.1 hm with e | hm
    · exact him k hk1 e.symm
    · exact hloc k hk1 hk2 hm
  obtain ⟨sp, ep, hsp, hDp, hAp, hUp, hcp⟩ := cbPre_da C nm hinj ptr (.var i) steps m
    (loopHead s' i G0) hsh rfl (by simp [vars, loopHead]) hfresh
  have hflD : fl ∈ s'.D := hs' fl hflA
  obtain ⟨tk, ek, hup, hlow⟩ := firstK_da C sp fl v (cbVal ptr (.var i) steps)
    (hAp fl (List.mem_cons_of_mem _ hflA)) (hDp fl (List.mem_cons_of_mem _ hflD)) (hDp v (List.mem_cons_of_mem _ hvD))
    (cbVal_ok ptr (.var i) steps sp rfl (by
      intro x hx; simp only [vars, List.mem_singleton] at hx; subst hx; exact hAp _ (List.mem_cons_self ..)))
  obtain ⟨sb, eb, hbu, hbl⟩ := cbTail_da C nm ptr (.var i) steps m _ sp tk hcp ek rfl
  have hbody := das_append_some C ep eb
  -- names of the enclosing scope are not assigned by the conjunction
  have hpre : ∀ p ∈ G0, p.1 ∉ asgL (cbPre nm ptr (.var i) steps m) := by
    intro p hp hm
    obtain ⟨k, a, b, e⟩ := cbPre_asg nm ptr _ steps m _ hm
    exact hloc k a b (e ▸ (hG0 p hp).1)
  have hframe : ∀ p ∈ G0, p ∈ sp.G := fun p hp =>
    (das_frame C _ _ sp ep p (List.mem_cons_of_mem _ (hG0 p hp).1) (List.mem_cons_of_mem _ (hG0 p hp).2) (hpre p hp)).1 hp
  refine ⟨sp, sb, hbody, fun y hy => hAp y (List.mem_cons_of_mem _ hy), ?_, fun y hy => hDp y (List.mem_cons_of_mem _ hy),
    hframe, fun y hy => hup y (hbu _ hy), ?_, ?_⟩
  · intro y hy
    rcases hUp y hy with h | h
    · rcases List.mem_cons.1 h with e | h
      · exact Or.inl e
      · exact Or.inr (Or.inl h)
    · exact Or.inr (Or.inr h)
  · intro y hg hy hyD
    exact eff_of_G (hbl _ (hlow y hg hy hyD) hg (hDp fl (List.mem_cons_of_mem _ hflD)) hyD)
  · intro p hp h1 h2
    refine eff_of_G ((das_frame C _ _ sb hbody p (List.mem_cons_of_mem _ (hG0 p hp).1)
      (List.mem_cons_of_mem _ (hG0 p hp).2) ?_).1 hp)
    rw [asgL_append, cbTail_asg, List.mem_append]
    intro hm
    rcases hm with hm | hm
    · exact hpre p hp hm
    · have hm' : p.1 = fl ∨ p.1 = v := by simpa [asgL, asg, firstK] using hm
      rcases hm' with hm | hm
      · exact h1 hm
      · exact h2 hm

/-- **the `First()` loop is accepted** and leaves the fact "flag false ⇒ column variable set" -/
theorem chain_first (C : DACtx) (B : Backend) (hB : BackendBase B) (nm : Nat → String)
    (hinj : ∀ i j, nm i = nm j → i = j)
    (c : Chain) (n : Nat) (fl v : String) (s : DA) (hs : AsubD s)
    (hx : nm n ∈ s.D) (hres : "result" ∉ s.D) (hi : nm (n + 1) ∉ s.D)
    (hloc : ∀ k, n + 3 ≤ k → k < (compChain B nm c n (fun cur _ => [firstK fl v cur])).next → nm k ∉ s.D)
    (htok : B.how = "token" → nm (n + 2) ∈ C.tokens)
    (hflA : fl ∈ s.A) (hvD : v ∈ s.D) (hflx : fl ≠ nm n) (hflr : fl ≠ "result")
    (hpend : Pend s (fl, v))
    (hng : ∀ f, (f ∈ s.T ∨ ∃ y, (f, y) ∈ s.G) → f ≠ v) :
    ∃ t, das C (compChain B nm c n (fun cur _ => [firstK fl v cur])).stmts s = some t ∧ t.D = s.D ∧ AsubD t ∧
      (∀ y ∈ s.A, y ∈ t.A) ∧ nm n ∈ t.A ∧ t.T = [] ∧ (∀ p ∈ t.G, p ∈ s.G ∨ p.1 ∈ s.T) ∧ (fl, v) ∈ t.G := by
  obtain ⟨s', e1, hD', hs', hA', hxA, hT', hG'⟩ := retr_block_da C B hB nm c n s hs hx hres htok
  rw [compChain_next_eq] at hloc
  have hflD : fl ∈ s.D := hs fl hflA
  have hpend' : Pend s' (fl, v) :=
    (da_frame C _ s s' e1 (fl, v) hflD hvD (by simp [retrBlock, asg, asgL, hflx, hflr])).2 hpend
  have hi' : nm (n + 1) ∉ s'.D := by rw [hD']; exact hi
  have hcoll : okE s' (.deref (.var (nm n))) = true := okE_of rfl (by simpa [vars] using hxA)
  have hloc' : ∀ k, n + 3 ≤ k → k < cbNext nm B.elemPtr (.var (nm (n + 1))) c.steps (n + 3) → nm k ∉ s'.D := by
    rw [hD']; exact hloc
  have him : ∀ k, n + 3 ≤ k → nm (n + 1) ≠ nm k := fun k hk e => by have := hinj _ _ e; omega
  have hcand : ∀ p ∈ loopCand s', p.1 ∈ s'.D ∧ p.2 ∈ s'.D := fun p hp => ((mem_loopCand s' p).1 hp).2
  have hfvc : (fl, v) ∈ loopCand s' := (mem_loopCand s' _).2 ⟨hpend'.symm, hD' ▸ hflD, hD' ▸ hvD⟩
  -- first pass
  obtain ⟨sp1, sb1, eb1, _, hU1, hDl1, hF1, hup1, hlow1, _⟩ := first_body C nm hinj B.elemPtr c.steps (n + 3)
    (nm (n + 1)) fl v s' (loopCand s') hs' hi' him hloc' (hA' fl hflA) (hD' ▸ hvD) hcand
  -- second pass
  have hinv : ∀ p ∈ (loopCand s').filter sb1.eff, p.1 ∈ s'.D ∧ p.2 ∈ s'.D :=
    fun p hp => hcand p (List.mem_filter.1 hp).1
  obtain ⟨sp2, sb2, eb2, hA2, _, hDl2, hF2, _, hlow2, hfr2⟩ := first_body C nm hinj B.elemPtr c.steps (n + 3)
    (nm (n + 1)) fl v s' ((loopCand s').filter sb1.eff) hs' hi' him hloc' (hA' fl hflA) (hD' ▸ hvD) hinv
  have hall : ∀ p ∈ (loopCand s').filter sb1.eff, sb2.eff p = true := by
    intro p hp
    obtain ⟨hpc, hpe⟩ := List.mem_filter.1 hp
    obtain ⟨hgd, hp1, hp2⟩ := (mem_loopCand s' p).1 hpc
    by_cases hfl : p.1 = fl
    · obtain ⟨f, y⟩ := p
      simp only at hfl hp2; subst hfl
      refine hlow2 y (hF2 _ hp) ?_ (hDl2 y hp2)
      rcases hup1 y hpe with h | h | h
      · exact Or.inl h
      · exact Or.inr (Or.inl h)
      · rcases hU1 y h with h | h | ⟨k, a, b, e⟩
        · exact absurd (h ▸ hp2) hi'
        · exact Or.inr (Or.inr (hA2 y h))
        · exact absurd (e ▸ hp2) (hloc' k a b)
    · refine hfr2 p hp hfl (hng p.1 ?_)
      rcases hgd with hg | hg
      · exact Or.inr ⟨p.2, hG' _ hg⟩
      · exact Or.inl (hT' _ hg)
  have hloop := loop_intro C s' (nm (n + 1)) (.deref (.var (nm n)))
    (chainBody nm B.elemPtr (.var (nm (n + 1))) c.steps (n + 3) (fun cur _ => [firstK fl v cur])).1 sb1 sb2 hcoll hi'
    (by rw [chainBody_fst]; exact eb1) (by rw [chainBody_fst]; exact eb2) hall
  refine ⟨{ s' with T := [], G := (loopCand s').filter sb1.eff },
    by rw [compChain_stmts]; exact das_cons e1 (by rw [das_single]; exact hloop), hD', hs', hA', hxA, rfl, ?_, ?_⟩
  · intro p hp
    rcases ((mem_loopCand s' p).1 (List.mem_filter.1 hp).1).1 with hg | hg
    · exact Or.inl (hG' _ hg)
    · exact Or.inr (hT' _ hg)
  · refine List.mem_filter.2 ⟨hfvc, hlow1 v (hF1 _ hfvc) (Or.inl rfl) (hDl1 v (hD' ▸ hvD))⟩

end FaxVerif.Gen.Wf
