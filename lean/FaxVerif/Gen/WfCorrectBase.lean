/-
Gen/WfCorrect* — the static checkers `WellFormed` / `EventLocal` (Cpp/Check.lean) ACCEPT every package the
translator model `Gen.compile` produces (a syntactic invariant of the generator; before this file it was
only sampled, per generated query).

This file: lemmas about the checkers themselves, for ARBITRARY statements —
  * `da_frame`: a guard fact `(f, y)` about names of the enclosing scope survives any accepted statement
    that does not assign `f` (both as a listed fact and as "listed, or `f` still known true");
  * `loop_plain`: a loop whose body assigns no guard of a candidate fact is accepted as soon as its
    body is, and keeps every candidate fact;
  * `da_noLine` / `emp_total`: whatever `da` accepts contains no uninterpreted line, and `emp` never
    rejects a program without uninterpreted lines (its loop-invariance check always succeeds, because
    the analysis is pointwise in the tracked name — `emp_pt`).
No Mathlib.
-/
import FaxVerif.Cpp.CheckSound
namespace FaxVerif.Gen.Wf
open FaxVerif.Cpp

/-! ## small facts about the analysis-state operations -/

theorem eff_iff (s : DA) (p : String × String) :
    s.eff p = true ↔ p ∈ s.G ∨ p.2 ∈ s.A ∨ p.1 ∈ s.T := by
  simp [DA.eff, or_assoc]

/-- the fact is listed, or its guard is still known to be `true` -/
def Pend (s : DA) (p : String × String) : Prop := p.1 ∈ s.T ∨ p ∈ s.G

theorem eff_of_pend {s : DA} {p : String × String} (h : Pend s p) : s.eff p = true := by
  rw [eff_iff]; rcases h with h | h
  · exact Or.inr (Or.inr h)
  · exact Or.inl h

theorem eff_of_G {s : DA} {p : String × String} (h : p ∈ s.G) : s.eff p = true :=
  (eff_iff s p).2 (Or.inl h)

theorem eff_of_A {s : DA} {p : String × String} (h : p.2 ∈ s.A) : s.eff p = true :=
  (eff_iff s p).2 (Or.inr (Or.inl h))

theorem knowFalse_G (s : DA) (c : CExpr) : (s.knowFalse c).G = s.G := by cases c <;> rfl
theorem knowFalse_T (s : DA) (c : CExpr) : (s.knowFalse c).T = s.T := by cases c <;> rfl

theorem inD_iff (D0 : List String) (p : String × String) : inD D0 p = true ↔ p.1 ∈ D0 ∧ p.2 ∈ D0 := by
  simp [inD]

theorem mem_join_G (D0 : List String) (st se : DA) (p : String × String) :
    p ∈ (DA.join D0 st se).G ↔ ((p ∈ st.G ∧ se.eff p = true) ∨ (p ∈ se.G ∧ st.eff p = true)) ∧ p.1 ∈ D0 ∧ p.2 ∈ D0 := by
  simp only [DA.join, List.mem_filter, List.mem_append, inD_iff]

theorem mem_join_A (D0 : List String) (st se : DA) (y : String) :
    y ∈ (DA.join D0 st se).A ↔ (y ∈ st.A ∧ y ∈ se.A) ∧ y ∈ D0 := by
  simp only [DA.join, List.mem_filter, mem_inter, decide_eq_true_eq]

theorem mem_join_T (D0 : List String) (st se : DA) (y : String) :
    y ∈ (DA.join D0 st se).T ↔ (y ∈ st.T ∧ y ∈ se.T) ∧ y ∈ D0 := by
  simp only [DA.join, List.mem_filter, mem_inter, decide_eq_true_eq]

theorem join_eff_left (D0 : List String) (st se : DA) (p : String × String)
    (h : (DA.join D0 st se).eff p = true) : st.eff p = true := by
  rw [eff_iff] at h ⊢
  rcases h with h | h | h
  · rw [mem_join_G] at h
    rcases h.1 with ⟨h1, _⟩ | ⟨_, h2⟩
    · exact Or.inl h1
    · exact (eff_iff st p).1 h2
  · exact Or.inr (Or.inl ((mem_join_A _ _ _ _).1 h).1.1)
  · exact Or.inr (Or.inr ((mem_join_T _ _ _ _).1 h).1.1)

theorem join_G_of_right (D0 : List String) (st se : DA) (p : String × String)
    (h : p ∈ se.G) (he : st.eff p = true) (h1 : p.1 ∈ D0) (h2 : p.2 ∈ D0) : p ∈ (DA.join D0 st se).G :=
  (mem_join_G _ _ _ _).2 ⟨Or.inr ⟨h, he⟩, h1, h2⟩

theorem join_G_of_left (D0 : List String) (st se : DA) (p : String × String)
    (h : p ∈ st.G) (he : se.eff p = true) (h1 : p.1 ∈ D0) (h2 : p.2 ∈ D0) : p ∈ (DA.join D0 st se).G :=
  (mem_join_G _ _ _ _).2 ⟨Or.inl ⟨h, he⟩, h1, h2⟩

theorem mem_assign_G (s : DA) (x : String) (p : String × String) :
    p ∈ (s.assign x).G ↔ p ∈ s.G ∧ (p.1 ≠ x ∨ p.2 = x ∨ p.2 ∈ s.A) := by
  simp [DA.assign, List.mem_filter]

theorem mem_assign_T (s : DA) (x f : String) : f ∈ (s.assign x).T ↔ f ∈ s.T ∧ f ≠ x := by
  simp [DA.assign, List.mem_filter]

theorem mem_restrict_G (s : DA) (D0 : List String) (p : String × String) :
    p ∈ (s.restrict D0).G ↔ p ∈ s.G ∧ p.1 ∈ D0 ∧ p.2 ∈ D0 := by
  simp only [DA.restrict, List.mem_filter, inD_iff]

theorem mem_restrict_T (s : DA) (D0 : List String) (f : String) :
    f ∈ (s.restrict D0).T ↔ f ∈ s.T ∧ f ∈ D0 := by
  simp [DA.restrict, List.mem_filter]

theorem mem_restrict_A (s : DA) (D0 : List String) (f : String) :
    f ∈ (s.restrict D0).A ↔ f ∈ s.A ∧ f ∈ D0 := by
  simp [DA.restrict, List.mem_filter]

theorem mem_fresh_G (s : DA) (n : String) (p : String × String) :
    p ∈ (s.fresh n).G ↔ p ∈ s.G ∧ p.1 ≠ n ∧ p.2 ≠ n := by
  simp [DA.fresh, List.mem_filter]

theorem mem_fresh_T (s : DA) (n f : String) : f ∈ (s.fresh n).T ↔ f ∈ s.T ∧ f ≠ n := by
  simp [DA.fresh, List.mem_filter]

theorem mem_loopCand (s : DA) (p : String × String) :
    p ∈ loopCand s ↔ (p ∈ s.G ∨ p.1 ∈ s.T) ∧ p.1 ∈ s.D ∧ p.2 ∈ s.D := by
  simp only [loopCand, List.mem_filter, List.mem_append, List.mem_flatMap, List.mem_map, inD_iff]
  constructor
  · rintro ⟨h | ⟨f, hf, y, hy, rfl⟩, h1, h2⟩
    · exact ⟨Or.inl h, h1, h2⟩
    · exact ⟨Or.inr hf, h1, h2⟩
  · rintro ⟨h | h, h1, h2⟩
    · exact ⟨Or.inl h, h1, h2⟩
    · exact ⟨Or.inr ⟨p.1, h, p.2, h2, rfl⟩, h1, h2⟩

theorem okE_mono {s t : DA} {e : CExpr} (h : okE s e = true) (hA : ∀ y ∈ s.A, y ∈ t.A) : okE t e = true := by
  simp only [okE, Bool.and_eq_true, subset_iff] at h ⊢
  exact ⟨h.1, fun x hx => hA x (h.2 x hx)⟩

theorem okE_of {s : DA} {e : CExpr} (hc : clean e = true) (hv : ∀ x ∈ vars e, x ∈ s.A) : okE s e = true := by
  simp only [okE, Bool.and_eq_true, subset_iff]; exact ⟨hc, hv⟩

/-! ## sequences -/

theorem das_append (C : DACtx) : ∀ (a b : List Stmt) (s : DA),
    das C (a ++ b) s = (match das C a s with
      | some s' => das C b s'
      | none => none)
  | [], b, s => by simp [das]
  | st :: a, b, s => by
    simp only [List.cons_append, das]
    cases da C st s with
    | none => rfl
    | some s' => simp only []; exact das_append C a b s'

theorem das_append_some (C : DACtx) {a b : List Stmt} {s s1 s2 : DA}
    (h1 : das C a s = some s1) (h2 : das C b s1 = some s2) : das C (a ++ b) s = some s2 := by
  rw [das_append, h1]; exact h2

theorem das_single (C : DACtx) (st : Stmt) (s : DA) : das C [st] s = da C st s := by
  simp only [das]; cases da C st s <;> rfl

/-- declared names only grow within a scope (no hypothesis on the state) -/
theorem da_D (C : DACtx) (st : Stmt) (s t : DA) (h : da C st s = some t) :
    t.D = s.D ∨ ∃ n, t.D = n :: s.D := by
  cases st with
  | block body =>
    simp only [da] at h; split at h
    · simp only [Option.some.injEq] at h; subst h; exact Or.inl rfl
    · simp at h
  | loop x coll body =>
    simp only [da] at h
    split at h
    · split at h
      · simp at h
      · split at h
        · simp at h
        · split at h
          · simp only [Option.some.injEq] at h; subst h; exact Or.inl rfl
          · simp at h
    · simp at h
  | ite c thn els =>
    simp only [da] at h
    split at h
    · split at h
      · simp at h
      · split at h
        · simp at h
        · split at h <;> (simp only [Option.some.injEq] at h; subst h; exact Or.inl rfl)
    · simp at h
  | decl ty n init =>
    simp only [da] at h
    split at h
    · simp at h
    · cases init with
      | some e =>
        simp only at h
        split at h
        · simp only [Option.some.injEq] at h; subst h; exact Or.inr ⟨n, rfl⟩
        · simp at h
      | none =>
        simp only at h
        split at h <;> (simp only [Option.some.injEq] at h; subst h; exact Or.inr ⟨n, rfl⟩)
  | set x e => simp only [da] at h; split at h <;> simp at h; subst h; exact Or.inl rfl
  | push x e => simp only [da] at h; split at h <;> simp at h; subst h; exact Or.inl rfl
  | clear x => simp only [da] at h; split at h <;> simp at h; subst h; exact Or.inl rfl
  | fill _ => simp only [da] at h; split at h <;> simp at h; subst h; exact Or.inl rfl
  | throw _ => simp only [da, Option.some.injEq] at h; subst h; exact Or.inl rfl
  | retrieve how _ v bank token => simp only [da] at h; split at h <;> simp at h; subst h; exact Or.inl rfl
  | line _ => simp [da] at h

theorem da_Dsub (C : DACtx) (st : Stmt) (s t : DA) (h : da C st s = some t) : ∀ x ∈ s.D, x ∈ t.D := by
  intro x hx
  rcases da_D C st s t h with e | ⟨n, e⟩ <;> rw [e]
  · exact hx
  · exact List.mem_cons_of_mem _ hx

theorem das_Dsub (C : DACtx) : ∀ (l : List Stmt) (s t : DA), das C l s = some t → ∀ x ∈ s.D, x ∈ t.D
  | [], s, t, h => by simp only [das, Option.some.injEq] at h; subst h; exact fun _ h => h
  | st :: rest, s, t, h => by
    simp only [das] at h
    split at h
    · rename_i s1 h1
      exact fun x hx => das_Dsub C rest s1 t h x (da_Dsub C st s s1 h1 x hx)
    · simp at h

/-! ## names a statement assigns (declarations excluded) -/

mutual
  def asg : Stmt → List String
    | .block body => asgL body
    | .loop _ _ body => asgL body
    | .ite _ thn els => asgL thn ++ asgL els
    | .set x _ => [x]
    | .push x _ => [x]
    | .clear x => [x]
    | .retrieve _ _ v _ _ => [v]
    | _ => []
  def asgL : List Stmt → List String
    | [] => []
    | s :: ss => asg s ++ asgL ss
end

theorem asgL_append : ∀ (a b : List Stmt), asgL (a ++ b) = asgL a ++ asgL b
  | [], b => by simp [asgL]
  | s :: a, b => by simp [asgL, asgL_append a b]

/-! ## the frame lemma -/

mutual
  /-- a fact about two names of the enclosing scope whose guard is not assigned survives -/
  theorem da_frame (C : DACtx) : ∀ (st : Stmt) (s t : DA), da C st s = some t →
      ∀ p : String × String, p.1 ∈ s.D → p.2 ∈ s.D → p.1 ∉ asg st →
        (p ∈ s.G → p ∈ t.G) ∧ (Pend s p → Pend t p)
    | .block body, s, t, h, p, h1, h2, hna => by
      simp only [da] at h
      split at h
      · rename_i s1 hb
        simp only [Option.some.injEq] at h; subst h
        obtain ⟨ihG, ihP⟩ := das_frame C body s s1 hb p h1 h2 (by simpa [asg] using hna)
        refine ⟨fun hg => (mem_restrict_G _ _ _).2 ⟨ihG hg, h1, h2⟩, fun hp => ?_⟩
        rcases ihP hp with hT | hG
        · exact Or.inl ((mem_restrict_T _ _ _).2 ⟨hT, h1⟩)
        · exact Or.inr ((mem_restrict_G _ _ _).2 ⟨hG, h1, h2⟩)
      · simp at h
    | .loop x coll body, s, t, h, p, h1, h2, hna => by
      simp only [da] at h
      split at h
      · split at h
        · simp at h
        · rename_i sb1 hb1
          split at h
          · simp at h
          · split at h
            · simp only [Option.some.injEq] at h; subst h
              have key : Pend s p → p ∈ (loopCand s).filter sb1.eff := by
                intro hp
                have hc : p ∈ loopCand s := (mem_loopCand s p).2 ⟨hp.symm, h1, h2⟩
                have hb := (das_frame C body (loopHead s x (loopCand s)) sb1 hb1 p
                  (List.mem_cons_of_mem _ h1) (List.mem_cons_of_mem _ h2) (by simpa [asg] using hna)).1 hc
                exact List.mem_filter.2 ⟨hc, eff_of_G hb⟩
              exact ⟨fun hg => key (Or.inr hg), fun hp => Or.inr (key hp)⟩
            · simp at h
      · simp at h
    | .ite c thn els, s, t, h, p, h1, h2, hna => by
      have hna' : p.1 ∉ asgL thn ∧ p.1 ∉ asgL els := by simpa [asg, not_or] using hna
      simp only [da] at h
      split at h
      · split at h
        · simp at h
        · rename_i st hst
          obtain ⟨tG, tP⟩ := das_frame C thn s st hst p h1 h2 hna'.1
          split at h
          · simp at h
          · rename_i se hse
            obtain ⟨eG, eP⟩ := das_frame C els (s.knowFalse c) se hse p
              (by rw [knowFalse_D]; exact h1) (by rw [knowFalse_D]; exact h2) hna'.2
            have eG' : p ∈ s.G → p ∈ se.G := fun hg => eG (by rw [knowFalse_G]; exact hg)
            have eP' : Pend s p → Pend se p := fun hp => eP (by
              unfold Pend; rw [knowFalse_G, knowFalse_T]; exact hp)
            split at h
            · simp only [Option.some.injEq] at h; subst h
              refine ⟨fun hg => (mem_restrict_G _ _ _).2 ⟨eG' hg, h1, h2⟩, fun hp => ?_⟩
              rcases eP' hp with hT | hG
              · exact Or.inl ((mem_restrict_T _ _ _).2 ⟨hT, h1⟩)
              · exact Or.inr ((mem_restrict_G _ _ _).2 ⟨hG, h1, h2⟩)
            · simp only [Option.some.injEq] at h; subst h
              refine ⟨fun hg => join_G_of_left _ _ _ _ (tG hg) (eff_of_G (eG' hg)) h1 h2, fun hp => ?_⟩
              rcases tP hp with hT | hG
              · rcases eP' hp with hT' | hG'
                · exact Or.inl ((mem_join_T _ _ _ _).2 ⟨⟨hT, hT'⟩, h1⟩)
                · exact Or.inr (join_G_of_right _ _ _ _ hG' (eff_of_pend (Or.inl hT)) h1 h2)
              · exact Or.inr (join_G_of_left _ _ _ _ hG (eff_of_pend (eP' hp)) h1 h2)
      · simp at h
    | .decl ty n init, s, t, h, p, h1, h2, _ => by
      simp only [da] at h
      split at h
      · simp at h
      · rename_i hn
        have hn1 : p.1 ≠ n := fun e => hn (e ▸ h1)
        have hn2 : p.2 ≠ n := fun e => hn (e ▸ h2)
        have hG : p ∈ s.G → p ∈ (s.fresh n).G := fun hg => (mem_fresh_G _ _ _).2 ⟨hg, hn1, hn2⟩
        have hT : p.1 ∈ s.T → p.1 ∈ (s.fresh n).T := fun ht => (mem_fresh_T _ _ _).2 ⟨ht, hn1⟩
        cases init with
        | some e =>
          simp only at h
          split at h
          · simp only [Option.some.injEq] at h; subst h
            refine ⟨hG, fun hp => ?_⟩
            rcases hp with ht | hg
            · left; show p.1 ∈ (if _ then _ else _)
              split
              · exact List.mem_cons_of_mem _ (hT ht)
              · exact hT ht
            · exact Or.inr (hG hg)
          · simp at h
        | none =>
          simp only at h
          split at h
          all_goals
            simp only [Option.some.injEq] at h; subst h
            exact ⟨hG, fun hp => hp.elim (fun ht => Or.inl (hT ht)) (fun hg => Or.inr (hG hg))⟩
    | .set x e, s, t, h, p, h1, h2, hna => by
      have hx : p.1 ≠ x := by simpa [asg] using hna
      simp only [da] at h
      split at h
      · simp only [Option.some.injEq] at h; subst h
        exact ⟨fun hg => (mem_assign_G _ _ _).2 ⟨hg, Or.inl hx⟩,
          fun hp => hp.elim (fun ht => Or.inl ((mem_assign_T _ _ _).2 ⟨ht, hx⟩))
            (fun hg => Or.inr ((mem_assign_G _ _ _).2 ⟨hg, Or.inl hx⟩))⟩
      · simp at h
    | .push x e, s, t, h, p, h1, h2, hna => by
      have hx : p.1 ≠ x := by simpa [asg] using hna
      simp only [da] at h
      split at h
      · simp only [Option.some.injEq] at h; subst h
        exact ⟨fun hg => (mem_assign_G _ _ _).2 ⟨hg, Or.inl hx⟩,
          fun hp => hp.elim (fun ht => Or.inl ((mem_assign_T _ _ _).2 ⟨ht, hx⟩))
            (fun hg => Or.inr ((mem_assign_G _ _ _).2 ⟨hg, Or.inl hx⟩))⟩
      · simp at h
    | .clear x, s, t, h, p, h1, h2, hna => by
      have hx : p.1 ≠ x := by simpa [asg] using hna
      simp only [da] at h
      split at h
      · simp only [Option.some.injEq] at h; subst h
        exact ⟨fun hg => (mem_assign_G _ _ _).2 ⟨hg, Or.inl hx⟩,
          fun hp => hp.elim (fun ht => Or.inl ((mem_assign_T _ _ _).2 ⟨ht, hx⟩))
            (fun hg => Or.inr ((mem_assign_G _ _ _).2 ⟨hg, Or.inl hx⟩))⟩
      · simp at h
    | .fill _, s, t, h, p, _, _, _ => by
      simp only [da] at h
      split at h
      · simp only [Option.some.injEq] at h; subst h; exact ⟨id, id⟩
      · simp at h
    | .throw _, s, t, h, p, _, _, _ => by
      simp only [da, Option.some.injEq] at h; subst h; exact ⟨id, id⟩
    | .retrieve how _ v bank token, s, t, h, p, h1, h2, hna => by
      have hx : p.1 ≠ v := by simpa [asg] using hna
      simp only [da] at h
      split at h
      · simp only [Option.some.injEq] at h; subst h
        exact ⟨fun hg => (mem_assign_G _ _ _).2 ⟨hg, Or.inl hx⟩,
          fun hp => hp.elim (fun ht => Or.inl ((mem_assign_T _ _ _).2 ⟨ht, hx⟩))
            (fun hg => Or.inr ((mem_assign_G _ _ _).2 ⟨hg, Or.inl hx⟩))⟩
      · simp at h
    | .line _, s, t, h, _, _, _, _ => by simp [da] at h
  theorem das_frame (C : DACtx) : ∀ (l : List Stmt) (s t : DA), das C l s = some t →
      ∀ p : String × String, p.1 ∈ s.D → p.2 ∈ s.D → p.1 ∉ asgL l →
        (p ∈ s.G → p ∈ t.G) ∧ (Pend s p → Pend t p)
    | [], s, t, h, p, _, _, _ => by
      simp only [das, Option.some.injEq] at h; subst h; exact ⟨id, id⟩
    | st :: rest, s, t, h, p, h1, h2, hna => by
      have hna' : p.1 ∉ asg st ∧ p.1 ∉ asgL rest := by simpa [asgL, not_or] using hna
      simp only [das] at h
      split at h
      · rename_i s1 hs1
        obtain ⟨aG, aP⟩ := da_frame C st s s1 hs1 p h1 h2 hna'.1
        obtain ⟨bG, bP⟩ := das_frame C rest s1 t h p (da_Dsub C st s s1 hs1 _ h1) (da_Dsub C st s s1 hs1 _ h2) hna'.2
        exact ⟨fun hg => bG (aG hg), fun hp => bP (aP hp)⟩
      · simp at h
end

/-! ## loops that do not assign a guard -/

/-- a loop over an initialised collection with a fresh loop variable, whose body is accepted at the
loop head and assigns no guard of a candidate fact: accepted, all candidate facts kept -/
theorem loop_plain (C : DACtx) (s : DA) (x : String) (coll : CExpr) (body : List Stmt) (sb : DA)
    (hc : okE s coll = true) (hx : x ∉ s.D)
    (hb : das C body (loopHead s x (loopCand s)) = some sb)
    (hng : ∀ p ∈ loopCand s, p.1 ∉ asgL body) :
    da C (.loop x coll body) s = some { s with T := [], G := loopCand s } := by
  have hall : ∀ p ∈ loopCand s, sb.eff p = true := by
    intro p hp
    obtain ⟨_, h1, h2⟩ := (mem_loopCand s p).1 hp
    exact eff_of_G ((das_frame C body _ sb hb p (List.mem_cons_of_mem _ h1) (List.mem_cons_of_mem _ h2) (hng p hp)).1 hp)
  have hinv : (loopCand s).filter sb.eff = loopCand s := List.filter_eq_self.2 hall
  simp only [da, hc, hx, decide_false, Bool.not_false, Bool.and_self, if_true, hb, hinv]
  simp only [List.all_eq_true]
  rw [if_pos hall]

/-! ## `da` accepts no uninterpreted line; `emp` rejects nothing else -/

mutual
  def noLine : Stmt → Bool
    | .block body => noLineL body
    | .loop _ _ body => noLineL body
    | .ite _ thn els => noLineL thn && noLineL els
    | .line _ => false
    | _ => true
  def noLineL : List Stmt → Bool
    | [] => true
    | s :: ss => noLine s && noLineL ss
end

theorem noLineL_append : ∀ (a b : List Stmt), noLineL (a ++ b) = (noLineL a && noLineL b)
  | [], b => by simp [noLineL]
  | s :: a, b => by simp [noLineL, noLineL_append a b, Bool.and_assoc]

mutual
  theorem da_noLine (C : DACtx) : ∀ (st : Stmt) (s t : DA), da C st s = some t → noLine st = true
    | .block body, s, t, h => by
      simp only [da] at h
      split at h
      · rename_i s1 hb; simp only [noLine]; exact das_noLine C body s s1 hb
      · simp at h
    | .loop x coll body, s, t, h => by
      simp only [da] at h
      split at h
      · split at h
        · simp at h
        · rename_i sb1 hb1; simp only [noLine]; exact das_noLine C body _ sb1 hb1
      · simp at h
    | .ite c thn els, s, t, h => by
      simp only [da] at h
      split at h
      · split at h
        · simp at h
        · rename_i st hst
          split at h
          · simp at h
          · rename_i se hse
            simp only [noLine, Bool.and_eq_true]
            exact ⟨das_noLine C thn s st hst, das_noLine C els _ se hse⟩
      · simp at h
    | .decl _ _ _, _, _, _ => rfl
    | .set _ _, _, _, _ => rfl
    | .push _ _, _, _, _ => rfl
    | .clear _, _, _, _ => rfl
    | .fill _, _, _, _ => rfl
    | .throw _, _, _, _ => rfl
    | .retrieve _ _ _ _ _, _, _, _ => rfl
    | .line _, s, t, h => by simp [da] at h
  theorem das_noLine (C : DACtx) : ∀ (l : List Stmt) (s t : DA), das C l s = some t → noLineL l = true
    | [], _, _, _ => rfl
    | st :: rest, s, t, h => by
      simp only [das] at h
      split at h
      · rename_i s1 hs1
        simp only [noLineL, Bool.and_eq_true]
        exact ⟨da_noLine C st s s1 hs1, das_noLine C rest s1 t h⟩
      · simp at h
end

mutual
  /-- the emptiness analysis is pointwise: whether `y` is known empty afterwards depends only on
  whether it was known empty before -/
  theorem emp_pt : ∀ (st : Stmt) (E1 E2 E1' E2' : List String) (y : String),
      emp st E1 = some E1' → emp st E2 = some E2' → (y ∈ E1 ↔ y ∈ E2) → (y ∈ E1' ↔ y ∈ E2')
    | .block body, E1, E2, E1', E2', y, h1, h2, hy => by
      simp only [emp] at h1 h2; exact emps_pt body E1 E2 E1' E2' y h1 h2 hy
    | .loop x coll body, E1, E2, E1', E2', y, h1, h2, hy => by
      simp only [emp] at h1 h2
      split at h1
      · simp at h1
      · rename_i A1 hA1
        split at h1
        · simp at h1
        · split at h1
          · split at h2
            · simp at h2
            · rename_i A2 hA2
              split at h2
              · simp at h2
              · split at h2
                · simp only [Option.some.injEq] at h1 h2; subst h1; subst h2
                  have h0 : y ∈ E1.filter (· ≠ x) ↔ y ∈ E2.filter (· ≠ x) := by
                    simp only [List.mem_filter, hy]
                  have ih := emps_pt body _ _ A1 A2 y hA1 hA2 h0
                  simp only [mem_inter, h0, ih]
                · simp at h2
          · simp at h1
    | .ite c thn els, E1, E2, E1', E2', y, h1, h2, hy => by
      simp only [emp] at h1 h2
      split at h1
      · simp at h1
      · rename_i T1 hT1
        split at h1
        · simp at h1
        · rename_i F1 hF1
          split at h2
          · simp at h2
          · rename_i T2 hT2
            split at h2
            · simp at h2
            · rename_i F2 hF2
              simp only [Option.some.injEq] at h1 h2; subst h1; subst h2
              simp only [mem_inter, emps_pt thn E1 E2 T1 T2 y hT1 hT2 hy, emps_pt els E1 E2 F1 F2 y hF1 hF2 hy]
    | .decl ty n init, E1, E2, E1', E2', y, h1, h2, hy => by
      simp only [emp, Option.some.injEq] at h1 h2; subst h1; subst h2
      split
      · simp only [List.mem_cons, hy]
      · simp only [List.mem_filter, hy]
    | .set x _, E1, E2, E1', E2', y, h1, h2, hy => by
      simp only [emp, Option.some.injEq] at h1 h2; subst h1; subst h2; simp only [List.mem_filter, hy]
    | .push x _, E1, E2, E1', E2', y, h1, h2, hy => by
      simp only [emp, Option.some.injEq] at h1 h2; subst h1; subst h2; simp only [List.mem_filter, hy]
    | .clear x, E1, E2, E1', E2', y, h1, h2, hy => by
      simp only [emp, Option.some.injEq] at h1 h2; subst h1; subst h2; simp only [List.mem_cons, hy]
    | .fill _, E1, E2, E1', E2', y, h1, h2, hy => by
      simp only [emp, Option.some.injEq] at h1 h2; subst h1; subst h2; exact hy
    | .throw _, E1, E2, E1', E2', y, h1, h2, hy => by
      simp only [emp, Option.some.injEq] at h1 h2; subst h1; subst h2; exact hy
    | .retrieve _ _ v _ _, E1, E2, E1', E2', y, h1, h2, hy => by
      simp only [emp, Option.some.injEq] at h1 h2; subst h1; subst h2; simp only [List.mem_filter, hy]
    | .line _, _, _, _, _, _, h1, _, _ => by simp [emp] at h1
  theorem emps_pt : ∀ (l : List Stmt) (E1 E2 E1' E2' : List String) (y : String),
      emps l E1 = some E1' → emps l E2 = some E2' → (y ∈ E1 ↔ y ∈ E2) → (y ∈ E1' ↔ y ∈ E2')
    | [], E1, E2, E1', E2', y, h1, h2, hy => by
      simp only [emps, Option.some.injEq] at h1 h2; subst h1; subst h2; exact hy
    | st :: rest, E1, E2, E1', E2', y, h1, h2, hy => by
      simp only [emps] at h1 h2
      split at h1
      · rename_i M1 hM1
        split at h2
        · rename_i M2 hM2
          exact emps_pt rest M1 M2 E1' E2' y h1 h2 (emp_pt st E1 E2 M1 M2 y hM1 hM2 hy)
        · simp at h2
      · simp at h1
end

mutual
  /-- `emp` rejects only uninterpreted lines -/
  theorem emp_total : ∀ (st : Stmt), noLine st = true → ∀ E, ∃ E', emp st E = some E'
    | .block body, h, E => by
      simp only [noLine] at h; simp only [emp]; exact emps_total body h E
    | .loop x coll body, h, E => by
      simp only [noLine] at h
      obtain ⟨E1, h1⟩ := emps_total body h (E.filter (· ≠ x))
      obtain ⟨E2, h2⟩ := emps_total body h (inter (E.filter (· ≠ x)) E1)
      have hsub : subset (inter (E.filter (· ≠ x)) E1) E2 = true := by
        rw [subset_iff]
        intro y hy
        have hy' := (mem_inter _ _ _).1 hy
        exact (emps_pt body _ _ E1 E2 y h1 h2 ⟨fun _ => hy, fun _ => hy'.1⟩).1 hy'.2
      refine ⟨inter (E.filter (· ≠ x)) E1, ?_⟩
      simp only [emp, h1, h2, hsub, if_true]
    | .ite c thn els, h, E => by
      simp only [noLine, Bool.and_eq_true] at h
      obtain ⟨Et, ht⟩ := emps_total thn h.1 E
      obtain ⟨Ee, he⟩ := emps_total els h.2 E
      refine ⟨inter Et Ee, ?_⟩
      simp only [emp, ht, he]
    | .decl _ _ _, _, E => ⟨_, rfl⟩
    | .set _ _, _, E => ⟨_, rfl⟩
    | .push _ _, _, E => ⟨_, rfl⟩
    | .clear _, _, E => ⟨_, rfl⟩
    | .fill _, _, E => ⟨_, rfl⟩
    | .throw _, _, E => ⟨_, rfl⟩
    | .retrieve _ _ _ _ _, _, E => ⟨_, rfl⟩
    | .line _, h, _ => by simp [noLine] at h
  theorem emps_total : ∀ (l : List Stmt), noLineL l = true → ∀ E, ∃ E', emps l E = some E'
    | [], _, E => ⟨E, rfl⟩
    | st :: rest, h, E => by
      simp only [noLineL, Bool.and_eq_true] at h
      obtain ⟨E1, h1⟩ := emp_total st h.1 E
      obtain ⟨E2, h2⟩ := emps_total rest h.2 E1
      exact ⟨E2, by simp only [emps, h1]; exact h2⟩
end

theorem emps_append : ∀ (a b : List Stmt) (E : List String),
    emps (a ++ b) E = (match emps a E with
      | some E' => emps b E'
      | none => none)
  | [], b, E => by simp [emps]
  | st :: a, b, E => by
    simp only [List.cons_append, emps]
    cases emp st E with
    | none => rfl
    | some E' => simp only []; exact emps_append a b E'

end FaxVerif.Gen.Wf
