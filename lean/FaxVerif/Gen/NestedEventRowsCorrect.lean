/-
Gen — END TO END for event-level rows whose columns iterate inner collections (shapes (a) and (b), mixed):
    ds.Select(e → {name: e.Coll(bank).Where*.Select(y → NE | y.m().{Select|Where}*), …})
`nestedEventRows_correct_post`: the package `compileN` emits (all retrieval variables, then per column the
retrieval block and the outer loop with the inner loops in its body, one Fill, the clears) writes exactly the
one row the query denotes, from a class state in which the column vectors are empty, and leaves them empty
again — every column list, event, number model, all three backends (`BackendBase`; the token table
`compileN` emits binds every chain's token).
-/
import FaxVerif.Gen.NestedColCorrect
namespace FaxVerif.Gen
open FaxVerif.Cpp FaxVerif.Linq
variable {D : Type}

/-! ## one column -/

/-- per-event side conditions of one column: static well-typedness; the objects of the bank return values of
the declared kinds (outer conditions, pure parts, elements of the method-returned collections); floating
inner sums are non-empty; a 2-D column's method returns a collection -/
def NColHyp (QC : QCtx D) : NCol → Prop
  | .agg c e => wtOuter c = true ∧ wtNE e = true ∧ ChainTyped QC c ∧
      (∀ cty l, QC.ev.find c.bank = some (cty, .vec l) → ∀ v ∈ l, NEHyp QC v e)
  | .twoD c ic => wtOuter c = true ∧ wtIChain ic = true ∧ ChainTyped QC c ∧
      (∀ cty l, QC.ev.find c.bank = some (cty, .vec l) → ∀ v ∈ l, InnerTyped v ic ∧ InnerIsVec v ic)

/-- the continuation of a column -/
def NCol.kn (B : Backend) (nm : Nat → String) (v : String) : NCol → KN
  | .agg _ e => aggK B nm v e
  | .twoD _ ic => twoDK B nm v ic

theorem compNCol_eq (B : Backend) (nm cn : Nat → String) (idx : Nat) (col : NCol) (n : Nat) :
    (compNCol B nm cn idx col n).decls = (compChainN B nm col.chain n (col.kn B nm (cn idx))).decls ∧
    (compNCol B nm cn idx col n).stmts = (compChainN B nm col.chain n (col.kn B nm (cn idx))).stmts ∧
    (compNCol B nm cn idx col n).next = (compChainN B nm col.chain n (col.kn B nm (cn idx))).next ∧
    (compNCol B nm cn idx col n).clears = [.clear (cn idx)] ∧ (compNCol B nm cn idx col n).classVar.2 = cn idx := by
  cases col <;> simp [compNCol, NCol.chain, NCol.kn]

theorem NCol.kn_next_ge (B : Backend) (nm : Nat → String) (v : String) (col : NCol) (cur : CExpr) (ty : Option Ty) (m : Nat) :
    m ≤ (col.kn B nm v cur ty m).2 := by
  cases col with
  | agg c e => exact aggK_next_ge B nm v e cur ty m
  | twoD c ic => exact twoDK_next_ge B nm v ic cur ty m

theorem compNCol_next_ge (B : Backend) (nm cn : Nat → String) (idx : Nat) (col : NCol) (n : Nat) :
    n + 3 ≤ (compNCol B nm cn idx col n).next := by
  rw [(compNCol_eq B nm cn idx col n).2.2.1]
  have h1 := outerNext_ge B nm col.chain n
  have h2 := col.kn_next_ge B nm (cn idx) (stepConds B.elemPtr (outerIt nm n) none col.chain.steps).2.1
    (stepConds B.elemPtr (outerIt nm n) none col.chain.steps).2.2 (outerNext B nm col.chain n)
  simp only [compChainN]; omega

theorem compNCol_stmts (B : Backend) (nm cn : Nat → String) (idx : Nat) (col : NCol) (n : Nat) :
    (compNCol B nm cn idx col n).stmts =
      (compChain B nm col.chain n (fun cur ty => (col.kn B nm (cn idx) cur ty (outerNext B nm col.chain n)).1)).stmts := by
  rw [(compNCol_eq B nm cn idx col n).2.1]; rfl

theorem compNCol_decls_eq (B : Backend) (nm cn : Nat → String) (idx : Nat) (col : NCol) (n : Nat) :
    (compNCol B nm cn idx col n).decls =
      (compChain B nm col.chain n (fun cur ty => (col.kn B nm (cn idx) cur ty (outerNext B nm col.chain n)).1)).decls := by
  rw [(compNCol_eq B nm cn idx col n).1]; rfl

theorem ncolQ_eq (ev : String) (col : NCol) : ∃ body, ncolQ ev col = .select (chainQ ev col.chain) outerVar body ∧
    body = (match col with
      | .agg _ e => neQ outerVar e
      | .twoD _ ic => ichainQ outerVar ic) := by
  cases col <;> exact ⟨_, rfl, rfl⟩

/-- **one column** — from a state in which the column's retrieval variable is declared and its vector
variable is empty: afterwards the vector variable holds exactly the list the column denotes. -/
theorem compNCol_correct (C : Ctx D) (QC : QCtx D) (hN : QC.N = C.N) (hev : QC.ev = C.ev)
    (B : Backend) (hB : BackendBase B) (nm cn : Nat → String)
    (hinj : ∀ i j, nm i = nm j → i = j) (hres : ∀ j, nm j ≠ "result")
    (hcres : ∀ k, cn k ≠ "result") (hdisj : ∀ j k, nm j ≠ cn k)
    (hcollT : ∀ name, B.collType name = QC.collType name)
    (col : NCol) (idx n : Nat) (htok : TokChain B nm C col.chain n) (s : St D) (v : Val D)
    (hdone : DeclsDone C.N (compNCol B nm cn idx col n).decls s.env)
    (hpre : s.env (cn idx) = some (.val (.vec []))) (hhyp : NColHyp QC col)
    (hden : denote QC [("e", evtVal)] (ncolQ "e" col) = .ok v) :
    ∃ us s', v = .vec us ∧ execs C (compNCol B nm cn idx col n).stmts s = .ok s' ∧ s'.rows = s.rows ∧
      s'.env (cn idx) = some (.val (.vec us)) ∧
      (∀ z, z ≠ cn idx → ¬ Touch nm n (compNCol B nm cn idx col n).next z → s'.env z = s.env z) := by
  have hx : (s.env (nm n)).isSome = true := by
    have := hdone (.decl (B.handleTy ((B.collType col.chain.coll).getD "?")) (nm n) none)
      (by rw [compNCol_decls_eq]; simp [compChain])
    simpa [DeclOK] using this
  obtain ⟨h1, h2, h3, _, _⟩ := compNCol_eq B nm cn idx col n
  rw [h2, h3]
  cases col with
  | agg c e =>
    obtain ⟨hwo, hwt, hct, hq⟩ := hhyp
    exact pushCol_correct C QC hN hev B hB nm hinj hres hcollT c hwo n htok (cn idx) (fun j => hdisj j idx) (hcres idx)
      (aggK B nm (cn idx) e) _ _ (aggK_pushSpec C QC hN B nm hinj (cn idx) (fun j => hdisj j idx) e hwt outerVar [("e", evtVal)])
      (fun cur m => aggK_next_ge B nm (cn idx) e cur none m) outerVar (neQ outerVar e) (fun _ => rfl) hct hq s hx hpre v hden
  | twoD c ic =>
    obtain ⟨hwo, hwt, hct, hq⟩ := hhyp
    exact pushCol_correct C QC hN hev B hB nm hinj hres hcollT c hwo n htok (cn idx) (fun j => hdisj j idx) (hcres idx)
      (twoDK B nm (cn idx) ic) _ _ (twoDK_pushSpec C QC hN B nm hinj (cn idx) (fun j => hdisj j idx) ic hwt outerVar [("e", evtVal)])
      (fun cur m => twoDK_next_ge B nm (cn idx) ic cur none m) outerVar (ichainQ outerVar ic) (fun _ => rfl) hct hq s hx hpre v hden

/-! ## the column list: names, declarations, tokens -/

def ncolsNext (B : Backend) (nm cn : Nat → String) : List NCol → Nat → Nat → Nat
  | [], _, n => n
  | c :: cs, idx, n => ncolsNext B nm cn cs (idx + 1) (compNCol B nm cn idx c n).next

theorem ncolsNext_ge (B : Backend) (nm cn : Nat → String) : ∀ (cols : List NCol) (idx n : Nat), n ≤ ncolsNext B nm cn cols idx n
  | [], _, n => Nat.le_refl n
  | c :: cs, idx, n => by
    have h1 := compNCol_next_ge B nm cn idx c n
    have h2 := ncolsNext_ge B nm cn cs (idx + 1) (compNCol B nm cn idx c n).next
    simp only [ncolsNext]; omega

theorem compNCol_decls (B : Backend) (nm cn : Nat → String) (idx : Nat) (col : NCol) (n : Nat) :
    DeclsIn nm n (compNCol B nm cn idx col n).next (compNCol B nm cn idx col n).decls := by
  have hn := compNCol_next_ge B nm cn idx col n
  rw [compNCol_decls_eq]
  intro d hd
  simp only [compChain, List.mem_singleton] at hd
  exact ⟨_, _, _, hd, n, Nat.le_refl n, by omega, rfl⟩

theorem compNCol_declsOK (C : Ctx D) (B : Backend) (hB : BackendBase B) (nm cn : Nat → String) (idx : Nat) (col : NCol) (n : Nat) :
    (∀ d ∈ (compNCol B nm cn idx col n).decls, SimpleDecl C.N d) ∧ ((compNCol B nm cn idx col n).decls.map declName).Nodup := by
  rw [compNCol_decls_eq]
  have hc := compChain_declsOK_base C B hB nm col.chain n
    (fun cur ty => (col.kn B nm (cn idx) cur ty (outerNext B nm col.chain n)).1)
  exact ⟨hc.1, by rw [hc.2]; simp⟩

theorem compNCols_declsIn (B : Backend) (nm cn : Nat → String) : ∀ (cols : List NCol) (idx n : Nat),
    DeclsIn nm n (ncolsNext B nm cn cols idx n) ((compNCols B nm cn cols idx n).flatMap (·.decls))
  | [], _, n => by intro d hd; simp [compNCols] at hd
  | c :: cs, idx, n => by
    simp only [compNCols, List.flatMap_cons, ncolsNext]
    have h1 := compNCol_next_ge B nm cn idx c n
    have h2 := ncolsNext_ge B nm cn cs (idx + 1) (compNCol B nm cn idx c n).next
    exact ((compNCol_decls B nm cn idx c n).mono (Nat.le_refl _) h2).append
      ((compNCols_declsIn B nm cn cs (idx + 1) _).mono (by omega) (Nat.le_refl _))

theorem compNCols_declsOK (C : Ctx D) (B : Backend) (hB : BackendBase B) (nm cn : Nat → String)
    (hinj : ∀ i j, nm i = nm j → i = j) : ∀ (cols : List NCol) (idx n : Nat),
    (∀ d ∈ (compNCols B nm cn cols idx n).flatMap (·.decls), SimpleDecl C.N d) ∧
    (((compNCols B nm cn cols idx n).flatMap (·.decls)).map declName).Nodup
  | [], _, _ => by simp [compNCols]
  | c :: cs, idx, n => by
    have hc := compNCol_declsOK C B hB nm cn idx c n
    have ih := compNCols_declsOK C B hB nm cn hinj cs (idx + 1) (compNCol B nm cn idx c n).next
    simp only [compNCols, List.flatMap_cons]
    refine ⟨fun d hd => ?_, ?_⟩
    · rcases List.mem_append.1 hd with h | h
      · exact hc.1 d h
      · exact ih.1 d h
    · rw [List.map_append]
      exact nodup_append_ranges hinj hc.2 ih.2 (declsIn_names (compNCol_decls B nm cn idx c n))
        (declsIn_names (compNCols_declsIn B nm cn cs (idx + 1) _))

theorem compNCols_vars (B : Backend) (nm cn : Nat → String) : ∀ (cols : List NCol) (idx n : Nat),
    (compNCols B nm cn cols idx n).map (·.classVar.2) = colNames cn cols.length idx
  | [], _, _ => rfl
  | c :: cs, idx, n => by
    simp only [compNCols, List.map_cons, List.length_cons, colNames, (compNCol_eq B nm cn idx c n).2.2.2.2]
    rw [compNCols_vars B nm cn cs (idx + 1) _]

theorem compNCols_length (B : Backend) (nm cn : Nat → String) : ∀ (cols : List NCol) (idx n : Nat),
    (compNCols B nm cn cols idx n).length = cols.length
  | [], _, _ => rfl
  | c :: cs, idx, n => by simp [compNCols, compNCols_length B nm cn cs]

/-- every chain of the column list finds its token bound to its own container type and bank -/
def TokNCols (B : Backend) (nm cn : Nat → String) (C : Ctx D) : List NCol → Nat → Nat → Prop
  | [], _, _ => True
  | c :: cs, idx, n => TokChain B nm C c.chain n ∧ TokNCols B nm cn C cs (idx + 1) (compNCol B nm cn idx c n).next

def ncolsToks (B : Backend) (nm cn : Nat → String) : List NCol → Nat → Nat → List (String × String × String)
  | [], _, _ => []
  | c :: cs, idx, n => chainToks B nm c.chain n ++ ncolsToks B nm cn cs (idx + 1) (compNCol B nm cn idx c n).next

theorem banksOf_ncols (B : Backend) (ht : B.how = "token") (nm cn : Nat → String) :
    ∀ (cols : List NCol) (idx n : Nat) (rest : List Stmt) (bs : List String),
      banksOf B ((compNCols B nm cn cols idx n).flatMap (·.stmts) ++ rest) (cols.map (·.chain.bank) ++ bs) =
        ncolsToks B nm cn cols idx n ++ banksOf B rest bs
  | [], idx, n, rest, bs => by simp [compNCols, ncolsToks]
  | c :: cs, idx, n, rest, bs => by
    simp only [compNCols, List.flatMap_cons, ncolsToks, List.map_cons, List.append_assoc, List.cons_append]
    rw [compNCol_stmts, banksOf_chain B ht nm c.chain n, banksOf_ncols B ht nm cn cs]

theorem banksOf_ncols_notToken (B : Backend) (ht : B.how ≠ "token") (nm cn : Nat → String) :
    ∀ (cols : List NCol) (idx n : Nat) (rest : List Stmt) (bs : List String),
      banksOf B ((compNCols B nm cn cols idx n).flatMap (·.stmts) ++ rest) bs = banksOf B rest bs
  | [], idx, n, rest, bs => by simp [compNCols]
  | c :: cs, idx, n, rest, bs => by
    simp only [compNCols, List.flatMap_cons, List.append_assoc]
    rw [compNCol_stmts, banksOf_chain_notToken B ht nm c.chain n, banksOf_ncols_notToken B ht nm cn cs]

theorem ncolsToks_names (B : Backend) (nm cn : Nat → String) : ∀ (cols : List NCol) (idx n : Nat),
    ∀ y ∈ (ncolsToks B nm cn cols idx n).map (·.1), InRange nm n (ncolsNext B nm cn cols idx n) y
  | [], _, _, y, h => by simp [ncolsToks] at h
  | c :: cs, idx, n, y, h => by
    have h1 := compNCol_next_ge B nm cn idx c n
    have h2 := ncolsNext_ge B nm cn cs (idx + 1) (compNCol B nm cn idx c n).next
    simp only [ncolsToks, List.map_append, List.mem_append] at h
    simp only [ncolsNext]
    rcases h with h | h
    · simp only [chainToks, List.map_cons, List.map_nil, List.mem_singleton] at h
      exact ⟨n + 2, by omega, by omega, h⟩
    · exact (ncolsToks_names B nm cn cs _ _ y h).mono (by omega) (Nat.le_refl _)

theorem ncolsToks_nodup (B : Backend) (nm cn : Nat → String) (hinj : ∀ i j, nm i = nm j → i = j) :
    ∀ (cols : List NCol) (idx n : Nat), ((ncolsToks B nm cn cols idx n).map (·.1)).Nodup
  | [], _, _ => by simp [ncolsToks]
  | c :: cs, idx, n => by
    have h1 := compNCol_next_ge B nm cn idx c n
    simp only [ncolsToks, List.map_append]
    refine nodup_append_ranges hinj (a := n) (b := (compNCol B nm cn idx c n).next) (by simp [chainToks])
      (ncolsToks_nodup B nm cn hinj cs _ _) ?_ (ncolsToks_names B nm cn cs _ _)
    intro y hy
    simp only [chainToks, List.map_cons, List.map_nil, List.mem_singleton] at hy
    exact ⟨n + 2, by omega, by omega, hy⟩

theorem tokNCols_of_lookup (B : Backend) (nm cn : Nat → String) (C : Ctx D) : ∀ (cols : List NCol) (idx n : Nat),
    (∀ t ∈ ncolsToks B nm cn cols idx n, C.tokenBank t.1 = some t.2) → TokNCols B nm cn C cols idx n
  | [], _, _, _ => trivial
  | c :: cs, idx, n, h =>
    ⟨fun _ => h (nm (n + 2), (B.collType c.chain.coll).getD "?", c.chain.bank) (by simp [ncolsToks, chainToks]),
      tokNCols_of_lookup B nm cn C cs _ _ (fun t ht => h t (by simp [ncolsToks, ht]))⟩

theorem tokNCols_of_notToken {B : Backend} (h : B.how ≠ "token") (nm cn : Nat → String) (C : Ctx D) :
    ∀ (cols : List NCol) (idx n : Nat), TokNCols B nm cn C cols idx n
  | [], _, _ => trivial
  | c :: cs, _, n => ⟨tokChain_of_notToken h nm C c.chain n, tokNCols_of_notToken h nm cn C cs _ _⟩

/-- **the token table `compileN` emits for event-level rows binds every chain's token** -/
theorem tokNCols_eventRows (B : Backend) (nm cn : Nat → String) (hinj : ∀ i j, nm i = nm j → i = j)
    (cols : List (String × NCol)) (N : Num D) (ev : Event D) :
    TokNCols B nm cn ((compileN B nm cn (.eventRows cols)).ctx N ev) (cols.map (·.2)) 0 0 := by
  by_cases ht : B.how = "token"
  · have h := banksOf_ncols B ht nm cn (cols.map (·.2)) 0 0 [] []
    simp only [List.append_nil] at h
    have hb : cols.map (·.2.chain.bank) = (cols.map (·.2)).map (·.chain.bank) := by simp [List.map_map]
    have htoks : ((compileN B nm cn (.eventRows cols)).ctx N ev).tokens = ncolsToks B nm cn (cols.map (·.2)) 0 0 := by
      simp only [Package.ctx, compileN]
      rw [hb, h]; simp [banksOf]
    apply tokNCols_of_lookup
    intro t hm
    exact tokenBank_of_mem _ (by rw [htoks]; exact ncolsToks_nodup B nm cn hinj _ 0 0) t (by rw [htoks]; exact hm)
  · exact tokNCols_of_notToken ht nm cn _ _ 0 0

/-- every token name of the table is a generated local name (never a column variable) -/
theorem tokens_names_nestedEventRows (B : Backend) (nm cn : Nat → String) (cols : List (String × NCol)) :
    ∀ t ∈ (compileN B nm cn (.eventRows cols)).tokens, ∃ j, t.1 = nm j := by
  intro t hm
  have hb : cols.map (·.2.chain.bank) = (cols.map (·.2)).map (·.chain.bank) := by simp [List.map_map]
  by_cases ht : B.how = "token"
  · have h := banksOf_ncols B ht nm cn (cols.map (·.2)) 0 0 [] []
    simp only [List.append_nil] at h
    have htoks : (compileN B nm cn (.eventRows cols)).tokens = ncolsToks B nm cn (cols.map (·.2)) 0 0 := by
      simp only [compileN]; rw [hb, h]; simp [banksOf]
    rw [htoks] at hm
    obtain ⟨j, _, _, hj⟩ := ncolsToks_names B nm cn _ 0 0 t.1 (List.mem_map.2 ⟨t, hm, rfl⟩)
    exact ⟨j, hj⟩
  · have h := banksOf_ncols_notToken B ht nm cn (cols.map (·.2)) 0 0 [] (cols.map (·.2.chain.bank))
    simp only [List.append_nil] at h
    have htoks : (compileN B nm cn (.eventRows cols)).tokens = [] := by
      simp only [compileN]; rw [h]; simp [banksOf]
    rw [htoks] at hm; simp at hm

theorem tokens_names_nestedElemRows (B : Backend) (nm cn : Nat → String) (c : Chain) (cols : List (String × NE)) :
    ∀ t ∈ (compileN B nm cn (.elemRows c cols)).tokens, ∃ j, t.1 = nm j := by
  intro t hm
  by_cases ht : B.how = "token"
  · have h := banksOf_chain B ht nm c 0
      (fun cur ty => (rowKN B nm cn (cols.map (·.2)) cur ty (outerNext B nm c 0)).1) [] []
    simp only [List.append_nil] at h
    have htoks : (compileN B nm cn (.elemRows c cols)).tokens = chainToks B nm c 0 := by
      simp only [compileN, compChainN]; rw [h]; simp [banksOf]
    rw [htoks] at hm
    simp only [chainToks, List.mem_singleton] at hm
    exact ⟨0 + 2, by rw [hm]⟩
  · have h := banksOf_chain_notToken B ht nm c 0
      (fun cur ty => (rowKN B nm cn (cols.map (·.2)) cur ty (outerNext B nm c 0)).1) [] [c.bank]
    simp only [List.append_nil] at h
    have htoks : (compileN B nm cn (.elemRows c cols)).tokens = [] := by
      simp only [compileN, compChainN]; rw [h]; simp [banksOf]
    rw [htoks] at hm; simp at hm

/-! ## all columns -/

def AllVec (vs : List (Val D)) : Prop := ∀ v ∈ vs, ∃ l, v = .vec l

/-- the class-level column vectors `cn idx … cn (idx + m - 1)` are empty -/
def NColsPre (cn : Nat → String) (m idx : Nat) (σ : Env D) : Prop :=
  ∀ k, idx ≤ k → k < idx + m → σ (cn k) = some (.val (.vec []))

/-- running the loops of all columns, in order -/
theorem compNCols_correct (C : Ctx D) (QC : QCtx D) (hN : QC.N = C.N) (hev : QC.ev = C.ev)
    (B : Backend) (hB : BackendBase B) (nm cn : Nat → String)
    (hinj : ∀ i j, nm i = nm j → i = j) (hcinj : ∀ i j, cn i = cn j → i = j) (hres : ∀ j, nm j ≠ "result")
    (hcres : ∀ k, cn k ≠ "result") (hdisj : ∀ j k, nm j ≠ cn k)
    (hcollT : ∀ name, B.collType name = QC.collType name) :
    ∀ (cols : List NCol) (idx n : Nat) (s : St D) (vs : List (Val D)), TokNCols B nm cn C cols idx n →
      DeclsDone C.N ((compNCols B nm cn cols idx n).flatMap (·.decls)) s.env →
      NColsPre cn cols.length idx s.env → (∀ col ∈ cols, NColHyp QC col) →
      denotes QC [("e", evtVal)] (cols.map (ncolQ "e")) = .ok vs →
      ∃ s', execs C ((compNCols B nm cn cols idx n).flatMap (·.stmts)) s = .ok s' ∧ s'.rows = s.rows ∧
        VarsHold cn idx vs s'.env ∧ AllVec vs ∧
        (∀ y, (∀ k, idx ≤ k → y ≠ cn k) → ¬ Touch nm n (ncolsNext B nm cn cols idx n) y → s'.env y = s.env y)
  | [], idx, n, s, vs, _, _, _, _, hden => by
    simp only [List.map_nil, denotes, Except.ok.injEq] at hden; subst hden
    exact ⟨s, by simp [compNCols, execs], rfl, trivial, by intro v hv; simp at hv, fun _ _ _ => rfl⟩
  | c :: cs, idx, n, s, vs, htk, hdone, hpre, hhyp, hden => by
    simp only [List.map_cons, denotes] at hden
    cases hd1 : denote QC [("e", evtVal)] (ncolQ "e" c) with
    | error e => rw [hd1] at hden; simp at hden
    | ok v =>
      rw [hd1] at hden; simp only [] at hden
      cases hd2 : denotes QC [("e", evtVal)] (cs.map (ncolQ "e")) with
      | error e => rw [hd2] at hden; simp at hden
      | ok vs' =>
        rw [hd2] at hden; simp only [Except.ok.injEq] at hden; subst hden
        simp only [compNCols, List.flatMap_cons] at hdone ⊢
        have h1 := compNCol_next_ge B nm cn idx c n
        have h2 := ncolsNext_ge B nm cn cs (idx + 1) (compNCol B nm cn idx c n).next
        obtain ⟨us, s1, rfl, hex1, hr1, hcol1, hfr1⟩ := compNCol_correct C QC hN hev B hB nm cn hinj hres hcres hdisj hcollT c idx n htk.1 s v
          (fun d hd => hdone d (by simp [hd])) (hpre idx (Nat.le_refl _) (by simp)) (hhyp c (by simp)) hd1
        have hrest_names : ∀ y, InRange nm (compNCol B nm cn idx c n).next (ncolsNext B nm cn cs (idx + 1) (compNCol B nm cn idx c n).next) y →
            s1.env y = s.env y := by
          intro y hy
          apply hfr1 y
          · obtain ⟨j, _, _, hj⟩ := hy; rw [hj]; exact hdisj j idx
          · rintro (h | h)
            · exact inRange_disjoint hinj hy h
            · obtain ⟨j, _, _, hj⟩ := hy; exact hres j (hj ▸ h)
        have hcn_rest : ∀ k, idx + 1 ≤ k → s1.env (cn k) = s.env (cn k) := by
          intro k hk
          apply hfr1
          · intro e; have := hcinj _ _ e; omega
          · rintro (⟨j, _, _, hj⟩ | h)
            · exact hdisj j k hj.symm
            · exact hcres k h
        have hdone2 : DeclsDone C.N ((compNCols B nm cn cs (idx + 1) (compNCol B nm cn idx c n).next).flatMap (·.decls)) s1.env :=
          DeclsDone.transport (fun d hd => hdone d (by simp [hd])) (compNCols_declsIn B nm cn cs (idx + 1) _) hrest_names
        have hpre2 : NColsPre cn cs.length (idx + 1) s1.env := by
          intro k hk1 hk2
          rw [hcn_rest k hk1]
          exact hpre k (by omega) (by simp only [List.length_cons]; omega)
        obtain ⟨s', hex2, hr2, hvars2, hvec2, hfr2⟩ := compNCols_correct C QC hN hev B hB nm cn hinj hcinj hres hcres hdisj hcollT
          cs (idx + 1) _ s1 vs' htk.2 hdone2 hpre2 (fun col hc => hhyp col (by simp [hc])) hd2
        refine ⟨s', by rw [execs_append, hex1]; exact hex2, by rw [hr2, hr1], ⟨?_, hvars2⟩, ?_, ?_⟩
        · rw [hfr2 (cn idx) (fun k hk e => by have := hcinj _ _ e; omega) (by
            rintro (⟨j, _, _, hj⟩ | h)
            · exact hdisj j idx hj.symm
            · exact hcres idx h)]
          exact hcol1
        · intro w hw
          rcases List.mem_cons.1 hw with rfl | hw
          · exact ⟨us, rfl⟩
          · exact hvec2 w hw
        · intro y hy1 hy2
          simp only [ncolsNext] at hy2
          rw [hfr2 y (fun k hk => hy1 k (by omega)) (not_touch_sub hy2 (by omega) (Nat.le_refl _)),
              hfr1 y (hy1 idx (Nat.le_refl _)) (not_touch_sub hy2 (Nat.le_refl _) h2)]

/-- the clears after the fill: every column vector is empty again — the precondition of the NEXT event -/
theorem nclears_correct (C : Ctx D) (B : Backend) (nm cn : Nat → String) (hcinj : ∀ i j, cn i = cn j → i = j) :
    ∀ (cols : List NCol) (idx n : Nat) (s : St D) (vs : List (Val D)),
      VarsHold cn idx vs s.env → vs.length = cols.length → AllVec vs →
      ∃ s', execs C ((compNCols B nm cn cols idx n).flatMap (·.clears)) s = .ok s' ∧ s'.rows = s.rows ∧
        NColsPre cn cols.length idx s'.env ∧ (∀ y, (∀ k, idx ≤ k → y ≠ cn k) → s'.env y = s.env y)
  | [], _, _, s, _, _, _, _ => ⟨s, by simp [compNCols, execs], rfl, by intro k h1 h2; simp at h2; omega, fun _ _ => rfl⟩
  | c :: cs, idx, n, s, vs, hv, hlen, hok => by
    cases vs with
    | nil => simp at hlen
    | cons v vs =>
      simp only [VarsHold] at hv
      obtain ⟨l, rfl⟩ := hok v (by simp)
      simp only [compNCols, List.flatMap_cons, (compNCol_eq B nm cn idx c n).2.2.2.1]
      let s1 : St D := { s with env := s.env.set (cn idx) (.vec []) }
      have hv1 : VarsHold cn (idx + 1) vs s1.env :=
        varsHold_stable cn vs (idx + 1) s.env s1.env (fun k hk => by
          have : cn k ≠ cn idx := fun e => by have := hcinj _ _ e; omega
          simp [s1, Env.set, this]) hv.2
      obtain ⟨s', hex, hr, hpre, hfr⟩ := nclears_correct C B nm cn hcinj cs (idx + 1) _ s1 vs hv1
        (by simpa using hlen) (fun w hw => hok w (by simp [hw]))
      refine ⟨s', ?_, by rw [hr], ?_, ?_⟩
      · simp only [List.cons_append, List.nil_append, execs, exec, hv.1]
        exact hex
      · intro k hk1 hk2
        by_cases hk : k = idx
        · subst hk
          rw [hfr (cn k) (fun k' hk' e => by have := hcinj _ _ e; omega)]; simp [s1, Env.set]
        · exact hpre k (by omega) (by simp only [List.length_cons] at hk2; omega)
      · intro y hy
        rw [hfr y (fun k hk => hy k (by omega))]
        simp [s1, Env.set, hy idx (Nat.le_refl _)]

/-- what a query `ds.Select(e → {names: qs})` denotes: one row, the values of the columns -/
theorem eventDict_denote (QC : QCtx D) (names : List String) (qs : List Query) (hlen : names.length = qs.length)
    (rows : List (List (Val D)))
    (h : denoteRows QC (.select .ds "e" (.dict names qs)) = .ok rows) :
    ∃ vs, denotes QC [("e", evtVal)] qs = .ok vs ∧ rows = [vs] := by
  simp only [denoteRows] at h
  rw [denote_select] at h
  simp only [denote, mapE] at h
  cases hd : denotes QC [("e", Val.obj "__event__" [])] qs with
  | error e => rw [hd] at h; simp at h
  | ok vs =>
    rw [hd] at h
    simp only [Except.ok.injEq] at h
    refine ⟨vs, by simpa [evtVal] using hd, ?_⟩
    have hl := denotes_length QC _ _ vs hd
    rw [← h]
    simp only [List.map_cons, List.map_nil, rowOf, tupleVal]
    rw [List.map_snd_zip (by omega)]

theorem exec_block4 (C : Ctx D) (Ds Ss Cl : List Stmt) (t : String) (s0 sD sS sF : St D) (vs : List (Val D))
    (h1 : execs C Ds s0 = .ok sD) (h2 : execs C Ss sD = .ok sS)
    (h4 : readCols sS.env C.cols = .ok vs) (h5 : execs C Cl ⟨sS.env, sS.rows ++ [vs]⟩ = .ok sF) :
    exec C (.block (Ds ++ Ss ++ [.fill t] ++ Cl)) s0 = .ok sF := by
  simp only [exec]
  rw [execs_append, execs_append, execs_append, h1]
  simp only []
  rw [h2]
  simp only [execs, exec, h4]
  rw [h5]

/-- **C01 (event-level rows of nested columns)** — for every list of columns of shapes (a) / (b), every event
and every class state in which the column vectors are empty: if the query denotes `rows` (necessarily one
row) on the event, the package the translator model emits writes exactly `rows`, and the class state it
leaves behind has the column vectors empty again. -/
theorem nestedEventRows_correct_post (B : Backend) (hB : BackendBase B) (nm cn : Nat → String)
    (hinj : ∀ i j, nm i = nm j → i = j) (hcinj : ∀ i j, cn i = cn j → i = j)
    (hres : ∀ j, nm j ≠ "result") (hcres : ∀ k, cn k ≠ "result") (hdisj : ∀ j k, nm j ≠ cn k)
    (QC : QCtx D) (hcollT : ∀ name, B.collType name = QC.collType name)
    (cols : List (String × NCol)) (hhyp : ∀ p ∈ cols, NColHyp QC p.2)
    (σc : Env D) (hσ : NColsPre cn cols.length 0 σc)
    (rows : List (List (Val D)))
    (hden : denoteRows QC (NQ.toQuery (.eventRows cols)) = .ok rows) :
    ∃ σ', runEvent (compileN B nm cn (.eventRows cols)) QC.N σc QC.ev = .ok (rows, σ') ∧
      NColsPre cn cols.length 0 σ' := by
  let cs := cols.map (·.2)
  have hqs : (cols.map fun p => ncolQ "e" p.2) = cs.map (ncolQ "e") := by simp [cs, List.map_map]
  have hden' : denoteRows QC (.select .ds "e" (.dict (cols.map (·.1)) (cs.map (ncolQ "e")))) = .ok rows := by
    rw [← hqs]; exact hden
  obtain ⟨vs, hvs, rfl⟩ := eventDict_denote QC _ _ (by simp [cs]) rows hden'
  let fs := compNCols B nm cn cs 0 0
  let P := compileN B nm cn (.eventRows cols)
  let C := P.ctx QC.N QC.ev
  have hcslen : cs.length = cols.length := by simp [cs]
  have hCcols : C.cols = colNames cn cs.length 0 := by
    simp only [C, Package.ctx, P, compileN]
    rw [zip_map_snd _ _ (by simp [compNCols_length]), compNCols_vars]
  have hvlen : vs.length = cs.length := by
    have := denotes_length QC _ _ vs hvs; simpa using this
  -- 1. declarations
  obtain ⟨hsimple, hnodup⟩ := compNCols_declsOK C B hB nm cn hinj cs 0 0
  obtain ⟨sD, hexD, hrD, hdone, hfrD⟩ := exec_decls C (fs.flatMap (·.decls)) ⟨σc, []⟩ hsimple hnodup
  have hcnD : ∀ k, sD.env (cn k) = σc (cn k) := by
    intro k
    apply hfrD
    intro hm
    obtain ⟨j, _, _, hj⟩ := declsIn_names (compNCols_declsIn B nm cn cs 0 0) _ hm
    exact hdisj j k hj.symm
  -- 2. the loops of all columns
  obtain ⟨sS, hexS, hrS, hvars, hvec, _⟩ := compNCols_correct C QC rfl rfl B hB nm cn hinj hcinj hres hcres hdisj hcollT
    cs 0 0 sD vs (tokNCols_eventRows B nm cn hinj cols QC.N QC.ev) hdone
    (by intro k hk1 hk2; rw [hcnD k]; exact hσ k hk1 (by rw [← hcslen]; exact hk2))
    (fun col hc => by
      obtain ⟨p, hp, rfl⟩ := List.mem_map.1 hc
      exact hhyp p hp) hvs
  -- 3. fill
  have hread : readCols sS.env C.cols = .ok vs := by
    rw [hCcols, ← hvlen]; exact readCols_of_varsHold cn vs 0 sS.env hvars
  -- 4. clears
  obtain ⟨sF, hexF, hrF, hpreF, _⟩ := nclears_correct C B nm cn hcinj cs 0 0 ⟨sS.env, sS.rows ++ [vs]⟩ vs hvars hvlen hvec
  refine ⟨keepClass P.classVars sF.env, ?_, ?_⟩
  rotate_left
  · intro k hk1 hk2
    have hmem : cn k ∈ P.classVars.map (·.2) := by
      have h1 : cn k ∈ (fs.map (·.classVar)).map (·.2) := by
        rw [List.map_map]
        have := compNCols_vars B nm cn cs 0 0
        simp only [fs]
        rw [show ((fun x : String × String => x.2) ∘ fun x : ColFrag => x.classVar) = (fun x : ColFrag => x.classVar.2) from rfl, this]
        exact mem_colNames cn _ 0 k (Nat.zero_le _) (by rw [hcslen]; exact hk2)
      simp only [P, compileN, List.map_append, List.mem_append]
      exact Or.inr h1
    have hany : P.classVars.any (fun p => decide (p.2 = cn k)) = true := by
      obtain ⟨p, hp, hpe⟩ := List.mem_map.1 hmem
      simp only [List.any_eq_true, decide_eq_true_eq]
      exact ⟨p, hp, hpe⟩
    simp only [keepClass, hany, if_true]
    exact hpreF k hk1 (by rw [hcslen]; exact hk2)
  have hblock := exec_block4 C (fs.flatMap (·.decls)) (fs.flatMap (·.stmts)) (fs.flatMap (·.clears))
    (B.fillTree B.treeName) ⟨σc, []⟩ sD sS sF vs hexD hexS hread hexF
  have hbody : P.body = .block (fs.flatMap (·.decls) ++ fs.flatMap (·.stmts) ++
      [.fill (B.fillTree B.treeName)] ++ fs.flatMap (·.clears)) := rfl
  have hrun : runEvent P QC.N σc QC.ev = .ok (sF.rows, keepClass P.classVars sF.env) := by
    simp only [runEvent]
    rw [hbody]
    have : exec (P.ctx QC.N QC.ev) (.block (fs.flatMap (·.decls) ++ fs.flatMap (·.stmts) ++
      [.fill (B.fillTree B.treeName)] ++ fs.flatMap (·.clears))) ⟨σc, []⟩ = .ok sF := hblock
    rw [this]
  rw [show compileN B nm cn (.eventRows cols) = P from rfl, hrun]
  have : sF.rows = [vs] := by
    rw [hrF]; simp only
    rw [hrS, hrD]; rfl
  rw [this]

end FaxVerif.Gen
