/-
Gen — ONE event-level column of the nested fragment: `e.Coll(bank).Where*.Select(y → body)` where the body
iterates a collection returned by a method of `y`:
  (a) `body` = an expression with inner aggregates  → `col.push_back(value)` per kept outer element;
  (b) `body` = an inner chain (2-D column)           → `std::vector<T> ntuple;` declared in the outer loop body
      (so it is EMPTY again for every outer element), the inner loop pushing into it, `col.push_back(ntuple)`.
`PushSpec` is what the outer loop needs of either body; `pushCol_correct` is the outer loop.
-/
import FaxVerif.Gen.NestedElemRowsCorrect
namespace FaxVerif.Gen
open FaxVerif.Cpp FaxVerif.Linq
variable {D : Type}

/-- the continuation `k` computes, from the current outer element `v`, the value `f v` and appends it to the
vector variable `col`; it touches `col` and its own fresh names only -/
def PushSpec (C : Ctx D) (nm : Nat → String) (col : String) (k : KN) (f : Val D → Except Fault (Val D))
    (Q : Val D → Prop) : Prop :=
  ∀ (cur : CExpr) (m : Nat) (s : St D) (v u : Val D) (a : List (Val D)),
    (∀ y ∈ vars cur, (∀ j, m ≤ j → y ≠ nm j) ∧ y ≠ col) →
    evalE C.N s.env cur = .ok v → Q v → s.env col = some (.val (.vec a)) → f v = .ok u →
    ∃ s', execs C (k cur none m).1 s = .ok s' ∧ s'.rows = s.rows ∧ s'.env col = some (.val (.vec (a ++ [u]))) ∧
      (∀ y, y ≠ col → ¬ InRange nm m (k cur none m).2 y → s'.env y = s.env y)

theorem exec_push_ok (C : Ctx D) (s : St D) (x : String) (e : CExpr) (l : List (Val D)) (u : Val D)
    (hx : s.env x = some (.val (.vec l))) (he : evalE C.N s.env e = .ok u) :
    exec C (.push x e) s = .ok { s with env := s.env.set x (.vec (l ++ [u])) } := by
  simp only [exec, hx, he]

/-! ## (a) a value with inner aggregates -/

theorem aggK_next_ge (B : Backend) (nm : Nat → String) (col : String) (e : NE) (cur : CExpr) (ty : Option Ty) (m : Nat) :
    m ≤ (aggK B nm col e cur ty m).2 := by
  simp only [aggK]; exact compNE_next_ge nm _ cur e m

theorem aggK_pushSpec (C : Ctx D) (QC : QCtx D) (hN : QC.N = C.N) (B : Backend) (nm : Nat → String)
    (hinj : ∀ i j, nm i = nm j → i = j) (col : String) (hcol : ∀ j, nm j ≠ col) (e : NE) (hwt : wtNE e = true)
    (y : String) (ρ : LEnv D) :
    PushSpec C nm col (aggK B nm col e) (fun v => denote QC ((y, v) :: ρ) (neQ y e)) (fun v => NEHyp QC v e) := by
  intro cur m s v u a hcv hcur hQ hcolv hf
  obtain ⟨s1, hex1, hr1, hv1, _, hf1⟩ := compNE_block_correct C QC hN nm hinj (B.elemPtr && (none : Option Ty).isNone) cur v y ρ e m s u
    (fun z hz => (hcv z hz).1) hcur hwt hQ hf
  have hcol1 : s1.env col = some (.val (.vec a)) := by
    rw [hf1 col (by rintro ⟨j, _, _, hj⟩; exact hcol j hj.symm)]; exact hcolv
  refine ⟨{ s1 with env := s1.env.set col (.vec (a ++ [u])) }, ?_, hr1, by simp [Env.set], ?_⟩
  · simp only [aggK]
    rw [execs_append, hex1]
    simp only [execs, exec_push_ok C s1 col _ a u hcol1 hv1]
  · intro z hz hzr
    simp only [Env.set, hz, if_false]
    exact hf1 z (by simpa [aggK] using hzr)

/-! ## (b) an inner chain: the 2-D column -/

/-- the collection-returning method returns a collection whenever it returns -/
def InnerIsVec (v : Val D) (ic : IChain) : Prop := ∀ u, member v ic.meth [] = .ok u → ∃ l, u = .vec l

theorem twoDK_next_ge (B : Backend) (nm : Nat → String) (col : String) (ic : IChain) (cur : CExpr) (ty : Option Ty) (m : Nat) :
    m ≤ (twoDK B nm col ic cur ty m).2 := by
  simp only [twoDK]
  cases h : ic.steps with
  | nil => simp
  | cons st rest =>
    have := innerLoop_next_ge nm cur (B.elemPtr && ty.isNone) ic (m + 1) (pushK (nm m))
    simp only []; omega

/-- what the embedded inner chain denotes: a list, element-at-a-time -/
theorem ichainQ_vec (QC : QCtx D) (x : String) (v : Val D) (ρ : LEnv D) (ic : IChain) (u : Val D)
    (hvec : InnerIsVec v ic) (h : denote QC ((x, v) :: ρ) (ichainQ x ic) = .ok u) : ∃ ws, u = .vec ws := by
  have hsrc0 : denote QC ((x, v) :: ρ) (.meth (.var x) ic.meth) = member v ic.meth [] := by
    simp [denote, LEnv.get]
  unfold ichainQ at h
  cases hs : member v ic.meth [] with
  | error e => rw [stepsQ_error QC _ e ic.steps _ 0 (by rw [hsrc0, hs])] at h; simp at h
  | ok content =>
    obtain ⟨l, rfl⟩ := hvec content hs
    rw [stepsQ_denote QC _ ic.steps _ 0 l (by rw [hsrc0, hs])] at h
    cases hcl : chainList QC ic.steps l with
    | error e => rw [hcl] at h; simp at h
    | ok r => rw [hcl] at h; simp only [Except.ok.injEq] at h; exact ⟨r, h.symm⟩

theorem isVecType_vecTy (t : String) : isVecType (vecTy t) = true := by
  simp [isVecType, vecTy, String.toList_append]

theorem twoDK_pushSpec (C : Ctx D) (QC : QCtx D) (hN : QC.N = C.N) (B : Backend) (nm : Nat → String)
    (hinj : ∀ i j, nm i = nm j → i = j) (col : String) (hcol : ∀ j, nm j ≠ col) (ic : IChain) (hwt : wtIChain ic = true)
    (y : String) (ρ : LEnv D) :
    PushSpec C nm col (twoDK B nm col ic) (fun v => denote QC ((y, v) :: ρ) (ichainQ y ic))
      (fun v => InnerTyped v ic ∧ InnerIsVec v ic) := by
  intro cur m s v u a hcv hcur hQ hcolv hf
  cases hst : ic.steps with
  | nil =>
    -- the returned vector itself is pushed
    have hu : member v ic.meth [] = .ok u := by
      have : denote QC ((y, v) :: ρ) (.meth (.var y) ic.meth) = .ok u := by
        simpa [ichainQ, hst, stepsQ] using hf
      simpa [denote, LEnv.get] using this
    have hev : evalE C.N s.env (icoll cur (B.elemPtr && (none : Option Ty).isNone) ic) = .ok u := by
      simp [icoll, evalE, hcur, evalEs, hu]
    refine ⟨{ s with env := s.env.set col (.vec (a ++ [u])) }, ?_, rfl, by simp [Env.set], ?_⟩
    · simp only [twoDK, hst, execs, exec_push_ok C s col _ a u hcolv hev]
    · intro z hz _; simp [Env.set, hz]
  | cons st0 rest =>
    obtain ⟨ws, rfl⟩ := ichainQ_vec QC y v ρ ic u hQ.2 hf
    obtain ⟨l, hmem, hel⟩ := ichainQ_ok QC y v ρ ic ws hf
    obtain ⟨ptr, hptr⟩ : ∃ p, p = (B.elemPtr && (none : Option Ty).isNone) := ⟨_, rfl⟩
    have hnext := innerLoop_next_ge nm cur ptr ic (m + 1) (pushK (nm m))
    -- the storage vector's declaration: empty again for this outer element
    have hntcol : nm m ≠ col := hcol m
    have hcur0 : evalE C.N (s.env.set (nm m) (.vec [])) cur = .ok v := by
      rw [← hcur]
      apply evalE_congr
      intro z hz
      have : z ≠ nm m := (hcv z hz).1 m (Nat.le_refl m)
      simp [Env.set, this]
    have hntR : ¬ InRange nm (m + 1) (innerLoop nm cur ptr ic (m + 1) (pushK (nm m))).2 (nm m) := by
      rintro ⟨j, h1, _, h3⟩
      have := hinj _ _ h3; omega
    obtain ⟨s1, hex1, hP1⟩ := innerLoop_correct (β := List (Val D)) C QC hN nm hinj cur ptr ic (m + 1) (pushK (nm m)) (wtIChain_steps hwt)
      v l ws hmem hQ.1
      (fun t b => t.env (nm m) = some (.val (.vec b)) ∧ t.rows = s.rows ∧
        ∀ z, ¬ InRange nm m (innerLoop nm cur ptr ic (m + 1) (pushK (nm m))).2 z → t.env z = s.env z)
      (fun b w => .ok (b ++ [w]))
      (by
        intro t t' b hPt hr hfr
        refine ⟨by rw [hfr _ hntR]; exact hPt.1, by rw [hr]; exact hPt.2.1, fun z hz => ?_⟩
        rw [hfr z (fun h => hz (h.mono (by omega) (Nat.le_refl _)))]; exact hPt.2.2 z hz)
      (by
        intro t b b' w hPt hg hevw _
        simp only [Except.ok.injEq] at hg; subst hg
        refine ⟨{ t with env := t.env.set (nm m) (.vec (b ++ [w])) }, ?_, by simp [Env.set], hPt.2.1, ?_⟩
        · simp only [pushK, execs, exec_push_ok C t (nm m) _ b w hPt.1 hevw]
        · intro z hz
          have : z ≠ nm m := fun e => hz ⟨m, Nat.le_refl m, by omega, e⟩
          simp only [Env.set, this, if_false]; exact hPt.2.2 z hz)
      ⟨s.env.set (nm m) (.vec []), s.rows⟩ [] ([] ++ ws) hcur0 hel (foldG_push ws [])
      ⟨by simp [Env.set], rfl, fun z hz => by
        have : z ≠ nm m := fun e => hz ⟨m, Nat.le_refl m, by omega, e⟩
        simp [Env.set, this]⟩
    have hcol1 : s1.env col = some (.val (.vec a)) := by
      rw [hP1.2.2 col (by rintro ⟨j, _, _, hj⟩; exact hcol j hj.symm)]; exact hcolv
    have hnt1 : evalE C.N s1.env (.var (nm m)) = .ok (.vec ws) := by
      simp only [evalE, hP1.1, List.nil_append]
    refine ⟨{ s1 with env := s1.env.set col (.vec (a ++ [.vec ws])) }, ?_, hP1.2.1, by simp [Env.set], ?_⟩
    · simp only [twoDK, hst, ← hptr]
      have hdecl : exec C (.decl (vecTy ((ichainTy ic).getD .double).cpp) (nm m) none) s =
          .ok ⟨s.env.set (nm m) (.vec []), s.rows⟩ := by
        simp only [exec, isVecType_vecTy, if_true]
      simp only [execs, hdecl]
      rw [execs_append, hex1]
      simp only [execs, exec_push_ok C s1 col _ a _ hcol1 hnt1]
    · intro z hz hzr
      simp only [Env.set, hz, if_false]
      apply hP1.2.2 z
      simp only [twoDK, hst, ← hptr] at hzr
      exact hzr

/-! ## the outer loop of a column -/

theorem foldG_mapE (f : Val D → Except Fault (Val D)) : ∀ (ws us acc : List (Val D)), mapE f ws = .ok us →
    foldG (fun (a : List (Val D)) w => match f w with
      | .ok u => .ok (a ++ [u])
      | .error e => .error e) ws acc = .ok (acc ++ us)
  | [], us, acc, h => by simp only [mapE, Except.ok.injEq] at h; subst h; simp [foldG]
  | w :: ws, us, acc, h => by
    simp only [mapE] at h
    cases h1 : f w with
    | error e => rw [h1] at h; simp at h
    | ok u =>
      rw [h1] at h; simp only [] at h
      cases h2 : mapE f ws with
      | error e => rw [h2] at h; simp at h
      | ok us' =>
        rw [h2] at h; simp only [Except.ok.injEq] at h; subst h
        simp only [foldG, h1]
        rw [foldG_mapE f ws us' (acc ++ [u]) h2]
        simp

theorem compChainN_next (B : Backend) (nm : Nat → String) (c : Chain) (n : Nat) (k : KN) (hwo : wtOuter c = true) :
    (compChainN B nm c n k).next =
      (k (stepConds B.elemPtr (outerIt nm n) none c.steps).2.1 none (outerNext B nm c n)).2 := by
  simp only [compChainN]
  rw [wtOuter_ty hwo B.elemPtr (outerIt nm n)]

/-- **one event-level column over an outer chain** — retrieval, the outer loop, and per kept outer element
the continuation appending its value: afterwards the column variable holds exactly the list the query's
`Select` denotes. -/
theorem pushCol_correct (C : Ctx D) (QC : QCtx D) (hN : QC.N = C.N) (hev : QC.ev = C.ev)
    (B : Backend) (hB : BackendBase B) (nm : Nat → String)
    (hinj : ∀ i j, nm i = nm j → i = j) (hres : ∀ j, nm j ≠ "result")
    (hcollT : ∀ name, B.collType name = QC.collType name)
    (c : Chain) (hwo : wtOuter c = true) (n : Nat) (htok : TokChain B nm C c n)
    (col : String) (hcol : ∀ j, nm j ≠ col) (hcolres : col ≠ "result")
    (k : KN) (f : Val D → Except Fault (Val D)) (Q : Val D → Prop) (hspec : PushSpec C nm col k f Q)
    (hkge : ∀ cur m, m ≤ (k cur none m).2)
    (y : String) (body : Query) (hf : ∀ w, f w = denote QC [(y, w), ("e", evtVal)] body)
    (hct : ChainTyped QC c) (hQ : ∀ cty l, QC.ev.find c.bank = some (cty, .vec l) → ∀ v ∈ l, Q v)
    (s : St D) (hx : (s.env (nm n)).isSome = true) (hpre : s.env col = some (.val (.vec [])))
    (val : Val D) (hden : denote QC [("e", evtVal)] (.select (chainQ "e" c) y body) = .ok val) :
    ∃ us s', val = .vec us ∧ execs C (compChainN B nm c n k).stmts s = .ok s' ∧ s'.rows = s.rows ∧
      s'.env col = some (.val (.vec us)) ∧
      (∀ z, z ≠ col → ¬ Touch nm n (compChainN B nm c n k).next z → s'.env z = s.env z) := by
  rw [denote_select] at hden
  cases hc : denote QC [("e", evtVal)] (chainQ "e" c) with
  | error e => rw [hc] at hden; simp at hden
  | ok cv =>
    rw [hc] at hden
    cases cv with
    | vec ws =>
      simp only [] at hden
      cases hm : mapE (fun v => denote QC [(y, v), ("e", evtVal)] body) ws with
      | error e => rw [hm] at hden; simp at hden
      | ok us =>
        rw [hm] at hden
        simp only [Except.ok.injEq] at hden; subst hden
        have hm' : mapE f ws = .ok us := by rw [← hm]; exact mapE_congr _ _ hf ws
        obtain ⟨cty, l, hcty, hfind, hel⟩ := chainQ_ok QC _ "e" c ws hc
        let m := outerNext B nm c n
        let K : CExpr → Option Ty → List Stmt := fun cur ty => (k cur ty m).1
        have hm3 : n + 3 ≤ m := outerNext_ge B nm c n
        have htynone := wtOuter_ty hwo B.elemPtr (.var (nm (n + 1)))
        have hnextK : (compChain B nm c n K).next = m := compChain_next_eq B nm c n K
        have hNEXT := compChainN_next B nm c n k hwo
        have hmN : m ≤ (compChainN B nm c n k).next := by rw [hNEXT]; exact hkge _ _
        let Pinv : St D → List (Val D) → Prop := fun t a => t.env col = some (.val (.vec a)) ∧ t.rows = s.rows ∧
          ∀ z, z ≠ col → ¬ Touch nm n (compChainN B nm c n k).next z → t.env z = s.env z
        have hcolT : ∀ lo hi, ¬ Touch nm lo hi col := by
          intro lo hi
          rintro (⟨j, _, _, h⟩ | h)
          · exact hcol j h.symm
          · exact hcolres h
        obtain ⟨s', hex, hP'⟩ := compChain_correct_tok (β := List (Val D)) C QC hN B hB nm hinj hres c n htok K cty l ws
          (by rw [hcollT]; exact hcty) (by rw [← hev]; exact hfind) (wtOuter_steps hwo) (hct cty l hfind) Pinv
          (fun a w => match f w with
            | .ok u => .ok (a ++ [u])
            | .error e => .error e) Q (hQ cty l hfind)
          (by
            intro t t' b hPt hr hfr
            refine ⟨by rw [hfr _ (hcolT _ _)]; exact hPt.1, by rw [hr]; exact hPt.2.1, fun z hz1 hz2 => ?_⟩
            rw [hfr z (by rw [hnextK]; exact not_touch_sub hz2 (Nat.le_refl _) hmN)]; exact hPt.2.2 z hz1 hz2)
          (by
            intro t b b' w v0 hPt hg hevw _ hobj
            obtain ⟨rfl, hq⟩ := hobj htynone
            cases hfw : f w with
            | error e => rw [hfw] at hg; simp at hg
            | ok u =>
              rw [hfw] at hg; simp only [Except.ok.injEq] at hg; subst hg
              obtain ⟨t', hex', hr', hcol', hfr'⟩ := hspec (stepConds B.elemPtr (.var (nm (n + 1))) none c.steps).2.1 m t w u b
                (by
                  intro z hz
                  have := outerCur_vars B nm c n z hz
                  rw [this]
                  exact ⟨fun j hj e => by have := hinj _ _ e; omega, hcol _⟩)
                hevw hq hPt.1 hfw
              refine ⟨t', ?_, hcol', by rw [hr']; exact hPt.2.1, fun z hz1 hz2 => ?_⟩
              · simp only [K]; rw [htynone]; exact hex'
              · rw [hfr' z hz1 (fun h => hz2 (Or.inl (by
                  rw [hNEXT]; exact h.mono (by omega) (Nat.le_refl _))))]
                exact hPt.2.2 z hz1 hz2)
          s [] ([] ++ us) hx hel (foldG_mapE f ws us [] hm') ⟨hpre, rfl, fun _ _ _ => rfl⟩
        refine ⟨us, s', rfl, hex, hP'.2.1, by simpa using hP'.1, hP'.2.2⟩
    | _ => simp at hden

end FaxVerif.Gen
