/-
Gen — the column types `compileL` declares (lazy `and` / `or` → `bool`, conditional → `double`) are the types
the independent typing model assigns to the embedded query — on queries whose `and` / `or` operands are all
boolean (`boolOpsLE`): for other operands the translator model books `bool` (it casts), the typing model
assigns no type (Python's value of `a and b` is one of the operands).
-/
import FaxVerif.Gen.SchemaCorrectTyping
import FaxVerif.Gen.SchemaCorrectLazy
namespace FaxVerif.Gen
open FaxVerif.Cpp FaxVerif.Linq FaxVerif.C03

mutual
  /-- every operand of every `and` / `or` of the expression is boolean (in the translator model's typing) -/
  def boolOpsLE (cur : Ty) : LE → Bool
    | .bin _ a b => boolOpsLE cur a && boolOpsLE cur b
    | .cmp _ a b => boolOpsLE cur a && boolOpsLE cur b
    | .neg a => boolOpsLE cur a
    | .not a => boolOpsLE cur a
    | .bop _ a rest => boolOpsLE cur a && (tyLE cur a == .bool) && boolOperands cur rest
    | .ite c x y => boolOpsLE cur c && boolOpsLE cur x && boolOpsLE cur y
    | _ => true
  def boolOperands (cur : Ty) : List LE → Bool
    | [] => true
    | b :: bs => boolOpsLE cur b && (tyLE cur b == .bool) && boolOperands cur bs
end

theorem Ty.isFl_isNum {t : Ty} (h : t.isFl = true) : t.cty.isNum = true := by
  cases t <;> first | rfl | cases h

theorem iteTy_cty (c : Ty) {a b : Ty} (ha : a.isFl = true) (hb : b.isFl = true) : iteTy c.cty a.cty b.cty = .ok .double := by
  simp [iteTy, Ty.cty_isScalar, Ty.isFl_isNum ha, Ty.isFl_isNum hb]

theorem typeOf_opq (S : Sig) (Γ : TyEnv) (op : LOp) (a b : Query)
    (ha : typeOf S Γ a = .ok .bool) (hb : typeOf S Γ b = .ok .bool) : typeOf S Γ (op.q a b) = .ok .bool := by
  cases op <;> simp [LOp.q, typeOf, ha, hb, boolOpTy]

mutual
  theorem typeOf_leQ (S : Sig) (cls : String) (cur : Option Ty) (Γ : TyEnv) (x : String)
      (hx : assoc Γ x = some (curCTy cls cur)) :
      ∀ (le : LE), wtLE cur le = true → boolOpsLE (curT cur) le = true → sigMeths S cls (methsLE le) = true →
        typeOf S Γ (leQ x le) = .ok (tyLE (curT cur) le).cty
    | .int _, _, _, _ => by simp [leQ, typeOf, tyLE, Ty.cty]
    | .dbl _ _, _, _, _ => by simp [leQ, typeOf, tyLE, Ty.cty]
    | .bool _, _, _, _ => by simp [leQ, typeOf, tyLE, Ty.cty]
    | .it, hwt, _, _ => by
      simp only [wtLE, Option.isSome_iff_exists] at hwt
      obtain ⟨t, rfl⟩ := hwt
      simp [leQ, typeOf, hx, tyLE, curT, curCTy]
    | .meth name ty, hwt, _, hs => by
      simp only [wtLE, Option.isNone_iff_eq_none] at hwt
      subst hwt
      simp only [sigMeths, methsLE, List.all_cons, List.all_nil, Bool.and_true, decide_eq_true_eq] at hs
      simp [leQ, typeOf, hx, curCTy, hs, tyLE]
    | .bin op a b, hwt, hbo, hs => by
      simp only [wtLE, Bool.and_eq_true] at hwt
      obtain ⟨⟨⟨hwa, hwb⟩, hna⟩, hnb⟩ := hwt
      simp only [boolOpsLE, Bool.and_eq_true] at hbo
      simp only [methsLE, sigMeths_append, Bool.and_eq_true] at hs
      have ha := typeOf_leQ S cls cur Γ x hx a hwa hbo.1 hs.1
      have hb := typeOf_leQ S cls cur Γ x hx b hwb hbo.2 hs.2
      by_cases hop : op = .div
      · subst hop
        simp only [leQ, typeOf, ha, hb, AOp.str, binTy_div hna hnb, tyLE]; rfl
      · have h := binTy_arith hna hnb op hop
        cases op <;> first | exact absurd rfl hop | simp only [leQ, typeOf, ha, hb, h, tyLE]
    | .cmp op a b, hwt, hbo, hs => by
      simp only [wtLE, Bool.and_eq_true] at hwt
      obtain ⟨⟨⟨hwa, hwb⟩, _⟩, _⟩ := hwt
      simp only [boolOpsLE, Bool.and_eq_true] at hbo
      simp only [methsLE, sigMeths_append, Bool.and_eq_true] at hs
      have ha := typeOf_leQ S cls cur Γ x hx a hwa hbo.1 hs.1
      have hb := typeOf_leQ S cls cur Γ x hx b hwb hbo.2 hs.2
      simp only [leQ, typeOf, ha, hb, cmpTy_cty, tyLE]; rfl
    | .neg a, hwt, hbo, hs => by
      simp only [wtLE, Bool.and_eq_true] at hwt
      simp only [boolOpsLE] at hbo
      have ha := typeOf_leQ S cls cur Γ x hx a hwt.1 hbo (by simpa [methsLE] using hs)
      simp only [leQ, typeOf, ha, Ty.negTy_cty hwt.2, tyLE]
    | .not a, hwt, hbo, hs => by
      simp only [wtLE, Bool.and_eq_true, beq_iff_eq] at hwt
      simp only [boolOpsLE] at hbo
      have ha := typeOf_leQ S cls cur Γ x hx a hwt.1 hbo (by simpa [methsLE] using hs)
      simp only [leQ, typeOf, ha, tyLE, hwt.2, Ty.cty, notTy, CTy.isScalar, if_true]
    | .bop op a rest, hwt, hbo, hs => by
      simp only [wtLE, Bool.and_eq_true] at hwt
      simp only [boolOpsLE, Bool.and_eq_true, beq_iff_eq] at hbo
      simp only [methsLE, sigMeths_append, Bool.and_eq_true] at hs
      have ha := typeOf_leQ S cls cur Γ x hx a hwt.1.1 hbo.1.1 hs.1
      rw [hbo.1.2] at ha
      simp only [leQ, tyLE]
      exact typeOf_bopQ S cls cur Γ x hx op rest (leQ x a) ha hwt.1.2 hbo.2 hs.2
    | .ite c a b, hwt, hbo, hs => by
      simp only [wtLE, Bool.and_eq_true] at hwt
      obtain ⟨⟨⟨⟨hwc, hwa⟩, hwb⟩, hfa⟩, hfb⟩ := hwt
      simp only [boolOpsLE, Bool.and_eq_true] at hbo
      simp only [methsLE, sigMeths_append, Bool.and_eq_true] at hs
      have hc := typeOf_leQ S cls cur Γ x hx c hwc hbo.1.1 hs.1
      have ha := typeOf_leQ S cls cur Γ x hx a hwa hbo.1.2 hs.2.1
      have hb := typeOf_leQ S cls cur Γ x hx b hwb hbo.2 hs.2.2
      simp only [leQ, typeOf, hc, ha, hb, iteTy_cty _ hfa hfb, tyLE]; rfl
  theorem typeOf_bopQ (S : Sig) (cls : String) (cur : Option Ty) (Γ : TyEnv) (x : String)
      (hx : assoc Γ x = some (curCTy cls cur)) (op : LOp) :
      ∀ (rest : List LE) (acc : Query), typeOf S Γ acc = .ok Ty.bool.cty → wtLEs cur rest = true →
        boolOperands (curT cur) rest = true → sigMeths S cls (methsLEs rest) = true →
        typeOf S Γ (bopQ x op acc rest) = .ok Ty.bool.cty
    | [], acc, hacc, _, _, _ => by simpa [bopQ] using hacc
    | b :: bs, acc, hacc, hwt, hbo, hs => by
      simp only [wtLEs, Bool.and_eq_true] at hwt
      simp only [boolOperands, Bool.and_eq_true, beq_iff_eq] at hbo
      simp only [methsLEs, sigMeths_append, Bool.and_eq_true] at hs
      have hb := typeOf_leQ S cls cur Γ x hx b hwt.1 hbo.1.1 hs.1
      rw [hbo.1.2] at hb
      simp only [bopQ]
      exact typeOf_bopQ S cls cur Γ x hx op bs _ (typeOf_opq S Γ op _ _ hacc hb) hwt.2 hbo.2 hs.2
end

/-- the `Where` conditions of a lazy chain have boolean `and` / `or` operands -/
def boolOpsStepsL : Option Ty → List StepL → Bool
  | _, [] => true
  | t, .sel f :: rest => boolOpsStepsL (some (tyPE (curT t) f)) rest
  | t, .whr c :: rest => boolOpsLE (curT t) c && boolOpsStepsL t rest

theorem typeOf_stepsQL (S : Sig) (cls : String) (Γ : TyEnv) : ∀ (steps : List StepL) (src : Query) (k : Nat) (t : Option Ty),
    typeOf S Γ src = .ok (.vec (curCTy cls t)) → wtStepsL t steps = true → boolOpsStepsL t steps = true →
    sigMeths S cls (methsStepsL steps) = true →
    typeOf S Γ (stepsQL src steps k) = .ok (.vec (curCTy cls (chainTyL t steps)))
  | [], _, _, _, hsrc, _, _, _ => by simpa [stepsQL, chainTyL] using hsrc
  | .sel f :: rest, src, k, t, hsrc, hwt, hbo, hs => by
    simp only [wtStepsL, Bool.and_eq_true] at hwt
    simp only [boolOpsStepsL] at hbo
    simp only [methsStepsL, sigMeths_append, Bool.and_eq_true] at hs
    have hf := typeOf_peQ S cls t ((lamVar k, curCTy cls t) :: Γ) (lamVar k) (assoc_head _ _ _) f hwt.1 hs.1
    simp only [stepsQL, chainTyL]
    refine typeOf_stepsQL S cls Γ rest _ (k + 1) (some (tyPE (curT t) f)) ?_ hwt.2 hbo hs.2
    simp only [typeOf, hsrc, hf]; rfl
  | .whr c :: rest, src, k, t, hsrc, hwt, hbo, hs => by
    simp only [wtStepsL, Bool.and_eq_true] at hwt
    simp only [boolOpsStepsL, Bool.and_eq_true] at hbo
    simp only [methsStepsL, sigMeths_append, Bool.and_eq_true] at hs
    have hf := typeOf_leQ S cls t ((lamVar k, curCTy cls t) :: Γ) (lamVar k) (assoc_head _ _ _) c hwt.1 hbo.1 hs.1
    simp only [stepsQL, chainTyL]
    refine typeOf_stepsQL S cls Γ rest _ (k + 1) t ?_ hwt.2 hbo.2 hs.2
    simp only [typeOf, hsrc, hf, Ty.cty_isScalar, if_true]

theorem typeOfs_les (S : Sig) (cls : String) (cur : Option Ty) (Γ : TyEnv) (x : String)
    (hx : assoc Γ x = some (curCTy cls cur)) : ∀ (cols : List (String × LE)),
    (cols.all fun p => wtLE cur p.2) = true → (cols.all fun p => boolOpsLE (curT cur) p.2) = true →
    (cols.all fun p => sigMeths S cls (methsLE p.2)) = true →
    typeOfs S Γ (cols.map fun p => leQ x p.2) = .ok (cols.map fun p => (tyLE (curT cur) p.2).cty)
  | [], _, _, _ => rfl
  | p :: rest, hwt, hbo, hs => by
    simp only [List.all_cons, Bool.and_eq_true] at hwt hbo hs
    simp only [List.map_cons, typeOfs, typeOf_leQ S cls cur Γ x hx p.2 hwt.1 hbo.1 hs.1,
      typeOfs_les S cls cur Γ x hx rest hwt.2 hbo.2 hs.2]

/-- static well-typedness in the sense of the translator model (the hypotheses of `elemRowsL_correct`) -/
def FQL.wt : FQL → Bool
  | .elemRows c cols => wtStepsL none c.steps && cols.all fun p => wtLE (chainTyL none c.steps) p.2

/-- every `and` / `or` of the query (columns and `Where`s) has boolean operands -/
def FQL.boolOps : FQL → Bool
  | .elemRows c cols => boolOpsStepsL none c.steps && cols.all fun p => boolOpsLE ((chainTyL none c.steps).getD .double) p.2

def FQL.sigOk (S : Sig) : FQL → Bool
  | .elemRows c cols => match S.collElem c.coll with
    | some cls => sigMeths S cls (methsStepsL c.steps) && cols.all fun p => sigMeths S cls (methsLE p.2)
    | none => false

def FQL.ctys : FQL → List CTy
  | .elemRows c cols => cols.map fun p => (tyLE ((chainTyL none c.steps).getD .double) p.2).cty

theorem FQL.ctys_cppName (fq : FQL) : (FQL.ctys fq).map cppName = FQL.types fq := by
  obtain ⟨c, cols⟩ := fq
  simp [FQL.ctys, FQL.types, List.map_map, Function.comp_def, Ty.cppName_cty]

theorem FQL.ctys_length (fq : FQL) : (FQL.ctys fq).length = (FQL.names fq).length := by
  obtain ⟨c, cols⟩ := fq
  simp [FQL.ctys, FQL.names]

theorem finalColumns_FQL (S : Sig) (fq : FQL) (hwt : fq.wt = true) (hbo : fq.boolOps = true) (hs : fq.sigOk S = true) :
    finalColumns S (FQL.toQuery fq) = .ok ((FQL.names fq).zip (FQL.ctys fq)) := by
  obtain ⟨c, cols⟩ := fq
  simp only [FQL.wt, Bool.and_eq_true] at hwt
  simp only [FQL.boolOps, Bool.and_eq_true] at hbo
  simp only [FQL.sigOk] at hs
  split at hs
  · rename_i cls hc
    simp only [Bool.and_eq_true] at hs
    simp only [FQL.toQuery, FQL.names, FQL.ctys]
    apply finalColumns_select_dict S _ "r" _ _ (curCTy cls (chainTyL none c.steps))
    · have hch : typeOf S [("e", .event)] (chainQL "e" c) = .ok (.vec (curCTy cls (chainTyL none c.steps))) := by
        unfold chainQL
        apply typeOf_stepsQL S cls _ c.steps _ 0 none _ hwt.1 hbo.1 hs.1
        simp [typeOf, assoc, hc, curCTy]
      simp [typeOf, hch]
    · exact typeOfs_les S cls (chainTyL none c.steps) [("r", _)] "r" (assoc_head _ _ _) cols hwt.2 hbo.2 hs.2
    · simp
    · exact allShapes_of _ fun t ht => by
        obtain ⟨p, _, rfl⟩ := List.mem_map.1 ht
        cases tyLE ((chainTyL none c.steps).getD .double) p.2 <;> rfl
  · cases hs

end FaxVerif.Gen
