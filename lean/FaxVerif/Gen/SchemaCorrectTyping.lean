/-
Gen — the column types the translator model declares are the types the INDEPENDENT typing model
`Linq.typeOf` / `finalColumns` assigns to the embedded user-level query (lemmas; the property theorems are in
`C03/TheoremsGen.lean`). One-loop fragment (`Gen/Lite.lean`).

The data-model table `Sig` must declare the accessors the query uses as the query's own annotations say:
`sigMeths S cls ms` — every `meth name ty` of the list is declared on class `cls` with the type `ty`;
`sigChain S c` — the chain's collection accessor is declared and yields objects of a class on which the
methods of the chain's steps are declared.
-/
import FaxVerif.Gen.SchemaCorrect
import FaxVerif.Linq.TypingProofs
namespace FaxVerif.Gen
open FaxVerif.Cpp FaxVerif.Linq FaxVerif.C03

/-- the typing model's type of a translator type -/
def Ty.cty : Ty → CTy
  | .int => .int | .float => .float | .double => .double | .bool => .bool

theorem Ty.cppName_cty (t : Ty) : cppName t.cty = t.cpp := by cases t <;> rfl

theorem Ty.cty_isScalar (t : Ty) : t.cty.isScalar = true := by cases t <;> rfl

theorem Ty.cty_isNum {t : Ty} (h : t.isNum = true) : t.cty.isNum = true := by cases t <;> first | rfl | cases h

theorem Ty.join_cty {a b : Ty} (ha : a.isNum = true) (hb : b.isNum = true) :
    Linq.join a.cty b.cty = some (a.join b).cty := by
  cases a <;> cases b <;> first | rfl | exact absurd ha (by decide) | exact absurd hb (by decide)

theorem Ty.join_isNum {a b : Ty} (ha : a.isNum = true) (hb : b.isNum = true) : (a.join b).isNum = true := by
  cases a <;> cases b <;> first | rfl | exact absurd ha (by decide) | exact absurd hb (by decide)

theorem Ty.negTy_cty {t : Ty} (h : t.isNum = true) : negTy t.cty = .ok t.cty := by
  cases t <;> first | rfl | cases h

/-- the type of the value a lambda ranges over: an object of class `cls` (`none`) or a number -/
def curCTy (cls : String) : Option Ty → CTy
  | none => .obj cls
  | some t => t.cty

/-- every accessor in the list is declared on `cls` with the annotated return type -/
def sigMeths (S : Sig) (cls : String) (ms : List (String × Ty)) : Bool :=
  ms.all fun p => decide (S.method cls p.1 = some p.2.cty)

theorem sigMeths_append (S : Sig) (cls : String) (a b : List (String × Ty)) :
    sigMeths S cls (a ++ b) = (sigMeths S cls a && sigMeths S cls b) := by
  simp [sigMeths, List.all_append]

theorem AOp.str_arith (op : AOp) (h : op ≠ .div) : op.str ∈ arithOps ∧ op.str ≠ "/" ∧ op.str ≠ "**" := by
  cases op <;> first | exact absurd rfl h | (refine ⟨by decide, by decide, by decide⟩)

theorem COp.str_cmp (op : COp) : op.str ∈ cmpOps := by cases op <;> decide

theorem binTy_div {a b : Ty} (ha : a.isNum = true) (hb : b.isNum = true) : binTy "/" a.cty b.cty = .ok .double := by
  simp [binTy, Ty.join_cty ha hb]

theorem binTy_arith {a b : Ty} (ha : a.isNum = true) (hb : b.isNum = true) (op : AOp) (h : op ≠ .div) :
    binTy op.str a.cty b.cty = .ok (a.join b).cty := by
  obtain ⟨h1, h2, h3⟩ := AOp.str_arith op h
  simp [binTy, Ty.join_cty ha hb, h1, h2, h3]

theorem cmpTy_cty (op : COp) (a b : Ty) : cmpTy op.str a.cty b.cty = .ok .bool := by
  simp [cmpTy, COp.str_cmp, Ty.cty_isScalar]

/-! ## pure expressions, chains -/

theorem typeOf_peQ (S : Sig) (cls : String) (cur : Option Ty) (Γ : TyEnv) (x : String)
    (hx : assoc Γ x = some (curCTy cls cur)) :
    ∀ (pe : PE), wtPE cur pe = true → sigMeths S cls (methsPE pe) = true →
      typeOf S Γ (peQ x pe) = .ok (tyPE (curT cur) pe).cty
  | .int _, _, _ => by simp [peQ, typeOf, tyPE, Ty.cty]
  | .dbl _ _, _, _ => by simp [peQ, typeOf, tyPE, Ty.cty]
  | .bool _, _, _ => by simp [peQ, typeOf, tyPE, Ty.cty]
  | .it, hwt, _ => by
    simp only [wtPE, Option.isSome_iff_exists] at hwt
    obtain ⟨t, rfl⟩ := hwt
    simp [peQ, typeOf, hx, tyPE, curT, curCTy]
  | .meth name ty, hwt, hs => by
    simp only [wtPE, Option.isNone_iff_eq_none] at hwt
    subst hwt
    simp only [sigMeths, methsPE, List.all_cons, List.all_nil, Bool.and_true, decide_eq_true_eq] at hs
    simp [peQ, typeOf, hx, curCTy, hs, tyPE]
  | .bin op a b, hwt, hs => by
    simp only [wtPE, Bool.and_eq_true] at hwt
    obtain ⟨⟨⟨hwa, hwb⟩, hna⟩, hnb⟩ := hwt
    simp only [methsPE, sigMeths_append, Bool.and_eq_true] at hs
    have ha := typeOf_peQ S cls cur Γ x hx a hwa hs.1
    have hb := typeOf_peQ S cls cur Γ x hx b hwb hs.2
    by_cases hop : op = .div
    · subst hop
      simp only [peQ, typeOf, ha, hb, AOp.str, binTy_div hna hnb, tyPE]; rfl
    · have h := binTy_arith hna hnb op hop
      cases op <;> first | exact absurd rfl hop | simp only [peQ, typeOf, ha, hb, h, tyPE]
  | .cmp op a b, hwt, hs => by
    simp only [wtPE, Bool.and_eq_true] at hwt
    obtain ⟨⟨⟨hwa, hwb⟩, _⟩, _⟩ := hwt
    simp only [methsPE, sigMeths_append, Bool.and_eq_true] at hs
    have ha := typeOf_peQ S cls cur Γ x hx a hwa hs.1
    have hb := typeOf_peQ S cls cur Γ x hx b hwb hs.2
    simp only [peQ, typeOf, ha, hb, cmpTy_cty, tyPE]; rfl
  | .neg a, hwt, hs => by
    simp only [wtPE, Bool.and_eq_true] at hwt
    have ha := typeOf_peQ S cls cur Γ x hx a hwt.1 (by simpa [methsPE] using hs)
    simp only [peQ, typeOf, ha, Ty.negTy_cty hwt.2, tyPE]
  | .not a, hwt, hs => by
    simp only [wtPE, Bool.and_eq_true, beq_iff_eq] at hwt
    have ha := typeOf_peQ S cls cur Γ x hx a hwt.1 (by simpa [methsPE] using hs)
    simp only [peQ, typeOf, ha, tyPE, hwt.2, Ty.cty, notTy, CTy.isScalar, if_true]

theorem assoc_head (Γ : TyEnv) (x : String) (t : CTy) : assoc ((x, t) :: Γ) x = some t := by simp [assoc]

/-- the steps of a chain over a sequence whose elements have kind `t` (objects of `cls` when `none`) -/
theorem typeOf_stepsQ (S : Sig) (cls : String) (Γ : TyEnv) : ∀ (steps : List Step) (src : Query) (k : Nat) (t : Option Ty),
    typeOf S Γ src = .ok (.vec (curCTy cls t)) → wtSteps t steps = true → sigMeths S cls (methsSteps steps) = true →
    typeOf S Γ (stepsQ src steps k) = .ok (.vec (curCTy cls (chainTy t steps)))
  | [], _, _, _, hsrc, _, _ => by simpa [stepsQ, chainTy] using hsrc
  | .sel f :: rest, src, k, t, hsrc, hwt, hs => by
    simp only [wtSteps, Bool.and_eq_true] at hwt
    simp only [methsSteps, sigMeths_append, Bool.and_eq_true] at hs
    have hf := typeOf_peQ S cls t ((lamVar k, curCTy cls t) :: Γ) (lamVar k) (assoc_head _ _ _) f hwt.1 hs.1
    simp only [stepsQ, chainTy]
    refine typeOf_stepsQ S cls Γ rest _ (k + 1) (some (tyPE (curT t) f)) ?_ hwt.2 hs.2
    simp only [typeOf, hsrc, hf]; rfl
  | .whr c :: rest, src, k, t, hsrc, hwt, hs => by
    simp only [wtSteps, Bool.and_eq_true] at hwt
    simp only [methsSteps, sigMeths_append, Bool.and_eq_true] at hs
    have hf := typeOf_peQ S cls t ((lamVar k, curCTy cls t) :: Γ) (lamVar k) (assoc_head _ _ _) c hwt.1.1 hs.1
    simp only [stepsQ, chainTy]
    refine typeOf_stepsQ S cls Γ rest _ (k + 1) t ?_ hwt.2 hs.2
    simp only [typeOf, hsrc, hf, Ty.cty_isScalar, if_true]

/-- the chain's collection accessor is declared, and the methods of the steps are declared on its class -/
def sigChain (S : Sig) (c : Chain) : Bool :=
  match S.collElem c.coll with
  | some cls => sigMeths S cls (methsSteps c.steps)
  | none => false

theorem sigChain_cls {S : Sig} {c : Chain} (h : sigChain S c = true) :
    ∃ cls, S.collElem c.coll = some cls ∧ sigMeths S cls (methsSteps c.steps) = true := by
  unfold sigChain at h
  split at h
  · exact ⟨_, by assumption, h⟩
  · cases h

theorem typeOf_chainQ (S : Sig) (Γ : TyEnv) (ev : String) (hev : assoc Γ ev = some .event) (c : Chain) (cls : String)
    (hc : S.collElem c.coll = some cls) (hs : sigMeths S cls (methsSteps c.steps) = true) (hwt : wtSteps none c.steps = true) :
    typeOf S Γ (chainQ ev c) = .ok (.vec (curCTy cls (chainTy none c.steps))) := by
  unfold chainQ
  apply typeOf_stepsQ S cls Γ c.steps _ 0 none _ hwt hs
  simp [typeOf, hev, hc, curCTy]

/-! ## event-level scalars and columns -/

def sigEE (S : Sig) (e : EE) : Bool := (chainsEE e).all (sigChain S)

theorem chainNumTy_some {c : Chain} (h : (chainNumTy c).isSome = true) :
    ∃ t, chainTy none c.steps = some t ∧ t.isNum = true := by
  unfold chainNumTy at h
  split at h
  · rename_i t ht
    by_cases hn : t.isNum = true
    · exact ⟨t, ht, hn⟩
    · simp [hn] at h
  · cases h

theorem sumTy_cty {t : Ty} (h : t.isNum = true) : sumTy t.cty = .ok (Ty.join .int t).cty := by
  cases t <;> first | rfl | cases h

theorem typeOf_eeQ (S : Sig) (Γ : TyEnv) (ev : String) (hev : assoc Γ ev = some .event) :
    ∀ (e : EE), wtEE e = true → sigEE S e = true → typeOf S Γ (eeQ ev e) = .ok (tyEE e).cty
  | .int _, _, _ => by simp [eeQ, typeOf, tyEE, Ty.cty]
  | .dbl _ _, _, _ => by simp [eeQ, typeOf, tyEE, Ty.cty]
  | .bool _, _, _ => by simp [eeQ, typeOf, tyEE, Ty.cty]
  | .count c, hwt, hs => by
    simp only [wtEE] at hwt
    simp only [sigEE, chainsEE, List.all_cons, List.all_nil, Bool.and_true] at hs
    obtain ⟨cls, hc, hm⟩ := sigChain_cls hs
    simp only [eeQ, typeOf, typeOf_chainQ S Γ ev hev c cls hc hm hwt, tyEE, Ty.cty]
  | .sum c, hwt, hs => by
    simp only [wtEE, Bool.and_eq_true] at hwt
    simp only [sigEE, chainsEE, List.all_cons, List.all_nil, Bool.and_true] at hs
    obtain ⟨cls, hc, hm⟩ := sigChain_cls hs
    obtain ⟨t, ht, hn⟩ := chainNumTy_some hwt.2
    simp only [eeQ, typeOf, typeOf_chainQ S Γ ev hev c cls hc hm hwt.1, tyEE, ht, curCTy, sumTy_cty hn, Option.getD_some]
  | .bin op a b, hwt, hs => by
    simp only [wtEE, Bool.and_eq_true] at hwt
    obtain ⟨⟨⟨hwa, hwb⟩, hna⟩, hnb⟩ := hwt
    simp only [sigEE, chainsEE, List.all_append, Bool.and_eq_true] at hs
    have ha := typeOf_eeQ S Γ ev hev a hwa hs.1
    have hb := typeOf_eeQ S Γ ev hev b hwb hs.2
    by_cases hop : op = .div
    · subst hop
      simp only [eeQ, typeOf, ha, hb, AOp.str, binTy_div hna hnb, tyEE]; rfl
    · have h := binTy_arith hna hnb op hop
      cases op <;> first | exact absurd rfl hop | simp only [eeQ, typeOf, ha, hb, h, tyEE]
  | .cmp op a b, hwt, hs => by
    simp only [wtEE, Bool.and_eq_true] at hwt
    obtain ⟨⟨⟨hwa, hwb⟩, _⟩, _⟩ := hwt
    simp only [sigEE, chainsEE, List.all_append, Bool.and_eq_true] at hs
    have ha := typeOf_eeQ S Γ ev hev a hwa hs.1
    have hb := typeOf_eeQ S Γ ev hev b hwb hs.2
    simp only [eeQ, typeOf, ha, hb, cmpTy_cty, tyEE]; rfl
  | .neg a, hwt, hs => by
    simp only [wtEE, Bool.and_eq_true] at hwt
    have ha := typeOf_eeQ S Γ ev hev a hwt.1 (by simpa [sigEE, chainsEE] using hs)
    simp only [eeQ, typeOf, ha, Ty.negTy_cty hwt.2, tyEE]
  | .not a, hwt, hs => by
    simp only [wtEE, Bool.and_eq_true, beq_iff_eq] at hwt
    have ha := typeOf_eeQ S Γ ev hev a hwt.1 (by simpa [sigEE, chainsEE] using hs)
    simp only [eeQ, typeOf, ha, tyEE, hwt.2, Ty.cty, notTy, CTy.isScalar, if_true]

/-- static well-typedness of a column (the static part of `ColHyp`) -/
def wtCol : Col → Bool
  | .scalar e => wtEE e
  | .seq c => wtSteps none c.steps
  | .first c => wtSteps none c.steps

/-- a vector / `First()` column ranges over a chain that ENDS IN SCALARS (not in objects). The translator
model books `std::vector<double>` / `double` for a chain of objects (`getD .double`); the typing model assigns
no column type to a sequence of objects. -/
def Col.scalarElems : Col → Bool
  | .scalar _ => true
  | .seq c => (chainTy none c.steps).isSome
  | .first c => (chainTy none c.steps).isSome

def sigCol (S : Sig) : Col → Bool
  | .scalar e => sigEE S e
  | .seq c => sigChain S c
  | .first c => sigChain S c

/-- the typing model's type of a column of the translator model -/
def Col.cty : Col → CTy
  | .scalar e => (tyEE e).cty
  | .seq c => .vec ((chainTy none c.steps).getD .double).cty
  | .first c => ((chainTy none c.steps).getD .double).cty

theorem Col.cppName_cty (col : Col) : cppName col.cty = col.cppTy := by
  cases col <;> simp [Col.cty, Col.cppTy, cppName, Ty.cppName_cty]

theorem Col.colShape_cty (col : Col) : colShape col.cty = true := by
  cases col with
  | scalar e => simp only [Col.cty]; cases tyEE e <;> rfl
  | seq c => simp only [Col.cty]; cases (chainTy none c.steps).getD .double <;> rfl
  | first c => simp only [Col.cty]; cases (chainTy none c.steps).getD .double <;> rfl

theorem typeOf_colQ (S : Sig) (Γ : TyEnv) (ev : String) (hev : assoc Γ ev = some .event) (col : Col)
    (hwt : wtCol col = true) (hsc : col.scalarElems = true) (hs : sigCol S col = true) :
    typeOf S Γ (colQ ev col) = .ok col.cty := by
  cases col with
  | scalar e => exact typeOf_eeQ S Γ ev hev e hwt hs
  | seq c =>
    obtain ⟨cls, hc, hm⟩ := sigChain_cls hs
    simp only [Col.scalarElems, Option.isSome_iff_exists] at hsc
    obtain ⟨t, ht⟩ := hsc
    simp only [colQ, typeOf_chainQ S Γ ev hev c cls hc hm hwt, Col.cty, ht, curCTy, Option.getD_some]
  | first c =>
    obtain ⟨cls, hc, hm⟩ := sigChain_cls hs
    simp only [Col.scalarElems, Option.isSome_iff_exists] at hsc
    obtain ⟨t, ht⟩ := hsc
    simp only [colQ, typeOf, typeOf_chainQ S Γ ev hev c cls hc hm hwt, Col.cty, ht, curCTy, Option.getD_some, elemTy]

theorem typeOfs_cols (S : Sig) (Γ : TyEnv) (ev : String) (hev : assoc Γ ev = some .event) : ∀ (cols : List (String × Col)),
    (cols.all fun p => wtCol p.2) = true → (cols.all fun p => p.2.scalarElems) = true → (cols.all fun p => sigCol S p.2) = true →
    typeOfs S Γ (cols.map fun p => colQ ev p.2) = .ok (cols.map fun p => p.2.cty)
  | [], _, _, _ => rfl
  | p :: rest, hwt, hsc, hs => by
    simp only [List.all_cons, Bool.and_eq_true] at hwt hsc hs
    simp only [List.map_cons, typeOfs, typeOf_colQ S Γ ev hev p.2 hwt.1 hsc.1 hs.1,
      typeOfs_cols S Γ ev hev rest hwt.2 hsc.2 hs.2]

theorem typeOfs_pes (S : Sig) (cls : String) (cur : Option Ty) (Γ : TyEnv) (x : String)
    (hx : assoc Γ x = some (curCTy cls cur)) : ∀ (cols : List (String × PE)),
    (cols.all fun p => wtPE cur p.2) = true → (cols.all fun p => sigMeths S cls (methsPE p.2)) = true →
    typeOfs S Γ (cols.map fun p => peQ x p.2) = .ok (cols.map fun p => (tyPE (curT cur) p.2).cty)
  | [], _, _ => rfl
  | p :: rest, hwt, hs => by
    simp only [List.all_cons, Bool.and_eq_true] at hwt hs
    simp only [List.map_cons, typeOfs, typeOf_peQ S cls cur Γ x hx p.2 hwt.1 hs.1,
      typeOfs_pes S cls cur Γ x hx rest hwt.2 hs.2]

/-! ## the final shape -/

theorem allShapes_of : ∀ (ts : List CTy), (∀ t ∈ ts, colShape t = true) → allShapes ts = true
  | [], _ => rfl
  | t :: ts, h => by
    simp only [allShapes, Bool.and_eq_true]
    exact ⟨h t (by simp), allShapes_of ts fun u hu => h u (by simp [hu])⟩

/-- the columns of `src.Select(x -> {k₁: e₁, …})`, given the types of the source and of the entries -/
theorem finalColumns_select_dict (S : Sig) (s : Query) (x : String) (keys : List String) (es : List Query)
    (te : CTy) (ts : List CTy) (hs : typeOf S [] s = .ok (.vec te)) (hes : typeOfs S [(x, te)] es = .ok ts)
    (hlen : keys.length = ts.length) (hshape : allShapes ts = true) :
    finalColumns S (.select s x (.dict keys es)) = .ok (keys.zip ts) := by
  have hrow : rowType S (.select s x (.dict keys es)) = .ok (.dict (mkFields keys ts)) := by
    simp [rowType, typeOf, hs, hes, hlen]
  have hf : rowFields (.dict (mkFields keys ts)) = (keys, ts) := by
    simp only [rowFields, fieldNames_mk keys ts (by omega), fieldTypes_mk keys ts (by omega)]
  simp [finalColumns, hrow, hf, hshape]

/-! ## the fragment queries -/

/-- static well-typedness of a fragment query in the sense of the translator model (the static part of `FragHyp`) -/
def FQ.wt : FQ → Bool
  | .eventRows cols => cols.all fun p => wtCol p.2
  | .elemRows c cols => wtSteps none c.steps && cols.all fun p => wtPE (chainTy none c.steps) p.2

/-- the data-model table declares the accessors the query uses as the query's `meth name ty` annotations say -/
def FQ.sigOk (S : Sig) : FQ → Bool
  | .eventRows cols => cols.all fun p => sigCol S p.2
  | .elemRows c cols => match S.collElem c.coll with
    | some cls => sigMeths S cls (methsSteps c.steps) && cols.all fun p => sigMeths S cls (methsPE p.2)
    | none => false

/-- every vector / `First()` column ranges over a chain that ends in scalars -/
def FQ.scalarElems : FQ → Bool
  | .eventRows cols => cols.all fun p => p.2.scalarElems
  | .elemRows _ _ => true

/-- the typing model's types of the columns of the translator model -/
def FQ.ctys : FQ → List CTy
  | .eventRows cols => cols.map fun p => p.2.cty
  | .elemRows c cols => cols.map fun p => (tyPE ((chainTy none c.steps).getD .double) p.2).cty

theorem FQ.ctys_cppName (fq : FQ) : (FQ.ctys fq).map cppName = FQ.types fq := by
  cases fq with
  | eventRows cols => simp [FQ.ctys, FQ.types, List.map_map, Function.comp_def, Col.cppName_cty]
  | elemRows c cols => simp [FQ.ctys, FQ.types, List.map_map, Function.comp_def, Ty.cppName_cty]

theorem FQ.ctys_length (fq : FQ) : (FQ.ctys fq).length = (FQ.names fq).length := by
  cases fq <;> simp [FQ.ctys, FQ.names]

theorem finalColumns_FQ (S : Sig) (fq : FQ) (hwt : fq.wt = true) (hsc : fq.scalarElems = true) (hs : fq.sigOk S = true) :
    finalColumns S (FQ.toQuery fq) = .ok ((FQ.names fq).zip (FQ.ctys fq)) := by
  cases fq with
  | eventRows cols =>
    simp only [FQ.wt] at hwt
    simp only [FQ.scalarElems] at hsc
    simp only [FQ.sigOk] at hs
    simp only [FQ.toQuery, FQ.names, FQ.ctys]
    apply finalColumns_select_dict S .ds "e" _ _ .event
    · simp [typeOf]
    · exact typeOfs_cols S [("e", .event)] "e" (assoc_head _ _ _) cols hwt hsc hs
    · simp
    · exact allShapes_of _ fun t ht => by
        obtain ⟨p, _, rfl⟩ := List.mem_map.1 ht
        exact Col.colShape_cty p.2
  | elemRows c cols =>
    simp only [FQ.wt, Bool.and_eq_true] at hwt
    simp only [FQ.sigOk] at hs
    split at hs
    · rename_i cls hc
      simp only [Bool.and_eq_true] at hs
      simp only [FQ.toQuery, FQ.names, FQ.ctys]
      apply finalColumns_select_dict S _ "r" _ _ (curCTy cls (chainTy none c.steps))
      · have hch := typeOf_chainQ S [("e", .event)] "e" (assoc_head _ _ _) c cls hc hs.1 hwt.1
        simp [typeOf, hch]
      · exact typeOfs_pes S cls (chainTy none c.steps) [("r", _)] "r" (assoc_head _ _ _) cols hwt.2 hs.2
      · simp
      · exact allShapes_of _ fun t ht => by
          obtain ⟨p, _, rfl⟩ := List.mem_map.1 ht
          cases tyPE ((chainTy none c.steps).getD .double) p.2 <;> rfl
    · cases hs

end FaxVerif.Gen
