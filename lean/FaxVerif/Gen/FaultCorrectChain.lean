/-
Gen — the FAULT direction of the translator model, part 2: retrieval + loop of one chain, what a
chain denotes when its bank is missing / present, and the consumers (Count, Sum, vector column,
First, element-level rows) as instances of `loop_fault`.
-/
import FaxVerif.Gen.FaultCorrect
namespace FaxVerif.Gen
open FaxVerif.Cpp FaxVerif.Linq
variable {D : Type}

/-! ## the query side of a chain -/

/-- the bank a chain ranges over, if present, has the container type the backend declares for the
collection and holds a sequence (the typing hypothesis on the event: inside it the only ways a
chain can be undefined are a missing bank and a faulting member call) -/
def BankTyped (QC : QCtx D) (c : Chain) : Prop :=
  ∀ have_ content, QC.ev.find c.bank = some (have_, content) →
    QC.collType c.coll = some have_ ∧ ∃ l, content = .vec l

theorem chainQ_missing (QC : QCtx D) (c : Chain) (h : QC.ev.find c.bank = none) :
    denote QC [("e", evtVal)] (chainQ "e" c) = .error (.retrieveFailed c.bank) := by
  unfold chainQ
  apply stepsQ_error
  simp [denote, LEnv.get, h]

theorem chainQ_found (QC : QCtx D) (c : Chain) (cty : String) (l : List (Val D))
    (hf : QC.ev.find c.bank = some (cty, .vec l)) (hct : QC.collType c.coll = some cty) :
    denote QC [("e", evtVal)] (chainQ "e" c) = (match chainList QC c.steps l with
      | .ok r => .ok (.vec r)
      | .error e => .error e) := by
  unfold chainQ
  apply stepsQ_denote
  simp [denote, LEnv.get, hf, hct]

/-- the three cases of a chain on a typed event -/
theorem chainQ_cases (QC : QCtx D) (c : Chain) (hb : BankTyped QC c) :
    (QC.ev.find c.bank = none ∧ denote QC [("e", evtVal)] (chainQ "e" c) = .error (.retrieveFailed c.bank)) ∨
    (∃ cty l, QC.ev.find c.bank = some (cty, .vec l) ∧ QC.collType c.coll = some cty ∧
      denote QC [("e", evtVal)] (chainQ "e" c) = (match chainList QC c.steps l with
        | .ok r => .ok (.vec r)
        | .error e => .error e)) := by
  cases hf : QC.ev.find c.bank with
  | none => exact Or.inl ⟨rfl, chainQ_missing QC c hf⟩
  | some p =>
    obtain ⟨have_, content⟩ := p
    obtain ⟨hct, l, rfl⟩ := hb have_ content hf
    exact Or.inr ⟨have_, l, rfl, hct, chainQ_found QC c have_ l hf hct⟩

/-! ## retrieval -/

/-- a missing bank: the retrieval block fails with `retrieveFailed` (all three idioms) -/
theorem compChain_retrieve_fault (C : Ctx D) (B : Backend) (hB : BackendBase B) (nm : Nat → String)
    (c : Chain) (n : Nat) (htok : TokChain B nm C c n) (K : CExpr → Option Ty → List Stmt)
    (hfind : C.ev.find c.bank = none) (s : St D) :
    execs C (compChain B nm c n K).stmts s = .error (.retrieveFailed c.bank) := by
  have hreq : ∀ σ : Env D, retrReq C σ B.how ((B.collType c.coll).getD "?") (if B.how = "token" then .opaque "" else .str c.bank)
      (if B.how = "token" then nm (n + 2) else "") = .error (.retrieveFailed c.bank) := by
    intro σ
    by_cases ht : B.how = "token"
    · have := htok ht
      simp [retrReq, ht, this, hfind]
    · simp [retrReq, ht, evalE, hfind]
  rcases hB.resultInit with hi | hi
  · simp only [compChain, execs, exec, hi, hB.handleNotVec]
    simp [Env.declare, hreq]
  · simp only [compChain, execs, exec, hi, evalE, castTo_plain C.N _ _ (hB.handlePlain _)]
    simp [Env.set, hreq]

/-- **retrieval + loop, fault direction** — the bank is present; the interleaved evaluation of
"chain, then consumer" over its elements faults with `f`: the emitted retrieval block succeeds and
the loop raises `f`. -/
theorem compChain_fault_tok {β : Type} (C : Ctx D) (QC : QCtx D) (hN : QC.N = C.N)
    (B : Backend) (hB : BackendBase B) (nm : Nat → String)
    (hinj : ∀ i j, nm i = nm j → i = j) (hres : ∀ j, nm j ≠ "result")
    (c : Chain) (n : Nat) (htok : TokChain B nm C c n) (K : CExpr → Option Ty → List Stmt) (cons : Bool)
    (cty : String) (l : List (Val D))
    (hcoll : B.collType c.coll = some cty) (hfind : C.ev.find c.bank = some (cty, .vec l))
    (hwt : wtSteps none c.steps = true) (hst : strictSteps cons c.steps = true)
    (hmt : ∀ v ∈ l, MethTyped v (methsSteps c.steps))
    (P : St D → β → Prop) (g : β → Val D → Except Fault β) (Q : Val D → Prop) (hQ : ∀ v ∈ l, Q v)
    (hstable : ∀ (s s' : St D) b, P s b → s'.rows = s.rows →
        (∀ y, ¬ Touch nm n (compChain B nm c n K).next y → s'.env y = s.env y) → P s' b)
    (hK : ∀ (s : St D) b b' w (v : Val D), P s b → g b w = .ok b' →
        evalE C.N s.env (stepConds B.elemPtr (.var (nm (n + 1))) none c.steps).2.1 = .ok w →
        (∀ t, (stepConds B.elemPtr (.var (nm (n + 1))) none c.steps).2.2 = some t → HasTy w t) →
        ((stepConds B.elemPtr (.var (nm (n + 1))) none c.steps).2.2 = none → w = v ∧ Q v) →
        ∃ s', execs C (K (stepConds B.elemPtr (.var (nm (n + 1))) none c.steps).2.1
                          (stepConds B.elemPtr (.var (nm (n + 1))) none c.steps).2.2) s = .ok s' ∧ P s' b')
    (hKg : ∀ (s : St D) b e w (v : Val D), P s b → g b w = .error e →
        evalE C.N s.env (stepConds B.elemPtr (.var (nm (n + 1))) none c.steps).2.1 = .ok w →
        (∀ t, (stepConds B.elemPtr (.var (nm (n + 1))) none c.steps).2.2 = some t → HasTy w t) →
        ((stepConds B.elemPtr (.var (nm (n + 1))) none c.steps).2.2 = none → w = v ∧ Q v) →
        execs C (K (stepConds B.elemPtr (.var (nm (n + 1))) none c.steps).2.1
                   (stepConds B.elemPtr (.var (nm (n + 1))) none c.steps).2.2) s = .error e)
    (hKf : cons = true → (stepConds B.elemPtr (.var (nm (n + 1))) none c.steps).2.2 ≠ none →
        ∀ (s : St D) b e, P s b →
        evalE C.N s.env (stepConds B.elemPtr (.var (nm (n + 1))) none c.steps).2.1 = .error e →
        execs C (K (stepConds B.elemPtr (.var (nm (n + 1))) none c.steps).2.1
                   (stepConds B.elemPtr (.var (nm (n + 1))) none c.steps).2.2) s = .error e)
    (s : St D) (b : β) (f : Fault) (hx : (s.env (nm n)).isSome = true)
    (hel : elemsFold QC c.steps g l b = .error f) (hP : P s b) :
    execs C (compChain B nm c n K).stmts s = .error f := by
  have hnext := compChain_next B nm c n K
  have hnext' : (compChain B nm c n K).next = (chainBody nm B.elemPtr (.var (nm (n + 1))) c.steps (n + 3) K).2 := rfl
  let σ2 : Env D := ((match B.resultInit with
      | none => s.env.declare "result"
      | some _ => s.env.set "result" (.int 0)).set "result" (.vec l)).set (nm n) (.vec l)
  have hblock : exec C (.block [.decl (B.handleTy cty) "result" B.resultInit,
        .retrieve B.how cty "result" (if B.how = "token" then .opaque "" else .str c.bank) (if B.how = "token" then nm (n + 2) else ""),
        .set (nm n) (.var "result")]) s = .ok ⟨σ2, s.rows⟩ := by
    have hreq : ∀ σ : Env D, retrReq C σ B.how cty (if B.how = "token" then .opaque "" else .str c.bank)
        (if B.how = "token" then nm (n + 2) else "") = .ok (.vec l) := by
      intro σ
      by_cases ht : B.how = "token"
      · have := htok ht
        rw [hcoll] at this
        simp [retrReq, ht, this, hfind]
      · simp [retrReq, ht, evalE, hfind]
    have hxr : nm n ≠ "result" := hres n
    rcases hB.resultInit with hi | hi
    · simp only [exec, execs, hi, hB.handleNotVec, σ2]
      simp [Env.declare, Env.set, hreq, evalE, hxr]
      cases hsx : s.env (nm n) with
      | none => rw [hsx] at hx; simp at hx
      | some _ => simp
    · simp only [exec, execs, hi, σ2, evalE, castTo_plain C.N _ _ (hB.handlePlain cty)]
      simp [Env.set, hreq, hxr]
      cases hsx : s.env (nm n) with
      | none => rw [hsx] at hx; simp at hx
      | some _ => simp
  have hσ2 : ∀ y, ¬ Touch nm n (compChain B nm c n K).next y → σ2 y = s.env y := by
    intro y hy
    have h1 : y ≠ "result" := fun e => hy (Or.inr e)
    have h2 : y ≠ nm n := fun e => hy (Or.inl ⟨n, Nat.le_refl n, by omega, e⟩)
    simp only [σ2, Env.set, h2, if_false, h1]
    cases B.resultInit <;> simp [Env.declare, Env.set, h1]
  have hP2 : P ⟨σ2, s.rows⟩ b := hstable s ⟨σ2, s.rows⟩ b hP rfl hσ2
  have hcoll' : evalE C.N σ2 (.deref (.var (nm n))) = .ok (.vec l) := by
    simp [evalE, σ2, Env.set]
  have hi : ∀ j, n + 3 ≤ j → nm (n + 1) ≠ nm j := fun j hj e => by have := hinj _ _ e; omega
  have hit := loop_fault C QC hN nm hinj B.elemPtr (nm (n + 1)) c.steps (n + 3) hi K cons hwt hst P g Q
    (fun t t' b0 hPt hr hfr => hstable t t' b0 hPt hr (fun y hy => by
      apply hfr y
      · intro e; exact hy (Or.inl ⟨n + 1, by omega, by omega, e⟩)
      · rintro ⟨j, hj1, hj2, hj3⟩; exact hy (Or.inl ⟨j, by omega, by rw [hnext']; exact hj2, hj3⟩)))
    hK hKg hKf l ⟨σ2, s.rows⟩ b f hmt hQ hel hP2
  simp only [compChain, hcoll, Option.getD_some, execs]
  rw [hblock]
  simp only [exec, hcoll']
  rw [hit]


/-! ## one chain with its consumer: the query faults ⇒ the emitted code faults, same class -/

/-- how the fault `f` of the query and the fault `f'` of the emitted code are related, for a chain
whose elements are asked for the methods `ms`: the bank is missing and both are `retrieveFailed` of
that bank; or the bank is there and both are faults of calls of those methods on elements of the
bank (the same fault whenever all such faults coincide — `ChainFaultRelM.eq_of_uniform`; e.g. a bank
of good objects and null links: both are `nullDeref`). -/
def ChainFaultRelM (QC : QCtx D) (c : Chain) (ms : List (String × Ty)) (f f' : Fault) : Prop :=
  (QC.ev.find c.bank = none ∧ f = .retrieveFailed c.bank ∧ f' = .retrieveFailed c.bank) ∨
  (∃ cty l, QC.ev.find c.bank = some (cty, .vec l) ∧ ListFault l ms f ∧ ListFault l ms f')

/-- `ChainFaultRelM` for the methods the chain's own steps call -/
abbrev ChainFaultRel (QC : QCtx D) (c : Chain) (f f' : Fault) : Prop := ChainFaultRelM QC c (methsSteps c.steps) f f'

theorem ChainFaultRelM.eq_of_uniform {QC : QCtx D} {c : Chain} {ms : List (String × Ty)} {f f' : Fault}
    (h : ChainFaultRelM QC c ms f f')
    (hu : ∀ cty l, QC.ev.find c.bank = some (cty, .vec l) → ∀ f1 f2, ListFault l ms f1 → ListFault l ms f2 → f1 = f2) :
    f' = f := by
  rcases h with ⟨_, h1, h2⟩ | ⟨cty, l, hf, h1, h2⟩
  · rw [h1, h2]
  · exact hu cty l hf f' f h2 h1

theorem chainQ_ok_vec (QC : QCtx D) (c : Chain) (hb : BankTyped QC c) (cv : Val D)
    (h : denote QC [("e", evtVal)] (chainQ "e" c) = .ok cv) : ∃ ws, cv = .vec ws := by
  rcases chainQ_cases QC c hb with ⟨_, hd⟩ | ⟨cty, l, _, _, hd⟩
  · rw [hd] at h; simp at h
  · rw [hd] at h
    cases hcl : chainList QC c.steps l with
    | error e => rw [hcl] at h; simp at h
    | ok r => rw [hcl] at h; simp only [Except.ok.injEq] at h; exact ⟨r, h.symm⟩

theorem foldG_never_error {β : Type} (g : β → Val D → Except Fault β) (hg : ∀ b w e, g b w ≠ .error e) :
    ∀ (ws : List (Val D)) (b : β) (e : Fault), foldG g ws b ≠ .error e
  | [], b, e, h => by simp [foldG] at h
  | w :: ws, b, e, h => by
    simp only [foldG] at h
    cases hgw : g b w with
    | error e' => exact hg b w e' hgw
    | ok b' => rw [hgw] at h; exact foldG_never_error g hg ws b' e h

/-- **one chain with its consumer** — on a typed event, if the query's "chain, then fold of the
consumer `g`" is undefined with fault `f` (the chain itself, or the fold over its value), the code
emitted for the chain (retrieval block + loop with continuation `K`) raises a fault `f'` of the same
class. -/
theorem chain_fault_tok {β : Type} (C : Ctx D) (QC : QCtx D) (hN : QC.N = C.N) (hev : QC.ev = C.ev)
    (B : Backend) (hB : BackendBase B) (nm : Nat → String)
    (hinj : ∀ i j, nm i = nm j → i = j) (hres : ∀ j, nm j ≠ "result")
    (hcollT : ∀ name, B.collType name = QC.collType name)
    (c : Chain) (n : Nat) (htok : TokChain B nm C c n) (K : CExpr → Option Ty → List Stmt) (cons : Bool)
    (hwt : wtSteps none c.steps = true) (hst : strictSteps cons c.steps = true)
    (hct : ChainTyped QC c) (hbt : BankTyped QC c)
    (P : St D → β → Prop) (g : β → Val D → Except Fault β) (Q : Val D → Prop)
    (hQ : ∀ cty l, QC.ev.find c.bank = some (cty, .vec l) → ∀ v ∈ l, Q v)
    (hstable : ∀ (s s' : St D) b, P s b → s'.rows = s.rows →
        (∀ y, ¬ Touch nm n (compChain B nm c n K).next y → s'.env y = s.env y) → P s' b)
    (hK : ∀ (s : St D) b b' w (v : Val D), P s b → g b w = .ok b' →
        evalE C.N s.env (stepConds B.elemPtr (.var (nm (n + 1))) none c.steps).2.1 = .ok w →
        (∀ t, (stepConds B.elemPtr (.var (nm (n + 1))) none c.steps).2.2 = some t → HasTy w t) →
        ((stepConds B.elemPtr (.var (nm (n + 1))) none c.steps).2.2 = none → w = v ∧ Q v) →
        ∃ s', execs C (K (stepConds B.elemPtr (.var (nm (n + 1))) none c.steps).2.1
                          (stepConds B.elemPtr (.var (nm (n + 1))) none c.steps).2.2) s = .ok s' ∧ P s' b')
    (hKg : ∀ (s : St D) b e w (v : Val D), P s b → g b w = .error e →
        evalE C.N s.env (stepConds B.elemPtr (.var (nm (n + 1))) none c.steps).2.1 = .ok w →
        (∀ t, (stepConds B.elemPtr (.var (nm (n + 1))) none c.steps).2.2 = some t → HasTy w t) →
        ((stepConds B.elemPtr (.var (nm (n + 1))) none c.steps).2.2 = none → w = v ∧ Q v) →
        execs C (K (stepConds B.elemPtr (.var (nm (n + 1))) none c.steps).2.1
                   (stepConds B.elemPtr (.var (nm (n + 1))) none c.steps).2.2) s = .error e)
    (hKf : cons = true → (stepConds B.elemPtr (.var (nm (n + 1))) none c.steps).2.2 ≠ none →
        ∀ (s : St D) b e, P s b →
        evalE C.N s.env (stepConds B.elemPtr (.var (nm (n + 1))) none c.steps).2.1 = .error e →
        execs C (K (stepConds B.elemPtr (.var (nm (n + 1))) none c.steps).2.1
                   (stepConds B.elemPtr (.var (nm (n + 1))) none c.steps).2.2) s = .error e)
    (ms : List (String × Ty)) (hms : ∀ p ∈ methsSteps c.steps, p ∈ ms)
    (hgE : ∀ v w b0 e, Q v → MethTyped v (methsSteps c.steps) → elemSem QC c.steps v = .ok (some w) →
        g b0 w = .error e → MethFault v ms e)
    (s : St D) (b : β) (f : Fault) (hx : (s.env (nm n)).isSome = true) (hP : P s b)
    (hgF : ∀ cty l ws, QC.ev.find c.bank = some (cty, .vec l) → chainList QC c.steps l = .ok ws →
        foldG g ws b = .error f → ListFault l ms f)
    (hf : denote QC [("e", evtVal)] (chainQ "e" c) = .error f ∨
          ∃ ws, denote QC [("e", evtVal)] (chainQ "e" c) = .ok (.vec ws) ∧ foldG g ws b = .error f) :
    ∃ f', execs C (compChain B nm c n K).stmts s = .error f' ∧ ChainFaultRelM QC c ms f f' := by
  rcases chainQ_cases QC c hbt with ⟨hnone, hden⟩ | ⟨cty, l, hfind, hct', hden⟩
  · have hfe : f = .retrieveFailed c.bank := by
      rcases hf with h | ⟨ws, h, _⟩
      · rw [hden] at h; simp only [Except.error.injEq] at h; exact h.symm
      · rw [hden] at h; simp at h
    exact ⟨_, compChain_retrieve_fault C B hB nm c n htok K (by rw [← hev]; exact hnone) s, Or.inl ⟨hnone, hfe, rfl⟩⟩
  · have hmt := hct cty l hfind
    have hnot : ∀ ws b', chainList QC c.steps l = .ok ws → foldG g ws b = .ok b' → False := by
      intro ws b' h1 h2
      rw [hden, h1] at hf
      rcases hf with h | ⟨ws', h, h'⟩
      · simp at h
      · simp only [Except.ok.injEq, Val.vec.injEq] at h
        subst h
        rw [h2] at h'; simp at h'
    obtain ⟨e, he⟩ := elemsFold_error_of QC c.steps g l b hnot
    have hex := compChain_fault_tok C QC hN B hB nm hinj hres c n htok K cons cty l
      (by rw [hcollT]; exact hct') (by rw [← hev]; exact hfind) hwt hst hmt P g Q (hQ cty l hfind)
      hstable hK hKg hKf s b e hx he hP
    have hLe : ListFault l ms e := elemsFold_listFault QC c.steps g hwt ms hms l b e hmt
      (fun v hv w b0 e' h1 h2 => hgE v w b0 e' (hQ cty l hfind v hv) (hmt v hv) h1 h2) he
    have hLf : ListFault l ms f := by
      rcases hf with h | ⟨ws, h, h'⟩
      · rw [hden] at h
        cases hcl : chainList QC c.steps l with
        | error e' =>
          rw [hcl] at h; simp only [Except.error.injEq] at h; subst h
          exact ((chainList_fault QC c.steps none l _ (by simp) hwt hmt hcl).1).mono hms
        | ok r => rw [hcl] at h; simp at h
      · rw [hden] at h
        cases hcl : chainList QC c.steps l with
        | error e' => rw [hcl] at h; simp at h
        | ok r =>
          rw [hcl] at h; simp only [Except.ok.injEq, Val.vec.injEq] at h; subst h
          exact hgF cty l r hfind hcl h'
    exact ⟨e, hex, Or.inr ⟨cty, l, hfind, hLf, hLe⟩⟩

/-! ## Count -/

/-- **Count, fault direction** (the consumer does not evaluate the value: `strictSteps false`) -/
theorem count_fault_tok (C : Ctx D) (QC : QCtx D) (hN : QC.N = C.N) (hev : QC.ev = C.ev)
    (B : Backend) (hB : BackendBase B) (nm : Nat → String)
    (hinj : ∀ i j, nm i = nm j → i = j) (hres : ∀ j, nm j ≠ "result")
    (hcollT : ∀ name, B.collType name = QC.collType name)
    (c : Chain) (n : Nat) (htok : TokChain B nm C c (n + 1)) (s : St D) (f : Fault)
    (hdone : DeclsDone C.N (compEE B nm (.count c) n).decls s.env)
    (hwt : wtSteps none c.steps = true) (hst : strictSteps false c.steps = true)
    (hmt : ChainTyped QC c) (hbt : BankTyped QC c)
    (hden : denote QC [("e", evtVal)] (eeQ "e" (.count c)) = .error f) :
    ∃ f', execs C (compEE B nm (.count c) n).stmts s = .error f' ∧ ChainFaultRel QC c f f' := by
  simp only [eeQ, denote] at hden
  have hchain : denote QC [("e", evtVal)] (chainQ "e" c) = .error f := by
    cases hc : denote QC [("e", evtVal)] (chainQ "e" c) with
    | error e => rw [hc] at hden; simpa using hden
    | ok cv =>
      obtain ⟨ws, rfl⟩ := chainQ_ok_vec QC c hbt cv hc
      rw [hc] at hden; simp at hden
  let K : CExpr → Option Ty → List Stmt := fun _ _ => [.set (nm n) (.bin "+" (.var (nm n)) (.int 1))]
  have hnext := compChain_next B nm c (n + 1) K
  have hacc : s.env (nm n) = some (.val (.int 0)) := by
    have := hdone (.decl "int" (nm n) (some (.int 0))) (by simp [compEE])
    have h0 := initVal_int C.N
    simp only [initVal] at h0
    simpa [DeclOK, h0] using this
  have hx : (s.env (nm (n + 1))).isSome = true := by
    have := hdone (.decl (B.handleTy ((B.collType c.coll).getD "?")) (nm (n + 1)) none) (by simp [compEE, compChain])
    simpa [DeclOK] using this
  have haccT : ¬ Touch nm (n + 1) (compChain B nm c (n + 1) K).next (nm n) := by
    rintro (⟨j, h1, _, h3⟩ | h)
    · have := hinj _ _ h3; omega
    · exact hres n h
  have := chain_fault_tok (β := Int) C QC hN hev B hB nm hinj hres hcollT c (n + 1) htok K false hwt hst hmt hbt
    (fun t b => t.env (nm n) = some (.val (.int b))) (fun a _ => .ok (a + 1)) (fun _ => True) (fun _ _ _ _ _ => trivial)
    (by intro t t' b hPt _ hfr; rw [hfr _ haccT]; exact hPt)
    (by
      intro t b b' w v0 hPt hg _ _ _
      simp only [Except.ok.injEq] at hg; subst hg
      refine ⟨{ t with env := t.env.set (nm n) (.int (b + 1)) }, ?_, by simp [Env.set]⟩
      simp only [K, execs, exec, hPt]
      rw [evalE_bin_arith _ _ _ (by simp) (by simp)]
      simp [evalE, hPt, arith, asInt])
    (by intro t b e w v0 _ hg; simp at hg)
    (by intro h; simp at h)
    (methsSteps c.steps) (fun _ hp => hp)
    (by intro v w b0 e _ _ _ hg; simp at hg)
    s 0 f hx hacc
    (by intro cty l ws _ _ h; exact absurd h (foldG_never_error _ (by intro b w e h; simp at h) ws 0 f))
    (Or.inl hchain)
  simpa [compEE] using this

/-! ## Sum -/

theorem foldG_sum_total (N : Num D) (t : Ty) (ht : t.isNum = true) : ∀ (ws : List (Val D)) (a : Val D),
    (∀ w ∈ ws, HasTy w t) → (HasTy a .int ∨ HasTy a (Ty.join .int t)) →
    ∃ v, foldG (fun a w => arith N "+" a w) ws a = .ok v
  | [], a, _, _ => ⟨a, rfl⟩
  | w :: ws, a, hws, ha => by
    have hw := hws w (by simp)
    have hstep : ∃ a', arith N "+" a w = .ok a' ∧ HasTy a' (Ty.join .int t) := by
      rcases ha with ha | ha
      · have h1 := arith_num N .add (by simp) a w _ _ ha hw (by simp [Ty.isNum]) ht
        obtain ⟨r, hr⟩ := pyArith_total N .add a w _ _ ha hw (by simp [Ty.isNum]) ht
        rw [← h1.1] at hr
        exact ⟨r, by simpa [AOp.str] using hr, h1.2 r hr⟩
      · have h1 := arith_num N .add (by simp) a w _ _ ha hw (join_int_num t ht) ht
        obtain ⟨r, hr⟩ := pyArith_total N .add a w _ _ ha hw (join_int_num t ht) ht
        rw [← h1.1] at hr
        exact ⟨r, by simpa [AOp.str] using hr, by have := h1.2 r hr; rwa [join_idem] at this⟩
    obtain ⟨a', h1, h2⟩ := hstep
    simp only [foldG, h1]
    exact foldG_sum_total N t ht ws a' (fun u hu => hws u (by simp [hu])) (Or.inr h2)

/-- one step of the emitted accumulation, on typed operands -/
theorem sum_step_typed (N : Num D) (t : Ty) (ht : t.isNum = true) (a w : Val D) (hw : HasTy w t)
    (ha : HasTy a .int ∨ HasTy a (Ty.join .int t)) :
    ∃ a', arith N "+" a w = .ok a' ∧ HasTy a' (Ty.join .int t) := by
  rcases ha with ha | ha
  · have h1 := arith_num N .add (by simp) a w _ _ ha hw (by simp [Ty.isNum]) ht
    obtain ⟨r, hr⟩ := pyArith_total N .add a w _ _ ha hw (by simp [Ty.isNum]) ht
    rw [← h1.1] at hr
    exact ⟨r, by simpa [AOp.str] using hr, h1.2 r hr⟩
  · have h1 := arith_num N .add (by simp) a w _ _ ha hw (join_int_num t ht) ht
    obtain ⟨r, hr⟩ := pyArith_total N .add a w _ _ ha hw (join_int_num t ht) ht
    rw [← h1.1] at hr
    exact ⟨r, by simpa [AOp.str] using hr, by have := h1.2 r hr; rwa [join_idem] at this⟩

theorem initVal_typed (N : Num D) (t : Ty) (ht : t.isNum = true) :
    HasTy (initVal N (Ty.join .int t).cpp) .int ∨ HasTy (initVal N (Ty.join .int t).cpp) (Ty.join .int t) := by
  cases t <;> simp [Ty.isNum] at ht <;>
    simp [initVal, initValOf, litOf, castTo, Ty.join, Ty.cpp, asD, HasTy]

/-- **Sum, fault direction** (the consumer adds the value: `strictSteps true`); the fold itself
cannot fault on numbers, so the query's fault is the chain's -/
theorem sum_fault_tok (C : Ctx D) (QC : QCtx D) (hN : QC.N = C.N) (hev : QC.ev = C.ev)
    (B : Backend) (hB : BackendBase B) (nm : Nat → String)
    (hinj : ∀ i j, nm i = nm j → i = j) (hres : ∀ j, nm j ≠ "result")
    (hcollT : ∀ name, B.collType name = QC.collType name)
    (c : Chain) (n : Nat) (htok : TokChain B nm C c (n + 1)) (s : St D) (f : Fault)
    (hdone : DeclsDone C.N (compEE B nm (.sum c) n).decls s.env)
    (hwt : wtSteps none c.steps = true) (t : Ty) (hct' : chainTy none c.steps = some t) (htn : t.isNum = true)
    (hst : strictSteps true c.steps = true)
    (hmt : ChainTyped QC c) (hbt : BankTyped QC c)
    (hden : denote QC [("e", evtVal)] (eeQ "e" (.sum c)) = .error f) :
    ∃ f', execs C (compEE B nm (.sum c) n).stmts s = .error f' ∧ ChainFaultRel QC c f f' := by
  simp only [eeQ, denote] at hden
  have hchain : denote QC [("e", evtVal)] (chainQ "e" c) = .error f := by
    cases hc : denote QC [("e", evtVal)] (chainQ "e" c) with
    | error e => rw [hc] at hden; simpa using hden
    | ok cv =>
      obtain ⟨ws, rfl⟩ := chainQ_ok_vec QC c hbt cv hc
      rw [hc] at hden; simp only [] at hden
      obtain ⟨cty, l, _, hfind, hel⟩ := chainQ_ok QC _ "e" c ws hc
      have hwsty := elemsSem_typed QC c.steps t hwt hct' l ws (hmt cty l hfind) hel
      obtain ⟨v, hv⟩ := foldG_sum_total QC.N t htn ws (.int 0) hwsty (Or.inl (by simp [HasTy]))
      rw [foldE_eq_foldG, hv] at hden; simp at hden
  let K : CExpr → Option Ty → List Stmt := fun cur _ => [.set (nm n) (.bin "+" (.var (nm n)) cur)]
  let g : Val D → Val D → Except Fault (Val D) := fun a w => match arith C.N "+" a w with
    | .ok r => .ok r
    | .error _ => .ok a
  have hgne : ∀ (b w : Val D) (e : Fault), g b w ≠ .error e := by
    intro b w e h
    simp only [g] at h
    cases h1 : arith C.N "+" b w <;> rw [h1] at h <;> simp at h
  have hnext := compChain_next B nm c (n + 1) K
  have hty : (Ty.join .int ((chainTy none c.steps).getD .double)) = Ty.join .int t := by rw [hct']; rfl
  have hacc : s.env (nm n) = some (.val (initVal C.N (Ty.join .int t).cpp)) := by
    have := hdone (.decl (Ty.join .int ((chainTy none c.steps).getD .double)).cpp (nm n) (some (.int 0))) (by simp [compEE])
    simpa [DeclOK, hty, initVal] using this
  have hx : (s.env (nm (n + 1))).isSome = true := by
    have := hdone (.decl (B.handleTy ((B.collType c.coll).getD "?")) (nm (n + 1)) none) (by simp [compEE, compChain])
    simpa [DeclOK] using this
  have haccT : ¬ Touch nm (n + 1) (compChain B nm c (n + 1) K).next (nm n) := by
    rintro (⟨j, h1, _, h3⟩ | h)
    · have := hinj _ _ h3; omega
    · exact hres n h
  have hfty : (stepConds B.elemPtr (.var (nm (n + 1 + 1))) none c.steps).2.2 = some t := by
    rw [stepConds_ty]; exact hct'
  have := chain_fault_tok (β := Val D) C QC hN hev B hB nm hinj hres hcollT c (n + 1) htok K true hwt hst hmt hbt
    (fun u a => u.env (nm n) = some (.val a) ∧ (HasTy a .int ∨ HasTy a (Ty.join .int t))) g (fun _ => True)
    (fun _ _ _ _ _ => trivial)
    (by intro u u' b hPu _ hfr; exact ⟨by rw [hfr _ haccT]; exact hPu.1, hPu.2⟩)
    (by
      intro u a a' w v0 hPu hg hevw htyw _
      obtain ⟨r, hr, hrt⟩ := sum_step_typed C.N t htn a w (htyw t hfty) hPu.2
      simp only [g, hr, Except.ok.injEq] at hg; subst hg
      refine ⟨{ u with env := u.env.set (nm n) r }, ?_, by simp [Env.set], Or.inr hrt⟩
      simp only [K, execs, exec, hPu.1]
      rw [evalE_bin_arith _ _ _ (by simp) (by simp)]
      simp [evalE, hPu.1, hevw, hr])
    (by intro u b e w v0 _ hg; exact absurd hg (hgne b w e))
    (by
      intro _ _ u a e hPu hevw
      simp only [K, execs, exec, hPu.1]
      rw [evalE_bin_arith _ _ _ (by simp) (by simp)]
      simp [evalE, hPu.1, hevw])
    (methsSteps c.steps) (fun _ hp => hp)
    (by intro v w b0 e _ _ _ hg; exact absurd hg (hgne b0 w e))
    s _ f hx ⟨hacc, initVal_typed C.N t htn⟩
    (by intro cty l ws _ _ h; exact absurd h (foldG_never_error g hgne ws _ f))
    (Or.inl hchain)
  simpa [compEE] using this

end FaxVerif.Gen
