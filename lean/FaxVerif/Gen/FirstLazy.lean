/-
Gen — the translator model for `First()` over a projection whose VALUE needs statements:

    coll(bank).{Select(pure) | Where(LE)}*.Select(x -> LE).First()

(`visit_call_First` of ast_to_cpp_translator.py on a sequence whose value is a declared C++ variable:
the result of a conditional expression or of an and / or chain.) The value's statements are emitted
in the loop body for EVERY kept element, in front of First's own statement

    if (is_first) { is_first = false; col = value; }

and the capture of the value sits INSIDE that guard (`copy_with_new_scope` gives First a value of its
own in the guard's scope): a capture placed after the guard would be overwritten by every later
element, and First() would yield the LAST element's value.

Built beside `Gen/Lazy.lean` (definitions unchanged): the chain, its retrieval and loop header and
the lowering of the `Where` conditions are `compChainL`'s; the continuation for a kept element is
`firstLK`. No Mathlib; computable. Tied to the implementation's text by tools/props/c04.py
(`first_lazy_tie`, text modulo a bijective renaming of declared identifiers).
-/
import FaxVerif.Gen.Lazy
namespace FaxVerif.Gen
open FaxVerif.Cpp FaxVerif.Linq

/-- what `First()` does with a kept element: the statements of the projected value `v` (its declarations
first), then the guarded capture `if (fl) { fl = false; col = value; }` -/
def firstLK (nm : Nat → String) (ptr : Bool) (fl col : String) (v : LE) (cur : CExpr) (ty : Option Ty) (n : Nat) :
    List Stmt × Nat :=
  let f := compLE nm (ptr && ty.isNone) cur (ty.getD .double) v n
  (f.decls ++ f.stmts ++ [.ite (.var fl) [.set fl (.bool false), .set col f.val] []], f.next)

/-- the supply position after the loop of `First()` over `c.Select(v)` (does not depend on the names of
the flag and of the column) -/
def firstLNext (B : Backend) (nm : Nat → String) (c : ChainL) (v : LE) (n : Nat) : Nat :=
  (compChainL B nm c n (firstLK nm B.elemPtr "" "" v)).next

/-- `bool fl (true);` outside the loop, the value's statements and the guarded capture inside,
throw-if-still-first after the loop -/
def compFirstL (B : Backend) (nm : Nat → String) (c : ChainL) (v : LE) (fl col msg : String) (n : Nat) : Frag :=
  let f := compChainL B nm c n (firstLK nm B.elemPtr fl col v)
  { decls := f.decls ++ [.decl "bool" fl (some (.bool true))],
    stmts := f.stmts ++ [.ite (.var fl) [.throw msg] []],
    next := f.next }

/-- the user-level query: `First(Select(chain, x -> v))` over the event variable `ev` -/
def firstLQ (ev : String) (c : ChainL) (v : LE) : Query :=
  .first (.select (chainQL ev c) "v" (leQ "v" v))

/-- the C++ type of the captured value -/
def firstLTy (c : ChainL) (v : LE) : Ty := tyLE ((chainTyL none c.steps).getD .double) v

/-- `ds.Select(e -> {name: chain.Select(x -> v).First()})`: one event-level row with one First column.
The flag takes the first name of the supply after the loop's (the translator visits the sequence,
then `First` asks for `is_first`). -/
def compileFirstL (B : Backend) (nm cn : Nat → String) (name : String) (c : ChainL) (v : LE) : Package :=
  let fl := nm (firstLNext B nm c v 0)
  let f := compFirstL B nm c v fl (cn 0) "First() called on an empty sequence" 0
  let toks := banksOf B f.stmts [c.bank]
  { body := .block (f.decls ++ f.stmts ++ [.fill (B.fillTree B.treeName)]),
    classVars := toks.map (fun t => ("edm::EDGetTokenT<" ++ t.2.1 ++ ">", t.1)) ++ [((firstLTy c v).cpp, cn 0)],
    branches := [(name, cn 0)],
    tree := B.treeName,
    tokens := toks }

def firstLTopQuery (name : String) (c : ChainL) (v : LE) : Query :=
  .select .ds "e" (.dict [name] [firstLQ "e" c v])

/-- inside the proved fragment -/
def wtFirstL (c : ChainL) (v : LE) : Bool :=
  wtStepsL none c.steps && wtLE (chainTyL none c.steps) v

end FaxVerif.Gen
