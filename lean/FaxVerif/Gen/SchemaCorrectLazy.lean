/-
Gen — `C03.SchemaOk` of what `compileL` emits (element-level rows with lazy `and` / `or` / conditional
columns and `Where`s): the lowered statements of the lazy operators write only their own result variables
(generated local names) and never fill; the row continuation assigns every branch variable and fills once.
-/
import FaxVerif.Gen.SchemaCorrect
namespace FaxVerif.Gen
open FaxVerif.Cpp FaxVerif.Linq FaxVerif.C03

mutual
  theorem compLE_fills (nm : Nat → String) (ptr : Bool) (cur : CExpr) (curTy : Ty) : ∀ (le : LE) (k : Nat),
      fillsL (compLE nm ptr cur curTy le k).decls = [] ∧ fillsL (compLE nm ptr cur curTy le k).stmts = []
    | .int _, _ => by simp [compLE, fillsL]
    | .dbl _ _, _ => by simp [compLE, fillsL]
    | .bool _, _ => by simp [compLE, fillsL]
    | .it, _ => by simp [compLE, fillsL]
    | .meth _ _, _ => by simp [compLE, fillsL]
    | .bin op a b, k => by
      have ha := compLE_fills nm ptr cur curTy a k
      have hb := compLE_fills nm ptr cur curTy b (compLE nm ptr cur curTy a k).next
      simp [compLE, fillsL_append, ha, hb]
    | .cmp op a b, k => by
      have ha := compLE_fills nm ptr cur curTy a k
      have hb := compLE_fills nm ptr cur curTy b (compLE nm ptr cur curTy a k).next
      simp [compLE, fillsL_append, ha, hb]
    | .neg a, k => by simpa [compLE] using compLE_fills nm ptr cur curTy a k
    | .not a, k => by simpa [compLE] using compLE_fills nm ptr cur curTy a k
    | .bop op a rest, k => by
      have ha := compLE_fills nm ptr cur curTy a (k + 1)
      have hr := compRest_fills nm ptr cur curTy (nm k) op rest (compLE nm ptr cur curTy a (k + 1)).next
      simp [compLE, fillsL_append, fillsL, fills, ha, hr]
    | .ite c x y, k => by
      have hc := compLE_fills nm ptr cur curTy c (k + 1)
      have hx := compLE_fills nm ptr cur curTy x (compLE nm ptr cur curTy c (k + 1)).next
      have hy := compLE_fills nm ptr cur curTy y (compLE nm ptr cur curTy x (compLE nm ptr cur curTy c (k + 1)).next).next
      simp [compLE, fillsL_append, fillsL, fills, hc, hx, hy]
  theorem compRest_fills (nm : Nat → String) (ptr : Bool) (cur : CExpr) (curTy : Ty) (r : String) (op : LOp) :
      ∀ (rest : List LE) (k : Nat), fillsL (compRest nm ptr cur curTy r op rest k).1 = []
    | [], _ => by simp [compRest, fillsL]
    | b :: bs, k => by
      have hb := compLE_fills nm ptr cur curTy b k
      have hr := compRest_fills nm ptr cur curTy r op bs (compLE nm ptr cur curTy b k).next
      simp [compRest, fillsL_append, fillsL, fills, hb, hr]
end

theorem compCond_fills (nm : Nat → String) (c : CondL) (n : Nat) :
    fillsL (compCond nm c n).decls = [] ∧ fillsL (compCond nm c n).stmts = [] :=
  compLE_fills nm c.ptr c.cur c.ty c.c n

theorem andLowerL_fills (nm : Nat → String) : ∀ (cs : List CondL) (n : Nat),
    fillsL (andLowerL nm cs n).1.decls = [] ∧ fillsL (andLowerL nm cs n).1.stmts = []
  | [], n => by simp [andLowerL, fillsL]
  | [c], n => by simpa [andLowerL] using compCond_fills nm c n
  | c :: c2 :: rest, n => by
    have ih := andLowerL_fills nm (c2 :: rest) (n + 1)
    have hc := compCond_fills nm c (andLowerL nm (c2 :: rest) (n + 1)).1.next
    simp [andLowerL, fillsL, fills, fillsL_append, ih, hc]

/-- the loop body of a lazy chain fills exactly where its continuation fills -/
theorem bodyL_fills (nm : Nat → String) (ptr : Bool) (it : CExpr) (steps : List StepL) (n : Nat)
    (k : CExpr → Option Ty → Nat → List Stmt × Nat) (F : List String)
    (hk : ∀ m, fillsL (k (stepCondsL ptr it none steps).2.1 (stepCondsL ptr it none steps).2.2 m).1 = F) :
    fillsL (bodyL nm ptr it steps n k).1 = F := by
  unfold bodyL
  cases h : (stepCondsL ptr it none steps).1 with
  | nil => simp only [h]; exact hk n
  | cons c cs =>
    simp only [h]
    obtain ⟨h1, h2⟩ := andLowerL_fills nm (c :: cs).reverse n
    simp only [fillsL_append, h1, h2, fillsL, fills, List.nil_append, List.append_nil, hk]

theorem bodyL_writes (nm : Nat → String) (ptr : Bool) (it : CExpr) (steps : List StepL) (n : Nat)
    (k : CExpr → Option Ty → Nat → List Stmt × Nat) (v : String)
    (hk : ∀ m, v ∈ writesL (k (stepCondsL ptr it none steps).2.1 (stepCondsL ptr it none steps).2.2 m).1) :
    v ∈ writesL (bodyL nm ptr it steps n k).1 := by
  unfold bodyL
  cases h : (stepCondsL ptr it none steps).1 with
  | nil => simp only [h]; exact hk n
  | cons c cs =>
    simp only [h]
    simp only [writesL_append, writesL, writes, List.mem_append, List.append_nil]
    exact .inr (hk _)

theorem compColsL_fills (nm : Nat → String) (ptr : Bool) (cur : CExpr) (curTy : Ty) : ∀ (les : List LE) (n : Nat),
    fillsL (compColsL nm ptr cur curTy les n).decls = [] ∧ fillsL (compColsL nm ptr cur curTy les n).stmts = []
  | [], _ => by simp [compColsL, fillsL]
  | le :: rest, n => by
    have h := compLE_fills nm ptr cur curTy le n
    have ih := compColsL_fills nm ptr cur curTy rest (compLE nm ptr cur curTy le n).next
    simp [compColsL, fillsL_append, h, ih]

theorem setsOf_fills (cn : Nat → String) : ∀ (es : List CExpr) (idx : Nat), fillsL (setsOf cn es idx) = []
  | [], _ => rfl
  | e :: es, idx => by simp [setsOf, fillsL, fills, setsOf_fills cn es (idx + 1)]

theorem setsOf_writes (cn : Nat → String) : ∀ (es : List CExpr) (idx : Nat), writesL (setsOf cn es idx) = colNames cn es.length idx
  | [], _ => rfl
  | e :: es, idx => by simp [setsOf, writesL, writes, colNames, setsOf_writes cn es (idx + 1)]

theorem rowK_fills (B : Backend) (nm cn : Nat → String) (les : List LE) (cur : CExpr) (ty : Option Ty) (m : Nat) :
    fillsL (rowK B nm cn les cur ty m).1 = [B.fillTree B.treeName] := by
  have h := compColsL_fills nm (B.elemPtr && ty.isNone) cur (ty.getD .double) les m
  simp [rowK, fillsL_append, h, setsOf_fills, fillsL, fills]

theorem rowK_writes (B : Backend) (nm cn : Nat → String) (les : List LE) (cur : CExpr) (ty : Option Ty) (m : Nat)
    (v : String) (hv : v ∈ colNames cn les.length 0) : v ∈ writesL (rowK B nm cn les cur ty m).1 := by
  simp only [rowK, writesL_append, List.mem_append, setsOf_writes, compColsL_vals_length]
  exact .inl (.inr hv)

/-- the C++ types of the columns `compileL` declares, in column order -/
def FQL.types : FQL → List String
  | .elemRows c cols => cols.map fun p => (tyLE ((chainTyL none c.steps).getD .double) p.2).cpp

def FQL.names : FQL → List String
  | .elemRows _ cols => cols.map (·.1)

theorem colVarsL_types (cn : Nat → String) (t : Option Ty) : ∀ (les : List LE) (idx : Nat),
    (colVarsL cn t les idx).map (·.1) = les.map fun le => (tyLE (t.getD .double) le).cpp
  | [], _ => rfl
  | le :: rest, idx => by simp [colVarsL, colVarsL_types cn t rest (idx + 1)]

theorem tokens_names_elemRowsL (B : Backend) (nm cn : Nat → String) (c : ChainL) (cols : List (String × LE)) :
    ∀ t ∈ (compileL B nm cn (.elemRows c cols)).tokens, ∃ j, t.1 = nm j := by
  intro t hm
  by_cases ht : B.how = "token"
  · have h := banksOf_chain B ht nm c.header 0 (fun _ _ => (chainBodyL B nm c 0 (rowK B nm cn (cols.map (·.2)))).1) [] []
    rw [List.append_nil] at h
    have htoks : (compileL B nm cn (.elemRows c cols)).tokens = chainToks B nm c.header 0 := by
      simp only [compileL, compChainL]
      exact h.trans (by simp [banksOf])
    rw [htoks] at hm
    simp only [chainToks, List.mem_singleton] at hm
    exact ⟨0 + 2, by rw [hm]⟩
  · have h := banksOf_chain_notToken B ht nm c.header 0
      (fun _ _ => (chainBodyL B nm c 0 (rowK B nm cn (cols.map (·.2)))).1) [] [c.bank]
    rw [List.append_nil] at h
    have htoks : (compileL B nm cn (.elemRows c cols)).tokens = [] := by
      simp only [compileL, compChainL]
      exact h.trans (by simp [banksOf])
    rw [htoks] at hm; simp at hm

theorem schemaOk_compileL (B : Backend) (nm cn : Nat → String)
    (hcinj : ∀ i j, cn i = cn j → i = j) (hdisj : ∀ j k, nm j ≠ cn k) (fq : FQL) :
    SchemaOk (compileL B nm cn fq) (FQL.names fq) (FQL.types fq) (B.fillTree B.treeName) = true := by
  obtain ⟨c, cols⟩ := fq
  have hn := colVarsL_names cn (chainTyL none c.steps) (cols.map (·.2)) 0
  have hl : (colVarsL cn (chainTyL none c.steps) (cols.map (·.2)) 0).length = cols.length := by
    have := congrArg List.length hn
    simpa [colNames_length] using this
  have hbody : fillsL (chainBodyL B nm c 0 (rowK B nm cn (cols.map (·.2)))).1 = [B.fillTree B.treeName] :=
    bodyL_fills nm B.elemPtr _ c.steps _ _ _ (fun m => rowK_fills B nm cn _ _ _ m)
  have hf := compChain_fills B nm c.header 0 (fun _ _ => (chainBodyL B nm c 0 (rowK B nm cn (cols.map (·.2)))).1)
  apply schemaOk_of _ nm cn _ _ _ (colVarsL cn (chainTyL none c.steps) (cols.map (·.2)) 0)
    (fun t => "edm::EDGetTokenT<" ++ t.2.1 ++ ">")
  · rfl
  · rfl
  · simp [FQL.names, hl]
  · rw [hn, hl]; simp
  · rw [colVarsL_types]; simp [FQL.types, List.map_map]
  · exact hcinj
  · exact tokens_names_elemRowsL B nm cn c cols
  · exact hdisj
  · intro v hv
    rw [hn] at hv
    simp only [compileL, compChainL, writes, writesL_append, List.mem_append]
    refine .inr (compChain_writes B nm c.header 0 _ v ?_)
    exact bodyL_writes nm B.elemPtr _ c.steps _ _ v (fun m => rowK_writes B nm cn _ _ _ m v hv)
  · simp only [compileL, compChainL, fills, fillsL_append]
    rw [show (compChain B nm ⟨c.coll, c.bank, []⟩ 0 fun _ _ => (chainBodyL B nm c 0 (rowK B nm cn (cols.map (·.2)))).1) =
      compChain B nm c.header 0 (fun _ _ => (chainBodyL B nm c 0 (rowK B nm cn (cols.map (·.2)))).1) from rfl, hf.1, hf.2, hbody]
    simp
  · intro t ht
    simp only [compileL, compChainL, fills, fillsL_append] at ht
    rw [show (compChain B nm ⟨c.coll, c.bank, []⟩ 0 fun _ _ => (chainBodyL B nm c 0 (rowK B nm cn (cols.map (·.2)))).1) =
      compChain B nm c.header 0 (fun _ _ => (chainBodyL B nm c 0 (rowK B nm cn (cols.map (·.2)))).1) from rfl, hf.1, hf.2, hbody] at ht
    simpa using ht

end FaxVerif.Gen
