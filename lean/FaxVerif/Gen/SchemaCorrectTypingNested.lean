/-
Gen — the column types `compileN` declares (`std::vector<int>` / `std::vector<double>` for inner aggregates,
`std::vector<std::vector<T>>` for 2-D columns, scalars for element-level rows of aggregates) are the types the
independent typing model assigns to the embedded query.

`sigIChain S cls ic` — the collection-returning method of the inner chain is declared on `cls` as a sequence of
the annotated element kind (numbers of type `t`, or objects of a class on which the methods of the inner steps
are declared).
-/
import FaxVerif.Gen.SchemaCorrectTyping
import FaxVerif.Gen.SchemaCorrectNested
namespace FaxVerif.Gen
open FaxVerif.Cpp FaxVerif.Linq FaxVerif.C03

theorem methsPE_nil_of_some {t : Ty} : ∀ {pe : PE}, wtPE (some t) pe = true → methsPE pe = []
  | .int _, _ => rfl
  | .dbl _ _, _ => rfl
  | .bool _, _ => rfl
  | .it, _ => rfl
  | .meth _ _, h => by simp [wtPE] at h
  | .bin _ a b, h => by
    simp only [wtPE, Bool.and_eq_true] at h
    simp [methsPE, methsPE_nil_of_some h.1.1.1, methsPE_nil_of_some h.1.1.2]
  | .cmp _ a b, h => by
    simp only [wtPE, Bool.and_eq_true] at h
    simp [methsPE, methsPE_nil_of_some h.1.1.1, methsPE_nil_of_some h.1.1.2]
  | .neg a, h => by
    simp only [wtPE, Bool.and_eq_true] at h
    simp [methsPE, methsPE_nil_of_some h.1]
  | .not a, h => by
    simp only [wtPE, Bool.and_eq_true] at h
    simp [methsPE, methsPE_nil_of_some h.1]

theorem methsSteps_nil_of_some : ∀ (steps : List Step) (t : Ty), wtSteps (some t) steps = true → methsSteps steps = []
  | [], _, _ => rfl
  | .sel f :: rest, t, h => by
    simp only [wtSteps, Bool.and_eq_true] at h
    simp [methsSteps, methsPE_nil_of_some h.1, methsSteps_nil_of_some rest _ h.2]
  | .whr c :: rest, t, h => by
    simp only [wtSteps, Bool.and_eq_true] at h
    simp [methsSteps, methsPE_nil_of_some h.1.1, methsSteps_nil_of_some rest _ h.2]

def sigIChain (S : Sig) (cls : String) (ic : IChain) : Bool :=
  match ic.elem with
  | some t => decide (S.method cls ic.meth = some (.vec t.cty))
  | none => match S.method cls ic.meth with
    | some (.vec (.obj k)) => sigMeths S k (methsSteps ic.steps)
    | _ => false

theorem sigIChain_inv {S : Sig} {cls : String} {ic : IChain} (hwt : wtIChain ic = true) (h : sigIChain S cls ic = true) :
    ∃ k, S.method cls ic.meth = some (.vec (curCTy k ic.elem)) ∧ sigMeths S k (methsSteps ic.steps) = true := by
  unfold sigIChain at h
  simp only [wtIChain, Bool.and_eq_true] at hwt
  split at h
  · rename_i t ht
    rw [ht] at hwt
    refine ⟨"", ?_, ?_⟩
    · rw [ht]; exact of_decide_eq_true h
    · rw [methsSteps_nil_of_some _ _ hwt.1]; rfl
  · rename_i ht
    split at h
    · rename_i k hk
      exact ⟨k, by rw [ht, hk]; rfl, h⟩
    · cases h

theorem typeOf_ichainQ (S : Sig) (cls : String) (Γ : TyEnv) (x : String) (hx : assoc Γ x = some (.obj cls))
    (ic : IChain) (hwt : wtIChain ic = true) (hs : sigIChain S cls ic = true) :
    ∃ k, typeOf S Γ (ichainQ x ic) = .ok (.vec (curCTy k (ichainTy ic))) := by
  obtain ⟨k, hm, hsm⟩ := sigIChain_inv hwt hs
  simp only [wtIChain, Bool.and_eq_true] at hwt
  refine ⟨k, ?_⟩
  unfold ichainQ ichainTy
  apply typeOf_stepsQ S k Γ ic.steps _ 0 ic.elem _ hwt.1 hsm
  simp [typeOf, hx, hm]

theorem ichainNumTy_some {ic : IChain} (h : (ichainNumTy ic).isSome = true) :
    ∃ t, ichainTy ic = some t ∧ t.isNum = true := by
  unfold ichainNumTy at h
  split at h
  · rename_i t ht
    by_cases hn : t.isNum = true
    · exact ⟨t, ht, hn⟩
    · simp [hn] at h
  · cases h

/-- the methods of the pure parts are declared on `cls`, and so are the inner collections -/
def sigNE (S : Sig) (cls : String) (e : NE) : Bool :=
  ((puresNE e).all fun p => sigMeths S cls (methsPE p)) && (ichainsNE e).all (sigIChain S cls)

theorem sigNE_bin {S : Sig} {cls : String} {a b : NE} (h : (((puresNE a ++ puresNE b).all fun p => sigMeths S cls (methsPE p)) &&
    (ichainsNE a ++ ichainsNE b).all (sigIChain S cls)) = true) : sigNE S cls a = true ∧ sigNE S cls b = true := by
  simp only [List.all_append, Bool.and_eq_true] at h
  simp only [sigNE, Bool.and_eq_true]
  exact ⟨⟨h.1.1, h.2.1⟩, ⟨h.1.2, h.2.2⟩⟩

theorem typeOf_neQ (S : Sig) (cls : String) (Γ : TyEnv) (x : String) (hx : assoc Γ x = some (.obj cls)) :
    ∀ (e : NE), wtNE e = true → sigNE S cls e = true → typeOf S Γ (neQ x e) = .ok (tyNE e).cty
  | .pure p, hwt, hs => by
    simp only [wtNE] at hwt
    simp only [sigNE, puresNE, ichainsNE, List.all_cons, List.all_nil, Bool.and_true] at hs
    exact typeOf_peQ S cls none Γ x hx p hwt hs
  | .icount ic, hwt, hs => by
    simp only [wtNE] at hwt
    simp only [sigNE, puresNE, ichainsNE, List.all_cons, List.all_nil, Bool.and_true, Bool.true_and] at hs
    obtain ⟨k, hk⟩ := typeOf_ichainQ S cls Γ x hx ic hwt hs
    simp only [neQ, typeOf, hk, tyNE]; rfl
  | .isum ic, hwt, hs => by
    simp only [wtNE, Bool.and_eq_true] at hwt
    simp only [sigNE, puresNE, ichainsNE, List.all_cons, List.all_nil, Bool.and_true, Bool.true_and] at hs
    obtain ⟨k, hk⟩ := typeOf_ichainQ S cls Γ x hx ic hwt.1 hs
    obtain ⟨t, ht, hn⟩ := ichainNumTy_some hwt.2
    rw [ht] at hk
    simp only [neQ, typeOf, hk, tyNE, ht, curCTy, sumTy_cty hn, Option.getD_some]
  | .bin op a b, hwt, hs => by
    simp only [wtNE, Bool.and_eq_true] at hwt
    obtain ⟨⟨⟨hwa, hwb⟩, hna⟩, hnb⟩ := hwt
    simp only [sigNE, puresNE, ichainsNE] at hs
    obtain ⟨hsa, hsb⟩ := sigNE_bin hs
    have ha := typeOf_neQ S cls Γ x hx a hwa hsa
    have hb := typeOf_neQ S cls Γ x hx b hwb hsb
    by_cases hop : op = .div
    · subst hop
      simp only [neQ, typeOf, ha, hb, AOp.str, binTy_div hna hnb, tyNE]; rfl
    · have h := binTy_arith hna hnb op hop
      cases op <;> first | exact absurd rfl hop | simp only [neQ, typeOf, ha, hb, h, tyNE]
  | .cmp op a b, hwt, hs => by
    simp only [wtNE, Bool.and_eq_true] at hwt
    obtain ⟨⟨⟨hwa, hwb⟩, _⟩, _⟩ := hwt
    simp only [sigNE, puresNE, ichainsNE] at hs
    obtain ⟨hsa, hsb⟩ := sigNE_bin hs
    have ha := typeOf_neQ S cls Γ x hx a hwa hsa
    have hb := typeOf_neQ S cls Γ x hx b hwb hsb
    simp only [neQ, typeOf, ha, hb, cmpTy_cty, tyNE]; rfl
  | .neg a, hwt, hs => by
    simp only [wtNE, Bool.and_eq_true] at hwt
    have ha := typeOf_neQ S cls Γ x hx a hwt.1 (by simpa [sigNE, puresNE, ichainsNE] using hs)
    simp only [neQ, typeOf, ha, Ty.negTy_cty hwt.2, tyNE]
  | .not a, hwt, hs => by
    simp only [wtNE, Bool.and_eq_true, beq_iff_eq] at hwt
    have ha := typeOf_neQ S cls Γ x hx a hwt.1 (by simpa [sigNE, puresNE, ichainsNE] using hs)
    simp only [neQ, typeOf, ha, tyNE, hwt.2, Ty.cty, notTy, CTy.isScalar, if_true]

/-- the outer chain of a well-typed nested column keeps objects -/
theorem typeOf_outer (S : Sig) (Γ : TyEnv) (ev : String) (hev : assoc Γ ev = some .event) (c : Chain) (cls : String)
    (hc : S.collElem c.coll = some cls) (hs : sigMeths S cls (methsSteps c.steps) = true) (hwt : wtOuter c = true) :
    typeOf S Γ (chainQ ev c) = .ok (.vec (.obj cls)) := by
  simp only [wtOuter, Bool.and_eq_true, Option.isNone_iff_eq_none] at hwt
  have h := typeOf_chainQ S Γ ev hev c cls hc hs hwt.1
  rw [hwt.2] at h
  exact h

def sigNCol (S : Sig) (col : NCol) : Bool :=
  match S.collElem col.chain.coll with
  | some cls => sigMeths S cls (methsSteps col.chain.steps) && (match col with
    | .agg _ e => sigNE S cls e
    | .twoD _ ic => sigIChain S cls ic)
  | none => false

def NCol.cty : NCol → CTy
  | .agg _ e => .vec (tyNE e).cty
  | .twoD _ ic => .vec (.vec ((ichainTy ic).getD .double).cty)

theorem NCol.cppName_cty (col : NCol) : cppName col.cty = col.cppTy := by
  cases col <;> simp [NCol.cty, NCol.cppTy, cppName, Ty.cppName_cty, vecTy]

theorem NCol.colShape_cty (col : NCol) : colShape col.cty = true := by
  cases col with
  | agg c e => simp only [NCol.cty]; cases tyNE e <;> rfl
  | twoD c ic => simp only [NCol.cty]; cases (ichainTy ic).getD .double <;> rfl

theorem typeOf_ncolQ (S : Sig) (Γ : TyEnv) (ev : String) (hev : assoc Γ ev = some .event) (col : NCol)
    (hwt : wtNCol col = true) (hs : sigNCol S col = true) : typeOf S Γ (ncolQ ev col) = .ok col.cty := by
  unfold sigNCol at hs
  split at hs
  · rename_i cls hc
    simp only [Bool.and_eq_true] at hs
    cases col with
    | agg c e =>
      simp only [wtNCol, Bool.and_eq_true] at hwt
      have ho := typeOf_outer S Γ ev hev c cls hc hs.1 hwt.1
      have he := typeOf_neQ S cls ((outerVar, .obj cls) :: Γ) outerVar (assoc_head _ _ _) e hwt.2 hs.2
      simp only [ncolQ, typeOf, ho, he, NCol.cty]
    | twoD c ic =>
      simp only [wtNCol, Bool.and_eq_true] at hwt
      have ho := typeOf_outer S Γ ev hev c cls hc hs.1 hwt.1.1
      obtain ⟨k, hk⟩ := typeOf_ichainQ S cls ((outerVar, .obj cls) :: Γ) outerVar (assoc_head _ _ _) ic hwt.1.2 hs.2
      obtain ⟨t, ht, _⟩ := ichainNumTy_some hwt.2
      rw [ht] at hk
      simp only [ncolQ, typeOf, ho, hk, NCol.cty, ht, curCTy, Option.getD_some]
  · cases hs

theorem typeOfs_ncols (S : Sig) (Γ : TyEnv) (ev : String) (hev : assoc Γ ev = some .event) : ∀ (cols : List (String × NCol)),
    (cols.all fun p => wtNCol p.2) = true → (cols.all fun p => sigNCol S p.2) = true →
    typeOfs S Γ (cols.map fun p => ncolQ ev p.2) = .ok (cols.map fun p => p.2.cty)
  | [], _, _ => rfl
  | p :: rest, hwt, hs => by
    simp only [List.all_cons, Bool.and_eq_true] at hwt hs
    simp only [List.map_cons, typeOfs, typeOf_ncolQ S Γ ev hev p.2 hwt.1 hs.1, typeOfs_ncols S Γ ev hev rest hwt.2 hs.2]

theorem typeOfs_nes (S : Sig) (cls : String) (Γ : TyEnv) (x : String) (hx : assoc Γ x = some (.obj cls)) :
    ∀ (cols : List (String × NE)), (cols.all fun p => wtNE p.2) = true → (cols.all fun p => sigNE S cls p.2) = true →
    typeOfs S Γ (cols.map fun p => neQ x p.2) = .ok (cols.map fun p => (tyNE p.2).cty)
  | [], _, _ => rfl
  | p :: rest, hwt, hs => by
    simp only [List.all_cons, Bool.and_eq_true] at hwt hs
    simp only [List.map_cons, typeOfs, typeOf_neQ S cls Γ x hx p.2 hwt.1 hs.1, typeOfs_nes S cls Γ x hx rest hwt.2 hs.2]

/-- static well-typedness in the sense of the translator model (the static parts of `NFragHyp`) -/
def NQ.wt : NQ → Bool
  | .eventRows cols => cols.all fun p => wtNCol p.2
  | .elemRows c cols => wtOuter c && cols.all fun p => wtNE p.2

def NQ.sigOk (S : Sig) : NQ → Bool
  | .eventRows cols => cols.all fun p => sigNCol S p.2
  | .elemRows c cols => match S.collElem c.coll with
    | some cls => sigMeths S cls (methsSteps c.steps) && cols.all fun p => sigNE S cls p.2
    | none => false

def NQ.ctys : NQ → List CTy
  | .eventRows cols => cols.map fun p => p.2.cty
  | .elemRows _ cols => cols.map fun p => (tyNE p.2).cty

theorem NQ.ctys_cppName (nq : NQ) : (NQ.ctys nq).map cppName = NQ.types nq := by
  cases nq with
  | eventRows cols => simp [NQ.ctys, NQ.types, List.map_map, Function.comp_def, NCol.cppName_cty]
  | elemRows c cols => simp [NQ.ctys, NQ.types, List.map_map, Function.comp_def, Ty.cppName_cty]

theorem NQ.ctys_length (nq : NQ) : (NQ.ctys nq).length = (NQ.names nq).length := by
  cases nq <;> simp [NQ.ctys, NQ.names]

theorem finalColumns_NQ (S : Sig) (nq : NQ) (hwt : nq.wt = true) (hs : nq.sigOk S = true) :
    finalColumns S (NQ.toQuery nq) = .ok ((NQ.names nq).zip (NQ.ctys nq)) := by
  cases nq with
  | eventRows cols =>
    simp only [NQ.wt] at hwt
    simp only [NQ.sigOk] at hs
    simp only [NQ.toQuery, NQ.names, NQ.ctys]
    apply finalColumns_select_dict S .ds "e" _ _ .event
    · simp [typeOf]
    · exact typeOfs_ncols S [("e", .event)] "e" (assoc_head _ _ _) cols hwt hs
    · simp
    · exact allShapes_of _ fun t ht => by
        obtain ⟨p, _, rfl⟩ := List.mem_map.1 ht
        exact NCol.colShape_cty p.2
  | elemRows c cols =>
    simp only [NQ.wt, Bool.and_eq_true] at hwt
    simp only [NQ.sigOk] at hs
    split at hs
    · rename_i cls hc
      simp only [Bool.and_eq_true] at hs
      simp only [NQ.toQuery, NQ.names, NQ.ctys]
      apply finalColumns_select_dict S _ "r" _ _ (.obj cls)
      · have hch := typeOf_outer S [("e", .event)] "e" (assoc_head _ _ _) c cls hc hs.1 hwt.1
        simp [typeOf, hch]
      · exact typeOfs_nes S cls [("r", _)] "r" (assoc_head _ _ _) cols hwt.2 hs.2
      · simp
      · exact allShapes_of _ fun t ht => by
          obtain ⟨p, _, rfl⟩ := List.mem_map.1 ht
          cases tyNE p.2 <;> rfl
    · cases hs

end FaxVerif.Gen
