/-
Gen — the translator model for CAPTURED-VARIABLE nested iteration: inside the lambda over one event collection,
ANOTHER EVENT-LEVEL collection is iterated with predicates / projections that mention BOTH loop variables:

    ds.Select(e → {n: e.Jets("J").Where*.Select(j → e.Tracks("T").Where(t → t.pt() > j.pt()).Count()), …})
    … .Select(j → e.Tracks("T").Select(t → t.pt() - j.pt()).Sum() + j.pt())
    … .Select(j → e.Tracks("T").Where(t → t.pt() > j.pt()).Select(t → t.pt() - j.pt()))          (2-D column)

Built beside `Gen/Lite.lean`, `Gen/Lazy.lean`, `Gen/Nested.lean` (all unchanged, reused read-only).

  * `CE`: 2-variable pure expressions — arithmetic / comparisons / `-` / `not` over one-variable pure expressions
    (`PE` of `Gen/Lite.lean`) of the INNER element (`inner p`) and of the OUTER element (`outer p`);
  * `CChain` = `e.Coll(bank)` followed by `Select` / `Where` steps whose bodies are `CE`;
  * `XE`: expressions over the outer element with aggregates of captured inner chains (`ccount` / `csum`);
  * columns `CCol.agg c e` (vector column, one value per kept outer element) and `CCol.twoD c ic` (2-D column).

What the real translator does (observed on the three backends, tied on every run by tools/gentie_capture.py): the inner
collection is RETRIEVED INSIDE THE OUTER LOOP'S BODY (once per kept outer element): the handle variable and the
aggregate's accumulator `T aggResultN (0);` (or the storage vector `std::vector<T> ntupleN;`) are declared in the
block that contains the inner loop — the body of the outer loop (or of the outer `if`) — so they restart for every outer
element; then the retrieval block, then the inner loop, whose conditions and values mention the outer loop variable
(still in scope). No Mathlib; computable.
-/
import FaxVerif.Gen.Nested
namespace FaxVerif.Gen
open FaxVerif.Cpp FaxVerif.Linq

/-- 2-variable pure expressions: one-variable pure expressions of the inner / of the outer element, combined -/
inductive CE where
  | inner (p : PE)
  | outer (p : PE)
  | bin (op : AOp) (a b : CE)
  | cmp (op : COp) (a b : CE)
  | neg (a : CE)
  | not (a : CE)
deriving Repr, Inhabited

inductive CStep where
  | sel (f : CE)
  | whr (c : CE)
deriving Repr, Inhabited

/-- `e.coll(bank)` followed by steps that may mention the outer element -/
structure CChain where
  coll : String
  bank : String
  steps : List CStep
deriving Repr, Inhabited

/-- expressions over the outer (object) element, with aggregates of captured inner chains -/
inductive XE where
  | pure (p : PE)
  | ccount (c : CChain)
  | csum (c : CChain)
  | bin (op : AOp) (a b : XE)
  | cmp (op : COp) (a b : XE)
  | neg (a : XE)
  | not (a : XE)
deriving Repr, Inhabited

inductive CCol where
  | agg (c : Chain) (e : XE)           -- e.Coll(bank).Where*.Select(y → e)
  | twoD (c : Chain) (ic : CChain)     -- e.Coll(bank).Where*.Select(y → e.Coll2(bank2).steps)
deriving Repr, Inhabited

inductive CQ where
  | eventRows (cols : List (String × CCol))     -- ds.Select(e → {name: col, …})
deriving Repr, Inhabited

/-! ## typing -/

/-- `cur`: the C++ type of the inner current value (`double` stands for "object", as in `tyPE`) -/
def tyCE (cur : Ty) : CE → Ty
  | .inner p => tyPE cur p
  | .outer p => tyPE .double p
  | .bin .div _ _ => .double
  | .bin _ a b => (tyCE cur a).join (tyCE cur b)
  | .cmp _ _ _ => .bool
  | .neg a => tyCE cur a
  | .not _ => .bool

def cchainTy : Option Ty → List CStep → Option Ty
  | t, [] => t
  | t, .sel f :: rest => cchainTy (some (tyCE (t.getD .double) f)) rest
  | t, .whr _ :: rest => cchainTy t rest

/-- static well-typedness; `cur = none`: the inner current value is an object; the outer element is an object -/
def wtCE (cur : Option Ty) : CE → Bool
  | .inner p => wtPE cur p
  | .outer p => wtPE none p
  | .bin _ a b => wtCE cur a && wtCE cur b && (tyCE (curT cur) a).isNum && (tyCE (curT cur) b).isNum
  | .cmp _ a b => wtCE cur a && wtCE cur b && (tyCE (curT cur) a).isNum && (tyCE (curT cur) b).isNum
  | .neg a => wtCE cur a && (tyCE (curT cur) a).isNum
  | .not a => wtCE cur a && (tyCE (curT cur) a == .bool)

/-- the one-variable expression mentions its variable -/
def usesItPE : PE → Bool
  | .it => true
  | .meth _ _ => true
  | .bin _ a b => usesItPE a || usesItPE b
  | .cmp _ a b => usesItPE a || usesItPE b
  | .neg a => usesItPE a
  | .not a => usesItPE a
  | _ => false

/-- the 2-variable expression mentions the INNER variable -/
def usesInner : CE → Bool
  | .inner p => usesItPE p
  | .outer _ => false
  | .bin _ a b => usesInner a || usesInner b
  | .cmp _ a b => usesInner a || usesInner b
  | .neg a => usesInner a
  | .not a => usesInner a

def wtCSteps : Option Ty → List CStep → Bool
  | _, [] => true
  | t, .sel f :: rest => wtCE t f && wtCSteps (some (tyCE (curT t) f)) rest
  | t, .whr c :: rest => wtCE t c && (tyCE (curT t) c == .bool) && wtCSteps t rest

/-- DEFECT EXCLUSION (known finding "lambda bodies that ignore their variable under aggregates"): every `Select`
body of a captured chain mentions the inner variable. A body built from the outer element only
(`e.Tracks("T").Select(t → j.pt()).Count()`) makes the real translator emit the aggregate's update AFTER the inner
loop (once per outer element instead of once per inner element): `capture_outer_only_select_counterexample`. -/
def selsUseInner : List CStep → Bool
  | [] => true
  | .sel f :: rest => usesInner f && selsUseInner rest
  | .whr _ :: rest => selsUseInner rest

def wtCChain (ic : CChain) : Bool := wtCSteps none ic.steps && selsUseInner ic.steps

/-- a captured chain that ends in numbers -/
def cchainNumTy (ic : CChain) : Option Ty :=
  match cchainTy none ic.steps with
  | some t => if t.isNum then some t else none
  | none => none

def tyXE : XE → Ty
  | .pure p => tyPE .double p
  | .ccount _ => .int
  | .csum ic => Ty.join .int ((cchainTy none ic.steps).getD .double)
  | .bin .div _ _ => .double
  | .bin _ a b => (tyXE a).join (tyXE b)
  | .cmp _ _ _ => .bool
  | .neg a => tyXE a
  | .not _ => .bool

def wtXE : XE → Bool
  | .pure p => wtPE none p
  | .ccount ic => wtCChain ic
  | .csum ic => wtCChain ic && (cchainNumTy ic).isSome
  | .bin _ a b => wtXE a && wtXE b && (tyXE a).isNum && (tyXE b).isNum
  | .cmp _ a b => wtXE a && wtXE b && (tyXE a).isNum && (tyXE b).isNum
  | .neg a => wtXE a && (tyXE a).isNum
  | .not a => wtXE a && (tyXE a == .bool)

def wtCCol : CCol → Bool
  | .agg c e => wtOuter c && wtXE e
  | .twoD c ic => wtOuter c && wtCChain ic && (cchainNumTy ic).isSome

def cchainsXE : XE → List CChain
  | .ccount c => [c]
  | .csum c => [c]
  | .bin _ a b => cchainsXE a ++ cchainsXE b
  | .cmp _ a b => cchainsXE a ++ cchainsXE b
  | .neg a => cchainsXE a
  | .not a => cchainsXE a
  | .pure _ => []

def csumsXE : XE → List CChain
  | .csum c => [c]
  | .bin _ a b => csumsXE a ++ csumsXE b
  | .cmp _ a b => csumsXE a ++ csumsXE b
  | .neg a => csumsXE a
  | .not a => csumsXE a
  | _ => []

def puresXE : XE → List PE
  | .pure p => [p]
  | .bin _ a b => puresXE a ++ puresXE b
  | .cmp _ a b => puresXE a ++ puresXE b
  | .neg a => puresXE a
  | .not a => puresXE a
  | _ => []

/-! ## embedding into user-level queries -/

/-- the parameter of every lambda of a captured chain (each step rebinds it) -/
def capVar : String := "t"

/-- `x`: the inner lambda's parameter, `y`: the outer lambda's parameter -/
def ceQ (x y : String) : CE → Query
  | .inner p => peQ x p
  | .outer p => peQ y p
  | .bin op a b => .bin op.str (ceQ x y a) (ceQ x y b)
  | .cmp op a b => .cmp op.str (ceQ x y a) (ceQ x y b)
  | .neg a => .neg (ceQ x y a)
  | .not a => .not (ceQ x y a)

def cstepsQ (y : String) (src : Query) : List CStep → Query
  | [] => src
  | .sel f :: rest => cstepsQ y (.select src capVar (ceQ capVar y f)) rest
  | .whr c :: rest => cstepsQ y (.where_ src capVar (ceQ capVar y c)) rest

/-- `ev`: the event lambda's parameter, `y`: the outer element's -/
def cchainQ (ev y : String) (ic : CChain) : Query :=
  cstepsQ y (.coll (.var ev) ic.coll ic.bank) ic.steps

def xeQ (ev y : String) : XE → Query
  | .pure p => peQ y p
  | .ccount c => .count (cchainQ ev y c)
  | .csum c => .sum (cchainQ ev y c)
  | .bin op a b => .bin op.str (xeQ ev y a) (xeQ ev y b)
  | .cmp op a b => .cmp op.str (xeQ ev y a) (xeQ ev y b)
  | .neg a => .neg (xeQ ev y a)
  | .not a => .not (xeQ ev y a)

def ccolQ (ev : String) : CCol → Query
  | .agg c e => .select (chainQ ev c) outerVar (xeQ ev outerVar e)
  | .twoD c ic => .select (chainQ ev c) outerVar (cchainQ ev outerVar ic)

def CQ.toQuery : CQ → Query
  | .eventRows cols => .select .ds "e" (.dict (cols.map (·.1)) (cols.map fun p => ccolQ "e" p.2))

/-! ## compilation -/

/-- `cur` / `ptr`: the inner current value and whether its members are reached with `->`;
`ocur` / `optr`: the same for the outer element -/
def compCE (ptr : Bool) (cur : CExpr) (curTy : Ty) (optr : Bool) (ocur : CExpr) : CE → CExpr
  | .inner p => compPE ptr cur curTy p
  | .outer p => compPE optr ocur .double p
  | .bin op a b =>
    let a' := compCE ptr cur curTy optr ocur a
    let b' := compCE ptr cur curTy optr ocur b
    if op = .div ∧ (tyCE curTy a).join (tyCE curTy b) = .int then .bin "/" (.cast "double" a') b'
    else .bin op.str a' b'
  | .cmp op a b => .bin op.str (compCE ptr cur curTy optr ocur a) (compCE ptr cur curTy optr ocur b)
  | .neg a => .un "-" (compCE ptr cur curTy optr ocur a)
  | .not a => .un "!" (compCE ptr cur curTy optr ocur a)

/-- `stepConds` with the outer element in scope -/
def cstepConds (ptr : Bool) (optr : Bool) (ocur : CExpr) (cur : CExpr) (curTy : Option Ty) :
    List CStep → List CExpr × CExpr × Option Ty
  | [] => ([], cur, curTy)
  | .sel f :: rest =>
    let t := curTy.getD .double
    cstepConds ptr optr ocur (compCE (ptr && curTy.isNone) cur t optr ocur f) (some (tyCE t f)) rest
  | .whr c :: rest =>
    let t := curTy.getD .double
    let r := cstepConds ptr optr ocur cur curTy rest
    (compCE (ptr && curTy.isNone) cur t optr ocur c :: r.1, r.2)

/-- the inner loop's body: the lowered conjunction of the conditions, then the continuation inside one `if` -/
def cchainBody (nm : Nat → String) (ptr : Bool) (optr : Bool) (ocur : CExpr) (it : CExpr) (steps : List CStep) (n : Nat)
    (k : CExpr → Option Ty → List Stmt) : List Stmt × Nat :=
  let r := cstepConds ptr optr ocur it none steps
  match r.1 with
  | [] => (k r.2.1 r.2.2, n)
  | conds =>
    let cf := andLower nm conds.reverse n
    (cf.decls ++ cf.stmts ++ [.ite cf.val (k r.2.1 r.2.2) []], cf.next)

/-- retrieval of the inner event collection into `nm n` (declared in the block that contains the inner loop),
then the loop over it with loop variable `nm (n + 1)`; token `nm (n + 2)`; the conditions' names from `n + 3` -/
def ccompChain (B : Backend) (nm : Nat → String) (optr : Bool) (ocur : CExpr) (c : CChain) (n : Nat)
    (k : CExpr → Option Ty → List Stmt) : Frag :=
  let cty := (B.collType c.coll).getD "?"
  let x := nm n
  let i := nm (n + 1)
  let hty := B.handleTy cty
  let body := cchainBody nm B.elemPtr optr ocur (.var i) c.steps (n + 3) k
  { decls := [.decl hty x none],
    stmts := [
      .block [.decl hty "result" B.resultInit,
              .retrieve B.how cty "result" (if B.how = "token" then .opaque "" else .str c.bank) (if B.how = "token" then nm (n + 2) else ""),
              .set x (.var "result")],
      .loop i (.deref (.var x)) body.1],
    next := body.2 }

/-- the token-table entry of the captured chain compiled at supply position `n` (token backend only) -/
def cchainToks (B : Backend) (nm : Nat → String) (c : CChain) (n : Nat) : List (String × String × String) :=
  if B.how = "token" then [(nm (n + 2), (B.collType c.coll).getD "?", c.bank)] else []

/-- declarations (of the block that contains the inner loops: handle variable, then accumulator, per aggregate),
statements (retrieval block, inner loop, per aggregate), value, next fresh index -/
def compXE (B : Backend) (nm : Nat → String) (optr : Bool) (ocur : CExpr) : XE → Nat → EFrag
  | .pure p, n => ⟨[], [], compPE optr ocur .double p, n⟩
  | .ccount c, n =>
    let acc := nm n
    let f := ccompChain B nm optr ocur c (n + 1) (countK acc)
    ⟨f.decls ++ [.decl "int" acc (some (.int 0))], f.stmts, .var acc, f.next⟩
  | .csum c, n =>
    let acc := nm n
    let ty := Ty.join .int ((cchainTy none c.steps).getD .double)
    let f := ccompChain B nm optr ocur c (n + 1) (sumK acc)
    ⟨f.decls ++ [.decl ty.cpp acc (some (.int 0))], f.stmts, .var acc, f.next⟩
  | .bin op a b, n =>
    let fa := compXE B nm optr ocur a n
    let fb := compXE B nm optr ocur b fa.next
    let v := if op = .div ∧ (tyXE a).join (tyXE b) = .int then CExpr.bin "/" (.cast "double" fa.val) fb.val
             else .bin op.str fa.val fb.val
    ⟨fa.decls ++ fb.decls, fa.stmts ++ fb.stmts, v, fb.next⟩
  | .cmp op a b, n =>
    let fa := compXE B nm optr ocur a n
    let fb := compXE B nm optr ocur b fa.next
    ⟨fa.decls ++ fb.decls, fa.stmts ++ fb.stmts, .bin op.str fa.val fb.val, fb.next⟩
  | .neg a, n => let fa := compXE B nm optr ocur a n; ⟨fa.decls, fa.stmts, .un "-" fa.val, fa.next⟩
  | .not a, n => let fa := compXE B nm optr ocur a n; ⟨fa.decls, fa.stmts, .un "!" fa.val, fa.next⟩

/-- the tokens of the inner retrievals of an expression, in the order the retrievals are emitted -/
def xeToks (B : Backend) (nm : Nat → String) (optr : Bool) (ocur : CExpr) : XE → Nat → List (String × String × String)
  | .ccount c, n => cchainToks B nm c (n + 1)
  | .csum c, n => cchainToks B nm c (n + 1)
  | .bin _ a b, n => xeToks B nm optr ocur a n ++ xeToks B nm optr ocur b (compXE B nm optr ocur a n).next
  | .cmp _ a b, n => xeToks B nm optr ocur a n ++ xeToks B nm optr ocur b (compXE B nm optr ocur a n).next
  | .neg a, n => xeToks B nm optr ocur a n
  | .not a, n => xeToks B nm optr ocur a n
  | .pure _, _ => []

/-- (a): handle variables and accumulators declared, retrievals and inner loops, then `col.push_back(value)` -/
def caggK (B : Backend) (nm : Nat → String) (v : String) (e : XE) : KN := fun cur ty m =>
  let f := compXE B nm (B.elemPtr && ty.isNone) cur e m
  (f.decls ++ f.stmts ++ [.push v f.val], f.next)

/-- (b): handle variable and storage vector `std::vector<T> ntupleN;` declared in the outer loop body, the
retrieval, the inner loop pushing into it, then `col.push_back(ntupleN)` -/
def ctwoDK (B : Backend) (nm : Nat → String) (v : String) (ic : CChain) : KN := fun cur ty m =>
  let nt := nm m
  let f := ccompChain B nm (B.elemPtr && ty.isNone) cur ic (m + 1) (pushK nt)
  (f.decls ++ [.decl (vecTy ((cchainTy none ic.steps).getD .double).cpp) nt none] ++ f.stmts ++ [.push v (.var nt)], f.next)

/-- the outer element expression / pointer flag the continuation of the outer chain compiled at `n` receives -/
def outerCur (B : Backend) (nm : Nat → String) (c : Chain) (n : Nat) : CExpr :=
  (stepConds B.elemPtr (outerIt nm n) none c.steps).2.1
def outerTy (B : Backend) (nm : Nat → String) (c : Chain) (n : Nat) : Option Ty :=
  (stepConds B.elemPtr (outerIt nm n) none c.steps).2.2

def compCCol (B : Backend) (nm cn : Nat → String) (idx : Nat) (col : CCol) (n : Nat) : ColFrag :=
  let v := cn idx
  match col with
  | .agg c e =>
    let f := compChainN B nm c n (caggK B nm v e)
    ⟨f.decls, f.stmts, [], [.clear v], (vecTy (tyXE e).cpp, v), f.next⟩
  | .twoD c ic =>
    let f := compChainN B nm c n (ctwoDK B nm v ic)
    ⟨f.decls, f.stmts, [], [.clear v], (vecTy (vecTy ((cchainTy none ic.steps).getD .double).cpp), v), f.next⟩

/-- the token-table entries of one column: the outer chain's, then the inner retrievals' in emission order -/
def ccolToks (B : Backend) (nm : Nat → String) (col : CCol) (n : Nat) : List (String × String × String) :=
  if B.how = "token" then
    match col with
    | .agg c e =>
      (nm (n + 2), (B.collType c.coll).getD "?", c.bank) ::
        xeToks B nm (B.elemPtr && (outerTy B nm c n).isNone) (outerCur B nm c n) e (outerNext B nm c n)
    | .twoD c ic =>
      (nm (n + 2), (B.collType c.coll).getD "?", c.bank) :: cchainToks B nm ic (outerNext B nm c n + 1)
  else []

def compCCols (B : Backend) (nm cn : Nat → String) : List CCol → Nat → Nat → List ColFrag
  | [], _, _ => []
  | c :: cs, idx, n =>
    let f := compCCol B nm cn idx c n
    f :: compCCols B nm cn cs (idx + 1) f.next

def ccolsToks (B : Backend) (nm cn : Nat → String) : List CCol → Nat → Nat → List (String × String × String)
  | [], _, _ => []
  | c :: cs, idx, n => ccolToks B nm c n ++ ccolsToks B nm cn cs (idx + 1) (compCCol B nm cn idx c n).next

def compileC (B : Backend) (nm cn : Nat → String) : CQ → Package
  | .eventRows cols =>
    let fs := compCCols B nm cn (cols.map (·.2)) 0 0
    let stmts := fs.flatMap (·.stmts)
    let toks := ccolsToks B nm cn (cols.map (·.2)) 0 0
    { body := .block (fs.flatMap (·.decls) ++ stmts ++ [.fill (B.fillTree B.treeName)] ++ fs.flatMap (·.clears)),
      classVars := toks.map (fun t => ("edm::EDGetTokenT<" ++ t.2.1 ++ ">", t.1)) ++ fs.map (·.classVar),
      branches := (cols.map (·.1)).zip (fs.map (·.classVar.2)),
      tree := B.treeName,
      tokens := toks }

/-- inside the proved fragment -/
def CQ.wt : CQ → Bool
  | .eventRows cols => cols.all fun p => wtCCol p.2

end FaxVerif.Gen
