/-
Gen — the loop emitted for a chain: body per element, iteration over the collection, retrieval.
The continuation `K` (what is done with each kept element) is characterised abstractly by an
invariant `P` and a step function `g`; Count / Sum / push_back / per-element rows instantiate it.
-/
import FaxVerif.Gen.ChainCorrect
namespace FaxVerif.Gen
open FaxVerif.Cpp FaxVerif.Linq
variable {D : Type}

/-- generic fold with faults -/
def foldG {β : Type} (g : β → Val D → Except Fault β) : List (Val D) → β → Except Fault β
  | [], b => .ok b
  | w :: ws, b => match g b w with
    | .error e => .error e
    | .ok b' => foldG g ws b'

theorem foldG_append {β : Type} (g : β → Val D → Except Fault β) : ∀ (l₁ l₂ : List (Val D)) (b : β),
    foldG g (l₁ ++ l₂) b = (match foldG g l₁ b with
      | .error e => .error e
      | .ok b' => foldG g l₂ b')
  | [], l₂, b => by simp [foldG]
  | w :: ws, l₂, b => by
    simp only [List.cons_append, foldG]
    cases g b w with
    | error e => rfl
    | ok b' => simp only []; exact foldG_append g ws l₂ b'

theorem chainBody_next_ge (nm : Nat → String) (ptr : Bool) (it : CExpr) (steps : List Step) (n : Nat)
    (K : CExpr → Option Ty → List Stmt) : n ≤ (chainBody nm ptr it steps n K).2 := by
  unfold chainBody
  cases h : (stepConds ptr it none steps).1 with
  | nil => simp [h]
  | cons c cs => simp only [h]; exact andLower_next_ge nm _ n

/-- **loop body for one element** -/
theorem chainBody_correct (C : Ctx D) (QC : QCtx D) (hN : QC.N = C.N) (nm : Nat → String)
    (hinj : ∀ i j, nm i = nm j → i = j) (ptr : Bool) (i : String) (steps : List Step) (n : Nat)
    (hi : ∀ j, n ≤ j → i ≠ nm j) (K : CExpr → Option Ty → List Stmt)
    (s : St D) (v : Val D) (o : Option (Val D))
    (hiv : s.env i = some (.val v)) (hwt : wtSteps none steps = true)
    (hm : MethTyped v (methsSteps steps)) (hs : elemSem QC steps v = .ok o) :
    let r := stepConds ptr (.var i) none steps
    ∃ s1 : St D, s1.rows = s.rows ∧
      (∀ y, ¬ InRange nm n (chainBody nm ptr (.var i) steps n K).2 y → s1.env y = s.env y) ∧
      (o = none → execs C (chainBody nm ptr (.var i) steps n K).1 s = .ok s1) ∧
      (∀ w, o = some w → execs C (chainBody nm ptr (.var i) steps n K).1 s = execs C (K r.2.1 r.2.2) s1 ∧
          evalE C.N s1.env r.2.1 = .ok w ∧ (∀ t, r.2.2 = some t → HasTy w t) ∧ (r.2.2 = none → w = v)) := by
  intro r
  have hcur : evalE QC.N s.env (.var i) = .ok v := by simp [evalE, hiv]
  have hel := elem_correct QC s.env ptr steps (.var i) none v o hcur (by simp) hwt hm hs
  have hvars := stepConds_vars ptr steps (.var i) none
  -- anything that agrees with s.env on `i` evaluates conditions and the final value alike
  have hsame : ∀ σ' : Env D, σ' i = s.env i → evalE C.N σ' r.2.1 = evalE C.N s.env r.2.1 := by
    intro σ' h
    apply evalE_congr
    intro x hx
    have := hvars.2 x hx
    simp only [vars, List.mem_singleton] at this
    rw [this, h]
  cases hc : r.1 with
  | nil =>
    have hbody : chainBody nm ptr (.var i) steps n K = (K r.2.1 r.2.2, n) := by
      simp only [chainBody]; rw [show (stepConds ptr (.var i) none steps).1 = [] from hc]
    rw [hbody]
    refine ⟨s, rfl, fun _ _ => rfl, ?_, ?_⟩
    · intro ho
      have := hel.1 ho
      rw [show (stepConds ptr (.var i) none steps).1 = [] from hc] at this
      simp [condsF] at this
    · intro w hw
      obtain ⟨_, h2, h3, h4⟩ := hel.2 w hw
      exact ⟨rfl, by rw [← hN]; exact h2, h3, fun h => (h4 h).1⟩
  | cons c0 cs =>
    have hne : r.1 = c0 :: cs := hc
    have hbody : chainBody nm ptr (.var i) steps n K =
        ((andLower nm (c0 :: cs).reverse n).decls ++ (andLower nm (c0 :: cs).reverse n).stmts ++
          [.ite (andLower nm (c0 :: cs).reverse n).val (K r.2.1 r.2.2) []], (andLower nm (c0 :: cs).reverse n).next) := by
      simp only [chainBody]; rw [show (stepConds ptr (.var i) none steps).1 = c0 :: cs from hc]
    rw [hbody]
    have hfresh : ∀ c ∈ (c0 :: cs).reverse, ∀ x ∈ vars c, ∀ j, n ≤ j → x ≠ nm j := by
      intro c hcm x hx j hj
      have hcm' : c ∈ r.1 := by rw [hne]; simpa [or_comm] using hcm
      have := hvars.1 c hcm' x hx
      simp only [vars, List.mem_singleton] at this
      rw [this]; exact hi j hj
    -- the truth value of the conjunction
    have hcond : ∀ b, condsF QC.N s.env r.1 = .ok b → ∃ s1 : St D, s1.rows = s.rows ∧
        (∀ y, ¬ InRange nm n (andLower nm (c0 :: cs).reverse n).next y → s1.env y = s.env y) ∧
        execs C ((andLower nm (c0 :: cs).reverse n).decls ++ (andLower nm (c0 :: cs).reverse n).stmts) s = .ok s1 ∧
        evalB C.N s1.env (andLower nm (c0 :: cs).reverse n).val = .ok b := by
      intro b hb
      rw [hN, condsF_eq_condsR, hne] at hb
      obtain ⟨σ', hex, hval, hfr⟩ := andLower_correct C nm hinj (c0 :: cs).reverse n s.env s.rows b hfresh hb
      exact ⟨⟨σ', s.rows⟩, rfl, hfr, hex, hval⟩
    cases o with
    | none =>
      obtain ⟨s1, hr1, hfr1, hex1, hval1⟩ := hcond false (hel.1 rfl)
      obtain ⟨vb, hvb, hbb⟩ := evalB_ok _ _ _ _ hval1
      refine ⟨s1, hr1, hfr1, ?_, by simp⟩
      intro _
      rw [execs_append, hex1]
      simp only [execs, exec, hvb, hbb]
    | some w =>
      obtain ⟨h1, h2, h3, h4⟩ := hel.2 w rfl
      obtain ⟨s1, hr1, hfr1, hex1, hval1⟩ := hcond true h1
      obtain ⟨vb, hvb, hbb⟩ := evalB_ok _ _ _ _ hval1
      refine ⟨s1, hr1, hfr1, by simp, ?_⟩
      intro w' hw'
      simp only [Option.some.injEq] at hw'; subst hw'
      refine ⟨?_, ?_, h3, fun h => (h4 h).1⟩
      · rw [execs_append, hex1]
        simp only [execs, exec, hvb, hbb]
        cases execs C (K r.2.1 r.2.2) s1 <;> rfl
      · rw [hsame s1.env (hfr1 i (by rintro ⟨j, hj1, _, hj3⟩; exact hi j hj1 hj3)), ← hN]
        exact h2

/-- **the loop** — iterating the emitted body over the collection's elements performs the fold
of the continuation's step function over the elements the query keeps, in order. -/
theorem loop_correct {β : Type} (C : Ctx D) (QC : QCtx D) (hN : QC.N = C.N) (nm : Nat → String)
    (hinj : ∀ i j, nm i = nm j → i = j) (ptr : Bool) (i : String) (steps : List Step) (n : Nat)
    (hi : ∀ j, n ≤ j → i ≠ nm j) (K : CExpr → Option Ty → List Stmt)
    (hwt : wtSteps none steps = true)
    (P : St D → β → Prop) (g : β → Val D → Except Fault β) (Q : Val D → Prop)
    (hstable : ∀ (s s' : St D) b, P s b → s'.rows = s.rows →
        (∀ y, y ≠ i → ¬ InRange nm n (chainBody nm ptr (.var i) steps n K).2 y → s'.env y = s.env y) → P s' b)
    (hK : ∀ (s : St D) b b' w (v : Val D), P s b → g b w = .ok b' →
        evalE C.N s.env (stepConds ptr (.var i) none steps).2.1 = .ok w →
        (∀ t, (stepConds ptr (.var i) none steps).2.2 = some t → HasTy w t) →
        ((stepConds ptr (.var i) none steps).2.2 = none → w = v ∧ Q v) →
        ∃ s', execs C (K (stepConds ptr (.var i) none steps).2.1 (stepConds ptr (.var i) none steps).2.2) s = .ok s' ∧ P s' b') :
    ∀ (l ws : List (Val D)) (s : St D) (b b' : β),
      (∀ v ∈ l, MethTyped v (methsSteps steps)) → (∀ v ∈ l, Q v) →
      elemsSem QC steps l = .ok ws → foldG g ws b = .ok b' → P s b →
      ∃ s', iter (fun s v => execs C (chainBody nm ptr (.var i) steps n K).1 { s with env := s.env.set i v }) l s = .ok s' ∧ P s' b'
  | [], ws, s, b, b', _, _, he, hf, hP => by
    simp only [elemsSem, Except.ok.injEq] at he; subst he
    simp only [foldG, Except.ok.injEq] at hf; subst hf
    exact ⟨s, rfl, hP⟩
  | v :: vs, ws, s, b, b', hmt, hQ, he, hf, hP => by
    simp only [elemsSem] at he
    cases ho : elemSem QC steps v with
    | error e => rw [ho] at he; simp at he
    | ok o =>
      rw [ho] at he
      simp only [] at he
      cases hr : elemsSem QC steps vs with
      | error e => rw [hr] at he; simp at he
      | ok rs =>
        rw [hr] at he
        simp only [Except.ok.injEq] at he; subst he
        let s0 : St D := { s with env := s.env.set i v }
        have hP0 : P s0 b := hstable s s0 b hP rfl (fun y hy _ => by simp [s0, Env.set, hy])
        obtain ⟨s1, hr1, hfr1, hnone, hsome⟩ := chainBody_correct C QC hN nm hinj ptr i steps n hi K s0 v o
          (by simp [s0, Env.set]) hwt (hmt v (by simp)) ho
        have hP1 : P s1 b := hstable s0 s1 b hP0 hr1 (fun y _ hy => hfr1 y hy)
        rw [foldG_append] at hf
        cases o with
        | none =>
          simp only [Option.toList, foldG] at hf
          obtain ⟨s', hit, hP'⟩ := loop_correct C QC hN nm hinj ptr i steps n hi K hwt P g Q hstable hK vs rs s1 b b'
            (fun u hu => hmt u (by simp [hu])) (fun u hu => hQ u (by simp [hu])) hr hf hP1
          refine ⟨s', ?_, hP'⟩
          simp only [iter]
          rw [show ({ s with env := s.env.set i v } : St D) = s0 from rfl, hnone rfl]
          exact hit
        | some w =>
          simp only [Option.toList, foldG] at hf
          cases hg : g b w with
          | error e => rw [hg] at hf; simp at hf
          | ok b1 =>
            rw [hg] at hf
            simp only [foldG] at hf
            obtain ⟨hex, hev, hty, hobj⟩ := hsome w rfl
            obtain ⟨s2, hK2, hP2⟩ := hK s1 b b1 w v hP1 hg hev hty (fun h => ⟨hobj h, hQ v (by simp)⟩)
            obtain ⟨s', hit, hP'⟩ := loop_correct C QC hN nm hinj ptr i steps n hi K hwt P g Q hstable hK vs rs s2 b1 b'
              (fun u hu => hmt u (by simp [hu])) (fun u hu => hQ u (by simp [hu])) hr hf hP2
            refine ⟨s', ?_, hP'⟩
            simp only [iter]
            rw [show ({ s with env := s.env.set i v } : St D) = s0 from rfl, hex, hK2]
            exact hit

end FaxVerif.Gen

namespace FaxVerif.Gen
open FaxVerif.Cpp FaxVerif.Linq
variable {D : Type}

/-- what the theorems assume of a backend record whatever its retrieval idiom (ATLAS, CMS AOD and
CMS miniAOD satisfy it): the variable holding a collection is not a `std::vector` and not of an
arithmetic type (its declaration neither creates an empty vector nor converts what is assigned),
and `result` is declared without initialiser or with `0`. -/
structure BackendBase (B : Backend) : Prop where
  handleNotVec : ∀ t, isVecType (B.handleTy t) = false
  handlePlain : ∀ t, B.handleTy t ≠ "double" ∧ B.handleTy t ≠ "float" ∧ B.handleTy t ≠ "int" ∧ B.handleTy t ≠ "bool"
  resultInit : B.resultInit = none ∨ B.resultInit = some (.int 0)

/-- a backend that retrieves by bank name (ATLAS, CMS AOD): `BackendBase` and not the token idiom.
Statements about code that is run WITHOUT a token table (an arbitrary `Ctx`, or a package whose
`tokens` list is empty) need this; the end-to-end theorems about `compile` need `BackendBase` only,
because `compile` emits the token table itself. -/
structure BackendOK (B : Backend) : Prop where
  notToken : B.how ≠ "token"
  handleNotVec : ∀ t, isVecType (B.handleTy t) = false
  handlePlain : ∀ t, B.handleTy t ≠ "double" ∧ B.handleTy t ≠ "float" ∧ B.handleTy t ≠ "int" ∧ B.handleTy t ≠ "bool"
  resultInit : B.resultInit = none ∨ B.resultInit = some (.int 0)

theorem BackendOK.base {B : Backend} (h : BackendOK B) : BackendBase B := ⟨h.handleNotVec, h.handlePlain, h.resultInit⟩

/-- **what a retrieval by token needs**: the token the chain compiled at supply position `n` uses
(`nm (n + 2)`) was initialised, in the run's token table, with the container type and the bank of
that chain. Vacuous for the backends that retrieve by bank name. `compile` emits exactly such a
table (`tokCols_eventRows` in Gen/TokenTable.lean, `tokChain_elemRows` in Gen/ElemRowsCorrect.lean). -/
def TokChain (B : Backend) (nm : Nat → String) (C : Ctx D) (c : Chain) (n : Nat) : Prop :=
  B.how = "token" → C.tokenBank (nm (n + 2)) = some ((B.collType c.coll).getD "?", c.bank)

theorem tokChain_of_notToken {B : Backend} (h : B.how ≠ "token") (nm : Nat → String) (C : Ctx D) (c : Chain) (n : Nat) :
    TokChain B nm C c n := fun e => absurd e h

theorem castTo_plain (N : Num D) (ty : String) (v : Val D)
    (h : ty ≠ "double" ∧ ty ≠ "float" ∧ ty ≠ "int" ∧ ty ≠ "bool") : castTo N ty v = .ok v := by
  simp [castTo, h.1, h.2.1, h.2.2.1, h.2.2.2]

/-- names the fragment starting at `n` may touch: its own supply range and the retrieval's `result` -/
def Touch (nm : Nat → String) (lo hi : Nat) (y : String) : Prop := InRange nm lo hi y ∨ y = "result"

theorem compChain_next (B : Backend) (nm : Nat → String) (c : Chain) (n : Nat) (K : CExpr → Option Ty → List Stmt) :
    n + 3 ≤ (compChain B nm c n K).next := by
  simp only [compChain]
  exact chainBody_next_ge nm B.elemPtr _ c.steps (n + 3) K

/-- **retrieval + loop** for one chain, with an abstract continuation. -/
theorem compChain_correct_tok {β : Type} (C : Ctx D) (QC : QCtx D) (hN : QC.N = C.N)
    (B : Backend) (hB : BackendBase B) (nm : Nat → String)
    (hinj : ∀ i j, nm i = nm j → i = j) (hres : ∀ j, nm j ≠ "result")
    (c : Chain) (n : Nat) (htok : TokChain B nm C c n) (K : CExpr → Option Ty → List Stmt)
    (cty : String) (l ws : List (Val D))
    (hcoll : B.collType c.coll = some cty) (hfind : C.ev.find c.bank = some (cty, .vec l))
    (hwt : wtSteps none c.steps = true) (hmt : ∀ v ∈ l, MethTyped v (methsSteps c.steps))
    (P : St D → β → Prop) (g : β → Val D → Except Fault β) (Q : Val D → Prop) (hQ : ∀ v ∈ l, Q v)
    (hstable : ∀ (s s' : St D) b, P s b → s'.rows = s.rows →
        (∀ y, ¬ Touch nm n (compChain B nm c n K).next y → s'.env y = s.env y) → P s' b)
    (hK : ∀ (s : St D) b b' w (v : Val D), P s b → g b w = .ok b' →
        evalE C.N s.env (stepConds B.elemPtr (.var (nm (n + 1))) none c.steps).2.1 = .ok w →
        (∀ t, (stepConds B.elemPtr (.var (nm (n + 1))) none c.steps).2.2 = some t → HasTy w t) →
        ((stepConds B.elemPtr (.var (nm (n + 1))) none c.steps).2.2 = none → w = v ∧ Q v) →
        ∃ s', execs C (K (stepConds B.elemPtr (.var (nm (n + 1))) none c.steps).2.1
                          (stepConds B.elemPtr (.var (nm (n + 1))) none c.steps).2.2) s = .ok s' ∧ P s' b')
    (s : St D) (b b' : β) (hx : (s.env (nm n)).isSome = true)
    (hel : elemsSem QC c.steps l = .ok ws) (hfold : foldG g ws b = .ok b') (hP : P s b) :
    ∃ s', execs C (compChain B nm c n K).stmts s = .ok s' ∧ P s' b' := by
  have hnext := compChain_next B nm c n K
  have hnext' : (compChain B nm c n K).next = (chainBody nm B.elemPtr (.var (nm (n + 1))) c.steps (n + 3) K).2 := rfl
  -- after the retrieval block
  let σ2 : Env D := ((match B.resultInit with
      | none => s.env.declare "result"
      | some _ => s.env.set "result" (.int 0)).set "result" (.vec l)).set (nm n) (.vec l)
  have hblock : exec C (.block [.decl (B.handleTy cty) "result" B.resultInit,
        .retrieve B.how cty "result" (if B.how = "token" then .opaque "" else .str c.bank) (if B.how = "token" then nm (n + 2) else ""),
        .set (nm n) (.var "result")]) s = .ok ⟨σ2, s.rows⟩ := by
    have hreq : ∀ σ : Env D, retrReq C σ B.how cty (if B.how = "token" then .opaque "" else .str c.bank)
        (if B.how = "token" then nm (n + 2) else "") = .ok (.vec l) := by
      intro σ
      by_cases ht : B.how = "token"
      · have := htok ht
        rw [hcoll] at this
        simp [retrReq, ht, this, hfind]
      · simp [retrReq, ht, evalE, hfind]
    have hxr : nm n ≠ "result" := hres n
    rcases hB.resultInit with hi | hi
    · simp only [exec, execs, hi, hB.handleNotVec, σ2]
      simp [Env.declare, Env.set, hreq, evalE, hxr, hx]
      cases hsx : s.env (nm n) with
      | none => rw [hsx] at hx; simp at hx
      | some _ => simp
    · simp only [exec, execs, hi, σ2, evalE, castTo_plain C.N _ _ (hB.handlePlain cty)]
      simp [Env.set, hreq, evalE, hxr, hx]
      cases hsx : s.env (nm n) with
      | none => rw [hsx] at hx; simp at hx
      | some _ => simp
  have hσ2 : ∀ y, ¬ Touch nm n (compChain B nm c n K).next y → σ2 y = s.env y := by
    intro y hy
    have h1 : y ≠ "result" := fun e => hy (Or.inr e)
    have h2 : y ≠ nm n := fun e => hy (Or.inl ⟨n, Nat.le_refl n, by omega, e⟩)
    simp only [σ2, Env.set, h2, if_false, h1]
    cases B.resultInit <;> simp [Env.declare, Env.set, h1]
  have hP2 : P ⟨σ2, s.rows⟩ b := hstable s ⟨σ2, s.rows⟩ b hP rfl hσ2
  have hcoll' : evalE C.N σ2 (.deref (.var (nm n))) = .ok (.vec l) := by
    simp [evalE, σ2, Env.set]
  -- the loop
  have hi : ∀ j, n + 3 ≤ j → nm (n + 1) ≠ nm j := fun j hj e => by have := hinj _ _ e; omega
  obtain ⟨s', hit, hP'⟩ := loop_correct C QC hN nm hinj B.elemPtr (nm (n + 1)) c.steps (n + 3) hi K hwt P g Q
    (fun t t' b0 hPt hr hfr => hstable t t' b0 hPt hr (fun y hy => by
      apply hfr y
      · intro e; exact hy (Or.inl ⟨n + 1, by omega, by omega, e⟩)
      · rintro ⟨j, hj1, hj2, hj3⟩; exact hy (Or.inl ⟨j, by omega, by rw [hnext']; exact hj2, hj3⟩)))
    hK l ws ⟨σ2, s.rows⟩ b b' hmt hQ hel hfold hP2
  refine ⟨s', ?_, hP'⟩
  simp only [compChain, hcoll, Option.getD_some, execs]
  rw [hblock]
  simp only [exec, hcoll']
  rw [hit]

/-- **retrieval + loop** for one chain on a backend that retrieves by bank name. -/
theorem compChain_correct {β : Type} (C : Ctx D) (QC : QCtx D) (hN : QC.N = C.N)
    (B : Backend) (hB : BackendOK B) (nm : Nat → String)
    (hinj : ∀ i j, nm i = nm j → i = j) (hres : ∀ j, nm j ≠ "result")
    (c : Chain) (n : Nat) (K : CExpr → Option Ty → List Stmt)
    (cty : String) (l ws : List (Val D))
    (hcoll : B.collType c.coll = some cty) (hfind : C.ev.find c.bank = some (cty, .vec l))
    (hwt : wtSteps none c.steps = true) (hmt : ∀ v ∈ l, MethTyped v (methsSteps c.steps))
    (P : St D → β → Prop) (g : β → Val D → Except Fault β) (Q : Val D → Prop) (hQ : ∀ v ∈ l, Q v)
    (hstable : ∀ (s s' : St D) b, P s b → s'.rows = s.rows →
        (∀ y, ¬ Touch nm n (compChain B nm c n K).next y → s'.env y = s.env y) → P s' b)
    (hK : ∀ (s : St D) b b' w (v : Val D), P s b → g b w = .ok b' →
        evalE C.N s.env (stepConds B.elemPtr (.var (nm (n + 1))) none c.steps).2.1 = .ok w →
        (∀ t, (stepConds B.elemPtr (.var (nm (n + 1))) none c.steps).2.2 = some t → HasTy w t) →
        ((stepConds B.elemPtr (.var (nm (n + 1))) none c.steps).2.2 = none → w = v ∧ Q v) →
        ∃ s', execs C (K (stepConds B.elemPtr (.var (nm (n + 1))) none c.steps).2.1
                          (stepConds B.elemPtr (.var (nm (n + 1))) none c.steps).2.2) s = .ok s' ∧ P s' b')
    (s : St D) (b b' : β) (hx : (s.env (nm n)).isSome = true)
    (hel : elemsSem QC c.steps l = .ok ws) (hfold : foldG g ws b = .ok b') (hP : P s b) :
    ∃ s', execs C (compChain B nm c n K).stmts s = .ok s' ∧ P s' b' :=
  compChain_correct_tok C QC hN B hB.base nm hinj hres c n (tokChain_of_notToken hB.notToken nm C c n) K cty l ws
    hcoll hfind hwt hmt P g Q hQ hstable hK s b b' hx hel hfold hP

/-! ## the token table (`Package.tokens`) -/

/-- looking a token up in a table whose token names are pairwise distinct finds its own entry -/
theorem tokenBank_of_mem (C : Ctx D) (hnd : (C.tokens.map (·.1)).Nodup) :
    ∀ t ∈ C.tokens, C.tokenBank t.1 = some t.2 := by
  intro t ht
  simp only [Ctx.tokenBank]
  generalize C.tokens = l at hnd ht
  induction l with
  | nil => simp at ht
  | cons hd tl ih =>
    obtain ⟨t0, ty0, b0⟩ := hd
    simp only [List.map_cons, List.nodup_cons] at hnd
    simp only [Ctx.tokenBank.go]
    rcases List.mem_cons.1 ht with heq | hm
    · subst heq; simp
    · have hne : t0 ≠ t.1 := fun e => hnd.1 (List.mem_map.2 ⟨t, hm, e.symm⟩)
      simp only [hne, if_false]
      exact ih hnd.2 hm

/-- the token-table entry of the chain compiled at supply position `n` -/
def chainToks (B : Backend) (nm : Nat → String) (c : Chain) (n : Nat) : List (String × String × String) :=
  [(nm (n + 2), (B.collType c.coll).getD "?", c.bank)]

/-- `banksOf` over the statements of one chain (token backend): one entry, the chain's bank consumed -/
theorem banksOf_chain (B : Backend) (ht : B.how = "token") (nm : Nat → String) (c : Chain) (n : Nat)
    (K : CExpr → Option Ty → List Stmt) (rest : List Stmt) (bs : List String) :
    banksOf B ((compChain B nm c n K).stmts ++ rest) (c.bank :: bs) = chainToks B nm c n ++ banksOf B rest bs := by
  simp [compChain, ht, banksOf, chainToks]

theorem banksOf_ite (B : Backend) (cnd : CExpr) (t e rest : List Stmt) (bs : List String) :
    banksOf B (.ite cnd t e :: rest) bs = banksOf B rest bs := by
  simp [banksOf]

end FaxVerif.Gen
